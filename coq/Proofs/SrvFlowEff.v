(* Proofs/SrvFlowEff.v - what each function of the stream loop does to the parts of the state flow control
   looks at: the stream table, the three windows, the initial window, the ids, the queue, the trace. *)
From H2V Require Import Base.Bytes Base.MachineInt Base.Result Gen.GenConsts Impl.ServerConn Proofs.SrvBase
  Proofs.SrvFlowDefs.
From Coq Require Import ZArith Lia ZifyN ZifyNat ZifyBool List.
Import ListNotations.
Local Open Scope N_scope.
Set Default Proof Using "Type".

(* outputs that carry no flow-control meaning *)
Definition quiet_out (o : outev) : Prop :=
  match strip o with OData _ _ _ | OHeaders _ _ _ | OWinUpd _ _ => False | _ => True end.

(* what does not change in a stream while frames are handled on it (everything but the header-decoding part,
   the request, and the window) *)
Definition same_send (a b : stream) : Prop :=
  st_id b = st_id a /\ st_state b = st_state a /\ st_orig b = st_orig a /\ st_started b = st_started a /\
  st_pending b = st_pending a /\ st_pendingEnd b = st_pendingEnd a /\ st_bodyStream b = st_bodyStream a /\
  st_bodySize b = st_bodySize a /\ st_bodyRead b = st_bodyRead a /\ st_responded b = st_responded a /\
  st_handlerRunning b = st_handlerRunning a /\ st_abandoned b = st_abandoned a /\ st_weReset b = st_weReset a.

Lemma same_send_refl a : same_send a a.
Proof. repeat split. Qed.
Lemma same_send_trans a b c : same_send a b -> same_send b c -> same_send a c.
Proof. unfold same_send. intros H1 H2. decompose [and] H1. decompose [and] H2. repeat split; congruence. Qed.
Lemma same_send_has_more a b : same_send a b -> has_more_to_send b = has_more_to_send a.
Proof.
  unfold same_send, has_more_to_send. intros (_ & _ & _ & _ & H1 & _ & H2 & _). rewrite H1, H2. reflexivity.
Qed.

Section Eff.
Variable hstate : Type.
Variable dec_field : hstate -> N -> bytes -> dec_res hstate.
Variable enc_field : hstate -> bytes -> bytes -> bool -> bytes * hstate.
Variable enc_set_max : hstate -> N -> hstate.
Variable cfg : config.
Notation sconn := (sconn hstate).
Implicit Types c : sconn.

(* ---------- trace extensions ---------- *)

Definition out_ext (P : outev -> Prop) c c' : Prop := exists new, sc_out c' = new ++ sc_out c /\ Forall P new.

Lemma out_ext_same P c c' : sc_out c' = sc_out c -> out_ext P c c'.
Proof. intro H. exists []. split; [assumption | constructor]. Qed.
Lemma out_ext_refl P c : out_ext P c c.
Proof. apply out_ext_same. reflexivity. Qed.
Lemma out_ext_trans P a b c : out_ext P a b -> out_ext P b c -> out_ext P a c.
Proof.
  intros (l1 & E1 & F1) (l2 & E2 & F2). exists (l2 ++ l1). split; [rewrite E2, E1, app_assoc; reflexivity|].
  apply Forall_app. split; assumption.
Qed.
Lemma out_ext_weaken (P Q : outev -> Prop) c c' : (forall o, P o -> Q o) -> out_ext P c c' -> out_ext Q c c'.
Proof. intros H (l & E & F). exists l. split; [assumption|]. eapply Forall_impl; eassumption. Qed.
Lemma out_ext_emit (P : outev -> Prop) c o : P o -> P (OLate o) -> out_ext P c (emit c o).
Proof.
  intros H1 H2. unfold out_ext. rewrite sc_out_emit. destruct (sc_wl_dead c); [apply out_ext_refl|].
  destruct (sc_sl_done c); [exists [OLate o] | exists [o]]; (split; [reflexivity | repeat constructor; assumption]).
Qed.
Lemma out_ext_note (P : outev -> Prop) c o : P o -> out_ext P c (note c o).
Proof. intro H. exists [o]. split; [reflexivity | repeat constructor; assumption]. Qed.
Lemma out_ext_cons (P : outev -> Prop) c c' o : sc_out c' = o :: sc_out c -> P o -> out_ext P c c'.
Proof. intros E H. exists [o]. split; [assumption | repeat constructor; assumption]. Qed.

(* ---------- quiet changes ---------- *)

Record Quiet c c' : Prop := mkQuiet {
  q_strms : sc_strms c' = sc_strms c;
  q_initWin : sc_initWin c' = sc_initWin c;
  q_clientWindow : sc_clientWindow c' = sc_clientWindow c;
  q_currentWindow : sc_currentWindow c' = sc_currentWindow c;
  q_lastID : sc_lastID c' = sc_lastID c;
  q_highestID : sc_highestID c <= sc_highestID c';
  q_readerQ : sc_readerQ c' = sc_readerQ c;
  q_rl_done : sc_rl_done c' = sc_rl_done c;
  q_wl_dead : sc_wl_dead c' = sc_wl_dead c;
  q_sl_done : sc_sl_done c' = sc_sl_done c \/ sc_sl_done c' = true;
  q_closing : sc_closing c = true -> sc_closing c' = true;
  q_out : out_ext quiet_out c c'
}.

Ltac quiet_upd :=
  constructor; sc_cbn;
  first [reflexivity | flia | (left; reflexivity) | (intro; assumption) | (apply out_ext_same; reflexivity) | assumption].

Lemma Quiet_refl c : Quiet c c.
Proof. quiet_upd. Qed.

Lemma Quiet_trans a b c : Quiet a b -> Quiet b c -> Quiet a c.
Proof.
  intros [a1 a2 a3 a4 a5 a6 a7 a8 a9 a10 a11 a12] [b1 b2 b3 b4 b5 b6 b7 b8 b9 b10 b11 b12].
  constructor.
  - rewrite b1; exact a1.
  - rewrite b2; exact a2.
  - rewrite b3; exact a3.
  - rewrite b4; exact a4.
  - rewrite b5; exact a5.
  - eapply N.le_trans; eassumption.
  - rewrite b7; exact a7.
  - rewrite b8; exact a8.
  - rewrite b9; exact a9.
  - destruct b10 as [E|E]; [rewrite E; exact a10 | right; exact E].
  - auto.
  - eapply out_ext_trans; eassumption.
Qed.

Lemma Quiet_upd_dec c d : Quiet c (upd_dec c d).
Proof. quiet_upd. Qed.
Lemma Quiet_upd_enc c d : Quiet c (upd_enc c d).
Proof. quiet_upd. Qed.
Lemma Quiet_upd_discard c a b n : Quiet c (upd_discard c a b n).
Proof. quiet_upd. Qed.
Lemma Quiet_upd_highestID c n : sc_highestID c <= n -> Quiet c (upd_highestID c n).
Proof. intro H. quiet_upd. Qed.
Lemma Quiet_upd_closing c r : Quiet c (upd_closing c true r).
Proof. quiet_upd. Qed.
Lemma Quiet_upd_ring c r o : Quiet c (upd_ring c r o).
Proof. quiet_upd. Qed.
Lemma Quiet_upd_out c o : out_ext quiet_out c (upd_out c o) -> Quiet c (upd_out c o).
Proof. intro H. quiet_upd. Qed.

Lemma Quiet_emit c o : quiet_out o -> Quiet c (emit c o).
Proof.
  intro H. rewrite emit_eq. apply Quiet_upd_out. rewrite <- emit_eq. apply out_ext_emit; assumption.
Qed.
Lemma Quiet_note c o : quiet_out o -> Quiet c (note c o).
Proof. intro H. unfold note. apply Quiet_upd_out. eapply out_ext_cons; [reflexivity | assumption]. Qed.
Lemma Quiet_write_reset c sid code : Quiet c (write_reset c sid code).
Proof. apply Quiet_emit. exact I. Qed.
Lemma Quiet_write_goaway c sid code : Quiet c (write_goaway c sid code).
Proof. rewrite write_goaway_eq. eapply Quiet_trans; [apply Quiet_upd_closing | apply Quiet_emit; exact I]. Qed.
Lemma Quiet_mark_closed c id w : Quiet c (mark_closed c id w).
Proof. unfold mark_closed. sc_split_ifs; auto using Quiet_refl, Quiet_upd_ring. Qed.
Lemma Quiet_brk c : Quiet c (fst (brk c)).
Proof.
  unfold brk, note. cbn [fst]. constructor; sc_cbn;
    first [reflexivity | flia | (right; reflexivity) | (intro; assumption) | (eapply out_ext_cons; [reflexivity | exact I])].
Qed.
Lemma Quiet_write_error c s e : Quiet c (fst (write_error c s e)).
Proof.
  rewrite write_error_fst. destruct e, s; auto using Quiet_write_goaway, Quiet_write_reset, Quiet_refl.
Qed.

(* ---------- header decoding touches the decoder and the discard state only ---------- *)

Definition DD c c' : Prop := exists d id prev n, c' = upd_discard (upd_dec c d) id prev n.

Lemma DD_refl c : DD c c.
Proof. exists (sc_dec c), (sc_discardID c), (sc_discardPrev c), (sc_discardFields c). destruct c; reflexivity. Qed.
Lemma DD_trans a b c : DD a b -> DD b c -> DD a c.
Proof. intros (d1 & i1 & p1 & n1 & ->) (d2 & i2 & p2 & n2 & ->). exists d2, i2, p2, n2. reflexivity. Qed.
Lemma DD_upd_dec c d : DD c (upd_dec c d).
Proof. exists d, (sc_discardID c), (sc_discardPrev c), (sc_discardFields c). destruct c; reflexivity. Qed.
Lemma DD_upd_discard c a b n : DD c (upd_discard c a b n).
Proof. exists (sc_dec c), a, b, n. destruct c; reflexivity. Qed.
Lemma DD_Quiet c c' : DD c c' -> Quiet c c'.
Proof. intros (d & i & p & n & ->). eapply Quiet_trans; [apply Quiet_upd_dec | apply Quiet_upd_discard]. Qed.
Lemma DD_out c c' : DD c c' -> sc_out c' = sc_out c.
Proof. intros (d & i & p & n & ->). reflexivity. Qed.

Lemma discard_fragment_DD c id frag eh : DD c (fst (discard_fragment dec_field cfg c id frag eh)).
Proof.
  unfold discard_fragment.
  destruct (discard_loop dec_field (S (length (sc_discardPrev c ++ frag))) eh (sc_dec c) (sc_discardFields c) (sc_discardPrev c ++ frag))
    as [[[d' fields] carry] e].
  destruct e; cbn [fst].
  - eapply DD_trans; [apply DD_upd_dec | apply DD_upd_discard].
  - destruct eh; cbn [fst]; [eapply DD_trans; [apply DD_upd_dec | apply DD_upd_discard]|].
    match goal with |- context [if ?b then _ else _] => destruct b end; cbn [fst];
      (eapply DD_trans; [apply DD_upd_dec | apply DD_upd_discard]).
Qed.

Lemma discard_header_block_DD c fr : DD c (fst (discard_header_block dec_field cfg c fr)).
Proof.
  unfold discard_header_block. destruct (fkind_eqb (sf_kind fr) KCont); [apply discard_fragment_DD|].
  eapply DD_trans; [apply DD_upd_discard | apply discard_fragment_DD].
Qed.

Lemma discard_or_break_Quiet c r : Quiet c (fst r) -> Quiet c (fst (discard_or_break r)).
Proof.
  destruct r as [c1 [e|]]; cbn [fst discard_or_break]; intro H; [|assumption].
  destruct e; (eapply Quiet_trans; [eassumption|]).
  - eapply Quiet_trans; [apply Quiet_write_error | apply Quiet_brk].
  - eapply Quiet_trans; [apply Quiet_write_error | apply Quiet_brk].
  - eapply Quiet_trans; [apply (Quiet_note _ (OPanic 1 0) I) | apply Quiet_brk].
Qed.

(* handleHeaderFrame: connection and stream *)
Lemma handle_header_frame_eff c s fr :
  DD c (fst (fst (handle_header_frame dec_field cfg c s fr))) /\
  same_send s (snd (fst (handle_header_frame dec_field cfg c s fr))) /\
  st_window (snd (fst (handle_header_frame dec_field cfg c s fr))) = st_window s.
Proof.
  unfold handle_header_frame.
  destruct (st_headersFinished s && (negb (fkind_eqb (sf_kind fr) KHeaders) || negb (flag_has (sf_flags fr) FL_ES)));
    [cbn [fst snd]; auto using DD_refl, same_send_refl|].
  destruct (fkind_eqb (sf_kind fr) KHeaders && (sf_dep fr =? st_id s));
    [cbn [fst snd]; split; [apply DD_refl | split; [repeat split | reflexivity]]|].
  match goal with |- context [header_loop ?x1 ?x2 ?x3 ?x4 ?x5 ?x6 ?x7] => destruct (header_loop x1 x2 x3 x4 x5 x6 x7) as [[[d' h2] e] rest] end.
  destruct e as [[code|code|]|]; cbn [fst snd].
  - split; [apply DD_upd_dec | split; [repeat split | reflexivity]].
  - match goal with |- context [discard_fragment ?x1 ?x2 ?x3 ?x4 ?x5 ?x6] =>
      pose proof (discard_fragment_DD x3 x4 x5 x6) as D; destruct (discard_fragment x1 x2 x3 x4 x5 x6) as [c3 [de|]] end;
    cbn [fst snd] in *; (split; [|split; [repeat split | reflexivity]]);
    (eapply DD_trans; [apply DD_upd_dec|]; eapply DD_trans; [apply DD_upd_discard | exact D]).
  - split; [apply DD_upd_dec | split; [repeat split | reflexivity]].
  - match goal with |- context [if ?b then _ else _] => destruct b end; cbn [fst snd];
      (split; [apply DD_upd_dec | split; [repeat split | reflexivity]]).
Qed.

(* ---------- the frame: what no function of the stream loop touches except where stated ---------- *)

Record Frame c c' : Prop := mkFrame {
  f_currentWindow : sc_currentWindow c' = sc_currentWindow c;
  f_lastID : sc_lastID c <= sc_lastID c';
  f_highestID : sc_highestID c <= sc_highestID c';
  f_readerQ : sc_readerQ c' = sc_readerQ c;
  f_rl_done : sc_rl_done c' = sc_rl_done c;
  f_wl_dead : sc_wl_dead c' = sc_wl_dead c;
  f_sl_done : sc_sl_done c' = sc_sl_done c \/ sc_sl_done c' = true;
  f_closing : sc_closing c = true -> sc_closing c' = true
}.

Ltac frame_upd :=
  constructor; sc_cbn; first [reflexivity | flia | (left; reflexivity) | (intro; assumption) | assumption].

Lemma Frame_refl c : Frame c c.
Proof. frame_upd. Qed.
Lemma Frame_trans a b c : Frame a b -> Frame b c -> Frame a c.
Proof.
  intros [a2 a3 a4 a5 a6 a7 a8 a9] [b2 b3 b4 b5 b6 b7 b8 b9]. constructor.
  - rewrite b2; exact a2.
  - eapply N.le_trans; eassumption.
  - eapply N.le_trans; eassumption.
  - rewrite b5; exact a5.
  - rewrite b6; exact a6.
  - rewrite b7; exact a7.
  - destruct b8 as [E|E]; [rewrite E; exact a8 | right; exact E].
  - auto.
Qed.
Lemma Quiet_Frame c c' : Quiet c c' -> Frame c c'.
Proof. intros []. constructor; try assumption. rewrite q_lastID0. flia. Qed.
Lemma Frame_Quiet c c' : Frame c c' -> sc_strms c' = sc_strms c -> sc_initWin c' = sc_initWin c ->
  sc_clientWindow c' = sc_clientWindow c -> sc_lastID c' = sc_lastID c -> out_ext quiet_out c c' -> Quiet c c'.
Proof. intros [] ? ? ? ? ?. constructor; assumption. Qed.
Lemma Frame_upd_initWin c n : Frame c (upd_initWin c n). Proof. frame_upd. Qed.

Lemma Frame_upd_strms c l : Frame c (upd_strms c l). Proof. frame_upd. Qed.
Lemma Frame_upd_clientWindow c w : Frame c (upd_clientWindow c w). Proof. frame_upd. Qed.
Lemma Frame_upd_out c o : Frame c (upd_out c o). Proof. frame_upd. Qed.
Lemma Frame_upd_gone c l : Frame c (upd_gone c l). Proof. frame_upd. Qed.
Lemma Frame_upd_open c n : Frame c (upd_open c n). Proof. frame_upd. Qed.
Lemma Frame_upd_enc c h : Frame c (upd_enc c h). Proof. frame_upd. Qed.
Lemma Frame_upd_discard c a b n : Frame c (upd_discard c a b n). Proof. frame_upd. Qed.
Lemma Frame_upd_lastID c n : sc_lastID c <= n -> Frame c (upd_lastID c n). Proof. intro. frame_upd. Qed.
Lemma Frame_upd_highestID c n : sc_highestID c <= n -> Frame c (upd_highestID c n). Proof. intro. frame_upd. Qed.
Lemma Frame_put c x : Frame c (put c x). Proof. apply Frame_upd_strms. Qed.
Lemma Frame_emit c o : Frame c (emit c o). Proof. rewrite emit_eq. apply Frame_upd_out. Qed.
Lemma Frame_note c o : Frame c (note c o). Proof. apply Frame_upd_out. Qed.

Lemma Frame_release_stream c s : Frame c (release_stream c s).
Proof.
  unfold release_stream. destruct (fkind_eqb (st_orig s) KHeaders).
  - eapply Frame_trans; [apply Frame_upd_open | apply Frame_note].
  - apply Frame_note.
Qed.

Lemma Frame_close_stream c s : Frame c (close_stream c s).
Proof.
  rewrite close_stream_eq. cbv zeta.
  set (c2 := upd_strms (mark_closed c (st_id s) (st_weReset s)) (strms_del (sc_strms c) (st_id s))).
  assert (F2 : Frame c c2).
  { eapply Frame_trans; [apply Quiet_Frame, Quiet_mark_closed | apply Frame_upd_strms]. }
  assert (F3 : Frame c (@close_discard hstate c2 s)).
  { unfold close_discard. match goal with |- context [if ?b then _ else _] => destruct b end;
      [eapply Frame_trans; [exact F2 | apply Frame_upd_discard] | exact F2]. }
  destruct (st_handlerRunning s).
  - eapply Frame_trans; [exact F3 | apply Frame_upd_gone].
  - eapply Frame_trans; [exact F3 | apply Frame_release_stream].
Qed.

(* closeStream: the table loses the stream, the client window stays, the trace gets at most a release note *)
Lemma close_stream_out c s : out_ext quiet_out c (close_stream c s).
Proof.
  destruct (st_handlerRunning s) eqn:E.
  - apply out_ext_same. rewrite sc_out_close_stream, E. reflexivity.
  - eapply out_ext_cons; [rewrite sc_out_close_stream, E; reflexivity | exact I].
Qed.

(* ---------- handleFrame ---------- *)

Lemma same_send_set_headers_finished s b : same_send s (set_headers_finished s b).
Proof. repeat split. Qed.

Lemma handle_frame_eff c s fr :
  let r := handle_frame dec_field cfg c s fr in
  same_send s (snd (fst r)) /\
  (st_window (snd (fst r)) = st_window s \/
   (sf_kind fr = KWinUpd /\ st_window (snd (fst r)) = (st_window s + Z.of_N (sf_inc fr))%Z)) /\
  (sf_kind fr <> KData -> DD c (fst (fst r))).
Proof.
  cbv zeta. unfold handle_frame.
  destruct (verify_state s fr); [cbn [fst snd]; auto using same_send_refl, DD_refl|].
  destruct (sf_kind fr) eqn:K; cbn [fst snd];
    try solve [ repeat match goal with |- context [if ?b then _ else _] => destruct b end;
                cbn [fst snd]; (split; [repeat split | split; [auto | intros; try apply DD_refl; congruence]]) ].
  - (* HEADERS *)
    destruct ((3 <=? sstate_rank (st_state s)) && negb (continuing_headers s fr));
      [cbn [fst snd]; auto using same_send_refl, DD_refl|].
    pose proof (handle_header_frame_eff c s fr) as (D & S & W).
    destruct (handle_header_frame dec_field cfg c s fr) as [[c1 s1] e]. cbn [fst snd] in *.
    destruct e; [cbn [fst snd]; auto|].
    destruct (flag_has (sf_flags fr) FL_EH); [|cbn [fst snd]; auto].
    destruct (negb match st_prev s1 with [] => true | _ => false end);
      [cbn [fst snd]; split; [eapply same_send_trans; [exact S | apply same_send_set_headers_finished] | auto]|].
    destruct (validate_request_pseudo_headers _); cbn [fst snd];
      (split; [eapply same_send_trans; [exact S | apply same_send_set_headers_finished] | auto]).
  - (* CONTINUATION *)
    destruct ((3 <=? sstate_rank (st_state s)) && negb (continuing_headers s fr));
      [cbn [fst snd]; auto using same_send_refl, DD_refl|].
    pose proof (handle_header_frame_eff c s fr) as (D & S & W).
    destruct (handle_header_frame dec_field cfg c s fr) as [[c1 s1] e]. cbn [fst snd] in *.
    destruct e; [cbn [fst snd]; auto|].
    destruct (flag_has (sf_flags fr) FL_EH); [|cbn [fst snd]; auto].
    destruct (negb match st_prev s1 with [] => true | _ => false end);
      [cbn [fst snd]; split; [eapply same_send_trans; [exact S | apply same_send_set_headers_finished] | auto]|].
    destruct (validate_request_pseudo_headers _); cbn [fst snd];
      (split; [eapply same_send_trans; [exact S | apply same_send_set_headers_finished] | auto]).
Qed.

(* DATA: refused with a GOAWAY, or counted against the connection window *)
Definition data_accepts (s : stream) : bool :=
  st_headersFinished s && (sstate_eqb (st_state s) SOpen || sstate_eqb (st_state s) SReserved).

Lemma handle_frame_data c s fr : sf_kind fr = KData ->
  let recv := (st_recvBody s + Z.of_N (len (sf_payload fr)))%Z in
  if data_accepts s then
    handle_frame dec_field cfg c s fr =
    if ((0 <? cf_maxBody cfg) && (cf_maxBody cfg <? recv))%Z
    then (credit_conn_window cfg c (Z.of_N (sf_len fr)), set_recv s recv (st_req s), Some (EReset c_EnhanceYourCalm))
    else (consume_recv_window cfg c (set_recv s recv (rq_append_body (st_req s) (sf_payload fr))) fr (Z.of_N (sf_len fr)),
          set_recv s recv (rq_append_body (st_req s) (sf_payload fr)), None)
  else exists code, code <> c_NoError /\ handle_frame dec_field cfg c s fr = (c, s, Some (EGoAway code)).
Proof.
  intro K. cbv zeta. unfold handle_frame, verify_state, data_accepts, continuing_headers. rewrite K.
  cbn [fkind_eqb orb andb].
  destruct (st_state s) eqn:St; cbn [sstate_eqb sstate_rank N.eqb Pos.eqb orb andb N.leb N.compare Pos.compare Pos.compare_cont].
  - rewrite Bool.andb_false_r. exists c_ProtocolError. split; [discriminate | reflexivity].
  - destruct (st_headersFinished s); cbn [negb andb]; [reflexivity|].
    exists c_ProtocolError. split; [discriminate | reflexivity].
  - destruct (st_headersFinished s); cbn [negb andb]; [reflexivity|].
    exists c_ProtocolError. split; [discriminate | reflexivity].
  - rewrite Bool.andb_false_r. exists c_StreamClosedError. split; [discriminate | reflexivity].
  - rewrite Bool.andb_false_r. destruct (st_headersFinished s); cbn [negb].
    + exists c_StreamClosedError. split; [discriminate | reflexivity].
    + exists c_ProtocolError. split; [discriminate | reflexivity].
Qed.

(* ---------- handleState ---------- *)

(* what never changes when only the state (and the reset mark, the flags) of a stream is set *)
Definition same_win (a b : stream) : Prop :=
  st_id b = st_id a /\ st_window b = st_window a /\ st_orig b = st_orig a /\
  st_pending b = st_pending a /\ st_pendingEnd b = st_pendingEnd a /\ st_bodyStream b = st_bodyStream a /\
  st_bodySize b = st_bodySize a /\ st_bodyRead b = st_bodyRead a.

Lemma same_win_refl a : same_win a a.
Proof. repeat split. Qed.
Lemma same_win_trans a b d : same_win a b -> same_win b d -> same_win a d.
Proof.
  intros (a1 & a2 & a3 & a4 & a5 & a6 & a7 & a8) (b1 & b2 & b3 & b4 & b5 & b6 & b7 & b8).
  repeat split; etransitivity; eassumption.
Qed.
Lemma same_win_set_state a st : same_win a (set_state a st). Proof. repeat split. Qed.
Lemma same_win_set_weReset a : same_win a (set_weReset a). Proof. repeat split. Qed.
Lemma same_win_set_flags a x y z : same_win a (set_flags a x y z). Proof. repeat split. Qed.
Lemma same_win_has_more a b : same_win a b -> has_more_to_send b = has_more_to_send a.
Proof. intros (_ & _ & _ & H1 & _ & H2 & _). unfold has_more_to_send. rewrite H1, H2. reflexivity. Qed.

Lemma handle_state_eff fr s :
  same_win s (handle_state fr s) /\ st_responded (handle_state fr s) = st_responded s /\
  st_handlerRunning (handle_state fr s) = st_handlerRunning s /\ st_weReset (handle_state fr s) = st_weReset s.
Proof.
  unfold handle_state.
  repeat match goal with
         | |- context [if ?b then _ else _] => destruct b
         | |- context [match st_state ?x with _ => _ end] => destruct (st_state x)
         end; cbn; repeat split.
Qed.

(* ---------- closing streams ---------- *)

(* the table after some streams have been deleted *)
Inductive Dels : list stream -> list stream -> Prop :=
| Dels_refl l : Dels l l
| Dels_step l id l' : Dels (strms_del l id) l' -> Dels l l'.

Lemma Dels_trans a b d : Dels a b -> Dels b d -> Dels a d.
Proof. induction 1; [auto|]. intro H2. econstructor. eauto. Qed.
Lemma Dels_In a b : Dels a b -> forall s, In s b -> In s a.
Proof. induction 1; [auto|]. intros s Hs. eapply strms_del_In. eauto. Qed.

(* streams are closed: the table shrinks, nothing else that matters moves *)
Record Closes c c' : Prop := mkCloses {
  cl_frame : Frame c c';
  cl_clientWindow : sc_clientWindow c' = sc_clientWindow c;
  cl_lastID : sc_lastID c' = sc_lastID c;
  cl_highestID : sc_highestID c' = sc_highestID c;
  cl_out : out_ext quiet_out c c';
  cl_strms : Dels (sc_strms c) (sc_strms c')
}.

Lemma Closes_refl c : Closes c c.
Proof. constructor; auto using Frame_refl, out_ext_refl, Dels_refl. Qed.
Lemma Closes_trans a b c : Closes a b -> Closes b c -> Closes a c.
Proof.
  intros [a1 a2 a3 a4 a5 a6] [b1 b2 b3 b4 b5 b6]. constructor.
  - eapply Frame_trans; eassumption.
  - rewrite b2; exact a2.
  - rewrite b3; exact a3.
  - rewrite b4; exact a4.
  - eapply out_ext_trans; eassumption.
  - eapply Dels_trans; eassumption.
Qed.
Lemma Quiet_Closes c c' : Quiet c c' -> sc_highestID c' = sc_highestID c -> Closes c c'.
Proof.
  intros Q H. pose proof (Quiet_Frame _ _ Q). destruct Q. constructor; auto. rewrite q_strms0. constructor.
Qed.
Lemma Closes_close_stream c s : Closes c (close_stream c s).
Proof.
  constructor.
  - apply Frame_close_stream.
  - apply sc_clientWindow_close_stream.
  - apply sc_lastID_close_stream.
  - apply sc_highestID_close_stream.
  - apply close_stream_out.
  - rewrite sc_strms_close_stream. econstructor. constructor.
Qed.
Lemma Closes_write_reset c sid code : Closes c (write_reset c sid code).
Proof. apply Quiet_Closes; [apply Quiet_write_reset | apply sc_highestID_write_reset]. Qed.

Lemma implicit_close_Closes fuel : forall c sid, Closes c (implicit_close fuel c sid).
Proof.
  induction fuel as [|fuel IH]; intros c sid; cbn [implicit_close]; [apply Closes_refl|].
  destruct (sc_strms c) as [|n t]; [apply Closes_refl|].
  match goal with |- context [if ?b then _ else _] => destruct b end; [|apply Closes_refl].
  eapply Closes_trans; [apply Closes_close_stream|]. eapply Closes_trans; [apply Closes_write_reset | apply IH].
Qed.

Lemma close_heads_Closes n : forall c, Closes c (close_heads n c).
Proof.
  induction n as [|n IH]; intro c; cbn [close_heads]; [apply Closes_refl|].
  destruct (sc_strms c) as [|s t]; [apply Closes_refl|].
  eapply Closes_trans; [apply Closes_write_reset|]. eapply Closes_trans; [apply Closes_close_stream | apply IH].
Qed.

Lemma close_all_Closes ids : forall c, Closes c (close_all c ids).
Proof.
  induction ids as [|id t IH]; intro c; cbn [close_all]; [apply Closes_refl|].
  destruct (strms_search (sc_strms c) id); [|apply IH].
  eapply Closes_trans; [apply Closes_close_stream | apply IH].
Qed.

(* ---------- SETTINGS_INITIAL_WINDOW_SIZE over the table ---------- *)

Definition bumpall (delta : Z) : list stream -> list stream -> list stream * bool :=
  fix bumpall (pre : list stream) (l : list stream) : list stream * bool :=
    match l with
    | [] => (pre, false)
    | s :: t =>
      let s' := set_window s (st_window s + delta) in
      if (MAXWIN <? st_window s')%Z then (pre ++ s' :: t, true) else bumpall (pre ++ [s']) t
    end.

Definition bump (delta : Z) (s : stream) : stream := set_window s (st_window s + delta).

Lemma bumpall_false delta l : forall pre l', bumpall delta pre l = (l', false) ->
  l' = pre ++ map (bump delta) l /\ Forall (fun s => (st_window s + delta <= MAXWIN)%Z) l.
Proof.
  induction l as [|s t IH]; intros pre l'; cbn [bumpall map].
  - intro H; inversion H. rewrite app_nil_r. auto.
  - cbn [set_window st_window]. destruct (MAXWIN <? st_window s + delta)%Z eqn:E; [discriminate|].
    intro H. destruct (IH _ _ H) as [-> F]. rewrite <- app_assoc. split; [reflexivity|]. constructor; [flia | assumption].
Qed.

Definition settings_c0 c (fr : sframe) : sconn :=
  if sf_set_hastable fr then upd_enc c (enc_set_max (sc_enc c) (sf_set_table fr)) else c.

Lemma sl_frame_settings c fr : (sf_sid fr =? 0) = true -> sf_kind fr = KSettings ->
  sl_frame dec_field enc_set_max cfg c fr =
  let c0 := settings_c0 c fr in
  if sf_set_haswin fr then
    let newInit := signed 32 (sf_set_win fr) in
    let delta := (newInit - sc_initWin c0)%Z in
    let c1 := upd_initWin c0 newInit in
    let '(l', over) := bumpall delta [] (sc_strms c1) in
    let c2 := upd_strms c1 l' in
    if over then brk (write_goaway c2 0 c_FlowControlError)
    else cont (flush_streams (emit c2 OSettingsAck))
  else cont (emit c0 OSettingsAck).
Proof. intros H K. unfold sl_frame. rewrite H, K. reflexivity. Qed.

End Eff.

Arguments out_ext {hstate}. Arguments Quiet {hstate}. Arguments Frame {hstate}. Arguments DD {hstate}.
Arguments Closes {hstate}. Arguments settings_c0 {hstate}.
