(* Proofs/SrvFlowEff.v - what each function of the stream loop does to the parts of the state flow control
   looks at: the stream table, the three windows, the initial window, the ids, the queue, the trace. *)
From H2V Require Import Base.Bytes Base.MachineInt Base.Result Gen.GenConsts Impl.ServerConn Proofs.SrvBase
  Proofs.SrvFlowDefs.
From Coq Require Import ZArith Lia ZifyN ZifyNat ZifyBool List.
Import ListNotations.
Local Open Scope N_scope.
Set Default Proof Using "Type".

(* outputs that carry no flow-control meaning *)
Definition quiet_out (o : outev) : Prop :=
  match strip o with OData _ _ _ | OHeaders _ _ _ | OWinUpd _ _ => False | _ => True end.

(* what does not change in a stream while frames are handled on it (everything but the header-decoding part,
   the request, and the window) *)
Definition same_send (a b : stream) : Prop :=
  st_id b = st_id a /\ st_state b = st_state a /\ st_orig b = st_orig a /\ st_started b = st_started a /\
  st_pending b = st_pending a /\ st_pendingEnd b = st_pendingEnd a /\ st_bodyStream b = st_bodyStream a /\
  st_bodySize b = st_bodySize a /\ st_bodyRead b = st_bodyRead a /\ st_responded b = st_responded a /\
  st_handlerRunning b = st_handlerRunning a /\ st_abandoned b = st_abandoned a /\ st_weReset b = st_weReset a.

Lemma same_send_refl a : same_send a a.
Proof. repeat split. Qed.
Lemma same_send_trans a b c : same_send a b -> same_send b c -> same_send a c.
Proof. unfold same_send. intros H1 H2. decompose [and] H1. decompose [and] H2. repeat split; congruence. Qed.
Lemma same_send_has_more a b : same_send a b -> has_more_to_send b = has_more_to_send a.
Proof.
  unfold same_send, has_more_to_send. intros (_ & _ & _ & _ & H1 & _ & H2 & _). rewrite H1, H2. reflexivity.
Qed.

Section Eff.
Variable hstate : Type.
Variable dec_field : hstate -> N -> bytes -> dec_res hstate.
Variable enc_field : hstate -> bytes -> bytes -> bool -> bytes * hstate.
Variable enc_set_max : hstate -> N -> hstate.
Variable cfg : config.
Notation sconn := (sconn hstate).
Implicit Types c : sconn.

(* ---------- trace extensions ---------- *)

Definition out_ext (P : outev -> Prop) c c' : Prop := exists new, sc_out c' = new ++ sc_out c /\ Forall P new.

Lemma out_ext_same P c c' : sc_out c' = sc_out c -> out_ext P c c'.
Proof. intro H. exists []. split; [assumption | constructor]. Qed.
Lemma out_ext_refl P c : out_ext P c c.
Proof. apply out_ext_same. reflexivity. Qed.
Lemma out_ext_trans P a b c : out_ext P a b -> out_ext P b c -> out_ext P a c.
Proof.
  intros (l1 & E1 & F1) (l2 & E2 & F2). exists (l2 ++ l1). split; [rewrite E2, E1, app_assoc; reflexivity|].
  apply Forall_app. split; assumption.
Qed.
Lemma out_ext_weaken (P Q : outev -> Prop) c c' : (forall o, P o -> Q o) -> out_ext P c c' -> out_ext Q c c'.
Proof. intros H (l & E & F). exists l. split; [assumption|]. eapply Forall_impl; eassumption. Qed.
Lemma out_ext_emit (P : outev -> Prop) c o : P o -> P (OLate o) -> out_ext P c (emit c o).
Proof.
  intros H1 H2. unfold out_ext. rewrite sc_out_emit. destruct (sc_wl_dead c); [apply out_ext_refl|].
  destruct (sc_sl_done c); [exists [OLate o] | exists [o]]; (split; [reflexivity | repeat constructor; assumption]).
Qed.
Lemma out_ext_note (P : outev -> Prop) c o : P o -> out_ext P c (note c o).
Proof. intro H. exists [o]. split; [reflexivity | repeat constructor; assumption]. Qed.
Lemma out_ext_cons (P : outev -> Prop) c c' o : sc_out c' = o :: sc_out c -> P o -> out_ext P c c'.
Proof. intros E H. exists [o]. split; [assumption | repeat constructor; assumption]. Qed.

(* ---------- quiet changes ---------- *)

Record Quiet c c' : Prop := mkQuiet {
  q_strms : sc_strms c' = sc_strms c;
  q_initWin : sc_initWin c' = sc_initWin c;
  q_clientWindow : sc_clientWindow c' = sc_clientWindow c;
  q_currentWindow : sc_currentWindow c' = sc_currentWindow c;
  q_lastID : sc_lastID c' = sc_lastID c;
  q_highestID : sc_highestID c <= sc_highestID c';
  q_readerQ : sc_readerQ c' = sc_readerQ c;
  q_rl_done : sc_rl_done c' = sc_rl_done c;
  q_wl_dead : sc_wl_dead c' = sc_wl_dead c;
  q_sl_done : sc_sl_done c' = sc_sl_done c \/ sc_sl_done c' = true;
  q_closing : sc_closing c = true -> sc_closing c' = true;
  q_out : out_ext quiet_out c c'
}.

Ltac quiet_upd :=
  constructor; sc_cbn;
  first [reflexivity | flia | (left; reflexivity) | (intro; assumption) | (apply out_ext_same; reflexivity) | assumption].

Lemma Quiet_refl c : Quiet c c.
Proof. quiet_upd. Qed.

Lemma Quiet_trans a b c : Quiet a b -> Quiet b c -> Quiet a c.
Proof.
  intros [a1 a2 a3 a4 a5 a6 a7 a8 a9 a10 a11 a12] [b1 b2 b3 b4 b5 b6 b7 b8 b9 b10 b11 b12].
  constructor.
  - rewrite b1; exact a1.
  - rewrite b2; exact a2.
  - rewrite b3; exact a3.
  - rewrite b4; exact a4.
  - rewrite b5; exact a5.
  - eapply N.le_trans; eassumption.
  - rewrite b7; exact a7.
  - rewrite b8; exact a8.
  - rewrite b9; exact a9.
  - destruct b10 as [E|E]; [rewrite E; exact a10 | right; exact E].
  - auto.
  - eapply out_ext_trans; eassumption.
Qed.

Lemma Quiet_upd_dec c d : Quiet c (upd_dec c d).
Proof. quiet_upd. Qed.
Lemma Quiet_upd_enc c d : Quiet c (upd_enc c d).
Proof. quiet_upd. Qed.
Lemma Quiet_upd_discard c a b n : Quiet c (upd_discard c a b n).
Proof. quiet_upd. Qed.
Lemma Quiet_upd_highestID c n : sc_highestID c <= n -> Quiet c (upd_highestID c n).
Proof. intro H. quiet_upd. Qed.
Lemma Quiet_upd_closing c r : Quiet c (upd_closing c true r).
Proof. quiet_upd. Qed.
Lemma Quiet_upd_ring c r o : Quiet c (upd_ring c r o).
Proof. quiet_upd. Qed.
Lemma Quiet_upd_out c o : out_ext quiet_out c (upd_out c o) -> Quiet c (upd_out c o).
Proof. intro H. quiet_upd. Qed.

Lemma Quiet_emit c o : quiet_out o -> Quiet c (emit c o).
Proof.
  intro H. rewrite emit_eq. apply Quiet_upd_out. rewrite <- emit_eq. apply out_ext_emit; assumption.
Qed.
Lemma Quiet_note c o : quiet_out o -> Quiet c (note c o).
Proof. intro H. unfold note. apply Quiet_upd_out. eapply out_ext_cons; [reflexivity | assumption]. Qed.
Lemma Quiet_write_reset c sid code : Quiet c (write_reset c sid code).
Proof. apply Quiet_emit. exact I. Qed.
Lemma Quiet_write_goaway c sid code : Quiet c (write_goaway c sid code).
Proof. rewrite write_goaway_eq. eapply Quiet_trans; [apply Quiet_upd_closing | apply Quiet_emit; exact I]. Qed.
Lemma Quiet_mark_closed c id w : Quiet c (mark_closed c id w).
Proof. unfold mark_closed. sc_split_ifs; auto using Quiet_refl, Quiet_upd_ring. Qed.
Lemma Quiet_brk c : Quiet c (fst (brk c)).
Proof.
  unfold brk, note. cbn [fst]. constructor; sc_cbn;
    first [reflexivity | flia | (right; reflexivity) | (intro; assumption) | (eapply out_ext_cons; [reflexivity | exact I])].
Qed.
Lemma Quiet_write_error c s e : Quiet c (fst (write_error c s e)).
Proof.
  rewrite write_error_fst. destruct e, s; auto using Quiet_write_goaway, Quiet_write_reset, Quiet_refl.
Qed.

(* ---------- header decoding touches the decoder and the discard state only ---------- *)

Definition DD c c' : Prop := exists d id prev n, c' = upd_discard (upd_dec c d) id prev n.

Lemma DD_refl c : DD c c.
Proof. exists (sc_dec c), (sc_discardID c), (sc_discardPrev c), (sc_discardFields c). destruct c; reflexivity. Qed.
Lemma DD_trans a b c : DD a b -> DD b c -> DD a c.
Proof. intros (d1 & i1 & p1 & n1 & ->) (d2 & i2 & p2 & n2 & ->). exists d2, i2, p2, n2. reflexivity. Qed.
Lemma DD_upd_dec c d : DD c (upd_dec c d).
Proof. exists d, (sc_discardID c), (sc_discardPrev c), (sc_discardFields c). destruct c; reflexivity. Qed.
Lemma DD_upd_discard c a b n : DD c (upd_discard c a b n).
Proof. exists (sc_dec c), a, b, n. destruct c; reflexivity. Qed.
Lemma DD_Quiet c c' : DD c c' -> Quiet c c'.
Proof. intros (d & i & p & n & ->). eapply Quiet_trans; [apply Quiet_upd_dec | apply Quiet_upd_discard]. Qed.
Lemma DD_out c c' : DD c c' -> sc_out c' = sc_out c.
Proof. intros (d & i & p & n & ->). reflexivity. Qed.

Lemma discard_fragment_DD c id frag eh : DD c (fst (discard_fragment dec_field cfg c id frag eh)).
Proof.
  unfold discard_fragment.
  destruct (discard_loop dec_field (S (length (sc_discardPrev c ++ frag))) eh (sc_dec c) (sc_discardFields c) (sc_discardPrev c ++ frag))
    as [[[d' fields] carry] e].
  destruct e; cbn [fst].
  - eapply DD_trans; [apply DD_upd_dec | apply DD_upd_discard].
  - destruct eh; cbn [fst]; [eapply DD_trans; [apply DD_upd_dec | apply DD_upd_discard]|].
    match goal with |- context [if ?b then _ else _] => destruct b end; cbn [fst];
      (eapply DD_trans; [apply DD_upd_dec | apply DD_upd_discard]).
Qed.

Lemma discard_header_block_DD c fr : DD c (fst (discard_header_block dec_field cfg c fr)).
Proof.
  unfold discard_header_block. destruct (fkind_eqb (sf_kind fr) KCont); [apply discard_fragment_DD|].
  eapply DD_trans; [apply DD_upd_discard | apply discard_fragment_DD].
Qed.

Lemma discard_or_break_Quiet c r : Quiet c (fst r) -> Quiet c (fst (discard_or_break r)).
Proof.
  destruct r as [c1 [e|]]; cbn [fst discard_or_break]; intro H; [|assumption].
  destruct e; (eapply Quiet_trans; [eassumption|]).
  - eapply Quiet_trans; [apply Quiet_write_error | apply Quiet_brk].
  - eapply Quiet_trans; [apply Quiet_write_error | apply Quiet_brk].
  - eapply Quiet_trans; [apply (Quiet_note _ (OPanic 1 0) I) | apply Quiet_brk].
Qed.

(* handleHeaderFrame: connection and stream *)
Lemma handle_header_frame_eff c s fr :
  DD c (fst (fst (handle_header_frame dec_field cfg c s fr))) /\
  same_send s (snd (fst (handle_header_frame dec_field cfg c s fr))) /\
  st_window (snd (fst (handle_header_frame dec_field cfg c s fr))) = st_window s.
Proof.
  unfold handle_header_frame.
  destruct (st_headersFinished s && (negb (fkind_eqb (sf_kind fr) KHeaders) || negb (flag_has (sf_flags fr) FL_ES)));
    [cbn [fst snd]; auto using DD_refl, same_send_refl|].
  destruct (fkind_eqb (sf_kind fr) KHeaders && (sf_dep fr =? st_id s));
    [cbn [fst snd]; split; [apply DD_refl | split; [repeat split | reflexivity]]|].
  match goal with |- context [header_loop ?x1 ?x2 ?x3 ?x4 ?x5 ?x6 ?x7] => destruct (header_loop x1 x2 x3 x4 x5 x6 x7) as [[[d' h2] e] rest] end.
  destruct e as [[code|code|]|]; cbn [fst snd].
  - split; [apply DD_upd_dec | split; [repeat split | reflexivity]].
  - match goal with |- context [discard_fragment ?x1 ?x2 ?x3 ?x4 ?x5 ?x6] =>
      pose proof (discard_fragment_DD x3 x4 x5 x6) as D; destruct (discard_fragment x1 x2 x3 x4 x5 x6) as [c3 [de|]] end;
    cbn [fst snd] in *; (split; [|split; [repeat split | reflexivity]]);
    (eapply DD_trans; [apply DD_upd_dec|]; eapply DD_trans; [apply DD_upd_discard | exact D]).
  - split; [apply DD_upd_dec | split; [repeat split | reflexivity]].
  - match goal with |- context [if ?b then _ else _] => destruct b end; cbn [fst snd];
      (split; [apply DD_upd_dec | split; [repeat split | reflexivity]]).
Qed.

(* ---------- the frame: what no function of the stream loop touches except where stated ---------- *)

Record Frame c c' : Prop := mkFrame {
  f_currentWindow : sc_currentWindow c' = sc_currentWindow c;
  f_lastID : sc_lastID c <= sc_lastID c';
  f_highestID : sc_highestID c <= sc_highestID c';
  f_readerQ : sc_readerQ c' = sc_readerQ c;
  f_rl_done : sc_rl_done c' = sc_rl_done c;
  f_wl_dead : sc_wl_dead c' = sc_wl_dead c;
  f_sl_done : sc_sl_done c' = sc_sl_done c \/ sc_sl_done c' = true;
  f_closing : sc_closing c = true -> sc_closing c' = true
}.

Ltac frame_upd :=
  constructor; sc_cbn; first [reflexivity | flia | (left; reflexivity) | (intro; assumption) | assumption].

Lemma Frame_refl c : Frame c c.
Proof. frame_upd. Qed.
Lemma Frame_trans a b c : Frame a b -> Frame b c -> Frame a c.
Proof.
  intros [a2 a3 a4 a5 a6 a7 a8 a9] [b2 b3 b4 b5 b6 b7 b8 b9]. constructor.
  - rewrite b2; exact a2.
  - eapply N.le_trans; eassumption.
  - eapply N.le_trans; eassumption.
  - rewrite b5; exact a5.
  - rewrite b6; exact a6.
  - rewrite b7; exact a7.
  - destruct b8 as [E|E]; [rewrite E; exact a8 | right; exact E].
  - auto.
Qed.
Lemma Quiet_Frame c c' : Quiet c c' -> Frame c c'.
Proof. intros []. constructor; try assumption. rewrite q_lastID0. flia. Qed.
Lemma Frame_Quiet c c' : Frame c c' -> sc_strms c' = sc_strms c -> sc_initWin c' = sc_initWin c ->
  sc_clientWindow c' = sc_clientWindow c -> sc_lastID c' = sc_lastID c -> out_ext quiet_out c c' -> Quiet c c'.
Proof. intros [] ? ? ? ? ?. constructor; assumption. Qed.
Lemma Frame_upd_initWin c n : Frame c (upd_initWin c n). Proof. frame_upd. Qed.

Lemma Frame_upd_strms c l : Frame c (upd_strms c l). Proof. frame_upd. Qed.
Lemma Frame_upd_clientWindow c w : Frame c (upd_clientWindow c w). Proof. frame_upd. Qed.
Lemma Frame_upd_out c o : Frame c (upd_out c o). Proof. frame_upd. Qed.
Lemma Frame_upd_gone c l : Frame c (upd_gone c l). Proof. frame_upd. Qed.
Lemma Frame_upd_open c n : Frame c (upd_open c n). Proof. frame_upd. Qed.
Lemma Frame_upd_enc c h : Frame c (upd_enc c h). Proof. frame_upd. Qed.
Lemma Frame_upd_discard c a b n : Frame c (upd_discard c a b n). Proof. frame_upd. Qed.
Lemma Frame_upd_lastID c n : sc_lastID c <= n -> Frame c (upd_lastID c n). Proof. intro. frame_upd. Qed.
Lemma Frame_upd_highestID c n : sc_highestID c <= n -> Frame c (upd_highestID c n). Proof. intro. frame_upd. Qed.
Lemma Frame_put c x : Frame c (put c x). Proof. apply Frame_upd_strms. Qed.
Lemma Frame_emit c o : Frame c (emit c o). Proof. rewrite emit_eq. apply Frame_upd_out. Qed.
Lemma Frame_note c o : Frame c (note c o). Proof. apply Frame_upd_out. Qed.

Lemma Frame_release_stream c s : Frame c (release_stream c s).
Proof.
  unfold release_stream. destruct (fkind_eqb (st_orig s) KHeaders).
  - eapply Frame_trans; [apply Frame_upd_open | apply Frame_note].
  - apply Frame_note.
Qed.

Lemma Frame_close_stream c s : Frame c (close_stream c s).
Proof.
  rewrite close_stream_eq. cbv zeta.
  set (c2 := upd_strms (mark_closed c (st_id s) (st_weReset s)) (strms_del (sc_strms c) (st_id s))).
  assert (F2 : Frame c c2).
  { eapply Frame_trans; [apply Quiet_Frame, Quiet_mark_closed | apply Frame_upd_strms]. }
  assert (F3 : Frame c (@close_discard hstate c2 s)).
  { unfold close_discard. match goal with |- context [if ?b then _ else _] => destruct b end;
      [eapply Frame_trans; [exact F2 | apply Frame_upd_discard] | exact F2]. }
  destruct (st_handlerRunning s).
  - eapply Frame_trans; [exact F3 | apply Frame_upd_gone].
  - eapply Frame_trans; [exact F3 | apply Frame_release_stream].
Qed.

(* closeStream: the table loses the stream, the client window stays, the trace gets at most a release note *)
Lemma close_stream_out c s : out_ext quiet_out c (close_stream c s).
Proof.
  destruct (st_handlerRunning s) eqn:E.
  - apply out_ext_same. rewrite sc_out_close_stream, E. reflexivity.
  - eapply out_ext_cons; [rewrite sc_out_close_stream, E; reflexivity | exact I].
Qed.

(* ---------- handleFrame ---------- *)

Lemma same_send_set_headers_finished s b : same_send s (set_headers_finished s b).
Proof. repeat split. Qed.

Lemma handle_frame_eff c s fr :
  let r := handle_frame dec_field cfg c s fr in
  same_send s (snd (fst r)) /\
  (st_window (snd (fst r)) = st_window s \/
   (sf_kind fr = KWinUpd /\ st_window (snd (fst r)) = (st_window s + Z.of_N (sf_inc fr))%Z)) /\
  (sf_kind fr <> KData -> DD c (fst (fst r))).
Proof.
  cbv zeta. unfold handle_frame.
  destruct (verify_state s fr); [cbn [fst snd]; auto using same_send_refl, DD_refl|].
  destruct (sf_kind fr) eqn:K; cbn [fst snd];
    try solve [ repeat match goal with |- context [if ?b then _ else _] => destruct b end;
                cbn [fst snd]; (split; [repeat split | split; [auto | intros; try apply DD_refl; congruence]]) ].
  - (* HEADERS *)
    destruct ((3 <=? sstate_rank (st_state s)) && negb (continuing_headers s fr));
      [cbn [fst snd]; auto using same_send_refl, DD_refl|].
    pose proof (handle_header_frame_eff c s fr) as (D & S & W).
    destruct (handle_header_frame dec_field cfg c s fr) as [[c1 s1] e]. cbn [fst snd] in *.
    destruct e; [cbn [fst snd]; auto|].
    destruct (flag_has (sf_flags fr) FL_EH); [|cbn [fst snd]; auto].
    destruct (negb match st_prev s1 with [] => true | _ => false end);
      [cbn [fst snd]; split; [eapply same_send_trans; [exact S | apply same_send_set_headers_finished] | auto]|].
    destruct (validate_request_pseudo_headers _); cbn [fst snd];
      (split; [eapply same_send_trans; [exact S | apply same_send_set_headers_finished] | auto]).
  - (* CONTINUATION *)
    destruct ((3 <=? sstate_rank (st_state s)) && negb (continuing_headers s fr));
      [cbn [fst snd]; auto using same_send_refl, DD_refl|].
    pose proof (handle_header_frame_eff c s fr) as (D & S & W).
    destruct (handle_header_frame dec_field cfg c s fr) as [[c1 s1] e]. cbn [fst snd] in *.
    destruct e; [cbn [fst snd]; auto|].
    destruct (flag_has (sf_flags fr) FL_EH); [|cbn [fst snd]; auto].
    destruct (negb match st_prev s1 with [] => true | _ => false end);
      [cbn [fst snd]; split; [eapply same_send_trans; [exact S | apply same_send_set_headers_finished] | auto]|].
    destruct (validate_request_pseudo_headers _); cbn [fst snd];
      (split; [eapply same_send_trans; [exact S | apply same_send_set_headers_finished] | auto]).
Qed.

(* DATA: refused with a GOAWAY, or counted against the connection window *)
Definition data_accepts (s : stream) : bool :=
  st_headersFinished s && (sstate_eqb (st_state s) SOpen || sstate_eqb (st_state s) SReserved).

Lemma handle_frame_data c s fr : sf_kind fr = KData ->
  let recv := (st_recvBody s + Z.of_N (len (sf_payload fr)))%Z in
  if data_accepts s then
    handle_frame dec_field cfg c s fr =
    if ((0 <? cf_maxBody cfg) && (cf_maxBody cfg <? recv))%Z
    then (credit_conn_window cfg c (Z.of_N (sf_len fr)), set_recv s recv (st_req s), Some (EReset c_EnhanceYourCalm))
    else (consume_recv_window cfg c (set_recv s recv (rq_append_body (st_req s) (sf_payload fr))) fr (Z.of_N (sf_len fr)),
          set_recv s recv (rq_append_body (st_req s) (sf_payload fr)), None)
  else exists code, code <> c_NoError /\ handle_frame dec_field cfg c s fr = (c, s, Some (EGoAway code)).
Proof.
  intro K. cbv zeta. unfold handle_frame, verify_state, data_accepts, continuing_headers. rewrite K.
  cbn [fkind_eqb orb andb].
  destruct (st_state s) eqn:St; cbn [sstate_eqb sstate_rank N.eqb Pos.eqb orb andb N.leb N.compare Pos.compare Pos.compare_cont].
  - rewrite Bool.andb_false_r. exists c_ProtocolError. split; [discriminate | reflexivity].
  - destruct (st_headersFinished s); cbn [negb andb]; [reflexivity|].
    exists c_ProtocolError. split; [discriminate | reflexivity].
  - destruct (st_headersFinished s); cbn [negb andb]; [reflexivity|].
    exists c_ProtocolError. split; [discriminate | reflexivity].
  - rewrite Bool.andb_false_r. exists c_StreamClosedError. split; [discriminate | reflexivity].
  - rewrite Bool.andb_false_r. destruct (st_headersFinished s); cbn [negb].
    + exists c_StreamClosedError. split; [discriminate | reflexivity].
    + exists c_ProtocolError. split; [discriminate | reflexivity].
Qed.

(* ---------- handleState ---------- *)

(* what never changes when only the state (and the reset mark, the flags) of a stream is set *)
Definition same_win (a b : stream) : Prop :=
  st_id b = st_id a /\ st_window b = st_window a /\ st_orig b = st_orig a /\
  st_pending b = st_pending a /\ st_pendingEnd b = st_pendingEnd a /\ st_bodyStream b = st_bodyStream a /\
  st_bodySize b = st_bodySize a /\ st_bodyRead b = st_bodyRead a.

Lemma same_win_refl a : same_win a a.
Proof. repeat split. Qed.
Lemma same_win_trans a b d : same_win a b -> same_win b d -> same_win a d.
Proof.
  intros (a1 & a2 & a3 & a4 & a5 & a6 & a7 & a8) (b1 & b2 & b3 & b4 & b5 & b6 & b7 & b8).
  repeat split; etransitivity; eassumption.
Qed.
Lemma same_win_set_state a st : same_win a (set_state a st). Proof. repeat split. Qed.
Lemma same_win_set_weReset a : same_win a (set_weReset a). Proof. repeat split. Qed.
Lemma same_win_set_flags a x y z : same_win a (set_flags a x y z). Proof. repeat split. Qed.
Lemma same_win_has_more a b : same_win a b -> has_more_to_send b = has_more_to_send a.
Proof. intros (_ & _ & _ & H1 & _ & H2 & _). unfold has_more_to_send. rewrite H1, H2. reflexivity. Qed.

Lemma handle_state_eff fr s :
  same_win s (handle_state fr s) /\ st_responded (handle_state fr s) = st_responded s /\
  st_handlerRunning (handle_state fr s) = st_handlerRunning s /\ st_weReset (handle_state fr s) = st_weReset s.
Proof.
  unfold handle_state.
  repeat match goal with
         | |- context [if ?b then _ else _] => destruct b
         | |- context [match st_state ?x with _ => _ end] => destruct (st_state x)
         end; cbn; repeat split.
Qed.

(* ---------- closing streams ---------- *)

(* the table after some streams have been deleted *)
Inductive Dels : list stream -> list stream -> Prop :=
| Dels_refl l : Dels l l
| Dels_step l id l' : Dels (strms_del l id) l' -> Dels l l'.

Lemma Dels_trans a b d : Dels a b -> Dels b d -> Dels a d.
Proof. induction 1; [auto|]. intro H2. econstructor. eauto. Qed.
Lemma Dels_In a b : Dels a b -> forall s, In s b -> In s a.
Proof. induction 1; [auto|]. intros s Hs. eapply strms_del_In. eauto. Qed.

(* streams are closed: the table shrinks, nothing else that matters moves *)
Record Closes c c' : Prop := mkCloses {
  cl_frame : Frame c c';
  cl_clientWindow : sc_clientWindow c' = sc_clientWindow c;
  cl_initWin : sc_initWin c' = sc_initWin c;
  cl_lastID : sc_lastID c' = sc_lastID c;
  cl_highestID : sc_highestID c' = sc_highestID c;
  cl_out : out_ext quiet_out c c';
  cl_strms : Dels (sc_strms c) (sc_strms c')
}.

Lemma Closes_refl c : Closes c c.
Proof. constructor; auto using Frame_refl, out_ext_refl, Dels_refl. Qed.
Lemma Closes_trans a b c : Closes a b -> Closes b c -> Closes a c.
Proof.
  intros [a1 a2 a2' a3 a4 a5 a6] [b1 b2 b2' b3 b4 b5 b6]. constructor.
  - eapply Frame_trans; eassumption.
  - rewrite b2; exact a2.
  - rewrite b2'; exact a2'.
  - rewrite b3; exact a3.
  - rewrite b4; exact a4.
  - eapply out_ext_trans; eassumption.
  - eapply Dels_trans; eassumption.
Qed.
Lemma Quiet_Closes c c' : Quiet c c' -> sc_highestID c' = sc_highestID c -> Closes c c'.
Proof.
  intros Q H. pose proof (Quiet_Frame _ _ Q). destruct Q. constructor; auto. rewrite q_strms0. constructor.
Qed.
Lemma Closes_close_stream c s : Closes c (close_stream c s).
Proof.
  constructor.
  - apply Frame_close_stream.
  - apply sc_clientWindow_close_stream.
  - apply sc_initWin_close_stream.
  - apply sc_lastID_close_stream.
  - apply sc_highestID_close_stream.
  - apply close_stream_out.
  - rewrite sc_strms_close_stream. econstructor. constructor.
Qed.
Lemma Closes_write_reset c sid code : Closes c (write_reset c sid code).
Proof. apply Quiet_Closes; [apply Quiet_write_reset | apply sc_highestID_write_reset]. Qed.

Lemma implicit_close_Closes fuel : forall c sid, Closes c (implicit_close fuel c sid).
Proof.
  induction fuel as [|fuel IH]; intros c sid; cbn [implicit_close]; [apply Closes_refl|].
  destruct (sc_strms c) as [|n t]; [apply Closes_refl|].
  match goal with |- context [if ?b then _ else _] => destruct b end; [|apply Closes_refl].
  eapply Closes_trans; [apply Closes_close_stream|]. eapply Closes_trans; [apply Closes_write_reset | apply IH].
Qed.

Lemma close_heads_Closes n : forall c, Closes c (close_heads n c).
Proof.
  induction n as [|n IH]; intro c; cbn [close_heads]; [apply Closes_refl|].
  destruct (sc_strms c) as [|s t]; [apply Closes_refl|].
  eapply Closes_trans; [apply Closes_write_reset|]. eapply Closes_trans; [apply Closes_close_stream | apply IH].
Qed.

Lemma close_all_Closes ids : forall c, Closes c (close_all c ids).
Proof.
  induction ids as [|id t IH]; intro c; cbn [close_all]; [apply Closes_refl|].
  destruct (strms_search (sc_strms c) id); [|apply IH].
  eapply Closes_trans; [apply Closes_close_stream | apply IH].
Qed.

(* ---------- SETTINGS_INITIAL_WINDOW_SIZE over the table ---------- *)

Definition bumpall (delta : Z) : list stream -> list stream -> list stream * bool :=
  fix bumpall (pre : list stream) (l : list stream) : list stream * bool :=
    match l with
    | [] => (pre, false)
    | s :: t =>
      let s' := set_window s (st_window s + delta) in
      if (MAXWIN <? st_window s')%Z then (pre ++ s' :: t, true) else bumpall (pre ++ [s']) t
    end.

Definition bump (delta : Z) (s : stream) : stream := set_window s (st_window s + delta).

Lemma bumpall_false delta l : forall pre l', bumpall delta pre l = (l', false) ->
  l' = pre ++ map (bump delta) l /\ Forall (fun s => (st_window s + delta <= MAXWIN)%Z) l.
Proof.
  induction l as [|s t IH]; intros pre l'; cbn [bumpall map].
  - intro H; inversion H. rewrite app_nil_r. auto.
  - cbn [set_window st_window]. destruct (MAXWIN <? st_window s + delta)%Z eqn:E; [discriminate|].
    intro H. destruct (IH _ _ H) as [-> F]. rewrite <- app_assoc. split; [reflexivity|]. constructor; [flia | assumption].
Qed.

Definition settings_c0 c (fr : sframe) : sconn :=
  if sf_set_hastable fr then upd_enc c (enc_set_max (sc_enc c) (sf_set_table fr)) else c.

Lemma sl_frame_settings c fr : (sf_sid fr =? 0) = true -> sf_kind fr = KSettings ->
  sl_frame dec_field enc_set_max cfg c fr =
  let c0 := settings_c0 c fr in
  if sf_set_haswin fr then
    let newInit := signed 32 (sf_set_win fr) in
    let delta := (newInit - sc_initWin c0)%Z in
    let c1 := upd_initWin c0 newInit in
    let '(l', over) := bumpall delta [] (sc_strms c1) in
    let c2 := upd_strms c1 l' in
    if over then brk (write_goaway c2 0 c_FlowControlError)
    else cont (flush_streams (emit c2 OSettingsAck))
  else cont (emit c0 OSettingsAck).
Proof. intros H K. unfold sl_frame. rewrite H, K. reflexivity. Qed.

(* ---------- receiving DATA: the receive window and WINDOW_UPDATEs only ---------- *)

Definition winupd_out (o : outev) : Prop := match strip o with OWinUpd _ _ => True | _ => False end.

Record Recv c c' : Prop := mkRecv {
  rv_strms : sc_strms c' = sc_strms c;
  rv_initWin : sc_initWin c' = sc_initWin c;
  rv_clientWindow : sc_clientWindow c' = sc_clientWindow c;
  rv_lastID : sc_lastID c' = sc_lastID c;
  rv_highestID : sc_highestID c' = sc_highestID c;
  rv_readerQ : sc_readerQ c' = sc_readerQ c;
  rv_rl_done : sc_rl_done c' = sc_rl_done c;
  rv_sl_done : sc_sl_done c' = sc_sl_done c;
  rv_wl_dead : sc_wl_dead c' = sc_wl_dead c;
  rv_closing : sc_closing c' = sc_closing c;
  rv_out : out_ext winupd_out c c'
}.

Lemma Recv_refl c : Recv c c.
Proof. constructor; auto using out_ext_refl. Qed.
Lemma Recv_DD c c' : DD c c' -> Recv c c'.
Proof. intros (d & i & p & n & ->). constructor; try reflexivity. apply out_ext_same. reflexivity. Qed.
Lemma Recv_upd_currentWindow c w : Recv c (upd_currentWindow c w).
Proof. constructor; try reflexivity. apply out_ext_same. reflexivity. Qed.
Lemma Recv_write_window_update c sid inc : Recv c (write_window_update c sid inc).
Proof.
  unfold write_window_update. constructor;
    rewrite ?sc_strms_emit, ?sc_initWin_emit, ?sc_clientWindow_emit, ?sc_lastID_emit, ?sc_highestID_emit,
      ?sc_readerQ_emit, ?sc_rl_done_emit, ?sc_sl_done_emit, ?sc_wl_dead_emit, ?sc_closing_emit; try reflexivity.
  apply out_ext_emit; exact I.
Qed.
Lemma Recv_trans a b c : Recv a b -> Recv b c -> Recv a c.
Proof.
  intros [a1 a2 a3 a4 a5 a6 a7 a8 a9 a10 a11] [b1 b2 b3 b4 b5 b6 b7 b8 b9 b10 b11]. constructor.
  - rewrite b1; exact a1.
  - rewrite b2; exact a2.
  - rewrite b3; exact a3.
  - rewrite b4; exact a4.
  - rewrite b5; exact a5.
  - rewrite b6; exact a6.
  - rewrite b7; exact a7.
  - rewrite b8; exact a8.
  - rewrite b9; exact a9.
  - rewrite b10; exact a10.
  - eapply out_ext_trans; eassumption.
Qed.
Lemma Recv_credit c n : Recv c (credit_conn_window cfg c n).
Proof.
  unfold credit_conn_window. destruct (n <=? 0)%Z; [apply Recv_refl|].
  match goal with |- context [if ?b then _ else _] => destruct b end.
  - eapply Recv_trans; [apply Recv_upd_currentWindow | apply Recv_write_window_update].
  - apply Recv_upd_currentWindow.
Qed.
Lemma Recv_consume c s fr n : Recv c (consume_recv_window cfg c s fr n).
Proof.
  unfold consume_recv_window. destruct (n <=? 0)%Z; [apply Recv_refl|].
  destruct (flag_has (sf_flags fr) FL_ES); [apply Recv_credit|].
  eapply Recv_trans; [apply Recv_write_window_update | apply Recv_credit].
Qed.

Lemma handle_frame_Recv c s fr : Recv c (fst (fst (handle_frame dec_field cfg c s fr))).
Proof.
  destruct (fkind_eqb (sf_kind fr) KData) eqn:K.
  - assert (K' : sf_kind fr = KData) by (destruct (sf_kind fr); try discriminate; reflexivity).
    pose proof (handle_frame_data c s fr K') as D. cbv zeta in D. destruct (data_accepts s).
    + rewrite D. match goal with |- context [if ?b then _ else _] => destruct b end; cbn [fst];
        [apply Recv_credit | apply Recv_consume].
    + destruct D as (code & _ & ->). apply Recv_refl.
  - apply Recv_DD. apply (handle_frame_eff c s fr). intro K'. rewrite K' in K. discriminate.
Qed.

(* ---------- the stream loop's frame arm, leaf by leaf ---------- *)

Definition new_strm c (fr : sframe) : stream :=
  set_orig_started (new_stream (sf_sid fr) (sc_initWin c)) (sf_kind fr) (sc_now c).

(* where the stream a frame is handled on comes from: the table, or it is opened by this HEADERS frame *)
Inductive Origin c (fr : sframe) : sconn -> stream -> Prop :=
| Or_found s : sf_sid fr <= sc_lastID c -> strms_search (sc_strms c) (sf_sid fr) = Some s -> Origin c fr c s
| Or_created : sf_kind fr = KHeaders ->
    (if sf_sid fr <=? sc_lastID c then strms_search (sc_strms c) (sf_sid fr) else None) = None ->
    sc_highestID c < sf_sid fr -> sc_lastID c <= sf_sid fr ->
    Origin c fr (upd_open (upd_strms (upd_lastID (upd_highestID c (sf_sid fr)) (sf_sid fr)) (sc_strms c ++ [new_strm c fr]))
                          (sc_open c + 1)) (new_strm c fr).

(* handleFrame went through, or failed with a stream error: the connection and the stream afterFrame gets *)
Definition HFok c2 (s : stream) (fr : sframe) cX (sX : stream) : Prop :=
  let '(c3, s3, e) := handle_frame dec_field cfg c2 s fr in
  match e with
  | None => cX = c3 /\ sX = s3
  | Some (EReset code) => cX = write_reset c3 (st_id s3) code /\ sX = set_state (set_state (set_weReset s3) SClosed) SClosed
  | Some (EGoAway code) => code = c_NoError /\ cX = write_goaway c3 (st_id s3) code /\ sX = set_state (set_state s3 SClosed) SClosed
  | Some EPanic => False
  end.

Inductive SLF c (fr : sframe) : sconn -> Prop :=
| SLF_quiet c' : Quiet c c' ->
    (sf_kind fr = KData -> sf_sid fr <> 0 -> sc_closing c' = true \/ sc_sl_done c' = true) ->
    (sf_sid fr = 0 -> sf_kind fr = KSettings -> sf_set_haswin fr = false) -> SLF c fr c'
| SLF_dead c' : Frame c c' -> out_ext quiet_out c c' -> sc_sl_done c' = true -> SLF c fr c'
| SLF_settings : sf_sid fr = 0 -> sf_kind fr = KSettings -> sf_set_haswin fr = true ->
    let c0 := settings_c0 c fr in
    let newInit := signed 32 (sf_set_win fr) in
    let delta := (newInit - sc_initWin c)%Z in
    Forall (fun s => (st_window s + delta <= MAXWIN)%Z) (sc_strms c) ->
    SLF c fr (flush_streams (emit (upd_strms (upd_initWin c0 newInit) (map (bump delta) (sc_strms c))) OSettingsAck))
| SLF_winupd : sf_sid fr = 0 -> sf_kind fr = KWinUpd -> (sc_clientWindow c + Z.of_N (sf_inc fr) <= MAXWIN)%Z ->
    SLF c fr (flush_streams (upd_clientWindow c (sc_clientWindow c + Z.of_N (sf_inc fr))))
| SLF_credit : sf_sid fr <> 0 -> sf_kind fr = KData ->
    SLF c fr (credit_conn_window cfg c (Z.of_N (sf_len fr)))
| SLF_prev c1 s p : sf_sid fr <> 0 -> Origin c fr c1 s -> sf_kind fr = KHeaders -> In p (sc_strms c1) ->
    SLF c fr (put (write_goaway c1 (st_id p) c_ProtocolError) (set_state p SClosed))
| SLF_after c1 s c2 cX sX : sf_sid fr <> 0 -> Origin c fr c1 s -> Closes c1 c2 -> HFok c2 s fr cX sX ->
    SLF c fr (fst (after_frame cfg cX sX fr (sc_closing c))).

(* what HFok says about the connection and the stream afterFrame gets *)
Lemma HFok_eff c2 s fr cX sX : HFok c2 s fr cX sX ->
  exists c3 s3, Recv c2 c3 /\ Quiet c3 cX /\ sc_highestID cX = sc_highestID c3 /\ same_send s s3 /\
    (st_window s3 = st_window s \/ (sf_kind fr = KWinUpd /\ st_window s3 = (st_window s + Z.of_N (sf_inc fr))%Z)) /\
    same_win s3 sX /\ st_responded sX = st_responded s3 /\ st_handlerRunning sX = st_handlerRunning s3.
Proof.
  unfold HFok. intro HF.
  pose proof (handle_frame_Recv c2 s fr) as R.
  pose proof (handle_frame_eff c2 s fr) as (SS & WW & _).
  destruct (handle_frame dec_field cfg c2 s fr) as [[c3 s3] e]. cbn [fst snd] in R, SS, WW.
  exists c3, s3. split; [exact R|].
  destruct e as [[code|code|]|].
  - destruct HF as (_ & -> & ->). split; [apply Quiet_write_goaway|]. split; [apply sc_highestID_write_goaway|].
    split; [exact SS|]. split; [exact WW|]. repeat split.
  - destruct HF as (-> & ->). split; [apply Quiet_write_reset|]. split; [apply sc_highestID_write_reset|].
    split; [exact SS|]. split; [exact WW|]. repeat split.
  - contradiction.
  - destruct HF as (-> & ->). split; [apply Quiet_refl|]. split; [reflexivity|].
    split; [exact SS|]. split; [exact WW|]. repeat split.
Qed.

Ltac qs :=
  lazymatch goal with
  | |- Quiet _ (fst (cont ?x)) => change (fst (cont x)) with x; qs
  | |- Quiet _ (write_goaway _ _ _) => eapply Quiet_trans; [|apply Quiet_write_goaway]; qs
  | |- Quiet _ (write_reset _ _ _) => eapply Quiet_trans; [|apply Quiet_write_reset]; qs
  | |- Quiet _ (mark_closed _ _ _) => eapply Quiet_trans; [|apply Quiet_mark_closed]; qs
  | |- Quiet _ (fst (brk _)) => eapply Quiet_trans; [|apply Quiet_brk]; qs
  | |- Quiet _ (fst (write_error _ _ _)) => eapply Quiet_trans; [|apply Quiet_write_error]; qs
  | |- Quiet _ (upd_enc _ _) => eapply Quiet_trans; [|apply Quiet_upd_enc]; qs
  | |- Quiet _ (upd_highestID _ _) => eapply Quiet_trans; [|apply Quiet_upd_highestID; sc_cbn; flia]; qs
  | |- Quiet _ (emit _ OSettingsAck) => eapply Quiet_trans; [|apply Quiet_emit; exact I]; qs
  | |- Quiet _ (fst (discard_or_break _)) => apply discard_or_break_Quiet; qs
  | |- Quiet _ (fst (discard_header_block _ _ _ _)) => eapply Quiet_trans; [|apply DD_Quiet, discard_header_block_DD]; qs
  | |- Quiet ?a ?b => constr_eq a b; apply Quiet_refl
  end.

Ltac fs :=
  lazymatch goal with
  | |- Frame _ (fst (cont ?x)) => change (fst (cont x)) with x; fs
  | |- Frame _ (upd_clientWindow _ _) => eapply Frame_trans; [|apply Frame_upd_clientWindow]; fs
  | |- Frame _ (upd_strms _ _) => eapply Frame_trans; [|apply Frame_upd_strms]; fs
  | |- Frame _ (upd_initWin _ _) => eapply Frame_trans; [|apply Frame_upd_initWin]; fs
  | |- Frame _ (upd_enc _ _) => eapply Frame_trans; [|apply Frame_upd_enc]; fs
  | |- Frame _ (upd_open _ _) => eapply Frame_trans; [|apply Frame_upd_open]; fs
  | |- Frame _ (put _ _) => eapply Frame_trans; [|apply Frame_put]; fs
  | |- Frame _ (upd_lastID _ _) => eapply Frame_trans; [|apply Frame_upd_lastID; sc_cbn; flia]; fs
  | |- Frame _ (upd_highestID _ _) => eapply Frame_trans; [|apply Frame_upd_highestID; sc_cbn; flia]; fs
  | |- Frame _ (write_goaway _ _ _) => eapply Frame_trans; [|apply Quiet_Frame, Quiet_write_goaway]; fs
  | |- Frame _ (write_reset _ _ _) => eapply Frame_trans; [|apply Quiet_Frame, Quiet_write_reset]; fs
  | |- Frame _ (fst (brk _)) => eapply Frame_trans; [|apply Quiet_Frame, Quiet_brk]; fs
  | |- Frame _ (note _ _) => eapply Frame_trans; [|apply Frame_note]; fs
  | |- Frame _ (emit _ _) => eapply Frame_trans; [|apply Frame_emit]; fs
  | |- Frame _ (settings_c0 _ _) => unfold settings_c0; match goal with |- context [if ?b then _ else _] => destruct b end; fs
  | |- Frame ?a ?b => constr_eq a b; apply Frame_refl
  end.

Ltac os :=
  lazymatch goal with
  | |- out_ext _ _ (fst (cont ?x)) => change (fst (cont x)) with x; os
  | |- out_ext ?P ?a (upd_clientWindow ?x _) => apply (out_ext_trans P a x); [|apply out_ext_same; reflexivity]; os
  | |- out_ext ?P ?a (upd_strms ?x _) => apply (out_ext_trans P a x); [|apply out_ext_same; reflexivity]; os
  | |- out_ext ?P ?a (upd_initWin ?x _) => apply (out_ext_trans P a x); [|apply out_ext_same; reflexivity]; os
  | |- out_ext ?P ?a (upd_enc ?x _) => apply (out_ext_trans P a x); [|apply out_ext_same; reflexivity]; os
  | |- out_ext ?P ?a (upd_open ?x _) => apply (out_ext_trans P a x); [|apply out_ext_same; reflexivity]; os
  | |- out_ext ?P ?a (upd_lastID ?x _) => apply (out_ext_trans P a x); [|apply out_ext_same; reflexivity]; os
  | |- out_ext ?P ?a (upd_highestID ?x _) => apply (out_ext_trans P a x); [|apply out_ext_same; reflexivity]; os
  | |- out_ext ?P ?a (put ?x _) => apply (out_ext_trans P a x); [|apply out_ext_same; reflexivity]; os
  | |- out_ext _ _ (write_goaway _ _ _) => eapply out_ext_trans; [|apply q_out, Quiet_write_goaway]; os
  | |- out_ext _ _ (write_reset _ _ _) => eapply out_ext_trans; [|apply q_out, Quiet_write_reset]; os
  | |- out_ext _ _ (fst (brk _)) => eapply out_ext_trans; [|apply q_out, Quiet_brk]; os
  | |- out_ext _ _ (note _ (OPanic _ _)) => eapply out_ext_trans; [|apply out_ext_note; exact I]; os
  | |- out_ext _ _ (settings_c0 _ _) => unfold settings_c0; match goal with |- context [if ?b then _ else _] => destruct b end; os
  | |- out_ext _ ?a ?b => constr_eq a b; apply out_ext_refl
  end.

Lemma Origin_Frame c fr c1 s : Origin c fr c1 s -> Frame c c1 /\ out_ext quiet_out c c1.
Proof.
  destruct 1; [split; [apply Frame_refl | apply out_ext_refl]|]. split; [fs | os].
Qed.

Lemma get_previous_headers_In l p : get_previous_headers l = Some p -> In p l.
Proof.
  unfold get_previous_headers. intro H.
  destruct (filter (fun s => fkind_eqb (st_orig s) KHeaders) (rev l)) as [|a [|b t]] eqn:F; try discriminate.
  inversion H; subst. assert (I : In p (filter (fun s => fkind_eqb (st_orig s) KHeaders) (rev l))) by (rewrite F; right; left; reflexivity).
  apply filter_In in I. destruct I as [I _]. apply in_rev. assumption.
Qed.

(* a connection error (or a decoder panic) out of handleFrame leaves everything but the decoder alone *)
Lemma handle_frame_fatal c s fr c3 s3 e : handle_frame dec_field cfg c s fr = (c3, s3, Some e) ->
  match e with EReset _ => False | _ => True end -> DD c c3.
Proof.
  intros HF He. destruct (fkind_eqb (sf_kind fr) KData) eqn:K.
  - assert (K' : sf_kind fr = KData) by (destruct (sf_kind fr); try discriminate; reflexivity).
    pose proof (handle_frame_data c s fr K') as D. cbv zeta in D. destruct (data_accepts s).
    + rewrite D in HF. destruct (_ && _)%bool in HF; inversion HF; subst; contradiction.
    + destruct D as (code & _ & D). rewrite D in HF. inversion HF; subst. apply DD_refl.
  - pose proof (handle_frame_eff c s fr) as (_ & _ & D). rewrite HF in D. cbn [fst] in D. apply D.
    intro K'. rewrite K' in K. discriminate.
Qed.

Definition sl_tail (fr : sframe) (wasClosing : bool) c1 (s : stream) : sconn * bool :=
      (* HEADERS prelude *)
      let pre2 : (sconn * bool) + sconn :=
        if fkind_eqb (sf_kind fr) KHeaders then
          match get_previous_headers (sc_strms c1) with
          | Some p =>
            if negb (st_headersFinished p) then
              let '(c2, p') := write_error c1 (Some p) (EGoAway c_ProtocolError) in
              inl (cont (match p' with Some p' => put c2 p' | None => c2 end))
            else inr (implicit_close (S (length (sc_strms c1))) c1 (st_id s))
          | None => inr (implicit_close (S (length (sc_strms c1))) c1 (st_id s))
          end
        else inr c1 in
      match pre2 with
      | inl r => r
      | inr c2 =>
        let '(c3, s3, e) := handle_frame dec_field cfg c2 s fr in
        match e with
        | Some e =>
          let '(c4, s4) := write_error c3 (Some s3) e in
          let s5 := match s4 with Some x => set_state x SClosed | None => set_state s3 SClosed end in
          match e with
          | EGoAway code => if negb (code =? c_NoError) then brk (put c4 s5) else after_frame cfg c4 s5 fr wasClosing
          | EReset _ => after_frame cfg c4 s5 fr wasClosing
          | EPanic => brk (note c3 (OPanic 1 0))
          end
        | None => after_frame cfg c3 s3 fr wasClosing
        end
      end.

Definition sl_pre c (fr : sframe) : (sconn * bool) + (sconn * stream) :=
    let wasClosing := sc_closing c in
    let found := if sf_sid fr <=? sc_lastID c then strms_search (sc_strms c) (sf_sid fr) else None in
      match found with
      | Some s => inr (c, s)
      | None =>
        if fkind_eqb (sf_kind fr) KRst then
          if (sc_lastID c <? sf_sid fr) && (sc_highestID c <? sf_sid fr)
          then inl (cont (write_goaway c (sf_sid fr) c_ProtocolError)) else inl (cont c)
        else if in_ring c (sf_sid fr) then
          let weReset := match ring_find c (sf_sid fr) with Some b => b | None => false end in
          match sf_kind fr with
          | KPriority | KWinUpd | KRst => inl (cont c)
          | KData =>
            if weReset then inl (cont (credit_conn_window cfg c (Z.of_N (sf_len fr))))
            else inl (cont (write_goaway c (sf_sid fr) c_StreamClosedError))
          | KHeaders =>
            if weReset then inl (discard_or_break (discard_header_block dec_field cfg c fr))
            else inl (cont (write_goaway c (sf_sid fr) c_StreamClosedError))
          | _ => inl (cont (write_goaway c (sf_sid fr) c_StreamClosedError))
          end
        else if fkind_eqb (sf_kind fr) KPriority then
          if sf_dep fr =? sf_sid fr then inl (cont (write_reset c (sf_sid fr) c_ProtocolError)) else inl (cont c)
        else if fkind_eqb (sf_kind fr) KHeaders && (sf_sid fr <=? sc_highestID c) then
          inl (cont (write_goaway c (sf_sid fr) c_ProtocolError))
        else
        let c := if fkind_eqb (sf_kind fr) KHeaders then upd_highestID c (sf_sid fr) else c in
        if fkind_eqb (sf_kind fr) KHeaders && ((cf_maxStreams cfg <=? sc_open c)%Z || wasClosing) then
          let c1 := mark_closed (write_reset c (sf_sid fr) c_RefusedStreamError) (sf_sid fr) true in
          inl (discard_or_break (discard_header_block dec_field cfg c1 fr))
        else if sf_sid fr <? sc_lastID c then inl (cont (write_goaway c (sf_sid fr) c_ProtocolError))
        else
          if fkind_eqb (sf_kind fr) KHeaders && sc_closing c then
            let c1 := mark_closed (write_reset c (sf_sid fr) c_RefusedStreamError) (sf_sid fr) true in
            inl (discard_or_break (discard_header_block dec_field cfg c1 fr))
          else
            let c1 := if fkind_eqb (sf_kind fr) KHeaders then upd_lastID c (sf_sid fr) else c in
            let s := set_orig_started (new_stream (sf_sid fr) (sc_initWin c1)) (sf_kind fr) (sc_now c1) in
            let c2 := upd_strms c1 (sc_strms c1 ++ [s]) in
            let c3 := if fkind_eqb (sf_kind fr) KHeaders then upd_open c2 (sc_open c2 + 1) else c2 in
            inr (c3, s)
      end.

Lemma sl_frame_stream c fr : (sf_sid fr =? 0) = false ->
  fkind_eqb (sf_kind fr) KCont && negb (sc_discardID c =? 0) && (sf_sid fr =? sc_discardID c) = false ->
  sl_frame dec_field enc_set_max cfg c fr =
  match sl_pre c fr with inl r => r | inr (c1, s) => sl_tail fr (sc_closing c) c1 s end.
Proof. intros H1 H2. unfold sl_frame. rewrite H1, H2. reflexivity. Qed.

Ltac p3 := first [ (intros E0; exfalso; flia) | (intros _ K0; congruence) | (intros _ _; assumption) ].

Lemma fkind_eqb_eq a b : fkind_eqb a b = true <-> a = b.
Proof. destruct a, b; cbn; split; intro H; try reflexivity; try discriminate. Qed.

Lemma sl_tail_SLF c fr c1 s : sf_sid fr <> 0 ->
  Origin c fr c1 s \/
  (sf_kind fr <> KHeaders /\ sf_kind fr <> KPriority /\ st_state s = SIdle /\ Frame c c1 /\ out_ext quiet_out c c1) ->
  SLF c fr (fst (sl_tail fr (sc_closing c) c1 s)).
Proof.
  intros NZ HO.
  assert (FO : Frame c c1 /\ out_ext quiet_out c c1).
  { destruct HO as [HO|(_ & _ & _ & A & B)]; [eapply Origin_Frame; eassumption | auto]. }
  destruct FO as [FO OO].
  unfold sl_tail.
  (* the HEADERS prelude *)
  assert (P2 : (exists p, sf_kind fr = KHeaders /\ In p (sc_strms c1) /\
                  SLF c fr (put (write_goaway c1 (st_id p) c_ProtocolError) (set_state p SClosed)) /\
                  (if fkind_eqb (sf_kind fr) KHeaders then
                     match get_previous_headers (sc_strms c1) with
                     | Some p =>
                       if negb (st_headersFinished p) then
                         let '(c2, p') := write_error c1 (Some p) (EGoAway c_ProtocolError) in
                         inl (cont (match p' with Some p' => put c2 p' | None => c2 end))
                       else inr (implicit_close (S (length (sc_strms c1))) c1 (st_id s))
                     | None => inr (implicit_close (S (length (sc_strms c1))) c1 (st_id s))
                     end
                   else inr c1) = inl (cont (put (write_goaway c1 (st_id p) c_ProtocolError) (set_state p SClosed))))
               \/
               (exists c2, Closes c1 c2 /\
                  (if fkind_eqb (sf_kind fr) KHeaders then
                     match get_previous_headers (sc_strms c1) with
                     | Some p =>
                       if negb (st_headersFinished p) then
                         let '(c2, p') := write_error c1 (Some p) (EGoAway c_ProtocolError) in
                         inl (cont (match p' with Some p' => put c2 p' | None => c2 end))
                       else inr (implicit_close (S (length (sc_strms c1))) c1 (st_id s))
                     | None => inr (implicit_close (S (length (sc_strms c1))) c1 (st_id s))
                     end
                   else inr c1) = inr c2)).
  { destruct (fkind_eqb (sf_kind fr) KHeaders) eqn:KH.
    - apply fkind_eqb_eq in KH.
      destruct (get_previous_headers (sc_strms c1)) as [p|] eqn:GP.
      + destruct (negb (st_headersFinished p)).
        * left. exists p. apply get_previous_headers_In in GP.
          split; [assumption|]. split; [assumption|]. split; [|reflexivity].
          destruct HO as [HO|(NH & _)]; [|contradiction]. eapply SLF_prev; eassumption.
        * right. eexists. split; [apply implicit_close_Closes | reflexivity].
      + right. eexists. split; [apply implicit_close_Closes | reflexivity].
    - right. exists c1. split; [apply Closes_refl | reflexivity]. }
  destruct P2 as [(p & KH & Hp & HS & ->) | (c2 & CL & ->)]; [exact HS|].
  destruct (handle_frame dec_field cfg c2 s fr) as [[c3 s3] e] eqn:HF.
  assert (F2 : Frame c c2) by (eapply Frame_trans; [exact FO | apply CL]).
  assert (O2 : out_ext quiet_out c c2) by (eapply out_ext_trans; [exact OO | apply CL]).
  destruct e as [e|].
  - destruct e as [code|code|].
    + (* connection error *)
      pose proof (handle_frame_fatal _ _ _ _ _ _ HF I) as D.
      cbn [write_error]. destruct (negb (code =? c_NoError)) eqn:NE.
      * apply SLF_dead; [| |reflexivity].
        -- eapply Frame_trans; [exact F2|]. eapply Frame_trans; [apply Quiet_Frame, DD_Quiet, D|]. fs.
        -- eapply out_ext_trans; [exact O2|]. eapply out_ext_trans; [apply q_out, DD_Quiet, D|]. os.
      * destruct HO as [HO|(NH & NP & SI & _)].
        -- eapply SLF_after; [exact NZ | exact HO | exact CL|]. unfold HFok. rewrite HF. repeat split. flia.
        -- (* a stream made by a frame that cannot open one: handleFrame fails with PROTOCOL_ERROR *)
           exfalso. unfold handle_frame, verify_state in HF. rewrite SI in HF.
           destruct (sf_kind fr); try contradiction; cbn in HF; inversion HF; subst; discriminate.
    + (* stream error *)
      destruct HO as [HO|(NH & NP & SI & _)].
      * cbn [write_error]. eapply SLF_after; [exact NZ | exact HO | exact CL|]. unfold HFok. rewrite HF. repeat split.
      * exfalso. unfold handle_frame, verify_state in HF. rewrite SI in HF.
        destruct (sf_kind fr); try contradiction; cbn in HF; inversion HF.
    + (* panic *)
      pose proof (handle_frame_fatal _ _ _ _ _ _ HF I) as D. cbn [write_error].
      apply SLF_dead; [| |reflexivity].
      * eapply Frame_trans; [exact F2|]. eapply Frame_trans; [apply Quiet_Frame, DD_Quiet, D|]. fs.
      * eapply out_ext_trans; [exact O2|]. eapply out_ext_trans; [apply q_out, DD_Quiet, D|]. os.
  - destruct HO as [HO|(NH & NP & SI & _)].
    + eapply SLF_after; [exact NZ | exact HO | exact CL|]. unfold HFok. rewrite HF. split; reflexivity.
    + exfalso. unfold handle_frame, verify_state in HF. rewrite SI in HF.
      destruct (sf_kind fr); try contradiction; cbn in HF; inversion HF.
Qed.

Theorem sl_frame_SLF c fr : SLF c fr (fst (sl_frame dec_field enc_set_max cfg c fr)).
Proof.
  destruct (sf_sid fr =? 0) eqn:Z0.
  - (* connection-level frames *)
    destruct (sf_kind fr) eqn:K.
    5:{ (* SETTINGS *)
      rewrite sl_frame_settings by assumption. cbv zeta.
      destruct (sf_set_haswin fr) eqn:HW.
      - destruct (bumpall _ [] _) as [l' over] eqn:B. destruct over.
        + apply SLF_dead; [fs | os | reflexivity].
        + apply bumpall_false in B. destruct B as [-> F]. cbn [app fst cont].
          replace (sc_strms (upd_initWin (settings_c0 c fr) (signed 32 (sf_set_win fr)))) with (sc_strms c) in *
            by (unfold settings_c0; destruct (sf_set_hastable fr); reflexivity).
          replace (sc_initWin (settings_c0 c fr)) with (sc_initWin c) in *
            by (unfold settings_c0; destruct (sf_set_hastable fr); reflexivity).
          apply SLF_settings; try assumption. flia.
      - apply SLF_quiet; [|congruence|p3]. cbn [fst cont]. unfold settings_c0. destruct (sf_set_hastable fr); qs.
    }
    all: unfold sl_frame; rewrite Z0, K.
    all: try (apply SLF_quiet; [qs | first [congruence | (intros _ H; exfalso; apply H; flia)] | p3]).
    (* WINDOW_UPDATE on the connection *)
    destruct (MAXWIN <? sc_clientWindow c + Z.of_N (sf_inc fr))%Z eqn:E.
    + apply SLF_dead; [fs | os | reflexivity].
    + apply SLF_winupd; [flia | assumption | flia].
  - (* stream frames *)
    assert (NZ : sf_sid fr <> 0) by flia.
    destruct (fkind_eqb (sf_kind fr) KCont && negb (sc_discardID c =? 0) && (sf_sid fr =? sc_discardID c)) eqn:DC.
    + unfold sl_frame. rewrite Z0, DC. apply SLF_quiet; [qs| |p3]. intros K. rewrite K in DC. discriminate.
    + rewrite sl_frame_stream by assumption. unfold sl_pre. cbv zeta.
      assert (QD : forall c' code, sf_kind fr = KData -> sf_sid fr <> 0 ->
                     sc_closing (fst (cont (write_goaway c' (sf_sid fr) code))) = true \/
                     sc_sl_done (fst (cont (write_goaway c' (sf_sid fr) code))) = true).
      { intros. left. apply sc_closing_write_goaway. }
      destruct (if sf_sid fr <=? sc_lastID c then strms_search (sc_strms c) (sf_sid fr) else None) as [s|] eqn:FD.
      { destruct (sf_sid fr <=? sc_lastID c) eqn:LE; [|discriminate].
        apply sl_tail_SLF; [exact NZ|]. left. apply Or_found; [flia | assumption]. }
      destruct (fkind_eqb (sf_kind fr) KRst) eqn:KR.
      { apply fkind_eqb_eq in KR.
        destruct ((sc_lastID c <? sf_sid fr) && (sc_highestID c <? sf_sid fr)); (apply SLF_quiet; [qs | congruence | p3]). }
      destruct (in_ring c (sf_sid fr)) eqn:IR.
      { destruct (sf_kind fr) eqn:K;
          try (apply SLF_quiet; [qs | first [congruence | (intros _ _; left; apply sc_closing_write_goaway)] | p3]).
        - destruct (match ring_find c (sf_sid fr) with Some b => b | None => false end).
          + apply SLF_credit; [exact NZ | exact K].
          + apply SLF_quiet; [qs | (intros _ _; left; apply sc_closing_write_goaway) | p3].
        - destruct (match ring_find c (sf_sid fr) with Some b => b | None => false end);
            (apply SLF_quiet; [qs | congruence | p3]). }
      destruct (fkind_eqb (sf_kind fr) KPriority) eqn:KP.
      { apply fkind_eqb_eq in KP. destruct (sf_dep fr =? sf_sid fr); (apply SLF_quiet; [qs | congruence | p3]). }
      destruct (fkind_eqb (sf_kind fr) KHeaders) eqn:KH; cbn [andb].
      * (* HEADERS on a stream that is not there *)
        apply fkind_eqb_eq in KH.
        destruct (sf_sid fr <=? sc_highestID c) eqn:HI; [apply SLF_quiet; [qs | congruence | p3]|].
        sc_cbn.
        destruct ((cf_maxStreams cfg <=? sc_open c)%Z || sc_closing c); [apply SLF_quiet; [qs | congruence | p3]|].
        destruct (sf_sid fr <? sc_lastID c) eqn:LT; [apply SLF_quiet; [qs | congruence | p3]|].
        destruct (sc_closing c) eqn:CLO; [apply SLF_quiet; [qs | congruence | p3]|].
        pose proof (Or_created c fr KH FD) as OC. unfold new_strm in OC.
        match goal with |- SLF c fr (fst (sl_tail fr false ?c1 ?s)) => pose proof (sl_tail_SLF c fr c1 s NZ) as T end.
        rewrite CLO in T. apply T. left. apply OC; flia.
      * (* another frame on a stream that is not there *)
        destruct (sf_sid fr <? sc_lastID c) eqn:LT; [apply SLF_quiet; [qs | (intros _ _; left; apply sc_closing_write_goaway) | p3]|].
        apply sl_tail_SLF; [exact NZ|]. right.
        split; [intro E; rewrite E in KH; discriminate|].
        split; [intro E; rewrite E in KP; discriminate|].
        split; [reflexivity|]. split; [fs | os].
Qed.
End Eff.

Arguments out_ext {hstate}. Arguments Quiet {hstate}. Arguments Frame {hstate}. Arguments DD {hstate}.
Arguments Closes {hstate}. Arguments settings_c0 {hstate}.
Arguments Origin {hstate}. Arguments SLF {hstate}. Arguments HFok {hstate}. Arguments new_strm {hstate}.
Arguments sl_tail {hstate}. Arguments sl_pre {hstate}.

(* ---------- the read loop ---------- *)
Section RL.
Variable hstate : Type.
Variable cfg : config.
Notation sconn := (sconn hstate).
Implicit Types c : sconn.

(* what the read loop never touches *)
Record RLsame c c' : Prop := mkRLsame {
  rs_strms : sc_strms c' = sc_strms c;
  rs_initWin : sc_initWin c' = sc_initWin c;
  rs_clientWindow : sc_clientWindow c' = sc_clientWindow c;
  rs_currentWindow : sc_currentWindow c' = sc_currentWindow c;
  rs_lastID : sc_lastID c' = sc_lastID c;
  rs_highestID : sc_highestID c' = sc_highestID c;
  rs_sl_done : sc_sl_done c' = sc_sl_done c;
  rs_wl_dead : sc_wl_dead c' = sc_wl_dead c;
  rs_closing : sc_closing c = true -> sc_closing c' = true;
  rs_out : out_ext quiet_out c c'
}.

Definition fwd_ok (fr : sframe) : Prop := sf_sid fr = 0 -> sf_kind fr = KSettings \/ sf_kind fr = KWinUpd.

Ltac rs_upd :=
  constructor; sc_cbn;
  first [reflexivity | (intro; assumption) | (apply out_ext_same; reflexivity) | assumption].

Lemma RLsame_refl c : RLsame c c. Proof. rs_upd. Qed.
Lemma RLsame_trans a b c : RLsame a b -> RLsame b c -> RLsame a c.
Proof.
  intros [a1 a2 a3 a4 a5 a6 a7 a8 a9 a10] [b1 b2 b3 b4 b5 b6 b7 b8 b9 b10]. constructor.
  - rewrite b1; exact a1.
  - rewrite b2; exact a2.
  - rewrite b3; exact a3.
  - rewrite b4; exact a4.
  - rewrite b5; exact a5.
  - rewrite b6; exact a6.
  - rewrite b7; exact a7.
  - rewrite b8; exact a8.
  - auto.
  - eapply out_ext_trans; eassumption.
Qed.
Lemma RLsame_Quiet c c' : Quiet c c' -> sc_highestID c' = sc_highestID c -> sc_sl_done c' = sc_sl_done c -> RLsame c c'.
Proof. intros [] H1 H2. constructor; assumption. Qed.
Lemma RLsame_write_goaway c sid code : RLsame c (write_goaway c sid code).
Proof. apply RLsame_Quiet; [apply Quiet_write_goaway | apply sc_highestID_write_goaway | apply sc_sl_done_write_goaway]. Qed.
Lemma RLsame_emit c o : quiet_out o -> RLsame c (emit c o).
Proof. intro H. apply RLsame_Quiet; [apply Quiet_emit; assumption | apply sc_highestID_emit | apply sc_sl_done_emit]. Qed.
Lemma RLsame_rl_exit c why : RLsame c (rl_exit c why).
Proof. unfold rl_exit, note. constructor; sc_cbn; first [reflexivity | (intro; assumption) | idtac]. eapply out_ext_cons; [reflexivity | exact I]. Qed.
Lemma RLsame_upd_expectCont c n : RLsame c (upd_expectCont c n). Proof. rs_upd. Qed.
Lemma RLsame_upd_readerQ c q : RLsame c (upd_readerQ c q). Proof. rs_upd. Qed.
Lemma RLsame_write_error c e : RLsame c (fst (write_error c None e)).
Proof. destruct e; cbn [write_error fst]; auto using RLsame_write_goaway, RLsame_refl. Qed.

Lemma rl_step_eff c i :
  RLsame c (rl_step cfg c i) /\
  ((sc_readerQ (rl_step cfg c i) = sc_readerQ c /\
    (forall fr, i = RFrame fr -> sf_kind fr = KData ->
       sc_closing (rl_step cfg c i) = true \/ sc_sl_done (rl_step cfg c i) = true)) \/
   (exists fr, i = RFrame fr /\ sc_readerQ (rl_step cfg c i) = sc_readerQ c ++ [fr] /\ fwd_ok fr /\
               sc_sl_done c = false /\ sc_rl_done (rl_step cfg c i) = sc_rl_done c)).
Proof.
  assert (CG : forall c0 sid code why, sc_closing (rl_exit (write_goaway c0 sid code) why) = true).
  { intros. unfold rl_exit, note. sc_cbn. apply sc_closing_write_goaway. }
  assert (EX : forall c0 c1 why, RLsame c0 c1 -> RLsame c0 (rl_exit c1 why)).
  { intros. eapply RLsame_trans; [eassumption | apply RLsame_rl_exit]. }
  assert (FW : forall c1 fr, RLsame c c1 -> sc_readerQ c1 = sc_readerQ c -> sc_rl_done c1 = sc_rl_done c ->
             (sf_sid fr = 0 -> sf_kind fr = KSettings \/ sf_kind fr = KWinUpd) ->
             RLsame c (forward c1 fr) /\
             ((sc_readerQ (forward c1 fr) = sc_readerQ c /\
               (forall fr0, RFrame fr = RFrame fr0 -> sf_kind fr0 = KData ->
                  sc_closing (forward c1 fr) = true \/ sc_sl_done (forward c1 fr) = true)) \/
              (exists fr0, RFrame fr = RFrame fr0 /\ sc_readerQ (forward c1 fr) = sc_readerQ c ++ [fr0] /\ fwd_ok fr0 /\
                           sc_sl_done c = false /\ sc_rl_done (forward c1 fr) = sc_rl_done c))).
  { intros c1 fr R Q RD OK. unfold forward. destruct (sc_sl_done c1) eqn:SD.
    - split; [apply EX; assumption|]. left. split; [unfold rl_exit, note; sc_cbn; assumption|].
      intros _ _ _. right. unfold rl_exit, note. sc_cbn. assumption.
    - split; [eapply RLsame_trans; [eassumption | apply RLsame_upd_readerQ]|]. right. exists fr.
      split; [reflexivity|]. sc_cbn. rewrite Q. split; [reflexivity|]. split; [exact OK|].
      split; [rewrite <- (rs_sl_done _ _ R); assumption | assumption]. }
  destruct i as [fr| |code|]; cbn [rl_step].
  - (* a frame *)
    match goal with |- context [match ?R with inl c' => c' | inr c1 => _ end] => set (r := R) end.
    assert (HR : match r with
                 | inl c' => RLsame c c' /\ sc_readerQ c' = sc_readerQ c /\ sc_closing c' = true
                 | inr c1 => RLsame c c1 /\ sc_readerQ c1 = sc_readerQ c /\ sc_rl_done c1 = sc_rl_done c
                 end).
    { subst r. repeat match goal with |- context [if ?b then _ else _] => destruct b end. all: try
        first [ split; [apply EX, RLsame_write_goaway | split; [unfold rl_exit, note; sc_cbn; apply sc_readerQ_write_goaway | apply CG]]
              | split; [apply RLsame_upd_expectCont | split; reflexivity]
              | split; [apply RLsame_refl | split; reflexivity] ]. }
    destruct r as [c'|c1].
    + destruct HR as (R & Q & CL). split; [assumption|]. left. split; [assumption|]. auto.
    + destruct HR as (R & Q & RD).
      destruct (negb (sf_sid fr =? 0)) eqn:NZ.
      * destruct (check_frame_with_stream fr) as [e|] eqn:CK.
        -- split; [apply EX; eapply RLsame_trans; [eassumption | apply RLsame_write_error]|].
           left. split; [unfold rl_exit, note; sc_cbn; rewrite sc_readerQ_write_error; assumption|].
           intros _ _ _. left. unfold rl_exit, note. sc_cbn.
           unfold check_frame_with_stream in CK.
           destruct (N.land (sf_sid fr) 1 =? 0); [inversion CK; apply sc_closing_write_goaway|].
           destruct (sf_kind fr); inversion CK; apply sc_closing_write_goaway.
        -- apply FW; try assumption. intro. flia.
      * destruct (sf_kind fr) eqn:K;
          try (split; [apply EX; eapply RLsame_trans; [eassumption | apply RLsame_write_goaway]|];
               left; split; [unfold rl_exit, note; sc_cbn; rewrite sc_readerQ_write_goaway; assumption|];
               intros _ _ _; left; apply CG).
        -- (* SETTINGS *)
           destruct (negb (flag_has (sf_flags fr) FL_ES)).
           ++ apply FW; try assumption. intro. rewrite K. auto.
           ++ split; [assumption|]. left. split; [assumption|]. intros fr0 E K0. inversion E; subst. congruence.
        -- (* PING *)
           destruct (negb (flag_has (sf_flags fr) FL_ES)).
           ++ split; [eapply RLsame_trans; [eassumption | apply RLsame_emit; exact I]|]. left.
              split; [rewrite sc_readerQ_emit; assumption|]. intros fr0 E K0. inversion E; subst. congruence.
           ++ split; [assumption|]. left. split; [assumption|]. intros fr0 E K0. inversion E; subst. congruence.
        -- (* GOAWAY *)
           split; [apply EX; assumption|]. left. split; [unfold rl_exit, note; sc_cbn; assumption|].
           intros fr0 E K0. inversion E; subst. congruence.
        -- (* WINDOW_UPDATE *)
           destruct (sf_inc fr =? 0).
           ++ split; [apply EX; eapply RLsame_trans; [eassumption | apply RLsame_write_goaway]|].
              left; split; [unfold rl_exit, note; sc_cbn; rewrite sc_readerQ_write_goaway; assumption|].
              intros _ _ _; left; apply CG.
           ++ apply FW; try assumption. intro. rewrite K. auto.
  - destruct (negb (sc_expectCont c =? 0)).
    + split; [apply EX, RLsame_write_goaway|]. left.
      split; [unfold rl_exit, note; sc_cbn; apply sc_readerQ_write_goaway | discriminate].
    + split; [apply RLsame_refl|]. left. split; [reflexivity | discriminate].
  - destruct code as [code|].
    + split; [apply EX, RLsame_write_goaway|]. left.
      split; [unfold rl_exit, note; sc_cbn; apply sc_readerQ_write_goaway | discriminate].
    + split; [apply EX, RLsame_refl|]. left. split; [reflexivity | discriminate].
  - split; [apply EX, RLsame_refl|]. left. split; [reflexivity | discriminate].
Qed.
End RL.

Arguments RLsame {hstate}.
Arguments Recv {hstate}.
