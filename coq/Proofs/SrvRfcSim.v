(* Proofs/SrvRfcSim.v - C08: the invariant carried along a lockstep run (the abstraction
   relation R plus what its preservation needs), and the lemmas that re-establish it from
   a description of what a step did to the table, the ring and the outputs. *)
From H2V Require Import Base.Bytes Base.MachineInt Base.Result Gen.GenConsts Impl.ServerConn.
From H2V Require Import Proofs.SrvBase Proofs.SrvRfcDefs Proofs.SrvRfcSpec Proofs.SrvRfcModel.
From Coq Require Import ZArith Lia ZifyN ZifyNat ZifyBool.
Local Open Scope N_scope.

Definition active (x : RS.sstate) : bool :=
  match x with RS.Open | RS.HalfClosedLocal | RS.HalfClosedRemote => true | _ => false end.

(* the relation before the highest id is taken into account: an id that is neither in the
   table nor in the ring is not active in the specification *)
Definition rel1 (m : mview) (x : RS.sstate) : Prop :=
  match m with
  | MOld | MNew => active x = false
  | _ => rel m x
  end.

(* how the view of an id that a step does not touch may move: forgotten by the ring,
   or overtaken by a higher id *)
Definition vdrift (m m' : mview) : Prop :=
  m' = m \/ (match m with MTbl _ => False | _ => True end /\ match m' with MOld | MNew => True | _ => False end).

(* ... and its state in the specification *)
Definition sdrift (x x' : RS.sstate) : Prop := x' = x \/ (x = RS.Idle /\ x' = RS.Closed RS.Implicit).

Lemma rel_drift m m' x x' : rel m x -> vdrift m m' -> sdrift x x' -> rel1 m' x'.
Proof.
  intros Hr [->|[Hm Hm']] Hs.
  - destruct Hs as [->|[-> ->]].
    + destruct m as [st|b| |]; cbn in *; try exact Hr; subst; reflexivity.
    + destruct m as [st|b| |]; cbn in *; try reflexivity.
      * destruct st; try contradiction; discriminate.
      * destruct b; [discriminate | destruct Hr; discriminate].
  - destruct m' as [st|b| |]; try contradiction; cbn.
    + destruct m as [st|b| |]; try contradiction; cbn in Hr.
      * destruct b; [subst x | destruct Hr; subst x]; destruct Hs as [->|[E ->]]; try reflexivity; discriminate.
      * subst x. destruct Hs as [->|[E ->]]; reflexivity.
      * subst x. destruct Hs as [->|[E ->]]; reflexivity.
    + destruct m as [st|b| |]; try contradiction; cbn in Hr.
      * destruct b; [subst x | destruct Hr; subst x]; destruct Hs as [->|[E ->]]; try reflexivity; discriminate.
      * subst x. destruct Hs as [->|[E ->]]; reflexivity.
      * subst x. destruct Hs as [->|[E ->]]; reflexivity.
Qed.

Lemma sdrift_refl x : sdrift x x. Proof. left; reflexivity. Qed.
Lemma vdrift_refl m : vdrift m m. Proof. left; reflexivity. Qed.

Section Sim.
Variable hstate : Type.
Notation sconn := (sconn hstate).
Notation view := (view hstate).
Notation tbl := (tbl hstate).
Implicit Types c : sconn.

(* an untouched id: same table entry (as far as its state goes), ring entry kept or dropped,
   highest id not lowered *)
Lemma vdrift_intro c c' id :
  option_map st_state (tbl c' id) = option_map st_state (tbl c id) ->
  (ring_find c' id = ring_find c id \/ ring_find c' id = None) ->
  vdrift (view c id) (view c' id).
Proof.
  intros Ht Hr. unfold view. destruct (tbl c id) as [st|] eqn:T, (tbl c' id) as [st'|] eqn:T'; cbn in Ht; try discriminate.
  - left. congruence.
  - destruct Hr as [Hr|Hr]; rewrite Hr.
    + destruct (ring_find c id); [left; reflexivity|].
      right. split; [destruct (id <=? sc_highestID c); exact I | destruct (id <=? sc_highestID c'); exact I].
    + right. split; [destruct (ring_find c id); [exact I | destruct (id <=? sc_highestID c); exact I]
                    | destruct (id <=? sc_highestID c'); exact I].
Qed.

(* rel1 plus the highest ids agreeing gives rel *)
Lemma rel1_rel c s id : wf s -> RS.highest s = sc_highestID c -> N.odd id = true ->
  rel1 (view c id) (RS.st_of s id) ->
  match view c id with MOld => exists w, RS.st_of s id = RS.Closed w | m => rel m (RS.st_of s id) end.
Proof.
  intros W H O. unfold view. destruct (tbl c id); [auto|]. destruct (ring_find c id); [auto|].
  destruct (id <=? sc_highestID c) eqn:L; cbn [rel1 rel]; intro A.
  - destruct (RS.st_of s id) eqn:X; try discriminate; [|eauto].
    pose proof (st_of_idle_gt s id W O X). lia.
  - destruct (RS.st_of s id) eqn:X; try discriminate; [reflexivity|].
    pose proof (st_of_closed_le s id w W X). lia.
Qed.

(* ---------- forgetting in step with the ring ---------- *)

Lemma sync_forget_props c' s : wf s ->
  wf (sync_forget hstate c' s) /\ RS.highest (sync_forget hstate c' s) = RS.highest s /\
  RS.block (sync_forget hstate c' s) = RS.block s /\ RS.goaway (sync_forget hstate c' s) = RS.goaway s /\
  RS.dead (sync_forget hstate c' s) = RS.dead s /\
  forall id, RS.st_of (sync_forget hstate c' s) id =
    if negb (in_ring c' id) && existsb (N.eqb id) (map fst (RS.known s))
    then match RS.st_of s id with RS.Closed _ => RS.Closed RS.Implicit | x => x end
    else RS.st_of s id.
Proof. intro W. exact (fold_fstep_props (in_ring c') (map fst (RS.known s)) s W). Qed.

Lemma rel_sync c' s id : wf s -> RS.highest s = sc_highestID c' -> N.odd id = true ->
  rel1 (view c' id) (RS.st_of s id) -> rel (view c' id) (RS.st_of (sync_forget hstate c' s) id).
Proof.
  intros W H O R1. pose proof (rel1_rel c' s id W H O R1) as R0.
  destruct (sync_forget_props c' s W) as (_ & _ & _ & _ & _ & St). rewrite St. clear St.
  unfold view in *. destruct (tbl c' id) as [st|].
  - destruct (negb _ && _); [|exact R0]. cbn [rel] in R0.
    destruct (st_state st); try contradiction; rewrite R0; reflexivity.
  - rewrite in_ring_find. destruct (ring_find c' id) as [b|]; cbn [negb andb]; [exact R0|].
    destruct (id <=? sc_highestID c') eqn:L.
    + destruct R0 as [w Hw]. rewrite Hw. cbn [rel].
      destruct (existsb (N.eqb id) (map fst (RS.known s))) eqn:K; [reflexivity|].
      destruct w; try reflexivity; (rewrite (closed_known s id _ Hw) in K; [discriminate | congruence]).
    + cbn [rel] in R0. rewrite R0. destruct (existsb _ _); reflexivity.
Qed.

(* ---------- the invariant ---------- *)

(* structure of the table and the ring *)
Record AuxT c : Prop := mkAuxT {
  A_rl : sc_rl_done c = false;
  A_wl : sc_wl_dead c = false;
  A_q : sc_readerQ c = [];
  A_nodup : NoDup (map st_id (sc_strms c));
  A_ids : forall st, In st (sc_strms c) -> N.odd (st_id st) = true /\ st_id st <= sc_lastID c;
  A_last : sc_lastID c <= sc_highestID c;
  A_ring : ring_ok hstate c;
  A_tr : forall st, In st (sc_strms c) -> in_ring c (st_id st) = false;
  A_st : forall st, In st (sc_strms c) ->
         (st_state st = SOpen \/ st_state st = SHalfClosed) /\ st_weReset st = false /\
         (st_responded st = true \/ st_handlerRunning st = true -> st_state st = SHalfClosed /\ st_headersFinished st = true) /\
         (st_state st = SHalfClosed -> st_headersFinished st = true -> st_responded st = true);
  A_snd : forall st, In st (sc_strms c) -> has_more_to_send st = true -> st_bodyStream st = None -> st_pendingEnd st = true
}.

(* header blocks in progress: read loop, table and discard register agree *)
Record AuxH c : Prop := mkAuxH {
  A_fin : forall st, In st (sc_strms c) -> st_headersFinished st = false -> st_id st = sc_expectCont c;
  A_ec : forall st, sc_expectCont c <> 0 -> tbl c (sc_expectCont c) = Some st -> st_headersFinished st = false;
  A_ec_odd : sc_expectCont c <> 0 -> N.odd (sc_expectCont c) = true;
  A_disc : sc_discardID c <> 0 -> tbl c (sc_discardID c) = None /\ sc_discardID c <= sc_highestID c
}.

Definition Aux c : Prop := AuxT c /\ AuxH c.

(* where a table stream is in its request, read off its state (RS.phase) *)
Definition phase_of (st : stream) : RS.phase :=
  match st_state st, st_headersFinished st with
  | SOpen, false => RS.PHead false
  | SOpen, true => RS.PBody
  | SHalfClosed, false => RS.PHead true
  | SHalfClosed, true => RS.PDone
  | _, _ => RS.PBad
  end.

(* ph: ghost state, the phase reached by the frames received so far on each stream id *)
Record Sim c (s : RS.state) (ph : N -> RS.phase) : Prop := mkSim {
  S_aux : Aux c;
  S_wf : wf s;
  S_str : forall id, N.odd id = true -> rel (view c id) (RS.st_of s id);
  S_blk : R_block hstate c s;
  S_ga : RS.goaway s = sc_closing c;
  S_hi : RS.highest s = sc_highestID c;
  S_cont : sc_expectCont c <> 0 -> tbl c (sc_expectCont c) = None ->
           sc_discardID c = sc_expectCont c \/ RS.dead s = true;
  S_ph : forall st, In st (sc_strms c) -> ph (st_id st) = phase_of st;
  S_new : sc_closing c = false -> forall id, N.odd id = true -> sc_highestID c < id -> ph id = RS.PStart
}.

(* what holds between two items of the schedule *)
Definition Post c (s : RS.state) (ph : N -> RS.phase) : Prop :=
  wf s /\ if sc_sl_done c then RS.dead s = true else Sim c s ph.

Lemma Sim_R c s ph : sc_sl_done c = false -> Sim c s ph -> R hstate c s.
Proof.
  intros Hsl H. unfold R, over. rewrite Hsl, (A_rl c (proj1 (S_aux c s ph H))). cbn [orb].
  split; [exact (A_q c (proj1 (S_aux c s ph H)))|]. split; [exact (S_str c s ph H)|]. split; [exact (S_blk c s ph H)|].
  split; [exact (S_ga c s ph H) | exact (S_hi c s ph H)].
Qed.

(* re-establishing Sim from the state before forgetting *)
Lemma Sim_intro c' s2 ph :
  Aux c' -> wf s2 ->
  (forall id, N.odd id = true -> rel1 (view c' id) (RS.st_of s2 id)) ->
  R_block hstate c' s2 -> RS.goaway s2 = sc_closing c' -> RS.highest s2 = sc_highestID c' ->
  (sc_expectCont c' <> 0 -> tbl c' (sc_expectCont c') = None -> sc_discardID c' = sc_expectCont c' \/ RS.dead s2 = true) ->
  (forall st, In st (sc_strms c') -> ph (st_id st) = phase_of st) ->
  (sc_closing c' = false -> forall id, N.odd id = true -> sc_highestID c' < id -> ph id = RS.PStart) ->
  Sim c' (sync_forget hstate c' s2) ph.
Proof.
  intros HA W Hs Hb Hg Hh Hc Hp Hn. destruct (sync_forget_props c' s2 W) as (W' & H' & B' & G' & D' & _).
  constructor; try assumption.
  - intros id O. apply rel_sync; auto.
  - unfold R_block in *. rewrite B'. exact Hb.
  - rewrite G'. exact Hg.
  - rewrite H'. exact Hh.
  - rewrite D'. exact Hc.
Qed.

End Sim.
