(* Proofs/TeardownCliGone3.v -- blocking-structure model (Impl/Teardown.v), client, S3 with the peer gone (3): observers enter Close.
   Statements: Props/Teardown.v; overview: Proofs/TeardownProofs.v. *)
From Coq Require Import Arith Lia Bool List.
From RecordUpdate Require Import RecordSet.
Import RecordSetNotations.
Import ListNotations.
From H2V Require Import Impl.Teardown Proofs.TeardownGen Proofs.TeardownCliInv Proofs.TeardownCliInv1 Proofs.TeardownCliInv2 Proofs.TeardownCliInv3 Proofs.TeardownCliInv4 Proofs.TeardownCliLocks Proofs.TeardownCliInv5 Proofs.TeardownCliLive1 Proofs.TeardownCliLive2a Proofs.TeardownCliLive2b Proofs.TeardownCliLive2c Proofs.TeardownCliLive2d Proofs.TeardownCliLive3 Proofs.TeardownCliLive4 Proofs.TeardownCliLive5 Proofs.TeardownCliGone0.

Module CliL9.
Import Cli CliP CliP2 CliL CliL2 CliL3a CliL3b CliL3c CliL3d CliL4 CliL5 CliL6 CliGd.

Ltac easy_fin ::= solve [auto | congruence | lia | tauto | (intuition congruence)
                         | (intuition (try congruence; try lia))
                         | (repeat split; eauto; try congruence; try lia)
                         | (left; repeat split; eauto; try congruence; try lia)
                         | (right; right; right; repeat split; eauto; try congruence; try lia) ].
Ltac solve_side ::= cbn; unf; rwk; rwx; cbn;
  first [ solve [repeat split; eauto; try congruence; try lia]
        | match goal with |- _ \/ _ => first [ solve [left; solve_side] | solve [right; solve_side] ] end
        | solve [timeout 10 fin] ].
Ltac stab := let s := fresh "s" in let a := fresh "a" in let I := fresh "I" in
  let H := fresh "H" in let G := fresh "G" in
  intros s a I H G; clear I; act_cases a; cbn in G; break; try lia; params; unf; rwk; cbn in *;
  try congruence; try solve [solve_side].
Ltac wunf := unfold iterQ, wl_t, wl_iter, wm, pcw in *.

Section P.
Variable cap : nat.
Hypothesis cap_pos : 1 <= cap.
Notation guard := (Cli.guard cap).
Notation reachable := (Cli.reachable cap).
Notation inv := (CliP.inv cap).
Variable r : run guard eff.
Hypothesis F : fair_run cap r.
Hypothesis R0 : reachable (st r 0).
Hypothesis NS : forall i, stalled (st r i) = false \/ dead (st r i) = true.

Notation Inv_run := (CliL2.Inv_run cap cap_pos r R0 NS).
Notation "P ~> Q" := (leadsto r P Q) (at level 70).
Notation ensures := (lt_ensures guard eff r (Inv cap) Inv_run).
Notation ensures_s := (lt_ensures_s guard eff r (Inv cap) Inv_run).
Let Fwl : sfair g_wl r := proj1 (proj2 (proj2 (proj2 F))).
Let Fbody : sfair g_body r := proj1 (proj2 (proj2 (proj2 (proj2 (proj2 (proj2 (proj2 F))))))).
Let Wwl := sfair_fair guard eff r g_wl Fwl.
Let Wbody := sfair_fair guard eff r g_body Fbody.
Notation rl_release := (CliL2.rl_release cap cap_pos r F R0 NS).

Notation closed_stable := (CliL2.closed_stable cap cap_pos r NS).
Let Frl : sfair g_rl r := proj1 (proj2 (proj2 (proj2 (proj2 F)))).
Let Wrl := sfair_fair guard eff r g_rl Frl.
Let Fso : sfair g_selout r := proj2 (proj2 (proj2 (proj2 (proj2 (proj2 (proj2 (proj2 F))))))).
Notation wl_iter_end := (CliL4.wl_iter_end cap cap_pos r F R0 NS).

(* -- a small extra invariant: whoever is past Close has seen closed set -- *)
Record inv6 (s : state) : Prop := {
  i_rdone : rl s = RDone -> closed s = true;
  i_wtorn : wl_torn (wl s) = true -> closed s = true }.
Lemma inv6_step : forall s a, inv2 s -> inv6 s -> guard a s -> inv6 (eff a s).
Proof.
  intros s a I2 [] G. pose proof (i_mid0 _ I2) as Hm. clear I2. unfold midn, cpc in Hm.
  act_cases a; cbn in G; break; try lia;
    repeat match goal with
           | H : cpc _ _ = Some _ |- _ => unfold cpc in H
           | H : match ?x with _ => _ end = Some _ |- _ =>
               destruct x eqn:?; try discriminate H; inversion H; clear H; subst
           end;
    params; unf; rwk; cbn in *; unf; rwk; cbn in *;
    repeat match goal with
           | |- context[if xres ?s' then _ else _] => destruct (xres s')
           | |- context[if xsid ?s' then _ else _] => destruct (xsid s')
           | |- context[match xloc ?s' with _ => _ end] => destruct (xloc s')
           end; cbn in *;
    constructor; cbn; rwk; cbn; auto; try congruence.
  all: try (intros; fwd; congruence).
  all: intros; destruct (closed s) eqn:Ec; auto; exfalso; specialize (Hm eq_refl); cbn in Hm; lia.
Qed.
Lemma inv6_run : forall i, inv6 (st r i).
Proof.
  intros i. pose proof (reach_run guard eff _ r R0 i) as R. induction R.
  - destruct H as (_ & _ & Hw & Hr & _). constructor; rewrite ?Hw, ?Hr; cbn; intros; discriminate.
  - apply inv6_step; auto. destruct (CliP2.reachable_inv cap s R) as (_ & I2 & _); auto.
Qed.

(* -- whoever has seen the connection fail goes into Close: closed gets set -- *)
Lemma obW0 : (fun s => wl s = LT0) ~> (fun s => wl s = LClose CCas).
Proof. apply (ensures g_wl); auto; [cens1 | cens2 | intros s I H; exists LSetErr; cbn; auto]. Qed.
Lemma obW1 : (fun s => wl s = LClose CCas) ~> (fun s => closed s = true).
Proof.
  apply (ensures g_wl); auto; [cens1 | cens2 | ].
  intros s I H. destruct (closed s) eqn:E; [exists (CCasLose 0) | exists (CCasWin 0)];
    cbn; rewrite H; repeat split; auto; lia.
Qed.
Lemma obR0 : (fun s => rl s = RExit) ~> (fun s => rl s = RClose CCas).
Proof. apply (ensures g_rl); auto; [cens1 | cens2 | intros s I H; exists RDeferClose; cbn; auto]. Qed.
Lemma obR1 : (fun s => rl s = RClose CCas) ~> (fun s => closed s = true).
Proof.
  apply (ensures g_rl); auto; [cens1 | cens2 | ].
  intros s I H. destruct (closed s) eqn:E; [exists (CCasLose 1) | exists (CCasWin 1)];
    cbn; rewrite H; repeat split; auto; lia.
Qed.
Lemma ob_closes : OB ~> (fun s => closed s = true).
Proof.
  intros i [H|[H|[H|H]]].
  - eapply (lt_trans _ _ _ _ _ _ obW0 obW1); eauto.
  - eapply obW1; eauto.
  - eapply (lt_trans _ _ _ _ _ _ obR0 obR1); eauto.
  - eapply obR1; eauto.
Qed.

(* with closed unset nobody is inside Close past the CAS, and nobody has left it *)
Lemma open_facts : forall s, Inv cap s -> inv6 s -> closed s = false ->
  (forall c, wl s = LClose c -> c = CCas) /\ (forall c, rl s = RClose c -> c = CCas) /\
  rl s <> RDone /\ (wl_t s -> wl s = LT0 \/ wl s = LClose CCas) /\
  (bw s = BwNone \/ exists h, wl s = LWrite h).
Proof.
  intros s ((I1 & I2 & _) & _) [] Hc. pose proof (i_mid0 _ I2 Hc) as Hm. unfold midn, cpc in Hm.
  assert (forall c, wl s = LClose c -> c = CCas) as A1.
  { intros c E; rewrite E in Hm; destruct c; cbn in Hm; auto; lia. }
  assert (forall c, rl s = RClose c -> c = CCas) as A2.
  { intros c E; rewrite E in Hm; destruct c; cbn in Hm; auto; lia. }
  repeat split; auto.
  - intros E. specialize (i_rdone0 E). congruence.
  - unfold wl_t. intros Ht. destruct (wl s) eqn:E; try contradiction; auto;
      try (cbn in i_wtorn0; specialize (i_wtorn0 eq_refl); congruence).
    right. f_equal. apply A1; auto.
  - pose proof (i_bw _ I1) as Hb. unfold bw_of_state in Hb.
    destruct (wl s) as [| | |?|?| | |[]| | |] eqn:E; eauto;
      try (specialize (A1 _ eq_refl); discriminate);
      destruct (rl s) as [|?| |?|? ?|? ?| | |[]|] eqn:E2; eauto;
      try (specialize (A2 _ eq_refl); discriminate);
      destruct (uc s) as [|[]|] eqn:E3; eauto;
      cbn in Hm; lia.
Qed.

End P.
End CliL9.
