(* Proofs/SrvFlowCExact.v - C06 completion: while the write loop lives, the server's send windows are EXACTLY the
   windows of the peer's ledger (Proofs/SrvFlowSafe*.v proves "at most"). Part 1: sendData, finishRequest. *)
From H2V Require Import Base.Bytes Base.MachineInt Base.Result Gen.GenConsts Impl.ServerConn Proofs.SrvBase
  Spec.FlowLedger Proofs.SrvFlowLedger Proofs.SrvFlowDefs Proofs.SrvFlowSend Proofs.SrvFlowEff Proofs.SrvFlowSafe
  Proofs.SrvFlowSafeB Proofs.SrvFlowSafeC Proofs.SrvFlowCDecomp.
From Coq Require Import ZArith Lia ZifyN ZifyNat ZifyBool List.
Import ListNotations.
Local Open Scope N_scope.
Set Default Proof Using "Type".

Definition heldx (L : ledger) (s : stream) : Prop := l_strm L (st_id s) = Some (st_window s).

Lemma heldx_held L s : heldx L s -> held L s.
Proof. intro H. exists (st_window s). split; [exact H | lia]. Qed.

Lemma heldx_same_win L a b : st_id b = st_id a -> st_window b = st_window a -> heldx L a -> heldx L b.
Proof. unfold heldx. intros -> ->. auto. Qed.

Section Exact.
Variable hstate : Type.
Variable dec_field : hstate -> N -> bytes -> dec_res hstate.
Variable enc_field : hstate -> bytes -> bytes -> bool -> bytes * hstate.
Variable enc_set_max : hstate -> N -> hstate.
Variable cfg : config.
Notation sconn := (sconn hstate).
Implicit Types c : sconn.
Notation Sim := (SimX hstate None).
Notation LedOn := (LedOn hstate).

(* ex: the id of the stream the stream loop is working on, whose table entry may be stale *)
Record ExX (ex : option N) c (L : ledger) : Prop := mkExX {
  x_conn : sc_clientWindow c = l_conn L;
  x_strm : forall s, In s (sc_strms c) -> Some (st_id s) <> ex -> heldx L s;
  x_fresh : forall sid, sc_highestID c < sid -> l_strm L sid = None
}.

Lemma ExX_some ex sid c L : (ex = None \/ ex = Some sid) -> ExX ex c L -> ExX (Some sid) c L.
Proof.
  intros Hex []. constructor; auto. intros s Hs Hne. apply x_strm0; [exact Hs|]. destruct Hex as [->| ->]; [discriminate | exact Hne].
Qed.

Lemma ExX_same ex c c' L : sc_strms c' = sc_strms c -> sc_clientWindow c' = sc_clientWindow c ->
  sc_highestID c <= sc_highestID c' -> ExX ex c L -> ExX ex c' L.
Proof.
  intros E1 E2 E3 []. constructor; [rewrite E2; assumption | rewrite E1; assumption|].
  intros sid H. apply x_fresh0. flia.
Qed.

Lemma ExX_Quiet ex c c' L : Quiet c c' -> ExX ex c L -> ExX ex c' L.
Proof. intro Q. apply ExX_same; apply Q. Qed.
Lemma ExX_Recv ex c c' L : Recv c c' -> ExX ex c L -> ExX ex c' L.
Proof. intro Q. apply ExX_same; [apply Q | apply Q | rewrite (rv_highestID _ _ _ Q); flia]. Qed.
Lemma ExX_Closes ex c c' L : Closes c c' -> ExX ex c L -> ExX ex c' L.
Proof.
  intros Q []. constructor.
  - rewrite (cl_clientWindow _ _ _ Q). assumption.
  - intros s Hs. apply x_strm0. eapply Dels_In; [apply Q | exact Hs].
  - rewrite (cl_highestID _ _ _ Q). assumption.
Qed.

Lemma ExX_put ex c L x : ExX ex c L -> NoDup (map st_id (sc_strms c)) -> (ex = None \/ ex = Some (st_id x)) -> heldx L x ->
  ExX None (put c x) L.
Proof.
  intros [] ND Hex Hx. constructor; unfold put; sc_cbn; auto.
  intros s Hs _. apply strms_put_In_strong in Hs; [|assumption]. destruct Hs as [->|[Hs E]]; [assumption|].
  apply x_strm0; [assumption|]. destruct Hex as [->| ->]; [discriminate | congruence].
Qed.

Lemma ExX_close ex c L s : ExX ex c L -> NoDup (map st_id (sc_strms c)) -> (ex = None \/ ex = Some (st_id s)) ->
  ExX None (close_stream c s) L.
Proof.
  intros [] ND Hex. constructor.
  - rewrite sc_clientWindow_close_stream. assumption.
  - rewrite sc_strms_close_stream. intros s0 Hs _.
    pose proof (strms_del_not_In _ _ _ ND Hs) as Hne. apply strms_del_In in Hs.
    apply x_strm0; [assumption|]. destruct Hex as [->| ->]; [discriminate | congruence].
  - rewrite sc_highestID_close_stream. assumption.
Qed.

(* the ledger reached by a piece of a step is determined by the trace *)
Lemma LedOn_unique P Q c L c' L1 L2 : LedOn P c L c' L1 -> LedOn Q c L c' L2 -> L1 = L2.
Proof.
  intros (n1 & E1 & _ & _ & ->) (n2 & E2 & _ & _ & ->). rewrite E1 in E2. apply app_inv_tail in E2. subst. reflexivity.
Qed.

Lemma emit_cases_alive c o : sc_wl_dead c = false ->
  exists pre, sc_out (emit c o) = pre ++ sc_out c /\ (pre = [o] \/ pre = [OLate o]).
Proof.
  intro W. rewrite sc_out_emit, W. destruct (sc_sl_done c); [exists [OLate o] | exists [o]]; auto.
Qed.

Lemma led_chunk_x (L : ledger) sid w z es pl pre :
  l_strm L sid = Some w -> Z.of_N (len pl) = z ->
  (pre = [OData sid es pl] \/ pre = [OLate (OData sid es pl)]) ->
  l_conn (lrun L (ldatas pre)) = (l_conn L - z)%Z /\ l_strm (lrun L (ldatas pre)) sid = Some (w - z)%Z.
Proof.
  intros Hw Hz Hpre.
  assert (E : ldatas pre = [LData sid z]) by (destruct Hpre as [->| ->]; cbn; rewrite Hz; reflexivity).
  rewrite E. cbn [lrun fold_left lstep l_conn l_strm]. rewrite Hw. split; [reflexivity | apply strm_upd_same].
Qed.

Lemma SDL_exact sid c n r k : SDL sid c n r k -> forall (L : ledger),
  sc_wl_dead c = false -> sc_clientWindow c = l_conn L -> l_strm L sid = Some (sn_window n) ->
  exists L', LedOn (eq sid) c L (fst (fst (fst r))) L' /\
    sc_clientWindow (fst (fst (fst r))) = l_conn L' /\
    l_strm L' sid = Some (sn_window (snd (fst (fst r)))).
Proof.
  induction 1; intros L WD Hc Hw; cbn [fst snd].
  - exists L. split; [apply LedOn_refl|]. auto.
  - exists L. split; [apply LedOn_refl|]. auto.
  - exists L. split; [apply LedOn_quiet; unfold write_reset; apply out_ext_emit; exact I|].
    unfold write_reset. rewrite sc_clientWindow_emit. cbn [sd_closed sn_window]. auto.
  - assert (W1 : sn_window n1 = sn_window n) by eauto using refill_window.
    destruct (sn_pendingEnd n1).
    + destruct (emit_cases_alive c (OData sid true []) WD) as (pre & E & Hpre).
      assert (Hpre' : pre = [] \/ pre = [OData sid true []] \/ pre = [OLate (OData sid true [])]) by tauto.
      destruct (led_chunk L sid (sn_window n) 0%Z true [] pre Hw eq_refl ltac:(flia) Hpre' (or_introl eq_refl)) as (V & D & _).
      destruct (led_chunk_x L sid (sn_window n) 0%Z true [] pre Hw eq_refl Hpre) as (C1 & C2).
      exists (lrun L (ldatas pre)). split.
      * exists pre. assert (R : rev pre = pre) by (destruct Hpre as [->| ->]; reflexivity). rewrite R. auto.
      * rewrite sc_clientWindow_emit. split; [flia|]. rewrite C2, W1. f_equal. flia.
    + exists L. split; [apply LedOn_refl|]. split; [assumption|]. rewrite W1. assumption.
  - exists L. split; [apply LedOn_refl|]. split; [assumption|]. rewrite (sd_src_window _ _ H). assumption.
  - pose proof (sd_src_window _ _ H) as W1. pose proof (sd_src_pending _ _ H) as P1.
    destruct (sd_step_bounds _ c n1 P1 H0) as (B1 & B2 & B3 & B4 & B5).
    pose proof (sd_chunk_len _ c n1 P1 H0) as CL.
    destruct (emit_cases_alive c (OData sid (sd_es c n1) (sd_chunk c n1)) WD) as (pre & E & Hpre).
    assert (Hpre' : pre = [] \/ pre = [OData sid (sd_es c n1) (sd_chunk c n1)] \/ pre = [OLate (OData sid (sd_es c n1) (sd_chunk c n1))]) by tauto.
    destruct (led_chunk L sid (sn_window n) (sd_step c n1) _ _ pre Hw CL B2 Hpre') as (V & D & _); [right; flia|].
    destruct (led_chunk_x L sid (sn_window n) (sd_step c n1) _ _ pre Hw CL Hpre) as (C1 & C2).
    exists (lrun L (ldatas pre)). split.
    + exists pre. assert (R : rev pre = pre) by (destruct Hpre as [->| ->]; reflexivity). rewrite R.
      unfold sd_c2. sc_cbn. auto.
    + unfold sd_c2, sd_n'. sc_cbn. cbn [sn_window]. split; [flia|]. rewrite C2, W1. reflexivity.
  - pose proof (sd_src_window _ _ H) as W1. pose proof (sd_src_pending _ _ H) as P1.
    destruct (sd_step_bounds _ c n1 P1 H0) as (B1 & B2 & B3 & B4 & B5).
    pose proof (sd_chunk_len _ c n1 P1 H0) as CL.
    destruct (emit_cases_alive c (OData sid (sd_es c n1) (sd_chunk c n1)) WD) as (pre & E & Hpre).
    assert (Hpre' : pre = [] \/ pre = [OData sid (sd_es c n1) (sd_chunk c n1)] \/ pre = [OLate (OData sid (sd_es c n1) (sd_chunk c n1))]) by tauto.
    destruct (led_chunk L sid (sn_window n) (sd_step c n1) _ _ pre Hw CL B2 Hpre') as (V & D & _); [right; flia|].
    destruct (led_chunk_x L sid (sn_window n) (sd_step c n1) _ _ pre Hw CL Hpre) as (C1 & C2).
    destruct (IHSDL (lrun L (ldatas pre))) as (L' & Led & C' & Hw').
    + unfold sd_c2. sc_cbn. rewrite sc_wl_dead_emit. exact WD.
    + unfold sd_c2. sc_cbn. flia.
    + unfold sd_n'. cbn [sn_window]. rewrite C2, W1. reflexivity.
    + exists L'. split; [|auto].
      eapply LedOn_trans; [|exact Led]. exists pre.
      assert (R : rev pre = pre) by (destruct Hpre as [->| ->]; reflexivity). rewrite R.
      unfold sd_c2. sc_cbn. auto.
Qed.

(* sendData on a stream of the table (or the one being worked on) *)
Lemma send_data_exact ex c s L :
  SimX hstate ex c L -> ExX ex c L -> sc_wl_dead c = false ->
  (ex = None \/ ex = Some (st_id s)) -> heldx L s -> st_id s <= sc_lastID c ->
  let r := send_data c s in
  exists L', LedOn (eq (st_id s)) c L (fst (fst r)) L' /\ ExX (Some (st_id s)) (fst (fst r)) L' /\ heldx L' (snd (fst r)).
Proof.
  intros S X WD Hex Hw Hid. cbv zeta. unfold send_data.
  destruct (send_data_loop_SDL _ (st_id s) (send_data_fuel (get_snd s)) c (get_snd s)) as [k H].
  pose proof (SDL_Frame _ _ _ _ _ _ H) as (F & E1 & E2 & E3 & E4).
  destruct (SDL_exact _ _ _ _ _ H L WD (x_conn _ _ _ X) Hw) as (L' & Led & C' & Hw').
  destruct (send_data_loop (send_data_fuel (get_snd s)) c (st_id s) (get_snd s)) as [[[c1 n1] done] wr].
  cbn [fst snd] in *.
  exists L'. split; [exact Led|]. split.
  - destruct X as [i_conn i_strm i_fresh]. constructor.
    + assumption.
    + rewrite E1. intros s0 Hs Hne.
      assert (Hne' : st_id s0 <> st_id s) by congruence.
      unfold heldx. rewrite (LedOn_other _ _ _ _ _ _ (st_id s0) Led) by congruence.
      apply i_strm; [assumption|]. destruct Hex as [->| ->]; [discriminate | congruence].
    + rewrite E4. intros sid Hs.
      rewrite (LedOn_other _ _ _ _ _ _ sid Led); [auto|]. intro. subst. pose proof (sim_hi _ _ _ _ S). flia.
  - unfold heldx. destruct wr, done; cbn [st_id st_window set_weReset set_snd sn_window]; exact Hw'.
Qed.

Lemma finish_request_exact ex c s r L :
  SimX hstate ex c L -> ExX ex c L -> sc_wl_dead c = false ->
  (ex = None \/ ex = Some (st_id s)) -> heldx L s -> st_id s <= sc_lastID c ->
  let res := finish_request enc_field c s r in
  exists L', LedOn (eq (st_id s)) c L (fst (fst res)) L' /\ ExX (Some (st_id s)) (fst (fst res)) L' /\ heldx L' (snd (fst res)).
Proof.
  intros S X WD Hex Hh Hid. cbv zeta. unfold finish_request.
  destruct (response_block enc_field (sc_enc c) r) as [blk e'].
  set (hb := match rs_body r with BBuffered [] => false | _ => true end).
  set (c1 := emit (upd_enc c e') (OHeaders (st_id s) (negb hb) blk)).
  assert (S1 : SimX hstate ex c1 L).
  { eapply SimX_same; [..|exact S]; subst c1; rewrite ?sc_strms_emit, ?sc_initWin_emit, ?sc_clientWindow_emit,
      ?sc_lastID_emit, ?sc_highestID_emit; reflexivity. }
  assert (X1 : ExX ex c1 L).
  { eapply ExX_same; [..|exact X]; subst c1; rewrite ?sc_strms_emit, ?sc_clientWindow_emit, ?sc_highestID_emit; sc_cbn; try reflexivity; try flia. }
  assert (Led1 : LedOn (eq (st_id s)) c L c1 L).
  { apply LedOn_nodata. subst c1. apply (out_ext_trans _ _ c (upd_enc c e')); [apply out_ext_same; reflexivity|].
    apply out_ext_emit; exact I. }
  assert (Lid : sc_lastID c1 = sc_lastID c) by (subst c1; rewrite sc_lastID_emit; reflexivity).
  assert (WD1 : sc_wl_dead c1 = false) by (subst c1; rewrite sc_wl_dead_emit; exact WD).
  destruct (negb hb) eqn:HB.
  - cbn [fst snd]. exists L. split; [exact Led1|]. split; [eapply ExX_some; eassumption | exact Hh].
  - match goal with |- context [send_data c1 ?x] => set (s1 := x) end.
    assert (I1 : st_id s1 = st_id s) by reflexivity.
    assert (H1 : heldx L s1).
    { eapply heldx_same_win; [exact I1 | | exact Hh]. subst s1. cbn [set_snd st_window sn_window]. destruct (rs_body r); reflexivity. }
    destruct (send_data_exact ex c1 s1 L S1 X1 WD1) as (L' & Led & X' & H'); rewrite ?I1, ?Lid; try assumption.
    rewrite I1 in *. exists L'. split; [eapply LedOn_trans; eassumption|]. auto.
Qed.

End Exact.
