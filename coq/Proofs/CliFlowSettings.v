(* Proofs/CliFlowSettings.v - Settings.Read / MergeTo of the client model against the list of parameters of the
   payload (RFC 7540 6.5.1): which payloads are refused, and that merging changes exactly the parameters present,
   each to the last value sent for it (C18, C07). *)
From H2V Require Import Base.Bytes Base.MachineInt Base.Result Gen.GenConsts Impl.ServerConn Impl.ClientConn
     Proofs.CliDefs Spec.Rfc7540Frames.
From Coq Require Import ZArith Lia ZifyN ZifyNat ZifyBool List Bool.
Import ListNotations.
Local Open Scope N_scope.

Lemma bytes6_ind (P : bytes -> Prop) :
  (forall d, (length d < 6)%nat -> P d) ->
  (forall k1 k0 v3 v2 v1 v0 rest, P rest -> P (k1 :: k0 :: v3 :: v2 :: v1 :: v0 :: rest)) ->
  forall d, P d.
Proof.
  intros Hs Hc. fix IH 1. intro d.
  destruct d as [|k1 [|k0 [|v3 [|v2 [|v1 [|v0 rest]]]]]]; try (apply Hs; cbn; lia).
  apply Hc. apply IH.
Qed.

Lemma settings_pairs_short d : (length d < 6)%nat -> settings_pairs d = [].
Proof. destruct d as [|k1 [|k0 [|v3 [|v2 [|v1 [|v0 rest]]]]]]; cbn; try reflexivity. lia. Qed.

Lemma settings_read_short d st : (length d < 6)%nat -> cl_settings_read d st = Some st.
Proof. destruct d as [|k1 [|k0 [|v3 [|v2 [|v1 [|v0 rest]]]]]]; cbn [length cl_settings_read]; try reflexivity. lia. Qed.

(* the last value sent for parameter k (seen through f), cur if there is none *)
Definition plast {A} (f : N -> A) (ps : list (N * N)) (k : N) (cur : A) : A :=
  fold_left (fun a kv => if fst kv =? k then f (snd kv) else a) ps cur.
Definition pairs_last (ps : list (N * N)) (k cur : N) : N := plast (fun v => v) ps k cur.
Definition pairs_has (ps : list (N * N)) (k : N) : bool := existsb (fun kv => fst kv =? k) ps.

Lemma plast_absent {A} (f : N -> A) ps k cur : pairs_has ps k = false -> plast f ps k cur = cur.
Proof.
  unfold plast, pairs_has. revert cur. induction ps as [|kv t IH]; intro cur; cbn [existsb fold_left]; [reflexivity|].
  intro H. apply orb_false_iff in H. destruct H as [A0 B]. rewrite A0. apply IH. exact B.
Qed.

Lemma plast_present {A} (f : N -> A) ps k cur cur' : pairs_has ps k = true -> plast f ps k cur = plast f ps k cur'.
Proof.
  unfold plast, pairs_has. revert cur cur'. induction ps as [|kv t IH]; intros cur cur'; cbn [existsb fold_left]; [discriminate|].
  destruct (fst kv =? k) eqn:E; cbn [orb]; [reflexivity | apply IH].
Qed.

(* RFC 7540 6.5.2: the values that are a connection error *)
Definition pair_ok (kv : N * N) : bool := setting_valid kv.

(* one parameter *)
Lemma settings_apply_spec st k v :
  cl_settings_apply st k v =
  if setting_valid (k, v) then
    Some (mkCS (if k =? 1 then v else cs_table st)
               (if k =? 2 then negb (v =? 0) else cs_push st)
               (if k =? 3 then v else cs_streams st)
               (if k =? 4 then v else cs_window st)
               (if k =? 5 then v else cs_frame st)
               (if k =? 6 then v else cs_hdr st)
               (if k =? 4 then true else cs_hasWin st)
               (if (1 <=? k) && (k <=? 6) then N.lor (cs_present st) (N.shiftl 1 k) else cs_present st))
  else None.
Proof.
  unfold cl_settings_apply, setting_valid. cbn [fst snd cs_table cs_push cs_streams cs_window cs_frame cs_hdr cs_hasWin cs_present].
  change c_HeaderTableSize with 1. change c_EnablePush with 2. change c_MaxConcurrentStreams with 3.
  change c_MaxWindowSize with 4. change c_MaxFrameSize with 5. change c_MaxHeaderListSize with 6.
  change (2 ^ 31 - 1) with 2147483647. change (2 ^ 14) with 16384. change (2 ^ 24 - 1) with 16777215.
  destruct (k =? 1) eqn:K1; [apply N.eqb_eq in K1; subst k; reflexivity|].
  destruct (k =? 2) eqn:K2.
  { apply N.eqb_eq in K2; subst k. cbn [N.eqb Pos.eqb andb N.leb N.compare Pos.compare Pos.compare_cont].
    destruct (v =? 0) eqn:V0; [apply N.eqb_eq in V0; subst v; reflexivity|].
    destruct (v =? 1) eqn:V1; [apply N.eqb_eq in V1; subst v; reflexivity|].
    cbn [negb andb]. apply N.eqb_neq in V0, V1. destruct (v <=? 1) eqn:L; [apply N.leb_le in L; lia | reflexivity]. }
  destruct (k =? 3) eqn:K3; [apply N.eqb_eq in K3; subst k; reflexivity|].
  destruct (k =? 4) eqn:K4.
  { apply N.eqb_eq in K4; subst k. cbn [N.eqb Pos.eqb andb N.leb N.compare Pos.compare Pos.compare_cont].
    destruct (2147483647 <? v) eqn:V; [apply N.ltb_lt in V | apply N.ltb_ge in V].
    - destruct (v <=? 2147483647) eqn:L; [apply N.leb_le in L; lia | reflexivity].
    - destruct (v <=? 2147483647) eqn:L; [reflexivity | apply N.leb_gt in L; lia]. }
  destruct (k =? 5) eqn:K5.
  { apply N.eqb_eq in K5; subst k. cbn [N.eqb Pos.eqb andb N.leb N.compare Pos.compare Pos.compare_cont].
    destruct (v <? 16384) eqn:A; [apply N.ltb_lt in A | apply N.ltb_ge in A]; cbn [orb].
    - destruct (16384 <=? v) eqn:L; [apply N.leb_le in L; lia | reflexivity].
    - destruct (16384 <=? v) eqn:L; [|apply N.leb_gt in L; lia]. cbn [andb].
      destruct (16777215 <? v) eqn:B; [apply N.ltb_lt in B | apply N.ltb_ge in B].
      + destruct (v <=? 16777215) eqn:L2; [apply N.leb_le in L2; lia | reflexivity].
      + destruct (v <=? 16777215) eqn:L2; [reflexivity | apply N.leb_gt in L2; lia]. }
  apply N.eqb_neq in K1, K2, K3, K4, K5.
  assert (SV : match k with 2 => v <=? 1 | 4 => v <=? 2147483647 | 5 => (16384 <=? v) && (v <=? 16777215) | _ => true end = true).
  { destruct k as [|[[[p|p|]|[p|p|]|]|[[p|p|]|[p|p|]|]|]]; try reflexivity; congruence. }
  rewrite SV. destruct (k =? 6) eqn:K6; [apply N.eqb_eq in K6; subst k; reflexivity|]. destruct st; reflexivity.
Qed.

(* Settings.Read on the whole payload *)
Definition present_after (ps : list (N * N)) (p : N) : N :=
  fold_left (fun p kv => if (1 <=? fst kv) && (fst kv <=? 6) then N.lor p (N.shiftl 1 (fst kv)) else p) ps p.
Definition read_result (ps : list (N * N)) (st : csettings) : csettings :=
  mkCS (pairs_last ps 1 (cs_table st)) (plast (fun v => negb (v =? 0)) ps 2 (cs_push st)) (pairs_last ps 3 (cs_streams st))
       (pairs_last ps 4 (cs_window st)) (pairs_last ps 5 (cs_frame st)) (pairs_last ps 6 (cs_hdr st))
       (cs_hasWin st || pairs_has ps 4) (present_after ps (cs_present st)).

Lemma settings_read_spec d : forall st,
  cl_settings_read d st =
  if forallb setting_valid (settings_pairs d) then Some (read_result (settings_pairs d) st) else None.
Proof.
  induction d as [d Hs|k1 k0 v3 v2 v1 v0 rest IH] using bytes6_ind; intro st.
  - rewrite settings_read_short, settings_pairs_short by assumption. cbn [forallb]. unfold read_result, pairs_last, plast, pairs_has, present_after.
    cbn [fold_left existsb]. rewrite orb_false_r. destruct st; reflexivity.
  - cbn [cl_settings_read settings_pairs forallb]. rewrite settings_apply_spec.
    set (k := k1 * 256 + k0). set (v := ((v3 * 256 + v2) * 256 + v1) * 256 + v0).
    destruct (setting_valid (k, v)); cbn [andb]; [|reflexivity]. rewrite IH.
    destruct (forallb setting_valid (settings_pairs rest)); [|reflexivity]. f_equal.
    unfold read_result, pairs_last, plast, pairs_has, present_after.
    cbn [fold_left existsb fst snd cs_table cs_push cs_streams cs_window cs_frame cs_hdr cs_hasWin cs_present].
    f_equal. destruct (k =? 4), (cs_hasWin st); reflexivity.
Qed.

Lemma present_after_bit ps : forall p id, 1 <= id <= 6 ->
  N.testbit (present_after ps p) id = N.testbit p id || pairs_has ps id.
Proof.
  unfold present_after, pairs_has. induction ps as [|[k v] t IH]; intros p id R; cbn [fold_left existsb fst snd]; [rewrite orb_false_r; reflexivity|].
  rewrite IH by exact R. destruct ((1 <=? k) && (k <=? 6)) eqn:E.
  - rewrite N.lor_spec, N.shiftl_1_l, N.pow2_bits_eqb. rewrite orb_assoc. reflexivity.
  - assert (NE : (k =? id) = false).
    { apply N.eqb_neq. intro X. subst k. apply andb_false_iff in E. destruct E as [E|E]; [apply N.leb_gt in E | apply N.leb_gt in E]; lia. }
    rewrite NE. reflexivity.
Qed.

Lemma settings_deserialize_spec d :
  cl_settings_deserialize false d =
  if (len d mod 6 =? 0) && forallb setting_valid (settings_pairs d)
  then Some (read_result (settings_pairs d) cl_settings_default) else None.
Proof.
  unfold cl_settings_deserialize. destruct (len d mod 6 =? 0); cbn [negb andb]; [|reflexivity]. apply settings_read_spec.
Qed.

(* what a valid payload reads as *)
Lemma deserialize_facts d st : cl_settings_deserialize false d = Some st ->
  st = read_result (settings_pairs d) cl_settings_default /\
  forallb setting_valid (settings_pairs d) = true /\ len d mod 6 = 0 /\
  cs_hasWin st = pairs_has (settings_pairs d) 4 /\
  forall id, 1 <= id <= 6 -> cl_settings_has st id = pairs_has (settings_pairs d) id.
Proof.
  rewrite settings_deserialize_spec. destruct (len d mod 6 =? 0) eqn:M; [|discriminate]. cbn [andb].
  destruct (forallb _ _) eqn:V; [|discriminate]. intro H. inversion H. clear H.
  split; [reflexivity|]. split; [reflexivity|]. split; [apply N.eqb_eq; exact M|]. split; [reflexivity|].
  intros id R. unfold cl_settings_has. cbn [read_result cs_present]. rewrite present_after_bit by exact R.
  replace (1 <=? id) with true by (symmetry; apply N.leb_le; lia).
  replace (id <=? 6) with true by (symmetry; apply N.leb_le; lia). reflexivity.
Qed.

(* MergeTo changes exactly the parameters present, each to the last value sent for it *)
Theorem settings_merge_delta d st dst : cl_settings_deserialize false d = Some st ->
  cl_settings_merge st dst =
  mkCS (pairs_last (settings_pairs d) 1 (cs_table dst))
       (plast (fun v => negb (v =? 0)) (settings_pairs d) 2 (cs_push dst))
       (pairs_last (settings_pairs d) 3 (cs_streams dst))
       (pairs_last (settings_pairs d) 4 (cs_window dst))
       (pairs_last (settings_pairs d) 5 (cs_frame dst))
       (pairs_last (settings_pairs d) 6 (cs_hdr dst))
       (cs_hasWin dst) (cs_present dst).
Proof.
  intro DS. destruct (deserialize_facts _ _ DS) as (E & _ & _ & _ & HAS).
  unfold cl_settings_merge.
  change c_HeaderTableSize with 1. change c_EnablePush with 2. change c_MaxConcurrentStreams with 3.
  change c_MaxWindowSize with 4. change c_MaxFrameSize with 5. change c_MaxHeaderListSize with 6.
  rewrite !HAS by lia. rewrite E. cbn [read_result cs_table cs_push cs_streams cs_window cs_frame cs_hdr].
  set (ps := settings_pairs d). unfold pairs_last.
  assert (X : forall {A} (f : N -> A) k a b, (if pairs_has ps k then plast f ps k a else b) = plast f ps k b).
  { intros A f k a b. destruct (pairs_has ps k) eqn:H; [apply plast_present; exact H | symmetry; apply plast_absent; exact H]. }
  rewrite !X. reflexivity.
Qed.
