(* C04, part 3: AppendHeader (hpack.go) as a pure function of the encoder state and the field.

   [ahdr hp hf store] = (the octets appended, the state afterwards). [append_header_app] holds for
   every state, dst, field: AppendHeader never panics, and dst is only ever a prefix of its result
   (C04_no_panic, C04_append_header_prefix). *)
From Coq Require Import List NArith ZArith Bool Lia.
From H2V Require Import Base.Bytes Base.MachineInt Base.Result Gen.GenConsts Impl.Huffman Impl.Hpack
     Proofs.HpackEncInt Proofs.HpackEncString.
Import ListNotations.
Local Open Scope N_scope.

(* the size update(s) a pending change of the table size puts in front of the field *)
Definition aupd (hp : hpack_state) : bytes :=
  if h_pending hp then
    (if h_pending_min hp <? h_max hp then aint 32 5 (h_pending_min hp) else []) ++ aint 32 5 (h_max hp)
  else [].

(* the choice of representation: Huffman?, prefix bits, pattern, state afterwards *)
Definition achoice (hp : hpack_state) (hf : field) (store : bool) (index : N) (fullMatch : bool)
  : bool * N * N * hpack_state :=
  let c := negb (h_no_compress hp) in
  if f_sens hf then (false, 4, 16, hp)
  else if 0 <? index then
    if fullMatch then (c, 7, 128, hp)
    else if negb store then (c, 4, 0, hp)
    else (c, 6, 64, if index <? c_maxIndex then add_dynamic hp hf else hp)
  else if negb store || h_no_dynamic hp then (c, 6, 0, hp)
  else (c, 6, 64, add_dynamic hp hf).

Definition afield (hp : hpack_state) (hf : field) (store : bool) : bytes * hpack_state :=
  let '(index, fullMatch) := search hp hf in
  let '(c, bits, pat, hp') := achoice hp hf store index fullMatch in
  ((if 0 <? index then aint pat bits index else pat :: astr (f_key hf) c)
     ++ (if negb (bits =? 7) then astr (f_value hf) c else []), hp').

Definition ahdr (hp : hpack_state) (hf : field) (store : bool) : bytes * hpack_state :=
  let hp1 := if h_pending hp then with_pending hp false else hp in
  let '(x, hp') := afield hp1 hf store in
  (aupd hp ++ x, hp').

(* AppendHeader after the "if hp.pendingSizeUpdate" block *)
Definition append_field (hp : hpack_state) (dst : bytes) (hf : field) (store : bool)
  : result (bytes * hpack_state) :=
  let c := negb (h_no_compress hp) in
  let '(index, fullMatch) := search hp hf in
  let '(c, bits, dst, hp) :=
    if f_sens hf then (false, 4, dst ++ [16], hp)
    else if 0 <? index then
      if fullMatch then (c, 7, dst ++ [128], hp)
      else if negb store then (c, 4, dst ++ [0], hp)
      else (c, 6, dst ++ [64], if index <? c_maxIndex then add_dynamic hp hf else hp)
    else if negb store || h_no_dynamic hp then (c, 6, dst ++ [0], hp)
    else (c, 6, dst ++ [64], add_dynamic hp hf) in
  bind (if 0 <? index then append_int dst bits index else append_string dst (f_key hf) c) (fun d1 =>
  bind (if negb (bits =? 7) then append_string d1 (f_value hf) c else Ok d1) (fun d2 =>
  Ok (d2, hp))).

Lemma append_header_split hp dst hf store :
  append_header hp dst hf store =
  bind (if h_pending hp then
          let hp := with_pending hp false in
          bind (if h_pending_min hp <? h_max hp
                then append_int (dst ++ [32]) 5 (h_pending_min hp) else Ok dst) (fun d1 =>
          bind (append_int (d1 ++ [32]) 5 (h_max hp)) (fun d2 => Ok (d2, hp)))
        else Ok (dst, hp)) (fun dh => append_field (snd dh) (fst dh) hf store).
Proof.
  unfold append_header, append_field.
  destruct (if h_pending hp then _ else _) as [[d h]| |]; reflexivity.
Qed.

Lemma append_field_app hp dst hf store :
  append_field hp dst hf store = Ok (dst ++ fst (afield hp hf store), snd (afield hp hf store)).
Proof.
  unfold append_field, afield, achoice.
  destruct (search hp hf) as [index fullMatch].
  destruct (f_sens hf).
  { destruct (0 <? index); cbn [negb N.eqb Pos.eqb fst snd];
      rewrite ?append_int_app, ?append_string_app; cbn [bind];
      rewrite ?append_string_app; cbn [bind fst snd];
      rewrite <- ?app_assoc; reflexivity. }
  destruct (0 <? index).
  - destruct fullMatch; [|destruct (negb store)]; cbn [negb N.eqb Pos.eqb fst snd];
      rewrite ?append_int_app; cbn [bind];
      rewrite ?append_string_app; cbn [bind fst snd];
      rewrite <- ?app_assoc, ?app_nil_r; reflexivity.
  - destruct (negb store || h_no_dynamic hp); cbn [negb N.eqb Pos.eqb fst snd];
      rewrite ?append_string_app; cbn [bind];
      rewrite ?append_string_app; cbn [bind fst snd];
      rewrite <- ?app_assoc; reflexivity.
Qed.

Theorem append_header_app hp dst hf store :
  append_header hp dst hf store = Ok (dst ++ fst (ahdr hp hf store), snd (ahdr hp hf store)).
Proof.
  rewrite append_header_split. unfold ahdr, aupd.
  destruct (h_pending hp) eqn:Ep.
  - cbv zeta.
    replace (h_pending_min (with_pending hp false)) with (h_pending_min hp) by (destruct hp; reflexivity).
    replace (h_max (with_pending hp false)) with (h_max hp) by (destruct hp; reflexivity).
    destruct (h_pending_min hp <? h_max hp).
    + rewrite append_int_app. cbn [bind]. rewrite append_int_app. cbn [bind fst snd].
      rewrite append_field_app.
      destruct (afield (with_pending hp false) hf store) as [x hp']. cbn [fst snd].
      rewrite <- !app_assoc. reflexivity.
    + cbn [bind]. rewrite append_int_app. cbn [bind fst snd].
      rewrite append_field_app.
      destruct (afield (with_pending hp false) hf store) as [x hp']. cbn [fst snd app].
      rewrite <- !app_assoc. reflexivity.
  - cbn [bind fst snd]. rewrite append_field_app.
    destruct (afield hp hf store) as [x hp']. reflexivity.
Qed.

(* C04_no_panic *)
Theorem append_header_no_panic : forall st dst hf store, is_panic (append_header st dst hf store) = false.
Proof. intros. rewrite append_header_app. reflexivity. Qed.

Theorem append_header_total : forall st dst hf store,
  exists x st', append_header st dst hf store = Ok (dst ++ x, st').
Proof. intros st dst hf store. rewrite append_header_app. eexists; eexists; reflexivity. Qed.

(* C04_append_header_prefix *)
Theorem append_header_prefix : forall st dst hf store x st',
  append_header st dst hf store = Ok (dst ++ x, st') <-> append_header st [] hf store = Ok (x, st').
Proof.
  intros st dst hf store x st'. rewrite !append_header_app. cbn [app]. split; intros H.
  - injection H as H1 H2. apply app_inv_head in H1. rewrite H1, H2. reflexivity.
  - injection H as H1 H2. rewrite H1, H2. reflexivity.
Qed.

(* ---- a block ---- *)

Fixpoint afields (hp : hpack_state) (fs : list (field * bool)) : bytes * hpack_state :=
  match fs with
  | [] => ([], hp)
  | (hf, store) :: fs' =>
      let '(x, hp1) := ahdr hp hf store in
      let '(y, hp2) := afields hp1 fs' in (x ++ y, hp2)
  end.

Lemma encode_fields_app : forall fs hp dst,
  encode_fields hp dst fs = Ok (dst ++ fst (afields hp fs), snd (afields hp fs)).
Proof.
  induction fs as [|[hf store] fs IH]; intros hp dst.
  - cbn. rewrite app_nil_r. reflexivity.
  - cbn [encode_fields afields]. rewrite append_header_app.
    destruct (ahdr hp hf store) as [x hp1]. cbn [fst snd].
    rewrite IH. destruct (afields hp1 fs) as [y hp2]. cbn [fst snd].
    rewrite <- app_assoc. reflexivity.
Qed.

Lemma encode_block_pure hp fs : encode_block hp fs = Ok (afields hp fs).
Proof.
  unfold encode_block. rewrite encode_fields_app. cbn [app].
  destruct (afields hp fs); reflexivity.
Qed.
