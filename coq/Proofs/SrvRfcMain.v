(* Proofs/SrvRfcMain.v - C08: every item of a lockstep schedule preserves the invariant and gets an
   allowed reaction; the theorems about whole runs. *)
From H2V Require Import Base.Bytes Base.MachineInt Base.Result Gen.GenConsts Impl.ServerConn.
From H2V Require Import Proofs.SrvBase Proofs.SrvRfcDefs Proofs.SrvRfcSpec Proofs.SrvRfcModel Proofs.SrvRfcSim Proofs.SrvRfcEff
  Proofs.SrvRfcSend Proofs.SrvRfcStep Proofs.SrvRfcKit Proofs.SrvRfcRl Proofs.SrvRfcSl Proofs.SrvRfcKnown Proofs.SrvRfcFrame Proofs.SrvRfcBatch Proofs.SrvRfcFlush Proofs.SrvRfcTimer.
From Coq Require Import ZArith Lia ZifyN ZifyNat ZifyBool.
Local Open Scope N_scope.

Section Main.
Variable hstate : Type.
Variable dec_field : hstate -> N -> bytes -> dec_res hstate.
Variable enc_field : hstate -> bytes -> bytes -> bool -> bytes * hstate.
Variable enc_set_max : hstate -> N -> hstate.
Variable cfg : config.
Notation sconn := (sconn hstate).
Notation step := (step dec_field enc_field enc_set_max cfg).
Notation feed := (feed hstate dec_field enc_field enc_set_max cfg).
Notation spec_feed := (spec_feed hstate dec_field enc_field enc_set_max cfg).
Notation item_ok := (item_ok hstate dec_field enc_field enc_set_max cfg).
Notation G := (G hstate).
Notation view := (view hstate).
Notation tbl := (tbl hstate).
Notation Sim := (Sim hstate).
Notation AuxT := (AuxT hstate).
Notation AuxH := (AuxH hstate).
Notation seq_ok := (seq_ok hstate).
Notation base := (base hstate).
Notation kctx := (kctx hstate).
Notation kin := (kin hstate).
Implicit Types c : sconn.

(* a frame on a stream, passed on by the read loop *)
Lemma G_stream_frame c s ph fr ec' :
  Sim c s ph -> sc_sl_done c = false -> seq_ok c fr ec' -> N.odd (sf_sid fr) = true ->
  match sf_kind fr with KPing | KPush => False | _ => True end ->
  feed c (IIn (RFrame fr)) = fst (sl_frame dec_field enc_set_max cfg (upd_expectCont c ec') fr) ->
  G c s ph (RFrame fr) (feed c (IIn (RFrame fr))).
Proof.
  intros HS Hsl SQ Od Kok E. pose proof (S_aux _ _ _ _ HS) as [AT AH].
  pose proof (Zn_of_odd _ Od) as Zn. assert (Znn : sf_sid fr <> 0) by (intro Z; rewrite Z in Od; discriminate).
  set (c1 := upd_expectCont c ec') in *.
  rewrite (sl_frame_split hstate dec_field enc_set_max cfg c1 fr Zn) in E.
  change (sc_discardID c1) with (sc_discardID c) in E. change (sc_closing c1) with (sc_closing c) in E.
  destruct (fkind_eqb (sf_kind fr) KCont && negb (sc_discardID c =? 0) && (sf_sid fr =? sc_discardID c))%bool eqn:DB.
  - (* the rest of a header block that is being thrown away *)
    apply andb_true_iff in DB. destruct DB as [DB D3]. apply andb_true_iff in DB. destruct DB as [D1 D2].
    apply fkind_eqb_eq in D1. apply negb_true_iff in D2. apply N.eqb_neq in D2. apply N.eqb_eq in D3.
    destruct (A_disc _ _ AH D2) as [Tn Le]. rewrite <- D3 in Tn, Le.
    destruct (proj1 (unknown_state hstate dec_field enc_set_max c s ph _ HS Od Tn) Le) as [w Hw].
    apply (G_sl_discard hstate dec_field enc_field enc_set_max cfg c s ph fr ec' HS Hsl SQ Od Tn (or_intror D1) Le); [|exact E].
    destruct SQ as [(_ & K & _)|(E0 & _ & Sd & _)]; [congruence|].
    rewrite verdicts_cont; [| |exact D1].
    + unfold RS.on_stream, RS.by_state. change (RS.f_sid (abs_frame fr)) with (sf_sid fr). rewrite Hw. unfold abs_frame. cbn [RS.f_kind]. rewrite D1. cbn [abs_kind].
      rewrite app_nil_r. destruct w; reflexivity.
    + rewrite (block_of_ec hstate c s (S_blk _ _ _ _ HS)). replace (sc_expectCont c =? 0) with false by (symmetry; apply N.eqb_neq; exact E0). congruence.
  - destruct (tbl c (sf_sid fr)) as [st|] eqn:T.
    + (* a stream of the table *)
      pose proof (search_In _ _ _ T) as HIn. pose proof (search_id _ _ _ T) as Hid.
      assert (PRE : sl_pre hstate dec_field cfg c1 fr = inr (c1, st)).
      { unfold sl_pre. change (sc_lastID c1) with (sc_lastID c). change (sc_strms c1) with (sc_strms c).
        replace (sf_sid fr <=? sc_lastID c) with true by (symmetry; apply N.leb_le; rewrite <- Hid; apply (A_ids _ _ AT st HIn)).
        unfold SrvRfcDefs.tbl in T. rewrite T. reflexivity. }
      rewrite PRE in E.
      assert (KI : kin c s ph fr ec' c1 st (sc_lastID c) (sc_highestID c)).
      { constructor; auto.
        - left. repeat split; eauto.
        - repeat split.
        - apply sfacts_found; assumption. }
      rewrite sl_known_tail in E.
      * apply (K_any hstate dec_field enc_field enc_set_max cfg c s ph fr ec' c1 st _ _ KI Kok E).
      * intro KH. assert (AllFin : forall p, In p (sc_strms c) -> st_headersFinished p = true).
        { intros p Hp. destruct (st_headersFinished p) eqn:F; [reflexivity|]. exfalso.
          pose proof (A_fin _ _ AH p Hp F) as X. destruct SQ as [(E0 & _)|(_ & K & _)]; [|congruence].
          rewrite E0 in X. destruct (A_ids _ _ AT p Hp) as [O _]. rewrite X in O. discriminate. }
        split.
        -- apply implicit_close_noop. intros n t Hn. change (sc_strms c1) with (sc_strms c) in Hn.
           assert (In n (sc_strms c)) by (rewrite Hn; left; reflexivity).
           destruct (A_st _ _ AT n H) as ([X|X] & _); rewrite X; cbn; rewrite andb_false_r; reflexivity.
        -- intros p Hp. apply AllFin. apply (get_previous_In _ p Hp).
    + (* no such stream in the table *)
      pose proof (sl_pre_unknown hstate dec_field enc_field enc_set_max cfg c s ph fr ec' HS Hsl SQ Od Kok T DB) as U. fold c1 in U.
      destruct (sl_pre hstate dec_field cfg c1 fr) as [r|[c2 st]] eqn:PRE; [apply U, E|].
      destruct (fkind_eqb (sf_kind fr) KHeaders) eqn:KHb.
      * (* HEADERS opens a stream *)
        apply fkind_eqb_eq in KHb. pose proof U as (Hst & Rn & Ll & Hc). rewrite KHb in Hc. destruct Hc as (Hgt & Hcl & C2).
        change (sc_highestID c1) with (sc_highestID c) in Hgt, C2. change (sc_strms c1) with (sc_strms c) in C2. change (sc_open c1) with (sc_open c) in C2.
        change (ring_find c1 (sf_sid fr)) with (ring_find c (sf_sid fr)) in Rn. change (sc_lastID c1) with (sc_lastID c) in Ll.
        assert (Hid : st_id st = sf_sid fr) by (rewrite Hst; reflexivity).
        assert (KI : kin c s ph fr ec' c2 st (sf_sid fr) (sf_sid fr)).
        { constructor; auto.
          - right. exists st. rewrite C2. cbn. repeat split; auto.
          - rewrite C2. repeat split.
          - rewrite C2. destruct (fkind_eqb (sf_kind fr) KHeaders); reflexivity.
          - apply (sfacts_created hstate dec_field enc_set_max c s ph fr ec' c2 st HS Od T KHb U). }
        rewrite sl_known_tail in E.
        -- apply (K_any hstate dec_field enc_field enc_set_max cfg c s ph fr ec' c2 st _ _ KI Kok E).
        -- intros _. assert (AllFin : forall p, In p (sc_strms c) -> st_headersFinished p = true).
           { intros p Hp. destruct (st_headersFinished p) eqn:F; [reflexivity|]. exfalso.
             pose proof (A_fin _ _ AH p Hp F) as X. destruct SQ as [(E0 & _)|(_ & K & _)]; [|congruence].
             rewrite E0 in X. destruct (A_ids _ _ AT p Hp) as [O _]. rewrite X in O. discriminate. }
           assert (S2 : sc_strms c2 = sc_strms c ++ [st]) by (rewrite C2; reflexivity).
           split.
           ++ apply implicit_close_noop. intros n t Hn. rewrite S2 in Hn.
              destruct (sc_strms c) as [|m l] eqn:SC; cbn [app] in Hn; injection Hn as Hn1 Hn2.
              ** rewrite <- Hn1, N.ltb_irrefl. reflexivity.
              ** assert (In n (sc_strms c)) by (rewrite SC, Hn1; left; reflexivity).
                 destruct (A_st _ _ AT n H) as ([X|X] & _); rewrite X; cbn; rewrite andb_false_r; reflexivity.
           ++ intros p Hp. rewrite S2 in Hp. apply AllFin. apply (get_previous_snoc (sc_strms c) st p); [rewrite Hst, KHb; reflexivity | exact Hp].
      * apply fkind_eqb_neq in KHb.
        apply (K_created_other hstate dec_field enc_field enc_set_max cfg c s ph fr ec' c2 st HS Hsl SQ Od T KHb Kok DB U E).
Qed.

(* ---------- frames on stream 0 that reach the stream loop ---------- *)

Definition bump (delta : Z) : list stream -> list stream -> list stream * bool :=
  fix bumpall (pre l : list stream) {struct l} : list stream * bool :=
    match l with
    | [] => (pre, false)
    | s :: t =>
      let s' := set_window s (st_window s + delta) in
      if (MAXWIN <? st_window s')%Z then (pre ++ s' :: t, true) else bumpall (pre ++ [s']) t
    end.

Lemma bump_cons delta pre s t :
  bump delta pre (s :: t) =
  let s' := set_window s (st_window s + delta) in
  if (MAXWIN <? st_window s')%Z then (pre ++ s' :: t, true) else bump delta (pre ++ [s']) t.
Proof. reflexivity. Qed.

Lemma sl_frame_settings c fr : sf_sid fr = 0 -> sf_kind fr = KSettings ->
  sl_frame dec_field enc_set_max cfg c fr =
  let c0 := if sf_set_hastable fr then upd_enc c (enc_set_max (sc_enc c) (sf_set_table fr)) else c in
  if sf_set_haswin fr then
    let newInit := signed 32 (sf_set_win fr) in
    let c1 := upd_initWin c0 newInit in
    let '(l', over) := bump (newInit - sc_initWin c0)%Z [] (sc_strms c1) in
    let c2 := upd_strms c1 l' in
    if over then brk (write_goaway c2 0 c_FlowControlError) else cont (flush_streams (emit c2 OSettingsAck))
  else cont (emit c0 OSettingsAck).
Proof. intros Z K. unfold sl_frame. rewrite Z, K. reflexivity. Qed.

Lemma sl_frame_winupd0 c fr : sf_sid fr = 0 -> sf_kind fr = KWinUpd ->
  sl_frame dec_field enc_set_max cfg c fr =
  let w := (sc_clientWindow c + Z.of_N (sf_inc fr))%Z in
  let c1 := upd_clientWindow c w in
  if (MAXWIN <? w)%Z then brk (write_goaway c1 0 c_FlowControlError) else cont (flush_streams c1).
Proof. intros Z K. unfold sl_frame. rewrite Z, K. reflexivity. Qed.

Lemma set_window_shape s w : same_shape s (set_window s w).
Proof. unfold same_shape, strm_ok, has_more_to_send. cbn. auto. Qed.

Lemma bump_shape delta : forall l pre pre0 l' over, Forall2 same_shape pre0 pre ->
  bump delta pre l = (l', over) -> Forall2 same_shape (pre0 ++ l) l'.
Proof.
  induction l as [|s t IH]; intros pre pre0 l' over F.
  - intro H. inversion H; subst. rewrite app_nil_r. exact F.
  - rewrite bump_cons. cbv zeta. destruct (MAXWIN <? _)%Z.
    + intro H. inversion H; subst. apply Forall2_app; [exact F|]. constructor; [apply set_window_shape|].
      clear. induction t; constructor; [apply same_shape_refl | assumption].
    + intro H. replace (pre0 ++ s :: t) with ((pre0 ++ [s]) ++ t) by (rewrite <- app_assoc; reflexivity).
      apply (IH _ _ _ _ (Forall2_app F (Forall2_cons _ _ (set_window_shape s _) (Forall2_nil _))) H).
Qed.

Lemma live_tuple_ph c' s2 ph ph' : live_tuple hstate c' s2 ph -> (forall id, N.odd id = true -> ph' id = ph id) -> live_tuple hstate c' s2 ph'.
Proof.
  intros (A & B & C & D & E & F & P1 & P2) H.
  split; [exact A|]. split; [exact B|]. split; [exact C|]. split; [exact D|]. split; [exact E|]. split; [exact F|]. split.
  - intros st0 Hin. rewrite H; [apply P1, Hin|]. destruct A as [AT _]. apply (A_ids _ _ AT st0 Hin).
  - intros Hc id O L. rewrite (H id O). apply P2; assumption.
Qed.

(* SETTINGS and WINDOW_UPDATE on stream 0: their effect on the windows is C06's subject; here: no stream changes state *)
Lemma G_conn_frame c s ph fr :
  Sim c s ph -> sc_sl_done c = false -> sc_expectCont c = 0 -> sf_sid fr = 0 ->
  (sf_kind fr = KSettings \/ sf_kind fr = KWinUpd /\ sf_inc fr <> 0) ->
  feed c (IIn (RFrame fr)) = fst (sl_frame dec_field enc_set_max cfg c fr) ->
  G c s ph (RFrame fr) (feed c (IIn (RFrame fr))).
Proof.
  intros HS Hsl E0 Z KK E. pose proof (S_aux _ _ _ _ HS) as [AT AH]. pose proof (A_wl _ _ AT) as Hwl.
  assert (BN : RS.block s = None) by (rewrite (block_of_ec hstate c s (S_blk _ _ _ _ HS)), E0; reflexivity).
  assert (NC : sf_kind fr <> KCont) by (destruct KK as [K|[K _]]; congruence).
  assert (V : RS.verdicts s (RS.Frame (abs_frame fr)) = RS.on_connection (abs_frame fr)) by (apply verdicts_conn; assumption).
  assert (VP : RS.may_process s (RS.Frame (abs_frame fr)) = true /\ RS.allowed s (RS.Frame (abs_frame fr)) (RS.ConnErr c_FlowControlError) = true).
  { unfold RS.may_process, RS.allowed. rewrite V. unfold RS.on_connection, abs_frame. cbn [RS.f_kind RS.f_inc].
    destruct KK as [K|[K I0]]; rewrite K; cbn [abs_kind]; [split; reflexivity|].
    replace (sf_inc fr =? 0) with false by (symmetry; apply N.eqb_neq; exact I0). split; reflexivity. }
  destruct VP as [Hmp Hfc].
  assert (S1 : RS.spec_next s (RS.Frame (abs_frame fr)) RS.Process = s).
  { rewrite spec_next_frame. cbn [conn_err]. change (RS.f_sid (abs_frame fr)) with (sf_sid fr). rewrite Z. cbn [N.eqb orb].
    unfold pre_next, RS.in_sequence, abs_frame. cbn [RS.f_kind]. destruct KK as [K|[K _]]; rewrite K; reflexivity. }
  (* the two endings *)
  assert (OVER : forall cX dq, feed c (IIn (RFrame fr)) = fst (brk (write_goaway cX 0 c_FlowControlError)) ->
            sc_out cX = dq ++ sc_out c -> sc_sl_done cX = false -> sc_wl_dead cX = false -> filter noisy dq = [] ->
            (forall i rq, ~ In (ODispatch i rq) dq) -> G c s ph (RFrame fr) (feed c (IIn (RFrame fr)))).
  { intros cX dq EX Ho A1 A2 Q Nd.
    apply (G_over hstate dec_field enc_field enc_set_max cfg c s ph (RFrame fr) _ (OExit 1 0 :: OGoAway (sc_lastID cX) c_FlowControlError :: dq) EX).
    - reflexivity.
    - rewrite sc_out_brk, sc_out_write_goaway, A2, A1, Ho. reflexivity.
    - reflexivity.
    - cbn [abs_input input_sid filter noisy strip_late rev]. rewrite Q. cbn [rev app]. unfold classify. cbn [first_some is_goaway strip_late]. left. exact Hfc.
    - intros i rq [H|[H|H]]; try discriminate. exfalso. exact (Nd i rq H). }
  assert (LIVE : forall c' d D, feed c (IIn (RFrame fr)) = c' -> sc_sl_done c' = false -> sc_out c' = d ++ sc_out c ->
            (forall o, In o d -> is_goaway o = None) -> existsb is_exit d = false ->
            (forall i rq, ~ In (ODispatch i rq) d) -> batch hstate c c' d D -> G c s ph (RFrame fr) (feed c (IIn (RFrame fr)))).
  { intros c' d D EX A1 Ho Qg Qe Nd HB.
    assert (CL : classify (sf_sid fr) (rev (filter noisy d)) = RS.Process).
    { rewrite Z. apply classify_conn.
      - intros o H. apply in_rev in H. apply filter_In in H. apply Qg, H.
      - rewrite existsb_rev. apply not_true_is_false. intro H. apply existsb_exists in H. destruct H as (o & H1 & H2).
        apply filter_In in H1. assert (existsb is_exit d = true) by (apply existsb_exists; exists o; tauto). congruence. }
    apply (G_live hstate dec_field enc_field enc_set_max cfg c s ph fr c' d EX A1 Ho); rewrite ?CL; cbn [resolve]; rewrite ?Hmp.
    - left. apply allowed_table. exact Hmp.
    - rewrite S1. apply (live_tuple_ph c' _ ph); [apply (live_tuple_batch hstate c c' s ph d D HS HB)|].
      intros id O. cbn [ph_next]. rewrite Z. destruct (id =? 0) eqn:X; [apply N.eqb_eq in X; rewrite X in O; discriminate | reflexivity].
    - intros i rq H. exfalso. exact (Nd i rq H). }
  (* flushStreams after the change of a window *)
  assert (FLUSH : forall cX dX, feed c (IIn (RFrame fr)) = flush_streams cX -> batch hstate c cX dX [] -> sc_sl_done cX = false ->
            sc_out cX = dX ++ sc_out c -> (forall i rq, ~ In (ODispatch i rq) dX) -> G c s ph (RFrame fr) (feed c (IIn (RFrame fr)))).
  { intros cX dX EX HB A1 Ho Nd.
    pose proof (batch_gbatch hstate c cX dX AT HB A1 Ho Nd) as GB0.
    destruct (flush_streams_gbatch hstate c cX dX Hwl GB0) as (d & D & GB).
    apply (LIVE (flush_streams cX) d D EX (GB_sl _ _ _ _ _ _ GB) (GB_out _ _ _ _ _ _ GB) (GB_ng _ _ _ _ _ _ GB) (GB_ne _ _ _ _ _ _ GB) (GB_nd _ _ _ _ _ _ GB)).
    apply gbatch_batch; assumption. }
  destruct KK as [K|[K I0]].
  - (* SETTINGS *)
    rewrite (sl_frame_settings c fr Z K) in E. cbv zeta in E.
    set (c0 := if sf_set_hastable fr then upd_enc c (enc_set_max (sc_enc c) (sf_set_table fr)) else c) in *.
    assert (C0 : sc_strms c0 = sc_strms c /\ sc_out c0 = sc_out c /\ sc_sl_done c0 = false /\ sc_wl_dead c0 = false).
    { unfold c0. destruct (sf_set_hastable fr); auto. }
    destruct C0 as (C0s & C0o & C0sl & C0wl).
    destruct (sf_set_haswin fr).
    + set (delta := (signed 32 (sf_set_win fr) - sc_initWin c0)%Z) in *.
      change (sc_strms (upd_initWin c0 (signed 32 (sf_set_win fr)))) with (sc_strms c0) in E. rewrite C0s in E.
      destruct (bump delta [] (sc_strms c)) as [l' over] eqn:BP.
      pose proof (bump_shape delta (sc_strms c) [] [] l' over (Forall2_nil _) BP) as SH. cbn [app] in SH.
      set (c2 := upd_strms (upd_initWin c0 (signed 32 (sf_set_win fr))) l') in *.
      destruct over.
      * apply (OVER c2 [] E); auto; unfold c2; sc_cbn; auto; intros i rq [].
      * cbn [fst cont] in E.
        apply (FLUSH (emit c2 OSettingsAck) [OSettingsAck] E).
        -- apply batch_rel; try exact AT; sc_rw; unfold c2; sc_cbn; unfold c0; try (destruct (sf_set_hastable fr); reflexivity). exact SH.
        -- sc_rw. unfold c2. sc_cbn. exact C0sl.
        -- rewrite sc_out_emit. unfold c2. sc_cbn. rewrite C0wl, C0sl, C0o. reflexivity.
        -- intros i rq [H|[]]; discriminate.
    + cbn [fst cont] in E.
      apply (LIVE (emit c0 OSettingsAck) [OSettingsAck] [] E).
      * sc_rw. exact C0sl.
      * rewrite sc_out_emit, C0wl, C0sl, C0o. reflexivity.
      * intros o [<-|[]]; reflexivity.
      * reflexivity.
      * intros i rq [H|[]]; discriminate.
      * apply batch_same; try exact AT; sc_rw; unfold c0; destruct (sf_set_hastable fr); reflexivity.
  - (* WINDOW_UPDATE *)
    rewrite (sl_frame_winupd0 c fr Z K) in E. cbv zeta in E.
    set (c1 := upd_clientWindow c (sc_clientWindow c + Z.of_N (sf_inc fr))) in *.
    destruct (MAXWIN <? sc_clientWindow c + Z.of_N (sf_inc fr))%Z.
    + apply (OVER c1 [] E); auto; intros i rq [].
    + cbn [fst cont] in E.
      apply (FLUSH c1 [] E); auto; try (intros i rq []); try (apply batch_same; auto).
Qed.

(* ---------- inputs that are not frames ---------- *)

Lemma G_other_input c s ph i : Sim c s ph -> sc_sl_done c = false -> (forall fr, i <> RFrame fr) ->
  G c s ph i (feed c (IIn i)).
Proof.
  intros HS Hsl NF. pose proof (S_aux _ _ _ _ HS) as [AT AH].
  pose proof (A_rl _ _ AT) as Hrl. pose proof (A_wl _ _ AT) as Hwl. pose proof (A_q _ _ AT) as Hq.
  pose proof (block_of_ec hstate c s (S_blk _ _ _ _ HS)) as B.
  destruct i as [fr| |[code|]|]; [exfalso; eapply NF; reflexivity | | | |].
  - (* a frame of unknown type *)
    destruct (sc_expectCont c =? 0) eqn:E0.
    + assert (F : feed c (IIn RUnknownType) = c).
      { unfold SrvRfcDefs.feed. rewrite step_EvRL, Hrl. cbn [rl_step]. rewrite E0. cbn [negb]. apply sl_after_stay; assumption. }
      rewrite F. exists []. split; [reflexivity|]. cbn [abs_input input_sid filter rev]. rewrite classify_nil.
      assert (MP : RS.may_process s RS.UnknownType = false) by (unfold RS.may_process; cbn [RS.verdicts]; rewrite B; reflexivity).
      cbn [resolve]. rewrite MP. split; [|split].
      * left. apply allowed_table. cbn [RS.verdicts]. rewrite B. reflexivity.
      * rewrite Hsl. cbn [RS.spec_next]. unfold after_outs. cbn. apply (Sim_live hstate), HS.
      * intros sid rq [].
    + apply (G_rl_goaway hstate dec_field enc_field enc_set_max cfg c s ph RUnknownType c_ProtocolError 1 Hsl Hwl).
      * eapply feed_rl_exit; eauto; sc_rw; try assumption. cbn [rl_step]. rewrite E0. reflexivity.
      * left. apply allowed_table. cbn [abs_input RS.verdicts]. rewrite B. reflexivity.
  - (* a malformed frame for which the reader names an error code *)
    apply (G_rl_goaway hstate dec_field enc_field enc_set_max cfg c s ph (RBadFrame (Some code)) code 1 Hsl Hwl).
    + eapply feed_rl_exit; eauto; sc_rw; try assumption; try reflexivity.
    + left. apply allowed_table. cbn [abs_input RS.verdicts existsb RS.admits]. rewrite N.eqb_refl. reflexivity.
  - (* a malformed frame: the connection is closed *)
    apply (G_rl_close hstate dec_field enc_field enc_set_max cfg c s ph (RBadFrame None) 3 Hsl).
    + eapply feed_rl_exit; eauto; try reflexivity.
    + left. apply allowed_table. reflexivity.
  - (* the peer has gone *)
    apply (G_rl_close hstate dec_field enc_field enc_set_max cfg c s ph RLEof 0 Hsl).
    + eapply feed_rl_exit; eauto; try reflexivity.
    + left. apply allowed_table. reflexivity.
Qed.

(* ---------- time and shutdown ---------- *)

Lemma G_local c s ph l : Sim c s ph -> sc_sl_done c = false -> Gloc hstate c s ph (feed c (ILocal l)).
Proof.
  intros HS Hsl. pose proof (S_aux _ _ _ _ HS) as [AT AH]. pose proof (A_wl _ _ AT) as Hwl.
  destruct l as [t| | |]; unfold SrvRfcDefs.feed; cbn [local_event].
  - (* the clock *)
    rewrite step_EvClock. destruct (sc_now c <? t)%Z.
    + apply (Gloc_batch hstate c s ph (upd_now c t) [] [] HS Hsl eq_refl); [apply batch_same; auto | intros i rq []].
    + apply (Gloc_batch hstate c s ph c [] [] HS Hsl eq_refl); [apply batch_same; auto | intros i rq []].
  - (* the request timer: the overdue streams are reset (CANCEL) and closed *)
    rewrite step_EvTimer, Hsl. unfold sl_timer. destruct (cf_maxRequestTime cfg <=? 0)%Z; cbn [fst cont].
    + apply (Gloc_batch hstate c s ph c [] [] HS Hsl eq_refl); [apply batch_same; auto | intros i rq []].
    + destruct (close_heads_live hstate (count_due cfg (sc_now c) (sc_strms c)) c s ph Hsl (S_wf _ _ _ _ HS) (Sim_live hstate c s ph HS))
        as (d & O & Sl & Nd & L).
      exists d. split; [exact O|]. rewrite Sl. split; [exact L | exact Nd].
  - (* idle: GOAWAY(NO_ERROR) *)
    rewrite step_EvIdle. set (c' := upd_closer (write_goaway c 0 c_NoError) true).
    exists [OGoAway (sc_lastID c) c_NoError]. split; [unfold c'; sc_cbn; rewrite sc_out_write_goaway, Hwl, Hsl; reflexivity|].
    assert (Sl' : sc_sl_done c' = false) by (unfold c'; sc_cbn; sc_rw; exact Hsl).
    rewrite Sl'. split; [|intros i rq [H|[]]; discriminate].
    assert (AO : after_outs s [OGoAway (sc_lastID c) c_NoError] = RS.spec_sent s RS.SentGoAway) by reflexivity. rewrite AO.
    assert (ST : static hstate c c') by (unfold c'; repeat split; sc_cbn; sc_rw; reflexivity).
    assert (EC : sc_expectCont c' = sc_expectCont c) by (unfold c'; sc_cbn; sc_rw; reflexivity).
    assert (DI : sc_discardID c' = sc_discardID c) by (unfold c'; sc_cbn; sc_rw; reflexivity).
    apply (live_tuple_static hstate c c' s _ ph ph HS ST).
    + destruct AH as [F1 F2 F3 F4]. pose proof ST as (A1 & _ & _ & _ & A5 & _). constructor.
      * intros st H. rewrite A1 in H. rewrite EC. apply F1, H.
      * intros st Hne H. rewrite EC in Hne, H. rewrite (tbl_static hstate _ _ _ ST) in H. apply (F2 st Hne H).
      * rewrite EC. exact F3.
      * rewrite DI, A5, (tbl_static hstate _ _ _ ST). exact F4.
    + intro id. rewrite st_of_spec_sent by exact (S_wf _ _ _ _ HS). reflexivity.
    + reflexivity.
    + unfold R_block. rewrite block_spec_sent, EC. exact (S_blk _ _ _ _ HS).
    + unfold c'. sc_cbn. rewrite sc_closing_write_goaway. reflexivity.
    + rewrite EC, DI, (tbl_static hstate _ _ _ ST). intros Hne T. destruct (S_cont _ _ _ _ HS Hne T) as [X|X]; [left; exact X | right; exact X].
    + reflexivity.
    + unfold c'. sc_cbn. rewrite sc_closing_write_goaway. discriminate.
  - (* the closer channel *)
    rewrite step_EvCloser. rewrite Hsl. cbn [negb]. rewrite andb_true_r. destruct (sc_closer c).
    + apply (Gloc_over hstate c s ph _ [OExit 1 0]); try reflexivity. intros i rq [H|[]]; discriminate.
    + apply (Gloc_batch hstate c s ph c [] [] HS Hsl eq_refl); [apply batch_same; auto | intros i rq []].
Qed.

(* ---------- once the stream loop has ended ---------- *)

Definition not_dispatch (o : outev) : Prop := forall sid rq, o <> ODispatch sid rq.

Inductive nd : list outev -> list outev -> Prop :=
| nd_refl l : nd l l
| nd_cons o l l' : nd l l' -> not_dispatch o -> nd l (o :: l').

Lemma nd_ext l l' : nd l l' -> exists d, l' = d ++ l /\ forall sid rq, ~ In (ODispatch sid rq) d.
Proof.
  induction 1 as [l|o l l' _ (d & -> & Hd) No]; [exists []; split; [reflexivity | intros sid rq []]|].
  exists (o :: d). split; [reflexivity|]. intros sid rq [H|H]; [exact (No sid rq H) | exact (Hd sid rq H)].
Qed.

Lemma rl_step_over c i : sc_sl_done c = true ->
  sc_sl_done (rl_step cfg c i) = true /\ nd (sc_out c) (sc_out (rl_step cfg c i)).
Proof.
  intro Hsl. unfold rl_step, forward, rl_exit, write_error, write_goaway, emit, note, check_frame_with_stream.
  destruct i as [fr| |[code|]|];
    repeat first [ rewrite Hsl | progress sc_cbn
                 | match goal with
                   | |- context [if ?b then _ else _] => destruct b
                   | |- context [match sf_kind ?f with _ => _ end] => destruct (sf_kind f)
                   end ];
    (split; [reflexivity|]); repeat (first [apply nd_refl | apply nd_cons; [|intros ? ?; discriminate]]).
Qed.

Lemma over_step c s ph it : wf s -> sc_sl_done c = true -> RS.dead s = true -> step_goal hstate dec_field enc_field enc_set_max cfg c s ph it.
Proof.
  intros W Hsl Hd.
  assert (K : sc_sl_done (feed c it) = true /\ nd (sc_out c) (sc_out (feed c it))).
  { unfold SrvRfcDefs.feed. destruct it as [i|sid r|l].
    - rewrite step_EvRL. destruct (sc_rl_done c).
      + rewrite step_EvSL, Hsl. split; [exact Hsl | apply nd_refl].
      + destruct (rl_step_over c i Hsl) as [A B]. rewrite step_EvSL, A. split; [exact A | exact B].
    - rewrite step_EvDone, Hsl. split; [exact Hsl | apply nd_refl].
    - destruct l as [t| | |]; cbn [local_event].
      + rewrite step_EvClock. destruct (_ <? _)%Z; (split; [exact Hsl | apply nd_refl]).
      + rewrite step_EvTimer, Hsl. split; [exact Hsl | apply nd_refl].
      + rewrite step_EvIdle. unfold write_goaway, emit. sc_cbn. rewrite Hsl.
        destruct (sc_wl_dead c); sc_cbn; (split; [exact Hsl|]); [apply nd_refl | apply nd_cons; [apply nd_refl | intros ? ?; discriminate]].
      + rewrite step_EvCloser, Hsl. cbn [negb]. rewrite andb_false_r. split; [exact Hsl | apply nd_refl]. }
  destruct K as [Hsl' Hnd]. destruct (nd_ext _ _ Hnd) as (d & Ho & Hnd').
  pose proof (new_out_ext hstate _ _ _ Ho) as NO.
  unfold step_goal. cbv zeta. split; [intro X; congruence|]. split.
  - unfold SrvRfcSim.Post. rewrite Hsl'.
    unfold SrvRfcDefs.spec_feed. cbv zeta.
    set (s1 := match it with IIn i => RS.spec_next s (abs_input i) _ | _ => s end).
    assert (W1 : wf s1 /\ RS.dead s1 = true).
    { unfold s1. destruct it as [i| |]; [|auto|auto]. split; [apply wf_spec_next, W|].
      destruct (abs_input i) as [f| |code|]; [rewrite dead_spec_next, Hd; reflexivity | | |];
        cbn [RS.spec_next]; match goal with |- context [resolve ?a ?b ?r] => destruct (resolve a b r) end; cbn; auto. }
    destruct W1 as [W1 D1].
    set (s2 := fold_left RS.spec_sent _ s1).
    assert (W2 : wf s2 /\ RS.dead s2 = true) by (unfold s2; split; [apply wf_fold_sent, W1 | rewrite dead_fold_sent, D1; reflexivity]).
    destruct W2 as [W2 D2]. destruct (sync_forget_props hstate (feed c it) s2 W2) as (W3 & _ & _ & _ & D3 & _).
    split; [exact W3 | rewrite D3; exact D2].
  - split; [|exists d; exact Ho]. intros sid rq H. exfalso. rewrite NO in H. apply in_rev in H. exact (Hnd' sid rq H).
Qed.

End Main.
