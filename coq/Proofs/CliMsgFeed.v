(* Proofs/CliMsgFeed.v - C02 (c) / C20 (client): one frame through dispatch keeps the invariant, the ghost
   (reference receiver) taking the same frame. *)
From H2V Require Import Base.Bytes Base.MachineInt Base.Result Gen.GenConsts Impl.ServerConn Impl.ClientConn
  Spec.Http2Messages Spec.Http2Responses Proofs.CliBase Proofs.SrvIsoRef Proofs.CliMsgRef Proofs.CliMsgAuto Proofs.CliMsgMoves
  Proofs.CliMsgDisp Proofs.CliMsgStep Proofs.CliMsgInv.
From Coq Require Import ZArith Lia ZifyN ZifyNat ZifyBool List.
Import ListNotations.
Local Open Scope N_scope.

Section Feed.
Context {hstate : Type}.
Variable dec_field : hstate -> N -> bytes -> dec_res hstate.
Implicit Types c : cconn hstate.
Implicit Types g : @gst hstate.

Notation Inv := (Inv (hstate := hstate)).

Definition open_on g (id : N) : Prop := match g_open g with Some (s, _, _) => s = id | None => True end.

(* what the request that takes the frame gets when the automaton says "done" *)
Definition fwd g' (c3 : cconn hstate) (id : N) (ok : option cctx) : Prop :=
  match ok with
  | Some x => ct_err x = None -> ct_resolved x = false ->
              forall r, run_items rinit (own id (g_items g')) = IDone r ->
              exists x3, cl_ctx_get c3 (ct_tag x) = Some x3 /\ ct_err x3 = Some CENil /\ ct_resp x3 = r
  | None => True
  end.

Lemma own_extra id i (items extra : list (N * ritem)) :
  (forall p, In p extra -> fst p = id) -> i <> id -> own i (items ++ extra) = own i items.
Proof.
  intros H NE. rewrite own_app. replace (own i extra) with (@nil ritem); [apply app_nil_r|].
  unfold own. induction extra as [|p t IH]; [reflexivity|]. cbn [filter].
  rewrite (H p (or_introl eq_refl)). replace (id =? i) with false by lia. apply IH. intros q Hq. apply H. right. exact Hq.
Qed.

(* the frame conditions of a feed: everything but the decoder registers and the Ctx that takes the frame *)
Definition ctx_rel (tg : option N) c c' : Prop :=
  forall t, tg <> Some t -> match cl_ctx_get c' t, cl_ctx_get c t with Some x', Some x => ctx_q x x' | None, None => True | _, _ => False end.

Record fm (tg : option N) c c' : Prop := mkFM {
  fm_next : cc_nextID c' = cc_nextID c;
  fm_rq : (forall p, In p (cc_reqQueued c') -> In p (cc_reqQueued c)) /\ (NoDup (map fst (cc_reqQueued c)) -> NoDup (map fst (cc_reqQueued c')));
  fm_inq : (forall t, In t (cc_inQ c') -> In t (cc_inQ c)) /\ (NoDup (cc_inQ c) -> NoDup (cc_inQ c'));
  fm_le : forall e, cc_lastErr c' = Some e -> err_special e = true -> cc_lastErr c = Some e;
  fm_out : exists new, cc_out c' = new ++ cc_out c /\ forallb q2 new = true;
  fm_outq : forallb q2 (cc_outQ c) = true -> forallb q2 (cc_outQ c') = true;
  fm_ctx : ctx_rel tg c c';
  fm_rl : cl_rl_live c' = true -> cl_rl_live c = true;
  fm_wl : cl_wl_live c' = true -> cl_wl_live c = true;
  fm_enc : cc_enc c' = cc_enc c
}.

Lemma fm_refl tg c : fm tg c c.
Proof.
  constructor; auto.
  - exists []. split; reflexivity.
  - intros t _. destruct (cl_ctx_get c t); [apply ctx_q_refl | exact Logic.I].
Qed.

Lemma fm_trans tg a b c : fm tg a b -> fm tg b c -> fm tg a c.
Proof.
  intros [] []. constructor; try congruence; auto.
  - destruct fm_rq0, fm_rq1. split; auto.
  - destruct fm_inq0, fm_inq1. split; auto.
  - destruct fm_out0 as (n0 & E0 & F0), fm_out1 as (n1 & E1 & F1). exists (n1 ++ n0). split.
    + rewrite E1, E0, app_assoc. reflexivity.
    + rewrite forallb_app, F1, F0. reflexivity.
  - intros t NT. specialize (fm_ctx0 t NT). specialize (fm_ctx1 t NT).
    destruct (cl_ctx_get c t), (cl_ctx_get b t), (cl_ctx_get a t); try contradiction; try exact Logic.I.
    eapply ctx_q_trans; eassumption.
Qed.

Lemma fm_qm tg c c' : qm q2 c c' -> fm tg c c'.
Proof.
  intro Q. destruct Q. constructor; auto. intros t _. exact (qm_ctx t).
Qed.

(* writing the fed Ctx back *)
Lemma fm_put c x x2 : cl_ctx_get c (ct_tag x) = Some x -> ct_tag x2 = ct_tag x -> fm (Some (ct_tag x)) c (cl_ctx_put c x2).
Proof.
  intros G T. constructor; try reflexivity; auto.
  - exists []. split; reflexivity.
  - intros t NT. rewrite cl_ctx_get_put, T. destruct (t =? ct_tag x) eqn:E; [exfalso; apply NT; f_equal; lia|].
    destruct (cl_ctx_get c t); [apply ctx_q_refl | exact Logic.I].
Qed.

Lemma fm_ctx_upd c tag f : (forall x, ct_tag (f x) = ct_tag x) -> fm (Some tag) c (cl_ctx_upd c tag f).
Proof.
  intro F. unfold cl_ctx_upd. destruct (cl_ctx_get c tag) as [x|] eqn:G; [|apply fm_refl].
  destruct (cl_ctxs_get_In _ _ _ G) as [_ E]. rewrite <- E. apply fm_put; [rewrite E; exact G | apply F].
Qed.

Lemma fm_finish c tag id e : fm (Some tag) c (cl_finish c tag id e).
Proof.
  unfold cl_finish. eapply fm_trans; [|apply fm_ctx_upd; intro x; rewrite ct_tag_cl_ctx_resolve; reflexivity].
  apply fm_qm. eapply qm_trans; [apply qm_take_req_count|].
  destruct (cl_pend_get _ id); [|apply qm_refl]. eapply qm_trans; [apply qm_pending | apply qm_close_body].
Qed.

Lemma Inv_feed_gen g g' c c' (id : N) (tg : option N) :
  Inv g c -> id <> 0 ->
  (cl_rl_live c' = true ->
   g_d g' = cc_dec c' /\
   match g_open g' with
   | None => cc_hdrStream c' = 0
   | Some (s, es, fs) => cc_hdrStream c' = s /\ s <> 0 /\ cc_hdrEndStream c' = es /\ g_n g' = cc_hdrFields c' /\ g_carry g' = cc_hdrPrev c'
   end) ->
  (forall e, cc_hdrErr c' = Some e -> e = CEMalformed) ->
  fm tg c c' ->
  (exists extra, g_items g' = g_items g ++ extra /\ forall p, In p extra -> fst p = id) ->
  open_on g id -> open_on g' id ->
  match tg with
  | Some t => exists x x', cl_ctx_get c t = Some x /\ cl_ctx_get c' t = Some x' /\ ct_sid x = id /\ ct_sid x' = id /\ In (id, t) (cc_reqQueued c) /\
                (ct_err x' = Some CENil -> run_items rinit (own id (g_items g')) = IDone (ct_resp x') /\ forall p, In p (cc_reqQueued c') -> fst p <> id) /\
                (In (id, t) (cc_reqQueued c') -> ct_err x' <> Some CENil /\ TabRel g' c' id x')
  | None => forall p, In p (cc_reqQueued c') -> fst p <> id
  end ->
  Inv g' c'.
Proof.
  intros I ID0 HDEC HERR [HNEXT [HRQ1 HRQ2] [HINQ1 HINQ2] HLE (new & HOUT & HNEW) HOUTQ HCTX _ _ _] (extra & HIT & HEX) OP OP' HFED.
  assert (CTXB : forall t x', tg <> Some t -> cl_ctx_get c' t = Some x' -> exists x, cl_ctx_get c t = Some x /\ ctx_q x x').
  { intros t x' NT G. specialize (HCTX t NT). rewrite G in HCTX. destruct (cl_ctx_get c t) as [x|]; [eauto | contradiction]. }
  assert (CTXF : forall t x, tg <> Some t -> cl_ctx_get c t = Some x -> exists x', cl_ctx_get c' t = Some x' /\ ctx_q x x').
  { intros t x NT G. specialize (HCTX t NT). rewrite G in HCTX. destruct (cl_ctx_get c' t) as [x'|]; [eauto | contradiction]. }
  (* a Ctx on the table under id is the fed one *)
  assert (ONLY : forall t', In (id, t') (cc_reqQueued c) -> match tg with Some t => t' = t | None => True end).
  { intros t' H. destruct tg as [t|]; [|exact Logic.I]. destruct HFED as (x & x' & _ & _ & _ & _ & HIN & _).
    pose proof (i_nodup _ _ I) as ND. clear -ND H HIN. revert ND H HIN. induction (cc_reqQueued c) as [|[i u] l IH]; intros ND H HIN; [destruct H|].
    cbn [map fst] in ND. inversion ND as [|? ? NI ND']; subst.
    destruct H as [H|H], HIN as [H2|H2].
    - congruence.
    - inversion H; subst. exfalso. apply NI. apply in_map_iff. exists (id, t). split; [reflexivity | exact H2].
    - inversion H2; subst. exfalso. apply NI. apply in_map_iff. exists (id, t'). split; [reflexivity | exact H].
    - exact (IH ND' H H2). }
  constructor.
  - exact HDEC.
  - exact HERR.
  - intros i t H. pose proof (HRQ1 _ H) as H0. destruct (i_tab _ _ I i t H0) as (x & G & S & N0 & LT & NE & T).
    destruct (N.eq_dec i id) as [->|NEI].
    + pose proof (ONLY t H0) as O. destruct tg as [t0|].
      * subst t0. destruct HFED as (x0 & x' & G0 & G' & S0 & S' & HIN & _ & HT). destruct (HT H) as [NE' T'].
        exists x'. repeat split; try assumption. rewrite HNEXT. exact LT.
      * exfalso. exact (HFED _ H eq_refl).
    + assert (NT : tg <> Some t).
      { intro E. subst tg. destruct HFED as (x0 & x' & G0 & _ & S0 & _). rewrite G in G0. inversion G0; subst x0. congruence. }
      destruct (CTXF t x NT G) as (x' & G' & QX). destruct (ctx_q_view _ _ QX) as (V1 & V2 & V3 & V4).
      exists x'. repeat split; try congruence.
      * intro E. apply NE. exact (ctx_q_nil _ _ QX E).
      * destruct T as (r0 & got & T1 & T2 & T3). exists r0, got. rewrite HIT, (own_extra id i _ _ HEX NEI). repeat split; [exact T1 | congruence|].
        assert (R0 : ct_resp x = r0).
        { unfold open_on in OP. destruct (g_open g) as [[[s es] fs]|]; [|exact T3]. subst s. replace (id =? i) with false in T3 by lia. exact T3. }
        unfold open_on in OP'. destruct (g_open g') as [[[s es] fs]|]; [|congruence]. subst s. replace (id =? i) with false by lia. congruence.
  - exact (HRQ2 (i_nodup _ _ I)).
  - intros t x' G' S. destruct tg as [t0|] eqn:ET.
    + destruct (N.eq_dec t t0) as [->|NT].
      * destruct HFED as (x0 & x1 & _ & G1 & _ & S1 & _). rewrite G' in G1. inversion G1; subst x1. congruence.
      * destruct (CTXB t x' ltac:(congruence) G') as (x & G & QX). destruct (ctx_q_view _ _ QX) as (V1 & V2 & V3 & V4).
        destruct (i_fresh _ _ I t x G ltac:(congruence)) as (A & B & C). repeat split; try congruence. intro E. apply C. exact (ctx_q_nil _ _ QX E).
    + destruct (CTXB t x' ltac:(congruence) G') as (x & G & QX). destruct (ctx_q_view _ _ QX) as (V1 & V2 & V3 & V4).
      destruct (i_fresh _ _ I t x G ltac:(congruence)) as (A & B & C). repeat split; try congruence. intro E. apply C. exact (ctx_q_nil _ _ QX E).
  - intros t x' G' E.
    assert (OTHER : tg <> Some t -> ct_sid x' <> 0 /\ run_items rinit (own (ct_sid x') (g_items g')) = IDone (ct_resp x')).
    { intro NT. destruct (CTXB t x' NT G') as (x & G & QX). destruct (ctx_q_view _ _ QX) as (V1 & V2 & V3 & V4).
      destruct (i_nil _ _ I t x G (ctx_q_nil _ _ QX E)) as [A B]. rewrite V1, V2. split; [exact A|].
      rewrite HIT, own_app. apply run_items_done_stable. exact B. }
    destruct tg as [t0|]; [|apply OTHER; discriminate].
    destruct (N.eq_dec t t0) as [->|NT]; [|apply OTHER; congruence].
    destruct HFED as (x0 & x1 & _ & G1 & _ & S1 & _ & HN & _). rewrite G' in G1. inversion G1; subst x1.
    rewrite S1. split; [exact ID0 | exact (proj1 (HN E))].
  - intros t r resp H. rewrite HOUT in H. apply in_app_or in H. destruct H as [H|H].
    { exfalso. rewrite forallb_forall in HNEW. specialize (HNEW _ H). discriminate. }
    destruct (i_res _ _ I t r resp H) as (x & G & S & R).
    assert (NT : tg <> Some t).
    { intro E. subst tg. destruct HFED as (x0 & x' & G0 & _ & S0 & _ & HIN & _). rewrite G in G0. inversion G0; subst x0.
      destruct (i_tab _ _ I id t HIN) as (y & Gy & _ & _ & _ & _ & (r0 & got & T1 & _)). rewrite S0 in R. congruence. }
    destruct (CTXF t x NT G) as (x' & G' & QX). destruct (ctx_q_view _ _ QX) as (V1 & V2 & V3 & V4).
    exists x'. rewrite V1. repeat split; try assumption. rewrite HIT, own_app. apply run_items_done_stable. exact R.
  - destruct (i_inq _ _ I) as [N1 N2]. split; [exact (HINQ2 N1)|]. intros t H. destruct (N2 t (HINQ1 t H)) as (x & G & S).
    assert (NT : tg <> Some t).
    { intro E. subst tg. destruct HFED as (x0 & x' & G0 & _ & S0 & _). rewrite G in G0. inversion G0; subst x0. congruence. }
    destruct (CTXF t x NT G) as (x' & G' & QX). destruct (ctx_q_view _ _ QX) as (V1 & _). exists x'. split; [exact G' | congruence].
  - intros e H. destruct (err_special e) eqn:S; [|reflexivity]. rewrite <- S. exact (i_le _ _ I e (HLE e H S)).
  - exact (HOUTQ (i_outq _ _ I)).
  - rewrite HNEXT. exact (i_next _ _ I).
Qed.


(* ---------- the tail of dispatch ---------- *)
Definition regs c := (cc_dec c, cc_hdrStream c, cc_hdrPrev c, cc_hdrFields c, cc_hdrEndStream c, cc_hdrRegularSeen c, cc_hdrStatus c, cc_hdrErr c).

Lemma regs_qm P c c' : qm P c c' -> regs c' = regs c.
Proof. intros []. unfold regs. congruence. Qed.
Lemma regs_ctx_upd c t f : regs (cl_ctx_upd c t f) = regs c.
Proof. unfold cl_ctx_upd. destruct (cl_ctx_get c t); reflexivity. Qed.
Lemma regs_finish c tag id e : regs (cl_finish c tag id e) = regs c.
Proof.
  unfold cl_finish. rewrite regs_ctx_upd.
  assert (Q : qm q2 c (match cl_pend_get (cc_pending (cl_take_req_count c id)) id with
                       | Some pb => cl_close_body (ccu_pending (cl_take_req_count c id) (cl_pend_del (cc_pending (cl_take_req_count c id)) id)) pb
                       | None => cl_take_req_count c id end)).
  { eapply qm_trans; [apply qm_take_req_count|]. destruct (cl_pend_get _ id); [|apply qm_refl]. eapply qm_trans; [apply qm_pending | apply qm_close_body]. }
  exact (regs_qm _ _ _ Q).
Qed.

Lemma finish_rq c tag id e p : In p (cc_reqQueued (cl_finish c tag id e)) -> fst p <> id /\ In p (cc_reqQueued c).
Proof.
  unfold cl_finish.
  assert (E : forall c0 t f, cc_reqQueued (cl_ctx_upd c0 t f) = cc_reqQueued c0) by (intros; unfold cl_ctx_upd; destruct (cl_ctx_get c0 t); reflexivity).
  rewrite E.
  assert (E2 : cc_reqQueued (match cl_pend_get (cc_pending (cl_take_req_count c id)) id with
                       | Some pb => cl_close_body (ccu_pending (cl_take_req_count c id) (cl_pend_del (cc_pending (cl_take_req_count c id)) id)) pb
                       | None => cl_take_req_count c id end) = cc_reqQueued (cl_take_req_count c id)).
  { destruct (cl_pend_get _ id) as [pb|]; [|reflexivity]. unfold cl_close_body. destruct (pb_stream pb); [|reflexivity]. cbn. rewrite E. reflexivity. }
  rewrite E2, cc_reqQueued_cl_take_req_count. intro H. apply filter_In in H. destruct H as [H1 H2]. split; [|exact H1].
  apply negb_true_iff in H2. lia.
Qed.

(* the Ctx after finish: Response and stream id as they were; Err gets e if it was free *)
Lemma take_req_count_ctxs c id : cc_ctxs (cl_take_req_count c id) = cc_ctxs c.
Proof. unfold cl_take_req_count. destruct (cl_req_find (cc_reqQueued c) id); reflexivity. Qed.

Lemma close_body_ctx c pb t x : cl_ctx_get c t = Some x ->
  exists x2, cl_ctx_get (cl_close_body c pb) t = Some x2 /\ (x2 = x \/ x2 = ctu_bodyClosed x true).
Proof.
  intro G. unfold cl_close_body. destruct (pb_stream pb); [|exists x; auto].
  change (cl_ctx_get (cl_note ?a ?o) t) with (cl_ctx_get a t).
  rewrite cl_ctx_get_upd by reflexivity. rewrite G. destruct (t =? pb_tag pb); [exists (ctu_bodyClosed x true) | exists x]; auto.
Qed.

Lemma finish_ctx c tag id e x : cl_ctx_get c tag = Some x ->
  exists x3, cl_ctx_get (cl_finish c tag id e) tag = Some x3 /\ ct_sid x3 = ct_sid x /\ ct_resp x3 = ct_resp x /\ ct_gotStatus x3 = ct_gotStatus x /\
             (forall e', ct_err x3 = Some e' -> ct_err x = Some e' \/ e' = e) /\
             (ct_err x = None -> ct_resolved x = false -> ct_err x3 = Some e).
Proof.
  intro G. unfold cl_finish.
  set (c2 := match cl_pend_get (cc_pending (cl_take_req_count c id)) id with
             | Some pb => cl_close_body (ccu_pending (cl_take_req_count c id) (cl_pend_del (cc_pending (cl_take_req_count c id)) id)) pb
             | None => cl_take_req_count c id end).
  assert (G1 : cl_ctx_get (cl_take_req_count c id) tag = Some x) by (unfold cl_ctx_get; rewrite take_req_count_ctxs; exact G).
  assert (G2 : exists x2, cl_ctx_get c2 tag = Some x2 /\ (x2 = x \/ x2 = ctu_bodyClosed x true)).
  { subst c2. destruct (cl_pend_get _ id) as [pb|]; [|exists x; auto]. apply close_body_ctx. exact G1. }
  destruct G2 as (x2 & G2 & EX).
  rewrite cl_ctx_get_upd by (intro y; rewrite ct_tag_cl_ctx_resolve; reflexivity). rewrite N.eqb_refl, G2.
  exists (cl_ctx_resolve (ctu_finished x2 true) e). split; [reflexivity|].
  rewrite cl_ctx_resolve_eq.
  destruct (negb (ct_resolved (ctu_finished x2 true)) && match ct_err (ctu_finished x2 true) with None => true | Some _ => false end) eqn:B;
    destruct EX as [-> | ->]; cbn; cbn in B; repeat split; try reflexivity;
    try (intros e' H; solve [inversion H; auto | auto]);
    try (intros H1 H2; rewrite H1, H2 in B; discriminate).
Qed.


Definition after_ga c : cconn hstate := if cl_gone_away c then cl_rl_exit c 2 else c.
Lemma rl_after_ga c : rl_after (c, if cl_gone_away c then CDStop else CDCont) = after_ga c.
Proof. unfold after_ga. destruct (cl_gone_away c); reflexivity. Qed.
Lemma rl_exit_ctxs c w : cc_ctxs (cl_rl_exit c w) = cc_ctxs c.
Proof. unfold cl_rl_exit, cl_conn_close, cl_close_begin, cl_close_net. destruct (cc_closed c); [reflexivity|]. destruct (cl_can_write _); reflexivity. Qed.
Lemma rl_exit_rq c w : cc_reqQueued (cl_rl_exit c w) = cc_reqQueued c.
Proof. unfold cl_rl_exit, cl_conn_close, cl_close_begin, cl_close_net. destruct (cc_closed c); [reflexivity|]. destruct (cl_can_write _); reflexivity. Qed.
Lemma rl_exit_dead c w : cl_rl_live (cl_rl_exit c w) = false.
Proof. reflexivity. Qed.
Lemma after_ga_qm c : qm q2 c (after_ga c).
Proof. unfold after_ga. destruct (cl_gone_away c); [apply qm_rl_exit | apply qm_refl]. Qed.
Lemma after_ga_ctxs c : cc_ctxs (after_ga c) = cc_ctxs c.
Proof. unfold after_ga. destruct (cl_gone_away c); [apply rl_exit_ctxs | reflexivity]. Qed.
Lemma after_ga_rq c : cc_reqQueued (after_ga c) = cc_reqQueued c.
Proof. unfold after_ga. destruct (cl_gone_away c); [apply rl_exit_rq | reflexivity]. Qed.

Definition fatal (e : cl_rserr) : Prop := match e with CRSConn _ | CRSPanic => True | _ => False end.

Lemma tail_none c2 id ended err2 : (forall e, err2 = CRSConn e -> err_special e = false) ->
  qm q2 c2 (rl_after (disp_tail c2 id None ended err2)) /\ (fatal err2 -> cl_rl_live (rl_after (disp_tail c2 id None ended err2)) = false).
Proof.
  intro HC. unfold disp_tail. destruct err2 as [|e|e|]; try rewrite rl_after_ga; cbn [rl_after fatal].
  - split; [apply after_ga_qm | intros []].
  - split; [apply after_ga_qm | intros []].
  - split; [|reflexivity]. eapply qm_trans; [|apply qm_rl_exit]. apply qm_set_last_err. apply HC. reflexivity.
  - split; [apply qm_rl_panic | reflexivity].
Qed.

Lemma tail_some c2 id x2 ended err2 :
  cl_ctx_get c2 (ct_tag x2) = Some x2 ->
  (forall e, err2 = CRSConn e -> err_special e = false) -> (forall e, err2 = CRSStream e -> err_special e = false) ->
  let c3 := rl_after (disp_tail c2 id (Some x2) ended err2) in
  fm (Some (ct_tag x2)) c2 c3 /\ regs c3 = regs c2 /\
  ((err2 = CRSNone /\ ended = false /\ cl_ctx_get c3 (ct_tag x2) = Some x2 /\ cc_reqQueued c3 = cc_reqQueued c2) \/
   ((forall p, In p (cc_reqQueued c3) -> fst p <> id) /\
    exists x3, cl_ctx_get c3 (ct_tag x2) = Some x3 /\ ct_sid x3 = ct_sid x2 /\ ct_resp x3 = ct_resp x2 /\
      (ct_err x3 = Some CENil -> ct_err x2 = Some CENil \/ (err2 = CRSNone /\ ended = true)) /\
      (fatal err2 -> cl_rl_live c3 = false) /\
      (err2 = CRSNone -> ended = true /\ (ct_err x2 = None -> ct_resolved x2 = false -> ct_err x3 = Some CENil)))).
Proof.
  intros G2 HC HS c3. subst c3. unfold disp_tail.
  (* finish, then maybe the loop's exit *)
  assert (FIN : forall c e w, cl_ctx_get c (ct_tag x2) = Some x2 -> (e = CENil -> w = true) ->
            let c3 := after_ga (cl_finish c (ct_tag x2) id e) in
            fm (Some (ct_tag x2)) c c3 /\ regs c3 = regs c /\
            (forall p, In p (cc_reqQueued c3) -> fst p <> id) /\
            exists x3, cl_ctx_get c3 (ct_tag x2) = Some x3 /\ ct_sid x3 = ct_sid x2 /\ ct_resp x3 = ct_resp x2 /\
              (ct_err x3 = Some CENil -> ct_err x2 = Some CENil \/ w = true) /\
              (ct_err x2 = None -> ct_resolved x2 = false -> ct_err x3 = Some e)).
  { intros c e w G W c3. subst c3. split; [|split; [|split]].
    - eapply fm_trans; [apply fm_finish | apply fm_qm, after_ga_qm].
    - rewrite (regs_qm _ _ _ (after_ga_qm _)). apply regs_finish.
    - intros p H. rewrite after_ga_rq in H. exact (proj1 (finish_rq _ _ _ _ _ H)).
    - destruct (finish_ctx c (ct_tag x2) id e x2 G) as (x3 & G3 & S3 & R3 & _ & E3 & F3).
      exists x3. unfold cl_ctx_get. rewrite after_ga_ctxs. repeat split; try assumption.
      intro H. destruct (E3 _ H) as [A|A]; [left; exact A | right; apply W; symmetry; exact A]. }
  destruct err2 as [|e|e|].
  - destruct ended.
    + rewrite rl_after_ga. destruct (FIN c2 CENil true G2 ltac:(auto)) as (A & B & C & x3 & G3 & S3 & R3 & E3 & F3).
      split; [exact A | split; [exact B|]]. right. split; [exact C|]. exists x3. repeat split; try assumption.
      * intro H. destruct (E3 H); [left; assumption | right; auto].
      * intros [].
    + rewrite rl_after_ga. split; [apply fm_qm, after_ga_qm | split; [apply (regs_qm _ _ _ (after_ga_qm _))|]].
      left. repeat split; [unfold cl_ctx_get; rewrite after_ga_ctxs; exact G2 | apply after_ga_rq].
  - rewrite rl_after_ga. destruct (FIN c2 e false G2) as (A & B & C & x3 & G3 & S3 & R3 & E3 & F3).
    { intros ->. specialize (HS CENil eq_refl). discriminate. }
    split; [exact A | split; [exact B|]]. right. split; [exact C|]. exists x3. repeat split; try assumption; try discriminate.
    + intro H. destruct (E3 H); [left; assumption | discriminate].
    + intros [].
  - cbn [rl_after]. pose proof (HC e eq_refl) as SE.
    assert (G2' : cl_ctx_get (cl_set_last_err c2 e) (ct_tag x2) = Some x2) by (unfold cl_set_last_err; destruct (cc_lastErr c2); exact G2).
    destruct (finish_ctx (cl_set_last_err c2 e) (ct_tag x2) id e x2 G2') as (x3 & G3 & S3 & R3 & _ & E3 & F3).
    split; [|split].
    + eapply fm_trans; [apply fm_qm, qm_set_last_err, SE|]. eapply fm_trans; [apply fm_finish | apply fm_qm, qm_rl_exit].
    + rewrite (regs_qm _ _ _ (qm_rl_exit _ _)), regs_finish. apply (regs_qm q2). apply qm_set_last_err, SE.
    + right. split.
      * intros p H. rewrite rl_exit_rq in H. exact (proj1 (finish_rq _ _ _ _ _ H)).
      * exists x3. unfold cl_ctx_get. rewrite rl_exit_ctxs. repeat split; try assumption; try discriminate.
        intro H. destruct (E3 _ H) as [A|A]; [left; exact A | subst e; discriminate].
  - cbn [rl_after]. pose proof (qm_rl_panic c2) as Q.
    split; [apply fm_qm, Q | split; [exact (regs_qm _ _ _ Q)|]]. right. split.
    + intros p H. exfalso. revert H. unfold cl_rl_panic. rewrite rl_exit_rq. cbn. intros [].
    + pose proof (qm_ctx _ _ _ Q (ct_tag x2)) as QC. rewrite G2 in QC.
      destruct (cl_ctx_get (cl_rl_panic c2) (ct_tag x2)) as [x3|]; [|contradiction].
      destruct (ctx_q_view _ _ QC) as (V1 & V2 & _). exists x3. repeat split; try assumption; try discriminate.
      intro H. left. exact (ctx_q_nil _ _ QC H).
Qed.

(* ---------- DATA ---------- *)
Definition data_resp (res : option cresponse) (d : bytes) : option cresponse :=
  match res with
  | Some r => if cl_is_nil d then Some r else Some (cl_resp_append_body r d)
  | None => None
  end.

Lemma read_stream_data c fr res : sf_kind fr = KData ->
  exists dw, cl_read_stream dec_field c fr res = (dw, data_resp res (sf_payload fr), flag_has (sf_flags fr) FL_ES, CRSNone) /\
             qm q2 c dw /\ cc_ctxs dw = cc_ctxs c /\ cc_reqQueued dw = cc_reqQueued c.
Proof.
  intro K. unfold cl_read_stream. rewrite K. eexists. split; [reflexivity|].
  set (c1 := ccu_currentWindow c (cl_i32 (cc_currentWindow c - Z.of_N (sf_len fr)))).
  set (c2 := match res with
             | Some _ => if negb (sf_len fr =? 0) && negb (flag_has (sf_flags fr) FL_ES) then cl_update_window c1 (sf_sid fr) (Z.of_N (sf_len fr)) else c1
             | None => c1 end).
  assert (Q2 : qm q2 c c2 /\ cc_ctxs c2 = cc_ctxs c /\ cc_reqQueued c2 = cc_reqQueued c).
  { subst c2. destruct res; [destruct (negb (sf_len fr =? 0) && negb (flag_has (sf_flags fr) FL_ES))|].
    - split; [eapply qm_trans; [|apply qm_update_window]; apply qm_same; reflexivity|].
      unfold cl_update_window, cl_write_out. destruct (cc_closed c1); split; reflexivity.
    - split; [apply qm_same; reflexivity | split; reflexivity].
    - split; [apply qm_same; reflexivity | split; reflexivity]. }
  destruct Q2 as (Q2 & C2 & R2).
  match goal with |- context [if ?b then _ else _] => destruct b end.
  - split; [eapply qm_trans; [exact Q2|]; eapply qm_trans; [|apply qm_update_window]; apply qm_same; reflexivity|].
    unfold cl_update_window, cl_write_out. cbn. destruct (cc_closed c2); cbn; split; assumption.
  - split; [exact Q2 | split; assumption].
Qed.

Lemma req_find_not_in (l : list (N * N)) id : cl_req_find l id = None -> forall p, In p l -> fst p <> id.
Proof. intros H p I E. apply cl_req_find_None in H. apply H. apply in_map_iff. exists p. split; assumption. Qed.

Lemma own_snoc id (items : list (N * ritem)) it : own id (items ++ [(id, it)]) = own id items ++ [it].
Proof. rewrite own_app. unfold own at 2. cbn. rewrite N.eqb_refl. reflexivity. Qed.

Notation gstep := (gstep dec_field).
Notation feedmove := (feedmove dec_field).

Definition feed_state c (fr : sframe) (ok : option cctx) : cconn hstate :=
  rl_after (let '(c2, ok2, ended, err2) := disp_feed dec_field c fr ok in disp_tail c2 (sf_sid fr) ok2 ended err2).
Definition feed_pre c (fr : sframe) (ok : option cctx) : Prop :=
  cl_rl_live c = true /\ sf_sid fr <> 0 /\ frame_in_seq c fr = true /\
  match ok with
  | Some x => cl_req_find (cc_reqQueued c) (sf_sid fr) = Some (ct_tag x) /\ cl_ctx_get c (ct_tag x) = Some x /\ ct_sid x = sf_sid fr
  | None => cl_req_find (cc_reqQueued c) (sf_sid fr) = None
  end.

Lemma feed_data g c fr ok : Inv g c -> sf_kind fr = KData -> feed_pre c fr ok ->
  Inv (gstep g fr) (feed_state c fr ok) /\ cc_nextID (feed_state c fr ok) = cc_nextID c /\ fwd (gstep g fr) (feed_state c fr ok) (sf_sid fr) ok.
Proof.
  intros I K (L & S0 & FS & OK). unfold feed_state.
  assert (HS0 : cc_hdrStream c = 0).
  { unfold frame_in_seq in FS. rewrite K in FS. cbn [fkind_eqb negb andb] in FS. destruct (cc_hdrStream c =? 0) eqn:E; [lia | discriminate]. }
  destruct (i_dec _ _ I L) as [GD GO].
  assert (GN : g_open g = None).
  { destruct (g_open g) as [[[s es] fs]|]; [|reflexivity]. destruct GO as (A & B & _). congruence. }
  set (id := sf_sid fr) in *. set (es := flag_has (sf_flags fr) FL_ES).
  set (g' := gstep g fr).
  assert (G'I : g_items g' = g_items g ++ [(id, RData (sf_payload fr) es)]) by (unfold g', CliMsgInv.gstep; rewrite K; reflexivity).
  assert (G'O : g_open g' = None) by (unfold g', CliMsgInv.gstep; rewrite K; exact GN).
  assert (G'D : g_d g' = g_d g) by (unfold g', CliMsgInv.gstep; rewrite K; reflexivity).
  unfold disp_feed.
  destruct (read_stream_data c fr (match ok with Some x => Some (ct_resp x) | None => None end) K) as (dw & RS & QW & CW & RW).
  rewrite RS. rewrite K. cbn [fkind_eqb orb andb].
  assert (DEC : forall c', regs c' = regs c -> cl_rl_live c' = true ->
            g_d g' = cc_dec c' /\ match g_open g' with
                                  | None => cc_hdrStream c' = 0
                                  | Some (s, es, fs) => cc_hdrStream c' = s /\ s <> 0 /\ cc_hdrEndStream c' = es /\ g_n g' = cc_hdrFields c' /\ g_carry g' = cc_hdrPrev c'
                                  end).
  { intros c' R _. unfold regs in R. inversion R. rewrite G'O, G'D. split; congruence. }
  assert (HERR : forall c', regs c' = regs c -> forall e, cc_hdrErr c' = Some e -> e = CEMalformed).
  { intros c' R e H. unfold regs in R. inversion R. apply (i_herr _ _ I). congruence. }
  assert (EXTRA : exists extra, g_items g' = g_items g ++ extra /\ forall p, In p extra -> fst p = id).
  { exists [(id, RData (sf_payload fr) es)]. split; [exact G'I|]. intros p [<-|[]]. reflexivity. }
  destruct ok as [x|].
  - destruct OK as (F & G & SX). set (tag := ct_tag x) in *.
    pose proof (cl_req_find_In _ _ _ F) as HIN.
    destruct (i_tab _ _ I id tag HIN) as (x0 & G0 & _ & _ & _ & NE & (r0 & got & T1 & T2 & T3)).
    rewrite G in G0. inversion G0; subst x0. rewrite GN in T3.
    cbn [data_resp]. 
    set (r' := if cl_is_nil (sf_payload fr) then ct_resp x else cl_resp_append_body (ct_resp x) (sf_payload fr)).
    assert (RE : (if cl_is_nil (sf_payload fr) then Some (ct_resp x) else Some (cl_resp_append_body (ct_resp x) (sf_payload fr))) = Some r')
      by (subst r'; destruct (cl_is_nil (sf_payload fr)); reflexivity).
    rewrite RE. set (x1 := ctu_resp x r').
    replace ((cc_hdrStream dw =? 0) && false) with false by (destruct (cc_hdrStream dw =? 0); reflexivity).
    cbn [ct_gotStatus ctu_resp].
    set (err2 := if negb (ct_gotStatus x) then CRSStream CEMalformed else CRSNone).
    assert (G2 : cl_ctx_get (cl_ctx_put dw x1) (ct_tag x1) = Some x1).
    { rewrite cl_ctx_get_put, N.eqb_refl. unfold cl_ctx_get. rewrite CW. change (ct_tag x1) with tag. unfold cl_ctx_get in G. rewrite G. reflexivity. }
    change (ct_gotStatus x1) with (ct_gotStatus x). fold es. fold err2.
    assert (HE : forall e, err2 = CRSStream e -> err_special e = false) by (subst err2; destruct (negb (ct_gotStatus x)); intros e H; inversion H; reflexivity).
    assert (HC : forall e, err2 = CRSConn e -> err_special e = false) by (subst err2; destruct (negb (ct_gotStatus x)); intros e H; inversion H).
    destruct (tail_some (cl_ctx_put dw x1) id x1 es err2 G2 HC HE) as (FM & RG & CASES).
    set (c3 := rl_after (disp_tail (cl_ctx_put dw x1) id (Some x1) es err2)) in *.
    assert (GW : cl_ctx_get dw (ct_tag x) = Some x) by (unfold cl_ctx_get; rewrite CW; exact G).
    assert (FMC : fm (Some tag) c c3).
    { eapply fm_trans; [apply fm_qm, QW|]. eapply fm_trans; [|exact FM]. exact (fm_put dw x x1 GW eq_refl). }
    assert (R3 : regs c3 = regs c) by (rewrite RG; change (regs (cl_ctx_put dw x1)) with (regs dw); exact (regs_qm _ _ _ QW)).
    assert (OWN : own id (g_items g') = own id (g_items g) ++ [RData (sf_payload fr) es]) by (rewrite G'I; apply own_snoc).
    assert (STEP : run_items rinit (own id (g_items g')) = data_step (r0, got) (sf_payload fr) es).
    { rewrite OWN, run_items_app, T1. cbn [run_items item_step]. destruct (data_step (r0, got) (sf_payload fr) es); reflexivity. }
    unfold data_step in STEP. cbn [fst snd] in STEP. rewrite <- T2, <- T3 in STEP. fold r' in STEP.
    split; [|split; [exact (fm_next _ _ _ FMC)|]].
    2:{ (* the forward direction *)
        intros EN0 RN0 r DONE. rewrite STEP in DONE. subst err2. destruct (ct_gotStatus x) eqn:GS; cbn [negb] in *; [|discriminate].
        destruct es eqn:EES; [|discriminate]. inversion DONE; subst r.
        destruct CASES as [(E2 & EE & _) | (NOE & x3 & G3 & S3 & R3' & EN & _ & FW)]; [discriminate|].
        destruct (FW eq_refl) as [_ FW2]. exists x3. split; [exact G3|]. split; [exact (FW2 EN0 RN0) | exact R3']. }
    apply (Inv_feed_gen g g' c c3 id (Some tag) I S0 (DEC c3 R3) (HERR c3 R3) FMC EXTRA); [unfold open_on; rewrite GN; exact Logic.I | unfold open_on; rewrite G'O; exact Logic.I|].
    exists x. destruct CASES as [(E2 & EE & G3 & RQ3) | (NOE & x3 & G3 & S3 & R3' & EN & _)].
    + exists x1. split; [exact G|]. split; [exact G3|]. split; [exact SX|]. split; [exact SX|]. split; [exact HIN|]. split.
      * intro H. exfalso. apply NE. exact H.
      * intros _. split; [exact NE|]. exists r', true. subst err2. destruct (ct_gotStatus x) eqn:GS; [|discriminate]. cbn [negb] in STEP. rewrite EE in STEP.
        split; [exact STEP|]. split; [exact GS|]. rewrite G'O. reflexivity.
    + exists x3. split; [exact G|]. split; [exact G3|]. split; [exact SX|]. split; [rewrite S3; exact SX|]. split; [exact HIN|]. split.
      * intro H. split; [|exact NOE]. destruct (EN H) as [A|[A B]]; [contradiction|]. subst err2. destruct (ct_gotStatus x); [|discriminate]. cbn [negb] in STEP.
        rewrite B in STEP. rewrite R3'. exact STEP.
      * intro H. exfalso. exact (NOE _ H eq_refl).
  - cbn [data_resp].
    replace ((cc_hdrStream dw =? 0) && false) with false by (destruct (cc_hdrStream dw =? 0); reflexivity).
    destruct (tail_none dw id (flag_has (sf_flags fr) FL_ES) CRSNone ltac:(discriminate)) as [QT _].
    set (c3 := rl_after (disp_tail dw id None (flag_has (sf_flags fr) FL_ES) CRSNone)) in *.
    assert (Q3 : qm q2 c c3) by (eapply qm_trans; eassumption).
    assert (R3 : regs c3 = regs c) by exact (regs_qm _ _ _ Q3).
    split; [|split; [exact (qm_next _ _ _ Q3) | exact Logic.I]].
    apply (Inv_feed_gen g g' c c3 id None I S0 (DEC c3 R3) (HERR c3 R3) (fm_qm None _ _ Q3) EXTRA); [unfold open_on; rewrite GN; exact Logic.I | unfold open_on; rewrite G'O; exact Logic.I|].
    intros p H. destruct (qm_rq _ _ _ Q3) as [A _]. exact (req_find_not_in _ _ OK p (A p H)).
Qed.


(* ---------- HEADERS / CONTINUATION ---------- *)
Lemma rhf_err rs st r k v : forall e, snd (cl_read_header_field rs st r k v) = Some e -> e = CEMalformed.
Proof.
  unfold cl_read_header_field. intro e.
  repeat match goal with
         | |- context [if ?b then _ else _] => destruct b
         | |- context [match parse_uint ?x with _ => _ end] => destruct (parse_uint x)
         end; cbn [snd]; intro H; inversion H; reflexivity.
Qed.

Lemma hf_fold_herr : forall fs rs st he res,
  (forall e, he = Some e -> e = CEMalformed) ->
  forall e, snd (fst (hf_fold (rs, st, he, res) fs)) = Some e -> e = CEMalformed.
Proof.
  induction fs as [|[k v] t IH]; intros rs st he res H; [exact H|]. cbn [hf_fold fold_left hf_step fst snd].
  destruct res as [r|]; [destruct he as [e0|]|]; try (apply IH; exact H).
  pose proof (rhf_err rs st r k v) as E. destruct (cl_read_header_field rs st r k v) as [[[rs1 st1] r1] e1]. apply IH. exact E.
Qed.

Lemma cl_hdr_loop_herr fuel : forall eh d n rs st he res b,
  (forall e, he = Some e -> e = CEMalformed) ->
  match cl_hdr_loop dec_field fuel eh d n rs st he res b with
  | (_, _, _, _, he', _, _, _) => forall e, he' = Some e -> e = CEMalformed
  end.
Proof.
  induction fuel as [|fuel IH]; intros eh d n rs st he res b H; cbn [cl_hdr_loop]; [exact H|].
  destruct b as [|x b]; [exact H|].
  destruct (dec_field d n (x :: b)) as [k v rest d1|d1|d1|d1|]; try exact H.
  - destruct res as [r|]; [destruct he as [e0|]|]; try (apply IH; exact H).
    pose proof (rhf_err rs st r k v) as E. destruct (cl_read_header_field rs st r k v) as [[[rs1 st1] r1] e1]. apply IH. exact E.
  - destruct (negb eh); exact H.
Qed.

Lemma cl_hdr_loop_res_some fuel : forall eh d n rs st he r b,
  match cl_hdr_loop dec_field fuel eh d n rs st he (Some r) b with
  | (_, _, _, _, _, Some _, _, _) => True
  | _ => False
  end.
Proof.
  induction fuel as [|fuel IH]; intros eh d n rs st he r b; cbn [cl_hdr_loop]; [exact Logic.I|].
  destruct b as [|x b]; [exact Logic.I|].
  destruct (dec_field d n (x :: b)) as [k v rest d1|d1|d1|d1|]; try exact Logic.I.
  - destruct he as [e0|]; [apply IH|]. destruct (cl_read_header_field rs st r k v) as [[[rs1 st1] r1] e1]. apply IH.
  - destruct (negb eh); exact Logic.I.
Qed.

Definition nonregs c := (cc_nextID c, cc_ctxs c, cc_reqQueued c, cc_inQ c, cc_lastErr c, cc_out c, cc_outQ c, cl_rl_live c, cl_wl_live c, cc_enc c).

Lemma fm_same tg c c' : nonregs c' = nonregs c -> fm tg c c'.
Proof.
  unfold nonregs. intro H. inversion H. constructor; try congruence.
  - rewrite H3. split; auto.
  - rewrite H4. split; auto.
  - exists []. split; [rewrite H6; reflexivity | reflexivity].
  - intros t _. unfold cl_ctx_get. rewrite H2. destruct (cl_ctxs_get (cc_ctxs c) t); [apply ctx_q_refl | exact Logic.I].
Qed.

(* disp_feed with readStream's answer as a parameter *)
Definition disp_feed' (rsres : cconn hstate * option cresponse * bool * cl_rserr) (fr : sframe) (ok : option cctx)
  : cconn hstate * option cctx * bool * cl_rserr :=
  let '(c1, res', ended, err) := rsres in
  let ok1 := match ok, res' with Some x, Some r => Some (ctu_resp x r) | _, _ => ok end in
  let '(ok2, err2) :=
    match ok1, err with
    | Some x, CRSNone =>
      if (cc_hdrStream c1 =? 0) && (fkind_eqb (sf_kind fr) KHeaders || fkind_eqb (sf_kind fr) KCont) then
        if (cc_hdrStatus c1 =? 0)%Z then
          if negb (ct_gotStatus x) || negb (cc_hdrEndStream c1) then (ok1, CRSStream CEMalformed) else (ok1, CRSNone)
        else if ct_gotStatus x then (ok1, CRSStream CEMalformed)
        else
          let final := (200 <=? cc_hdrStatus c1)%Z in
          (Some (ctu_gotStatus x final), if negb final && cc_hdrEndStream c1 then CRSStream CEMalformed else CRSNone)
      else (ok1, err)
    | _, _ => (ok1, err)
    end in
  let err2 :=
    match ok2, err2 with
    | Some x, CRSNone => if fkind_eqb (sf_kind fr) KData && negb (ct_gotStatus x) then CRSStream CEMalformed else err2
    | _, _ => err2
    end in
  let c2 := match ok2 with Some x => cl_ctx_put c1 x | None => c1 end in
  (c2, ok2, ended, err2).

Lemma disp_feed_eq c0 fr ok :
  disp_feed dec_field c0 fr ok = disp_feed' (cl_read_stream dec_field c0 fr (match ok with Some x => Some (ct_resp x) | None => None end)) fr ok.
Proof. reflexivity. Qed.


Definition dec_clause g' (c' : cconn hstate) : Prop :=
  g_d g' = cc_dec c' /\
  match g_open g' with
  | None => cc_hdrStream c' = 0
  | Some (s, es, fs) => cc_hdrStream c' = s /\ s <> 0 /\ cc_hdrEndStream c' = es /\ g_n g' = cc_hdrFields c' /\ g_carry g' = cc_hdrPrev c'
  end.

Lemma dec_clause_regs g' c c' : regs c' = regs c -> dec_clause g' c -> dec_clause g' c'.
Proof. unfold regs, dec_clause. intro R. inversion R. intros [A B]. split; [congruence|]. destruct (g_open g') as [[[s es] fs]|]; [|congruence]. destruct B as (B1 & B2 & B3 & B4 & B5). repeat split; congruence. Qed.

Lemma TabRel_regs g c c' id x : regs c' = regs c -> TabRel g c id x -> TabRel g c' id x.
Proof.
  unfold regs. intro R. inversion R. intros (r0 & got & T1 & T2 & T3). exists r0, got. repeat split; try assumption.
  destruct (g_open g) as [[[s es] fs]|]; [|exact T3]. destruct (s =? id); [|exact T3]. congruence.
Qed.

Lemma regs_put c x : regs (cl_ctx_put c x) = regs c. Proof. reflexivity. Qed.

Lemma feed_finish g g' c c1 id ok ok2 ended err2 :
  Inv g c -> id <> 0 -> nonregs c1 = nonregs c ->
  (~ fatal err2 -> dec_clause g' c1) ->
  (forall e, cc_hdrErr c1 = Some e -> e = CEMalformed) ->
  (exists extra, g_items g' = g_items g ++ extra /\ forall p, In p extra -> fst p = id) ->
  open_on g id -> open_on g' id ->
  (forall e, err2 = CRSConn e -> err_special e = false) -> (forall e, err2 = CRSStream e -> err_special e = false) ->
  match ok, ok2 with
  | Some x, Some x2 =>
    cl_req_find (cc_reqQueued c) id = Some (ct_tag x) /\ cl_ctx_get c (ct_tag x) = Some x /\ ct_sid x = id /\
    ct_tag x2 = ct_tag x /\ ct_sid x2 = id /\ ct_err x2 = ct_err x /\
    (err2 = CRSNone -> ended = false -> TabRel g' c1 id x2) /\
    (err2 = CRSNone -> ended = true -> run_items rinit (own id (g_items g')) = IDone (ct_resp x2)) /\
    ct_resolved x2 = ct_resolved x /\
    (err2 <> CRSNone -> forall r, run_items rinit (own id (g_items g')) <> IDone r)
  | None, None => cl_req_find (cc_reqQueued c) id = None
  | _, _ => False
  end ->
  let c3 := rl_after (disp_tail (match ok2 with Some x2 => cl_ctx_put c1 x2 | None => c1 end) id ok2 ended err2) in
  Inv g' c3 /\ cc_nextID c3 = cc_nextID c /\ fwd g' c3 id ok.
Proof.
  intros I ID0 NR DECH HERR EXTRA OP OP' HC HS LINK c3. subst c3.
  assert (F1 : forall tg, fm tg c c1) by (intro tg; apply fm_same, NR).
  assert (CX : cc_ctxs c1 = cc_ctxs c) by (unfold nonregs in NR; inversion NR; reflexivity).
  assert (RQ : cc_reqQueued c1 = cc_reqQueued c) by (unfold nonregs in NR; inversion NR; reflexivity).
  destruct ok as [x|], ok2 as [x2|]; try contradiction.
  - destruct LINK as (F & G & SX & T2 & S2 & E2 & LCONT & LDONE & RS2 & LERR).
    pose proof (cl_req_find_In _ _ _ F) as HIN.
    destruct (i_tab _ _ I id (ct_tag x) HIN) as (x0 & G0 & _ & _ & _ & NE & _). rewrite G in G0. inversion G0; subst x0.
    assert (G1 : cl_ctx_get c1 (ct_tag x) = Some x) by (unfold cl_ctx_get; rewrite CX; exact G).
    assert (G2 : cl_ctx_get (cl_ctx_put c1 x2) (ct_tag x2) = Some x2).
    { rewrite cl_ctx_get_put, N.eqb_refl, T2, G1. reflexivity. }
    destruct (tail_some (cl_ctx_put c1 x2) id x2 ended err2 G2 HC HS) as (FM & RG & CASES).
    set (c3 := rl_after (disp_tail (cl_ctx_put c1 x2) id (Some x2) ended err2)) in *.
    assert (FMC : fm (Some (ct_tag x)) c c3).
    { eapply fm_trans; [apply F1|]. eapply fm_trans; [exact (fm_put c1 x x2 G1 T2)|]. rewrite <- T2. exact FM. }
    assert (R3 : regs c3 = regs c1) by (rewrite RG; apply regs_put).
    split; [|split; [exact (fm_next _ _ _ FMC)|]].
    + apply (Inv_feed_gen g g' c c3 id (Some (ct_tag x)) I ID0); try assumption.
      * intro L3. destruct CASES as [(E & _)|(_ & x3 & _ & _ & _ & _ & DEAD & _)].
        -- apply (dec_clause_regs g' c1 c3 R3). apply DECH. rewrite E. intros [].
        -- destruct err2; try (exfalso; rewrite (DEAD Logic.I) in L3; discriminate);
             apply (dec_clause_regs g' c1 c3 R3); apply DECH; intros [].
      * intros e H. apply HERR. unfold regs in R3. inversion R3. congruence.
      * exists x. rewrite T2 in *. destruct CASES as [(E & EE & G3 & RQ3) | (NOE & x3 & G3 & S3 & R3' & EN & _)].
        -- exists x2. split; [exact G|]. split; [exact G3|]. split; [exact SX|]. split; [exact S2|]. split; [exact HIN|]. split.
           ++ intro H. exfalso. apply NE. rewrite <- E2. exact H.
           ++ intros _. split; [rewrite E2; exact NE|]. apply (TabRel_regs g' c1 c3 id x2 R3). exact (LCONT E EE).
        -- exists x3. split; [exact G|]. split; [exact G3|]. split; [exact SX|]. split; [rewrite S3; exact S2|]. split; [exact HIN|]. split.
           ++ intro H. split; [|exact NOE]. destruct (EN H) as [A|[A B]]; [exfalso; apply NE; rewrite <- E2; exact A|].
              rewrite R3'. exact (LDONE A B).
           ++ intro H. exfalso. exact (NOE _ H eq_refl).
    + (* the forward direction *)
      intros EN0 RN0 r DONE.
      assert (E0 : err2 = CRSNone).
      { destruct err2; try reflexivity; exfalso; eapply LERR; try eassumption; discriminate. }
      rewrite T2 in *. destruct CASES as [(E & EE & G3 & RQ3) | (NOE & x3 & G3 & S3 & R3' & EN & _ & FW)].
      * exfalso. destruct (LCONT E EE) as (r0 & got & T1 & _). congruence.
      * destruct (FW E0) as [EE FW2]. exists x3. split; [exact G3|]. split; [apply FW2; congruence|].
        rewrite R3'. pose proof (LDONE E0 EE) as D. congruence.
  - destruct (tail_none c1 id ended err2 HC) as [QT DEAD].
    set (c3 := rl_after (disp_tail c1 id None ended err2)) in *.
    assert (FMC : fm None c c3) by (eapply fm_trans; [apply F1 | apply fm_qm, QT]).
    assert (R3 : regs c3 = regs c1) by exact (regs_qm _ _ _ QT).
    split; [|split; [exact (fm_next _ _ _ FMC) | exact Logic.I]].
    apply (Inv_feed_gen g g' c c3 id None I ID0); try assumption.
    + intro L3. apply (dec_clause_regs g' c1 c3 R3). apply DECH. intro FT. rewrite (DEAD FT) in L3. discriminate.
    + intros e H. apply HERR. unfold regs in R3. inversion R3. congruence.
    + intros p H. destruct (fm_rq _ _ _ FMC) as [A _]. exact (req_find_not_in _ _ LINK p (A p H)).
Qed.

Definition is_hc (k : fkind) : bool := fkind_eqb k KHeaders || fkind_eqb k KCont.
Lemma is_hc_not_data k : is_hc k = true -> fkind_eqb k KData = false.
Proof. destruct k; cbn; congruence. Qed.

Lemma dfeed_none c1 res' ended e fr : disp_feed' (c1, res', ended, e) fr None = (c1, None, ended, e).
Proof. unfold disp_feed'. destruct res', e; reflexivity. Qed.

Lemma dfeed_err c1 r' ended e fr x : e <> CRSNone ->
  disp_feed' (c1, Some r', ended, e) fr (Some x) = (cl_ctx_put c1 (ctu_resp x r'), Some (ctu_resp x r'), ended, e).
Proof. intro H. unfold disp_feed'. destruct e; try contradiction; reflexivity. Qed.

Lemma dfeed_open c1 r' fr x : cc_hdrStream c1 <> 0 -> is_hc (sf_kind fr) = true ->
  disp_feed' (c1, Some r', false, CRSNone) fr (Some x) = (cl_ctx_put c1 (ctu_resp x r'), Some (ctu_resp x r'), false, CRSNone).
Proof.
  intros H K. unfold disp_feed'. replace (cc_hdrStream c1 =? 0) with false by lia. cbn [andb]. rewrite (is_hc_not_data _ K). reflexivity.
Qed.

Lemma dfeed_block c1 r' ended fr x : cc_hdrStream c1 = 0 -> is_hc (sf_kind fr) = true ->
  disp_feed' (c1, Some r', ended, CRSNone) fr (Some x) =
  (let x1 := ctu_resp x r' in
   if (cc_hdrStatus c1 =? 0)%Z
   then (cl_ctx_put c1 x1, Some x1, ended, if negb (ct_gotStatus x) || negb (cc_hdrEndStream c1) then CRSStream CEMalformed else CRSNone)
   else if ct_gotStatus x then (cl_ctx_put c1 x1, Some x1, ended, CRSStream CEMalformed)
        else (cl_ctx_put c1 (ctu_gotStatus x1 (200 <=? cc_hdrStatus c1)%Z), Some (ctu_gotStatus x1 (200 <=? cc_hdrStatus c1)%Z), ended,
              if negb (200 <=? cc_hdrStatus c1)%Z && cc_hdrEndStream c1 then CRSStream CEMalformed else CRSNone)).
Proof.
  intros H K. unfold disp_feed'. rewrite H. unfold is_hc in K. rewrite K. cbn [N.eqb andb]. rewrite (is_hc_not_data _ K). cbn [andb ct_gotStatus ctu_resp].
  destruct (cc_hdrStatus c1 =? 0)%Z.
  - destruct (negb (ct_gotStatus x) || negb (cc_hdrEndStream c1)); reflexivity.
  - destruct (ct_gotStatus x); [reflexivity|]. cbv zeta. destruct (negb (200 <=? cc_hdrStatus c1)%Z && cc_hdrEndStream c1); reflexivity.
Qed.


Lemma rhf_result cb id frag eh res :
  (forall e, cc_hdrErr cb = Some e -> e = CEMalformed) ->
  match ref_loop dec_field (S (length (cc_hdrPrev cb ++ frag))) eh (cc_dec cb) (cc_hdrFields cb) (cc_hdrPrev cb ++ frag) with
  | ROk fs d' n' carry =>
    forall rs' st' he' res', hf_fold (cc_hdrRegularSeen cb, cc_hdrStatus cb, cc_hdrErr cb, res) fs = (rs', st', he', res') ->
    let c1 := ccu_hdrErr (ccu_hdrStatus (ccu_hdrRegularSeen (ccu_hdrFields (ccu_hdrPrev (ccu_dec cb d') carry) n') rs') st') he' in
    cl_read_header_fragment dec_field cb id frag eh res =
    if negb eh
    then (if cl_maxHeaderPrev <? len carry then (ccu_hdrStream c1 0, res', false, CRSConn CEConn) else (ccu_hdrStream c1 id, res', false, CRSNone))
    else match he' with
         | Some he => (ccu_hdrPrev (ccu_hdrStream c1 0) [], res', false, CRSStream he)
         | None => (ccu_hdrPrev (ccu_hdrStream c1 0) [], res', cc_hdrEndStream cb, CRSNone)
         end
  | _ =>
    exists c1 res' e, cl_read_header_fragment dec_field cb id frag eh res = (c1, res', false, e) /\ fatal e /\
                      (forall e0, e = CRSConn e0 -> e0 = CEConn) /\ nonregs c1 = nonregs cb /\
                      (forall e0, cc_hdrErr c1 = Some e0 -> e0 = CEMalformed)
  end.
Proof.
  intro HE. set (b := cc_hdrPrev cb ++ frag).
  pose proof (cl_hdr_loop_class _ dec_field (S (length b)) eh (cc_dec cb) (cc_hdrFields cb) (cc_hdrRegularSeen cb) (cc_hdrStatus cb) (cc_hdrErr cb) res b) as CL.
  pose proof (cl_hdr_loop_herr (S (length b)) eh (cc_dec cb) (cc_hdrFields cb) (cc_hdrRegularSeen cb) (cc_hdrStatus cb) (cc_hdrErr cb) res b HE) as HH.
  destruct (ref_loop dec_field (S (length b)) eh (cc_dec cb) (cc_hdrFields cb) b) as [fs d' n' carry| | |] eqn:RL.
  - intros rs' st' he' res' HF c1. subst c1. unfold cl_read_header_fragment. fold b.
    rewrite (cl_hdr_loop_ok _ dec_field _ _ _ _ _ _ _ _ _ _ _ _ _ RL), HF.
    destruct eh; cbn [negb]; [destruct he'; reflexivity|]. destruct (cl_maxHeaderPrev <? len carry); reflexivity.
  - unfold cl_read_header_fragment. fold b.
    destruct (cl_hdr_loop dec_field (S (length b)) eh (cc_dec cb) (cc_hdrFields cb) (cc_hdrRegularSeen cb) (cc_hdrStatus cb) (cc_hdrErr cb) res b)
      as [[[[[[[d1 n1] rs1] st1] he1] res1] prev1] e1]. cbn [snd err_class] in CL. subst e1.
    eexists _, res1, (CRSConn CEConn). split; [reflexivity|]. split; [exact Logic.I|]. split; [intros e0 H; inversion H; reflexivity|].
    split; [reflexivity | exact HH].
  - unfold cl_read_header_fragment. fold b.
    destruct (cl_hdr_loop dec_field (S (length b)) eh (cc_dec cb) (cc_hdrFields cb) (cc_hdrRegularSeen cb) (cc_hdrStatus cb) (cc_hdrErr cb) res b)
      as [[[[[[[d1 n1] rs1] st1] he1] res1] prev1] e1]. cbn [snd err_class] in CL. subst e1.
    eexists _, res1, CRSPanic. split; [reflexivity|]. split; [exact Logic.I|]. split; [intros e0 H; inversion H|].
    split; [reflexivity | exact HH].
  - unfold cl_read_header_fragment. fold b.
    destruct (cl_hdr_loop dec_field (S (length b)) eh (cc_dec cb) (cc_hdrFields cb) (cc_hdrRegularSeen cb) (cc_hdrStatus cb) (cc_hdrErr cb) res b)
      as [[[[[[[d1 n1] rs1] st1] he1] res1] prev1] e1]. cbn [snd err_class] in CL. subst e1.
    eexists _, res1, (CRSConn CEConn). split; [reflexivity|]. split; [exact Logic.I|]. split; [intros e0 H; inversion H; reflexivity|].
    split; [reflexivity | exact HH].
Qed.


Lemma nonregs_sets (cb : cconn hstate) d p n rs st he hs :
  nonregs (ccu_hdrStream (ccu_hdrErr (ccu_hdrStatus (ccu_hdrRegularSeen (ccu_hdrFields (ccu_hdrPrev (ccu_dec cb d) p) n) rs) st) he) hs) = nonregs cb.
Proof. reflexivity. Qed.

Lemma feed_hdr_gen g c cb fr ok es0 fs0 :
  Inv g c -> sf_sid fr <> 0 -> is_hc (sf_kind fr) = true ->
  nonregs cb = nonregs c -> g_d g = cc_dec cb -> cc_hdrEndStream cb = es0 ->
  (forall e, cc_hdrErr cb = Some e -> e = CEMalformed) ->
  open_on g (sf_sid fr) ->
  match ok with
  | Some x => cl_req_find (cc_reqQueued c) (sf_sid fr) = Some (ct_tag x) /\ cl_ctx_get c (ct_tag x) = Some x /\ ct_sid x = sf_sid fr /\
              exists r0 got, run_items rinit (own (sf_sid fr) (g_items g)) = ICont (r0, got) /\ ct_gotStatus x = got /\
                 hf_fold (false, 0%Z, None, Some r0) fs0 = (cc_hdrRegularSeen cb, cc_hdrStatus cb, cc_hdrErr cb, Some (ct_resp x))
  | None => cl_req_find (cc_reqQueued c) (sf_sid fr) = None
  end ->
  let eh := flag_has (sf_flags fr) FL_EH in
  let g' := gfrag dec_field g (sf_sid fr) es0 fs0 (cc_hdrFields cb) (cc_hdrPrev cb ++ sf_payload fr) eh in
  let c3 := rl_after (let '(c2, ok2, ended, err2) :=
                         disp_feed' (cl_read_header_fragment dec_field cb (sf_sid fr) (sf_payload fr) eh (match ok with Some x => Some (ct_resp x) | None => None end)) fr ok
                       in disp_tail c2 (sf_sid fr) ok2 ended err2) in
  Inv g' c3 /\ cc_nextID c3 = cc_nextID c /\ fwd g' c3 (sf_sid fr) ok.
Proof.
  intros I S0 K NR GD ES HE OP LINK eh g' c3. subst c3 g'. set (id := sf_sid fr) in *.
  set (res := match ok with Some x => Some (ct_resp x) | None => None end).
  pose proof (rhf_result cb id (sf_payload fr) eh res HE) as RR. unfold gfrag. rewrite GD.
  destruct (ref_loop dec_field (S (length (cc_hdrPrev cb ++ sf_payload fr))) eh (cc_dec cb) (cc_hdrFields cb) (cc_hdrPrev cb ++ sf_payload fr))
    as [fs d' n' carry| | |] eqn:RL.
  2,3,4: (destruct RR as (c1 & res' & e & RS & FT & EC & NR1 & HE1); rewrite RS;
          assert (NRC : nonregs c1 = nonregs c) by congruence;
          assert (HC : forall e0, e = CRSConn e0 -> err_special e0 = false) by (intros e0 H; rewrite (EC e0 H); reflexivity);
          assert (HS : forall e0, e = CRSStream e0 -> err_special e0 = false) by (intros e0 H; subst e; destruct FT);
          assert (EX0 : exists extra : list (N * ritem), g_items g = g_items g ++ extra /\ (forall p, In p extra -> fst p = id))
            by (exists []; split; [rewrite app_nil_r; reflexivity | intros p []]);
          destruct ok as [x|];
          [ destruct LINK as (F & G & SX & r0 & got & T1 & _); subst res; destruct res' as [r'|];
            [ rewrite dfeed_err by (intro; subst e; destruct FT);
              apply (feed_finish g g c c1 id (Some x) (Some (ctu_resp x r')) false e I S0 NRC); try assumption;
              [ intro NF; contradiction
              | repeat split; try assumption; try reflexivity;
                try (intros E0; subst e; destruct FT); try (intros _ r H; rewrite T1 in H; discriminate) ]
            | exfalso; revert RS; unfold cl_read_header_fragment;
              match goal with |- context [cl_hdr_loop dec_field ?f ?a ?b ?n ?r ?s ?h (Some ?rr) ?bb] =>
                pose proof (cl_hdr_loop_res_some f a b n r s h rr bb) as RSOME;
                destruct (cl_hdr_loop dec_field f a b n r s h (Some rr) bb) as [[[[[[[? ?] ?] ?] ?] rz] ?] ez] end;
              destruct rz; [|contradiction]; destruct ez; try destruct (negb eh); try destruct (cl_maxHeaderPrev <? len _); try destruct o; intro HH; inversion HH ]
          | rewrite dfeed_none;
            apply (feed_finish g g c c1 id None None false e I S0 NRC); try assumption; intro NF; contradiction ]).
  (* the bytes decode *)
  destruct (hf_fold (cc_hdrRegularSeen cb, cc_hdrStatus cb, cc_hdrErr cb, res) fs) as [[[rs' st'] he'] res'] eqn:HF.
  specialize (RR rs' st' he' res' eq_refl). cbv zeta in RR. rewrite RR. clear RR.
  set (c1 := ccu_hdrErr (ccu_hdrStatus (ccu_hdrRegularSeen (ccu_hdrFields (ccu_hdrPrev (ccu_dec cb d') carry) n') rs') st') he').
  assert (HE1 : forall e, he' = Some e -> e = CEMalformed).
  { pose proof (hf_fold_herr fs (cc_hdrRegularSeen cb) (cc_hdrStatus cb) (cc_hdrErr cb) res HE) as H. rewrite HF in H. exact H. }
  assert (OWNB : forall FS, own id (g_items g ++ [(id, RBlock FS es0)]) = own id (g_items g) ++ [RBlock FS es0]) by (intro; apply own_snoc).
  destruct eh eqn:EH; cbn [negb].
  - (* END_HEADERS: the block is complete *)
    set (cF := ccu_hdrPrev (ccu_hdrStream c1 0) []).
    set (FS := fs0 ++ fs).
    set (g' := mkG d' n' [] None (g_items g ++ [(id, RBlock FS es0)])).
    assert (NRF : nonregs cF = nonregs c) by (rewrite <- NR; reflexivity).
    assert (DEC : dec_clause g' cF) by (split; reflexivity).
    assert (HEF : forall e, cc_hdrErr cF = Some e -> e = CEMalformed) by exact HE1.
    assert (EXT : exists extra, g_items g' = g_items g ++ extra /\ forall p, In p extra -> fst p = id).
    { exists [(id, RBlock FS es0)]. split; [reflexivity|]. intros p [<-|[]]. reflexivity. }
    assert (OP' : open_on g' id) by exact Logic.I.
    destruct ok as [x|].
    + destruct LINK as (F & G & SX & r0 & got & T1 & T2 & T3). subst res.
      assert (FULL : hf_fold (false, 0%Z, None, Some r0) FS = (rs', st', he', res')) by (unfold FS; rewrite hf_fold_app, T3; exact HF).
      destruct (hf_fold_some (cc_hdrRegularSeen cb) (cc_hdrStatus cb) (cc_hdrErr cb) (ct_resp x) fs) as (a1 & a2 & a3 & r' & E).
      rewrite HF in E. inversion E; subst a1 a2 a3 res'. clear E.
      assert (RUN : run_items rinit (own id (g_items g')) = block_step (r0, got) FS es0).
      { cbn [g_items g']. rewrite OWNB, run_items_app, T1. cbn [run_items item_step]. destruct (block_step (r0, got) FS es0); reflexivity. }
      unfold block_step in RUN. cbn [fst snd] in RUN. rewrite FULL in RUN.
      destruct he' as [he|].
      * rewrite dfeed_err by discriminate.
        apply (feed_finish g g' c cF id (Some x) (Some (ctu_resp x r')) false (CRSStream he) I S0 NRF); try assumption.
        -- intros _. exact DEC.
        -- discriminate.
        -- intros e H. inversion H; subst e. rewrite (HE1 he eq_refl). reflexivity.
        -- repeat split; try assumption; try reflexivity; try discriminate. intros _ r H. rewrite RUN in H. discriminate.
      * rewrite (dfeed_block cF r' (cc_hdrEndStream cb) fr x eq_refl K). cbv zeta.
        change (cc_hdrStatus cF) with st'. change (cc_hdrEndStream cF) with (cc_hdrEndStream cb). rewrite ES. rewrite <- T2 in RUN.
        destruct (st' =? 0)%Z eqn:Z0.
        -- apply (feed_finish g g' c cF id (Some x) (Some (ctu_resp x r')) es0 _ I S0 NRF); try assumption.
           ++ intros _. exact DEC.
           ++ destruct (negb (ct_gotStatus x) || negb es0); discriminate.
           ++ destruct (negb (ct_gotStatus x) || negb es0); intros e H; inversion H; reflexivity.
           ++ repeat split; try assumption; try reflexivity.
              ** intros E1 E2. subst es0. rewrite E2 in E1. rewrite orb_true_r in E1. discriminate.
              ** intros E1 E2. destruct (negb (ct_gotStatus x) || negb es0); [discriminate | exact RUN].
              ** intros E1 r H. rewrite RUN in H. destruct (negb (ct_gotStatus x) || negb es0); [discriminate | contradiction].
        -- destruct (ct_gotStatus x) eqn:GS.
           ++ apply (feed_finish g g' c cF id (Some x) (Some (ctu_resp x r')) es0 (CRSStream CEMalformed) I S0 NRF); try assumption.
              ** intros _. exact DEC.
              ** discriminate.
              ** intros e H. inversion H; reflexivity.
              ** repeat split; try assumption; try reflexivity; try discriminate. intros _ r H. rewrite RUN in H. discriminate.
           ++ apply (feed_finish g g' c cF id (Some x) (Some (ctu_gotStatus (ctu_resp x r') (200 <=? st')%Z)) es0
                       (if negb (200 <=? st')%Z && es0 then CRSStream CEMalformed else CRSNone) I S0 NRF); try assumption.
              ** intros _. exact DEC.
              ** destruct (negb (200 <=? st')%Z && es0); discriminate.
              ** destruct (negb (200 <=? st')%Z && es0); intros e H; inversion H; reflexivity.
              ** repeat split; try assumption; try reflexivity.
                 --- intros _ E2. rewrite E2 in RUN. exists r', (200 <=? st')%Z. repeat split; try reflexivity; exact RUN.
                 --- intros E1 E2. rewrite E2 in RUN, E1. destruct (200 <=? st')%Z; [exact RUN | discriminate].
                 --- intros E1 r H. rewrite RUN in H. destruct es0; [|rewrite andb_false_r in E1; contradiction].
                     destruct (200 <=? st')%Z; [contradiction | discriminate].
    + destruct he' as [he|]; rewrite dfeed_none.
      * apply (feed_finish g g' c cF id None None false (CRSStream he) I S0 NRF); try assumption.
        -- intros _. exact DEC.
        -- discriminate.
        -- intros e H. inversion H; subst. rewrite (HE1 _ eq_refl). reflexivity.
      * apply (feed_finish g g' c cF id None None (cc_hdrEndStream cb) CRSNone I S0 NRF); try assumption.
        -- intros _. exact DEC.
        -- discriminate.
        -- discriminate.
  - (* no END_HEADERS: the block stays open *)
    destruct (cl_maxHeaderPrev <? len carry) eqn:BIG.
    + set (cF := ccu_hdrStream c1 0).
      assert (NRF : nonregs cF = nonregs c) by (rewrite <- NR; reflexivity).
      assert (EX0 : exists extra : list (N * ritem), g_items g = g_items g ++ extra /\ (forall p, In p extra -> fst p = id))
        by (exists []; split; [rewrite app_nil_r; reflexivity | intros p []]).
      destruct ok as [x|].
      * destruct LINK as (F & G & SX & r0 & got & T1 & _). subst res.
        destruct (hf_fold_some (cc_hdrRegularSeen cb) (cc_hdrStatus cb) (cc_hdrErr cb) (ct_resp x) fs) as (a1 & a2 & a3 & r' & E).
        rewrite HF in E. inversion E; subst a1 a2 a3 res'. clear E.
        rewrite dfeed_err by discriminate.
        apply (feed_finish g g c cF id (Some x) (Some (ctu_resp x r')) false (CRSConn CEConn) I S0 NRF); try assumption.
        -- intro NF. exfalso. apply NF. exact Logic.I.
        -- intros e H. inversion H; reflexivity.
        -- discriminate.
        -- repeat split; try assumption; try reflexivity; try discriminate. intros _ r H. rewrite T1 in H. discriminate.
      * rewrite dfeed_none.
        apply (feed_finish g g c cF id None None false (CRSConn CEConn) I S0 NRF); try assumption.
        -- intro NF. exfalso. apply NF. exact Logic.I.
        -- intros e H. inversion H; reflexivity.
        -- discriminate.
    + set (cF := ccu_hdrStream c1 id).
      set (FS := fs0 ++ fs).
      set (g' := mkG d' n' carry (Some (id, es0, FS)) (g_items g)).
      assert (NRF : nonregs cF = nonregs c) by (rewrite <- NR; reflexivity).
      assert (DEC : dec_clause g' cF) by (split; [reflexivity|]; cbn; repeat split; [exact S0 | exact ES]).
      assert (HEF : forall e, cc_hdrErr cF = Some e -> e = CEMalformed) by exact HE1.
      assert (EXT : exists extra, g_items g' = g_items g ++ extra /\ forall p, In p extra -> fst p = id)
        by (exists []; split; [cbn; rewrite app_nil_r; reflexivity | intros p []]).
      assert (OP' : open_on g' id) by reflexivity.
      destruct ok as [x|].
      * destruct LINK as (F & G & SX & r0 & got & T1 & T2 & T3). subst res.
        assert (FULL : hf_fold (false, 0%Z, None, Some r0) FS = (rs', st', he', res')) by (unfold FS; rewrite hf_fold_app, T3; exact HF).
        destruct (hf_fold_some (cc_hdrRegularSeen cb) (cc_hdrStatus cb) (cc_hdrErr cb) (ct_resp x) fs) as (a1 & a2 & a3 & r' & E).
        rewrite HF in E. inversion E; subst a1 a2 a3 res'. clear E.
        rewrite (dfeed_open cF r' fr x S0 K).
        apply (feed_finish g g' c cF id (Some x) (Some (ctu_resp x r')) false CRSNone I S0 NRF); try assumption.
        -- intros _. exact DEC.
        -- discriminate.
        -- discriminate.
        -- repeat split; try assumption; try reflexivity.
           ++ intros _ _. exists r0, got. repeat split; [exact T1 | exact T2|]. cbn [g_open g']. rewrite N.eqb_refl. exact FULL.
           ++ discriminate.
           ++ intro H. contradiction.
      * rewrite dfeed_none.
        apply (feed_finish g g' c cF id None None false CRSNone I S0 NRF); try assumption.
        -- intros _. exact DEC.
        -- discriminate.
        -- discriminate.
Qed.


Lemma TabRel_same g c id x x2 : ct_gotStatus x2 = ct_gotStatus x -> ct_resp x2 = ct_resp x -> TabRel g c id x -> TabRel g c id x2.
Proof. intros A B (r0 & got & T1 & T2 & T3). exists r0, got. rewrite A, B. repeat split; assumption. Qed.

(* ---------- one frame through dispatch: the invariant goes on, the ghost taking the same frame ---------- *)
Theorem Inv_feed_at g c fr ok : Inv g c -> feed_pre c fr ok ->
  Inv (gstep g fr) (feed_state c fr ok) /\ cc_nextID (feed_state c fr ok) = cc_nextID c /\ fwd (gstep g fr) (feed_state c fr ok) (sf_sid fr) ok.
Proof.
  intros I FM. destruct (sf_kind fr) eqn:K; try (apply (feed_data g c fr ok I K FM)).
  all: destruct FM as (L & S0 & FS & OK); unfold feed_state; destruct (i_dec _ _ I L) as [GD GO].
  all: try (
    (* frames that carry nothing for the response *)
    assert (GS : gstep g fr = g) by (unfold CliMsgInv.gstep; rewrite K; reflexivity); rewrite GS;
    rewrite (disp_feed_other dec_field c fr ok) by (unfold hcd; rewrite K; reflexivity);
    assert (EX0 : exists extra : list (N * ritem), g_items g = g_items g ++ extra /\ (forall p, In p extra -> fst p = sf_sid fr))
      by (exists []; split; [rewrite app_nil_r; reflexivity | intros p []]);
    assert (OPN : open_on g (sf_sid fr))
      by (unfold open_on; unfold frame_in_seq in FS; rewrite K in FS; cbn [fkind_eqb negb andb] in FS;
          destruct (g_open g) as [[[s es] fs]|]; [|exact Logic.I]; destruct GO as (A & B & _);
          destruct (cc_hdrStream c =? 0) eqn:E; [exfalso; apply B; lia | discriminate]);
    assert (DC : dec_clause g c) by (split; assumption);
    destruct ok as [x|];
    [ destruct OK as (F & G & SX);
      destruct (i_tab _ _ I _ _ (cl_req_find_In _ _ _ F)) as (x0 & G0 & _ & _ & _ & _ & TR); rewrite G in G0; inversion G0; subst x0;
      apply (feed_finish g g c c (sf_sid fr) (Some x) (Some (ctu_resp x (ct_resp x))) false _ I S0 eq_refl); try assumption;
      [ intros _; exact DC
      | exact (i_herr _ _ I)
      | destruct (fkind_eqb (sf_kind fr) KRst); discriminate
      | destruct (fkind_eqb (sf_kind fr) KRst); intros e H; inversion H; reflexivity
      | repeat split; try assumption; try reflexivity;
        [ intros _ _; apply (TabRel_same g c _ x); [reflexivity | reflexivity | exact TR]
        | destruct (fkind_eqb (sf_kind fr) KRst); discriminate
        | intros _ r H; destruct TR as (r0 & got & T1 & _); rewrite T1 in H; discriminate ] ]
    | apply (feed_finish g g c c (sf_sid fr) None None false _ I S0 eq_refl); try assumption;
      [ intros _; exact DC
      | exact (i_herr _ _ I)
      | destruct (fkind_eqb (sf_kind fr) KRst); discriminate
      | destruct (fkind_eqb (sf_kind fr) KRst); intros e H; inversion H; reflexivity ] ]).
  - (* HEADERS *)
    assert (HS0 : cc_hdrStream c = 0).
    { unfold frame_in_seq in FS. rewrite K in FS. cbn [fkind_eqb negb andb] in FS. destruct (cc_hdrStream c =? 0) eqn:E; [lia | discriminate]. }
    assert (GN : g_open g = None).
    { destruct (g_open g) as [[[s es] fs]|]; [|reflexivity]. destruct GO as (A & B & _). congruence. }
    rewrite disp_feed_eq. unfold cl_read_stream, CliMsgInv.gstep. rewrite K.
    set (cb := ccu_hdrEndStream (ccu_hdrErr (ccu_hdrStatus (ccu_hdrRegularSeen (ccu_hdrFields (ccu_hdrPrev c []) 0) false) 0%Z) None) (flag_has (sf_flags fr) FL_ES)).
    apply (feed_hdr_gen g c cb fr ok (flag_has (sf_flags fr) FL_ES) [] I S0); try reflexivity.
    + unfold is_hc. rewrite K. reflexivity.
    + exact GD.
    + discriminate.
    + unfold open_on. rewrite GN. exact Logic.I.
    + destruct ok as [x|]; [|exact OK]. destruct OK as (F & G & SX). repeat split; try assumption.
      destruct (i_tab _ _ I _ _ (cl_req_find_In _ _ _ F)) as (x0 & G0 & _ & _ & _ & _ & (r0 & got & T1 & T2 & T3)). rewrite G in G0. inversion G0; subst x0.
      rewrite GN in T3. exists r0, got. repeat split; try assumption. cbn. rewrite T3. reflexivity.
  - (* CONTINUATION *)
    assert (HS1 : cc_hdrStream c <> 0 /\ sf_sid fr = cc_hdrStream c).
    { unfold frame_in_seq in FS. rewrite K in FS. cbn [fkind_eqb negb andb] in FS. destruct (cc_hdrStream c =? 0) eqn:E; [discriminate|]. lia. }
    destruct HS1 as [HS1 HS2].
    destruct (g_open g) as [[[s es] fs]|] eqn:GOE; [|congruence]. destruct GO as (A & B & C & D & E).
    rewrite disp_feed_eq. unfold cl_read_stream, CliMsgInv.gstep. rewrite K, GOE, D, E.
    replace s with (sf_sid fr) by congruence.
    apply (feed_hdr_gen g c c fr ok es fs I S0); try reflexivity; try assumption.
    + unfold is_hc. rewrite K. reflexivity.
    + exact (i_herr _ _ I).
    + unfold open_on. rewrite GOE. congruence.
    + destruct ok as [x|]; [|exact OK]. destruct OK as (F & G & SX). repeat split; try assumption.
      destruct (i_tab _ _ I _ _ (cl_req_find_In _ _ _ F)) as (x0 & G0 & _ & _ & _ & _ & (r0 & got & T1 & T2 & T3)). rewrite G in G0. inversion G0; subst x0.
      rewrite GOE in T3. replace (s =? sf_sid fr) with true in T3 by lia. exists r0, got. repeat split; assumption.
Qed.

Theorem Inv_feedmove g c fr c3 : Inv g c -> feedmove fr c c3 -> Inv (gstep g fr) c3 /\ cc_nextID c3 = cc_nextID c.
Proof.
  intros I (L & S0 & FS & ok & OK & ->). destruct (Inv_feed_at g c fr ok I) as (A & B & _); [repeat split; assumption|]. split; assumption.
Qed.

(* never a frame on a stream the client has not opened: Idle goes on *)
Lemma Idle_feedmove g c fr c3 : Idle g c -> sf_sid fr < cc_nextID c -> cc_nextID c3 = cc_nextID c -> cl_rl_live c = true -> Inv g c ->
  frame_in_seq c fr = true -> Idle (gstep g fr) c3.
Proof.
  intros [ID1 ID2] LT NX L I FS. unfold Idle. rewrite NX.
  assert (GI : forall s i, In (s, i) (g_items (gstep g fr)) -> s < cc_nextID c).
  { intros s i H. unfold CliMsgInv.gstep in H. destruct (sf_kind fr); try (exact (ID1 s i H)).
    - cbn [g_items] in H. apply in_app_or in H. destruct H as [H|[H|[]]]; [exact (ID1 s i H) | inversion H; subst; exact LT].
    - unfold gfrag in H. destruct (ref_loop _ _ _ _ _ _); try (exact (ID1 s i H)). destruct (flag_has (sf_flags fr) FL_EH).
      + cbn [g_items] in H. apply in_app_or in H. destruct H as [H|[H|[]]]; [exact (ID1 s i H) | inversion H; subst; exact LT].
      + destruct (cl_maxHeaderPrev <? len carry); exact (ID1 s i H).
    - destruct (g_open g) as [[[s0 es0] fs0]|]; [|exact (ID1 s i H)]. unfold gfrag in H.
      destruct (ref_loop _ _ _ _ _ _); try (exact (ID1 s i H)). destruct (flag_has (sf_flags fr) FL_EH).
      + cbn [g_items] in H. apply in_app_or in H. destruct H as [H|[H|[]]]; [exact (ID1 s i H) | inversion H; subst; exact ID2].
      + destruct (cl_maxHeaderPrev <? len carry); exact (ID1 s i H). }
  split; [exact GI|].
  unfold CliMsgInv.gstep. destruct (sf_kind fr); try exact ID2.
  - unfold gfrag. destruct (ref_loop _ _ _ _ _ _); try exact ID2. destruct (flag_has (sf_flags fr) FL_EH); [exact Logic.I|].
    destruct (cl_maxHeaderPrev <? len carry); [exact ID2 | exact LT].
  - destruct (g_open g) as [[[s0 es0] fs0]|] eqn:GOE; [|rewrite GOE; exact Logic.I]. unfold gfrag.
    destruct (ref_loop _ _ _ _ _ _); try (rewrite GOE; exact ID2). destruct (flag_has (sf_flags fr) FL_EH); [exact Logic.I|].
    destruct (cl_maxHeaderPrev <? len carry); [rewrite GOE; exact ID2 | exact ID2].
Qed.

End Feed.
