(* Proofs/TeardownCliLocks.v -- blocking-structure model (Impl/Teardown.v), client, S3: reachable states satisfy the invariants; lock order, no wait cycle, channel parks hold nothing.
   Statements: Props/Teardown.v; overview: Proofs/TeardownProofs.v. *)
From Coq Require Import Arith Lia Bool List.
From RecordUpdate Require Import RecordSet.
Import RecordSetNotations.
Import ListNotations.
From H2V Require Import Impl.Teardown Proofs.TeardownGen Proofs.TeardownCliInv Proofs.TeardownCliInv1 Proofs.TeardownCliInv2 Proofs.TeardownCliInv3 Proofs.TeardownCliInv4.

Module CliP2.
Import Cli CliP CliPi1 CliPi2 CliPi3 CliPb.

Ltac unf := unfold lx_of, bcount, wl_hold, rl_hold, rl_k, rl_stop, bw_of_state, midn, cpc, xin, resolveX, release, set_cpc, end_cpc,
  bw_of, dead in *.
Ltac act_cases a :=
  destruct a;
  try match goal with p : nat |- _ => destruct p as [|[|[|p]]] end.
Ltac dm :=
  match goal with
  | |- context[match ?x with _ => _ end] =>
      lazymatch x with
      | context[match _ with _ => _ end] => fail
      | _ => destruct x eqn:?
      end
  | H : context[match ?x with _ => _ end] |- _ =>
      lazymatch x with
      | context[match _ with _ => _ end] => fail
      | _ => destruct x eqn:?
      end
  end.
Ltac easy_fin := solve [auto | congruence | lia | tauto | (intuition congruence) ].
Ltac fwd :=
  repeat match goal with
         | H : ?A -> _, H' : ?A |- _ => specialize (H H')
         | H : ?x = ?x -> _ |- _ => specialize (H eq_refl)
         end.
Ltac rwx :=
  repeat match goal with
         | H : xloc ?s = _ |- _ => progress (rewrite H in * )
         end.
Ltac fin := cbn in *; intros; subst; rwk; rwx; fwd; rwk; cbn in *; rewrite ?orb_false_r in *;
  first [ easy_fin | dm; fin ].
Ltac prep G := cbn in G; break; try lia;
  repeat match goal with b : bool |- _ => destruct b | h : hold |- _ => destruct h end;
  unf; rwk; cbn in *; unf;
  try match goal with |- context[xres ?s] => destruct (xres s) eqn:? end; cbn in *.


Section P.
Variable cap : nat.
Notation guard := (Cli.guard cap).
Notation reachable := (Cli.reachable cap).
Notation inv := (CliP.inv cap).

Definition invc (s : state) : Prop := inv1c s /\ inv2 s /\ CliP.inv3 cap s /\ inv4 s.

Lemma invc_step : forall s a, invc s -> guard a s -> invc (eff a s).
Proof.
  intros s a (I1 & I2 & I3 & I4) G.
  split; [|split; [|split]];
    eauto using (CliPi1.inv1c_step cap), (CliPi2.inv2_step cap), (CliPi3.inv3_step cap),
      (CliPb.inv4_step cap).
Qed.

Lemma reachable_inv : forall s, reachable s -> inv s.
Proof.
  intros s R. assert (invc s) as (I1 & I2 & I3 & I4).
  { induction R as [s H|s a R IH G]; [|apply invc_step; auto].
    destruct (inv_init cap s H) as (_ & J2 & J3 & J4).
    split; [apply (CliPi1.inv1c_init cap); auto | split; [exact J2 | split; [exact J3 | exact J4]]]. }
  split; [apply (CliPi1.inv1c_inv1 s I1) | split; [exact I2 | split; [exact I3 | exact I4]]].
Qed.

(* ---- S3, locks ---- *)
(* the static table respects the order, and never nests a mutex in itself *)
Theorem lock_order : forall a o i, In (o, i) (nest a) -> mrank o < mrank i.
Proof.
  intros a o i H. destruct a; cbn in H; try contradiction;
    try (destruct h; cbn in H; try contradiction);
    repeat (destruct H as [H|H]; [inversion H; subst; cbn; lia|]); contradiction.
Qed.

(* whoever is parked on a mutex holds only smaller ones: in particular not that one *)
Theorem ordered_reachable : forall s, reachable s -> ordered (wants s) (holds s).
Proof.
  intros s R p m m' Hw Hh. destruct (reachable_inv s R) as ([] & _).
  unfold wants, holds in *. unf.
  destruct p as [|[|[|[|[|]]]]]; try contradiction; try discriminate.
  - destruct (wl s) eqn:E; try discriminate; cbn in *;
      try (destruct c; try discriminate); inversion Hw; subst;
      destruct Hh as [(-> & Hh)|[(-> & Hh)|(-> & Hh)]]; try lia; try discriminate;
      rewrite Hh in *; try discriminate;
      repeat match goal with H : context[match ?x with _ => _ end] |- _ => destruct x end;
      try discriminate.
  - destruct (rl s) eqn:E; try discriminate; cbn in *;
      try (destruct c; try discriminate); inversion Hw; subst;
      destruct Hh as [(-> & Hh)|[(-> & Hh)|(-> & Hh)]]; try lia; try discriminate;
      rewrite Hh in *; try discriminate;
      repeat match goal with H : context[match ?x with _ => _ end] |- _ => destruct x end;
      try discriminate.
  - destruct (uc s) eqn:E; try discriminate. destruct c; try discriminate. inversion Hw; subst.
    destruct Hh as (-> & Hh). rewrite Hh in *.
    repeat match goal with H : context[match ?x with _ => _ end] |- _ => destruct x end;
      try discriminate.
Qed.

Theorem no_wait_cycle : forall s, reachable s -> ~ wait_cycle (wants s) (holds s).
Proof. intros s R. apply ordered_no_wait_cycle, ordered_reachable; auto. Qed.

(* no goroutine is parked on a mutex it holds itself *)
Theorem no_self_wait : forall s p m, reachable s -> wants s p = Some m -> ~ holds s p m.
Proof.
  intros s p m R Hw Hh. pose proof (ordered_reachable s R p m m Hw Hh). lia.
Qed.

(* a goroutine that is parked on a channel send (writeOut) holds no mutex: the read loop queues the
   frames of c.outBuf only after dispatchLocked has released the Ctx.lck; the timer never holds one
   across a step; and the write loop, the only receiver of c.out, never sends on it at all *)
Theorem out_parks_hold_nothing : forall s p m, reachable s -> parked_on_out s p -> ~ holds s p m.
Proof.
  intros s p m R Hp Hh. destruct (reachable_inv s R) as ([] & _).
  unfold parked_on_out, holds, wl_hold, rl_hold, bw_of_state, lx_of in *.
  destruct p as [|[|[|[|[|p]]]]]; try contradiction.
  assert (rl_hold s = HNone /\ (forall c, rl s <> RClose c)) as (Hn & Hc).
  { unfold rl_hold. destruct Hp as [E|(k & st & E)]; rewrite E; split; auto; discriminate. }
  unfold rl_hold in Hn.
  destruct Hh as [(_ & H)|[(_ & H)|(_ & H)]]; try congruence; rewrite H in *.
  + rewrite Hn in *. destruct (wl s) as [| | |[]|[]| | |?| | |]; discriminate.
  + destruct (wl s) as [| | |?|?| | |[]| | |]; try discriminate;
      destruct (rl s) as [|?| |?|? ?|? ?| | |[]|]; try discriminate;
      try (exfalso; eapply Hc; reflexivity);
      destruct (uc s) as [|[]|]; discriminate.
Qed.

Theorem write_loop_never_sends_on_out : forall s a, g_wl a -> guard a s -> outq (eff a s) <= outq s.
Proof.
  intros s a Ga G. destruct a; cbn in Ga; try contradiction;
    try (destruct p as [|[|[|p]]]; cbn in Ga; try lia; try discriminate);
    cbn; unfold release, resolveX, end_cpc, set_cpc;
    repeat match goal with
           | |- context[match ?x with _ => _ end] => destruct x
           end; cbn; lia.
Qed.
End P.
End CliP2.
