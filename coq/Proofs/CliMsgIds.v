(* Proofs/CliMsgIds.v - C02 (a): stream ids; and the frame conditions of a feed move without the invariant.

   IdInv c        the HEADERS frames written so far carry the stream ids 1, 3, 5, ... in this order, nextID is the next
                  one while the write loop lives, and none is above 2^31-1.
   feedmove_fm    a frame going through dispatch changes nothing but the decoder registers and the Ctx that takes it
                  (and what finish / the loop's exit do): no HEADERS, no DATA, no result is written. *)
From H2V Require Import Base.Bytes Base.MachineInt Base.Result Gen.GenConsts Impl.ServerConn Impl.ClientConn
  Spec.Http2Messages Spec.Http2Responses Proofs.CliBase Proofs.SrvIsoRef Proofs.CliMsgRef Proofs.CliMsgAuto Proofs.CliMsgMoves
  Proofs.CliMsgDisp Proofs.CliMsgStep Proofs.CliMsgInv Proofs.CliMsgFeed.
From Coq Require Import ZArith Lia ZifyN ZifyNat ZifyBool List.
Import ListNotations.
Local Open Scope N_scope.

Section Ids.
Context {hstate : Type}.
Variable dec_field : hstate -> N -> bytes -> dec_res hstate.
Variable enc_field : hstate -> bytes -> bytes -> bool -> bytes * hstate.
Variable enc_set_max : hstate -> N -> hstate.
Variable cfg : cl_config.
Implicit Types c : cconn hstate.

Notation step := (cl_step dec_field enc_field enc_set_max cfg).
Notation mvs := (mvs dec_field enc_field enc_set_max).
Notation mv1 := (mv1 enc_field enc_set_max).
Notation feedmove := (feedmove dec_field).

(* ---------- what readStream and dispatch can answer, whatever the state ---------- *)
Definition herr_ok c : Prop := forall e, cc_hdrErr c = Some e -> e = CEMalformed.

Lemma rhf_shape cb id frag eh res : herr_ok cb ->
  match cl_read_header_fragment dec_field cb id frag eh res with
  | (c1, res', ended, err) =>
    nonregs c1 = nonregs cb /\ herr_ok c1 /\ (forall e, err = CRSConn e -> e = CEConn) /\ (forall e, err = CRSStream e -> err_special e = false)
  end.
Proof.
  intro HB. pose proof (rhf_result dec_field cb id frag eh res HB) as RR.
  destruct (ref_loop dec_field _ _ _ _ _) as [fs d' n' carry| | |].
  - destruct (hf_fold (cc_hdrRegularSeen cb, cc_hdrStatus cb, cc_hdrErr cb, res) fs) as [[[rs' st'] he'] res'] eqn:HF.
    specialize (RR rs' st' he' res' eq_refl). cbv zeta in RR. rewrite RR.
    assert (HE1 : forall e, he' = Some e -> e = CEMalformed).
    { pose proof (hf_fold_herr fs (cc_hdrRegularSeen cb) (cc_hdrStatus cb) (cc_hdrErr cb) res HB) as H. rewrite HF in H. exact H. }
    destruct (negb eh); [destruct (cl_maxHeaderPrev <? len carry)|destruct he' as [he|]];
      (split; [reflexivity|]); (split; [exact HE1|]); (split; [intros e H; inversion H; reflexivity|]); intros e H; inversion H; subst.
    rewrite (HE1 _ eq_refl). reflexivity.
  - destruct RR as (c1 & res' & e & RS & FT & EC & NR1 & HE1). rewrite RS. repeat split; try assumption. intros e0 H. subst e. destruct FT.
  - destruct RR as (c1 & res' & e & RS & FT & EC & NR1 & HE1). rewrite RS. repeat split; try assumption. intros e0 H. subst e. destruct FT.
  - destruct RR as (c1 & res' & e & RS & FT & EC & NR1 & HE1). rewrite RS. repeat split; try assumption. intros e0 H. subst e. destruct FT.
Qed.

Lemma read_stream_shape c fr res : herr_ok c ->
  match cl_read_stream dec_field c fr res with
  | (c1, res', ended, err) =>
    (forall tg, fm tg c c1) /\ herr_ok c1 /\ (forall e, err = CRSConn e -> e = CEConn) /\ (forall e, err = CRSStream e -> err_special e = false)
  end.
Proof.
  intro HE.
  assert (TRIV : forall e, (forall e0, e = CRSStream e0 -> err_special e0 = false) -> (forall e0, e = CRSConn e0 -> e0 = CEConn) ->
                 match (c, res, false, e) with (c1, res', ended, err) =>
                   (forall tg, fm tg c c1) /\ herr_ok c1 /\ (forall e, err = CRSConn e -> e = CEConn) /\ (forall e, err = CRSStream e -> err_special e = false) end).
  { intros e A B. split; [intro; apply fm_refl|]. split; [exact HE|]. split; assumption. }
  destruct (sf_kind fr) eqn:K.
  { destruct (read_stream_data dec_field c fr res K) as (dw & RS & QW & CW & RW). rewrite RS.
    split; [intro tg; apply fm_qm, QW|]. split; [intros e H; apply HE; rewrite <- (qm_herr _ _ _ QW); exact H|].
    split; discriminate. }
  all: unfold cl_read_stream; rewrite K; try (apply TRIV; discriminate).
  - set (cb := ccu_hdrEndStream (ccu_hdrErr (ccu_hdrStatus (ccu_hdrRegularSeen (ccu_hdrFields (ccu_hdrPrev c []) 0) false) 0%Z) None) (flag_has (sf_flags fr) FL_ES)).
    assert (HB : herr_ok cb) by (unfold herr_ok; discriminate).
    pose proof (rhf_shape cb (sf_sid fr) (sf_payload fr) (flag_has (sf_flags fr) FL_EH) res HB) as R.
    destruct (cl_read_header_fragment dec_field cb (sf_sid fr) (sf_payload fr) (flag_has (sf_flags fr) FL_EH) res) as [[[c1 res'] ended] err].
    destruct R as (A & B & C & D). split; [intro tg; apply fm_same; rewrite A; reflexivity|]. repeat split; assumption.
  - apply TRIV; [|discriminate]. intros e0 H. inversion H. reflexivity.
  - pose proof (rhf_shape c (sf_sid fr) (sf_payload fr) (flag_has (sf_flags fr) FL_EH) res HE) as R.
    destruct (cl_read_header_fragment dec_field c (sf_sid fr) (sf_payload fr) (flag_has (sf_flags fr) FL_EH) res) as [[[c1 res'] ended] err].
    destruct R as (A & B & C & D). split; [intro tg; apply fm_same; exact A|]. repeat split; assumption.
Qed.

Lemma disp_feed_shape c fr ok :
  match disp_feed dec_field c fr ok, cl_read_stream dec_field c fr (match ok with Some x => Some (ct_resp x) | None => None end) with
  | (c2, ok2, ended, err2), (c1, res', ended', err) =>
    ended = ended' /\ c2 = match ok2 with Some x2 => cl_ctx_put c1 x2 | None => c1 end /\
    match ok, ok2 with Some x, Some x2 => ct_tag x2 = ct_tag x | None, None => True | _, _ => False end /\
    (err2 = err \/ (err = CRSNone /\ err2 = CRSStream CEMalformed))
  end.
Proof.
  unfold disp_feed.
  destruct (cl_read_stream dec_field c fr (match ok with Some x => Some (ct_resp x) | None => None end)) as [[[c1 res'] ended] err].
  destruct ok as [x|], res' as [r|], err; cbn [ct_gotStatus ctu_resp ctu_gotStatus];
    repeat match goal with |- context [if ?b then _ else _] => destruct b end; cbn; auto 10.
Qed.

(* a frame through dispatch: frame conditions *)
Lemma feedmove_fm c fr c3 : herr_ok c -> feedmove fr c c3 ->
  exists tg, fm tg c c3 /\ herr_ok c3 /\ (forall t, tg = Some t -> exists x, cl_ctx_get c t = Some x /\ ct_sid x <> 0).
Proof.
  intros HE (L & S0 & FS & ok & OK & ->).
  pose proof (disp_feed_shape c fr ok) as DS. pose proof (read_stream_shape c fr (match ok with Some x => Some (ct_resp x) | None => None end) HE) as RS.
  destruct (disp_feed dec_field c fr ok) as [[[c2 ok2] ended] err2].
  destruct (cl_read_stream dec_field c fr (match ok with Some x => Some (ct_resp x) | None => None end)) as [[[c1 res'] ended'] err].
  destruct DS as (-> & -> & LK & ER). destruct RS as (F1 & H1 & EC & ES).
  assert (HC : forall e, err2 = CRSConn e -> err_special e = false).
  { intros e H. destruct ER as [->|[_ ->]]; [rewrite (EC e H); reflexivity | discriminate]. }
  assert (HS : forall e, err2 = CRSStream e -> err_special e = false).
  { intros e H. destruct ER as [->|[_ ->]]; [exact (ES e H) | inversion H; reflexivity]. }
  destruct ok as [x|], ok2 as [x2|]; try contradiction.
  - destruct OK as (F & G & SX). exists (Some (ct_tag x)).
    pose proof (fm_ctx _ _ _ (F1 None) (ct_tag x) ltac:(discriminate)) as CX. rewrite G in CX.
    destruct (cl_ctx_get c1 (ct_tag x)) as [x1|] eqn:G1; [|contradiction].
    assert (G2 : cl_ctx_get (cl_ctx_put c1 x2) (ct_tag x2) = Some x2) by (rewrite cl_ctx_get_put, N.eqb_refl, LK, G1; reflexivity).
    destruct (tail_some dec_field (cl_ctx_put c1 x2) (sf_sid fr) x2 ended' err2 G2 HC HS) as (FM & RG & _).
    split; [|split].
    + eapply fm_trans; [apply F1|]. eapply fm_trans; [|rewrite <- LK; exact FM].
      assert (T1 : ct_tag x1 = ct_tag x) by (destruct (cl_ctxs_get_In _ _ _ G1); assumption).
      rewrite <- T1. apply (fm_put dec_field); [rewrite T1; exact G1 | congruence].
    + intros e H. apply H1. unfold regs in RG. inversion RG. congruence.
    + intros t E. inversion E; subst t. exists x. split; [exact G | congruence].
  - exists None. pose proof (tail_none c1 (sf_sid fr) ended' err2 HC) as [QT _]. split; [|split].
    + eapply fm_trans; [apply F1|]. apply fm_qm. exact QT.
    + intros e H. apply H1. rewrite <- (qm_herr _ _ _ QT). exact H.
    + discriminate.
Qed.

(* ---------- the part of the invariant that needs no hypothesis on the server ---------- *)
Lemma Pre_qm P c c' : Pre c -> qm P c c' -> Pre c'.
Proof.
  intros [[N1 N2] LE OQ HE] Q. constructor.
  - destruct (qm_inq _ _ _ Q) as [Q1 Q2]. split; [exact (Q2 N1)|]. intros t H. destruct (N2 t (Q1 t H)) as (x & G & S).
    destruct (ctxs_q_get_rev _ _ _ _ (qm_ctx _ _ _ Q) G) as (x' & G' & QX). destruct (ctx_q_view _ _ QX) as (V1 & _). exists x'. split; [exact G' | congruence].
  - intros e H. destruct (err_special e) eqn:S; [|reflexivity]. rewrite <- S. exact (LE e (qm_le _ _ _ Q e H S)).
  - exact (qm_outq _ _ _ Q OQ).
  - intros e H. apply HE. rewrite <- (qm_herr _ _ _ Q). exact H.
Qed.

Lemma Pre_fm tg c c' : Pre c -> fm tg c c' -> herr_ok c' -> (forall t, tg = Some t -> exists x, cl_ctx_get c t = Some x /\ ct_sid x <> 0) -> Pre c'.
Proof.
  intros [[N1 N2] LE OQ HE] F HE' TG. constructor.
  - destruct (fm_inq _ _ _ F) as [Q1 Q2]. split; [exact (Q2 N1)|]. intros t H. destruct (N2 t (Q1 t H)) as (x & G & S).
    assert (NT : tg <> Some t) by (intro E; destruct (TG t E) as (x0 & G0 & S0); congruence).
    pose proof (fm_ctx _ _ _ F t NT) as CX. rewrite G in CX. destruct (cl_ctx_get c' t) as [x'|]; [|contradiction].
    destruct (ctx_q_view _ _ CX) as (V1 & _). exists x'. split; [reflexivity | congruence].
  - intros e H. destruct (err_special e) eqn:S; [|reflexivity]. rewrite <- S. exact (LE e (fm_le _ _ _ F e H S)).
  - exact (fm_outq _ _ _ F OQ).
  - exact HE'.
Qed.

Lemma reg_state_facts c tag x : cl_ctx_get c tag = Some x -> cc_nextID c <= cl_maxStreamID ->
  let R := open_pending (fst (reg_state enc_field c tag x)) (cc_nextID c) tag (ct_req x) in
  cc_nextID R = cc_nextID c + 2 /\ cc_out R = cc_out c /\ cl_wl_live R = cl_wl_live c /\ cc_inQ R = cc_inQ c /\
  cc_lastErr R = cc_lastErr c /\ cc_outQ R = cc_outQ c /\ cc_hdrErr R = cc_hdrErr c /\
  (forall t, cl_ctx_get R t = if t =? tag then Some (ctu_sid (ctu_conn x true) (cc_nextID c)) else cl_ctx_get c t).
Proof.
  intros G LE R. subst R. unfold reg_state.
  destruct (cl_request_block enc_field (cc_enc (ccu_nextID c (u32 (cc_nextID c + 2)))) (ct_req x)) as [blk e']. cbn [fst].
  assert (T : ct_tag x = tag) by (destruct (cl_ctxs_get_In _ _ _ G); assumption).
  assert (U : u32 (cc_nextID c + 2) = cc_nextID c + 2).
  { unfold u32, wrap. unfold cl_maxStreamID in LE. apply N.mod_small. change (2 ^ 32) with 4294967296. lia. }
  set (x' := ctu_sid (ctu_conn x true) (cc_nextID c)).
  match goal with |- cc_nextID ?r = _ /\ _ => set (R := r) end.
  assert (E : cc_nextID R = cc_nextID c + 2 /\ cc_out R = cc_out c /\ cl_wl_live R = cl_wl_live c /\ cc_inQ R = cc_inQ c /\
              cc_lastErr R = cc_lastErr c /\ cc_outQ R = cc_outQ c /\ cc_hdrErr R = cc_hdrErr c /\ cc_ctxs R = cl_ctxs_put (cc_ctxs c) x').
  { subst R. unfold open_pending. destruct (rq_has_body (ct_req x)); [destruct (cq_body (ct_req x))|]; cbn; rewrite U; repeat split; reflexivity. }
  destruct E as (E1 & E2 & E3 & E4 & E5 & E6 & E7 & E8). repeat split; try assumption.
  intro t. unfold cl_ctx_get. rewrite E8, cl_ctxs_get_put. change (ct_tag x') with (ct_tag x). rewrite T.
  destruct (t =? tag) eqn:E; [|reflexivity]. replace t with tag by lia. unfold cl_ctx_get in G. rewrite G. reflexivity.
Qed.

Lemma Pre_reg c tag x : Pre c -> cl_ctx_get c tag = Some x -> ~ In tag (cc_inQ c) -> cc_nextID c <= cl_maxStreamID ->
  Pre (open_pending (fst (reg_state enc_field c tag x)) (cc_nextID c) tag (ct_req x)).
Proof.
  intros [[N1 N2] LE OQ HE] G NI LM. destruct (reg_state_facts c tag x G LM) as (E1 & E2 & E3 & E4 & E5 & E6 & E7 & E8).
  constructor.
  - rewrite E4. split; [exact N1|]. intros t H. destruct (N2 t H) as (y & Gy & Sy). exists y. rewrite E8.
    replace (t =? tag) with false by (assert (t <> tag) by (intro; subst; contradiction); lia). split; assumption.
  - rewrite E5. exact LE.
  - rewrite E6. exact OQ.
  - rewrite E7. exact HE.
Qed.

Lemma Pre_mv1 c c' : Pre c -> mv1 c c' -> Pre c'.
Proof.
  intros P M. destruct M as [c c' Q|c tag rq armed G|c tag x G S0 NI|c|c tag x G S0 NI LE L|c tag x c' G S0 NI LE Q L F|c tag x e G E].
  - exact (Pre_qm _ _ _ P Q).
  - destruct P as [[N1 N2] LE OQ HE]. constructor; try assumption. split; [exact N1|]. intros t H. destruct (N2 t H) as (y & Gy & Sy).
    exists y. split; [|exact Sy]. unfold cl_ctx_get in *. cbn. rewrite cl_ctxs_get_app, Gy. reflexivity.
  - destruct P as [[N1 N2] LE OQ HE]. constructor; try assumption. cbn. split; [apply NoDup_snoc; assumption|].
    intros t H. apply in_app_or in H. destruct H as [H|[<-|[]]]; [exact (N2 t H) | exists x; split; assumption].
  - destruct P as [N12 LE OQ HE]. constructor; assumption.
  - pose proof (Pre_reg c tag x P G NI LE) as PR. unfold reg_state in *.
    destruct (cl_request_block enc_field (cc_enc (ccu_nextID c (u32 (cc_nextID c + 2)))) (ct_req x)) as [blk e']. cbn [fst] in *.
    eapply Pre_qm; [exact PR | apply (qm_note q0); reflexivity].
  - exact (Pre_qm _ _ _ (Pre_reg c tag x P G NI LE) Q).
  - cbv zeta. eapply Pre_qm; [|apply (qm_note (fun _ => true)); reflexivity].
    eapply Pre_qm; [exact P|]. apply (qm_ctx_put q0 _ x).
    + cbn. destruct (cl_ctxs_get_In _ _ _ G) as [_ T]. rewrite T. exact G.
    + repeat split; auto. cbn. discriminate.
Qed.


(* ---------- stream ids ---------- *)
Definition hdr_ids (tr : list coutev) : list N :=
  flat_map (fun o => match o with COHeaders sid _ _ => [sid] | _ => [] end) tr.

Lemma hdr_ids_app a b : hdr_ids (a ++ b) = hdr_ids a ++ hdr_ids b.
Proof. apply flat_map_app. Qed.

Lemma hdr_ids_q0 (P : coutev -> bool) l : (forall o, P o = true -> q1 o = true) -> forallb P l = true -> hdr_ids (rev l) = [].
Proof.
  intros HP F. rewrite forallb_forall in F.
  assert (G : forall o, In o (rev l) -> q1 o = true) by (intros o H; apply in_rev in H; exact (HP o (F o H))).
  induction (rev l) as [|o t IH]; [reflexivity|]. unfold hdr_ids. cbn [flat_map]. fold (hdr_ids t).
  rewrite IH by (intros o' H; apply G; right; exact H). pose proof (G o (or_introl eq_refl)) as Q. destruct o; try reflexivity. discriminate.
Qed.

Definition odds (k : nat) : list N := map (fun i => 2 * N.of_nat i + 1) (seq 0 k).
Lemma odds_S k : odds (S k) = odds k ++ [2 * N.of_nat k + 1].
Proof. unfold odds. rewrite seq_S, map_app. reflexivity. Qed.

Definition IdInv c : Prop :=
  exists k, hdr_ids (rev (cc_out c)) = odds k /\ (cl_wl_live c = true -> cc_nextID c = 2 * N.of_nat k + 1) /\
            (2 * N.of_nat k <= cl_maxStreamID + 1).

(* a move that writes no HEADERS, keeps nextID and revives nothing *)
Lemma IdInv_keep c c' (P : coutev -> bool) : (forall o, P o = true -> q1 o = true) ->
  (exists new, cc_out c' = new ++ cc_out c /\ forallb P new = true) -> cc_nextID c' = cc_nextID c ->
  (cl_wl_live c' = true -> cl_wl_live c = true) -> IdInv c -> IdInv c'.
Proof.
  intros HP (new & E & F) NX WL (k & A & B & C). exists k. split; [|split; [|exact C]].
  - rewrite E, rev_app_distr, hdr_ids_app, A, (hdr_ids_q0 P new HP F), app_nil_r. reflexivity.
  - intro L. rewrite NX. exact (B (WL L)).
Qed.

Lemma IdInv_qm P c c' : (forall o, P o = true -> q1 o = true) -> qm P c c' -> IdInv c -> IdInv c'.
Proof. intros HP Q. apply (IdInv_keep c c' P HP); [exact (qm_out _ _ _ Q) | exact (qm_next _ _ _ Q) | exact (qm_wl _ _ _ Q)]. Qed.

Lemma IdInv_mv1 c c' : IdInv c -> mv1 c c' -> IdInv c'.
Proof.
  intros I M. destruct M as [c c' Q|c tag rq armed G|c tag x G S0 NI|c|c tag x G S0 NI LE L|c tag x c' G S0 NI LE Q L F|c tag x e G E].
  - exact (IdInv_qm q1 _ _ (fun o H => H) Q I).
  - destruct I as (k & A & B & C). exists k. repeat split; assumption.
  - destruct I as (k & A & B & C). exists k. repeat split; assumption.
  - destruct I as (k & A & B & C). exists k. repeat split; assumption.
  - destruct (reg_state_facts c tag x G LE) as (E1 & E2 & E3 & _). unfold reg_state in *.
    destruct (cl_request_block enc_field (cc_enc (ccu_nextID c (u32 (cc_nextID c + 2)))) (ct_req x)) as [blk e']. cbn [fst] in *.
    destruct I as (k & A & B & C). specialize (B L). exists (S k). split; [|split].
    + cbn [cl_note cc_out ccu_out rev]. rewrite E2, hdr_ids_app, A, odds_S. cbn. rewrite B. reflexivity.
    + intros _. cbn [cl_note cc_nextID ccu_out]. rewrite E1, B. lia.
    + unfold cl_maxStreamID in *. lia.
  - destruct (reg_state_facts c tag x G LE) as (E1 & E2 & E3 & _).
    destruct I as (k & A & B & C). exists k. split; [|split; [|exact C]].
    + destruct (qm_out _ _ _ Q) as (new & EO & FO). rewrite EO, rev_app_distr, hdr_ids_app, E2, A, (hdr_ids_q0 q1 new (fun o H => H) FO), app_nil_r. reflexivity.
    + intro L'. rewrite L in L'. discriminate.
  - destruct I as (k & A & B & C). exists k. split; [|split; [|exact C]].
    + cbn. rewrite hdr_ids_app, A. cbn. rewrite app_nil_r. reflexivity.
    + exact B.
Qed.

Lemma q2_q1' o : q2 o = true -> q1 o = true. Proof. apply q2_q1. Qed.

Lemma PreId_mvs tk c c' : mvs tk c c' -> Pre c -> IdInv c -> Pre c' /\ IdInv c'.
Proof.
  intro M. induction M as [c|tk c c1 c2 M1 M IH|fr c c1 c2 F M IH]; intros P I.
  - split; assumption.
  - apply IH; [exact (Pre_mv1 _ _ P M1) | exact (IdInv_mv1 _ _ I M1)].
  - destruct (feedmove_fm c fr c1 (p_herr _ P) F) as (tg & FM & HE' & TG). apply IH.
    + exact (Pre_fm tg _ _ P FM HE' TG).
    + apply (IdInv_keep c c1 q2 q2_q1'); [exact (fm_out _ _ _ FM) | exact (fm_next _ _ _ FM) | exact (fm_wl _ _ _ FM) | exact I].
Qed.

Lemma Pre_init h0 first : Pre (cl_init enc_set_max h0 first) /\ IdInv (cl_init enc_set_max h0 first).
Proof.
  unfold cl_init. destruct (cl_settings_deserialize false first) as [st|]; (split; [|exists 0%nat; cbn; repeat split; unfold cl_maxStreamID; lia]);
    constructor; cbn; try discriminate; try reflexivity; try (split; [constructor | intros t []]).
  intros e H. inversion H. reflexivity.
Qed.

Variable h0 : hstate.
Variable first : bytes.
Notation run := (cl_run dec_field enc_field enc_set_max cfg h0 first).

Theorem PreId_run evs : Pre (run evs) /\ IdInv (run evs).
Proof.
  apply (cl_run_ind _ dec_field enc_field enc_set_max cfg h0 first (fun c => Pre c /\ IdInv c)).
  - apply Pre_init.
  - intros c e [P I]. exact (PreId_mvs _ _ _ (step_mvs dec_field enc_field enc_set_max cfg c e P) P I).
Qed.

(* C02 (a): the HEADERS frames of a run carry the stream ids 1, 3, 5, ..., each at most 2^31-1 *)
Theorem stream_ids evs :
  exists k, hdr_ids (cl_trace (run evs)) = odds k /\ (2 * N.of_nat k <= cl_maxStreamID + 1) /\
            (cl_wl_live (run evs) = true -> cc_nextID (run evs) = 2 * N.of_nat k + 1).
Proof. destruct (PreId_run evs) as [_ (k & A & B & C)]. exists k. unfold cl_trace. repeat split; assumption. Qed.

(* ErrNoMoreStreamIDs is dead code: CanOpenStream has refused first (ErrNotAvailableStreams, retryable) *)
Lemma write_request_no_ids c tag : snd (cl_write_request enc_field enc_set_max c tag) <> CWRErr CENoIDs.
Proof.
  unfold cl_write_request. destruct (cl_can_open_stream c) eqn:CO; cbn [negb]; [|discriminate].
  destruct (cl_ctx_get c tag) as [x|]; [|discriminate]. destruct (ct_lckStuck x); [discriminate|]. destruct (ct_done x); [discriminate|].
  set (c1 := if negb (cc_encTableSize c =? cc_encTableSeen c) then _ else c).
  assert (NX : cc_nextID c1 = cc_nextID c) by (subst c1; destruct (negb (cc_encTableSize c =? cc_encTableSeen c)); reflexivity).
  unfold cl_can_open_stream in CO. apply andb_true_iff in CO. destruct CO as [CO _]. apply andb_true_iff in CO. destruct CO as [_ CO].
  replace (cl_maxStreamID <? cc_nextID c1) with false by lia.
  destruct (cl_request_block enc_field _ (ct_req x)) as [blk e'].
  match goal with |- context [if ?b then (cl_take_req_count _ _, CWRErr CENoStreams) else _] => destruct b end; [discriminate|].
  match goal with |- context [if cl_can_write ?a then _ else _] => destruct (cl_can_write a) end.
  - destruct (match cq_body (ct_req x) with CStream _ _ => true | CBuf b => negb (cl_is_nil b) end); [|discriminate].
    match goal with |- context [cl_send_pending ?f ?a ?i] => destruct (cl_send_pending f a i) as [c8 []] end; discriminate.
  - match goal with |- context [cl_delete_pending 1 [] ?a ?i] => destruct (cl_delete_pending 1 [] a i) as [c8 []] end; discriminate.
Qed.

End Ids.
