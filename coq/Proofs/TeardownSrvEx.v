(* Proofs/TeardownSrvEx.v -- blocking-structure model (Impl/Teardown.v), server: examples and the finding F-S2.
   Statements: Props/Teardown.v; overview: Proofs/TeardownProofs.v. *)
From Coq Require Import Arith Lia Bool List.
From RecordUpdate Require Import RecordSet.
Import RecordSetNotations.
Import ListNotations.
From H2V Require Import Impl.Teardown Proofs.TeardownGen Proofs.TeardownSrvInv Proofs.TeardownSrvS1 Proofs.TeardownSrvS2.

Module SrvEx.
Import Srv SrvP SrvP1 SrvP2.

Section P.
Variable cap : nat.
Hypothesis cap_pos : 1 <= cap.
Notation guard := (Srv.guard cap).
Notation reachable := (Srv.reachable cap).

(* a connection with both timers configured, just after Serve has started its goroutines *)
Definition start (idle : bool) (b : nat) : state :=
  mk RRead SSelect WSelect PArmed 0 0 0 false false false false false 0 0 idle 0 0 false false
     false false false false b.
Lemma start_init : forall i b, init (start i b).
Proof. intros; unfold init; cbn; repeat split; auto. Qed.
Lemma start_reach : forall i b, reachable (start i b).
Proof. intros; apply reach_init, start_init. Qed.

Ltac reach_by := apply reach_acts; [apply start_reach | unfold start; solve [guards_tac]].

(* ---- finding (C10 iv): a connection error ends the stream loop; the peer neither reads nor
   sends nor closes; the write loop is in the socket write of the drain; the read loop is in the
   socket read.  Nothing can move except the peer (or the request timer, which nobody listens to
   any more): the drain timeout is not even armed, because Serve is still inside readLoop. ---- *)
Definition silent_trace : list act :=
  [EPeerSend 1; RGetFwd; RFwdSend; STakeRd false false; SBodyWrite; SWr ViaQueue; SBodyBreak;
   SCloseHStop; SStopPing; SCloseWStop; EPeerStall; WStop; WDrainTake].
Definition silent_state : state := Eval vm_compute in run_acts eff silent_trace (start false 0).

Lemma silent_reachable : reachable silent_state.
Proof.
  replace silent_state with (run_acts eff silent_trace (start false 0)) by (vm_compute; reflexivity).
  unfold silent_trace. reach_by.
Qed.

Lemma silent_shape :
  sv silent_state = RRead /\ sl silent_state = SDone /\ wl silent_state = WSock true /\
  stalled silent_state = true /\ gone silent_state = false /\ sclosed silent_state = false.
Proof. cbn; repeat split. Qed.

Lemma silent_only_peer : forall a, guard a silent_state ->
  (exists b, a = EPeerSend b) \/ a = EPeerClose \/ (exists b, a = EReqTimer b).
Proof.
  intros a G. unfold silent_state in G.
  act_cases a; cbn in G; break; try discriminate; try lia; eauto.
Qed.

Theorem silent_peer_never_returns :
  exists r : run guard eff,
    fair_run cap r /\ reachable (st r 0) /\ sl_exited (st r 0) /\
    forall i, sv (st r i) = RRead /\ wl (st r i) = WSock true /\ sv (st r i) <> VEnd.
Proof.
  exists (const_run guard eff silent_state).
  assert (forall G : act -> Prop, (forall a, G a -> is_env a = false \/ a = EDrainTimeout) ->
            fair G (const_run guard eff silent_state)) as K.
  { intros G HG i. exists i; split; auto. right. intros a Ga Gd.
    destruct (silent_only_peer a Gd) as [(b & ->)|[->|(b & ->)]];
      destruct (HG _ Ga); discriminate. }
  split; [|split; [|split]].
  - repeat split; apply K; intros a Ga; act_cases a; cbn in Ga; try contradiction; auto.
  - apply silent_reachable.
  - right; right; right; reflexivity.
  - intros i; cbn; repeat split; discriminate.
Qed.

(* ---- example for S1: the peer floods and vanishes; a handler is still in user code, a frame
   is queued for the socket, the read loop is inside sc.write, the stream loop inside an
   iteration ---- *)
Definition s1_trace : list act :=
  [EPeerSend 2; RGetFwd; RFwdSend; STakeRd true true; SBodyWrite; SWr ViaQueue; EPeerSend 0;
   RGetPing; EPeerClose].
Definition s1_state : state := Eval vm_compute in run_acts eff s1_trace (start true 0).
Lemma s1_example :
  reachable s1_state /\ dead s1_state = true /\ sv s1_state = RWrite false /\ sl s1_state = SBody /\
  wr s1_state = 1 /\ h_run s1_state = 1 /\ ~ quiet s1_state.
Proof.
  split.
  { replace s1_state with (run_acts eff s1_trace (start true 0)) by (vm_compute; reflexivity).
    unfold s1_trace. reach_by. }
  unfold s1_state; cbn; repeat split; auto. intros ((H & _) & _); discriminate.
Qed.

(* ---- example for S2: the idle timer has made the stream loop break; the peer has stopped
   reading and sends a malformed frame; the read loop is inside writeGoAway -> sc.write ---- *)
Definition s2_trace : list act :=
  [EIdleFire; IWr ViaQueue; ICloseCloser; SCloser; EPeerStall; EPeerSend 0; RGetBad].
Definition s2_state : state := Eval vm_compute in run_acts eff s2_trace (start true 0).
Lemma s2_example :
  reachable s2_state /\ sl_exited s2_state /\ sv_leaving cap s2_state /\
  sv s2_state = RWrite true /\ wr s2_state = 1 /\ stalled s2_state = true.
Proof.
  split.
  { replace s2_state with (run_acts eff s2_trace (start true 0)) by (vm_compute; reflexivity).
    unfold s2_trace. reach_by. }
  unfold s2_state, sv_leaving, sl_exited; cbn; repeat split; auto.
Qed.
End P.

(* ---- example for S2 (cap = 1): the idle timer has made the stream loop break; the peer keeps
   sending and has stopped reading; reader is full and the read loop is parked in forward ---- *)
Definition s2b_trace : list act :=
  [EPeerSend 0; RGetFwd; RFwdSend; EPeerSend 0; RGetFwd; EIdleFire; IWr ViaQueue; ICloseCloser;
   SCloser; EPeerStall].
Definition s2b_state : state := Eval vm_compute in run_acts eff s2b_trace (start true 0).
Lemma s2b_example :
  Srv.reachable 1 s2b_state /\ sl_exited s2b_state /\ sv_leaving 1 s2b_state /\
  sv s2b_state = RFwd /\ rd s2b_state = 1 /\ stalled s2b_state = true.
Proof.
  split.
  { replace s2b_state with (run_acts eff s2b_trace (start true 0)) by (vm_compute; reflexivity).
    unfold s2b_trace. apply reach_acts; [apply start_reach | unfold start; solve [guards_tac]]. }
  unfold s2b_state, sv_leaving, sl_exited; cbn; repeat split; auto.
Qed.
End SrvEx.
