(* Proofs/SrvFlowRecvB.v - C14 (server), the peer's view: its connection send window, as it computes it from the
   WINDOW_UPDATEs the server queued and the DATA it sent, is the server's receive window minus the DATA still
   waiting in sc.reader; every DATA frame accepted into a request body is answered by a stream WINDOW_UPDATE. *)
From H2V Require Import Base.Bytes Base.MachineInt Base.Result Gen.GenConsts Impl.ServerConn Proofs.SrvBase
  Spec.FlowLedger Proofs.SrvFlowLedger Proofs.SrvFlowDefs Proofs.SrvFlowSend Proofs.SrvFlowEff Proofs.SrvFlowRecv.
From Coq Require Import ZArith Lia ZifyN ZifyNat ZifyBool List.
Import ListNotations.
Local Open Scope N_scope.
Set Default Proof Using "Type".

(* DATA bytes (payload + padding) forwarded by the read loop and not yet seen by the stream loop *)
Fixpoint qdata (q : list sframe) : Z := match q with [] => 0 | fr :: t => dlen fr + qdata t end.

Lemma qdata_app a b : qdata (a ++ b) = (qdata a + qdata b)%Z.
Proof. induction a as [|x a IH]; cbn [app qdata]; lia. Qed.
Lemma qdata_nonneg q : (0 <= qdata q)%Z.
Proof. induction q as [|x q IH]; cbn [qdata]; [lia|]. pose proof (dlen_nonneg x). lia. Qed.

Lemma peer_conn_window_rdata w fr l : peer_conn_window w (rdata_of fr ++ l) = peer_conn_window (w - dlen fr) l.
Proof. unfold rdata_of, dlen. destruct (sf_kind fr); cbn [app peer_conn_window]; f_equal; lia. Qed.

Section PeerView.
Variable hstate : Type.
Variable dec_field : hstate -> N -> bytes -> dec_res hstate.
Variable enc_field : hstate -> bytes -> bytes -> bool -> bytes * hstate.
Variable enc_set_max : hstate -> N -> hstate.
Variable cfg : config.
Variable h0 : hstate.
Notation sconn := (sconn hstate).
Implicit Types c : sconn.
Notation CStep := (CStep hstate cfg).
Notation NoCredit := (NoCredit hstate).
Notation step := (step dec_field enc_field enc_set_max cfg).
Notation run := (run dec_field enc_field enc_set_max cfg h0).
Notation run_from := (run_from dec_field enc_field enc_set_max cfg).
Notation rtl_step := (rtl_step hstate dec_field enc_field enc_set_max cfg).
Notation rtimeline_from := (rtimeline_from hstate dec_field enc_field enc_set_max cfg).
Notation AInv := (AInv hstate cfg).

(* w: the peer's connection send window *)
Definition PInv c (w : Z) : Prop :=
  (w <= sc_currentWindow c - qdata (sc_readerQ c))%Z /\
  (sc_closing c = false -> sc_sl_done c = false -> sc_wl_dead c = false ->
   w = (sc_currentWindow c - qdata (sc_readerQ c))%Z).

(* a step that leaves the queue alone and debits nothing *)
Lemma PInv_cstep0 c c' w new : CStep c c' 0 -> sc_out c' = new ++ sc_out c -> PInv c w ->
  PInv c' (w + conn_credit (rcredits (rev new))).
Proof.
  intros [c0 c1 c2 c3 c4 c5 (new' & E' & _ & I & Q)] E [P1 P2].
  assert (new' = new) by (rewrite E' in E; apply app_inv_tail in E; exact E). subst new'.
  unfold PInv. rewrite c1. split.
  - clear - I P1. lia.
  - intros F1 F2 F3.
    assert (G1 : sc_closing c = false) by (destruct (sc_closing c); [rewrite c5 in F1 by reflexivity; discriminate | reflexivity]).
    assert (G2 : sc_sl_done c = false) by (destruct c4 as [X|X]; congruence).
    assert (G3 : sc_wl_dead c = false) by congruence.
    specialize (P2 G1 G2 G3). specialize (Q G3). clear - P2 Q. lia.
Qed.

Lemma closing_false_mono c c' : (sc_closing c = true -> sc_closing c' = true) -> sc_closing c' = false -> sc_closing c = false.
Proof. intros H F. destruct (sc_closing c); [rewrite H in F by reflexivity; discriminate | reflexivity]. Qed.

Lemma new_out_rcredits c c' new : sc_out c' = new ++ sc_out c -> rcredits (new_out hstate c c') = rcredits (rev new).
Proof. intro E. rewrite (new_out_ext _ _ _ _ E). reflexivity. Qed.

Lemma step_PInv c e w : cfg_ok cfg -> AInv c -> PInv c w -> PInv (step c e) (peer_conn_window w (rtl_step c e)).
Proof.
  intros Cfg A P. unfold SrvFlowDefs.rtl_step.
  (* steps that debit nothing and leave the queue alone *)
  assert (Z0 : forall c', CStep c c' 0 -> rl_takes hstate c e = None -> step c e = c' ->
               PInv c' (peer_conn_window w (match rl_takes hstate c e with Some fr => rdata_of fr | None => [] end ++
                                            rcredits (new_out hstate c c')))).
  { intros c' CS RT _. rewrite RT. cbn [app].
    destruct (cs_acc _ _ _ _ _ CS) as (new & E & _).
    rewrite (new_out_rcredits _ _ _ E), (peer_conn_window_credits _ (rcredits_only _)).
    eapply PInv_cstep0; eassumption. }
  destruct e as [i| |sid r|t| | | |].
  - (* the read loop *)
    rewrite step_EvRL. destruct (sc_rl_done c) eqn:RD.
    { cbn [rl_takes]. rewrite RD. replace (match i with RFrame _ => None | _ => None end) with (@None sframe) by (destruct i; reflexivity).
      cbn [app]. rewrite (new_out_same _ _ _ eq_refl). exact P. }
    destruct (rl_step_eff _ cfg c i) as [[r1 r2 r3 r4 r5 r6 r7 r8 r9 (new & E & F)] Q].
    assert (RC : rcredits (new_out hstate c (rl_step cfg c i)) = []).
    { rewrite (new_out_rcredits _ _ _ E). apply rcredits_nowu. apply Forall_forall. intros o Ho.
      rewrite Forall_forall in F. apply quiet_nowu, F, in_rev, Ho. }
    rewrite RC, app_nil_r. destruct P as [P1 P2].
    destruct Q as [[Q D]|(fr & -> & Q & _ & SD & _)].
    + (* not forwarded *)
      destruct i as [fr| | |]; cbn [rl_takes]; rewrite ?RD; cbn [peer_conn_window];
        try (unfold PInv; rewrite Q, r4; split; [exact P1|]; intros F1 F2 F3; apply P2;
             [eapply closing_false_mono; eassumption | congruence | congruence]).
      rewrite <- (app_nil_r (rdata_of fr)), peer_conn_window_rdata. cbn [peer_conn_window].
      unfold PInv. rewrite Q, r4. pose proof (dlen_nonneg fr) as DN. split; [clear - P1 DN; lia|].
      intros F1 F2 F3.
      assert (DZ : dlen fr = 0%Z).
      { unfold dlen. destruct (sf_kind fr) eqn:K; try reflexivity. destruct (D fr eq_refl K); congruence. }
      rewrite DZ. rewrite P2; [lia | eapply closing_false_mono; eassumption | congruence | congruence].
    + (* forwarded: the frame joins the queue *)
      cbn [rl_takes]. rewrite RD. rewrite <- (app_nil_r (rdata_of fr)), peer_conn_window_rdata. cbn [peer_conn_window].
      unfold PInv. rewrite Q, r4, qdata_app. cbn [qdata]. split; [clear - P1; lia|].
      intros F1 F2 F3. rewrite P2; [lia | eapply closing_false_mono; eassumption | congruence | congruence].
  - (* the stream loop *)
    rewrite step_EvSL. cbn [rl_takes app]. destruct (sc_sl_done c) eqn:SD.
    { rewrite (new_out_same _ _ _ eq_refl). exact P. }
    destruct (sc_readerQ c) as [|fr q] eqn:EQ.
    + destruct (sc_rl_done c) eqn:RLD.
      * assert (CS : CStep c (note (upd_done c true true) (OExit 1 1)) 0).
        { apply CStep_NoCredit. split; [|eapply out_ext_cons; [reflexivity | exact I]].
          eapply Frame_trans; [|apply Frame_note]. constructor; sc_cbn; first [reflexivity | flia | (symmetry; exact RLD) | (right; reflexivity) | (intro; assumption)]. }
        specialize (Z0 _ CS eq_refl). cbn [rl_takes app] in Z0. apply Z0.
        rewrite step_EvSL, SD, EQ, RLD. reflexivity.
      * rewrite (new_out_same _ _ _ eq_refl). exact P.
    + destruct A as (A1 & A2 & A3 & A4). rewrite EQ in A2, A3. inversion A2; subst. inversion A3; subst.
      destruct (sl_frame_cstep _ dec_field enc_set_max cfg (upd_readerQ c q) fr Cfg) as (d & CS & Hd); try assumption.
      set (c' := fst (sl_frame dec_field enc_set_max cfg (upd_readerQ c q) fr)) in *.
      destruct CS as [c0 c1 c2 c3 c4 c5 (new & E & _ & I & Q)]. sc_cbn_in c1. sc_cbn_in c2. sc_cbn_in c3.
      sc_cbn_in c4. sc_cbn_in c5. sc_cbn_in E. sc_cbn_in I. sc_cbn_in Q.
      rewrite (new_out_rcredits _ _ _ E), (peer_conn_window_credits _ (rcredits_only _)).
      destruct P as [P1 P2]. rewrite EQ in P1, P2. cbn [qdata] in P1, P2.
      pose proof (dlen_nonneg fr) as DN.
      unfold PInv. rewrite c1. split.
      * destruct Hd as [->|[-> _]]; clear - P1 I DN; lia.
      * intros F1 F2 F3.
        assert (G1 : sc_closing c = false) by (eapply closing_false_mono; eassumption).
        assert (G2 : sc_sl_done c = false) by exact SD.
        assert (G3 : sc_wl_dead c = false) by congruence.
        specialize (P2 G1 G2 G3). specialize (Q G3).
        destruct Hd as [->|[_ [X|X]]]; [clear - P2 Q; lia | congruence | congruence].
  - rewrite step_EvDone. destruct (sc_sl_done c) eqn:SD.
    { cbn [rl_takes app]. rewrite (new_out_same _ _ _ eq_refl). exact P. }
    apply (Z0 _ (CStep_NoCredit _ _ _ _ (sl_done_NoCredit _ enc_field cfg c sid r)) eq_refl).
    rewrite step_EvDone, SD. reflexivity.
  - rewrite step_EvClock. cbn [rl_takes app]. destruct (sc_now c <? t)%Z;
      [rewrite (new_out_same _ c (upd_now c t) eq_refl) | rewrite (new_out_same _ c c eq_refl)]; cbn [peer_conn_window];
      [destruct P as [P1 P2]; split; [exact P1 | exact P2] | exact P].
  - rewrite step_EvTimer. destruct (sc_sl_done c) eqn:SD.
    { cbn [rl_takes app]. rewrite (new_out_same _ _ _ eq_refl). exact P. }
    apply (Z0 _ (CStep_NoCredit _ _ _ _ (sl_timer_NoCredit _ cfg c)) eq_refl).
    rewrite step_EvTimer, SD. reflexivity.
  - rewrite step_EvIdle.
    assert (Q : Quiet c (upd_closer (write_goaway c 0 c_NoError) true)).
    { eapply Quiet_trans; [apply Quiet_write_goaway|].
      constructor; sc_cbn; first [reflexivity | flia | (left; reflexivity) | (intro; assumption) | (apply out_ext_same; reflexivity)]. }
    apply (Z0 _ (CStep_NoCredit _ _ _ _ (NoCredit_Quiet _ _ _ Q)) eq_refl). apply step_EvIdle.
  - rewrite step_EvCloser. destruct (sc_closer c && negb (sc_sl_done c)) eqn:CL.
    + apply (Z0 _ (CStep_NoCredit _ _ _ _ (NoCredit_Quiet _ _ _ (Quiet_brk _ c))) eq_refl).
      rewrite step_EvCloser, CL. reflexivity.
    + cbn [rl_takes app]. rewrite (new_out_same _ _ _ eq_refl). exact P.
  - rewrite step_EvWriteFail. cbn [rl_takes app]. rewrite (new_out_same _ c (upd_wl_dead c true) eq_refl). cbn [peer_conn_window].
    destruct P as [P1 P2]. split; [exact P1|]. sc_cbn. intros _ _ X. discriminate.
Qed.

Lemma PInv_from evs : cfg_ok cfg -> Forall wire_ev evs -> forall c w, AInv c -> PInv c w ->
  PInv (run_from c evs) (peer_conn_window w (rtimeline_from c evs)).
Proof.
  intros Cfg. induction evs as [|e evs IH]; intros W c w A P; [exact P|].
  inversion W; subst. rewrite run_from_cons. cbn [SrvFlowDefs.rtimeline_from]. rewrite peer_conn_window_app.
  apply IH; [assumption | apply step_AInv; assumption | apply step_PInv; assumption].
Qed.

(* C14 (c), (e). The peer starts with the connection window the handshake gives it: the server's
   SETTINGS do not change it (65535) and server.go's Handshake sends WINDOW_UPDATE(0, maxWindow - 65535) before
   the first frame is read, which is outside the model: w0 = cf_maxWindow. *)
Theorem peer_connection_window evs : cfg_ok cfg -> Forall wire_ev evs ->
  let c := run evs in
  let w := peer_conn_window (cf_maxWindow cfg) (rtimeline hstate dec_field enc_field enc_set_max cfg h0 evs) in
  (w <= sc_currentWindow c - qdata (sc_readerQ c))%Z /\
  (w <= cf_maxWindow cfg <= 2147483647)%Z /\
  (sc_closing c = false -> sc_sl_done c = false -> sc_wl_dead c = false ->
   w = (sc_currentWindow c - qdata (sc_readerQ c))%Z /\
   (sc_readerQ c = [] -> (cf_maxWindow cfg / 2 <= w)%Z)).
Proof.
  intros Cfg W. cbv zeta. pose proof (AInv_run _ dec_field enc_field enc_set_max cfg h0 evs Cfg W) as A.
  assert (P0 : PInv (init_conn cfg h0) (cf_maxWindow cfg)).
  { split; cbn; [lia | intros; lia]. }
  pose proof (PInv_from evs Cfg W _ _ (AInv_init _ cfg h0 Cfg) P0) as [P1 P2].
  rewrite <- run_eq in P1, P2. fold (rtimeline hstate dec_field enc_field enc_set_max cfg h0 evs) in P1, P2.
  destruct A as ((B1 & B2) & _). pose proof (qdata_nonneg (sc_readerQ (run evs))) as QN.
  split; [exact P1|]. split; [destruct Cfg; unfold MAXWIN in *; clear - P1 B2 QN H0; lia|].
  intros F1 F2 F3. specialize (P2 F1 F2 F3). split; [exact P2|]. intro E. rewrite E in P2. cbn [qdata] in P2.
  clear - P2 B1. lia.
Qed.

(* ---------- (d): stream credit ---------- *)

Lemma In_new_out c c' new o : sc_out c' = new ++ sc_out c -> In o new -> In o (new_out hstate c c').
Proof. intros E H. rewrite (new_out_ext _ _ _ _ E). apply in_rev. rewrite rev_involutive. exact H. Qed.

(* a DATA frame without END_STREAM that is accepted into the request body of a stream in the table is answered,
   in the same step, by WINDOW_UPDATE(stream, length of the frame on the wire, padding included) *)
Theorem data_stream_credit c fr q s :
  sc_sl_done c = false -> sc_wl_dead c = false -> sc_readerQ c = fr :: q ->
  sf_kind fr = KData -> sf_sid fr <> 0 -> sf_sid fr <= sc_lastID c ->
  strms_search (sc_strms c) (sf_sid fr) = Some s -> data_accepts s = true ->
  ((0 <? cf_maxBody cfg) && (cf_maxBody cfg <? st_recvBody s + Z.of_N (len (sf_payload fr))))%Z = false ->
  flag_has (sf_flags fr) FL_ES = false -> 0 < sf_len fr ->
  In (OWinUpd (sf_sid fr) (Z.of_N (sf_len fr))) (new_out hstate c (step c EvSL)).
Proof.
  intros SD WD EQ K NZ LE F DA MB ES LEN.
  rewrite step_EvSL, SD, EQ.
  set (c0 := upd_readerQ c q).
  assert (Z0 : (sf_sid fr =? 0) = false) by flia.
  assert (DC : fkind_eqb (sf_kind fr) KCont && negb (sc_discardID c0 =? 0) && (sf_sid fr =? sc_discardID c0) = false)
    by (rewrite K; reflexivity).
  rewrite (sl_frame_stream _ dec_field enc_set_max cfg c0 fr Z0 DC).
  assert (PRE : sl_pre dec_field cfg c0 fr = inr (c0, s)).
  { unfold sl_pre. cbv zeta. subst c0. sc_cbn. assert (X : (sf_sid fr <=? sc_lastID c) = true) by flia. rewrite X, F. reflexivity. }
  rewrite PRE. unfold sl_tail. rewrite K. cbn [fkind_eqb].
  pose proof (handle_frame_data _ dec_field cfg c0 s fr K) as HD. cbv zeta in HD. rewrite DA, MB in HD. rewrite HD.
  set (s1 := set_recv s _ _). set (n := Z.of_N (sf_len fr)).
  set (c3 := consume_recv_window cfg c0 s1 fr n).
  destruct (after_frame_NoCredit _ cfg c3 s1 fr (sc_closing c0)) as [_ (new2 & E2 & _)].
  assert (E3 : exists new1, sc_out c3 = new1 ++ OWinUpd (sf_sid fr) n :: sc_out c).
  { subst c3. unfold consume_recv_window. assert (X : (n <=? 0)%Z = false) by (subst n; flia). rewrite X, ES.
    assert (I1 : st_id s1 = sf_sid fr) by (apply strms_search_In in F; apply F).
    rewrite I1.
    assert (O1 : sc_out (write_window_update c0 (sf_sid fr) n) = OWinUpd (sf_sid fr) n :: sc_out c).
    { unfold write_window_update. rewrite sc_out_emit. subst c0. sc_cbn. rewrite WD, SD. reflexivity. }
    destruct (rv_out _ _ _ (Recv_credit _ cfg (write_window_update c0 (sf_sid fr) n) n)) as (new1 & E1 & _).
    exists new1. rewrite E1, O1. reflexivity. }
  destruct E3 as (new1 & E3).
  apply (In_new_out c _ (new2 ++ new1 ++ [OWinUpd (sf_sid fr) n])).
  - cbn [fst snd]. change (sc_closing c) with (sc_closing c0). rewrite E2, E3. rewrite <- !app_assoc. reflexivity.
  - apply in_or_app. right. apply in_or_app. right. left. reflexivity.
Qed.

End PeerView.
