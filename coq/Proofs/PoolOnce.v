(* The onDisconnect callback of a connection runs at most once (Impl/ClientPool.v): pl_closing - the Conn.Close calls
   between their CAS and their callback - never holds a connection twice, and a connection that is closed and not in it
   (its callback has run, or Client.Close closed it without one) never enters it again. *)
From Coq Require Import List NArith Bool Lia.
From H2V Require Import Impl.ClientPool Proofs.PoolThms Proofs.PoolMono.
Import ListNotations.
Open Scope N_scope.

Lemma create_closing p d q c o : pl_create_conn p d = (q, c, o) -> pl_closing q = pl_closing p.
Proof. destruct d; cbn [pl_create_conn]; intro H; inversion H; subst; reflexivity. Qed.

Lemma pick_closing p d q r o : pl_pick_conn p d = (q, r, o) -> pl_closing q = pl_closing p.
Proof.
  unfold pl_pick_conn. destruct (pl_closed p); [intro H; inversion H; subst; reflexivity|].
  destruct (pl_walk p (pl_conns p)) as [l f]. destruct f as [id|]; [intro H; inversion H; subst; reflexivity|].
  destruct (pl_create_conn (pl_upd_conns p l) d) as [[p2 c] o2] eqn:C. intro H; inversion H; subst.
  rewrite (create_closing _ _ _ _ _ C). reflexivity.
Qed.

Lemma on_dropped_closing p id d q o : pl_on_dropped p id d = (q, o) -> pl_closing q = pl_closing p.
Proof.
  unfold pl_on_dropped. destruct (pl_closed p); [intro H; inversion H; subst; reflexivity|].
  destruct (pl_mem (pl_conns p) id); [|intro H; inversion H; subst; reflexivity].
  destruct (pl_create_conn (pl_upd_conns p (pl_remove (pl_conns p) id)) d) as [[p1 c] o1] eqn:E. intro H; inversion H; subst.
  rewrite (create_closing _ _ _ _ _ E). reflexivity.
Qed.

Lemma client_close_closing p q o : pl_client_close p = (q, o) -> pl_closing q = pl_closing p.
Proof.
  unfold pl_client_close. destruct (pl_closed p); [intro H; inversion H; subst; reflexivity|].
  intro H. destruct (close_all_fields _ _ _ _ H) as (_ & _ & C & _). exact C.
Qed.

(* what a step does to pl_closing *)
Lemma closing_step p e : let q := pl_state_of (pl_step p e) in
  pl_closing q = pl_closing p
  \/ (exists id c, e = PEvCloseBegin id /\ pl_find (pl_stat p) id = Some c /\ plc_closed c = false /\ pl_closing q = id :: pl_closing p)
  \/ (exists id d, e = PEvCloseEnd id d /\ In id (pl_closing p) /\ pl_closing q = pl_remove (pl_closing p) id).
Proof.
  unfold pl_state_of. destruct e as [d|id b|id|id d|]; cbn [pl_step].
  - destruct (pl_pick_conn p d) as [[q r] o] eqn:H. cbn [fst]. left. eapply pick_closing; exact H.
  - left. reflexivity.
  - destruct (pl_close_begin p id) as [q o] eqn:H. cbn [fst]. unfold pl_close_begin in H.
    destruct (pl_find (pl_stat p) id) as [c|] eqn:F; [|inversion H; subst; left; reflexivity].
    destruct (plc_closed c) eqn:C; inversion H; subst; [left; reflexivity|].
    right. left. exists id, c. auto.
  - destruct (pl_close_end p id d) as [q o] eqn:H. cbn [fst]. unfold pl_close_end in H.
    destruct (pl_mem (pl_closing p) id) eqn:M; [|inversion H; subst; left; reflexivity].
    right. right. exists id, d. split; [reflexivity|]. split; [apply pl_mem_In; exact M|].
    rewrite (on_dropped_closing _ _ _ _ _ H). reflexivity.
  - destruct (pl_client_close p) as [q o] eqn:H. cbn [fst]. left. eapply client_close_closing; exact H.
Qed.

Lemma closing_nodup_step p e : Inv p -> NoDup (pl_closing p) -> NoDup (pl_closing (pl_state_of (pl_step p e))).
Proof.
  intros I N. destruct (closing_step p e) as [E|[(id & c & _ & F & C & E)|(id & d & _ & _ & E)]]; rewrite E.
  - exact N.
  - constructor; [|exact N]. intro Hin. destruct (inv_closing p I id Hin) as [_ Cl].
    unfold pl_is_closed in Cl. rewrite F in Cl. congruence.
  - apply pl_remove_NoDup. exact N.
Qed.

Lemma closing_nodup_from p evs : Inv p -> NoDup (pl_closing p) -> NoDup (pl_closing (pl_run_from p evs)).
Proof.
  revert p. induction evs as [|e r IH]; intros p I N; [exact N|]. cbn [pl_run_from fold_left].
  apply IH; [apply Inv_step; exact I | apply closing_nodup_step; assumption].
Qed.

(* no connection is between the halves of its Close twice *)
Theorem closing_nodup evs : NoDup (pl_closing (pl_run evs)).
Proof. apply closing_nodup_from; [exact Inv_init | constructor]. Qed.

Definition done_with (p : pool) (x : N) : Prop := shut p x = true /\ ~ In x (pl_closing p).

Lemma done_step p e x : Inv p -> done_with p x -> done_with (pl_state_of (pl_step p e)) x.
Proof.
  intros I [S Nn]. split; [apply shut_step; assumption|].
  destruct (closing_step p e) as [E|[(id & c & _ & F & C & E)|(id & d & _ & _ & E)]]; rewrite E.
  - exact Nn.
  - intros [X|X]; [|exact (Nn X)]. subst id. unfold shut, shut_in in S. rewrite F in S. congruence.
  - intro X. apply Nn. eapply pl_remove_In. exact X.
Qed.

Lemma done_from p evs x : Inv p -> done_with p x -> done_with (pl_run_from p evs) x.
Proof.
  revert p. induction evs as [|e r IH]; intros p I D; [exact D|]. cbn [pl_run_from fold_left].
  apply IH; [apply Inv_step; exact I | apply done_step; assumption].
Qed.

(* once a connection is closed and its callback is not pending, no later onDisconnect callback does anything for it:
   PEvCloseEnd on it is a no-op (no removal, no replacement dial) in every later state *)
Theorem callback_once evs1 evs2 x d : done_with (pl_run evs1) x ->
  pl_close_end (pl_run_from (pl_run evs1) evs2) x d = (pl_run_from (pl_run evs1) evs2, []).
Proof.
  intro D. destruct (done_from _ evs2 x (Inv_run evs1) D) as [_ Nn]. unfold pl_close_end.
  destruct (pl_mem (pl_closing (pl_run_from (pl_run evs1) evs2)) x) eqn:M; [|reflexivity].
  exfalso. apply Nn. apply pl_mem_In. exact M.
Qed.

(* the callback that does run leaves the connection done_with *)
Theorem callback_finishes evs x d q o : In x (pl_closing (pl_run evs)) -> pl_close_end (pl_run evs) x d = (q, o) -> done_with q x.
Proof.
  intros Hin H. pose proof (Inv_run evs) as I. pose proof (closing_nodup evs) as N.
  destruct (inv_closing _ I x Hin) as [Hm Cl].
  assert (S : shut (pl_run evs) x = true).
  { unfold shut, shut_in. unfold pl_is_closed in Cl. destruct (pl_find_In_Some _ _ Hm) as [c F]. rewrite F in *. exact Cl. }
  assert (E : q = pl_state_of (pl_step (pl_run evs) (PEvCloseEnd x d))) by (unfold pl_state_of; cbn [pl_step]; rewrite H; reflexivity).
  split.
  - rewrite E. apply shut_step; assumption.
  - unfold pl_close_end in H. destruct (pl_mem (pl_closing (pl_run evs)) x) eqn:M.
    + rewrite (on_dropped_closing _ _ _ _ _ H). cbn [pl_upd_closing pl_closing]. apply pl_remove_not_In. exact N.
    + exfalso. apply pl_mem_In in Hin. congruence.
Qed.

Example ex_done : done_with (pl_run ex_evs) 1 /\
  In 1 (pl_closing (pl_run [PEvPick PDialOk; PEvSetCan 0 false; PEvPick PDialOk; PEvCloseBegin 1])).
Proof.
  split; [split|].
  - vm_compute. reflexivity.
  - vm_compute. tauto.
  - vm_compute. auto.
Qed.
