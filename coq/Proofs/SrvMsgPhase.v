(* Proofs/SrvMsgPhase.v - C20: the phases a request goes through, and what each of its frames does. *)
From H2V Require Import Base.Bytes Base.MachineInt Base.Result Gen.GenConsts Impl.ServerConn Spec.Http2Messages
     Proofs.SrvBase Proofs.SrvMsgDefs Proofs.SrvMsgPure Proofs.SrvMsgLoop Proofs.SrvMsgStream.
From Coq Require Import ZArith Lia ZifyN ZifyNat ZifyBool.
Local Open Scope N_scope.

Section Tail.
Variable hstate : Type.
Variable dec_field : hstate -> N -> bytes -> dec_res hstate.
Variable cfg : config.
Notation sconn := (sconn hstate).
Notation tail := (tail dec_field cfg).
Implicit Types c : sconn.

Definition not_rst (fr : sframe) : Prop := sf_kind fr <> KRst.

Lemma handle_state_closed fr s : not_rst fr -> st_state s = SClosed -> handle_state fr s = s.
Proof.
  intros K C. unfold handle_state. destruct (fkind_eqb (sf_kind fr) KRst) eqn:E; [apply fkind_eqb_eq in E; contradiction|].
  rewrite C. reflexivity.
Qed.

(* handleFrame answered with a stream error: RST_STREAM, and the stream is closed *)
Lemma tail_reset c s fr c1 s1 code :
  handle_frame dec_field cfg c s fr = (c1, s1, Some (EReset code)) -> not_rst fr -> st_responded s1 = false ->
  fst (tail c s fr false) = kill c1 (set_state (set_state (set_weReset s1) SClosed) SClosed) code.
Proof.
  intros H K Rp. unfold tail. rewrite H. cbn [write_error reset_stream].
  unfold after_frame. rewrite handle_state_closed by (assumption || reflexivity).
  cbn [st_state set_state sstate_eqb sstate_rank N.eqb andb st_responded set_weReset]. rewrite Rp. cbn [andb].
  reflexivity.
Qed.

(* ... with a connection error: GOAWAY, and the stream loop ends *)
Lemma tail_goaway c s fr c1 s1 code :
  handle_frame dec_field cfg c s fr = (c1, s1, Some (EGoAway code)) -> code <> c_NoError ->
  fst (tail c s fr false) =
  fst (brk (put (write_goaway c1 (st_id s1) code) (set_state (set_state s1 SClosed) SClosed))).
Proof.
  intros H K. unfold tail. rewrite H. cbn [write_error].
  replace (code =? c_NoError) with false by lia. reflexivity.
Qed.

Lemma tail_ok c s fr c1 s1 :
  handle_frame dec_field cfg c s fr = (c1, s1, None) -> tail c s fr false = after_frame cfg c1 s1 fr false.
Proof. intro H. unfold tail. rewrite H. reflexivity. Qed.

(* which frame of a block may meet which stream state *)
Definition shape (iscont es : bool) (state : sstate) (h : hdr) : Prop :=
  (iscont = false /\ state = SIdle /\ hd_headersFinished h = false) \/
  (iscont = true /\ (state = SOpen \/ state = SHalfClosed) /\ hd_headersFinished h = false) \/
  (iscont = false /\ es = true /\ state = SOpen /\ hd_headersFinished h = true /\ hd_prev h = []).

Lemma handle_frame_blk c sid win t0 state h recv iscont es eh frag :
  shape iscont es state h ->
  handle_frame dec_field cfg c (S_of sid win t0 state h recv) (blk_frame iscont sid es eh frag) =
  let '(c1, s1, e) := handle_header_frame dec_field cfg c (S_of sid win t0 state h recv) (blk_frame iscont sid es eh frag) in
  match e with
  | Some e => (c1, s1, Some e)
  | None =>
    if eh then
      let s2 := set_headers_finished s1 (is_nil (st_prev s1)) in
      if negb (is_nil (st_prev s1)) then (c1, s2, Some (EGoAway c_ProtocolError))
      else match validate_request_pseudo_headers s2 with Some e => (c1, s2, Some e) | None => (c1, s2, None) end
    else (c1, s1, None)
  end.
Proof.
  intros [(-> & -> & F) | [(-> & [-> | ->] & F) | (-> & -> & -> & F & P)]];
    unfold handle_frame, verify_state, continuing_headers, blk_frame;
    cbn [st_state S_of sf_kind headers_frame cont_frame fkind_eqb orb andb st_headersFinished sstate_rank N.leb negb sf_flags];
    rewrite ?F; cbn [negb andb orb];
    destruct (handle_header_frame dec_field cfg c _ _) as [[c1 s1] [e|]]; try reflexivity;
    rewrite fl_has_eh; destruct eh; try reflexivity; unfold is_nil; destruct (st_prev s1); reflexivity.
Qed.

End Tail.

(* ---------- phases ---------- *)
Section Phase.
Variable hstate : Type.
Variable dec_field : hstate -> N -> bytes -> dec_res hstate.
Variable enc_field : hstate -> bytes -> bytes -> bool -> bytes * hstate.
Variable enc_set_max : hstate -> N -> hstate.
Variable cfg : config.
Notation sconn := (sconn hstate).
Notation tail := (tail dec_field cfg).
Notation ready := (ready cfg).
Implicit Types c : sconn.

Variable c0 : sconn.
Variable sid : N.
Hypothesis R0 : ready c0 sid.
Let R : ready_sl cfg c0 sid := proj1 R0.

Definition winupd (o : outev) : Prop := match o with OWinUpd _ _ => True | _ => False end.
Definition benign (code : N) (o : outev) : Prop :=
  match o with
  | OWinUpd _ _ => True
  | ORst s cd => s = sid /\ cd = code
  | ORelease s w => s = sid /\ w = true
  | _ => False
  end.
Definition nodisp (o : outev) : Prop := forall rq, o <> ODispatch sid rq.

Definition out_ok (P : outev -> Prop) c : Prop := exists l, sc_out c = l ++ sc_out c0 /\ Forall P l.

Lemma out_ok_weaken (P Q : outev -> Prop) c : (forall o, P o -> Q o) -> out_ok P c -> out_ok Q c.
Proof. intros H (l & E & F). exists l. split; [assumption|]. eapply Forall_impl; eassumption. Qed.

Lemma out_ok_cons (P : outev -> Prop) c c' o : sc_out c' = o :: sc_out c -> P o -> out_ok P c -> out_ok P c'.
Proof. intros E Po (l & El & F). exists (o :: l). split; [rewrite E, El; reflexivity | constructor; assumption]. Qed.

Lemma out_ok_same (P : outev -> Prop) c c' : sc_out c' = sc_out c -> out_ok P c -> out_ok P c'.
Proof. intros E (l & El & F). exists l. split; [rewrite E; assumption | assumption]. Qed.

(* the parts of the connection a request never touches, and the loops: ec is the read loop's expectContinuation *)
Record base (c : sconn) (ec : N) : Prop := mkBase {
  b_closing : sc_closing c = false;
  b_sl : sc_sl_done c = false;
  b_rl : sc_rl_done c = false;
  b_wl : sc_wl_dead c = false;
  b_q : sc_readerQ c = [];
  b_cont : sc_expectCont c = ec;
  b_last : sc_lastID c = sid;
  b_high : sc_highestID c = sid;
  b_gone : sc_gone c = sc_gone c0;
  b_enc : sc_enc c = sc_enc c0;
  b_initWin : sc_initWin c = sc_initWin c0;
  b_cw : sc_clientWindow c = sc_clientWindow c0;
  b_closeRef : sc_closeRef c = sc_closeRef c0;
  b_closer : sc_closer c = sc_closer c0;
  b_now : sc_now c = sc_now c0
}.

(* the stream is in the table (at its end), nothing has been said about it to the peer *)
Record alive_core (c : sconn) (ec : N) (s : stream) (d : hstate) : Prop := mkAlive {
  al_base : base c ec;
  al_strms : sc_strms c = sc_strms c0 ++ [s];
  al_dec : sc_dec c = d;
  al_ring : sc_ring c = sc_ring c0;
  al_oldest : sc_oldest c = sc_oldest c0;
  al_open : sc_open c = (sc_open c0 + 1)%Z;
  al_out : out_ok winupd c
}.
Definition alive c ec s d : Prop := alive_core c ec s d /\ sc_discardID c <> sid.

(* what has been sent since c0: RST_STREAM(code) for the stream, its release, and window updates *)
Definition dout (code : N) c : Prop :=
  exists l, sc_out c = l ++ sc_out c0 /\ Forall (benign code) l /\ In (ORst sid code) l.

(* the stream has been reset by the server: out of the table, remembered in the ring *)
Record dead (c : sconn) (ec : N) (code : N) (d : hstate) : Prop := mkDead {
  de_base : base c ec;
  de_strms : sc_strms c = sc_strms c0;
  de_ring : ring_find c sid = Some true;
  de_dec : sc_dec c = d;
  de_open : sc_open c = sc_open c0;
  de_out : dout code c
}.

(* the stream loop has ended *)
Definition gone c : Prop := sc_sl_done c = true /\ out_ok nodisp c.

Lemma winupd_nodisp o : winupd o -> nodisp o.
Proof. destruct o; cbn; try contradiction. intros _ rq. discriminate. Qed.
Lemma benign_nodisp code o : benign code o -> nodisp o.
Proof. destruct o; cbn; try contradiction; intros _ rq; discriminate. Qed.
Lemma winupd_benign code o : winupd o -> benign code o.
Proof. destruct o; cbn; try contradiction. auto. Qed.

(* base only looks at fields that these updates leave alone *)
Lemma base_same c c' ec :
  sc_closing c' = sc_closing c -> sc_sl_done c' = sc_sl_done c -> sc_rl_done c' = sc_rl_done c ->
  sc_wl_dead c' = sc_wl_dead c -> sc_readerQ c' = sc_readerQ c -> sc_expectCont c' = sc_expectCont c ->
  sc_lastID c' = sc_lastID c -> sc_highestID c' = sc_highestID c -> sc_gone c' = sc_gone c -> sc_enc c' = sc_enc c ->
  sc_initWin c' = sc_initWin c -> sc_clientWindow c' = sc_clientWindow c -> sc_closeRef c' = sc_closeRef c ->
  sc_closer c' = sc_closer c -> sc_now c' = sc_now c ->
  base c ec -> base c' ec.
Proof. intros. destruct H14. constructor; congruence. Qed.

Ltac base_tac := eapply base_same; [..|eassumption]; try reflexivity; sc_rw; try reflexivity.

Let l0 := sc_strms c0.
Let win := sc_initWin c0.
Let t0 := sc_now c0.

Lemma sid_nz' : sid <> 0.
Proof. destruct R. intro E. subst. discriminate. Qed.

Lemma alive_core_dd c ec s d d' a b n : alive_core c ec s d -> alive_core (upd_discard (upd_dec c d') a b n) ec s d'.
Proof.
  intros []. constructor; sc_cbn; try assumption; try reflexivity. base_tac.
Qed.

Lemma alive_core_dec c ec s d d' : alive_core c ec s d -> alive_core (upd_dec c d') ec s d'.
Proof.
  intros []. constructor; sc_cbn; try assumption; try reflexivity. base_tac.
Qed.

Lemma alive_core_put c ec s d s' : alive_core c ec s d -> st_id s = sid -> st_id s' = sid -> alive_core (put c s') ec s' d.
Proof.
  intros [] I I'. constructor; sc_rw; try assumption.
  - base_tac.
  - rewrite sc_strms_put, al_strms0. apply put_snoc; [rewrite I; apply (rd_table _ _ _ _ R) | congruence].
Qed.

(* window updates are the only thing sent while a request is being received *)
Lemma out_ok_emit (P : outev -> Prop) c o :
  sc_sl_done c = false -> P o -> out_ok P c -> out_ok P (emit c o).
Proof.
  intros S Po (l & E & F). rewrite (emit_eq _ c o). unfold out_ok. sc_cbn. rewrite sc_out_emit, S.
  destruct (sc_wl_dead c); [exists l; auto | exists (o :: l)]. split; [rewrite E; reflexivity | constructor; assumption].
Qed.

Lemma credit_quiet (P : outev -> Prop) c n :
  (forall a b, P (OWinUpd a b)) -> sc_sl_done c = false -> out_ok P c -> out_ok P (credit_conn_window cfg c n).
Proof.
  intros HP S O. unfold credit_conn_window. destruct (n <=? 0)%Z; [assumption|].
  destruct (_ <? _)%Z.
  - unfold write_window_update. apply out_ok_emit; [exact S | apply HP |]. eapply out_ok_same; [|eassumption]. reflexivity.
  - eapply out_ok_same; [|eassumption]. reflexivity.
Qed.

Lemma consume_quiet (P : outev -> Prop) c s fr n :
  (forall a b, P (OWinUpd a b)) -> sc_sl_done c = false -> out_ok P c -> out_ok P (consume_recv_window cfg c s fr n).
Proof.
  intros HP S O. unfold consume_recv_window. destruct (n <=? 0)%Z; [assumption|].
  apply credit_quiet; [assumption | |].
  - destruct (flag_has _ _); [assumption|]. unfold write_window_update. rewrite sc_sl_done_emit. assumption.
  - destruct (flag_has _ _); [assumption|]. unfold write_window_update. apply out_ok_emit; auto.
Qed.

Lemma alive_core_consume c ec s d s1 fr n :
  alive_core c ec s d -> alive_core (consume_recv_window cfg c s1 fr n) ec s d.
Proof.
  intros []. constructor; sc_rw; try assumption.
  - base_tac.
  - apply consume_quiet; [intros; exact I | destruct al_base0; assumption | assumption].
Qed.

(* RST_STREAM: the stream leaves the table and is remembered *)
Lemma kill_dead c ec s d sX code :
  alive_core c ec s d -> st_id s = sid -> st_id sX = sid -> st_weReset sX = true -> st_handlerRunning sX = false ->
  st_orig sX = KHeaders ->
  dead (kill c sX code) ec code d.
Proof.
  intros [] I IX W H O. pose proof al_base0 as B. destruct B.
  assert (OUT : sc_out (kill c sX code) = ORelease sid true :: ORst sid code :: sc_out c).
  { rewrite <- IX. apply kill_out; assumption. }
  constructor.
  - unfold kill. base_tac. rewrite sc_gone_close_stream, H. sc_rw. reflexivity.
  - apply (kill_strms _ c (sc_strms c0) s sX code al_strms0); [rewrite I; apply (rd_table _ _ _ _ R) | congruence].
  - pose proof (kill_ring _ dec_field enc_set_max c sX code) as K. rewrite IX in K. apply K; [| |assumption].
    + rewrite in_ring_eq, al_ring0, <- in_ring_eq. apply (rd_ring _ _ _ _ R).
    + rewrite al_oldest0. apply (rd_oldest _ _ _ _ R).
  - unfold kill. sc_rw. assumption.
  - rewrite kill_open by assumption. lia.
  - destruct al_out0 as (l & E & F). exists (ORelease sid true :: ORst sid code :: l). split; [|split].
    + rewrite OUT, E. reflexivity.
    + constructor; [cbn; auto|]. constructor; [cbn; auto|]. eapply Forall_impl; [|exact F]. apply winupd_benign.
    + right. left. reflexivity.
Qed.

(* the discard registers after kill *)
Lemma kill_discard c sX code :
  st_weReset sX = true ->
  (sc_discardID (kill c sX code), sc_discardPrev (kill c sX code), sc_discardFields (kill c sX code)) =
  if negb (st_headersFinished sX) && negb (sc_discardID c =? st_id sX)
  then (st_id sX, st_prev sX, st_blockFields sX) else (sc_discardID c, sc_discardPrev c, sc_discardFields c).
Proof.
  intro W. unfold kill. rewrite close_stream_eq. cbv zeta. unfold close_discard. rewrite W. cbn [andb].
  sc_rw. destruct (negb (st_headersFinished sX) && negb (sc_discardID c =? st_id sX))%bool;
    destruct (st_handlerRunning sX); unfold release_stream, note; sc_split_ifs; sc_cbn; sc_rw; reflexivity.
Qed.

(* GOAWAY: the stream loop ends *)
Lemma gone_brk c ec s d x code sY :
  alive_core c ec s d -> gone (fst (brk (put (write_goaway c x code) sY))).
Proof.
  intros []. destruct al_base0. split; [reflexivity|].
  destruct al_out0 as (l & E & F).
  exists (OExit 1 0 :: OGoAway (sc_lastID c) code :: l). split.
  - rewrite sc_out_brk. sc_rw. rewrite sc_out_write_goaway, b_wl0, b_sl0, E. reflexivity.
  - constructor; [intros rq; discriminate|]. constructor; [intros rq; discriminate|].
    eapply Forall_impl; [|exact F]. apply winupd_nodisp.
Qed.

(* ---------- after_frame on a stream that has not been answered ---------- *)
(* the content-length check at the end of the stream *)
Definition cl_okZ (st : vst) (recv : Z) : bool := negb (v_has st && negb (recv =? v_cl st)%Z).

(* the stream as the handler sees it start *)
Definition D_of (h : hdr) (recv : Z) : stream := set_flags (S_of sid win t0 SHalfClosed h recv) true true false.

Lemma after_frame_continue c state h recv fr :
  handle_state fr (S_of sid win t0 state h recv) = S_of sid win t0 SOpen h recv ->
  fst (after_frame cfg c (S_of sid win t0 state h recv) fr false) = put c (S_of sid win t0 SOpen h recv).
Proof. intro H. unfold after_frame. rewrite H. reflexivity. Qed.

Lemma after_frame_block c state h recv fr :
  handle_state fr (S_of sid win t0 state h recv) = S_of sid win t0 SHalfClosed h recv -> hd_headersFinished h = false ->
  fst (after_frame cfg c (S_of sid win t0 state h recv) fr false) = put c (S_of sid win t0 SHalfClosed h recv).
Proof.
  intros H F. unfold after_frame. rewrite H.
  cbn [st_state S_of st_headersFinished st_responded]. rewrite F.
  change (sstate_eqb SHalfClosed SHalfClosed) with true. change (sstate_eqb SHalfClosed SClosed) with false.
  reflexivity.
Qed.

Lemma after_frame_finish_gen c s fr s1 :
  handle_state fr s = s1 -> st_state s1 = SHalfClosed -> st_headersFinished s1 = true -> st_responded s1 = false ->
  fst (after_frame cfg c s fr false) =
  if st_hasCL s1 && negb (st_recvBody s1 =? st_contentLength s1)%Z
  then kill c (set_state (set_weReset (set_flags s1 true (st_handlerRunning s1) (st_abandoned s1))) SClosed) c_ProtocolError
  else put (note c (ODispatch (st_id s1) (st_req s1)))
           (set_flags (set_flags s1 true (st_handlerRunning s1) (st_abandoned s1)) true true (st_abandoned s1)).
Proof.
  intros H S F Rp. unfold after_frame. rewrite H, S, F, Rp.
  change (sstate_eqb SHalfClosed SHalfClosed) with true. cbn [andb negb].
  cbn [st_hasCL st_recvBody st_contentLength set_flags st_id st_req st_abandoned st_handlerRunning].
  destruct (st_hasCL s1 && negb (st_recvBody s1 =? st_contentLength s1)%Z)%bool.
  - cbn [st_state set_state]. change (sstate_eqb SClosed SClosed) with true. cbv iota. unfold kill.
    cbn [st_id set_state set_weReset fst cont andb]. reflexivity.
  - cbn [st_state set_flags]. rewrite S. change (sstate_eqb SHalfClosed SClosed) with false. reflexivity.
Qed.

Lemma after_frame_finish c state h recv fr :
  handle_state fr (S_of sid win t0 state h recv) = S_of sid win t0 SHalfClosed h recv -> hd_headersFinished h = true ->
  fst (after_frame cfg c (S_of sid win t0 state h recv) fr false) =
  if cl_okZ (vabs h) recv
  then put (note c (ODispatch sid (hd_req h))) (D_of h recv)
  else kill c (set_state (set_weReset (set_flags (S_of sid win t0 SHalfClosed h recv) true false false)) SClosed) c_ProtocolError.
Proof.
  intros H F. rewrite (after_frame_finish_gen c _ fr _ H eq_refl F eq_refl).
  change (st_handlerRunning (S_of sid win t0 SHalfClosed h recv)) with false.
  change (st_abandoned (S_of sid win t0 SHalfClosed h recv)) with false.
  change (st_id (S_of sid win t0 SHalfClosed h recv)) with sid.
  change (st_req (S_of sid win t0 SHalfClosed h recv)) with (hd_req h).
  change (st_hasCL (S_of sid win t0 SHalfClosed h recv)) with (hd_hasCL h).
  change (st_recvBody (S_of sid win t0 SHalfClosed h recv)) with recv.
  change (st_contentLength (S_of sid win t0 SHalfClosed h recv)) with (hd_contentLength h).
  unfold cl_okZ, vabs, D_of. cbn [v_has v_cl].
  destruct (hd_hasCL h && negb (recv =? hd_contentLength h)%Z)%bool; cbn [negb]; reflexivity.
Qed.

(* ---------- handle_state on our frames ---------- *)
Definition next_state (iscont es : bool) (state : sstate) : sstate :=
  if iscont then state else if es then SHalfClosed else SOpen.

Lemma handle_state_blk iscont es eh frag state h recv h' :
  shape iscont es state h ->
  handle_state (blk_frame iscont sid es eh frag) (S_of sid win t0 state h' recv) =
  S_of sid win t0 (next_state iscont es state) h' recv.
Proof.
  intros [(-> & -> & _) | [(-> & [-> | ->] & _) | (-> & -> & -> & _)]];
    unfold handle_state, blk_frame, next_state;
    cbn [sf_kind headers_frame cont_frame fkind_eqb st_state S_of set_state sf_flags orb andb];
    rewrite ?fl_has_es; try reflexivity.
  destruct es; reflexivity.
Qed.

Lemma handle_state_data es dt h recv :
  handle_state (data_frame sid es dt) (S_of sid win t0 SOpen h recv) = S_of sid win t0 (if es then SHalfClosed else SOpen) h recv.
Proof.
  unfold handle_state. cbn [sf_kind data_frame fkind_eqb st_state S_of set_state sf_flags orb andb].
  rewrite fl_has_es. destruct es; reflexivity.
Qed.

Lemma list_over_0 : list_over cfg 0 = false.
Proof. unfold list_over. lia. Qed.

(* ---------- the phases of a request ---------- *)
Inductive phase : Type :=
| PhBlock (state : sstate) (st : vst) (size : Z) (nf : N) (carry : bytes) (rq : request) (recv : Z) (d : hstate)
| PhBody (st : vst) (size : Z) (nf : N) (rq : request) (recv : Z) (d : hstate)
| PhDisp (st : vst) (size : Z) (nf : N) (rq : request) (recv : Z) (d : hstate)
| PhDeadBlock (code : N) (carry : bytes) (nf : N) (d : hstate)
| PhDead (code : N) (d : hstate)
| PhGone.

Definition holds (c : sconn) (ec : N) (ph : phase) : Prop :=
  match ph with
  | PhBlock state st size nf carry rq recv d =>
    alive c ec (S_of sid win t0 state (H_of false carry st size nf rq) recv) d /\
    (state = SOpen \/ state = SHalfClosed) /\ list_over cfg size = false
  | PhBody st size nf rq recv d =>
    alive c ec (S_of sid win t0 SOpen (H_of true [] st size nf rq) recv) d /\ v_valid st = true /\ list_over cfg size = false
  | PhDisp st size nf rq recv d =>
    base c ec /\ sc_strms c = sc_strms c0 ++ [D_of (H_of true [] st size nf rq) recv] /\ sc_dec c = d /\
    sc_ring c = sc_ring c0 /\ sc_open c = (sc_open c0 + 1)%Z /\
    exists l, sc_out c = ODispatch sid rq :: l ++ sc_out c0 /\ Forall winupd l
  | PhDeadBlock code carry nf d =>
    dead c ec code d /\ sc_discardID c = sid /\ sc_discardPrev c = carry /\ sc_discardFields c = nf
  | PhDead code d => dead c ec code d
  | PhGone => gone c
  end.

Definition rejected (ph : phase) : Prop :=
  match ph with PhDeadBlock _ _ _ _ | PhDead _ _ | PhGone => True | _ => False end.

(* ---------- one frame of a header block, for a stream that is alive ---------- *)
Lemma shape_Htr iscont es state h : shape iscont es state h -> hd_headersFinished h = true -> iscont = false /\ es = true.
Proof. intros [(_ & _ & F) | [(_ & _ & F) | (A & B & _)]]; [congruence | congruence | auto]. Qed.

Lemma blk_not_rst iscont es eh frag : not_rst (blk_frame iscont sid es eh frag).
Proof. unfold not_rst, blk_frame. destruct iscont; discriminate. Qed.

Lemma blk_err c ec state h recv d iscont es eh frag fs d' n' carry e :
  let s := S_of sid win t0 state h recv in
  let fr := blk_frame iscont sid es eh frag in
  let n0 := if iscont then hd_blockFields h else 0 in
  alive c ec s d -> shape iscont es state h ->
  frag_dec dec_field eh d n0 (hd_prev h ++ frag) fs d' n' carry ->
  fields_loop cfg (start_hdr h n0) fs = inl e ->
  let c' := fst (tail c s fr false) in
  match e with
  | EReset code =>
    holds c' ec (if eh then PhDead code d' else if list_over cfg (Z.of_N (len carry)) then PhGone else PhDeadBlock code carry n' d')
  | EGoAway code => code <> c_NoError -> holds c' ec PhGone
  | EPanic => True
  end.
Proof.
  intros s fr n0 AL SH Hdec F c'. destruct AL as [AC DI].
  assert (Hdec' : frag_dec dec_field eh (sc_dec c) n0 (hd_prev h ++ frag) fs d' n' carry)
    by (destruct AC; rewrite al_dec0; exact Hdec).
  destruct (hhf_err _ dec_field enc_field enc_set_max cfg c sid win t0 state h recv iscont es eh frag fs d' n' carry
                    sid_nz' (shape_Htr _ _ _ _ SH) Hdec' e F)
    as (c1 & h_e & e' & HH & Fe & Pe & M).
  pose proof (handle_frame_blk _ dec_field cfg c sid win t0 state h recv iscont es eh frag SH) as HF.
  fold s fr in HH, HF. rewrite HH in HF.
  destruct e as [code|code|]; [| |exact I].
  - (* connection error *)
    destruct M as [-> (d1 & ->)]. intro NE. cbn [holds]. unfold c'. rewrite (tail_goaway _ dec_field cfg _ _ _ _ _ _ HF NE).
    apply (gone_brk _ ec s d1). apply (alive_core_dec c ec s d d1 AC).
  - destruct M as [-> ->].
    assert (AC1 : alive_core (upd_discard (upd_dec c d') (if eh then 0 else sid) (if eh then [] else carry) n') ec s d')
      by (apply (alive_core_dd c ec s d); exact AC).
    pose (c1 := upd_discard (upd_dec c d') (if eh then 0 else sid) (if eh then [] else carry) n').
    fold c1 in AC1, HF.
    set (sX := set_state (set_state (set_weReset (S_of sid win t0 state h_e recv)) SClosed) SClosed).
    assert (KD : forall cd, dead (kill c1 sX cd) ec cd d') by (intro cd; eapply kill_dead; [exact AC1 | reflexivity..]).
    pose proof (blk_not_rst iscont es eh frag) as NR. fold fr in NR.
    destruct eh.
    + cbn [holds]. unfold c'. rewrite (tail_reset _ dec_field cfg _ _ _ _ _ _ HF NR eq_refl). apply KD.
    + destruct (list_over cfg (Z.of_N (len carry))).
      * cbn [holds]. unfold c'. rewrite (tail_goaway _ dec_field cfg _ _ _ _ _ _ HF ltac:(discriminate)).
        apply (gone_brk _ ec s d'). exact AC1.
      * cbn [holds]. unfold c'. rewrite (tail_reset _ dec_field cfg _ _ _ _ _ _ HF NR eq_refl).
        split; [apply KD|].
        pose proof (kill_discard c1 sX code eq_refl) as KR.
        assert (X : (negb (st_headersFinished sX) && negb (sc_discardID c1 =? st_id sX))%bool = false).
        { unfold c1, sX. sc_cbn. cbn [st_id set_state set_weReset S_of]. rewrite N.eqb_refl. apply andb_false_r. }
        rewrite X in KR.
        pose proof (f_equal (fun t => fst (fst t)) KR) as K1. pose proof (f_equal (fun t => snd (fst t)) KR) as K2.
        pose proof (f_equal snd KR) as K3. cbn [fst snd] in K1, K2, K3. fold sX. rewrite K1, K2, K3. unfold c1. sc_cbn. auto.
Qed.


Lemma validate_S_of state hf prev st size nf rq recv :
  validate_request_pseudo_headers (S_of sid win t0 state (H_of hf prev st size nf rq) recv) =
  if v_valid st then None else Some (EReset c_ProtocolError).
Proof.
  unfold validate_request_pseudo_headers, v_valid. cbn [S_of H_of st_pMethod st_pScheme st_pPath st_path hd_pMethod hd_pScheme hd_pPath hd_path].
  destruct (v_m st), (v_s st), (v_p st); cbn [negb orb andb]; try reflexivity. destruct (v_path st); reflexivity.
Qed.

Lemma next_state_cases iscont es state h :
  shape iscont es state h -> next_state iscont es state = SOpen \/ next_state iscont es state = SHalfClosed.
Proof.
  intros [(-> & -> & _) | [(-> & [-> | ->] & _) | (-> & -> & -> & _)]]; unfold next_state; try destruct es; auto.
Qed.

Lemma alive_put_dec c ec s d d' s' :
  alive c ec s d -> st_id s = sid -> st_id s' = sid -> alive (put (upd_dec c d') s') ec s' d'.
Proof.
  intros [AC DI] I I'. split; [|sc_rw; exact DI].
  apply (alive_core_put _ ec s d'); [apply (alive_core_dec c ec s d); exact AC | assumption | assumption].
Qed.

Lemma blk_ok c ec state h recv d iscont es eh frag fs d' n' carry st' :
  let s := S_of sid win t0 state h recv in
  let fr := blk_frame iscont sid es eh frag in
  let n0 := if iscont then hd_blockFields h else 0 in
  alive c ec s d -> shape iscont es state h ->
  frag_dec dec_field eh d n0 (hd_prev h ++ frag) fs d' n' carry ->
  list_over cfg (hd_headerListSize h + fsize fs) = false ->
  vrun cfg (v_start h) fs = inr st' ->
  let c' := fst (tail c s fr false) in
  let state' := next_state iscont es state in
  let size' := (hd_headerListSize h + fsize fs)%Z in
  let rq' := req_fold (hd_req h) fs in
  holds c' ec
    (if eh then
       if v_valid st' then
         match state' with
         | SHalfClosed => if cl_okZ st' recv then PhDisp st' size' n' rq' recv d' else PhDead c_ProtocolError d'
         | _ => PhBody st' size' n' rq' recv d'
         end
       else PhDead c_ProtocolError d'
     else if list_over cfg (Z.of_N (len carry)) then PhGone else PhBlock state' st' size' n' carry rq' recv d').
Proof.
  intros s fr n0 AL SH Hdec Hs Hv c' state' size' rq'. pose proof AL as [AC DI].
  assert (Hdec' : frag_dec dec_field eh (sc_dec c) n0 (hd_prev h ++ frag) fs d' n' carry)
    by (destruct AC; rewrite al_dec0; exact Hdec).
  pose proof (hhf_ok _ dec_field enc_field enc_set_max cfg c sid win t0 state h recv iscont es eh frag fs d' n' carry
                     sid_nz' (shape_Htr _ _ _ _ SH) Hdec' st' Hs Hv) as HH.
  pose proof (handle_frame_blk _ dec_field cfg c sid win t0 state h recv iscont es eh frag SH) as HF.
  fold s fr size' rq' in HH, HF. rewrite HH in HF.
  pose proof (blk_not_rst iscont es eh frag) as NR. fold fr in NR.
  pose proof (next_state_cases _ _ _ _ SH) as NS. fold state' in NS.
  pose proof (fun h' => handle_state_blk iscont es eh frag state h recv h' SH) as HS. fold fr state' in HS.
  destruct eh.
  - (* END_HEADERS: nothing is carried over *)
    pose proof (frag_dec_eh _ dec_field _ _ _ _ _ _ _ Hdec) as ->.
    change (Z.of_N (len [])) with 0%Z in HF. rewrite list_over_0 in HF.
    cbn [st_prev S_of H_of hd_prev is_nil negb] in HF. rewrite set_headers_finished_S_of in HF.
    change (hdr_fin (H_of false [] st' size' n' rq') true) with (H_of true [] st' size' n' rq') in HF.
    rewrite validate_S_of in HF.
    destruct (v_valid st') eqn:V.
    + pose proof (tail_ok _ dec_field cfg _ _ _ _ _ HF) as T. fold c' in T.
      destruct NS as [NS|NS]; rewrite NS in *.
      * (* the stream stays open: DATA or trailers follow *)
        cbn [holds]. unfold c'. rewrite T, (after_frame_continue _ _ _ _ _ (HS _)).
        split; [|split; [exact V | exact Hs]].
        apply (alive_put_dec c ec s d); [exact AL | reflexivity | reflexivity].
      * (* END_STREAM has been seen: the request is complete *)
        unfold c'. rewrite T, (after_frame_finish _ state (H_of true [] st' size' n' rq') recv fr (HS _) eq_refl). rewrite vabs_H_of.
        destruct (cl_okZ st' recv); cbn [holds].
        -- destruct AC. pose proof al_base0 as B. destruct B. destruct al_out0 as (l & E & F).
           split; [base_tac|]. split.
           { rewrite sc_strms_put. sc_rw. sc_cbn. rewrite al_strms0. apply put_snoc; [apply (rd_table _ _ _ _ R) | reflexivity]. }
           split; [sc_rw; reflexivity|]. split; [sc_rw; sc_cbn; assumption|]. split; [sc_rw; sc_cbn; assumption|].
           exists l. split; [|assumption]. sc_rw. rewrite sc_out_note. sc_cbn. rewrite E. reflexivity.
        -- eapply kill_dead; [apply (alive_core_dec c ec s d); exact AC | reflexivity..].
    + cbn [holds]. unfold c'. rewrite (tail_reset _ dec_field cfg _ _ _ _ _ _ HF NR eq_refl).
      eapply kill_dead; [apply (alive_core_dec c ec s d); exact AC | reflexivity..].
  - destruct (list_over cfg (Z.of_N (len carry))).
    + cbn [holds]. unfold c'. rewrite (tail_goaway _ dec_field cfg _ _ _ _ _ _ HF ltac:(discriminate)).
      apply (gone_brk _ ec s d'). apply (alive_core_dec c ec s d); exact AC.
    + pose proof (tail_ok _ dec_field cfg _ _ _ _ _ HF) as T. cbn [holds]. unfold c'. rewrite T.
      split; [|split; [exact NS | exact Hs]].
      destruct NS as [NS|NS]; rewrite NS in *.
      * rewrite (after_frame_continue _ _ _ _ _ (HS _)). apply (alive_put_dec c ec s d); [exact AL | reflexivity | reflexivity].
      * rewrite (after_frame_block _ state (H_of false carry st' size' n' rq') recv fr (HS _) eq_refl). apply (alive_put_dec c ec s d); [exact AL | reflexivity | reflexivity].
Qed.

(* ---------- DATA ---------- *)
Lemma alive_core_credit c ec s d n : alive_core c ec s d -> alive_core (credit_conn_window cfg c n) ec s d.
Proof.
  intros []. constructor; sc_rw; try assumption.
  - base_tac.
  - apply credit_quiet; [intros; exact I | destruct al_base0; assumption | assumption].
Qed.

Lemma data_step c ec st size nf rq recv d es dt :
  holds c ec (PhBody st size nf rq recv d) ->
  let s := S_of sid win t0 SOpen (H_of true [] st size nf rq) recv in
  let c' := fst (tail c s (data_frame sid es dt) false) in
  let recv' := (recv + Z.of_N (len dt))%Z in
  let rq' := rq_append_body rq dt in
  holds c' ec
    (if body_over cfg recv' then PhDead c_EnhanceYourCalm d
     else if es then (if cl_okZ st recv' then PhDisp st size nf rq' recv' d else PhDead c_ProtocolError d)
     else PhBody st size nf rq' recv' d).
Proof.
  intros (AL & V & LS) s c' recv' rq'. pose proof AL as [AC DI].
  assert (NR : not_rst (data_frame sid es dt)) by discriminate.
  assert (HF : handle_frame dec_field cfg c s (data_frame sid es dt) =
               if body_over cfg recv'
               then (credit_conn_window cfg c (Z.of_N (len dt)), S_of sid win t0 SOpen (H_of true [] st size nf rq) recv', Some (EReset c_EnhanceYourCalm))
               else (consume_recv_window cfg c (S_of sid win t0 SOpen (H_of true [] st size nf rq') recv') (data_frame sid es dt) (Z.of_N (len dt)),
                     S_of sid win t0 SOpen (H_of true [] st size nf rq') recv', None)).
  { unfold handle_frame, verify_state, s. cbn [st_state S_of sf_kind data_frame st_headersFinished H_of hd_headersFinished negb
                                                 sstate_rank N.leb st_recvBody sf_payload sf_len st_req hd_req].
    fold recv'. unfold body_over. destruct ((0 <? cf_maxBody cfg)%Z && (cf_maxBody cfg <? recv')%Z)%bool; reflexivity. }
  destruct (body_over cfg recv').
  - cbn [holds]. unfold c'. rewrite (tail_reset _ dec_field cfg _ _ _ _ _ _ HF NR eq_refl).
    eapply kill_dead; [apply (alive_core_credit c ec s d); exact AC | reflexivity..].
  - pose proof (tail_ok _ dec_field cfg _ _ _ _ _ HF) as T. unfold c'. rewrite T.
    pose proof (handle_state_data es dt (H_of true [] st size nf rq') recv') as HS.
    assert (AC2 : alive_core (consume_recv_window cfg c (S_of sid win t0 SOpen (H_of true [] st size nf rq') recv') (data_frame sid es dt) (Z.of_N (len dt))) ec s d)
      by (apply alive_core_consume; exact AC).
    destruct es.
    + rewrite (after_frame_finish _ SOpen (H_of true [] st size nf rq') recv' _ HS eq_refl). rewrite vabs_H_of.
      destruct (cl_okZ st recv'); cbn [holds].
      * destruct AC2. pose proof al_base0 as B. destruct B. destruct al_out0 as (l & E & F).
        split; [base_tac|]. split.
        { rewrite sc_strms_put. unfold note. sc_cbn. rewrite al_strms0. apply put_snoc; [apply (rd_table _ _ _ _ R) | reflexivity]. }
        split; [unfold put, note; sc_cbn; assumption|]. split; [unfold put, note; sc_cbn; assumption|].
        split; [unfold put, note; sc_cbn; assumption|].
        exists l. split; [|assumption]. unfold put, note. sc_cbn. rewrite E. reflexivity.
      * eapply kill_dead; [exact AC2 | reflexivity..].
    + rewrite (after_frame_continue _ SOpen (H_of true [] st size nf rq') recv' _ HS). cbn [holds].
      split; [|split; assumption]. split.
      * apply (alive_core_put _ ec s d); [exact AC2 | reflexivity | reflexivity].
      * sc_rw. exact DI.
Qed.

(* ---------- frames for the stream once it has been reset ---------- *)
Lemma dead_same c c' ec code d d' :
  sc_closing c' = sc_closing c -> sc_sl_done c' = sc_sl_done c -> sc_rl_done c' = sc_rl_done c ->
  sc_wl_dead c' = sc_wl_dead c -> sc_readerQ c' = sc_readerQ c -> sc_expectCont c' = sc_expectCont c ->
  sc_lastID c' = sc_lastID c -> sc_highestID c' = sc_highestID c -> sc_gone c' = sc_gone c -> sc_enc c' = sc_enc c ->
  sc_initWin c' = sc_initWin c -> sc_clientWindow c' = sc_clientWindow c -> sc_closeRef c' = sc_closeRef c ->
  sc_closer c' = sc_closer c -> sc_now c' = sc_now c ->
  sc_strms c' = sc_strms c -> sc_ring c' = sc_ring c -> sc_dec c' = d' -> sc_open c' = sc_open c ->
  (dout code c -> dout code c') ->
  dead c ec code d -> dead c' ec code d'.
Proof.
  intros. destruct H19. constructor; try congruence; auto.
  - eapply base_same; [..|eassumption]; assumption.
  - rewrite ring_find_eq in *. congruence.
Qed.

Lemma dead_dd c ec code d d' a b n : dead c ec code d -> dead (upd_discard (upd_dec c d') a b n) ec code d'.
Proof. apply dead_same; try reflexivity; auto. Qed.

Lemma dead_credit c ec code d n : dead c ec code d -> dead (credit_conn_window cfg c n) ec code d.
Proof.
  intro D. eapply dead_same; [..|exact D]; sc_rw; try reflexivity.
  - apply (de_dec _ _ _ _ D).
  - intros (l & E & F & I). destruct D as [[] _ _ _ _ _].
    unfold credit_conn_window. destruct (n <=? 0)%Z; [exists l; auto|]. destruct (_ <? _)%Z; [|exists l; auto].
    unfold write_window_update. rewrite (emit_eq _ _ _). sc_cbn. rewrite sc_out_emit. sc_cbn. rewrite b_wl0, b_sl0.
    exists (OWinUpd 0 (cf_maxWindow cfg - (sc_currentWindow c - n)) :: l). split; [rewrite E; reflexivity|].
    split; [constructor; [exact Logic.I | exact F] | right; exact I].
Qed.

Lemma gone_brk_dead c ec code d x cd :
  dead c ec code d -> gone (fst (brk (write_goaway c x cd))).
Proof.
  intros []. destruct de_base0. split; [reflexivity|]. destruct de_out0 as (l & E & F & _).
  exists (OExit 1 0 :: OGoAway (sc_lastID c) cd :: l). split.
  - rewrite sc_out_brk, sc_out_write_goaway, b_wl0, b_sl0, E. reflexivity.
  - constructor; [intros rq; discriminate|]. constructor; [intros rq; discriminate|].
    eapply Forall_impl; [|exact F]. apply benign_nodisp.
Qed.

Lemma dead_data_step c ec code d es dt :
  holds c ec (PhDead code d) ->
  holds (fst (sl_frame dec_field enc_set_max cfg c (data_frame sid es dt))) ec (PhDead code d).
Proof.
  cbn [holds]. intro D.
  rewrite (sl_frame_dead_data _ dec_field enc_field enc_set_max cfg c sid es dt sid_nz').
  - cbn [cont fst]. apply dead_credit. exact D.
  - rewrite (de_strms _ _ _ _ D). apply (rd_table _ _ _ _ R).
  - apply (de_ring _ _ _ _ D).
Qed.

(* a fragment of a block nobody wants *)
Lemma dead_frag c ec code d iscont es eh frag fs d' n' carry :
  dead c ec code d ->
  (iscont = true -> sc_discardID c = sid) ->
  frag_dec dec_field eh d (if iscont then sc_discardFields c else 0) ((if iscont then sc_discardPrev c else []) ++ frag) fs d' n' carry ->
  let c' := fst (discard_or_break (discard_header_block dec_field cfg c (blk_frame iscont sid es eh frag))) in
  holds c' ec (if eh then PhDead code d' else if list_over cfg (Z.of_N (len carry)) then PhGone else PhDeadBlock code carry n' d').
Proof.
  intros D DI Hdec c'.
  set (cA := if iscont then c else upd_discard c (sc_discardID c) [] 0).
  assert (DA : dead cA ec code d).
  { unfold cA. destruct iscont; [exact D|]. eapply dead_same; [..|exact D]; try reflexivity; auto. apply (de_dec _ _ _ _ D). }
  assert (E1 : discard_header_block dec_field cfg c (blk_frame iscont sid es eh frag) =
               discard_fragment dec_field cfg cA sid frag eh).
  { unfold discard_header_block, blk_frame, cA. destruct iscont; cbn [sf_kind cont_frame headers_frame fkind_eqb sf_sid sf_payload sf_flags];
      rewrite fl_has_eh; reflexivity. }
  assert (Hdec' : frag_dec dec_field eh (sc_dec cA) (sc_discardFields cA) (sc_discardPrev cA ++ frag) fs d' n' carry).
  { unfold cA. destruct iscont; sc_cbn; rewrite (de_dec _ _ _ _ D); exact Hdec. }
  unfold c'. rewrite E1, (discard_fragment_ok _ dec_field cfg cA sid frag eh _ _ _ _ Hdec').
  destruct eh.
  - cbn [discard_or_break cont fst holds]. apply (dead_dd cA ec code d). exact DA.
  - destruct (list_over cfg (Z.of_N (len carry))).
    + cbn [discard_or_break write_error fst holds]. apply (gone_brk_dead _ ec code d').
      apply (dead_dd cA ec code d). exact DA.
    + cbn [discard_or_break cont fst holds]. split; [apply (dead_dd cA ec code d); exact DA|]. sc_cbn. auto.
Qed.

End Phase.

Arguments PhBlock {hstate}. Arguments PhBody {hstate}. Arguments PhDisp {hstate}. Arguments PhDeadBlock {hstate}.
Arguments PhDead {hstate}. Arguments PhGone {hstate}.
Arguments holds {hstate}. Arguments alive {hstate}. Arguments alive_core {hstate}. Arguments dead {hstate}.
Arguments gone {hstate}. Arguments dout {hstate}. Arguments base {hstate}. Arguments rejected {hstate}. Arguments out_ok {hstate}.
