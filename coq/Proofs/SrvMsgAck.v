(* Proofs/SrvMsgAck.v - C18 (server): OSettingsAck is emitted by the step that applies a SETTINGS frame and by no other.
   NX c0 c: what c has put out since c0 contains no SETTINGS acknowledgement. *)
From H2V Require Import Base.Bytes Base.MachineInt Base.Result Gen.GenConsts Impl.ServerConn Proofs.SrvBase Proofs.SrvFlowEff.
From Coq Require Import ZArith Lia ZifyN ZifyNat ZifyBool.
Local Open Scope N_scope.

Fixpoint unlate (o : outev) : outev := match o with OLate x => unlate x | _ => o end.
Definition is_ack (o : outev) : bool := match unlate o with OSettingsAck => true | _ => false end.
Definition nack (o : outev) : Prop := is_ack o = false.
Definition acks (l : list outev) : nat := length (filter is_ack l).

Lemma acks_app a b : acks (a ++ b) = (acks a + acks b)%nat.
Proof. unfold acks. rewrite filter_app, app_length. reflexivity. Qed.
Lemma acks_nack l : Forall nack l -> acks l = 0%nat.
Proof. induction 1 as [|o l H _ IH]; [reflexivity|]. unfold acks in *. cbn [filter]. rewrite H. exact IH. Qed.

Section Ack.
Variable hstate : Type.
Variable dec_field : hstate -> N -> bytes -> dec_res hstate.
Variable enc_field : hstate -> bytes -> bytes -> bool -> bytes * hstate.
Variable enc_set_max : hstate -> N -> hstate.
Variable cfg : config.
Notation sconn := (sconn hstate).
Implicit Types c : sconn.

Definition NX c0 c : Prop := exists l, sc_out c = l ++ sc_out c0 /\ Forall nack l.

Lemma NX_refl c : NX c c.
Proof. exists []. split; [reflexivity | constructor]. Qed.
Lemma NX_trans a b c : NX a b -> NX b c -> NX a c.
Proof.
  intros (l1 & E1 & F1) (l2 & E2 & F2). exists (l2 ++ l1). split; [rewrite E2, E1, app_assoc; reflexivity | apply Forall_app; auto].
Qed.
Lemma NX_acks c0 c : NX c0 c -> acks (sc_out c) = acks (sc_out c0).
Proof. intros (l & E & F). rewrite E, acks_app, (acks_nack _ F). reflexivity. Qed.

(* f-style: the state reached by one more operation *)
Lemma NX_same c0 c c' : sc_out c' = sc_out c -> NX c0 c -> NX c0 c'.
Proof. intros E (l & El & F). exists l. split; [rewrite E; exact El | exact F]. Qed.
Lemma NX_emit c0 c o : nack o -> NX c0 c -> NX c0 (emit c o).
Proof.
  intros N1 H. eapply NX_trans; [exact H|]. unfold NX. rewrite sc_out_emit.
  destruct (sc_wl_dead c); [exists []; split; [reflexivity | constructor]|].
  destruct (sc_sl_done c); [exists [OLate o] | exists [o]]; (split; [reflexivity | repeat constructor; exact N1]).
Qed.
Lemma NX_note c0 c o : nack o -> NX c0 c -> NX c0 (note c o).
Proof. intros N1 H. eapply NX_trans; [exact H|]. exists [o]. split; [reflexivity | repeat constructor; exact N1]. Qed.

Ltac nk := first [reflexivity | assumption].
Ltac nx_same := eapply NX_same; [sc_rw; try reflexivity|].

Lemma NX_write_reset c0 c sid code : NX c0 c -> NX c0 (write_reset c sid code).
Proof. apply NX_emit. reflexivity. Qed.
Lemma NX_write_goaway c0 c x code : NX c0 c -> NX c0 (write_goaway c x code).
Proof. intro H. rewrite write_goaway_eq. apply NX_emit; [reflexivity|]. eapply NX_same; [|exact H]. reflexivity. Qed.
Lemma NX_write_error c0 c s e : NX c0 c -> NX c0 (fst (write_error c s e)).
Proof. intro H. rewrite write_error_fst. destruct e, s; auto using NX_write_goaway, NX_write_reset. Qed.
Lemma NX_put c0 c x : NX c0 c -> NX c0 (put c x).
Proof. apply NX_same. reflexivity. Qed.
Lemma NX_mark_closed c0 c id w : NX c0 c -> NX c0 (mark_closed c id w).
Proof. apply NX_same. sc_rw. reflexivity. Qed.
Lemma NX_close_stream c0 c s : NX c0 c -> NX c0 (close_stream c s).
Proof.
  intro H. eapply NX_trans; [exact H|]. unfold NX. rewrite sc_out_close_stream.
  destruct (st_handlerRunning s); [exists [] | exists [ORelease (st_id s) true]]; (split; [reflexivity | repeat constructor]).
Qed.
Lemma NX_release_stream c0 c s : NX c0 c -> NX c0 (release_stream c s).
Proof.
  intro H. eapply NX_trans; [exact H|]. unfold NX. rewrite sc_out_release_stream.
  exists [ORelease (st_id s) true]. split; [reflexivity | repeat constructor].
Qed.
Lemma NX_brk c0 c : NX c0 c -> NX c0 (fst (brk c)).
Proof. intro H. unfold brk. cbn [fst]. apply NX_note; [reflexivity|]. eapply NX_same; [|exact H]. reflexivity. Qed.
Lemma NX_brk_if (b : bool) c0 c : NX c0 c -> NX c0 (fst (if b then brk c else cont c)).
Proof. destruct b; [apply NX_brk | auto]. Qed.

Lemma NX_credit c0 c n : NX c0 c -> NX c0 (credit_conn_window cfg c n).
Proof.
  intro H. unfold credit_conn_window, write_window_update.
  destruct (n <=? 0)%Z; [exact H|]. destruct (_ <? _)%Z.
  - apply NX_emit; [reflexivity|]. eapply NX_same; [|exact H]. reflexivity.
  - eapply NX_same; [|exact H]. reflexivity.
Qed.
Lemma NX_consume c0 c s fr n : NX c0 c -> NX c0 (consume_recv_window cfg c s fr n).
Proof.
  intro H. unfold consume_recv_window, write_window_update. destruct (n <=? 0)%Z; [exact H|].
  apply NX_credit. destruct (flag_has _ _); [exact H | apply NX_emit; [reflexivity | exact H]].
Qed.

Lemma NX_close_all ids : forall c0 c, NX c0 c -> NX c0 (close_all c ids).
Proof.
  induction ids as [|id t IH]; intros c0 c H; cbn [close_all]; [exact H|].
  destruct (strms_search (sc_strms c) id); apply IH; [apply NX_close_stream|]; exact H.
Qed.

Lemma NX_send_data_loop fuel : forall c0 c sid n, NX c0 c -> NX c0 (fst (fst (fst (send_data_loop fuel c sid n)))).
Proof.
  induction fuel as [|fuel IH]; intros c0 c sid n H; cbn [send_data_loop]; [exact H|].
  assert (GO : forall c1 n0, NX c0 c1 -> NX c0 (fst (fst (fst
       (let avail := zmin (sn_window n0) (sc_clientWindow c1) in
        if (avail <=? 0)%Z then (c1, n0, false, false)
        else
          let step := zmin (zmin (Z.of_N maxDataFrameSize) avail) (Z.of_N (len (sn_pending n0))) in
          let chunk := takeN (Z.to_N step) (sn_pending n0) in
          let rest := dropN (Z.to_N step) (sn_pending n0) in
          let e := sn_pendingEnd n0 && match rest with [] => true | _ => false end in
          let c2 := emit c1 (OData sid e chunk) in
          let c3 := upd_clientWindow c2 (sc_clientWindow c2 - step) in
          let n' := mkSnd (sn_window n0 - step) rest (sn_pendingEnd n0) (sn_bodyStream n0) (sn_bodySize n0) (sn_bodyRead n0) in
          if e then (c3, n', true, false) else send_data_loop fuel c3 sid n'))))).
  { intros c1 n0 H1. cbv zeta. destruct (_ <=? 0)%Z; [exact H1|].
    assert (X : NX c0 (upd_clientWindow (emit c1 (OData sid (sn_pendingEnd n0 && match dropN (Z.to_N (zmin (zmin (Z.of_N maxDataFrameSize) (zmin (sn_window n0) (sc_clientWindow c1))) (Z.of_N (len (sn_pending n0))))) (sn_pending n0) with [] => true | _ => false end) (takeN (Z.to_N (zmin (zmin (Z.of_N maxDataFrameSize) (zmin (sn_window n0) (sc_clientWindow c1))) (Z.of_N (len (sn_pending n0))))) (sn_pending n0))))
                 (sc_clientWindow (emit c1 (OData sid (sn_pendingEnd n0 && match dropN (Z.to_N (zmin (zmin (Z.of_N maxDataFrameSize) (zmin (sn_window n0) (sc_clientWindow c1))) (Z.of_N (len (sn_pending n0))))) (sn_pending n0) with [] => true | _ => false end) (takeN (Z.to_N (zmin (zmin (Z.of_N maxDataFrameSize) (zmin (sn_window n0) (sc_clientWindow c1))) (Z.of_N (len (sn_pending n0))))) (sn_pending n0)))) - zmin (zmin (Z.of_N maxDataFrameSize) (zmin (sn_window n0) (sc_clientWindow c1))) (Z.of_N (len (sn_pending n0)))))).
    { eapply NX_same; [reflexivity|]. apply NX_emit; [reflexivity | exact H1]. }
    destruct (_ && _)%bool; cbn [fst]; [exact X | apply IH; exact X]. }
  destruct (sn_pending n) eqn:EP.
  - destruct (sn_bodyStream n); [|exact H].
    destruct (refill_pending n) as [n1|].
    + destruct (sn_pending n1) eqn:EP1.
      * cbn [fst]. destruct (sn_pendingEnd n1); [apply NX_emit; [reflexivity | exact H] | exact H].
      * rewrite <- EP1. apply GO. exact H.
    + cbn [fst]. apply NX_write_reset. exact H.
  - rewrite <- EP. apply GO. exact H.
Qed.

Lemma NX_send_data c0 c s : NX c0 c -> NX c0 (fst (fst (send_data c s))).
Proof.
  intro H. unfold send_data. pose proof (NX_send_data_loop (send_data_fuel (get_snd s)) c0 c (st_id s) (get_snd s) H) as L.
  destruct (send_data_loop _ c (st_id s) (get_snd s)) as [[[c1 n1] dn] wr]. exact L.
Qed.

Lemma NX_flush_loop ids : forall c0 c done, NX c0 c -> NX c0 (fst (flush_loop c ids done)).
Proof.
  induction ids as [|id t IH]; intros c0 c done H; cbn [flush_loop]; [exact H|].
  destruct (strms_search (sc_strms c) id) as [s|]; [|apply IH; exact H].
  destruct (_ && _)%bool; [|apply IH; exact H].
  pose proof (NX_send_data c0 c s H) as L. destruct (send_data c s) as [[c1 s1] fin]. cbn [fst] in L.
  apply IH. apply NX_put. exact L.
Qed.

Lemma NX_flush_streams c0 c : NX c0 c -> NX c0 (flush_streams c).
Proof.
  intro H. unfold flush_streams. pose proof (NX_flush_loop (map st_id (sc_strms c)) c0 c [] H) as L.
  destruct (flush_loop c (map st_id (sc_strms c)) []) as [c1 done]. cbn [fst] in L. apply NX_close_all. exact L.
Qed.

Lemma NX_implicit_close fuel : forall c0 c sid, NX c0 c -> NX c0 (implicit_close fuel c sid).
Proof.
  induction fuel as [|fuel IH]; intros c0 c sid H; cbn [implicit_close]; [exact H|].
  destruct (sc_strms c) as [|n t]; [exact H|]. destruct (_ && _)%bool; [|exact H].
  apply IH. apply NX_write_reset. apply NX_close_stream. exact H.
Qed.

Lemma NX_close_heads n : forall c0 c, NX c0 c -> NX c0 (close_heads n c).
Proof.
  induction n as [|n IH]; intros c0 c H; cbn [close_heads]; [exact H|].
  destruct (sc_strms c) as [|s t]; [exact H|]. apply IH. apply NX_close_stream. apply NX_write_reset. exact H.
Qed.

Lemma NX_sl_timer c0 c : NX c0 c -> NX c0 (fst (sl_timer cfg c)).
Proof. intro H. unfold sl_timer. destruct (_ <=? 0)%Z; cbn [fst cont]; [exact H | apply NX_close_heads; exact H]. Qed.

Lemma NX_discard_fragment c0 c id frag eh : NX c0 c -> NX c0 (fst (discard_fragment dec_field cfg c id frag eh)).
Proof.
  intro H. unfold discard_fragment.
  destruct (discard_loop dec_field _ eh (sc_dec c) (sc_discardFields c) (sc_discardPrev c ++ frag)) as [[[d' fields] carry] e].
  destruct e; [|destruct eh; [|destruct (_ && _)%bool]]; cbn [fst]; (eapply NX_same; [|exact H]); reflexivity.
Qed.
Lemma NX_discard_header_block c0 c fr : NX c0 c -> NX c0 (fst (discard_header_block dec_field cfg c fr)).
Proof.
  intro H. unfold discard_header_block. apply NX_discard_fragment.
  destruct (fkind_eqb _ _); [exact H | eapply NX_same; [|exact H]; reflexivity].
Qed.
Lemma NX_discard_or_break c0 (r : sconn * option h2err) : NX c0 (fst r) -> NX c0 (fst (discard_or_break r)).
Proof.
  destruct r as [c1 [e|]]; cbn [fst]; intro H; [|exact H].
  destruct e; cbn [discard_or_break]; apply NX_brk; [apply NX_write_goaway | apply NX_write_goaway | apply NX_note; [reflexivity|]];
    exact H.
Qed.

Lemma NX_handle_header_frame c0 c s fr : NX c0 c -> NX c0 (fst (fst (handle_header_frame dec_field cfg c s fr))).
Proof.
  intro H. unfold handle_header_frame.
  destruct (_ && _)%bool; [exact H|]. destruct (_ && _)%bool; [exact H|]. cbv zeta.
  destruct (header_loop dec_field _ cfg _ (sc_dec c) _ _) as [[[d' h2] e] rest].
  destruct e as [[code|code|]|]; cbn [fst]; try (eapply NX_same; [|exact H]; reflexivity).
  - match goal with |- context [discard_fragment dec_field cfg ?cc ?i ?r ?b] =>
      pose proof (NX_discard_fragment c0 cc i r b) as L; destruct (discard_fragment dec_field cfg cc i r b) as [c3 [de|]] end;
      cbn [fst] in *; apply L; (eapply NX_same; [|exact H]); reflexivity.
  - destruct (_ && _)%bool; cbn [fst]; (eapply NX_same; [|exact H]); reflexivity.
Qed.

Lemma NX_handle_frame c0 c s fr : NX c0 c -> NX c0 (fst (fst (handle_frame dec_field cfg c s fr))).
Proof.
  intro H. unfold handle_frame. destruct (verify_state s fr); [exact H|].
  pose proof (NX_handle_header_frame c0 c s fr H) as LH.
  match goal with |- context [match sf_kind fr with KHeaders => ?X | _ => _ end] => set (hb := X) end.
  assert (HH : NX c0 (fst (fst hb))).
  { subst hb. destruct (_ && _)%bool; [exact H|].
    destruct (handle_header_frame dec_field cfg c s fr) as [[c1 s1] e]. cbn [fst] in LH.
    destruct e; [exact LH|]. destruct (flag_has (sf_flags fr) FL_EH); [|exact LH].
    cbv zeta. destruct (negb _); [exact LH|]. destruct (validate_request_pseudo_headers _); exact LH. }
  clearbody hb.
  destruct (sf_kind fr); try exact H; try exact HH;
    repeat match goal with |- context [if ?b then _ else _] => destruct b end; cbn [fst]; try exact H.
  - apply NX_credit. exact H.
  - apply NX_consume. exact H.
Qed.

Lemma NX_after_frame c0 c s fr wc : NX c0 c -> NX c0 (fst (after_frame cfg c s fr wc)).
Proof.
  intro H. unfold after_frame. set (s1 := handle_state fr s). clearbody s1.
  assert (T : forall c2 s2, NX c0 c2 ->
    NX c0 (fst (let c3 := if sstate_eqb (st_state s2) SClosed then close_stream (put c2 s2) s2 else put c2 s2 in
                if wc && can_close_after_goaway c3 then brk c3 else cont c3))).
  { intros c2 s2 H2. cbv zeta. apply NX_brk_if. destruct (sstate_eqb _ _); [apply NX_close_stream|]; apply NX_put; exact H2. }
  destruct (_ && _ && _)%bool.
  - destruct (_ && _)%bool; apply T; [apply NX_write_reset | apply NX_note; [reflexivity|]]; exact H.
  - destruct (_ && _ && _)%bool; [|apply T; exact H].
    pose proof (NX_send_data c0 c s1 H) as L. destruct (send_data c s1) as [[c1 s2] fin]. cbn [fst] in L.
    apply T. exact L.
Qed.

Lemma NX_finish_request c0 c s r : NX c0 c -> NX c0 (fst (fst (finish_request enc_field c s r))).
Proof.
  intro H. unfold finish_request. destruct (response_block enc_field (sc_enc c) r) as [blk e'].
  assert (X : NX c0 (emit (upd_enc c e') (OHeaders (st_id s) (negb match rs_body r with BStream _ _ => true | BBuffered [] => false | BBuffered _ => true end) blk))).
  { apply NX_emit; [reflexivity|]. eapply NX_same; [|exact H]. reflexivity. }
  destruct (negb _); cbn [fst]; [exact X|]. apply NX_send_data. exact X.
Qed.

Lemma NX_sl_done c0 c sid r : NX c0 c -> NX c0 (fst (sl_done enc_field cfg c sid r)).
Proof.
  intro H. unfold sl_done. destruct (take_stream (sc_gone c) sid) as [[s rest]|].
  - cbn [cont fst]. apply NX_release_stream. eapply NX_same; [|exact H]. reflexivity.
  - destruct (strms_search (sc_strms c) sid) as [s|]; [|exact H].
    destruct (negb _); [exact H|].
    pose proof (NX_finish_request c0 c (set_flags s (st_responded s) false (st_abandoned s)) r H) as L.
    destruct (finish_request enc_field c _ r) as [[c1 s2] fin]. cbn [fst] in L.
    apply NX_brk_if. destruct fin; [apply NX_close_stream|]; apply NX_put; exact L.
Qed.

(* ---------- the stream loop, one frame ---------- *)
Definition is_set (fr : sframe) : bool := (sf_sid fr =? 0) && fkind_eqb (sf_kind fr) KSettings.

(* any frame but a SETTINGS frame: no acknowledgement *)
Lemma NX_sl_frame c0 c fr : is_set fr = false -> NX c0 c -> NX c0 (fst (sl_frame dec_field enc_set_max cfg c fr)).
Proof.
  intros NS H. unfold is_set in NS. unfold sl_frame. destruct (sf_sid fr =? 0) eqn:Z0.
  { cbn [andb] in NS. destruct (sf_kind fr); try exact H; try discriminate.
    destruct (_ <? _)%Z; cbn [cont fst]; [apply NX_brk, NX_write_goaway | apply NX_flush_streams];
      (eapply NX_same; [|exact H]); reflexivity. }
  clear NS.
  destruct (_ && _ && _)%bool; [apply NX_discard_or_break, NX_discard_header_block; exact H|].
  cbv zeta.
  assert (TL : forall c2 s, NX c0 c2 -> NX c0 (fst
     (let '(c3, s3, e) := handle_frame dec_field cfg c2 s fr in
      match e with
      | Some e =>
        let '(c4, s4) := write_error c3 (Some s3) e in
        let s5 := match s4 with Some x => set_state x SClosed | None => set_state s3 SClosed end in
        match e with
        | EGoAway code => if negb (code =? c_NoError) then brk (put c4 s5) else after_frame cfg c4 s5 fr (sc_closing c)
        | EReset _ => after_frame cfg c4 s5 fr (sc_closing c)
        | EPanic => brk (note c3 (OPanic 1 0))
        end
      | None => after_frame cfg c3 s3 fr (sc_closing c)
      end))).
  { intros c2 s H2. pose proof (NX_handle_frame c0 c2 s fr H2) as L.
    destruct (handle_frame dec_field cfg c2 s fr) as [[c3 s3] e]. cbn [fst] in L.
    destruct e as [e|]; [|apply NX_after_frame; exact L].
    pose proof (NX_write_error c0 c3 (Some s3) e L) as LE. destruct (write_error c3 (Some s3) e) as [c4 s4]. cbn [fst] in LE.
    destruct e as [code|code|]; [destruct (negb _)| |].
    - apply NX_brk, NX_put. exact LE.
    - apply NX_after_frame. exact LE.
    - apply NX_after_frame. exact LE.
    - apply NX_brk, NX_note; [reflexivity | exact L]. }
  assert (WK : forall c1 s, NX c0 c1 -> NX c0 (fst
     (let pre2 : (sconn * bool) + sconn :=
        if fkind_eqb (sf_kind fr) KHeaders then
          match get_previous_headers (sc_strms c1) with
          | Some p =>
            if negb (st_headersFinished p) then
              let '(c2, p') := write_error c1 (Some p) (EGoAway c_ProtocolError) in
              inl (cont (match p' with Some p' => put c2 p' | None => c2 end))
            else inr (implicit_close (S (length (sc_strms c1))) c1 (st_id s))
          | None => inr (implicit_close (S (length (sc_strms c1))) c1 (st_id s))
          end
        else inr c1 in
      match pre2 with
      | inl r => r
      | inr c2 =>
        let '(c3, s3, e) := handle_frame dec_field cfg c2 s fr in
        match e with
        | Some e =>
          let '(c4, s4) := write_error c3 (Some s3) e in
          let s5 := match s4 with Some x => set_state x SClosed | None => set_state s3 SClosed end in
          match e with
          | EGoAway code => if negb (code =? c_NoError) then brk (put c4 s5) else after_frame cfg c4 s5 fr (sc_closing c)
          | EReset _ => after_frame cfg c4 s5 fr (sc_closing c)
          | EPanic => brk (note c3 (OPanic 1 0))
          end
        | None => after_frame cfg c3 s3 fr (sc_closing c)
        end
      end))).
  { intros c1 s H1. cbv zeta. destruct (fkind_eqb (sf_kind fr) KHeaders); [|apply TL; exact H1].
    destruct (get_previous_headers (sc_strms c1)) as [p|]; [|apply TL, NX_implicit_close; exact H1].
    destruct (negb (st_headersFinished p)); [|apply TL, NX_implicit_close; exact H1].
    cbn [write_error cont fst]. apply NX_put, NX_write_goaway. exact H1. }
  destruct (if sf_sid fr <=? sc_lastID c then strms_search (sc_strms c) (sf_sid fr) else None) as [s|].
  { apply WK. exact H. }
  assert (RF : forall c1 : sconn, NX c0 c1 -> NX c0 (fst (discard_or_break (discard_header_block dec_field cfg
                 (mark_closed (write_reset c1 (sf_sid fr) c_RefusedStreamError) (sf_sid fr) true) fr)))).
  { intros c1 H1. apply NX_discard_or_break, NX_discard_header_block, NX_mark_closed, NX_write_reset. exact H1. }
  destruct (fkind_eqb (sf_kind fr) KRst).
  { destruct (_ && _)%bool; cbn [cont fst]; [apply NX_write_goaway|]; exact H. }
  destruct (in_ring c (sf_sid fr)).
  { destruct (sf_kind fr); repeat match goal with |- context [if ?b then _ else _] => destruct b end; cbn [cont fst];
      first [exact H | apply NX_write_goaway; exact H | apply NX_credit; exact H
             | apply NX_discard_or_break, NX_discard_header_block; exact H]. }
  destruct (fkind_eqb (sf_kind fr) KPriority).
  { destruct (sf_dep fr =? sf_sid fr); cbn [cont fst]; [apply NX_write_reset|]; exact H. }
  destruct (fkind_eqb (sf_kind fr) KHeaders); cbn [andb].
  - destruct (sf_sid fr <=? sc_highestID c); [cbn [cont fst]; apply NX_write_goaway; exact H|].
    assert (HU : NX c0 (upd_highestID c (sf_sid fr))) by (eapply NX_same; [|exact H]; reflexivity).
    destruct (_ || _)%bool; [apply RF; exact HU|].
    destruct (_ <? _); [cbn [cont fst]; apply NX_write_goaway; exact HU|].
    destruct (sc_closing _); [apply RF; exact HU|]. apply WK. eapply NX_same; [|exact HU]. reflexivity.
  - destruct (_ <? _); [cbn [cont fst]; apply NX_write_goaway; exact H|]. apply WK. eapply NX_same; [|exact H]. reflexivity.
Qed.

(* ---------- flushing leaves the encoder, the initial window and the loops alone ---------- *)
Definition ev (c : sconn) := (sc_enc c, sc_initWin c, sc_sl_done c, sc_wl_dead c).

Lemma ev_emit c o : ev (emit c o) = ev c. Proof. unfold ev. sc_rw. reflexivity. Qed.
Lemma ev_put c x : ev (put c x) = ev c. Proof. reflexivity. Qed.
Lemma ev_close_stream c s : ev (close_stream c s) = ev c. Proof. unfold ev. sc_rw. reflexivity. Qed.
Lemma ev_write_reset c sid code : ev (write_reset c sid code) = ev c. Proof. apply ev_emit. Qed.

Lemma ev_close_all ids : forall c, ev (close_all c ids) = ev c.
Proof.
  induction ids as [|id t IH]; intros c; cbn [close_all]; [reflexivity|].
  destruct (strms_search (sc_strms c) id); [rewrite IH, ev_close_stream|rewrite IH]; reflexivity.
Qed.

Lemma ev_send_data c s : ev (fst (fst (send_data c s))) = ev c.
Proof.
  unfold send_data.
  assert (L : forall fuel c sid n, ev (fst (fst (fst (send_data_loop fuel c sid n)))) = ev c).
  { induction fuel as [|fuel IH]; intros c0 sid n; cbn [send_data_loop]; [reflexivity|].
    assert (GO : forall c1 n0, ev (fst (fst (fst
       (let avail := zmin (sn_window n0) (sc_clientWindow c1) in
        if (avail <=? 0)%Z then (c1, n0, false, false)
        else
          let step := zmin (zmin (Z.of_N maxDataFrameSize) avail) (Z.of_N (len (sn_pending n0))) in
          let chunk := takeN (Z.to_N step) (sn_pending n0) in
          let rest := dropN (Z.to_N step) (sn_pending n0) in
          let e := sn_pendingEnd n0 && match rest with [] => true | _ => false end in
          let c2 := emit c1 (OData sid e chunk) in
          let c3 := upd_clientWindow c2 (sc_clientWindow c2 - step) in
          let n' := mkSnd (sn_window n0 - step) rest (sn_pendingEnd n0) (sn_bodyStream n0) (sn_bodySize n0) (sn_bodyRead n0) in
          if e then (c3, n', true, false) else send_data_loop fuel c3 sid n')))) = ev c1).
    { intros c1 n0. cbv zeta. destruct (_ <=? 0)%Z; [reflexivity|].
      destruct (_ && _)%bool; cbn [fst]; [|rewrite IH]; unfold ev; sc_cbn; sc_rw; reflexivity. }
    destruct (sn_pending n) eqn:EP.
    - destruct (sn_bodyStream n); [|reflexivity].
      destruct (refill_pending n) as [n1|].
      + destruct (sn_pending n1) eqn:EP1.
        * cbn [fst]. destruct (sn_pendingEnd n1); [apply ev_emit | reflexivity].
        * rewrite <- EP1. apply GO.
      + cbn [fst]. apply ev_write_reset.
    - rewrite <- EP. apply GO. }
  specialize (L (send_data_fuel (get_snd s)) c (st_id s) (get_snd s)).
  destruct (send_data_loop _ c (st_id s) (get_snd s)) as [[[c1 n1] dn] wr]. exact L.
Qed.

Lemma ev_flush_loop ids : forall c done, ev (fst (flush_loop c ids done)) = ev c.
Proof.
  induction ids as [|id t IH]; intros c done; cbn [flush_loop]; [reflexivity|].
  destruct (strms_search (sc_strms c) id) as [s|]; [|apply IH].
  destruct (_ && _)%bool; [|apply IH].
  pose proof (ev_send_data c s) as L. destruct (send_data c s) as [[c1 s1] fin]. cbn [fst] in L.
  rewrite IH, ev_put. exact L.
Qed.

Lemma ev_flush_streams c : ev (flush_streams c) = ev c.
Proof.
  unfold flush_streams. pose proof (ev_flush_loop (map st_id (sc_strms c)) c []) as L.
  destruct (flush_loop c (map st_id (sc_strms c)) []) as [c1 done]. cbn [fst] in L. rewrite ev_close_all. exact L.
Qed.

(* ---------- the step that applies a SETTINGS frame ---------- *)
(* the new INITIAL_WINDOW_SIZE would push a stream's send window over 2^31-1 *)
Definition overflows c (fr : sframe) : bool :=
  sf_set_haswin fr && snd (bumpall (signed 32 (sf_set_win fr) - sc_initWin c) [] (sc_strms c)).

Definition enc_after c (fr : sframe) : hstate :=
  if sf_set_hastable fr then enc_set_max (sc_enc c) (sf_set_table fr) else sc_enc c.
Definition initWin_after c (fr : sframe) : Z :=
  if sf_set_haswin fr then signed 32 (sf_set_win fr) else sc_initWin c.

Lemma settings_step c fr : is_set fr = true ->
  let c' := fst (sl_frame dec_field enc_set_max cfg c fr) in
  if overflows c fr
  then NX c c' /\ sc_sl_done c' = true
  else sc_enc c' = enc_after c fr /\ sc_initWin c' = initWin_after c fr /\
       sc_sl_done c' = sc_sl_done c /\ sc_wl_dead c' = sc_wl_dead c /\
       exists l, sc_out c' = l ++ sc_out (emit c OSettingsAck) /\ Forall nack l.
Proof.
  unfold is_set. intro IS. apply andb_true_iff in IS. destruct IS as [Z0 K]. apply fkind_eqb_eq in K.
  cbv zeta. rewrite (sl_frame_settings _ dec_field enc_set_max cfg c fr Z0 K). cbv zeta.
  unfold overflows, enc_after, initWin_after.
  set (c0 := settings_c0 enc_set_max c fr).
  assert (E0 : sc_out c0 = sc_out c /\ sc_wl_dead c0 = sc_wl_dead c /\ sc_sl_done c0 = sc_sl_done c /\
               sc_initWin c0 = sc_initWin c /\ sc_strms c0 = sc_strms c /\
               sc_enc c0 = (if sf_set_hastable fr then enc_set_max (sc_enc c) (sf_set_table fr) else sc_enc c)).
  { subst c0. unfold settings_c0. destruct (sf_set_hastable fr); sc_cbn; auto 10. }
  destruct E0 as (O0 & W0 & S0 & I0 & T0 & N0).
  assert (EM : forall c1 : sconn, sc_out c1 = sc_out c -> sc_wl_dead c1 = sc_wl_dead c -> sc_sl_done c1 = sc_sl_done c ->
               sc_out (emit c1 OSettingsAck) = sc_out (emit c OSettingsAck)).
  { intros c1 A B C. rewrite !sc_out_emit, A, B, C. reflexivity. }
  destruct (sf_set_haswin fr); cbn [andb].
  - sc_cbn. rewrite I0, T0.
    destruct (bumpall (signed 32 (sf_set_win fr) - sc_initWin c) [] (sc_strms c)) as [l' over]. cbn [snd].
    destruct over.
    + cbn [fst brk]. split; [|reflexivity]. apply NX_note; [reflexivity|]. eapply NX_same; [reflexivity|].
      apply NX_write_goaway. eapply NX_same; [|apply NX_refl]. sc_cbn. exact O0.
    + cbn [fst cont].
      match goal with |- context [flush_streams ?x] => set (cx := x) end.
      pose proof (ev_flush_streams cx) as EV. unfold ev in EV. inversion EV as [[E1 E2 E3 E4]].
      destruct (NX_flush_streams cx cx (NX_refl cx)) as (l & El & Fl).
      split; [rewrite E1; unfold cx; sc_rw; sc_cbn; exact N0|].
      split; [rewrite E2; unfold cx; sc_rw; sc_cbn; reflexivity|].
      split; [rewrite E3; unfold cx; sc_rw; sc_cbn; exact S0|].
      split; [rewrite E4; unfold cx; sc_rw; sc_cbn; exact W0|].
      exists l. split; [|exact Fl]. rewrite El. f_equal. unfold cx. apply EM; sc_cbn; assumption.
  - cbn [fst cont]. sc_rw. rewrite N0, I0, S0, W0. repeat split; try reflexivity.
    exists []. split; [|constructor]. cbn [app]. apply EM; assumption.
Qed.

End Ack.

Arguments NX {hstate}. Arguments overflows {hstate}. Arguments enc_after {hstate}. Arguments initWin_after {hstate}.
