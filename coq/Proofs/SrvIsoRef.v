(* Proofs/SrvIsoRef.v - C09 (a) / C01 (a), part 1: the reference "decode everything" semantics of a
   header-block fragment, purely over the abstract `dec_field`, and how the two decoding loops of the
   server model (header_loop: decode + validate, stops at the first stream error; discard_loop:
   decode and throw away) relate to it.

   ref_run eh d n b fs d' n' carry
      from decoder state d, with n fields of the block already decoded, the bytes b (carry of the
      previous fragment ++ this fragment) decode to the fields fs, leave the decoder in d', n' fields
      decoded, and `carry` = the bytes of a field cut off by the frame boundary (only when eh = false).
      There is no derivation when the bytes do not decode (COMPRESSION_ERROR) or the decoder panics.
   The relation needs no fuel and is functional (ref_run_det).  No assumption on dec_field is used. *)
From H2V Require Import Base.Bytes Base.MachineInt Base.Result Gen.GenConsts Impl.ServerConn Proofs.SrvBase.
From Coq Require Import ZArith Lia ZifyN ZifyNat ZifyBool.
Local Open Scope N_scope.

Definition hd_set_prev (h : hdr) (p : bytes) : hdr :=
  mkHdr (hd_headersFinished h) p (hd_pMethod h) (hd_pScheme h) (hd_pPath h) (hd_pAuth h)
        (hd_regularSeen h) (hd_contentLength h) (hd_hasCL h) (hd_headerListSize h) (hd_blockFields h)
        (hd_path h) (hd_req h).

Lemma hd_set_prev_same h : hd_set_prev h (hd_prev h ++ []) = h.
Proof. destruct h. unfold hd_set_prev. cbn. rewrite app_nil_r. reflexivity. Qed.

Local Arguments DField {hstate}. Local Arguments DNone {hstate}. Local Arguments DShort {hstate}.
Local Arguments DFail {hstate}. Local Arguments DPanic {hstate}.

Section Ref.
Variable hstate : Type.
Variable dec_field : hstate -> N -> bytes -> dec_res hstate.

(* ---------- the reference ---------- *)
Inductive ref_run (eh : bool) : hstate -> N -> bytes -> list (bytes * bytes) -> hstate -> N -> bytes -> Prop :=
| rr_nil d n : ref_run eh d n [] [] d n []
| rr_none d n b d' : b <> [] -> dec_field d n b = DNone d' -> ref_run eh d n b [] d' n []
| rr_short d n b d' : b <> [] -> eh = false -> dec_field d n b = DShort d' -> ref_run eh d n b [] d' n b
| rr_field d n b k v rest d1 fs d' n' carry :
    b <> [] -> dec_field d n b = DField k v rest d1 -> ref_run eh d1 (n + 1) rest fs d' n' carry ->
    ref_run eh d n b ((k, v) :: fs) d' n' carry.

(* a prefix of a run: some fields decoded, `rest` still to do *)
Inductive ref_pre : hstate -> N -> bytes -> list (bytes * bytes) -> hstate -> N -> bytes -> Prop :=
| rp_nil d n b : ref_pre d n b [] d n b
| rp_field d n b k v rest d1 fs d' n' rest' :
    b <> [] -> dec_field d n b = DField k v rest d1 -> ref_pre d1 (n + 1) rest fs d' n' rest' ->
    ref_pre d n b ((k, v) :: fs) d' n' rest'.

Lemma ref_run_det eh d n b fs1 d1 n1 c1 fs2 d2 n2 c2 :
  ref_run eh d n b fs1 d1 n1 c1 -> ref_run eh d n b fs2 d2 n2 c2 -> fs1 = fs2 /\ d1 = d2 /\ n1 = n2 /\ c1 = c2.
Proof.
  intro H. revert fs2 d2 n2 c2.
  induction H as [d n|d n b d' Hb E|d n b d' Hb He E|d n b k v rest dm fs d' n' carry Hb E H IH];
    intros fs2 d2 n2 c2 H2; inversion H2; subst; try congruence; auto.
  - rewrite E in *. match goal with H : DNone _ = DNone _ |- _ => inversion H end. auto.
  - rewrite E in *. match goal with H : DShort _ = DShort _ |- _ => inversion H end. auto.
  - match goal with H : dec_field d n b = DField _ _ _ _ |- _ => rewrite E in H; inversion H; subst end.
    match goal with H : ref_run _ _ _ _ _ _ _ _ |- _ => destruct (IH _ _ _ _ H) as (-> & -> & -> & ->) end.
    auto.
Qed.

Lemma ref_pre_run eh d n b fs1 d1 n1 rest fs2 d2 n2 carry :
  ref_pre d n b fs1 d1 n1 rest -> ref_run eh d1 n1 rest fs2 d2 n2 carry ->
  ref_run eh d n b (fs1 ++ fs2) d2 n2 carry.
Proof.
  induction 1 as [|d n b k v rest0 dm fs d' n' rest' Hb E H IH]; intro R; [exact R|].
  cbn [app]. eapply rr_field; eauto.
Qed.

Lemma ref_pre_trans d n b fs1 d1 n1 rest fs2 d2 n2 rest2 :
  ref_pre d n b fs1 d1 n1 rest -> ref_pre d1 n1 rest fs2 d2 n2 rest2 -> ref_pre d n b (fs1 ++ fs2) d2 n2 rest2.
Proof.
  induction 1 as [|d n b k v rest0 dm fs d' n' rest' Hb E H IH]; intro R; [exact R|].
  cbn [app]. eapply rp_field; eauto.
Qed.

Lemma ref_pre_snoc d n b fs d1 n1 rest k v rest' d2 :
  ref_pre d n b fs d1 n1 rest -> rest <> [] -> dec_field d1 n1 rest = DField k v rest' d2 ->
  ref_pre d n b (fs ++ [(k, v)]) d2 (n1 + 1) rest'.
Proof.
  intros H Hr E. eapply ref_pre_trans; [exact H|]. eapply rp_field; [exact Hr | exact E | constructor].
Qed.

Lemma ref_run_count eh d n b fs d' n' carry : ref_run eh d n b fs d' n' carry -> n' = n + N.of_nat (length fs).
Proof. induction 1; cbn [length]; lia. Qed.

Lemma ref_pre_count d n b fs d' n' rest : ref_pre d n b fs d' n' rest -> n' = n + N.of_nat (length fs).
Proof. induction 1; cbn [length]; lia. Qed.

(* with END_HEADERS nothing is carried over *)
Lemma ref_run_eh_carry d n b fs d' n' carry : ref_run true d n b fs d' n' carry -> carry = [].
Proof. induction 1; auto; discriminate. Qed.

(* ---------- an executable version (for examples); sound w.r.t. the relation ---------- *)
Inductive ref_res : Type :=
| ROk (fs : list (bytes * bytes)) (d : hstate) (n : N) (carry : bytes)
| RBad     (* the bytes do not decode: COMPRESSION_ERROR *)
| RPanic
| RFuel.
Fixpoint ref_loop (fuel : nat) (eh : bool) (d : hstate) (n : N) (b : bytes) : ref_res :=
  match fuel with
  | O => RFuel
  | S fuel' =>
    match b with
    | [] => ROk [] d n []
    | _ =>
      match dec_field d n b with
      | DNone d' => ROk [] d' n []
      | DShort d' => if eh then RBad else ROk [] d' n b
      | DFail _ => RBad
      | DPanic => RPanic
      | DField k v rest d' =>
        match ref_loop fuel' eh d' (n + 1) rest with
        | ROk fs d'' n'' carry => ROk ((k, v) :: fs) d'' n'' carry
        | r => r
        end
      end
    end
  end.

(* dec_block_ref d n carry fragment eh: decode carry ++ fragment *)
Definition dec_block_ref (d : hstate) (n : N) (carry fragment : bytes) (eh : bool) : ref_res :=
  ref_loop (S (length (carry ++ fragment))) eh d n (carry ++ fragment).

Lemma ref_loop_sound fuel : forall eh d n b fs d' n' carry,
  ref_loop fuel eh d n b = ROk fs d' n' carry -> ref_run eh d n b fs d' n' carry.
Proof.
  induction fuel as [|fuel IH]; intros eh d n b fs d' n' carry; cbn [ref_loop]; [discriminate|].
  destruct b as [|x b]; [intro H; inversion H; subst; constructor|].
  destruct (dec_field d n (x :: b)) as [k v rest d1|d1|d1|d1|] eqn:E; try discriminate.
  - destruct (ref_loop fuel eh d1 (n + 1) rest) as [fs1 d2 n2 c2| | |] eqn:R; try discriminate.
    intro H; inversion H; subst. eapply rr_field; [discriminate | exact E | apply IH; exact R].
  - intro H; inversion H; subst. apply rr_none; [discriminate | exact E].
  - destruct eh; [discriminate|]. intro H; inversion H; subst. apply rr_short; [discriminate | reflexivity | exact E].
Qed.

Lemma dec_block_ref_sound d n carry frag eh fs d' n' carry' :
  dec_block_ref d n carry frag eh = ROk fs d' n' carry' -> ref_run eh d n (carry ++ frag) fs d' n' carry'.
Proof. apply ref_loop_sound. Qed.

(* with enough fuel the function finds the run *)
Lemma ref_loop_complete eh d n b fs d' n' carry :
  ref_run eh d n b fs d' n' carry -> forall fuel, (length fs < fuel)%nat -> ref_loop fuel eh d n b = ROk fs d' n' carry.
Proof.
  induction 1 as [d n|d n b d' Hb E|d n b d' Hb He E|d n b k v rest dm fs d' n' carry Hb E H IH];
    intros [|fuel] Hf; try (cbn [length] in Hf; lia); cbn [ref_loop].
  - reflexivity.
  - destruct b; [congruence|]. rewrite E. reflexivity.
  - destruct b; [congruence|]. rewrite E, He. reflexivity.
  - destruct b; [congruence|]. rewrite E, IH; [reflexivity | cbn [length] in Hf; lia].
Qed.

(* ---------- discard_loop is the reference ---------- *)
Lemma discard_loop_ref fuel : forall eh d n b d' n' carry,
  discard_loop dec_field fuel eh d n b = (d', n', carry, None) ->
  exists fs, ref_run eh d n b fs d' n' carry.
Proof.
  induction fuel as [|fuel IH]; intros eh d n b d' n' carry; cbn [discard_loop]; [discriminate|].
  destruct b as [|x b]; [intro H; inversion H; subst; exists []; constructor|].
  destruct (dec_field d n (x :: b)) as [k v rest d1|d1|d1|d1|] eqn:E; try discriminate.
  - intro H. destruct (IH _ _ _ _ _ _ _ H) as [fs R]. exists ((k, v) :: fs).
    eapply rr_field; [discriminate | exact E | exact R].
  - intro H; inversion H; subst. exists []. apply rr_none; [discriminate | exact E].
  - destruct eh; cbn [negb]; [discriminate|]. intro H; inversion H; subst. exists [].
    apply rr_short; [discriminate | reflexivity | exact E].
Qed.

(* and the other way round, given the fuel *)
Lemma discard_loop_complete eh d n b fs d' n' carry :
  ref_run eh d n b fs d' n' carry -> forall fuel, (length fs < fuel)%nat ->
  discard_loop dec_field fuel eh d n b = (d', n', carry, None).
Proof.
  induction 1 as [d n|d n b d' Hb E|d n b d' Hb He E|d n b k v rest dm fs d' n' carry Hb E H IH];
    intros [|fuel] Hf; try (cbn [length] in Hf; lia); cbn [discard_loop].
  - reflexivity.
  - destruct b; [congruence|]. rewrite E. reflexivity.
  - destruct b; [congruence|]. rewrite E, He. reflexivity.
  - destruct b; [congruence|]. rewrite E. apply IH. cbn [length] in Hf; lia.
Qed.

(* ---------- header_loop: the reference, plus validation of each field ---------- *)
Variable cfg : config.

(* header_field on a list of fields: None as soon as one is refused *)
Fixpoint hfold (h : hdr) (fs : list (bytes * bytes)) : option hdr :=
  match fs with
  | [] => Some h
  | (k, v) :: t => match header_field cfg h k v with inr h' => hfold h' t | inl _ => None end
  end.

Lemma hfold_app h fs1 fs2 : hfold h (fs1 ++ fs2) = match hfold h fs1 with Some h' => hfold h' fs2 | None => None end.
Proof.
  revert h. induction fs1 as [|[k v] t IH]; intro h; cbn [hfold app]; [reflexivity|].
  destruct (header_field cfg h k v); [reflexivity | apply IH].
Qed.

Lemma header_field_inr h k v h' : header_field cfg h k v = inr h' ->
  hd_prev h' = hd_prev h /\ hd_blockFields h' = hd_blockFields h + 1 /\ hd_headersFinished h' = hd_headersFinished h.
Proof.
  unfold header_field.
  repeat match goal with
         | |- context [if ?b then _ else _] => destruct b
         | |- context [match parse_uint ?v with _ => _ end] => destruct (parse_uint v)
         end; intro H; inversion H; subst; cbn; auto.
Qed.

Lemma hfold_frame fs : forall h h', hfold h fs = Some h' ->
  hd_prev h' = hd_prev h /\ hd_blockFields h' = hd_blockFields h + N.of_nat (length fs) /\
  hd_headersFinished h' = hd_headersFinished h.
Proof.
  induction fs as [|[k v] t IH]; intros h h'; cbn [hfold length].
  - intro H; inversion H; subst. repeat split; lia.
  - destruct (header_field cfg h k v) as [|h1] eqn:E; [discriminate|]. intro H.
    destruct (header_field_inr _ _ _ _ E) as (A & B & C). destruct (IH _ _ H) as (A' & B' & C').
    repeat split; try congruence. lia.
Qed.

(* what header_loop did, by outcome:
   - no error: the whole input was decoded as the reference says, every field was accepted;
   - an error raised by header_field (a stream error, or the header-list limit): the reference decoded
     fs ++ [(k, v)] up to `rest`, the fields fs were accepted, (k, v) was refused; h' is the state before (k, v);
   - other errors (does not decode, panic, fuel): nothing is claimed. *)
Definition header_loop_spec (eh : bool) (d : hstate) (h : hdr) (b : bytes)
  (d' : hstate) (h' : hdr) (e : option h2err) (rest : bytes) : Prop :=
  match e with
  | None =>
    exists fs hF carry, ref_run eh d (hd_blockFields h) b fs d' (hd_blockFields h') carry /\
      hfold h fs = Some hF /\ h' = hd_set_prev hF (hd_prev hF ++ carry) /\ rest = []
  | Some e =>
    (exists fs k v, ref_pre d (hd_blockFields h) b (fs ++ [(k, v)]) d' (hd_blockFields h' + 1) rest /\
       hfold h fs = Some h' /\ header_field cfg h' k v = inl e) \/
    (rest = [] /\ match e with EReset _ => False | _ => True end)
  end.

Lemma header_loop_spec_gen fuel : forall eh d0 h0 b0 fs0 d h b d' h' e rest,
  ref_pre d0 (hd_blockFields h0) b0 fs0 d (hd_blockFields h) b -> hfold h0 fs0 = Some h ->
  header_loop dec_field fuel cfg eh d h b = (d', h', e, rest) ->
  header_loop_spec eh d0 h0 b0 d' h' e rest.
Proof.
  induction fuel as [|fuel IH]; intros eh d0 h0 b0 fs0 d h b d' h' e rest P F; cbn [header_loop].
  - intro H; inversion H; subst. right. split; [reflexivity | exact I].
  - destruct b as [|x b].
    + intro H; inversion H; subst. exists fs0, h', []. rewrite hd_set_prev_same.
      repeat split; auto. rewrite <- (app_nil_r fs0). eapply ref_pre_run; [exact P | constructor].
    + destruct (dec_field d (hd_blockFields h) (x :: b)) as [k v rest1 d1|d1|d1|d1|] eqn:E.
      * destruct (header_field cfg h k v) as [e1|h1] eqn:HF.
        -- intro H; inversion H; subst. left. exists fs0, k, v. repeat split; auto.
           eapply ref_pre_snoc; [exact P | discriminate | exact E].
        -- intro H. eapply (IH eh d0 h0 b0 (fs0 ++ [(k, v)])); [| |exact H].
           ++ destruct (header_field_inr _ _ _ _ HF) as (_ & B & _). rewrite B.
              eapply ref_pre_snoc; [exact P | discriminate | exact E].
           ++ rewrite hfold_app, F. cbn [hfold]. rewrite HF. reflexivity.
      * intro H; inversion H; subst. exists fs0, h', []. rewrite hd_set_prev_same. repeat split; auto.
        rewrite <- (app_nil_r fs0). eapply ref_pre_run; [exact P|]. apply rr_none; [discriminate | exact E].
      * destruct eh; cbn [negb].
        -- intro H; inversion H; subst. right. split; [reflexivity | exact I].
        -- intro H; inversion H; subst. exists fs0, h, (x :: b). repeat split; auto.
           rewrite <- (app_nil_r fs0). eapply ref_pre_run; [exact P|]. cbn [hd_blockFields].
           apply rr_short; [discriminate | reflexivity | exact E].
      * intro H; inversion H; subst. right. split; [reflexivity | exact I].
      * intro H; inversion H; subst. right. split; [reflexivity | exact I].
Qed.

Lemma header_loop_ref fuel eh d h b d' h' e rest :
  header_loop dec_field fuel cfg eh d h b = (d', h', e, rest) -> header_loop_spec eh d h b d' h' e rest.
Proof. apply (header_loop_spec_gen fuel eh d h b [] d h b); [constructor | reflexivity]. Qed.

(* the other direction, given the fuel: if the input decodes and every field is accepted, the loop says so *)
Lemma header_loop_complete eh d n b fs d' n' carry :
  ref_run eh d n b fs d' n' carry -> forall h hF fuel, hd_blockFields h = n -> hfold h fs = Some hF ->
  (length fs < fuel)%nat ->
  header_loop dec_field fuel cfg eh d h b = (d', hd_set_prev hF (hd_prev hF ++ carry), None, []).
Proof.
  induction 1 as [d n|d n b d' Hb E|d n b d' Hb He E|d n b k v rest dm fs d' n' carry Hb E H IH];
    intros h hF [|fuel] Hn F Hf; try (cbn [length] in Hf; lia); cbn [header_loop]; cbn [hfold] in F.
  - inversion F; subst. rewrite hd_set_prev_same. reflexivity.
  - inversion F; subst. destruct b; [congruence|]. rewrite E, hd_set_prev_same. reflexivity.
  - inversion F; subst. destruct b; [congruence|]. rewrite E. cbn [negb]. reflexivity.
  - destruct b; [congruence|]. rewrite Hn, E. destruct (header_field cfg h k v) as [|h1] eqn:HF; [discriminate|].
    apply IH; [|exact F|cbn [length] in Hf; lia].
    destruct (header_field_inr _ _ _ _ HF) as (_ & B & _). lia.
Qed.

(* ---------- the key composition: decode-and-validate up to a stream error, then discard the rest
   == discard the whole ---------- *)
Lemma header_then_discard eh d n b fs1 d1 n1 rest fs2 d2 n2 carry :
  ref_pre d n b fs1 d1 n1 rest -> ref_run eh d1 n1 rest fs2 d2 n2 carry ->
  ref_run eh d n b (fs1 ++ fs2) d2 n2 carry.
Proof. apply ref_pre_run. Qed.

End Ref.

Arguments ref_run {hstate}. Arguments ref_pre {hstate}. Arguments ROk {hstate}. Arguments RBad {hstate}.
Arguments RPanic {hstate}. Arguments RFuel {hstate}. Arguments ref_loop {hstate}. Arguments dec_block_ref {hstate}.
