(* Proofs/SrvMsgSettings.v - C18 (server): every SETTINGS frame the read loop hands over is applied and acknowledged
   exactly once, in order, by the stream loop, for every schedule (event list); what the acknowledging step does. *)
From H2V Require Import Base.Bytes Base.MachineInt Base.Result Gen.GenConsts Impl.ServerConn
     Proofs.SrvBase Proofs.SrvFlowEff Proofs.SrvInvFrame Proofs.SrvMsgAck.
From Coq Require Import ZArith Lia ZifyN ZifyNat ZifyBool.
Local Open Scope N_scope.

Section Settings.
Variable hstate : Type.
Variable dec_field : hstate -> N -> bytes -> dec_res hstate.
Variable enc_field : hstate -> bytes -> bytes -> bool -> bytes * hstate.
Variable enc_set_max : hstate -> N -> hstate.
Variable cfg : config.
Notation sconn := (sconn hstate).
Notation step := (step dec_field enc_field enc_set_max cfg).
Notation run_from := (run_from dec_field enc_field enc_set_max cfg).
Implicit Types c : sconn.

(* ---------- the read loop never acknowledges ---------- *)
Lemma NX_rl_exit c0 c why : NX c0 c -> NX c0 (rl_exit c why).
Proof. intro H. unfold rl_exit. apply NX_note; [reflexivity|]. eapply NX_same; [|exact H]. reflexivity. Qed.

Lemma NX_rl_step c i : NX c (rl_step cfg c i).
Proof.
  assert (G : forall c1 x code why, NX c c1 -> NX c (rl_exit (write_goaway c1 x code) why))
    by (intros; apply NX_rl_exit, NX_write_goaway; assumption).
  assert (F : forall c1 fr, NX c c1 -> NX c (forward c1 fr)).
  { intros c1 fr H. unfold forward. destruct (sc_sl_done c1); [apply NX_rl_exit; exact H | eapply NX_same; [|exact H]; reflexivity]. }
  assert (U : forall c1 x, NX c c1 -> NX c (upd_expectCont c1 x)) by (intros; eapply NX_same; [|eassumption]; reflexivity).
  pose proof (NX_refl hstate c) as R.
  unfold rl_step. destruct i as [fr| |[code|]|]; try (apply NX_rl_exit; exact R); try (apply G; exact R).
  2:{ destruct (negb (sc_expectCont c =? 0)); [apply G | ]; exact R. }
  set (r := if negb (sc_expectCont c =? 0) then _ else _).
  assert (Hr : match r with inl c' => NX c c' | inr c1 => NX c c1 end).
  { unfold r. destruct (negb (sc_expectCont c =? 0)).
    - destruct (_ || _)%bool; [apply G; exact R|]. destruct (flag_has _ _); [apply U|]; exact R.
    - destruct (fkind_eqb (sf_kind fr) KCont); [apply G; exact R|]. destruct (_ && _)%bool; [apply U|]; exact R. }
  destruct r as [c'|c1]; [exact Hr|].
  destruct (negb (sf_sid fr =? 0)).
  - destruct (check_frame_with_stream fr).
    + apply NX_rl_exit, NX_write_error. exact Hr.
    + apply F. exact Hr.
  - destruct (sf_kind fr); try (apply G; exact Hr).
    + destruct (negb _); [apply F|]; exact Hr.
    + destruct (negb _); [|exact Hr]. apply NX_emit; [reflexivity | exact Hr].
    + apply NX_rl_exit. exact Hr.
    + destruct (sf_inc fr =? 0); [apply G | apply F]; exact Hr.
Qed.

(* ---------- one step ---------- *)
(* the stream loop is about to take a SETTINGS frame off the queue *)
Definition sl_takes c (e : event) : list sframe :=
  match e with
  | EvSL => if sc_sl_done c then [] else match sc_readerQ c with fr :: _ => if is_set fr then [fr] else [] | [] => [] end
  | _ => []
  end.

(* ... and will apply it (no window overflow) *)
Definition applies c (e : event) : bool :=
  match sl_takes c e with fr :: _ => negb (overflows c fr) | [] => false end.

(* the read loop is about to hand a SETTINGS frame (stream 0, not an ACK) to the stream loop *)
Definition rl_gives c (e : event) : list sframe :=
  match e with
  | EvRL (RFrame fr) =>
    if negb (sc_rl_done c) && is_set fr && negb (flag_has (sf_flags fr) FL_ES) && (sc_expectCont c =? 0) && negb (sc_sl_done c)
    then [fr] else []
  | _ => []
  end.

Lemma overflows_readerQ c q fr : overflows (upd_readerQ c q) fr = overflows c fr.
Proof. reflexivity. Qed.

Lemma sc_out_emit_ack c : sc_sl_done c = false ->
  acks (sc_out (emit c OSettingsAck)) = (acks (sc_out c) + (if sc_wl_dead c then 0 else 1))%nat.
Proof.
  intro S. rewrite sc_out_emit, S. destruct (sc_wl_dead c); [lia|]. unfold acks. cbn [filter is_ack unlate length]. lia.
Qed.

Theorem step_acks c e :
  acks (sc_out (step c e)) = (acks (sc_out c) + (if applies c e && negb (sc_wl_dead c) then 1 else 0))%nat.
Proof.
  assert (Z : forall c', NX c c' -> acks (sc_out c') = (acks (sc_out c) + 0)%nat) by (intros c' H; rewrite (NX_acks _ _ _ H); lia).
  assert (RFL := NX_refl hstate c).
  destruct e; unfold applies, sl_takes.
  - cbn [andb]. rewrite step_EvRL. destruct (sc_rl_done c); apply Z; [exact RFL | apply NX_rl_step].
  - rewrite step_EvSL. destruct (sc_sl_done c) eqn:SD; [cbn [andb]; apply Z; exact RFL|].
    destruct (sc_readerQ c) as [|fr q] eqn:Q.
    + cbn [andb]. apply Z. destruct (sc_rl_done c); [apply NX_note; [reflexivity|]; eapply NX_same; [|exact RFL]; reflexivity | exact RFL].
    + destruct (is_set fr) eqn:IS.
      * pose proof (settings_step _ dec_field enc_set_max cfg (upd_readerQ c q) fr IS) as ST. cbv zeta in ST.
        rewrite overflows_readerQ in ST. destruct (overflows c fr).
        -- cbn [negb andb]. destruct ST as [NXs _]. rewrite (NX_acks _ _ _ NXs). sc_cbn. lia.
        -- cbn [negb andb]. destruct ST as (_ & _ & _ & _ & l & El & Fl).
           rewrite El, acks_app, (acks_nack _ Fl), sc_out_emit_ack by (sc_cbn; exact SD). sc_cbn.
           destruct (sc_wl_dead c); cbn [negb]; lia.
      * cbn [andb]. apply Z. apply NX_sl_frame; [exact IS|]. eapply NX_same; [|exact RFL]. reflexivity.
  - cbn [andb]. rewrite step_EvDone. destruct (sc_sl_done c); apply Z; [exact RFL | apply NX_sl_done; exact RFL].
  - cbn [andb]. rewrite step_EvClock. destruct (_ <? _)%Z; apply Z; [eapply NX_same; [|exact RFL]; reflexivity | exact RFL].
  - cbn [andb]. rewrite step_EvTimer. destruct (sc_sl_done c); apply Z; [exact RFL | apply NX_sl_timer; exact RFL].
  - cbn [andb]. rewrite step_EvIdle. apply Z. eapply NX_same; [reflexivity|]. apply NX_write_goaway. exact RFL.
  - cbn [andb]. rewrite step_EvCloser. destruct (_ && _)%bool; apply Z; [apply NX_brk|]; exact RFL.
  - cbn [andb]. rewrite step_EvWriteFail. apply Z. eapply NX_same; [|exact RFL]. reflexivity.
Qed.

(* ---------- the queue between the loops is first in, first out ---------- *)
Lemma rlview_readerQ (a b : sconn) : rlview hstate a = rlview hstate b -> sc_readerQ a = sc_readerQ b.
Proof. unfold rlview. intro H. inversion H. reflexivity. Qed.

Lemma rlview_wl (a b : sconn) : rlview hstate a = rlview hstate b -> sc_wl_dead a = sc_wl_dead b.
Proof. unfold rlview. intro H. inversion H. reflexivity. Qed.

Lemma filter_snoc_not (f : sframe -> bool) l x : f x = false -> filter f (l ++ [x]) = filter f l.
Proof. intro H. rewrite filter_app. cbn [filter]. rewrite H. apply app_nil_r. Qed.

Lemma rl_step_settings c fr : is_set fr = true ->
  rl_step cfg c (RFrame fr) =
  if negb (sc_expectCont c =? 0) then rl_exit (write_goaway c 0 c_ProtocolError) 1
  else if negb (flag_has (sf_flags fr) FL_ES) then forward c fr else c.
Proof.
  unfold is_set. intro IS. apply andb_true_iff in IS. destruct IS as [Z0 K]. apply fkind_eqb_eq in K.
  unfold rl_step. rewrite K, Z0. cbn [fkind_eqb negb orb andb].
  destruct (negb (sc_expectCont c =? 0)); reflexivity.
Qed.

Theorem step_queue c e :
  filter is_set (sc_readerQ c) ++ rl_gives c e = sl_takes c e ++ filter is_set (sc_readerQ (step c e)).
Proof.
  destruct e; unfold rl_gives, sl_takes; try rewrite app_nil_r; cbn [app].
  - (* the read loop *)
    rewrite step_EvRL. destruct (sc_rl_done c) eqn:RD.
    { destruct i; cbn [negb andb]; rewrite ?app_nil_r; reflexivity. }
    cbn [negb andb].
    destruct i as [fr| |code|];
      try (rewrite app_nil_r;
           match goal with |- _ = filter _ (sc_readerQ (rl_step cfg c ?i)) =>
             destruct (rl_step_eff hstate cfg c i) as [_ [[Q _] | (fr' & E & _)]]; [rewrite Q; reflexivity | discriminate] end).
    destruct (is_set fr) eqn:IS; cbn [andb].
    + rewrite (rl_step_settings c fr IS).
      destruct (flag_has (sf_flags fr) FL_ES); cbn [negb andb].
      { rewrite app_nil_r. destruct (sc_expectCont c =? 0); cbn [negb]; [reflexivity | unfold rl_exit, note; sc_rw; reflexivity]. }
      destruct (sc_expectCont c =? 0); cbn [negb andb]; [|rewrite app_nil_r; unfold rl_exit, note; sc_rw; reflexivity].
      unfold forward. destruct (sc_sl_done c); cbn [negb].
      * rewrite app_nil_r. unfold rl_exit, note. sc_rw. reflexivity.
      * sc_cbn. rewrite filter_app. cbn [filter]. rewrite IS. reflexivity.
    + rewrite app_nil_r.
      destruct (rl_step_eff hstate cfg c (RFrame fr)) as [_ [[Q _] | (fr' & E & Q & _)]]; [rewrite Q; reflexivity|].
      inversion E; subst fr'. rewrite Q, filter_snoc_not by exact IS. reflexivity.
  - (* the stream loop takes the head of the queue *)
    rewrite step_EvSL. destruct (sc_sl_done c); [reflexivity|].
    destruct (sc_readerQ c) as [|fr q] eqn:Q.
    + destruct (sc_rl_done c); [cbn; rewrite Q; reflexivity | rewrite Q; reflexivity].
    + rewrite (rlview_readerQ _ _ (sl_frame_frame hstate dec_field enc_set_max cfg (upd_readerQ c q) fr)). sc_cbn.
      cbn [filter]. destruct (is_set fr); reflexivity.
  - rewrite step_EvDone. destruct (sc_sl_done c); [reflexivity|].
    rewrite (rlview_readerQ _ _ (sl_done_frame hstate enc_field cfg c sid r)). reflexivity.
  - rewrite step_EvClock. destruct (_ <? _)%Z; reflexivity.
  - rewrite step_EvTimer. destruct (sc_sl_done c); [reflexivity|].
    rewrite (rlview_readerQ _ _ (sl_timer_frame hstate cfg c)). reflexivity.
  - rewrite step_EvIdle. sc_cbn. sc_rw. reflexivity.
  - rewrite step_EvCloser. destruct (_ && _)%bool; reflexivity.
  - rewrite step_EvWriteFail. reflexivity.
Qed.

(* ---------- every schedule ---------- *)
Fixpoint forwarded c (evs : list event) : list sframe :=
  match evs with [] => [] | e :: t => rl_gives c e ++ forwarded (step c e) t end.
Fixpoint taken c (evs : list event) : list sframe :=
  match evs with [] => [] | e :: t => sl_takes c e ++ taken (step c e) t end.
Fixpoint applied c (evs : list event) : nat :=
  match evs with [] => 0 | e :: t => ((if applies c e && negb (sc_wl_dead c) then 1 else 0) + applied (step c e) t)%nat end.

(* in order: the frames the stream loop has taken are a prefix of the frames the read loop has forwarded, and the
   rest is waiting in the queue, in order *)
Theorem settings_fifo evs : forall c,
  filter is_set (sc_readerQ c) ++ forwarded c evs = taken c evs ++ filter is_set (sc_readerQ (run_from c evs)).
Proof.
  induction evs as [|e t IH]; intro c; [cbn; rewrite app_nil_r; reflexivity|].
  cbn [forwarded taken]. rewrite run_from_cons, app_assoc, step_queue, <- app_assoc, IH, app_assoc. reflexivity.
Qed.

(* exactly once: one acknowledgement per frame applied, nothing else acknowledges *)
Theorem settings_acks evs : forall c, acks (sc_out (run_from c evs)) = (acks (sc_out c) + applied c evs)%nat.
Proof.
  induction evs as [|e t IH]; intro c; [cbn; lia|].
  rewrite run_from_cons, IH, step_acks. cbn [applied]. lia.
Qed.

(* ---------- while the loops live, every frame taken is applied and acknowledged ---------- *)
Lemma sl_done_mono c e : sc_sl_done c = true -> sc_sl_done (step c e) = true.
Proof.
  intro H. destruct e.
  - rewrite step_EvRL. destruct (sc_rl_done c); [exact H|].
    destruct (rl_step_eff hstate cfg c i) as [[] _]. congruence.
  - rewrite step_EvSL, H. exact H.
  - rewrite step_EvDone, H. exact H.
  - rewrite step_EvClock. destruct (_ <? _)%Z; exact H.
  - rewrite step_EvTimer, H. exact H.
  - rewrite step_EvIdle. sc_cbn. sc_rw. exact H.
  - rewrite step_EvCloser, H. rewrite andb_false_r. exact H.
  - rewrite step_EvWriteFail. exact H.
Qed.

Lemma wl_dead_mono c e : sc_wl_dead c = true -> sc_wl_dead (step c e) = true.
Proof.
  intro H. destruct e.
  - rewrite step_EvRL. destruct (sc_rl_done c); [exact H|].
    destruct (rl_step_eff hstate cfg c i) as [[] _]. congruence.
  - rewrite step_EvSL. destruct (sc_sl_done c); [exact H|]. destruct (sc_readerQ c) as [|fr q] eqn:Q.
    + destruct (sc_rl_done c); exact H.
    + rewrite (rlview_wl _ _ (sl_frame_frame hstate dec_field enc_set_max cfg (upd_readerQ c q) fr)). exact H.
  - rewrite step_EvDone. destruct (sc_sl_done c); [exact H|].
    rewrite (rlview_wl _ _ (sl_done_frame hstate enc_field cfg c sid r)). exact H.
  - rewrite step_EvClock. destruct (_ <? _)%Z; exact H.
  - rewrite step_EvTimer. destruct (sc_sl_done c); [exact H|].
    rewrite (rlview_wl _ _ (sl_timer_frame hstate cfg c)). exact H.
  - rewrite step_EvIdle. sc_cbn. sc_rw. exact H.
  - rewrite step_EvCloser. destruct (_ && _)%bool; exact H.
  - rewrite step_EvWriteFail. reflexivity.
Qed.

Lemma sl_alive_back evs : forall c, sc_sl_done (run_from c evs) = false -> sc_sl_done c = false.
Proof.
  induction evs as [|e t IH]; intros c H; [exact H|]. rewrite run_from_cons in H. specialize (IH _ H).
  destruct (sc_sl_done c) eqn:S; [|reflexivity]. rewrite (sl_done_mono c e S) in IH. discriminate.
Qed.
Lemma wl_alive_back evs : forall c, sc_wl_dead (run_from c evs) = false -> sc_wl_dead c = false.
Proof.
  induction evs as [|e t IH]; intros c H; [exact H|]. rewrite run_from_cons in H. specialize (IH _ H).
  destruct (sc_wl_dead c) eqn:S; [|reflexivity]. rewrite (wl_dead_mono c e S) in IH. discriminate.
Qed.

Theorem applied_all evs : forall c,
  sc_sl_done (run_from c evs) = false -> sc_wl_dead (run_from c evs) = false -> applied c evs = length (taken c evs).
Proof.
  induction evs as [|e t IH]; intros c S W; [reflexivity|].
  cbn [applied taken]. rewrite run_from_cons in S, W. rewrite app_length, (IH _ S W).
  pose proof (sl_alive_back t _ S) as S1. rewrite (wl_alive_back (e :: t) c W). cbn [negb]. rewrite andb_true_r.
  unfold applies. destruct (sl_takes c e) as [|fr l] eqn:T; [reflexivity|].
  assert (L : l = [] /\ e = EvSL /\ sc_sl_done c = false /\ exists q, sc_readerQ c = fr :: q /\ is_set fr = true).
  { unfold sl_takes in T. destruct e; try discriminate. destruct (sc_sl_done c); [discriminate|].
    destruct (sc_readerQ c) as [|f q]; [discriminate|]. destruct (is_set f) eqn:IS; [|discriminate].
    inversion T; subst. eauto 10. }
  destruct L as (-> & -> & SD & q & Q & IS). cbn [length].
  destruct (overflows c fr) eqn:OV; [|reflexivity]. exfalso.
  rewrite step_EvSL, SD, Q in S1.
  pose proof (settings_step _ dec_field enc_set_max cfg (upd_readerQ c q) fr IS) as ST. cbv zeta in ST.
  rewrite overflows_readerQ, OV in ST. destruct ST as [_ ST]. congruence.
Qed.

(* the acknowledgements of a live connection: one per SETTINGS frame taken off the queue; with none waiting, one per
   frame the read loop has accepted *)
Theorem settings_acked_once evs c :
  sc_sl_done (run_from c evs) = false -> sc_wl_dead (run_from c evs) = false ->
  acks (sc_out (run_from c evs)) = (acks (sc_out c) + length (taken c evs))%nat /\
  (length (filter is_set (sc_readerQ c)) + length (forwarded c evs) =
   length (taken c evs) + length (filter is_set (sc_readerQ (run_from c evs))))%nat.
Proof.
  intros S W. split.
  - rewrite settings_acks, (applied_all evs c S W). reflexivity.
  - rewrite <- !app_length, settings_fifo. reflexivity.
Qed.

(* ---------- the acknowledging step (a, d): the values are in force when the ACK is queued ---------- *)
Theorem settings_applied_step c fr q :
  sc_sl_done c = false -> sc_readerQ c = fr :: q -> is_set fr = true -> overflows c fr = false ->
  let c' := step c EvSL in
  sc_enc c' = enc_after enc_set_max c fr /\ sc_initWin c' = initWin_after c fr /\
  sc_sl_done c' = false /\ sc_readerQ c' = q /\
  exists l, sc_out c' = l ++ (if sc_wl_dead c then [] else [OSettingsAck]) ++ sc_out c /\ Forall nack l.
Proof.
  intros SD Q IS OV. cbv zeta. rewrite step_EvSL, SD, Q.
  pose proof (settings_step _ dec_field enc_set_max cfg (upd_readerQ c q) fr IS) as ST. cbv zeta in ST.
  rewrite overflows_readerQ, OV in ST. destruct ST as (E & I & S & W & l & El & Fl).
  split; [exact E|]. split; [exact I|]. split; [rewrite S; exact SD|].
  split; [rewrite (rlview_readerQ _ _ (sl_frame_frame hstate dec_field enc_set_max cfg (upd_readerQ c q) fr)); reflexivity|].
  exists l. split; [|exact Fl]. rewrite El, sc_out_emit. sc_cbn. rewrite SD. destruct (sc_wl_dead c); reflexivity.
Qed.

(* a SETTINGS frame whose INITIAL_WINDOW_SIZE overflows a stream window: GOAWAY, no acknowledgement, the loop ends *)
Theorem settings_overflow_step c fr q :
  sc_sl_done c = false -> sc_readerQ c = fr :: q -> is_set fr = true -> overflows c fr = true ->
  sc_sl_done (step c EvSL) = true /\ acks (sc_out (step c EvSL)) = acks (sc_out c).
Proof.
  intros SD Q IS OV. rewrite step_EvSL, SD, Q.
  pose proof (settings_step _ dec_field enc_set_max cfg (upd_readerQ c q) fr IS) as ST. cbv zeta in ST.
  rewrite overflows_readerQ, OV in ST. destruct ST as [N S]. split; [exact S|]. rewrite (NX_acks _ _ _ N). reflexivity.
Qed.

(* ---------- (b) a frame the parser refuses with an h2 connection error: GOAWAY(code), then the read loop ends ---------- *)
Theorem bad_frame_goaway c code :
  sc_rl_done c = false ->
  let c' := step c (EvRL (RBadFrame (Some code))) in
  sc_rl_done c' = true /\ sc_closing c' = true /\ sc_readerQ c' = sc_readerQ c /\
  sc_out c' = OExit 0 1 :: (if sc_wl_dead c then [] else [if sc_sl_done c then OLate (OGoAway (sc_lastID c) code) else OGoAway (sc_lastID c) code])
              ++ sc_out c.
Proof.
  intro RD. cbv zeta. rewrite step_EvRL, RD. cbn [rl_step]. unfold rl_exit, note. sc_cbn. sc_rw.
  rewrite sc_closing_write_goaway, sc_out_write_goaway. repeat split.
  destruct (sc_wl_dead c); [reflexivity|]. destruct (sc_sl_done c); reflexivity.
Qed.

(* a frame refused without an h2 code (larger than the advertised MAX_FRAME_SIZE, truncated, ...): the read loop
   ends; nothing reaches the stream loop *)
Theorem refused_frame_not_forwarded c o :
  sc_readerQ (step c (EvRL (RBadFrame o))) = sc_readerQ c /\ (sc_rl_done c = false -> sc_rl_done (step c (EvRL (RBadFrame o))) = true).
Proof.
  rewrite step_EvRL. destruct (sc_rl_done c); [split; [reflexivity | discriminate]|].
  destruct o; cbn [rl_step]; unfold rl_exit, note; sc_cbn; sc_rw; split; reflexivity.
Qed.

(* ---------- (c) the response header block goes out as ONE frame, whatever its size ---------- *)
Theorem response_headers_one_frame c sid r s :
  sc_sl_done c = false -> sc_wl_dead c = false ->
  take_stream (sc_gone c) sid = None -> strms_search (sc_strms c) sid = Some s -> st_handlerRunning s = true ->
  In (OHeaders sid (negb match rs_body r with BStream _ _ => true | BBuffered [] => false | BBuffered _ => true end)
               (fst (response_block enc_field (sc_enc c) r)))
     (sc_out (step c (EvDone sid r))).
Proof.
  intros SD WD G T HR. rewrite step_EvDone, SD. unfold sl_done. rewrite G, T, HR. cbn [negb].
  assert (I : st_id s = sid) by (apply strms_search_In in T; apply T).
  set (s1 := set_flags s (st_responded s) false (st_abandoned s)).
  assert (X : forall c1 : sconn, (forall o, In o (sc_out (fst (fst (finish_request enc_field c s1 r)))) -> In o (sc_out c1)) ->
              In (OHeaders sid (negb match rs_body r with BStream _ _ => true | BBuffered [] => false | BBuffered _ => true end)
                           (fst (response_block enc_field (sc_enc c) r))) (sc_out c1)).
  { intros c1 Inc. apply Inc. unfold finish_request. destruct (response_block enc_field (sc_enc c) r) as [blk e'] eqn:RB.
    cbn [fst]. assert (E : In (OHeaders sid (negb match rs_body r with BStream _ _ => true | BBuffered [] => false | BBuffered _ => true end) blk)
                            (sc_out (emit (upd_enc c e') (OHeaders (st_id s1) (negb match rs_body r with BStream _ _ => true | BBuffered [] => false | BBuffered _ => true end) blk)))).
    { rewrite sc_out_emit. sc_cbn. rewrite WD, SD. left. unfold s1. cbn [st_id set_flags]. rewrite I. reflexivity. }
    destruct (negb _); cbn [fst]; [exact E|].
    match goal with |- In _ (sc_out (fst (fst (send_data ?cc ?ss)))) =>
      destruct (NX_send_data hstate cc cc ss (NX_refl hstate cc)) as (l & El & _) end.
    rewrite El. apply in_or_app. right. exact E. }
  destruct (finish_request enc_field c s1 r) as [[c1 s2] fin] eqn:FR. cbn [fst] in X.
  match goal with |- In _ (sc_out (fst (if ?b then brk ?x else cont ?x))) =>
    assert (Y : forall o, In o (sc_out c1) -> In o (sc_out x)) end.
  { intros o Ho. destruct fin.
    - rewrite sc_out_close_stream. destruct (st_handlerRunning (set_state s2 SClosed)); [|apply in_cons]; sc_rw; exact Ho.
    - sc_rw. exact Ho. }
  destruct (_ && _)%bool; cbn [fst brk cont].
  - unfold note. sc_cbn. apply in_cons. apply X. exact Y.
  - apply X. exact Y.
Qed.

End Settings.

Arguments sl_takes {hstate}. Arguments applies {hstate}. Arguments rl_gives {hstate}.
Arguments forwarded {hstate}. Arguments taken {hstate}. Arguments applied {hstate}.
