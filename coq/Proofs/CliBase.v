(* Proofs/CliBase.v - shared base for every proof about Impl/ClientConn.v (the client connection model).
   OWNER: the CliRes agent (C12/C11). Others: APPEND ONLY (at the end, in a new Section), recompile, check nothing breaks.

   Conventions introduced here (they hold in every file that imports CliBase):
   - `hstate` is an IMPLICIT argument of every ClientConn definition of the Section that takes one
     (`cc_ctxs c`, `ccu_out c l`, `cl_note c o`, `cl_step dec_field enc_field enc_set_max cfg c e`,
     `cl_run dec enc sm cfg h0 first evs`, `cl_init sm h0 first`, `cl_trace c`, ...). The type `cconn hstate` keeps it explicit.
     With the instance: `cc_out (c : cst)`, NOT `cc_out hpack_state c` (write `@cc_out hpack_state c` if you must).
   - projection lemmas are named <field>_<function>: `cc_out_ccu_ctxs`, `ct_err_ctu_done`, `pb_id_pbu_body`, `cc_reqQueued_cl_note`,
     `cc_out_cl_resolve`, ...; all of them are in the rewrite database `cc`: `autorewrite with cc` (`cc_rw`, `cc_rw_in H`).
   - `cc_cbn` / `cc_cbn_in H` / `cc_cbn_all`: reduce projections of the generated setters (connection, Ctx, pending body)
     by computation (much cheaper than autorewrite; the setters are transparent).
   - `cc_unf`: unfold the small helpers (cl_note, cl_ctx_upd, cl_resolve, cl_write_out, cl_take_req_count, cl_conn_close, ...),
     split their `if`s and close the goal by reflexivity: for frame ("does not change") goals.
   - `cl_run_ind` / `cl_run_ind_reach` / `cl_reachable`: invariants over all event lists. `cl_run_app`, `cl_run_snoc`.
   The mechanical part (Arguments, tactics, ~2700 projection / frame lemmas, the `cc` database) lives in Proofs/CliBaseProj.v,
   re-exported here, so that appending to this file does not recompile it. *)
From H2V Require Import Base.Bytes Base.MachineInt Base.Result Gen.GenConsts Impl.ServerConn Impl.ClientConn.
From H2V Require Export Proofs.CliBaseProj.
From Coq Require Import ZArith Lia ZifyN ZifyNat ZifyBool List.
Import ListNotations.
Local Open Scope N_scope.

(* ---------- the tables: Ctx list, pending bodies, reqQueued ---------- *)
Section Tables.

Lemma cl_ctxs_get_In l tag x : cl_ctxs_get l tag = Some x -> In x l /\ ct_tag x = tag.
Proof.
  induction l as [|y t IH]; cbn [cl_ctxs_get]; [discriminate|].
  destruct (ct_tag y =? tag) eqn:E; intro H.
  - inversion H; subst. split; [left; reflexivity | lia].
  - destruct (IH H); split; [right|]; assumption.
Qed.

Lemma cl_ctxs_get_None l tag : cl_ctxs_get l tag = None -> forall x, In x l -> ct_tag x <> tag.
Proof.
  induction l as [|y t IH]; cbn [cl_ctxs_get]; intros H x []; subst.
  - destruct (ct_tag x =? tag) eqn:E; [discriminate | lia].
  - destruct (ct_tag y =? tag); [discriminate | auto].
Qed.

Lemma cl_ctxs_get_None_tags l tag : cl_ctxs_get l tag = None <-> ~ In tag (map ct_tag l).
Proof.
  induction l as [|y t IH]; cbn [cl_ctxs_get map In]; [tauto|].
  destruct (ct_tag y =? tag) eqn:E.
  - split; [discriminate|]. intro H; exfalso; apply H; left; lia.
  - rewrite IH. split; [intros H [A|A]; [lia | auto] | tauto].
Qed.

Lemma cl_ctxs_get_Some_tags l tag : cl_ctxs_get l tag <> None <-> In tag (map ct_tag l).
Proof.
  destruct (in_dec N.eq_dec tag (map ct_tag l)) as [H|H].
  - split; [auto|]. intros _ E. apply cl_ctxs_get_None_tags in E. auto.
  - split; [|tauto]. intro E. exfalso. apply E, cl_ctxs_get_None_tags, H.
Qed.

Lemma cl_ctxs_get_app l l' tag :
  cl_ctxs_get (l ++ l') tag = match cl_ctxs_get l tag with Some x => Some x | None => cl_ctxs_get l' tag end.
Proof.
  induction l as [|y t IH]; cbn [cl_ctxs_get app]; [reflexivity|].
  destruct (ct_tag y =? tag); [reflexivity | assumption].
Qed.

(* same tags, same order: put only overwrites *)
Lemma cl_ctxs_put_tags l x : map ct_tag (cl_ctxs_put l x) = map ct_tag l.
Proof.
  induction l as [|y t IH]; cbn [cl_ctxs_put map]; [reflexivity|].
  destruct (ct_tag y =? ct_tag x) eqn:E; cbn [map]; [f_equal; lia | congruence].
Qed.

Lemma cl_ctxs_put_length l x : length (cl_ctxs_put l x) = length l.
Proof. rewrite <- (map_length ct_tag), cl_ctxs_put_tags, map_length. reflexivity. Qed.

Lemma cl_ctxs_get_put l x tag :
  cl_ctxs_get (cl_ctxs_put l x) tag =
  if tag =? ct_tag x then match cl_ctxs_get l tag with Some _ => Some x | None => None end else cl_ctxs_get l tag.
Proof.
  induction l as [|y t IH]; cbn [cl_ctxs_put cl_ctxs_get].
  - destruct (tag =? ct_tag x); reflexivity.
  - destruct (ct_tag y =? ct_tag x) eqn:E; cbn [cl_ctxs_get].
    + destruct (tag =? ct_tag x) eqn:F.
      * replace (ct_tag x =? tag) with true by lia. replace (ct_tag y =? tag) with true by lia. reflexivity.
      * replace (ct_tag x =? tag) with false by lia. replace (ct_tag y =? tag) with false by lia. reflexivity.
    + destruct (ct_tag y =? tag) eqn:G.
      * replace (tag =? ct_tag x) with false by lia. reflexivity.
      * apply IH.
Qed.

Lemma cl_ctxs_get_put_same l x : cl_ctxs_get l (ct_tag x) <> None -> cl_ctxs_get (cl_ctxs_put l x) (ct_tag x) = Some x.
Proof. intro H. rewrite cl_ctxs_get_put, N.eqb_refl. destruct (cl_ctxs_get l (ct_tag x)); [reflexivity | contradiction]. Qed.

Lemma cl_ctxs_get_put_other l x tag : tag <> ct_tag x -> cl_ctxs_get (cl_ctxs_put l x) tag = cl_ctxs_get l tag.
Proof. intro H. rewrite cl_ctxs_get_put. replace (tag =? ct_tag x) with false by lia. reflexivity. Qed.

Lemma cl_ctxs_put_In l x y : In y (cl_ctxs_put l x) -> y = x \/ In y l.
Proof.
  induction l as [|z t IH]; cbn [cl_ctxs_put]; [intros []|].
  destruct (ct_tag z =? ct_tag x); cbn [In]; intros [H|H]; auto.
  destruct (IH H); auto.
Qed.

Lemma cl_ctxs_put_Forall (P : cctx -> Prop) l x : Forall P l -> P x -> Forall P (cl_ctxs_put l x).
Proof.
  intros Hl Hx. apply Forall_forall. intros s Hs. destruct (cl_ctxs_put_In _ _ _ Hs); [subst; assumption|].
  rewrite Forall_forall in Hl. auto.
Qed.

Lemma cl_ctxs_put_absent l x : cl_ctxs_get l (ct_tag x) = None -> cl_ctxs_put l x = l.
Proof.
  induction l as [|y t IH]; cbn [cl_ctxs_put cl_ctxs_get]; [reflexivity|].
  destruct (ct_tag y =? ct_tag x); [discriminate|]. intro H. rewrite (IH H). reflexivity.
Qed.

(* with distinct tags, membership is lookup *)
Lemma cl_ctxs_get_NoDup l x : NoDup (map ct_tag l) -> In x l -> cl_ctxs_get l (ct_tag x) = Some x.
Proof.
  induction l as [|y t IH]; cbn [map cl_ctxs_get In]; [intros _ []|].
  intros ND [->|H]; [rewrite N.eqb_refl; reflexivity|].
  inversion ND as [|? ? NI ND']; subst.
  destruct (ct_tag y =? ct_tag x) eqn:E; [|auto].
  exfalso. apply NI. replace (ct_tag y) with (ct_tag x) by lia. apply in_map, H.
Qed.

(* pending bodies *)
Lemma cl_pend_get_In l id p : cl_pend_get l id = Some p -> In p l /\ pb_id p = id.
Proof.
  induction l as [|y t IH]; cbn [cl_pend_get]; [discriminate|].
  destruct (pb_id y =? id) eqn:E; intro H.
  - inversion H; subst. split; [left; reflexivity | lia].
  - destruct (IH H); split; [right|]; assumption.
Qed.

Lemma cl_pend_get_None l id : cl_pend_get l id = None -> forall p, In p l -> pb_id p <> id.
Proof.
  induction l as [|y t IH]; cbn [cl_pend_get]; intros H x []; subst.
  - destruct (pb_id x =? id) eqn:E; [discriminate | lia].
  - destruct (pb_id y =? id); [discriminate | auto].
Qed.

Lemma cl_pend_del_In l id p : In p (cl_pend_del l id) -> In p l.
Proof.
  induction l as [|y t IH]; cbn [cl_pend_del]; [intros []|].
  destruct (pb_id y =? id); cbn [In]; intros H; [right; assumption|]. destruct H; auto.
Qed.

Lemma cl_pend_put_In l x p : In p (cl_pend_put l x) -> p = x \/ In p l.
Proof.
  induction l as [|z t IH]; cbn [cl_pend_put]; [intros []|].
  destruct (pb_id z =? pb_id x); cbn [In]; intros [H|H]; auto.
  destruct (IH H); auto.
Qed.

Lemma cl_pend_put_ids l x : map pb_id (cl_pend_put l x) = map pb_id l.
Proof.
  induction l as [|y t IH]; cbn [cl_pend_put map]; [reflexivity|].
  destruct (pb_id y =? pb_id x) eqn:E; cbn [map]; [f_equal; lia | congruence].
Qed.

Lemma cl_pend_get_put l x id :
  cl_pend_get (cl_pend_put l x) id =
  if id =? pb_id x then match cl_pend_get l id with Some _ => Some x | None => None end else cl_pend_get l id.
Proof.
  induction l as [|y t IH]; cbn [cl_pend_put cl_pend_get].
  - destruct (id =? pb_id x); reflexivity.
  - destruct (pb_id y =? pb_id x) eqn:E; cbn [cl_pend_get].
    + destruct (id =? pb_id x) eqn:F.
      * replace (pb_id x =? id) with true by lia. replace (pb_id y =? id) with true by lia. reflexivity.
      * replace (pb_id x =? id) with false by lia. replace (pb_id y =? id) with false by lia. reflexivity.
    + destruct (pb_id y =? id) eqn:G.
      * replace (id =? pb_id x) with false by lia. reflexivity.
      * apply IH.
Qed.

(* reqQueued *)
Lemma cl_req_find_In l id t : cl_req_find l id = Some t -> In (id, t) l.
Proof.
  induction l as [|[i u] r IH]; cbn [cl_req_find]; [discriminate|].
  destruct (i =? id) eqn:E; intro H.
  - inversion H; subst. left. f_equal. lia.
  - right. auto.
Qed.

Lemma cl_req_find_None l id : cl_req_find l id = None <-> ~ In id (map fst l).
Proof.
  induction l as [|[i u] r IH]; cbn [cl_req_find map In fst]; [tauto|].
  destruct (i =? id) eqn:E.
  - split; [discriminate|]. intro H; exfalso; apply H; left; lia.
  - rewrite IH. split; [intros H [A|A]; [lia | auto] | tauto].
Qed.

Lemma cl_req_find_NoDup l id t : NoDup (map fst l) -> In (id, t) l -> cl_req_find l id = Some t.
Proof.
  induction l as [|[i u] r IH]; cbn [map cl_req_find In fst]; [intros _ []|].
  intros ND [H|H].
  - inversion H; subst. rewrite N.eqb_refl. reflexivity.
  - inversion ND as [|? ? NI ND']; subst. destruct (i =? id) eqn:E; [|auto].
    exfalso. apply NI. replace i with id by lia. change id with (fst (id, t)). apply in_map, H.
Qed.

Lemma cl_req_find_app l l' id :
  cl_req_find (l ++ l') id = match cl_req_find l id with Some t => Some t | None => cl_req_find l' id end.
Proof.
  induction l as [|[i u] r IH]; cbn [cl_req_find app]; [reflexivity|].
  destruct (i =? id); [reflexivity | assumption].
Qed.

End Tables.

(* ---------- the small helpers: what they DO change ---------- *)
Section Helpers.
Variable hstate : Type.
Implicit Types c : cconn hstate.

Lemma cc_out_cl_note c o : cc_out (cl_note c o) = o :: cc_out c.
Proof. reflexivity. Qed.
Lemma cc_out_cl_notes c l : cc_out (cl_notes c l) = rev l ++ cc_out c.
Proof. rewrite cl_notes_eq. reflexivity. Qed.

(* Ctx lookups *)
Lemma cl_ctx_get_eq c tag : cl_ctx_get c tag = cl_ctxs_get (cc_ctxs c) tag.
Proof. reflexivity. Qed.
Lemma cc_ctxs_cl_ctx_put c x : cc_ctxs (cl_ctx_put c x) = cl_ctxs_put (cc_ctxs c) x.
Proof. reflexivity. Qed.

Lemma cl_ctx_get_put c x tag :
  cl_ctx_get (cl_ctx_put c x) tag =
  if tag =? ct_tag x then match cl_ctx_get c tag with Some _ => Some x | None => None end else cl_ctx_get c tag.
Proof. unfold cl_ctx_get. rewrite cc_ctxs_cl_ctx_put. apply cl_ctxs_get_put. Qed.

(* an update that keeps the tag *)
Lemma cc_ctxs_cl_ctx_upd c tag f :
  cc_ctxs (cl_ctx_upd c tag f) =
  match cl_ctx_get c tag with Some x => cl_ctxs_put (cc_ctxs c) (f x) | None => cc_ctxs c end.
Proof. unfold cl_ctx_upd. destruct (cl_ctx_get c tag); reflexivity. Qed.

Lemma cl_ctx_get_upd c tag f t : (forall x, ct_tag (f x) = ct_tag x) ->
  cl_ctx_get (cl_ctx_upd c tag f) t =
  if t =? tag then match cl_ctx_get c t with Some x => Some (f x) | None => None end else cl_ctx_get c t.
Proof.
  intro Hf. unfold cl_ctx_upd. destruct (cl_ctx_get c tag) as [x|] eqn:E.
  - rewrite cl_ctx_get_put, Hf. destruct (cl_ctxs_get_In _ _ _ E) as [_ Ht]. rewrite Ht.
    destruct (t =? tag) eqn:F; [|reflexivity]. replace t with tag by lia. rewrite E. reflexivity.
  - destruct (t =? tag) eqn:F; [|reflexivity]. replace t with tag by lia. rewrite E. reflexivity.
Qed.

Lemma tags_cl_ctx_put c x : map ct_tag (cc_ctxs (cl_ctx_put c x)) = map ct_tag (cc_ctxs c).
Proof. apply cl_ctxs_put_tags. Qed.
Lemma tags_cl_ctx_upd c tag f : map ct_tag (cc_ctxs (cl_ctx_upd c tag f)) = map ct_tag (cc_ctxs c).
Proof. rewrite cc_ctxs_cl_ctx_upd. destruct (cl_ctx_get c tag); [apply cl_ctxs_put_tags | reflexivity]. Qed.
Lemma tags_cl_resolve c tag e : map ct_tag (cc_ctxs (cl_resolve c tag e)) = map ct_tag (cc_ctxs c).
Proof. apply tags_cl_ctx_upd. Qed.
Lemma tags_cl_resolve_all c tags e : map ct_tag (cc_ctxs (cl_resolve_all c tags e)) = map ct_tag (cc_ctxs c).
Proof.
  revert c. induction tags as [|t r IH]; intro c; cbn [cl_resolve_all]; [reflexivity|]. rewrite IH. apply tags_cl_resolve.
Qed.

Lemma ct_tag_cl_ctx_resolve x e : ct_tag (cl_ctx_resolve x e) = ct_tag x.
Proof. unfold cl_ctx_resolve. destruct (ct_resolved x); [reflexivity|]. destruct (ct_err x); reflexivity. Qed.

(* ctx.resolve: the only thing it can change is an empty Err of a Ctx not yet taken back *)
Lemma cl_ctx_resolve_eq x e :
  cl_ctx_resolve x e = if negb (ct_resolved x) && match ct_err x with None => true | Some _ => false end then ctu_err x (Some e) else x.
Proof. unfold cl_ctx_resolve. destruct (ct_resolved x); [reflexivity|]. destruct (ct_err x); reflexivity. Qed.

Lemma cl_ctx_get_resolve c tag e t :
  cl_ctx_get (cl_resolve c tag e) t =
  if t =? tag then match cl_ctx_get c t with Some x => Some (cl_ctx_resolve x e) | None => None end else cl_ctx_get c t.
Proof. unfold cl_resolve. apply cl_ctx_get_upd. intro x. apply ct_tag_cl_ctx_resolve. Qed.

(* lastErr is set once *)
Lemma cc_lastErr_cl_set_last_err c e :
  cc_lastErr (cl_set_last_err c e) = match cc_lastErr c with None => Some e | Some e0 => Some e0 end.
Proof. unfold cl_set_last_err. destruct (cc_lastErr c) eqn:E; [exact E | reflexivity]. Qed.

Lemma cc_reqQueued_cl_req_del c id :
  cc_reqQueued (cl_req_del c id) = filter (fun e => negb (fst e =? id)) (cc_reqQueued c).
Proof. reflexivity. Qed.
Lemma cc_reqQueued_cl_take_req_count c id :
  cc_reqQueued (cl_take_req_count c id) = filter (fun e => negb (fst e =? id)) (cc_reqQueued c).
Proof.
  unfold cl_take_req_count. destruct (cl_req_find (cc_reqQueued c) id) eqn:E; [reflexivity|].
  symmetry. apply cl_req_find_None in E. induction (cc_reqQueued c) as [|[i u] r IH]; cbn [filter fst]; [reflexivity|].
  cbn [map In fst] in E. destruct (i =? id) eqn:F; [exfalso; apply E; left; lia|]. cbn [negb]. f_equal. apply IH. tauto.
Qed.
Lemma cc_open_cl_take_req_count c id :
  cc_open (cl_take_req_count c id) = match cl_req_find (cc_reqQueued c) id with Some _ => (cc_open c - 1)%Z | None => cc_open c end.
Proof. unfold cl_take_req_count. destruct (cl_req_find (cc_reqQueued c) id); reflexivity. Qed.

Lemma cc_outQ_cl_write_out c o : cc_outQ (cl_write_out c o) = if cc_closed c then cc_outQ c else cc_outQ c ++ [o].
Proof. unfold cl_write_out. destruct (cc_closed c); reflexivity. Qed.

(* Close *)
Lemma cc_closed_cl_conn_close c : cc_closed (cl_conn_close c) = true.
Proof. unfold cl_conn_close, cl_close_begin, cl_close_net. destruct (cc_closed c) eqn:E; [assumption|]. destruct (cl_can_write _); reflexivity. Qed.
Lemma cc_netClosed_cl_conn_close c : cc_netClosed (cl_conn_close c) = if cc_closed c then cc_netClosed c else true.
Proof. unfold cl_conn_close, cl_close_begin, cl_close_net. destruct (cc_closed c) eqn:E; [reflexivity|]. destruct (cl_can_write _); reflexivity. Qed.
Lemma cc_out_cl_close_net c :
  cc_out (cl_close_net c) = if cl_can_write c then COGoAway 0 c_NoError :: cc_out c else cc_out c.
Proof. unfold cl_close_net. destruct (cl_can_write c); reflexivity. Qed.
Lemma cc_out_cl_conn_close c :
  cc_out (cl_conn_close c) = if negb (cc_closed c) && cl_can_write c then COGoAway 0 c_NoError :: cc_out c else cc_out c.
Proof.
  unfold cl_conn_close, cl_close_begin. destruct (cc_closed c) eqn:E; [reflexivity|]. cbn [negb andb].
  rewrite cc_out_cl_close_net. reflexivity.
Qed.

End Helpers.

(* ---------- step and run ---------- *)
Section Run.
Variable hstate : Type.
Variable dec_field : hstate -> N -> bytes -> dec_res hstate.
Variable enc_field : hstate -> bytes -> bytes -> bool -> bytes * hstate.
Variable enc_set_max : hstate -> N -> hstate.
Variable cfg : cl_config.
Variable h0 : hstate.
Variable first : bytes.

Notation step := (cl_step dec_field enc_field enc_set_max cfg).
Notation run := (cl_run dec_field enc_field enc_set_max cfg h0 first).
Notation init := (cl_init enc_set_max h0 first).
Notation cconn := (cconn hstate).

(* the state reached from any state (cl_run = cl_run_from init) *)
Definition cl_run_from (c : cconn) (evs : list cevent) : cconn := fold_left step evs c.

Lemma cl_run_eq evs : run evs = cl_run_from init evs.
Proof. reflexivity. Qed.
Lemma cl_run_nil : run [] = init.
Proof. reflexivity. Qed.
Lemma cl_run_from_app c evs1 evs2 : cl_run_from c (evs1 ++ evs2) = cl_run_from (cl_run_from c evs1) evs2.
Proof. apply fold_left_app. Qed.
Lemma cl_run_app evs1 evs2 : run (evs1 ++ evs2) = cl_run_from (run evs1) evs2.
Proof. apply fold_left_app. Qed.
Lemma cl_run_snoc evs e : run (evs ++ [e]) = step (run evs) e.
Proof. rewrite cl_run_app. reflexivity. Qed.
Lemma cl_run_from_cons c e evs : cl_run_from c (e :: evs) = cl_run_from (step c e) evs.
Proof. reflexivity. Qed.
Lemma cl_run_from_nil c : cl_run_from c [] = c.
Proof. reflexivity. Qed.
Lemma cl_run_from_snoc c evs e : cl_run_from c (evs ++ [e]) = step (cl_run_from c evs) e.
Proof. rewrite cl_run_from_app. reflexivity. Qed.

(* reachable states *)
Inductive cl_reachable : cconn -> Prop :=
| cl_reach_init : cl_reachable init
| cl_reach_step c e : cl_reachable c -> cl_reachable (step c e).

Lemma cl_run_from_reachable c evs : cl_reachable c -> cl_reachable (cl_run_from c evs).
Proof. revert c. induction evs as [|e evs IH]; intros c H; [assumption|]. rewrite cl_run_from_cons. apply IH. constructor. assumption. Qed.
Lemma cl_run_reachable evs : cl_reachable (run evs).
Proof. rewrite cl_run_eq. apply cl_run_from_reachable. constructor. Qed.
Lemma cl_reachable_run c : cl_reachable c -> exists evs, c = run evs.
Proof.
  induction 1 as [|c e _ [evs ->]]; [exists []; reflexivity|]. exists (evs ++ [e]). symmetry. apply cl_run_snoc.
Qed.

(* invariants over all event lists *)
Lemma cl_run_from_ind (P : cconn -> Prop) :
  (forall c e, P c -> P (step c e)) -> forall evs c, P c -> P (cl_run_from c evs).
Proof. intros Hs evs. induction evs as [|e evs IH]; intros c H; [assumption|]. rewrite cl_run_from_cons. apply IH, Hs, H. Qed.

Lemma cl_run_ind (P : cconn -> Prop) :
  P init -> (forall c e, P c -> P (step c e)) -> forall evs, P (run evs).
Proof. intros Hi Hs evs. rewrite cl_run_eq. apply cl_run_from_ind; assumption. Qed.

(* the same with reachability of c available in the step case (so that earlier invariants can be used) *)
Lemma cl_run_ind_reach (P : cconn -> Prop) :
  P init -> (forall c e, cl_reachable c -> P c -> P (step c e)) -> forall evs, P (run evs).
Proof.
  intros Hi Hs evs.
  assert (H : cl_reachable (run evs) /\ P (run evs)); [|apply H].
  apply (cl_run_ind (fun c => cl_reachable c /\ P c)).
  - split; [constructor | assumption].
  - intros c e [R H]. split; [constructor; assumption | auto].
Qed.

Lemma cl_reachable_ind_inv (P : cconn -> Prop) :
  P init -> (forall c e, cl_reachable c -> P c -> P (step c e)) -> forall c, cl_reachable c -> P c.
Proof. intros Hi Hs c R. induction R; auto. Qed.

(* a property of pairs (state, later state): holds along every run *)
Lemma cl_run_from_rel (R : cconn -> cconn -> Prop) :
  (forall c, R c c) -> (forall a b c, R a b -> R b c -> R a c) -> (forall c e, R c (step c e)) ->
  forall evs c, R c (cl_run_from c evs).
Proof.
  intros Hr Ht Hs evs. induction evs as [|e evs IH]; intros c; [apply Hr|].
  rewrite cl_run_from_cons. eapply Ht; [apply Hs | apply IH].
Qed.

(* every prefix of a run is a run: a property of all (state, event, next state) triples of a run *)
Lemma cl_run_prefix_steps (P : cconn -> cevent -> cconn -> Prop) :
  (forall c e, cl_reachable c -> P c e (step c e)) ->
  forall evs pre e post, evs = pre ++ e :: post -> P (run pre) e (run (pre ++ [e])).
Proof. intros H evs pre e post _. rewrite cl_run_snoc. apply H, cl_run_reachable. Qed.

(* step, event by event (all by computation) *)
Lemma cl_step_CEvSubmit c tag rq q : step c (CEvSubmit tag rq q) = cl_submit cfg c tag rq q.
Proof. reflexivity. Qed.
Lemma cl_step_CEvSubmitCheck c tag : step c (CEvSubmitCheck tag) = cl_submit_check c tag.
Proof. reflexivity. Qed.
Lemma cl_step_CEvWLIn c : step c CEvWLIn = if cl_wl_live c then cl_wl_in enc_field enc_set_max cfg c else c.
Proof. reflexivity. Qed.
Lemma cl_step_CEvWLOut c : step c CEvWLOut = if cl_wl_live c then cl_wl_out cfg c else c.
Proof. reflexivity. Qed.
Lemma cl_step_CEvWLWin c order : step c (CEvWLWin order) = if cl_wl_live c then cl_wl_win cfg c order else c.
Proof. reflexivity. Qed.
Lemma cl_step_CEvWLPing c : step c CEvWLPing = if cl_wl_live c then cl_wl_ping cfg c else c.
Proof. reflexivity. Qed.
Lemma cl_step_CEvWLDone c : step c CEvWLDone = if cl_wl_live c then cl_wl_done c else c.
Proof. reflexivity. Qed.
Lemma cl_step_CEvRL c i : step c (CEvRL i) = if cl_rl_live c then cl_rl_step dec_field c i else c.
Proof. reflexivity. Qed.
Lemma cl_step_CEvTimeout c tag : step c (CEvTimeout tag) = cl_timeout_fire c tag.
Proof. reflexivity. Qed.
Lemma cl_step_CEvTimeoutCancel c tag : step c (CEvTimeoutCancel tag) = cl_timeout_cancel c tag.
Proof. reflexivity. Qed.
Lemma cl_step_CEvReceive c tag : step c (CEvReceive tag) = cl_receive c tag.
Proof. reflexivity. Qed.
Lemma cl_step_CEvClose c : step c CEvClose = cl_close_call c.
Proof. reflexivity. Qed.
Lemma cl_step_CEvCloseNet c : step c CEvCloseNet = cl_close_finish c.
Proof. reflexivity. Qed.
Lemma cl_step_CEvWriteFail c : step c CEvWriteFail = ccu_writeFail c true.
Proof. reflexivity. Qed.

Lemma cl_trace_In (c : cconn) o : In o (cl_trace c) <-> In o (cc_out c).
Proof. unfold cl_trace. symmetry. apply in_rev. Qed.

End Run.

Arguments cl_run_from {hstate}.
Arguments cl_reachable {hstate}.
