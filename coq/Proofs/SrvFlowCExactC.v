(* Proofs/SrvFlowCExactC.v - C06 completion: exact windows, part 3: every step of the model, and the theorem:
   after any events, while the stream loop and the write loop run, the server's send windows ARE the windows of
   the peer's ledger (grants counted when the stream loop applies them, DATA when it is queued). *)
From H2V Require Import Base.Bytes Base.MachineInt Base.Result Gen.GenConsts Impl.ServerConn Proofs.SrvBase
  Spec.FlowLedger Proofs.SrvFlowLedger Proofs.SrvFlowDefs Proofs.SrvFlowSend Proofs.SrvFlowEff Proofs.SrvFlowSafe
  Proofs.SrvFlowSafeB Proofs.SrvFlowSafeC Proofs.SrvFlowRecv Proofs.SrvFlowStall Proofs.SrvFlowCDecomp Proofs.SrvFlowCRing
  Proofs.SrvFlowCMono Proofs.SrvFlowCExact Proofs.SrvFlowCExactB.
From Coq Require Import ZArith Lia ZifyN ZifyNat ZifyBool List.
Import ListNotations.
Local Open Scope N_scope.
Set Default Proof Using "Type".

Section Exact3.
Variable hstate : Type.
Variable dec_field : hstate -> N -> bytes -> dec_res hstate.
Variable enc_field : hstate -> bytes -> bytes -> bool -> bytes * hstate.
Variable enc_set_max : hstate -> N -> hstate.
Variable cfg : config.
Variable h0 : hstate.
Notation sconn := (sconn hstate).
Implicit Types c : sconn.
Notation Sim := (SimX hstate None).
Notation ExX := (ExX hstate).
Notation step := (step dec_field enc_field enc_set_max cfg).
Notation tl_step := (tl_step hstate dec_field enc_field enc_set_max cfg).
Notation timeline_from := (timeline_from hstate dec_field enc_field enc_set_max cfg).
Notation Inv := (Inv hstate).
Notation RInv := (RInv hstate).
Notation GoodX := (GoodX hstate).

Definition XInv c (L : ledger) : Prop := sc_sl_done c = true \/ sc_wl_dead c = true \/ ExX None c L.

Lemma GoodX_tl c L g c' : GoodX c (lrun L g) c' ->
  sc_sl_done c' = true \/ ExX None c' (lrun L (g ++ ldatas (new_out hstate c c'))).
Proof. intros (L' & (new & E & _ & _ & ->) & H). rewrite (new_out_ext _ _ _ _ E), lrun_app. exact H. Qed.

Lemma tl_quiet c c' : out_ext quiet_out c c' -> ldatas (new_out hstate c c') = [].
Proof. intros (new & E & F). rewrite (new_out_ext _ _ _ _ E). apply ldatas_quiet, quiet_rev, F. Qed.

Lemma step_exact c e L : Inv c L -> RInv c -> XInv c L -> XInv (step c e) (lrun L (tl_step c e)).
Proof.
  intros HI HR HX. pose proof (step_Mono _ dec_field enc_field enc_set_max cfg c e) as M.
  destruct HX as [SD|[WD|X]]; [left; apply (m_sl _ _ _ M SD) | right; left; apply (m_wl _ _ _ M WD)|].
  destruct (sc_sl_done c) eqn:SD; [left; apply (m_sl _ _ _ M SD)|].
  destruct (sc_wl_dead c) eqn:WD; [right; left; apply (m_wl _ _ _ M WD)|].
  destruct HI as [HI|S]; [congruence|]. destruct HR as [HR|HR]; [congruence|].
  unfold SrvFlowDefs.tl_step.
  assert (QQ : forall c', out_ext quiet_out c c' -> sl_takes hstate c e = None -> ExX None c' L ->
               XInv c' (lrun L (match sl_takes hstate c e with Some fr => lgrants_of fr | None => [] end ++ ldatas (new_out hstate c c')))).
  { intros c' O T X'. rewrite T, (tl_quiet _ _ O). right; right. exact X'. }
  destruct e as [i| |sid r|t| | | |].
  - rewrite step_EvRL. destruct (sc_rl_done c); [apply QQ; [apply out_ext_refl | reflexivity | exact X]|].
    destruct (rl_step_eff _ cfg c i) as [[r1 r2 r3 r4 r5 r6 r7 r8 r9 r10] _].
    apply QQ; [exact r10 | reflexivity|]. eapply ExX_same; [exact r1 | exact r3 | rewrite r6; flia | exact X].
  - rewrite step_EvSL. cbn [sl_takes]. rewrite SD.
    destruct (sc_readerQ c) as [|fr q] eqn:RQ; cbn [hd_error].
    + destruct (sc_rl_done c); [left; reflexivity|]. rewrite (new_out_same _ c c eq_refl). right; right. exact X.
    + assert (S' : Sim (upd_readerQ c q) L) by (eapply SimX_same; [..|exact S]; reflexivity).
      assert (X' : ExX None (upd_readerQ c q) L) by (eapply ExX_same; [..|exact X]; sc_cbn; try reflexivity; flia).
      assert (R' : RI hstate (upd_readerQ c q)) by (revert HR; apply RIP_same; sc_cbn; try reflexivity; flia).
      pose proof (sl_frame_exact _ dec_field enc_set_max cfg (upd_readerQ c q) fr L S' X' R' WD) as G.
      apply GoodX_tl in G. destruct G as [G|G]; [left; exact G | right; right; exact G].
  - rewrite step_EvDone. cbn [sl_takes app]. rewrite SD.
    pose proof (sl_done_exact _ enc_field cfg c sid r L S X WD) as G.
    apply (GoodX_tl c L []) in G. destruct G as [G|G]; [left; exact G | right; right; exact G].
  - rewrite step_EvClock. destruct (sc_now c <? t)%Z; (apply QQ; [apply out_ext_same; reflexivity | reflexivity|]); [|exact X].
    eapply ExX_same; [..|exact X]; sc_cbn; try reflexivity; flia.
  - rewrite step_EvTimer. rewrite SD. unfold sl_timer.
    destruct (cf_maxRequestTime cfg <=? 0)%Z; cbn [fst cont]; [apply QQ; [apply out_ext_refl | reflexivity | exact X]|].
    pose proof (close_heads_Closes _ (count_due cfg (sc_now c) (sc_strms c)) c) as CL.
    apply QQ; [apply CL | reflexivity | eapply ExX_Closes; eassumption].
  - rewrite step_EvIdle.
    assert (Q : Quiet c (upd_closer (write_goaway c 0 c_NoError) true)).
    { eapply Quiet_trans; [apply Quiet_write_goaway|].
      constructor; sc_cbn; first [reflexivity | flia | (left; reflexivity) | (intro; assumption) | (apply out_ext_same; reflexivity)]. }
    apply QQ; [apply Q | reflexivity | eapply ExX_Quiet; eassumption].
  - rewrite step_EvCloser. destruct (sc_closer c && negb (sc_sl_done c)); [left; reflexivity|].
    apply QQ; [apply out_ext_refl | reflexivity | exact X].
  - rewrite step_EvWriteFail. right; left. reflexivity.
Qed.

Lemma exact_from evs : forall c L, Inv c L -> RInv c -> XInv c L ->
  XInv (run_from dec_field enc_field enc_set_max cfg c evs) (lrun L (timeline_from c evs)).
Proof.
  induction evs as [|e evs IH]; intros c L HI HR HX; [exact HX|].
  rewrite run_from_cons. cbn [SrvFlowDefs.timeline_from]. rewrite lrun_app.
  destruct (StepOK_tl _ dec_field enc_field enc_set_max cfg c e L HI) as (_ & HI' & _).
  apply IH; [exact HI' | apply step_RI, HR | apply step_exact; assumption].
Qed.

(* C06, exactness of the bookkeeping: after any events, while the stream loop and the write loop run, the connection
   send window and the send window of every stream of the table are the windows of the peer's ledger *)
Theorem windows_exact evs :
  let c := run dec_field enc_field enc_set_max cfg h0 evs in
  let L := lrun ledger0 (timeline hstate dec_field enc_field enc_set_max cfg h0 evs) in
  sc_sl_done c = false -> sc_wl_dead c = false ->
  l_conn L = sc_clientWindow c /\ forall s, In s (sc_strms c) -> l_strm L (st_id s) = Some (st_window s).
Proof.
  cbv zeta. intros SD WD.
  assert (X : XInv (run dec_field enc_field enc_set_max cfg h0 evs)
                   (lrun ledger0 (timeline hstate dec_field enc_field enc_set_max cfg h0 evs))).
  { rewrite run_eq. unfold timeline. apply exact_from; [apply Inv_init | |].
    - right. split; [intros e [] | intros s []].
    - right; right. constructor; cbn; [reflexivity | intros s [] | reflexivity]. }
  destruct X as [X|[X|X]]; [congruence | congruence|].
  split; [symmetry; apply (x_conn _ _ _ _ X)|]. intros s Hs. apply (x_strm _ _ _ _ X s Hs). discriminate.
Qed.

End Exact3.
