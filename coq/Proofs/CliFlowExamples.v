(* Proofs/CliFlowExamples.v - the instance of the client model with the real HPACK coder: vocabulary for the
   examples of Props/C07.v, Props/C14_client.v, Props/C18_client.v, and a checker for the hypothesis of C07
   (the server's grants keep every window at or below 2^31-1) on concrete histories. Definitions and their
   soundness only. *)
From H2V Require Import Base.Bytes Base.MachineInt Base.Result Gen.GenConsts Impl.Hpack Impl.ServerConn Impl.ServerInst
     Impl.ClientConn Impl.ClientInst Proofs.CliDefs Spec.FlowLedger Proofs.SrvFlowLedger
     Proofs.CliFlowMoves Proofs.CliFlowOut Proofs.CliFlowSettings Proofs.CliFlowSafe Proofs.CliFlowEs Proofs.CliFlowRecv Proofs.CliFlowLimits.
From Coq Require Import ZArith Lia List Bool.
Import ListNotations.
Local Open Scope N_scope.

(* ---------- the instance ---------- *)

Definition cli_ledger (cfg : cl_config) (first : bytes) (evs : list cevent) : list levent :=
  g_ledger hpack_state cli_dec_field cli_enc_field set_max_table_size cfg cli_init_hpack first evs.
Definition cli_rtimeline (cfg : cl_config) (first : bytes) (evs : list cevent) : list revent :=
  rtimeline hpack_state cli_dec_field cli_enc_field set_max_table_size cfg cli_init_hpack first evs.
(* what the last event of evs ++ [e] adds to the trace *)
Definition cli_step_items (cfg : cl_config) (first : bytes) (evs : list cevent) (e : cevent) : list coutev :=
  g_new hpack_state (cli_run cfg first evs) (cli_step cfg (cli_run cfg first evs) e).

(* ---------- a checker for GOK on a concrete history ---------- *)

Definition lbb (L : ledger) (sids : list N) : bool :=
  (l_conn L <=? MAXW)%Z && forallb (fun s => match l_strm L s with Some w => (w <=? MAXW)%Z | None => true end) sids.
Fixpoint gokb_from (L : ledger) (sids : list N) (h : list levent) : bool :=
  lbb L sids && match h with [] => true | e :: t => gokb_from (lstep L e) sids t end.
Definition opened_sids (h : list levent) : list N := flat_map (fun e => match e with LOpen s => [s] | _ => [] end) h.
Definition gokb (h : list levent) : bool := gokb_from ledger0 (opened_sids h) h.

Lemma lbb_LB L sids : (forall sid w, l_strm L sid = Some w -> In sid sids) -> lbb L sids = true -> LB L.
Proof.
  intros DOM H. unfold lbb in H. apply andb_prop in H. destruct H as [A B]. apply Z.leb_le in A. split; [exact A|].
  intros sid w E. rewrite forallb_forall in B. specialize (B sid (DOM _ _ E)). rewrite E in B. apply Z.leb_le in B. exact B.
Qed.

Lemma gokb_from_sound h : forall L sids,
  (forall sid w, l_strm L sid = Some w -> In sid sids) -> (forall s, In (LOpen s) h -> In s sids) ->
  gokb_from L sids h = true -> GOK L h.
Proof.
  induction h as [|e t IH]; intros L sids DOM OP H pre post E; cbn [gokb_from] in H; apply andb_prop in H; destruct H as [H1 H2].
  - destruct pre; [|discriminate]. cbn. apply (lbb_LB L sids DOM H1).
  - destruct pre as [|e' pre]; [cbn; apply (lbb_LB L sids DOM H1)|]. cbn [app] in E. inversion E; subst e' t.
    rewrite lrun_cons. apply (IH (lstep L e) sids) with (post := post); [| |exact H2|reflexivity].
    + intros sid w X. destruct e as [v|s|s inc|s n]; cbn [lstep l_strm] in X.
      * destruct (l_strm L sid) eqn:Y; [eapply DOM; exact Y | discriminate].
      * destruct (l_strm L s) eqn:Y; [eapply DOM; exact X|]. cbn [l_strm] in X. unfold strm_upd in X.
        destruct (N.eqb sid s) eqn:Z; [apply N.eqb_eq in Z; subst sid; apply OP; left; reflexivity | eapply DOM; exact X].
      * destruct (N.eqb s 0); [eapply DOM; exact X|]. destruct (l_strm L s) eqn:Y; [|eapply DOM; exact X].
        cbn [l_strm] in X. unfold strm_upd in X. destruct (N.eqb sid s) eqn:Z; [apply N.eqb_eq in Z; subst sid; eapply DOM; exact Y | eapply DOM; exact X].
      * destruct (l_strm L s) eqn:Y; [|eapply DOM; exact X]. unfold strm_upd in X.
        destruct (N.eqb sid s) eqn:Z; [apply N.eqb_eq in Z; subst sid; eapply DOM; exact Y | eapply DOM; exact X].
    + intros s HI. apply OP. right. exact HI.
Qed.

Lemma gokb_sound h : gokb h = true -> GOK ledger0 h.
Proof.
  intro H. apply (gokb_from_sound h ledger0 (opened_sids h)); [intros sid w X; discriminate | | exact H].
  intros s HI. unfold opened_sids. apply in_flat_map. exists (LOpen s). split; [exact HI | left; reflexivity].
Qed.

(* ---------- sample runs ---------- *)

(* initial window 10, a 25-byte body: 10 bytes go out with the request; a connection grant alone changes nothing;
   stream grants of 7 and then 100 let the rest out, END_STREAM on the last frame *)
Definition ex_first_w10 : bytes := [0; 4; 0; 0; 0; 10].
Definition ex_body25 : bytes := map N.of_nat (seq 1 25).
Definition ex_upload : list cevent :=
  [CEvSubmit 0 (ex_post (CBuf ex_body25)) true; CEvWLIn;
   CEvRL (ex_winupd 0 1000); CEvWLWin [];
   CEvRL (ex_winupd 1 7); CEvWLWin [];
   CEvRL (ex_winupd 1 100); CEvWLWin []].

(* the observation about int32: two WINDOW_UPDATEs whose sum with the window is above 2^31-1 *)
Definition ex_wrap : list cevent :=
  [CEvSubmit 0 (ex_post (CBuf ex_body25)) true; CEvWLIn;
   CEvRL (ex_winupd 1 2147483647); CEvRL (ex_winupd 1 100); CEvWLWin []].

(* payload lengths only *)
Definition brief (o : coutev) : coutev :=
  match o with
  | COHeaders s e b => COHeaders s e []
  | COData s e p => COData s e [len p]
  | COResult t r e _ => COResult t r e cl_empty_resp
  | _ => o
  end.

(* a DATA frame of wire bytes on the wire, all but one of them padding *)
Definition ex_pad_data (sid : N) (es : bool) (wire : N) : rl_input :=
  RFrame (mkSFrame KData (if es then 1 else 0) sid wire [97] 0 0 0 false 0 false 0).
(* a response in n padded DATA frames of 16384 bytes on the wire *)
Definition ex_download (n : nat) : list cevent :=
  [CEvSubmit 0 ex_get true; CEvWLIn; CEvRL (ex_headers 1 false ex_block_200)] ++ repeat (CEvRL (ex_pad_data 1 false 16384)) n.

(* SETTINGS: MAX_CONCURRENT_STREAMS = 1, MAX_FRAME_SIZE = 32768, MAX_CONCURRENT_STREAMS = 7, HEADER_TABLE_SIZE = 100 *)
Definition ex_settings_payload : bytes := [0;3;0;0;0;1; 0;5;0;0;128;0; 0;3;0;0;0;7; 0;1;0;0;0;100].
Definition ex_settings_frame : sframe := mkSFrame KSettings 0 0 24 ex_settings_payload 0 0 0 false 0 false 0.

(* a request with one large header field *)
Definition ex_big_request : crequest :=
  mkCReq [104] [71; 69; 84] [47] [104; 116; 116; 112; 115] [] [([120], repeat 97 (N.to_nat 40000))] (CBuf []).

(* ---------- the HEADERS frame against MAX_FRAME_SIZE (refuted) ---------- *)

Definition hdr_oversize (cfg : cl_config) (first : bytes) (evs : list cevent) (e : cevent) : bool :=
  existsb (fun o => match o with COHeaders _ _ b => cc_maxFrame (cli_run cfg first evs) <? len b | _ => false end)
          (cli_step_items cfg first evs e).

Lemma hdr_oversize_refutes cfg first evs e : hdr_oversize cfg first evs e = true ->
  ~ (forall sid es blk, In (COHeaders sid es blk) (cli_step_items cfg first evs e) -> len blk <= cc_maxFrame (cli_run cfg first evs)).
Proof.
  intros H X. unfold hdr_oversize in H. apply existsb_exists in H. destruct H as (o & HI & T).
  destruct o; try discriminate. apply N.ltb_lt in T. specialize (X _ _ _ HI). lia.
Qed.
