(* Proofs/SrvFlowStall.v - C06 progress, the no-stall invariant: whenever the stream loop is waiting for its next
   event, a stream whose response still has bytes to send is blocked by a window: its own or the connection's. *)
From H2V Require Import Base.Bytes Base.MachineInt Base.Result Gen.GenConsts Impl.ServerConn Proofs.SrvBase
  Spec.FlowLedger Proofs.SrvFlowLedger Proofs.SrvFlowDefs Proofs.SrvFlowSend Proofs.SrvFlowEff Proofs.SrvFlowSafe
  Proofs.SrvFlowSafeB Proofs.SrvFlowSafeC Proofs.SrvFlowFuel.
From Coq Require Import ZArith Lia ZifyN ZifyNat ZifyBool List.
Import ListNotations.
Local Open Scope N_scope.
Set Default Proof Using "Type".

(* the stream has been answered, its handler is done, and bytes remain: the condition under which the loop sends *)
Definition wants (s : stream) : bool := st_responded s && negb (st_handlerRunning s) && has_more_to_send s.

Lemma del_put_In l y x : In x (strms_del (strms_put l y) (st_id y)) -> In x l.
Proof.
  induction l as [|a t IH]; cbn [strms_put strms_del]; [intros []|].
  destruct (st_id a =? st_id y) eqn:E; cbn [strms_del].
  - rewrite N.eqb_refl. intro H. right. exact H.
  - rewrite E. cbn [In]. intros [H|H]; auto.
Qed.

Section Stall.
Variable hstate : Type.
Variable dec_field : hstate -> N -> bytes -> dec_res hstate.
Variable enc_field : hstate -> bytes -> bytes -> bool -> bytes * hstate.
Variable enc_set_max : hstate -> N -> hstate.
Variable cfg : config.
Notation sconn := (sconn hstate).
Implicit Types c : sconn.
Notation Sim := (SimX hstate None).

Definition stalled c (s : stream) : Prop := wants s = true -> (Z.min (st_window s) (sc_clientWindow c) <= 0)%Z.
Definition NS c : Prop := forall s, In s (sc_strms c) -> stalled c s.

Lemma stalled_mono c c' s : (sc_clientWindow c' <= sc_clientWindow c)%Z -> stalled c s -> stalled c' s.
Proof. intros H S W. specialize (S W). flia. Qed.

Lemma NS_mono c c' : (forall s, In s (sc_strms c') -> In s (sc_strms c)) -> (sc_clientWindow c' <= sc_clientWindow c)%Z ->
  NS c -> NS c'.
Proof. intros HS HC H s Hs. eapply stalled_mono; [exact HC | apply H, HS, Hs]. Qed.

Lemma NS_Quiet c c' : Quiet c c' -> NS c -> NS c'.
Proof. intros Q. apply NS_mono; [rewrite (q_strms _ _ _ Q); auto | rewrite (q_clientWindow _ _ _ Q); flia]. Qed.
Lemma NS_Closes c c' : Closes c c' -> NS c -> NS c'.
Proof. intros Q. apply NS_mono; [apply Dels_In, Q | rewrite (cl_clientWindow _ _ _ Q); flia]. Qed.
Lemma NS_Recv c c' : Recv c c' -> NS c -> NS c'.
Proof. intros Q. apply NS_mono; [rewrite (rv_strms _ _ _ Q); auto | rewrite (rv_clientWindow _ _ _ Q); flia]. Qed.

(* sendData stops only for a good reason *)
Lemma send_data_ns c s :
  let r := send_data c s in
  (snd r = true \/ (Z.min (st_window (snd (fst r))) (sc_clientWindow (fst (fst r))) <= 0)%Z) /\
  (sc_clientWindow (fst (fst r)) <= sc_clientWindow c)%Z /\ sc_strms (fst (fst r)) = sc_strms c.
Proof.
  cbv zeta. unfold send_data.
  pose proof (send_data_SDL _ (st_id s) c (get_snd s)) as H.
  pose proof (SDL_stalls _ _ _ _ _ H) as [A B].
  pose proof (SDL_Frame _ _ _ _ _ _ H) as (_ & E1 & _).
  destruct (send_data_loop (send_data_fuel (get_snd s)) c (st_id s) (get_snd s)) as [[[c1 n1] done] wr].
  cbn [fst snd] in *. split; [|split; assumption].
  destruct A as [->|A]; [left; reflexivity|]. destruct done; [left; reflexivity|]. right.
  unfold sd_avail in A. rewrite zmin_min in A. destruct wr; cbn [st_window set_weReset set_snd sn_window]; exact A.
Qed.

Lemma finish_request_ns c s r :
  let res := finish_request enc_field c s r in
  (snd res = true \/ (Z.min (st_window (snd (fst res))) (sc_clientWindow (fst (fst res))) <= 0)%Z) /\
  (sc_clientWindow (fst (fst res)) <= sc_clientWindow c)%Z /\ sc_strms (fst (fst res)) = sc_strms c.
Proof.
  cbv zeta. unfold finish_request. destruct (response_block enc_field (sc_enc c) r) as [blk e'].
  match goal with |- context [if ?b then _ else _] => destruct b end.
  - cbn [fst snd]. split; [left; reflexivity|]. rewrite sc_clientWindow_emit, sc_strms_emit. sc_cbn. split; [flia | reflexivity].
  - match goal with |- context [send_data ?c1 ?s1] => destruct (send_data_ns c1 s1) as (A & B & C) end.
    rewrite sc_clientWindow_emit in B. rewrite sc_strms_emit in C. sc_cbn_in B. sc_cbn_in C. auto.
Qed.

(* flushStreams: T = ids still to visit, D = ids finished in this pass *)
Definition FL (T D : list N) c : Prop :=
  forall s, In s (sc_strms c) -> ~ In (st_id s) T -> In (st_id s) D \/ stalled c s.

Lemma NoDup_ids_eq l a b : NoDup (map st_id l) -> In a l -> In b l -> st_id a = st_id b -> a = b.
Proof.
  induction l as [|x t IH]; cbn [map]; intros ND Ha Hb E; [destruct Ha|]. inversion ND; subst.
  destruct Ha as [<-|Ha], Hb as [<-|Hb]; auto.
  - exfalso. apply H1. rewrite E. apply in_map. exact Hb.
  - exfalso. apply H1. rewrite <- E. apply in_map. exact Ha.
Qed.

Lemma flush_loop_ns ids : forall c done L, Sim c L -> FL ids done c ->
  FL [] (snd (flush_loop c ids done)) (fst (flush_loop c ids done)).
Proof.
  induction ids as [|id t IH]; intros c done L S H; cbn [flush_loop]; [exact H|].
  destruct (strms_search (sc_strms c) id) as [s0|] eqn:F.
  - apply strms_search_In in F. destruct F as [Hin Hid].
    destruct (st_responded s0 && negb (st_handlerRunning s0) && has_more_to_send s0) eqn:W.
    + assert (Hh : held L s0) by (apply (sim_strm _ _ _ _ S); [assumption | discriminate]).
      assert (Hle : st_id s0 <= sc_lastID c) by (apply (sim_le _ _ _ _ S); assumption).
      destruct (send_data_led _ None c s0 L S (or_introl eq_refl) Hh Hle) as (L1 & Led & S1 & H1 & I1 & Lid).
      destruct (send_data_ns c s0) as (A & B & C).
      destruct (send_data c s0) as [[c1 s1] fin]. cbn [fst snd] in *.
      assert (S2 : Sim (put c1 s1) L1).
      { eapply SimX_put; [exact S1 | right; congruence | exact H1 | rewrite I1, Lid; exact Hle]. }
      eapply IH; [exact S2|].
      intros s Hs NT. unfold put in Hs. sc_cbn_in Hs.
      apply strms_put_In_strong in Hs; [|rewrite C; apply (sim_nodup _ _ _ _ S)].
      destruct Hs as [->|[Hs NE]].
      * destruct A as [->|A]; [left; apply in_or_app; right; left; congruence|].
        right. intros _. unfold put. sc_cbn. exact A.
      * rewrite C in Hs. destruct (H s Hs) as [HD|HS].
        -- intros [E|E]; [congruence | contradiction].
        -- left. destruct fin; [apply in_or_app; left|]; exact HD.
        -- right. eapply stalled_mono; [|exact HS]. unfold put. sc_cbn. exact B.
    + eapply IH; [exact S|]. intros s Hs NT. destruct (N.eq_dec (st_id s) id) as [E|E].
      * assert (s = s0) by (eapply NoDup_ids_eq; [apply (sim_nodup _ _ _ _ S) | exact Hs | exact Hin | congruence]). subst s0.
        right. intro W'. unfold wants in W'. congruence.
      * apply H; [exact Hs|]. intros [X|X]; [congruence | contradiction].
  - eapply IH; [exact S|]. intros s Hs NT. apply H; [exact Hs|].
    intros [X|X]; [|contradiction]. eapply strms_search_None; eauto.
Qed.

Lemma flush_streams_ns c L : Sim c L -> NS (flush_streams c).
Proof.
  intro S. unfold flush_streams.
  assert (H0 : FL (map st_id (sc_strms c)) [] c).
  { intros s Hs NT. exfalso. apply NT. apply in_map. exact Hs. }
  pose proof (flush_loop_ns _ c [] L S H0) as H1.
  destruct (flush_loop_led _ (map st_id (sc_strms c)) c [] L S) as (L' & _ & S').
  destruct (flush_loop c (map st_id (sc_strms c)) []) as [c1 done]. cbn [fst snd] in *.
  pose proof (close_all_Closes _ done c1) as CL.
  intros s Hs.
  pose proof (Dels_In _ _ (cl_strms _ _ _ CL) _ Hs) as Hs1.
  destruct (H1 s Hs1 (fun X => X)) as [HD|HS]; [|eapply stalled_mono; [|exact HS]; rewrite (cl_clientWindow _ _ _ CL); flia].
  exfalso. (* a finished stream is closed at the end of the pass *)
  pose proof (sim_nodup _ _ _ _ S') as ND. revert Hs HD. clear - ND. revert c1 ND.
  induction done as [|id t IH]; intros c1 ND Hs HD; [destruct HD|]. cbn [close_all] in Hs.
  destruct (strms_search (sc_strms c1) id) as [s0|] eqn:F.
  - assert (ND' : NoDup (map st_id (sc_strms (close_stream c1 (set_state s0 SClosed))))).
    { rewrite sc_strms_close_stream. apply strms_del_NoDup. exact ND. }
    destruct HD as [E|HD]; [|eapply IH; eassumption].
    pose proof (Dels_In _ _ (cl_strms _ _ _ (close_all_Closes _ t _)) _ Hs) as Hs'.
    rewrite sc_strms_close_stream in Hs'. cbn [st_id set_state] in Hs'.
    apply strms_search_In in F. eapply strms_del_not_In; [exact ND | exact Hs' | destruct F; congruence].
  - destruct HD as [E|HD]; [|eapply IH; eassumption].
    pose proof (Dels_In _ _ (cl_strms _ _ _ (close_all_Closes _ t _)) _ Hs) as Hs'.
    eapply strms_search_None; eauto.
Qed.

(* afterFrame re-establishes the invariant for the stream it worked on *)
Lemma after_frame_ns c s fr wc : NS c ->
  sc_sl_done (fst (after_frame cfg c s fr wc)) = true \/ NS (fst (after_frame cfg c s fr wc)).
Proof.
  intro H. unfold after_frame. cbv zeta. set (s1 := handle_state fr s).
  match goal with |- context [let '(c2, s2) := ?X in _] =>
    assert (M : (sc_clientWindow (fst X) <= sc_clientWindow c)%Z /\ sc_strms (fst X) = sc_strms c /\
                (sstate_eqb (st_state (snd X)) SClosed = true \/ stalled (fst X) (snd X))) end.
  { destruct (sstate_eqb (st_state s1) SHalfClosed && st_headersFinished s1 && negb (st_responded s1)).
    - match goal with |- context [if ?b then _ else _] => destruct b end; cbn [fst snd].
      + rewrite sc_clientWindow_write_reset, sc_strms_write_reset. split; [flia|]. split; [reflexivity|]. left. reflexivity.
      + unfold note. sc_cbn. split; [flia|]. split; [reflexivity|]. right. intro W. unfold wants in W. cbn in W. discriminate.
    - destruct (st_responded s1 && negb (st_handlerRunning s1) && has_more_to_send s1) eqn:W.
      + destruct (send_data_ns c s1) as (A & B & C). destruct (send_data c s1) as [[c1 s2] fin]. cbn [fst snd] in *.
        split; [exact B|]. split; [exact C|]. destruct fin; [left; reflexivity|].
        right. intros _. destruct A as [A|A]; [discriminate | exact A].
      + cbn [fst snd]. split; [flia|]. split; [reflexivity|]. right. intro W'. unfold wants in W'. congruence. }
  match goal with |- context [let '(c2, s2) := ?X in _] => destruct X as [c2 s2] end. cbn [fst snd] in M.
  destruct M as (B & C & D).
  assert (G : NS (if sstate_eqb (st_state s2) SClosed then close_stream (put c2 s2) s2 else put c2 s2)).
  { destruct (sstate_eqb (st_state s2) SClosed) eqn:CLS.
    - intros x Hx. rewrite sc_strms_close_stream in Hx. unfold put in Hx. sc_cbn_in Hx. apply del_put_In in Hx.
      rewrite C in Hx. eapply stalled_mono; [|apply H, Hx]. rewrite sc_clientWindow_close_stream. unfold put. sc_cbn. exact B.
    - destruct D as [D|D]; [discriminate|]. intros x Hx. unfold put in Hx. sc_cbn_in Hx.
      apply strms_put_In in Hx. destruct Hx as [->|Hx]; [exact D|]. rewrite C in Hx.
      eapply stalled_mono; [|apply H, Hx]. unfold put. sc_cbn. exact B. }
  match goal with |- context [if ?b then brk ?x else cont ?x] => destruct b end; cbn [fst cont]; [left; reflexivity | right; exact G].
Qed.

Lemma sl_done_ns c sid r : NS c ->
  sc_sl_done (fst (sl_done enc_field cfg c sid r)) = true \/ NS (fst (sl_done enc_field cfg c sid r)).
Proof.
  intro H. unfold sl_done. destruct (take_stream (sc_gone c) sid) as [[s rest]|].
  - right. cbn [fst cont]. eapply NS_Quiet; [|exact H].
    eapply Quiet_trans; [|apply Quiet_release_stream].
    constructor; sc_cbn; first [reflexivity | flia | (left; reflexivity) | (intro; assumption) | (apply out_ext_same; reflexivity)].
  - destruct (strms_search (sc_strms c) sid) as [s|]; [|right; exact H].
    destruct (negb (st_handlerRunning s)); [right; exact H|].
    destruct (finish_request_ns c (set_flags s (st_responded s) false (st_abandoned s)) r) as (A & B & C).
    destruct (finish_request enc_field c _ r) as [[c1 s2] fin]. cbn [fst snd] in *.
    match goal with |- context [if ?b then brk ?x else cont ?x] => assert (G : NS x) end.
    { destruct fin.
      - intros x Hx. rewrite sc_strms_close_stream in Hx. unfold put in Hx. sc_cbn_in Hx.
        change (st_id (set_state s2 SClosed)) with (st_id s2) in Hx.
        assert (Hx' : In x (sc_strms c1)).
        { revert Hx. generalize (sc_strms c1). intro l. induction l as [|a t IH]; cbn [strms_put strms_del]; [intros []|].
          cbn [st_id set_state]. destruct (st_id a =? st_id s2) eqn:E; cbn [strms_del st_id set_state].
          - rewrite N.eqb_refl. intro. right. assumption.
          - rewrite E. cbn [In]. intros [X|X]; auto. }
        rewrite C in Hx'. eapply stalled_mono; [|apply H, Hx'].
        rewrite sc_clientWindow_close_stream. unfold put. sc_cbn. exact B.
      - destruct A as [A|A]; [discriminate|]. intros x Hx. unfold put in Hx. sc_cbn_in Hx.
        apply strms_put_In in Hx. destruct Hx as [->|Hx]; [intros _; unfold put; sc_cbn; exact A|]. rewrite C in Hx.
        eapply stalled_mono; [|apply H, Hx]. unfold put. sc_cbn. exact B. }
    match goal with |- context [if ?b then brk ?x else cont ?x] => destruct b end; cbn [fst cont]; [left; reflexivity | right; exact G].
Qed.

Lemma wants_same a b : same_win a b -> st_responded b = st_responded a -> st_handlerRunning b = st_handlerRunning a ->
  wants b = wants a.
Proof. intros SW E1 E2. unfold wants. rewrite E1, E2, (same_win_has_more _ _ SW). reflexivity. Qed.

Lemma sl_frame_ns c fr L : Sim c L -> NS c ->
  sc_sl_done (fst (sl_frame dec_field enc_set_max cfg c fr)) = true \/ NS (fst (sl_frame dec_field enc_set_max cfg c fr)).
Proof.
  intros S H.
  destruct (sl_frame_SLF _ dec_field enc_set_max cfg c fr)
    as [c' Q D P3 | c' F O SD | Z K HW c0 newInit delta Fa | Z K W | NZ K | c1 s p NZ Or KH Hp | c1 s c2 cX sX NZ Or CL HF].
  - right. eapply NS_Quiet; eassumption.
  - left. exact SD.
  - right. pose proof (settings_Sim _ enc_set_max c fr L S) as S2. cbv zeta in S2. eapply flush_streams_ns. exact S2.
  - right. eapply flush_streams_ns. apply (winupd_Sim _ c (sf_inc fr) L S).
  - right. eapply NS_Recv; [apply Recv_credit | exact H].
  - (* the previous stream's header block is not finished *)
    right.
    assert (H1 : NS c1).
    { destruct Or as [s LE F | KH' FD HI LA]; [exact H|]. intros x Hx. sc_cbn_in Hx. apply in_app_or in Hx.
      destruct Hx as [Hx|[<-|[]]]; [apply H, Hx | intro W; discriminate]. }
    intros x Hx. unfold put in Hx. sc_cbn_in Hx. rewrite sc_strms_write_goaway in Hx. apply strms_put_In in Hx.
    assert (CW : sc_clientWindow (put (write_goaway c1 (st_id p) c_ProtocolError) (set_state p SClosed)) = sc_clientWindow c1).
    { unfold put. sc_cbn. apply sc_clientWindow_write_goaway. }
    destruct Hx as [->|Hx].
    + intro W. unfold stalled in H1. rewrite CW. apply (H1 p Hp). exact W.
    + intro W. rewrite CW. apply (H1 x Hx W).
  - (* the frame is handled on its stream *)
    assert (H1 : NS c1).
    { destruct Or as [s LE F | KH' FD HI LA]; [exact H|]. intros x Hx. sc_cbn_in Hx. apply in_app_or in Hx.
      destruct Hx as [Hx|[<-|[]]]; [apply H, Hx | intro W; discriminate]. }
    destruct (HFok_eff _ dec_field cfg c2 s fr cX sX HF) as (c3 & s3 & R & Q & _).
    apply after_frame_ns. eapply NS_Quiet; [exact Q|]. eapply NS_Recv; [exact R|]. eapply NS_Closes; eassumption.
Qed.

Variable h0 : hstate.
Notation step := (step dec_field enc_field enc_set_max cfg).
Notation Inv := (Inv hstate).

Definition NInv c : Prop := sc_sl_done c = true \/ NS c.

Lemma NInv_same c c' : sc_strms c' = sc_strms c -> sc_clientWindow c' = sc_clientWindow c ->
  (sc_sl_done c = true -> sc_sl_done c' = true) -> NInv c -> NInv c'.
Proof.
  intros E1 E2 E3 [H|H]; [left; auto | right]. eapply NS_mono; [rewrite E1; intros x Hx; exact Hx | rewrite E2; flia | exact H].
Qed.

Lemma step_ns c e L : Inv c L -> NInv c -> NInv (step c e).
Proof.
  intros I H. destruct e as [i| |sid r|t| | | |].
  - rewrite step_EvRL. destruct (sc_rl_done c); [exact H|].
    destruct (rl_step_eff _ cfg c i) as [[r1 r2 r3 r4 r5 r6 r7 r8 r9 r10] _].
    eapply NInv_same; [exact r1 | exact r3 | congruence | exact H].
  - rewrite step_EvSL. destruct (sc_sl_done c) eqn:SD; [exact H|].
    destruct I as [I|S]; [congruence|]. destruct H as [H|H]; [congruence|].
    destruct (sc_readerQ c) as [|fr q].
    + destruct (sc_rl_done c); [left; reflexivity | right; exact H].
    + apply (sl_frame_ns (upd_readerQ c q) fr L); [eapply SimX_same; [..|exact S]; reflexivity | exact H].
  - rewrite step_EvDone. destruct (sc_sl_done c) eqn:SD; [exact H|].
    destruct H as [H|H]; [congruence|]. apply sl_done_ns. exact H.
  - rewrite step_EvClock. destruct (sc_now c <? t)%Z; [|exact H]. eapply NInv_same; [..|exact H]; auto.
  - rewrite step_EvTimer. destruct (sc_sl_done c) eqn:SD; [exact H|].
    destruct H as [H|H]; [congruence|]. right. unfold sl_timer.
    destruct (cf_maxRequestTime cfg <=? 0)%Z; cbn [fst cont]; [exact H|].
    eapply NS_Closes; [apply close_heads_Closes | exact H].
  - rewrite step_EvIdle.
    assert (Q : Quiet c (upd_closer (write_goaway c 0 c_NoError) true)).
    { eapply Quiet_trans; [apply Quiet_write_goaway|].
      constructor; sc_cbn; first [reflexivity | flia | (left; reflexivity) | (intro; assumption) | (apply out_ext_same; reflexivity)]. }
    eapply NInv_same; [apply Q | apply Q | | exact H]. intro SD. destruct (q_sl_done _ _ _ Q) as [X|X]; congruence.
  - rewrite step_EvCloser. destruct (sc_closer c && negb (sc_sl_done c)); [left; reflexivity | exact H].
  - rewrite step_EvWriteFail. eapply NInv_same; [..|exact H]; auto.
Qed.

Lemma ns_from evs : forall c L, Inv c L -> NInv c -> NInv (run_from dec_field enc_field enc_set_max cfg c evs).
Proof.
  induction evs as [|e evs IH]; intros c L I H; [exact H|]. rewrite run_from_cons.
  destruct (StepOK_tl _ dec_field enc_field enc_set_max cfg c e L I) as (_ & I' & _).
  eapply IH; [exact I' | eapply step_ns; eassumption].
Qed.

(* C06 progress, the no-stall invariant: after any events, while the stream loop runs, every stream of the table
   whose response has been handed over (responded, handler finished) and still has bytes to send is blocked by a
   window that is not positive: its own or the connection's. *)
Theorem no_stall evs s :
  let c := run dec_field enc_field enc_set_max cfg h0 evs in
  sc_sl_done c = false -> In s (sc_strms c) ->
  st_responded s && negb (st_handlerRunning s) && has_more_to_send s = true ->
  (zmin (st_window s) (sc_clientWindow c) <= 0)%Z.
Proof.
  cbv zeta. intros SD Hs W. rewrite zmin_min.
  assert (N : NInv (run dec_field enc_field enc_set_max cfg h0 evs)).
  { rewrite run_eq. eapply ns_from; [apply Inv_init|]. right. intros x []. }
  destruct N as [N|N]; [congruence|]. exact (N s Hs W).
Qed.

End Stall.
