(* Proofs/TeardownCliInv1.v -- blocking-structure model (Impl/Teardown.v), client: the lock invariants are inductive.
   Statements: Props/Teardown.v; overview: Proofs/TeardownProofs.v. *)
From Coq Require Import Arith Lia Bool List.
From RecordUpdate Require Import RecordSet.
Import RecordSetNotations.
Import ListNotations.
From H2V Require Import Impl.Teardown Proofs.TeardownCliInv.

Module CliPi1.
Import Cli CliP.
Ltac unf := unfold lx_of, bcount, wl_hold, rl_hold, rl_k, rl_stop, bw_of_state, midn, cpc, xin, resolveX, release, set_cpc, end_cpc,
  bw_of, dead in *.
Ltac act_cases a :=
  destruct a;
  try match goal with p : nat |- _ => destruct p as [|[|[|p]]] end.
Ltac dm :=
  match goal with
  | |- context[match ?x with _ => _ end] =>
      lazymatch x with
      | context[match _ with _ => _ end] => fail
      | _ => destruct x eqn:?
      end
  | H : context[match ?x with _ => _ end] |- _ =>
      lazymatch x with
      | context[match _ with _ => _ end] => fail
      | _ => destruct x eqn:?
      end
  end.
Ltac easy_fin := solve [auto | congruence | lia | tauto | (intuition congruence) ].
Ltac fwd :=
  repeat match goal with
         | H : ?A -> _, H' : ?A |- _ => specialize (H H')
         | H : ?x = ?x -> _ |- _ => specialize (H eq_refl)
         end.
Ltac rwx :=
  repeat match goal with
         | H : xloc ?s = _ |- _ => progress (rewrite H in * )
         end.
Ltac fin := cbn in *; intros; subst; rwk; rwx; fwd; rwk; cbn in *; rewrite ?orb_false_r in *;
  first [ easy_fin | dm; fin ].
Ltac prep G := cbn in G; break; try lia;
  repeat match goal with b : bool |- _ => destruct b | h : hold |- _ => destruct h end;
  unf; rwk; cbn in *; unf;
  try match goal with |- context[xres ?s] => destruct (xres s) eqn:? end; cbn in *.


Section P.
Variable cap : nat.
Notation guard := (Cli.guard cap).
Lemma inv1c_init : forall s, init cap s -> inv1c s.
Proof.
  unfold init; intros s H; break. constructor; unfold wl_hold, rl_hold;
    repeat match goal with H : _ = _ |- _ => rewrite H end; cbn; auto.
Qed.

Lemma inv1c_step : forall s a, inv1c s -> guard a s -> inv1c (eff a s).
Proof.
  intros s a I G. destruct I.
  act_cases a; cbn in G; break; try lia;
    repeat match goal with
           | H : match ?x with _ => _ end = Some _ |- _ =>
               destruct x eqn:?; try discriminate H; inversion H; clear H; subst
           end;
    repeat match goal with b : bool |- _ => destruct b | h : hold |- _ => destruct h end;
    unfold wl_hold, rl_hold, rl_k, rl_stop, cpc, resolveX,
    release, set_cpc, end_cpc, bw_of, dead in *; rwk; cbn in *; unfold resolveX, release, rl_stop, rl_k in *; rwk; cbn in *;
    repeat match goal with
           | |- context[if xres ?s' then _ else _] => destruct (xres s')
           | |- context[if xsid s then _ else _] => destruct (xsid s)
           | |- context[match xloc s with _ => _ end] => destruct (xloc s)
           end; cbn in *;
    constructor; cbn; unfold wl_hold, rl_hold; cbn; rwk; cbn; auto; try congruence.
  all: repeat match goal with
              | H : lx ?s = _ |- _ => progress (rewrite H in * )
              | H : bw ?s = _ |- _ => progress (rewrite H in * )
              end; cbn in *; auto; try congruence.
  all: try (destruct (lx s); destruct (bw s); cbn in *; auto; congruence).
Qed.

Lemma inv1c_inv1 : forall s, inv1c s -> inv1 s.
Proof.
  intros s []. unfold wl_hold, rl_hold in *.
  constructor; unfold lx_of, bw_of_state, bcount, wl_hold, rl_hold.
  - destruct (lx s); cbn in *;
      destruct (wl s) as [| | |[]|[]| | |?| | |]; cbn in *; try discriminate;
      destruct (rl s) as [|?| |[]|? ?|? ?| | |?|]; cbn in *; congruence.
  - intros H1 H2. destruct (lx s); cbn in *;
      destruct (wl s) as [| | |[]|[]| | |?| | |]; cbn in *; try discriminate;
      destruct (rl s) as [|?| |[]|? ?|? ?| | |?|]; cbn in *; congruence.
  - destruct (bw s); cbn in *;
      destruct (wl s) as [| | |?|?| | |[]| | |]; cbn in *; try discriminate;
      destruct (rl s) as [|?| |?|? ?|? ?| | |[]|]; cbn in *; try discriminate;
      destruct (uc s) as [|[]|]; cbn in *; congruence.
  - destruct (bw s); cbn in *;
      destruct (wl s) as [| | |?|?| | |[]| | |]; cbn in *; try discriminate;
      destruct (rl s) as [|?| |?|? ?|? ?| | |[]|]; cbn in *; try discriminate;
      destruct (uc s) as [|[]|]; cbn in *; try discriminate; lia.
Qed.
End P.
End CliPi1.
