(* C05 (read half) and C16: consequences of read_refines_spec. *)
From Coq Require Import List NArith ZArith Bool Lia.
From Coq Require Import ZifyN ZifyNat ZifyBool.
From H2V Require Import Base.Bytes Base.MachineInt Base.Result Gen.GenConsts Spec.Rfc7540Frames
  Impl.Pools Impl.Frames Impl.FrameView Proofs.FramesBits Proofs.FramesSpec Proofs.FramesRead.
Import ListNotations.
Local Open Scope N_scope.
Ltac Zify.zify_post_hook ::= Z.div_mod_to_equations.

(* ---- C05, read: every well-formed frame an independent writer can produce ---- *)

Theorem read_written_frame f rest max :
  wf f -> settings_valid (f_body f) = true -> payload_len f <= effective_limit max -> bytes_ok rest = true ->
  let r := read_frame_with_size max (spec_write f ++ rest) in
  ro_res r = Ok (view max f) /\ ro_used r = 9 + payload_len f.
Proof.
  intros W V L B r.
  assert (bytes_ok (spec_write f ++ rest) = true) as Bb by (rewrite bytes_ok_app, (spec_write_bytes_ok f W), B; reflexivity).
  pose proof (read_refines_spec max _ Bb) as R. fold r in R.
  rewrite (spec_read_write _ f rest W L) in R. cbn [read_expect] in R. rewrite V in R. tauto.
Qed.

(* a well-formed SETTINGS frame carrying a value 6.5.2 forbids is refused, whole frame consumed *)
Theorem read_written_bad_settings f rest max :
  wf f -> settings_valid (f_body f) = false -> payload_len f <= effective_limit max -> bytes_ok rest = true ->
  let r := read_frame_with_size max (spec_write f ++ rest) in
  (exists e, ro_res r = Err e /\ (e = E_settings_proto \/ e = E_settings_flow)) /\ ro_used r = 9 + payload_len f.
Proof.
  intros W V L B r.
  assert (bytes_ok (spec_write f ++ rest) = true) as Bb by (rewrite bytes_ok_app, (spec_write_bytes_ok f W), B; reflexivity).
  pose proof (read_refines_spec max _ Bb) as R. fold r in R.
  rewrite (spec_read_write _ f rest W L) in R. cbn [read_expect] in R. rewrite V in R. tauto.
Qed.

(* ---- C16 ---- *)

(* 1. never panics *)
Theorem read_total max b : bytes_ok b = true -> forall w, ro_res (read_frame_with_size max b) <> Panic w.
Proof.
  intros B w. pose proof (read_refines_spec max b B) as R.
  destruct (spec_read (effective_limit max) b) as [| |k|k|f k]; cbn [read_expect] in R.
  - destruct R as [e ->]. discriminate.
  - destruct R as [-> _]. discriminate.
  - destruct R as [-> _]. discriminate.
  - destruct R as [[e ->] _]. discriminate.
  - destruct R as [_ R]. destruct (settings_valid (f_body f)); [rewrite R|destruct R as (e & -> & _)]; discriminate.
Qed.

(* the RFC reader's Frame outcome is spec_parse of exactly the consumed bytes *)
Lemma spec_read_frame limit b f k : bytes_ok b = true ->
  spec_read limit b = Frame f k ->
  k = 9 + payload_len f /\ k <= len b /\ payload_len f <= limit /\ wf f /\
  takeN k b = spec_write f /\ spec_parse (takeN k b) = Some (f, []).
Proof.
  intros B S.
  assert (exists rest, spec_parse b = Some (f, rest) /\ payload_len f <= limit /\ k = 9 + payload_len f) as (rest & P & L & K).
  { unfold spec_read in S. unfold spec_parse.
    destruct (parse_header b) as [[[[[[n ty] fl] r] sid] rest0]|] eqn:H; [|discriminate].
    destruct (limit <? n) eqn:TL; [discriminate|]. apply N.ltb_ge in TL.
    destruct (len rest0 <? n) eqn:SH; [discriminate|]. apply N.ltb_ge in SH.
    destruct (9 <? ty); [discriminate|].
    assert (n <=? len rest0 = true) as -> by (apply N.leb_le; assumption).
    destruct (parse_payload ty fl (takeN n rest0)) as [body|] eqn:PP; [|discriminate].
    injection S as <- <-. eexists. split; [reflexivity|].
    assert (bytes_ok rest0 = true) as B0.
    { unfold parse_header in H.
      destruct b as [|l2 [|l1 [|l0 [|ty' [|fl' [|s3 [|s2 [|s1 [|s0 rest']]]]]]]]]; try discriminate.
      injection H as _ _ _ _ _ <-. rewrite !bytes_ok_cons in B.
      repeat (apply andb_prop in B; destruct B as [_ B]). exact B. }
    destruct (payload_bytes_parse ty fl _ body (bytes_ok_takeN n rest0 B0) PP) as (E & _ & _).
    unfold payload_len. cbn [f_body]. rewrite E, len_takeN by assumption. auto. }
  destruct (spec_write_parse b f rest B P) as [E W].
  assert (takeN k b = spec_write f) as T.
  { rewrite E, K, <- spec_write_len. apply takeN_len_app. }
  split; [exact K|]. split.
  { rewrite E, len_app, spec_write_len. lia. }
  split; [exact L|]. split; [exact W|]. split; [exact T|].
  rewrite T, <- (app_nil_r (spec_write f)). apply spec_parse_write. exact W.
Qed.

(* 2. whatever is returned is a correct reading of exactly the consumed bytes *)
Theorem read_sound max b fr :
  bytes_ok b = true -> ro_res (read_frame_with_size max b) = Ok fr ->
  exists f, let k := ro_used (read_frame_with_size max b) in
    spec_parse (takeN k b) = Some (f, []) /\ takeN k b = spec_write f /\ wf f /\
    fr = view max f /\ k = 9 + payload_len f /\ k <= len b /\ payload_len f <= effective_limit max.
Proof.
  intros B O. pose proof (read_refines_spec max b B) as R.
  destruct (spec_read (effective_limit max) b) as [| |k|k|f k] eqn:S; cbn [read_expect] in R.
  - destruct R as [e R]. congruence.
  - destruct R as [R _]. congruence.
  - destruct R as [R _]. congruence.
  - destruct R as [[e R] _]. congruence.
  - destruct R as [U R]. destruct (spec_read_frame _ b f k B S) as (K & Lb & Ll & W & T & P).
    destruct (settings_valid (f_body f)).
    + exists f. cbv zeta. rewrite U. rewrite R in O. injection O as <-. auto 10.
    + destruct R as (e & R & _). congruence.
Qed.

(* unknown frame types: the unknown-type error, after discarding exactly the frame *)
Theorem read_unknown_type max b n ty fl r sid rest :
  bytes_ok b = true -> parse_header b = Some (n, ty, fl, r, sid, rest) ->
  9 < ty -> n <= effective_limit max -> n <= len rest ->
  let o := read_frame_with_size max b in
  ro_res o = Err E_unknown_type /\ ro_used o = 9 + n /\ ro_alloc o = 0.
Proof.
  intros B H T L S o. pose proof (read_refines_spec max b B) as R. fold o in R.
  unfold spec_read in R. rewrite H in R.
  assert (effective_limit max <? n = false) as E1 by (apply N.ltb_ge; assumption).
  assert (len rest <? n = false) as E2 by (apply N.ltb_ge; assumption).
  assert (9 <? ty = true) as E3 by (apply N.ltb_lt; assumption).
  rewrite E1, E2, E3 in R. exact R.
Qed.

(* a frame above the limit is refused before anything is allocated, whatever its type *)
Theorem read_too_large max b n ty fl r sid rest :
  bytes_ok b = true -> parse_header b = Some (n, ty, fl, r, sid, rest) ->
  effective_limit max < n ->
  let o := read_frame_with_size max b in
  ro_res o = Err E_too_large /\ ro_used o = 9 /\ ro_alloc o = 0.
Proof.
  intros B H L o. pose proof (read_refines_spec max b B) as R. fold o in R.
  unfold spec_read in R. rewrite H in R.
  assert (effective_limit max <? n = true) as E1 by (apply N.ltb_lt; assumption).
  rewrite E1 in R. exact R.
Qed.

(* the allocation asked for, the bytes taken and the pool log of every call *)
Ltac fin := cbn [ro_alloc ro_used ro_events ro_res rf_alloc rf_used rf_events rf_err rf_f] in *.

Lemma read_shape max b : bytes_ok b = true ->
  let r := read_frame_with_size max b in
  ro_alloc r <= effective_limit max /\ ro_used r <= len b /\ linear (ro_events r) (handed r) = true.
Proof.
  intros B. pose proof (read_total max b B) as NP.
  destruct b as [|l2 [|l1 [|l0 [|ty [|fl [|s3 [|s2 [|s1 [|s0 rest]]]]]]]]];
    try (cbv zeta; split; [apply N.le_0_l|split; [apply N.le_0_l|reflexivity]]).
  apply bytes_ok_4 in B. destruct B as (Hl2 & Hl1 & Hl0 & Hty & B).
  apply bytes_ok_1 in B. destruct B as (Hfl & B).
  apply bytes_ok_4 in B. destruct B as (Hs3 & Hs2 & Hs1 & Hs0 & B).
  assert (len (l2 :: l1 :: l0 :: ty :: fl :: s3 :: s2 :: s1 :: s0 :: rest) = 9 + len rest) as LB
    by (unfold len; cbn [length]; lia).
  rewrite LB. clear LB.
  unfold read_frame_with_size, finish_read, read_from, read_from_gen, handed in *.
  rewrite (len_lt_false (l2 :: l1 :: l0 :: ty :: fl :: s3 :: s2 :: s1 :: s0 :: rest) c_DefaultFrameSize) in *
    by (cbn [length]; change (N.to_nat c_DefaultFrameSize) with 9%nat; lia).
  change (takeN c_DefaultFrameSize (l2 :: l1 :: l0 :: ty :: fl :: s3 :: s2 :: s1 :: s0 :: rest)) with [l2; l1; l0; ty; fl; s3; s2; s1; s0] in *.
  change (dropN c_DefaultFrameSize (l2 :: l1 :: l0 :: ty :: fl :: s3 :: s2 :: s1 :: s0 :: rest)) with rest in *.
  rewrite parse_values_spec in * by assumption.
  set (n := unbe [l2; l1; l0]) in *.
  assert (Hn : n < 2 ^ 24) by (apply unbe3_lt; assumption).
  change (fh_maxLen (set_maxlen acquire_header max)) with max in *.
  cbv iota beta zeta in *.
  rewrite (check_len_eff n max Hn) in *.
  destruct (effective_limit max <? n) eqn:TL.
  { fin. split; [apply N.le_0_l|]. split; [lia|reflexivity]. }
  apply N.ltb_ge in TL.
  destruct ((signed 8 ty <? Z.of_N c_FrameData)%Z || (Z.of_N c_FrameContinuation <? signed 8 ty)%Z).
  { fin. split; [apply N.le_0_l|]. split; [lia|reflexivity]. }
  destruct (acquire_frame (signed 8 ty)) as [bd|e|w].
  - destruct (0 <? n).
    + destruct (len rest <? n) eqn:SH.
      * fin. split; [assumption|]. split; [lia|reflexivity].
      * apply N.ltb_ge in SH.
        destruct (deserialize bd fl _ n) as [bd'|e|w]; fin.
        -- split; [assumption|]. split; [lia|reflexivity].
        -- split; [assumption|]. split; [lia|reflexivity].
        -- exfalso. apply (NP w). reflexivity.
    + destruct (deserialize bd fl _ n) as [bd'|e|w]; fin.
      * split; [apply N.le_0_l|]. split; [lia|reflexivity].
      * split; [apply N.le_0_l|]. split; [lia|reflexivity].
      * exfalso. apply (NP w). reflexivity.
  - fin. split; [apply N.le_0_l|]. split; [lia|reflexivity].
  - exfalso. apply (NP w). reflexivity.
Qed.

(* 2b. the payload buffer asked for never exceeds the limit *)
Theorem read_alloc_bounded max b : bytes_ok b = true ->
  ro_alloc (read_frame_with_size max b) <= effective_limit max.
Proof. intros B. apply (read_shape max b B). Qed.

Theorem read_used_bounded max b : bytes_ok b = true ->
  ro_used (read_frame_with_size max b) <= len b.
Proof. intros B. apply (read_shape max b B). Qed.

(* 5. pool safety: on success and on every error path the log is linear, and exactly the
   returned *FrameHeader and its body are left with the caller *)
Theorem read_pool_safe max b : bytes_ok b = true ->
  let r := read_frame_with_size max b in linear (ro_events r) (handed r) = true.
Proof. intros B. apply (read_shape max b B). Qed.

(* 3. impossible structure is never returned as a frame *)
Lemma unpad_impossible fl p : flag fl PADDED = true -> pad_impossible p -> unpad fl p = None.
Proof.
  unfold unpad, pad_impossible. intros -> H. destruct p as [|pl q]; [reflexivity|].
  assert (pl <=? len q = false) as -> by (apply N.leb_gt; assumption). reflexivity.
Qed.

Lemma impossible_none ty fl p : impossible ty fl p -> parse_payload ty fl p = None.
Proof.
  unfold impossible.
  intros [[-> H]|[[-> H]|[[-> H]|[[-> H]|[[-> H]|[[-> H]|[[T [F H]]|[[-> H]|[-> [F H]]]]]]]]]]; unfold parse_payload.
  - destruct p as [|a [|b [|c [|d [|w [|x r]]]]]]; try reflexivity. exfalso. apply H. reflexivity.
  - destruct p as [|a [|b [|c [|d [|x r]]]]]; try reflexivity. exfalso. apply H. reflexivity.
  - destruct H as [H|[F H]].
    + destruct (parse_settings p) as [items|] eqn:S; [|destruct (flag fl ACK && negb (len p =? 0)); reflexivity].
      exfalso. apply H. eapply parse_settings_len. eassumption.
    + rewrite F. assert (len p =? 0 = false) as -> by (apply N.eqb_neq; assumption). reflexivity.
  - assert (len p =? 8 = false) as -> by (apply N.eqb_neq; assumption). reflexivity.
  - destruct p as [|a [|b [|c [|d [|e [|f [|g [|h debug]]]]]]]]; try reflexivity.
    exfalso. unfold len in H. cbn [length] in H. lia.
  - destruct p as [|a [|b [|c [|d [|x r]]]]]; try reflexivity. exfalso. apply H. reflexivity.
  - rewrite (unpad_impossible fl p F H). destruct T as [->|[->| ->]]; reflexivity.
  - destruct H as (pad & c & -> & L).
    destruct c as [|a [|b [|c' [|d frag]]]]; try reflexivity. exfalso. unfold len in L. cbn [length] in L. lia.
  - destruct H as (pad & c & -> & L). rewrite F.
    destruct c as [|a [|b [|c' [|d [|w frag]]]]]; try reflexivity. exfalso. unfold len in L. cbn [length] in L. lia.
Qed.

Lemma impossible_known ty fl p : impossible ty fl p -> ty <= 9.
Proof.
  unfold impossible.
  intros [[-> _]|[[-> _]|[[-> _]|[[-> _]|[[-> _]|[[-> _]|[[[->|[->| ->]] _]|[[-> _]|[-> _]]]]]]]]]; lia.
Qed.

Theorem structure_rejected max b n ty fl r sid rest :
  bytes_ok b = true -> parse_header b = Some (n, ty, fl, r, sid, rest) -> n <= len rest ->
  impossible ty fl (takeN n rest) ->
  exists e, ro_res (read_frame_with_size max b) = Err e.
Proof.
  intros B H L I. pose proof (read_refines_spec max b B) as R.
  unfold spec_read in R. rewrite H in R.
  destruct (effective_limit max <? n); [destruct R as [-> _]; eauto|].
  assert (len rest <? n = false) as E2 by (apply N.ltb_ge; assumption).
  assert (9 <? ty = false) as E3 by (apply N.ltb_ge; eapply impossible_known; eassumption).
  rewrite E2, E3, (impossible_none _ _ _ I) in R. destruct R as [R _]. exact R.
Qed.

(* 4. a frame cut short anywhere is an error *)
Lemma parse_header_short l : len l < 9 -> parse_header l = None.
Proof.
  intros H. destruct l as [|l2 [|l1 [|l0 [|ty [|fl [|s3 [|s2 [|s1 [|s0 rest]]]]]]]]]; try reflexivity.
  exfalso. unfold len in H. cbn [length] in H. lia.
Qed.

Lemma len_takeN_le n (l : bytes) : len (takeN n l) <= n.
Proof. unfold len, takeN. pose proof (firstn_le_length (N.to_nat n) l). lia. Qed.

Theorem truncation max b n ty fl r sid rest k :
  bytes_ok b = true -> parse_header b = Some (n, ty, fl, r, sid, rest) -> k < 9 + n ->
  exists e, ro_res (read_frame_with_size max (takeN k b)) = Err e.
Proof.
  intros B H K. pose proof (read_refines_spec max _ (bytes_ok_takeN k b B)) as R.
  assert (spec_read (effective_limit max) (takeN k b) = Short \/ spec_read (effective_limit max) (takeN k b) = TooLarge) as S.
  { destruct (N.lt_ge_cases k 9) as [K9|K9].
    - left. unfold spec_read. rewrite parse_header_short; [reflexivity|].
      pose proof (len_takeN_le k b). lia.
    - unfold parse_header in H.
      destruct b as [|l2 [|l1 [|l0 [|ty' [|fl' [|s3 [|s2 [|s1 [|s0 rest']]]]]]]]]; try discriminate.
      injection H as <- <- <- <- <- <-.
      assert (takeN k (l2 :: l1 :: l0 :: ty' :: fl' :: s3 :: s2 :: s1 :: s0 :: rest') =
              l2 :: l1 :: l0 :: ty' :: fl' :: s3 :: s2 :: s1 :: s0 :: takeN (k - 9) rest') as ->.
      { unfold takeN. replace (N.to_nat k) with (9 + N.to_nat (k - 9))%nat by lia. reflexivity. }
      unfold spec_read, parse_header.
      destruct (effective_limit max <? unbe [l2; l1; l0]); [right; reflexivity|].
      assert (len (takeN (k - 9) rest') <? unbe [l2; l1; l0] = true) as ->.
      { apply N.ltb_lt. pose proof (len_takeN_le (k - 9) rest'). lia. }
      left. reflexivity. }
  destruct S as [S|S]; rewrite S in R; cbn [read_expect] in R.
  - exact R.
  - destruct R as [-> _]. eauto.
Qed.

(* position: after a frame the reader stands at the next one - a stream of frames read one
   call after the other on the same reader gives each frame in turn *)
Fixpoint read_many (max : N) (n : nat) (b : bytes) : list (result fhdr) :=
  match n with
  | O => []
  | S n' =>
      let r := read_frame_with_size max b in
      ro_res r :: read_many max n' (dropN (ro_used r) b)
  end.

Definition readable (max : N) (f : frame) : Prop :=
  wf f /\ settings_valid (f_body f) = true /\ payload_len f <= effective_limit max.

Lemma stream_bytes_ok fs : Forall wf fs -> bytes_ok (flat_map spec_write fs) = true.
Proof.
  induction 1 as [|f fs W _ IH]; [reflexivity|].
  cbn [flat_map]. rewrite bytes_ok_app, (spec_write_bytes_ok f W), IH. reflexivity.
Qed.

Theorem read_stream max fs rest :
  Forall (readable max) fs -> bytes_ok rest = true ->
  read_many max (length fs) (flat_map spec_write fs ++ rest) = map (fun f => Ok (view max f)) fs.
Proof.
  intros F B. induction F as [|f fs (W & V & L) F IH]; [reflexivity|].
  cbn [length read_many flat_map map]. rewrite <- app_assoc.
  assert (bytes_ok (flat_map spec_write fs ++ rest) = true) as Bt.
  { rewrite bytes_ok_app, B, stream_bytes_ok; [reflexivity|].
    eapply Forall_impl; [|exact F]. intros a (Wa & _). exact Wa. }
  destruct (read_written_frame f _ max W V L Bt) as [R U]. rewrite R, U. f_equal.
  rewrite <- spec_write_len, dropN_len_app. exact IH.
Qed.
