(* Proofs/SrvRfcKnown.v - C08: a frame on a stream of the table (or on the stream just made
   for it): how the invariant is re-established when the stream stays, and when it is closed. *)
From H2V Require Import Base.Bytes Base.MachineInt Base.Result Gen.GenConsts Impl.ServerConn.
From H2V Require Import Proofs.SrvBase Proofs.SrvRfcDefs Proofs.SrvRfcSpec Proofs.SrvRfcModel Proofs.SrvRfcSim Proofs.SrvRfcEff
  Proofs.SrvRfcSend Proofs.SrvRfcStep Proofs.SrvRfcKit Proofs.SrvRfcRl Proofs.SrvRfcSl.
From Coq Require Import ZArith Lia ZifyN ZifyNat ZifyBool.
Local Open Scope N_scope.

(* what a stream of the table looks like between two frames *)
Definition strm_ok (st : stream) : Prop :=
  (st_state st = SOpen \/ st_state st = SHalfClosed) /\ st_weReset st = false /\
  (st_responded st = true \/ st_handlerRunning st = true -> st_state st = SHalfClosed /\ st_headersFinished st = true) /\
  (st_state st = SHalfClosed -> st_headersFinished st = true -> st_responded st = true) /\
  (has_more_to_send st = true -> st_bodyStream st = None -> st_pendingEnd st = true).

Section Known.
Variable hstate : Type.
Variable dec_field : hstate -> N -> bytes -> dec_res hstate.
Variable enc_field : hstate -> bytes -> bytes -> bool -> bytes * hstate.
Variable enc_set_max : hstate -> N -> hstate.
Variable cfg : config.
Notation sconn := (sconn hstate).
Notation feed := (feed hstate dec_field enc_field enc_set_max cfg).
Notation G := (G hstate).
Notation view := (view hstate).
Notation tbl := (tbl hstate).
Notation Sim := (Sim hstate).
Notation AuxT := (AuxT hstate).
Notation AuxH := (AuxH hstate).
Notation seq_ok := (seq_ok hstate).
Implicit Types c : sconn.

(* the table the stream loop works on: the one it found, or that one with the stream it has
   just made for a HEADERS frame on a new id *)
Definition base c (fr : sframe) (L : list stream) (last' high' : N) : Prop :=
  (L = sc_strms c /\ last' = sc_lastID c /\ high' = sc_highestID c /\ (exists old, tbl c (sf_sid fr) = Some old)) \/
  (exists new, L = sc_strms c ++ [new] /\ st_id new = sf_sid fr /\ tbl c (sf_sid fr) = None /\ ring_find c (sf_sid fr) = None /\
               last' = sf_sid fr /\ high' = sf_sid fr /\ sc_highestID c < sf_sid fr /\ sc_closing c = false).

Lemma AuxT_strm_ok c st : AuxT c -> In st (sc_strms c) -> strm_ok st.
Proof.
  intros AT H. destruct (A_st _ _ AT st H) as (A & B & C & D).
  split; [exact A|]. split; [exact B|]. split; [exact C|]. split; [exact D|]. apply (A_snd _ _ AT st H).
Qed.

Lemma base_facts c fr L l' h' : AuxT c -> base c fr L l' h' ->
  NoDup (map st_id L) /\ sc_lastID c <= l' /\ l' <= h' /\ sc_highestID c <= h' /\
  (exists old, strms_search L (sf_sid fr) = Some old) /\
  (forall st, In st L -> st_id st <> sf_sid fr -> In st (sc_strms c)) /\
  (forall id, id <> sf_sid fr -> strms_search L id = tbl c id) /\
  (forall st, In st (sc_strms c) -> st_id st <> sf_sid fr -> In st L) /\
  (forall st, In st (sc_strms c) -> st_id st <= l') /\ sf_sid fr <= l' /\ ring_find c (sf_sid fr) = None.
Proof.
  intros AT [(-> & -> & -> & old & Ho)|(new & -> & Hid & Tn & Rn & -> & -> & Hgt & Hcl)].
  - pose proof (search_In _ _ _ Ho) as HoIn. pose proof (search_id _ _ _ Ho) as Hoid.
    split; [apply (A_nodup _ _ AT)|]. split; [lia|]. split; [apply (A_last _ _ AT)|]. split; [lia|].
    split; [eauto|]. split; [auto|]. split; [reflexivity|]. split; [auto|].
    split; [intros st H; apply (A_ids _ _ AT st H)|].
    split; [rewrite <- Hoid; apply (A_ids _ _ AT old HoIn)|].
    pose proof (A_tr _ _ AT old HoIn) as X. rewrite Hoid, in_ring_find in X. destruct (ring_find c (sf_sid fr)); [discriminate | reflexivity].
  - assert (NI : ~ In (st_id new) (map st_id (sc_strms c))).
    { intro H. destruct (search_in _ _ H) as [x Hx]. rewrite Hid in Hx. unfold SrvRfcDefs.tbl in Tn. congruence. }
    pose proof (A_last _ _ AT) as LL.
    split; [apply app_nodup; [apply (A_nodup _ _ AT) | exact NI]|]. split; [lia|]. split; [lia|]. split; [lia|].
    split; [exists new; rewrite search_app; unfold SrvRfcDefs.tbl in Tn; rewrite Tn, Hid, N.eqb_refl; reflexivity|].
    split; [intros st H Hne; apply in_app_or in H; destruct H as [H|[<-|[]]]; [exact H | congruence]|].
    split; [intros id Hne; rewrite search_app; unfold SrvRfcDefs.tbl; destruct (strms_search (sc_strms c) id); [reflexivity|];
            rewrite Hid; replace (sf_sid fr =? id) with false by lia; reflexivity|].
    split; [intros st H _; apply in_or_app; left; exact H|].
    split; [intros st H; pose proof (proj2 (A_ids _ _ AT st H)); lia|]. split; [lia | exact Rn].
Qed.

(* every other stream of the table has its headers (the read loop lets one block at a time through) *)
Lemma others_finished c fr ec' st : AuxT c -> AuxH c -> seq_ok c fr ec' -> In st (sc_strms c) -> st_id st <> sf_sid fr ->
  st_headersFinished st = true.
Proof.
  intros AT AH SQ H Hne. destruct (st_headersFinished st) eqn:F; [reflexivity|]. exfalso.
  pose proof (A_fin _ _ AH st H F) as X. destruct (A_ids _ _ AT st H) as [O _].
  destruct SQ as [(E0 & _)|(_ & _ & Sd & _)]; [rewrite E0 in X; rewrite X in O; discriminate | congruence].
Qed.

(* the stream stays in the table *)
Lemma G_keep c s ph fr ec' L l' h' sF c' d :
  Sim c s ph -> sc_sl_done c = false -> seq_ok c fr ec' -> N.odd (sf_sid fr) = true ->
  feed c (IIn (RFrame fr)) = c' -> base c fr L l' h' -> st_id sF = sf_sid fr ->
  sc_strms c' = strms_put L sF -> sc_ring c' = sc_ring c -> sc_oldest c' = sc_oldest c ->
  sc_lastID c' = l' -> sc_highestID c' = h' -> sc_rl_done c' = sc_rl_done c -> sc_wl_dead c' = sc_wl_dead c ->
  sc_readerQ c' = sc_readerQ c -> sc_sl_done c' = false -> sc_closing c' = sc_closing c -> sc_expectCont c' = ec' ->
  sc_discardID c' = sc_discardID c -> sc_out c' = d ++ sc_out c ->
  strm_ok sF -> (st_headersFinished sF = false -> ec' = sf_sid fr) -> (ec' <> 0 -> st_headersFinished sF = false) ->
  (RS.allowed s (RS.Frame (abs_frame fr)) (resolve s (RS.Frame (abs_frame fr)) (classify (sf_sid fr) (rev (filter noisy d)))) = true \/
   known_deviation hstate c s (RFrame fr) = true) ->
  outs_on (sf_sid fr) d ->
  RS.st_of (after_outs (RS.spec_next s (RS.Frame (abs_frame fr)) (resolve s (RS.Frame (abs_frame fr)) (classify (sf_sid fr) (rev (filter noisy d))))) d) (sf_sid fr)
    = (match st_state sF with SOpen => RS.Open | _ => RS.HalfClosedRemote end) ->
  RS.goaway (after_outs (RS.spec_next s (RS.Frame (abs_frame fr)) (resolve s (RS.Frame (abs_frame fr)) (classify (sf_sid fr) (rev (filter noisy d))))) d) = RS.goaway s ->
  RS.highest (after_outs (RS.spec_next s (RS.Frame (abs_frame fr)) (resolve s (RS.Frame (abs_frame fr)) (classify (sf_sid fr) (rev (filter noisy d))))) d) = h' ->
  RS.request_step (ph (sf_sid fr)) (abs_frame fr) = phase_of sF ->
  (forall sid rq, In (ODispatch sid rq) d -> sid = sf_sid fr /\ phase_of sF = RS.PDone) ->
  G c s ph (RFrame fr) (feed c (IIn (RFrame fr))).
Proof.
  intros HS Hsl SQ Od E HB Hid Hstr Hring Hold Hlast Hhigh Hrl Hwl Hq Hsl' Hcl Hec Hdi Ho Hok Hf1 Hf2 Ha Hon Hst Hga Hhi Hph Hdisp.
  pose proof (S_aux _ _ _ _ HS) as [AT AH]. pose proof (S_wf _ _ _ _ HS) as W.
  destruct (base_facts c fr L l' h' AT HB) as (ND & L1 & L2 & L3 & (old & Hold') & In1 & Tb & In2 & Le & SidLe & Rn).
  assert (TbS : tbl c' (sf_sid fr) = Some sF).
  { unfold SrvRfcDefs.tbl. rewrite Hstr, <- Hid. eapply search_put_same. rewrite Hid. exact Hold'. }
  assert (TbO : forall id, id <> sf_sid fr -> tbl c' id = tbl c id).
  { intros id Hne. unfold SrvRfcDefs.tbl at 1. rewrite Hstr, search_put_other by (rewrite Hid; exact Hne). apply Tb, Hne. }
  assert (InC' : forall st, In st (sc_strms c') -> st = sF \/ (In st (sc_strms c) /\ st_id st <> sf_sid fr)).
  { intros st H. rewrite Hstr in H. destruct (put_In _ _ _ ND H) as [X|[X Y]]; [left; exact X|]. rewrite Hid in Y. right. split; [apply In1; assumption | exact Y]. }
  assert (RF : forall id, ring_find c' id = ring_find c id) by (intro id; apply ring_find_ext, Hring).
  set (r := resolve s (RS.Frame (abs_frame fr)) (classify (sf_sid fr) (rev (filter noisy d)))) in *.
  set (s2 := after_outs (RS.spec_next s (RS.Frame (abs_frame fr)) r) d) in *.
  apply (G_live hstate dec_field enc_field enc_set_max cfg c s ph fr c' d E Hsl' Ho Ha).
  - apply (live_tuple_one hstate c c' s s2 ph _ (sf_sid fr) HS).
    + (* Aux *)
      split.
      * constructor.
        -- rewrite Hrl. apply (A_rl _ _ AT).
        -- rewrite Hwl. apply (A_wl _ _ AT).
        -- rewrite Hq. apply (A_q _ _ AT).
        -- rewrite Hstr. apply put_nodup, ND.
        -- intros st H. rewrite Hlast. destruct (InC' st H) as [->|[X Y]].
           ++ rewrite Hid. split; [exact Od | exact SidLe].
           ++ split; [apply (A_ids _ _ AT st X) | apply Le, X].
        -- rewrite Hlast, Hhigh. exact L2.
        -- eapply ring_ok_ext; [exact Hring | exact Hold | apply (A_ring _ _ AT)].
        -- intros st H. rewrite in_ring_find, RF. destruct (InC' st H) as [->|[X Y]].
           ++ rewrite Hid, Rn. reflexivity.
           ++ pose proof (A_tr _ _ AT st X) as Z. rewrite in_ring_find in Z. exact Z.
        -- intros st H. destruct (InC' st H) as [->|[X Y]].
           ++ destruct Hok as (A & B & C & D & _). auto.
           ++ apply (A_st _ _ AT st X).
        -- intros st H. destruct (InC' st H) as [->|[X Y]].
           ++ destruct Hok as (_ & _ & _ & _ & D). exact D.
           ++ apply (A_snd _ _ AT st X).
      * constructor.
        -- intros st H Hf. rewrite Hec. destruct (InC' st H) as [->|[X Y]].
           ++ rewrite Hid. symmetry. apply Hf1, Hf.
           ++ rewrite (others_finished c fr ec' st AT AH SQ X Y) in Hf. discriminate.
        -- intros st Hne H. rewrite Hec in Hne, H. destruct (ec'_cases hstate c fr ec' SQ) as [Z|Z]; [exfalso; apply Hne; exact Z|].
           rewrite Z, TbS in H. inversion H; subst st. apply Hf2, Hne.
        -- rewrite Hec. intro Hne. destruct (ec'_cases hstate c fr ec' SQ) as [Z|Z]; [exfalso; apply Hne; exact Z | rewrite Z; exact Od].
        -- rewrite Hdi, Hhigh. intro Hne. destruct (A_disc _ _ AH Hne) as [X Y]. split; [|clear -Y L3; lia].
           rewrite TbO; [exact X|]. intro Z. rewrite Z in X, Y.
           destruct HB as [(_ & _ & _ & o & Ho')|(new & _ & _ & _ & _ & _ & _ & Hgt & _)]; [rewrite Ho' in X; discriminate | clear -Y Hgt; lia].
    + intros id Hne. split; [rewrite (TbO id Hne); reflexivity | left; apply RF].
    + intros _. unfold SrvRfcDefs.view. rewrite TbS. cbn [rel1 rel]. rewrite Hst.
      destruct Hok as ([X|X] & _); rewrite X; reflexivity.
    + intros id Hne. apply sdrift_after; [exact W | exact Hne | exact Hon].
    + unfold R_block. rewrite Hec. apply (block_after hstate c s fr ec' r d SQ); [intro Z; rewrite Z in Od; discriminate | exact (S_blk _ _ _ _ HS)].
    + rewrite Hga, Hcl. exact (S_ga _ _ _ _ HS).
    + rewrite Hhi, Hhigh. reflexivity.
    + intros Hne H. exfalso. rewrite Hec in H, Hne. destruct (ec'_cases hstate c fr ec' SQ) as [Z|Z]; [apply Hne; exact Z|]. rewrite Z, TbS in H. discriminate.
    + intros st H. cbn [ph_next]. destruct (InC' st H) as [->|[X Y]].
      * rewrite Hid, N.eqb_refl. exact Hph.
      * replace (st_id st =? sf_sid fr) with false by (clear -Y; lia). exact (S_ph _ _ _ _ HS st X).
    + intros Hc id O Lt. rewrite Hhigh in Lt. cbn [ph_next]. replace (id =? sf_sid fr) with false by (clear -Lt SidLe L2; lia).
      apply (S_new _ _ _ _ HS); [rewrite <- Hcl; exact Hc | exact O | clear -Lt L3; lia].
  - intros sid rq H. destruct (Hdisp sid rq H) as [-> X]. cbn [ph_next]. rewrite N.eqb_refl, Hph. exact X.
Qed.

(* the stream leaves the table for the ring *)
Lemma G_close c s ph fr ec' L l' h' sF c' d :
  Sim c s ph -> sc_sl_done c = false -> seq_ok c fr ec' -> N.odd (sf_sid fr) = true ->
  feed c (IIn (RFrame fr)) = c' -> base c fr L l' h' -> st_id sF = sf_sid fr ->
  sc_strms c' = strms_del (strms_put L sF) (sf_sid fr) ->
  sc_ring c' = sc_ring (mark_closed c (sf_sid fr) (st_weReset sF)) -> sc_oldest c' = sc_oldest (mark_closed c (sf_sid fr) (st_weReset sF)) ->
  sc_lastID c' = l' -> sc_highestID c' = h' -> sc_rl_done c' = sc_rl_done c -> sc_wl_dead c' = sc_wl_dead c ->
  sc_readerQ c' = sc_readerQ c -> sc_sl_done c' = false -> sc_closing c' = sc_closing c -> sc_expectCont c' = ec' ->
  (sc_discardID c' = sc_discardID c \/ sc_discardID c' = sf_sid fr) -> (ec' <> 0 -> sc_discardID c' = sf_sid fr) ->
  sc_out c' = d ++ sc_out c ->
  (RS.allowed s (RS.Frame (abs_frame fr)) (resolve s (RS.Frame (abs_frame fr)) (classify (sf_sid fr) (rev (filter noisy d)))) = true \/
   known_deviation hstate c s (RFrame fr) = true) ->
  outs_on (sf_sid fr) d ->
  rel (MRing (st_weReset sF))
      (RS.st_of (after_outs (RS.spec_next s (RS.Frame (abs_frame fr)) (resolve s (RS.Frame (abs_frame fr)) (classify (sf_sid fr) (rev (filter noisy d))))) d) (sf_sid fr)) ->
  RS.goaway (after_outs (RS.spec_next s (RS.Frame (abs_frame fr)) (resolve s (RS.Frame (abs_frame fr)) (classify (sf_sid fr) (rev (filter noisy d))))) d) = RS.goaway s ->
  RS.highest (after_outs (RS.spec_next s (RS.Frame (abs_frame fr)) (resolve s (RS.Frame (abs_frame fr)) (classify (sf_sid fr) (rev (filter noisy d))))) d) = h' ->
  (forall sid rq, ~ In (ODispatch sid rq) d) ->
  G c s ph (RFrame fr) (feed c (IIn (RFrame fr))).
Proof.
  intros HS Hsl SQ Od E HB Hid Hstr Hring Hold Hlast Hhigh Hrl Hwl Hq Hsl' Hcl Hec Hdi Hdi2 Ho Ha Hon Hst Hga Hhi Hdisp.
  pose proof (S_aux _ _ _ _ HS) as [AT AH]. pose proof (S_wf _ _ _ _ HS) as W.
  destruct (base_facts c fr L l' h' AT HB) as (ND & L1 & L2 & L3 & (old & Hold') & In1 & Tb & In2 & Le & SidLe & Rn).
  rewrite <- Hid, del_put, Hid in Hstr.
  assert (TbS : tbl c' (sf_sid fr) = None) by (unfold SrvRfcDefs.tbl; rewrite Hstr; apply search_del_same, ND).
  assert (TbO : forall id, id <> sf_sid fr -> tbl c' id = tbl c id).
  { intros id Hne. unfold SrvRfcDefs.tbl at 1. rewrite Hstr, search_del_other by exact Hne. apply Tb, Hne. }
  assert (InC' : forall st, In st (sc_strms c') -> In st (sc_strms c) /\ st_id st <> sf_sid fr).
  { intros st H. rewrite Hstr in H. destruct (del_In _ _ _ ND H) as [X Y]. split; [apply In1; assumption | exact Y]. }
  assert (RF : forall id, ring_find c' id = ring_find (mark_closed c (sf_sid fr) (st_weReset sF)) id) by (intro id; apply ring_find_ext, Hring).
  pose proof (A_ring _ _ AT) as RO.
  set (r := resolve s (RS.Frame (abs_frame fr)) (classify (sf_sid fr) (rev (filter noisy d)))) in *.
  set (s2 := after_outs (RS.spec_next s (RS.Frame (abs_frame fr)) r) d) in *.
  apply (G_live hstate dec_field enc_field enc_set_max cfg c s ph fr c' d E Hsl' Ho Ha).
  - apply (live_tuple_one hstate c c' s s2 ph _ (sf_sid fr) HS).
    + split.
      * constructor.
        -- rewrite Hrl. apply (A_rl _ _ AT).
        -- rewrite Hwl. apply (A_wl _ _ AT).
        -- rewrite Hq. apply (A_q _ _ AT).
        -- rewrite Hstr. apply del_nodup, ND.
        -- intros st H. rewrite Hlast. destruct (InC' st H) as [X Y]. split; [apply (A_ids _ _ AT st X) | apply Le, X].
        -- rewrite Hlast, Hhigh. exact L2.
        -- eapply ring_ok_ext; [exact Hring | exact Hold | apply ring_ok_mark, RO].
        -- intros st H. destruct (InC' st H) as [X Y]. rewrite in_ring_find, RF.
           pose proof (A_tr _ _ AT st X) as Z. rewrite in_ring_find in Z.
           destruct (ring_find_mark_other hstate c (sf_sid fr) (st_weReset sF) (st_id st) RO Y) as [Q|Q]; rewrite Q; [exact Z | reflexivity].
        -- intros st H. destruct (InC' st H) as [X Y]. apply (A_st _ _ AT st X).
        -- intros st H. destruct (InC' st H) as [X Y]. apply (A_snd _ _ AT st X).
      * constructor.
        -- intros st H Hf. destruct (InC' st H) as [X Y]. rewrite (others_finished c fr ec' st AT AH SQ X Y) in Hf. discriminate.
        -- intros st Hne H. rewrite Hec in Hne, H. destruct (ec'_cases hstate c fr ec' SQ) as [Z|Z]; [exfalso; apply Hne; exact Z|].
           rewrite Z, TbS in H. discriminate.
        -- rewrite Hec. intro Hne. destruct (ec'_cases hstate c fr ec' SQ) as [Z|Z]; [exfalso; apply Hne; exact Z | rewrite Z; exact Od].
        -- rewrite Hhigh. intro Hne. destruct Hdi as [X|X]; rewrite X in *.
           ++ destruct (A_disc _ _ AH Hne) as [Y Y']. split; [|clear -Y' L3; lia].
              destruct (N.eq_dec (sc_discardID c) (sf_sid fr)) as [Q|Q]; [rewrite Q; exact TbS | rewrite TbO; assumption].
           ++ split; [exact TbS | clear -SidLe L2; lia].
    + intros id Hne. split; [rewrite (TbO id Hne); reflexivity|]. rewrite RF. apply ring_find_mark_other; [exact RO | exact Hne].
    + intros _. unfold SrvRfcDefs.view. rewrite TbS, RF, ring_find_mark_same by exact RO. rewrite Rn. cbn [rel1]. exact Hst.
    + intros id Hne. apply sdrift_after; [exact W | exact Hne | exact Hon].
    + unfold R_block. rewrite Hec. apply (block_after hstate c s fr ec' r d SQ); [intro Z; rewrite Z in Od; discriminate | exact (S_blk _ _ _ _ HS)].
    + rewrite Hga, Hcl. exact (S_ga _ _ _ _ HS).
    + rewrite Hhi, Hhigh. reflexivity.
    + intros Hne _. left. rewrite Hec in *. rewrite (Hdi2 Hne). destruct (ec'_cases hstate c fr ec' SQ) as [Z|Z]; [exfalso; apply Hne; exact Z | symmetry; exact Z].
    + intros st H. cbn [ph_next]. destruct (InC' st H) as [X Y].
      replace (st_id st =? sf_sid fr) with false by (clear -Y; lia). exact (S_ph _ _ _ _ HS st X).
    + intros Hc id O Lt. rewrite Hhigh in Lt. cbn [ph_next]. replace (id =? sf_sid fr) with false by (clear -Lt SidLe L2; lia).
      apply (S_new _ _ _ _ HS); [rewrite <- Hcl; exact Hc | exact O | clear -Lt L3; lia].
  - intros sid rq H. exfalso. exact (Hdisp sid rq H).
Qed.

Lemma allowed_goaway_close s i : RS.goaway s = true -> RS.allowed s i RS.ConnClose = true.
Proof. intro H. unfold RS.allowed. rewrite H. cbn. apply orb_true_r. Qed.

(* the last step of afterFrame: once GOAWAY has been sent and the last stream it covers is
   gone, the stream loop ends *)
Lemma G_finish c s ph fr c3 d :
  Sim c s ph ->
  feed c (IIn (RFrame fr)) = fst (if sc_closing c && can_close_after_goaway c3 then brk c3 else cont c3) ->
  sc_out c3 = d ++ sc_out c -> (forall o, In o d -> is_goaway o = None) ->
  (forall sid rq, In (ODispatch sid rq) d -> ph_next ph (IIn (RFrame fr)) sid = RS.PDone) ->
  (feed c (IIn (RFrame fr)) = c3 -> G c s ph (RFrame fr) (feed c (IIn (RFrame fr)))) ->
  G c s ph (RFrame fr) (feed c (IIn (RFrame fr))).
Proof.
  intros HS E Ho Hng Hd Hlive.
  destruct (sc_closing c && can_close_after_goaway c3)%bool eqn:C; cbn [fst cont] in E; [|apply Hlive, E].
  apply andb_true_iff in C. destruct C as [C _].
  apply (G_over hstate dec_field enc_field enc_set_max cfg c s ph (RFrame fr) _ (OExit 1 0 :: d) E).
  - reflexivity.
  - rewrite sc_out_brk, Ho. reflexivity.
  - reflexivity.
  - left. cbn [abs_input input_sid filter noisy strip_late rev]. rewrite classify_close.
    + apply allowed_goaway_close. rewrite (S_ga _ _ _ _ HS). exact C.
    + intros o Hin. apply in_app_or in Hin. destruct Hin as [Hin|[<-|[]]]; [|reflexivity]. apply (no_goaway_rev_filter d Hng), Hin.
    + rewrite existsb_app. cbn [existsb is_exit strip_late]. apply orb_true_r.
  - intros sid rq [H|H]; [discriminate | exact (Hd sid rq H)].
Qed.

(* ---------- what handleFrame does to the connection ---------- *)

Definition quiet_ext c c' : Prop :=
  exists dq, sc_out c' = dq ++ sc_out c /\ filter noisy dq = [] /\ (forall sid rq, ~ In (ODispatch sid rq) dq).

(* same as c but for the outputs (quiet ones), the decoder, the windows and the discard registers *)
Definition hf_eff c c' : Prop :=
  sc_strms c' = sc_strms c /\ sc_ring c' = sc_ring c /\ sc_oldest c' = sc_oldest c /\ sc_lastID c' = sc_lastID c /\
  sc_highestID c' = sc_highestID c /\ sc_rl_done c' = sc_rl_done c /\ sc_wl_dead c' = sc_wl_dead c /\
  sc_readerQ c' = sc_readerQ c /\ sc_sl_done c' = sc_sl_done c /\ sc_closing c' = sc_closing c /\
  sc_expectCont c' = sc_expectCont c /\ sc_closeRef c' = sc_closeRef c /\ quiet_ext c c'.

Lemma quiet_ext_refl c : quiet_ext c c.
Proof. exists []. split; [reflexivity|]. split; [reflexivity | intros sid rq []]. Qed.

Lemma hf_eff_refl c : hf_eff c c.
Proof. unfold hf_eff. repeat (split; [reflexivity|]). apply quiet_ext_refl. Qed.

Lemma hf_eff_dd c c' : dd hstate c c' -> hf_eff c c'.
Proof.
  intros (d & i & p & n & ->). unfold hf_eff. sc_cbn. repeat (split; [reflexivity|]).
  exists []. split; [reflexivity|]. split; [reflexivity | intros sid rq []].
Qed.

Lemma consume_out c s fr n : sc_sl_done c = false -> sc_wl_dead c = false ->
  quiet_ext c (consume_recv_window cfg c s fr n).
Proof.
  intros A B. unfold consume_recv_window. destruct (n <=? 0)%Z; [apply quiet_ext_refl|].
  destruct (flag_has (sf_flags fr) FL_ES).
  - destruct (credit_out hstate cfg c n A B) as (dw & H1 & H2 & H3). exists dw. auto.
  - assert (A' : sc_sl_done (write_window_update c (st_id s) n) = false) by (unfold write_window_update; sc_rw; exact A).
    assert (B' : sc_wl_dead (write_window_update c (st_id s) n) = false) by (unfold write_window_update; sc_rw; exact B).
    destruct (credit_out hstate cfg (write_window_update c (st_id s) n) n A' B') as (dw & H1 & H2 & H3).
    exists (dw ++ [OWinUpd (st_id s) n]). split; [|split].
    + rewrite H1. unfold write_window_update. rewrite sc_out_emit, B, A. rewrite <- app_assoc. reflexivity.
    + rewrite filter_app, H2. reflexivity.
    + intros sid rq H. apply in_app_or in H. destruct H as [H|[H|[]]]; [exact (H3 sid rq H) | discriminate].
Qed.

Lemma handle_frame_eff c st fr c3 s3 e : sc_sl_done c = false -> sc_wl_dead c = false ->
  handle_frame dec_field cfg c st fr = (c3, s3, e) -> hf_eff c c3.
Proof.
  intros A B. unfold handle_frame. destruct (verify_state st fr); [intro H; inversion H; subst; apply hf_eff_refl|].
  assert (HH : forall c1 s1 e1, handle_header_frame dec_field cfg c st fr = (c1, s1, e1) -> hf_eff c c1).
  { intros c1 s1 e1 H. apply hf_eff_dd. apply (handle_header_frame_spec hstate dec_field cfg c st fr c1 s1 e1 H). }
  assert (HB : forall X : sconn * stream * option h2err,
     (if (3 <=? sstate_rank (st_state st)) && negb (continuing_headers st fr) then (c, st, Some (EGoAway c_ProtocolError))
      else let '(c1, s1, e0) := handle_header_frame dec_field cfg c st fr in
           match e0 with
           | Some e1 => (c1, s1, Some e1)
           | None =>
             if flag_has (sf_flags fr) FL_EH then
               let fin := match st_prev s1 with [] => true | _ => false end in
               let s2 := set_headers_finished s1 fin in
               if negb fin then (c1, s2, Some (EGoAway c_ProtocolError))
               else match validate_request_pseudo_headers s2 with Some e1 => (c1, s2, Some e1) | None => (c1, s2, None) end
             else (c1, s1, None)
           end) = X -> hf_eff c (fst (fst X))).
  { intros X. destruct (_ && _)%bool; [intros <-; apply hf_eff_refl|].
    destruct (handle_header_frame dec_field cfg c st fr) as [[c1 s1] e0] eqn:Hh. pose proof (HH _ _ _ eq_refl) as Q.
    destruct e0; [intros <-; exact Q|]. destruct (flag_has (sf_flags fr) FL_EH); [|intros <-; exact Q].
    cbv zeta. destruct (negb _); [intros <-; exact Q|]. destruct (validate_request_pseudo_headers _); intros <-; exact Q. }
  destruct (sf_kind fr).
  - (* DATA *)
    clear HB HH. destruct (negb (st_headersFinished st)); [intro H; inversion H; subst; apply hf_eff_refl|].
    destruct (3 <=? sstate_rank (st_state st)); [intro H; inversion H; subst; apply hf_eff_refl|].
    match goal with |- context [if ?b then (credit_conn_window _ _ _, _, _) else _] => destruct b end; intro H; inversion H; subst.
    + unfold hf_eff. sc_rw. repeat (split; [reflexivity|]). apply (credit_out hstate cfg c _ A B).
    + unfold hf_eff. sc_rw. repeat (split; [reflexivity|]). apply (consume_out c _ fr _ A B).
  - intro H. apply (HB _ H).
  - clear HB HH. destruct (negb (sstate_eqb (st_state st) SIdle) && negb (st_headersFinished st))%bool; [intro H; inversion H; subst; apply hf_eff_refl|].
    destruct (sf_dep fr =? st_id st); intro H; inversion H; subst; apply hf_eff_refl.
  - clear HB HH. destruct (sstate_eqb (st_state st) SIdle); intro H; inversion H; subst; apply hf_eff_refl.
  - intro H; inversion H; subst; apply hf_eff_refl.
  - intro H; inversion H; subst; apply hf_eff_refl.
  - intro H; inversion H; subst; apply hf_eff_refl.
  - intro H; inversion H; subst; apply hf_eff_refl.
  - clear HB HH. destruct (sstate_eqb (st_state st) SIdle); [intro H; inversion H; subst; apply hf_eff_refl|].
    destruct (sf_inc fr =? 0); [intro H; inversion H; subst; apply hf_eff_refl|].
    destruct (MAXWIN <? st_window st + Z.of_N (sf_inc fr))%Z; intro H; inversion H; subst; apply hf_eff_refl.
  - intro H. apply (HB _ H).
Qed.

(* ---------- handleState ---------- *)

Definition abs_st (x : sstate) : RS.sstate :=
  match x with SIdle => RS.Idle | SOpen => RS.Open | SHalfClosed => RS.HalfClosedRemote | _ => RS.Closed RS.PeerRst end.

Lemma handle_state_set fr s : handle_state fr s = set_state s (st_state (handle_state fr s)).
Proof.
  unfold handle_state. destruct (fkind_eqb (sf_kind fr) KRst); destruct s; cbn;
    repeat match goal with |- context [if ?b then _ else _] => destruct b | |- context [match ?x with SIdle => _ | _ => _ end] => destruct x end; reflexivity.
Qed.

(* the state handleState gives is the one RFC 5.1 gives *)
Lemma handle_state_receive fr s :
  (st_state s = SIdle /\ sf_kind fr <> KRst) \/ st_state s = SOpen \/ st_state s = SHalfClosed ->
  abs_st (st_state (handle_state fr s)) = RS.receive (abs_st (st_state s)) (abs_frame fr).
Proof.
  unfold handle_state, RS.receive, abs_frame. cbn [RS.f_kind RS.f_es]. destruct s. cbn.
  intros [[H K]|[H|H]]; subst; revert K || idtac; destruct (sf_kind fr); try (intro K; congruence); try intros _;
    cbn; try destruct (flag_has (sf_flags fr) FL_ES); cbn; reflexivity.
Qed.

Lemma set_state_id s x : st_id (set_state s x) = st_id s. Proof. reflexivity. Qed.

(* ---------- the state just before the stream is written back (or closed) ---------- *)

Definition kfin c (ec' l' h' : N) (L : list stream) (cB : sconn) (d : list outev) : Prop :=
  sc_strms cB = L /\ sc_ring cB = sc_ring c /\ sc_oldest cB = sc_oldest c /\ sc_lastID cB = l' /\ sc_highestID cB = h' /\
  sc_rl_done cB = sc_rl_done c /\ sc_wl_dead cB = sc_wl_dead c /\ sc_readerQ cB = sc_readerQ c /\ sc_sl_done cB = false /\
  sc_closing cB = sc_closing c /\ sc_expectCont cB = ec' /\ sc_out cB = d ++ sc_out c.

Lemma G_keep' c s ph fr ec' L l' h' sF cB d :
  Sim c s ph -> sc_sl_done c = false -> seq_ok c fr ec' -> N.odd (sf_sid fr) = true ->
  base c fr L l' h' -> st_id sF = sf_sid fr -> kfin c ec' l' h' L cB d -> sc_discardID cB = sc_discardID c ->
  feed c (IIn (RFrame fr)) = fst (if sc_closing c && can_close_after_goaway (put cB sF) then brk (put cB sF) else cont (put cB sF)) ->
  (forall o, In o d -> is_goaway o = None) ->
  strm_ok sF -> (st_headersFinished sF = false -> ec' = sf_sid fr) -> (ec' <> 0 -> st_headersFinished sF = false) ->
  (RS.allowed s (RS.Frame (abs_frame fr)) (resolve s (RS.Frame (abs_frame fr)) (classify (sf_sid fr) (rev (filter noisy d)))) = true \/
   known_deviation hstate c s (RFrame fr) = true) ->
  outs_on (sf_sid fr) d ->
  RS.st_of (after_outs (RS.spec_next s (RS.Frame (abs_frame fr)) (resolve s (RS.Frame (abs_frame fr)) (classify (sf_sid fr) (rev (filter noisy d))))) d) (sf_sid fr)
    = (match st_state sF with SOpen => RS.Open | _ => RS.HalfClosedRemote end) ->
  RS.goaway (after_outs (RS.spec_next s (RS.Frame (abs_frame fr)) (resolve s (RS.Frame (abs_frame fr)) (classify (sf_sid fr) (rev (filter noisy d))))) d) = RS.goaway s ->
  RS.highest (after_outs (RS.spec_next s (RS.Frame (abs_frame fr)) (resolve s (RS.Frame (abs_frame fr)) (classify (sf_sid fr) (rev (filter noisy d))))) d) = h' ->
  RS.request_step (ph (sf_sid fr)) (abs_frame fr) = phase_of sF ->
  (forall sid rq, In (ODispatch sid rq) d -> sid = sf_sid fr /\ phase_of sF = RS.PDone) ->
  G c s ph (RFrame fr) (feed c (IIn (RFrame fr))).
Proof.
  intros HS Hsl SQ Od HB Hid (K1 & K2 & K3 & K4 & K5 & K6 & K7 & K8 & K9 & K10 & K11 & K12) Kd E Hng Hok Hf1 Hf2 Ha Hon Hst Hga Hhi Hph Hdisp.
  apply (G_finish c s ph fr (put cB sF) d HS E).
  - rewrite sc_out_put. exact K12.
  - exact Hng.
  - intros sid rq H. destruct (Hdisp sid rq H) as [-> X]. cbn [ph_next]. rewrite N.eqb_refl, Hph. exact X.
  - intro E'. apply (G_keep c s ph fr ec' L l' h' sF (put cB sF) d); try assumption; sc_rw; try assumption.
    rewrite sc_strms_put, K1. reflexivity.
Qed.

Lemma G_close' c s ph fr ec' L l' h' sF cB d :
  Sim c s ph -> sc_sl_done c = false -> seq_ok c fr ec' -> N.odd (sf_sid fr) = true ->
  base c fr L l' h' -> st_id sF = sf_sid fr -> kfin c ec' l' h' L cB d ->
  ((st_weReset sF = true /\ st_headersFinished sF = false) \/ sc_discardID cB = sc_discardID c \/ sc_discardID cB = sf_sid fr) ->
  (ec' <> 0 -> sc_discardID cB = sf_sid fr \/ (st_weReset sF = true /\ st_headersFinished sF = false)) ->
  feed c (IIn (RFrame fr)) =
    fst (if sc_closing c && can_close_after_goaway (close_stream (put cB sF) sF) then brk (close_stream (put cB sF) sF) else cont (close_stream (put cB sF) sF)) ->
  (forall o, In o d -> is_goaway o = None) ->
  (RS.allowed s (RS.Frame (abs_frame fr)) (resolve s (RS.Frame (abs_frame fr)) (classify (sf_sid fr) (rev (filter noisy d)))) = true \/
   known_deviation hstate c s (RFrame fr) = true) ->
  outs_on (sf_sid fr) d ->
  rel (MRing (st_weReset sF))
      (RS.st_of (after_outs (RS.spec_next s (RS.Frame (abs_frame fr)) (resolve s (RS.Frame (abs_frame fr)) (classify (sf_sid fr) (rev (filter noisy d))))) d) (sf_sid fr)) ->
  RS.goaway (after_outs (RS.spec_next s (RS.Frame (abs_frame fr)) (resolve s (RS.Frame (abs_frame fr)) (classify (sf_sid fr) (rev (filter noisy d))))) d) = RS.goaway s ->
  RS.highest (after_outs (RS.spec_next s (RS.Frame (abs_frame fr)) (resolve s (RS.Frame (abs_frame fr)) (classify (sf_sid fr) (rev (filter noisy d))))) d) = h' ->
  (forall sid rq, ~ In (ODispatch sid rq) d) ->
  G c s ph (RFrame fr) (feed c (IIn (RFrame fr))).
Proof.
  intros HS Hsl SQ Od HB Hid (K1 & K2 & K3 & K4 & K5 & K6 & K7 & K8 & K9 & K10 & K11 & K12) Kd Kd2 E Hng Ha Hon Hst Hga Hhi Hdisp.
  set (c3 := close_stream (put cB sF) sF) in *.
  set (d3 := if st_handlerRunning sF then d else ORelease (st_id sF) true :: d).
  assert (O3 : sc_out c3 = d3 ++ sc_out c).
  { unfold c3, d3. rewrite sc_out_close_stream, sc_out_put, K12. destruct (st_handlerRunning sF); reflexivity. }
  assert (F3 : filter noisy d3 = filter noisy d) by (unfold d3; destruct (st_handlerRunning sF); reflexivity).
  assert (Ng3 : forall o, In o d3 -> is_goaway o = None).
  { unfold d3. destruct (st_handlerRunning sF); [exact Hng|]. intros o [<-|H]; [reflexivity | apply Hng, H]. }
  assert (Nd3 : forall sid rq, ~ In (ODispatch sid rq) d3).
  { unfold d3. destruct (st_handlerRunning sF); [exact Hdisp|]. intros sid rq [H|H]; [discriminate | exact (Hdisp sid rq H)]. }
  assert (On3 : outs_on (sf_sid fr) d3) by (unfold outs_on; rewrite F3; exact Hon).
  apply (G_finish c s ph fr c3 d3 HS E O3 Ng3).
  - intros sid rq H. exfalso. exact (Nd3 sid rq H).
  - intro E'.
    assert (DI : sc_discardID c3 = if st_weReset sF && negb (st_headersFinished sF) && negb (sc_discardID cB =? sf_sid fr) then sf_sid fr else sc_discardID cB).
    { unfold c3. rewrite sc_discardID_close_stream. sc_rw. rewrite Hid. reflexivity. }
    apply (G_close c s ph fr ec' L l' h' sF c3 d3); try assumption; unfold after_outs; rewrite ?F3; try assumption; unfold c3.
    + rewrite sc_strms_close_stream, sc_strms_put, K1, Hid. reflexivity.
    + rewrite sc_ring_close_stream, Hid. apply mark_closed_ring_ext; sc_rw; assumption.
    + rewrite sc_oldest_close_stream, Hid. apply mark_closed_ring_ext; sc_rw; assumption.
    + sc_rw. exact K4.
    + sc_rw. exact K5.
    + sc_rw. exact K6.
    + sc_rw. exact K7.
    + sc_rw. exact K8.
    + sc_rw. exact K9.
    + sc_rw. exact K10.
    + sc_rw. exact K11.
    + fold c3. rewrite DI. destruct Kd as [[X Y]|Kd].
      * rewrite X, Y. cbn [negb andb]. destruct (sc_discardID cB =? sf_sid fr) eqn:Q; cbn [negb]; right; [apply N.eqb_eq in Q; exact Q | reflexivity].
      * destruct (_ && _ && _)%bool; [right; reflexivity | exact Kd].
    + fold c3. rewrite DI. intro Hne. destruct (Kd2 Hne) as [X|[X Y]].
      * rewrite X, N.eqb_refl, andb_false_r. reflexivity.
      * rewrite X, Y. cbn [negb andb]. destruct (sc_discardID cB =? sf_sid fr) eqn:Q; cbn [negb]; [apply N.eqb_eq in Q; exact Q | reflexivity].
Qed.

(* ---------- the specification side of a step on one stream ---------- *)

Lemma classify_rst sid code : (sid =? 0) = false -> classify sid [ORst sid code] = RS.StreamErr code.
Proof. intro Z. unfold classify. cbn [first_some is_goaway strip_late existsb is_exit orb]. rewrite Z. cbn [first_some is_rst strip_late]. rewrite N.eqb_refl. reflexivity. Qed.

Lemma outs_on_of sid d : (forall o, In o (filter noisy d) -> forall so, In so (sent_of o) -> sent_sid so = Some sid \/ sent_sid so = None) -> outs_on sid d.
Proof.
  intros H so Hin. apply in_flat_map in Hin. destruct Hin as (o & Ho & Hso). apply in_rev in Ho. exact (H o Ho so Hso).
Qed.

Lemma outs_on_nil sid d : filter noisy d = [] -> outs_on sid d.
Proof. intro Q. apply outs_on_of. rewrite Q. intros o []. Qed.

Lemma outs_on_one sid d o : filter noisy d = [o] -> (forall so, In so (sent_of o) -> sent_sid so = Some sid \/ sent_sid so = None) -> outs_on sid d.
Proof. intros Q H. apply outs_on_of. rewrite Q. intros o' [<-|[]]. exact H. Qed.

(* no noisy output: the frame took effect *)
Lemma spec_process_quiet s f d : wf s -> N.odd (RS.f_sid f) = true -> filter noisy d = [] ->
  RS.st_of (after_outs (RS.spec_next s (RS.Frame f) RS.Process) d) (RS.f_sid f) = RS.receive (RS.st_of s (RS.f_sid f)) f /\
  RS.goaway (after_outs (RS.spec_next s (RS.Frame f) RS.Process) d) = RS.goaway s.
Proof.
  intros W O Q. rewrite (after_outs_quiet _ _ Q). split.
  - rewrite st_of_spec_next_same by exact O. reflexivity.
  - rewrite goaway_spec_next. apply orb_false_r.
Qed.

(* one noisy output, about this stream *)
Lemma spec_one s f r d o so : wf s -> N.odd (RS.f_sid f) = true -> conn_err r = false -> filter noisy d = [o] -> sent_of o = [so] ->
  sent_sid so = Some (RS.f_sid f) ->
  RS.st_of (after_outs (RS.spec_next s (RS.Frame f) r) d) (RS.f_sid f) = sent_st (next_st (RS.st_of s (RS.f_sid f)) f r) so /\
  RS.goaway (after_outs (RS.spec_next s (RS.Frame f) r) d) = RS.goaway s /\
  RS.highest (after_outs (RS.spec_next s (RS.Frame f) r) d) = RS.highest (RS.spec_next s (RS.Frame f) r).
Proof.
  intros W O CE Q So Sid. rewrite (after_outs_eq _ _ _ Q). cbn [rev app flat_map]. rewrite So. cbn [app fold_left].
  assert (W1 : wf (RS.spec_next s (RS.Frame f) r)) by (apply wf_spec_next, W).
  split; [|split].
  - rewrite st_of_spec_sent by exact W1. rewrite Sid, N.eqb_refl. rewrite st_of_spec_next_same by exact O. rewrite CE. reflexivity.
  - rewrite goaway_spec_sent, goaway_spec_next, CE, orb_false_r. destruct so; try reflexivity; discriminate.
  - apply highest_spec_sent, W1.
Qed.

Lemma highest_quiet s1 d : filter noisy d = [] -> RS.highest (after_outs s1 d) = RS.highest s1.
Proof. intro Q. rewrite (after_outs_quiet _ _ Q). reflexivity. Qed.

(* the highest id after a frame that took effect or was answered with RST_STREAM *)
Lemma highest_next_known s f r h' : wf s -> N.odd (RS.f_sid f) = true -> conn_err r = false -> r <> RS.Ignore ->
  (RS.st_of s (RS.f_sid f) = RS.Idle -> next_st RS.Idle f r <> RS.Idle /\ h' = RS.f_sid f /\ RS.highest s < RS.f_sid f) ->
  (RS.st_of s (RS.f_sid f) <> RS.Idle -> h' = RS.highest s) ->
  RS.highest (RS.spec_next s (RS.Frame f) r) = h'.
Proof.
  intros W O CE NI HI HN. rewrite highest_spec_next by exact W. rewrite CE.
  replace (RS.f_sid f =? 0) with false by (destruct (RS.f_sid f =? 0) eqn:Z; [apply N.eqb_eq in Z; rewrite Z in O; discriminate | reflexivity]).
  cbn [negb andb]. destruct r; try discriminate; try congruence; cbn [andb].
  - destruct (RS.st_of s (RS.f_sid f)) eqn:X.
    + destruct (HI eq_refl) as (A & -> & C). cbn [next_st] in *. destruct (RS.receive RS.Idle f); try congruence; lia.
    + rewrite (HN ltac:(discriminate)). assert (RS.f_sid f <= RS.highest s) by (apply st_of_notidle_le; [exact W | congruence]).
      cbn; try match goal with |- (if ?b then _ else _) = _ => destruct b end; lia.
    + rewrite (HN ltac:(discriminate)). assert (RS.f_sid f <= RS.highest s) by (apply st_of_notidle_le; [exact W | congruence]).
      cbn; try match goal with |- (if ?b then _ else _) = _ => destruct b end; lia.
    + rewrite (HN ltac:(discriminate)). assert (RS.f_sid f <= RS.highest s) by (apply st_of_notidle_le; [exact W | congruence]).
      cbn; try match goal with |- (if ?b then _ else _) = _ => destruct b end; lia.
    + rewrite (HN ltac:(discriminate)). assert (RS.f_sid f <= RS.highest s) by (apply st_of_notidle_le; [exact W | congruence]).
      cbn; try match goal with |- (if ?b then _ else _) = _ => destruct b end; lia.
  - destruct (RS.st_of s (RS.f_sid f)) eqn:X.
    + destruct (HI eq_refl) as (A & -> & C). cbn [next_st] in *. destruct (RS.reset RS.Idle f); try congruence; lia.
    + rewrite (HN ltac:(discriminate)). assert (RS.f_sid f <= RS.highest s) by (apply st_of_notidle_le; [exact W | congruence]).
      cbn; try match goal with |- (if ?b then _ else _) = _ => destruct b end; lia.
    + rewrite (HN ltac:(discriminate)). assert (RS.f_sid f <= RS.highest s) by (apply st_of_notidle_le; [exact W | congruence]).
      cbn; try match goal with |- (if ?b then _ else _) = _ => destruct b end; lia.
    + rewrite (HN ltac:(discriminate)). assert (RS.f_sid f <= RS.highest s) by (apply st_of_notidle_le; [exact W | congruence]).
      cbn; try match goal with |- (if ?b then _ else _) = _ => destruct b end; lia.
    + rewrite (HN ltac:(discriminate)). assert (RS.f_sid f <= RS.highest s) by (apply st_of_notidle_le; [exact W | congruence]).
      cbn; try match goal with |- (if ?b then _ else _) = _ => destruct b end; lia.
Qed.

(* ---------- afterFrame on a frame that handleFrame accepted ---------- *)

(* the state the stream loop works on, relative to the one before the frame *)
Definition kctx c (ec' l' h' : N) (c2 : sconn) : Prop :=
  sc_ring c2 = sc_ring c /\ sc_oldest c2 = sc_oldest c /\ sc_lastID c2 = l' /\ sc_highestID c2 = h' /\
  sc_rl_done c2 = sc_rl_done c /\ sc_wl_dead c2 = sc_wl_dead c /\ sc_readerQ c2 = sc_readerQ c /\ sc_sl_done c2 = sc_sl_done c /\
  sc_closing c2 = sc_closing c /\ sc_expectCont c2 = ec' /\ sc_discardID c2 = sc_discardID c /\ sc_out c2 = sc_out c.

Lemma kfin_of c ec' l' h' c2 cA : sc_sl_done c = false -> kctx c ec' l' h' c2 -> hf_eff c2 cA ->
  exists dq, kfin c ec' l' h' (sc_strms c2) cA dq /\ filter noisy dq = [] /\ (forall sid rq, ~ In (ODispatch sid rq) dq).
Proof.
  intros Hsl (K1 & K2 & K3 & K4 & K5 & K6 & K7 & K8 & K9 & K10 & K11 & K12)
         (H1 & H2 & H3 & H4 & H5 & H6 & H7 & H8 & H9 & H10 & H11 & H12 & (dq & Q1 & Q2 & Q3)).
  exists dq. split; [|split; assumption].
  unfold kfin. rewrite H2, H3, H4, H5, H6, H7, H8, H9, H10, H11, Q1, K1, K2, K3, K4, K5, K6, K7, K8, K9, K10, K12. auto 20.
Qed.

Lemma quiet_no_goaway dq : filter noisy dq = [] -> forall o, In o dq -> is_goaway o = None.
Proof.
  intros Q o H. destruct (is_goaway o) eqn:G; [|reflexivity]. exfalso.
  assert (N : noisy o = true) by (unfold noisy, is_goaway in *; destruct (strip_late o); try discriminate; reflexivity).
  assert (In o (filter noisy dq)) by (apply filter_In; auto). rewrite Q in H0. destruct H0.
Qed.

Lemma policy_allowed s fr code :
  RS.verdicts s (RS.Frame (abs_frame fr)) = RS.on_stream s (abs_frame fr) -> sf_kind fr <> KRst ->
  (RS.st_of s (sf_sid fr) = RS.Open \/ RS.st_of s (sf_sid fr) = RS.HalfClosedRemote \/
   (RS.st_of s (sf_sid fr) = RS.Idle /\ sf_kind fr = KHeaders /\ N.odd (sf_sid fr) = true)) ->
  (code = c_ProtocolError \/ code = c_InternalError \/ code = c_EnhanceYourCalm \/ code = c_RefusedStreamError \/ code = c_StreamCanceled) ->
  RS.allowed s (RS.Frame (abs_frame fr)) (RS.StreamErr code) = true.
Proof.
  intros V K X C. apply allowed_table. rewrite V. unfold RS.on_stream. rewrite existsb_app. apply orb_true_iff.
  assert (P : existsb (fun v => RS.admits v (RS.StreamErr code)) RS.policy = true).
  { destruct C as [-> | [-> | [-> | [-> | ->]]]]; reflexivity. }
  destruct X as [X|[X|(X & KH & O)]].
  - right. change (RS.f_sid (abs_frame fr)) with (sf_sid fr). rewrite X. unfold abs_frame. cbn [RS.f_kind].
    revert K. destruct (sf_kind fr); intro K; cbn [abs_kind]; try exact P; congruence.
  - right. change (RS.f_sid (abs_frame fr)) with (sf_sid fr). rewrite X. unfold abs_frame. cbn [RS.f_kind].
    revert K. destruct (sf_kind fr); intro K; cbn [abs_kind]; try exact P; congruence.
  - left. unfold RS.by_state. change (RS.f_sid (abs_frame fr)) with (sf_sid fr). rewrite X. unfold abs_frame. cbn [RS.f_kind RS.f_self]. rewrite KH. cbn [abs_kind].
    rewrite <- N.negb_odd, O. cbn [negb]. rewrite !existsb_app, P. rewrite orb_true_r. reflexivity.
Qed.

Lemma sstate_eqb_eq a b : sstate_eqb a b = true <-> a = b.
Proof. destruct a, b; cbn; split; intro H; try reflexivity; try discriminate. Qed.
Lemma sstate_eqb_neq a b : sstate_eqb a b = false <-> a <> b.
Proof. destruct a, b; cbn; split; intro H; try reflexivity; try discriminate; try congruence. Qed.

Lemma classify_nil sid : classify sid [] = RS.Process.
Proof. unfold classify. cbn. destruct (sid =? 0); reflexivity. Qed.

Lemma classify_es sid ch : classify sid [OData sid true ch] = RS.Process.
Proof. unfold classify. cbn. destruct (sid =? 0); reflexivity. Qed.

Lemma handle_state_range fr s : st_state s = SIdle \/ st_state s = SOpen \/ st_state s = SHalfClosed ->
  (st_state (handle_state fr s) = SClosed -> sf_kind fr = KRst) /\
  (st_state (handle_state fr s) = SIdle \/ st_state (handle_state fr s) = SOpen \/ st_state (handle_state fr s) = SHalfClosed \/
   st_state (handle_state fr s) = SClosed) /\
  (st_state s = SHalfClosed -> st_state (handle_state fr s) = SHalfClosed \/ st_state (handle_state fr s) = SClosed).
Proof.
  unfold handle_state. destruct s. cbn. intros [H|[H|H]]; subst; destruct (sf_kind fr); cbn;
    try destruct (flag_has (sf_flags fr) FL_ES); cbn; repeat split; auto; try discriminate; intro X; discriminate.
Qed.

Lemma kfin_note c ec' l' h' L cA dq o : kfin c ec' l' h' L cA dq -> kfin c ec' l' h' L (note cA o) (o :: dq).
Proof.
  unfold kfin, note. sc_cbn. intros (K1 & K2 & K3 & K4 & K5 & K6 & K7 & K8 & K9 & K10 & K11 & K12). rewrite K12.
  repeat split; assumption.
Qed.

Lemma kfin_sd c ec' l' h' L cA dq c1 ds : kfin c ec' l' h' L cA dq -> sd hstate cA c1 ds -> kfin c ec' l' h' L c1 (ds ++ dq).
Proof.
  unfold kfin, sd. intros (K1 & K2 & K3 & K4 & K5 & K6 & K7 & K8 & K9 & K10 & K11 & K12) ->. sc_cbn. rewrite K12, app_assoc.
  repeat split; assumption.
Qed.

Lemma handle_state_not_idle fr s : (st_state s = SIdle -> sf_kind fr = KHeaders) -> st_state (handle_state fr s) <> SIdle.
Proof.
  unfold handle_state. destruct s. cbn. intro H.
  destruct (sf_kind fr) eqn:K; cbn; destruct st_state; cbn; try discriminate;
    try (specialize (H eq_refl); discriminate); destruct (flag_has (sf_flags fr) FL_ES); cbn; discriminate.
Qed.

Lemma after_ok c s ph fr ec' c2 l' h' cA sX :
  Sim c s ph -> sc_sl_done c = false -> seq_ok c fr ec' -> N.odd (sf_sid fr) = true ->
  base c fr (sc_strms c2) l' h' -> kctx c ec' l' h' c2 -> hf_eff c2 cA -> sc_discardID cA = sc_discardID c ->
  st_id sX = sf_sid fr ->
  ((st_state sX = SIdle /\ sf_kind fr = KHeaders) \/ st_state sX = SOpen \/ st_state sX = SHalfClosed) ->
  RS.st_of s (sf_sid fr) = abs_st (st_state sX) ->
  (st_state sX = SIdle -> h' = sf_sid fr /\ sc_highestID c < sf_sid fr) -> (st_state sX <> SIdle -> h' = sc_highestID c) ->
  st_weReset sX = false ->
  (st_responded sX = true \/ st_handlerRunning sX = true -> st_state sX = SHalfClosed /\ st_headersFinished sX = true) ->
  send_ok sX ->
  RS.verdicts s (RS.Frame (abs_frame fr)) = RS.on_stream s (abs_frame fr) ->
  RS.may_process s (RS.Frame (abs_frame fr)) = true ->
  (st_headersFinished sX = false -> ec' = sf_sid fr) -> (ec' <> 0 -> st_headersFinished sX = false) ->
  (st_state (handle_state fr sX) <> SClosed -> RS.request_step (ph (sf_sid fr)) (abs_frame fr) = phase_of (handle_state fr sX)) ->
  (sf_kind fr = KRst -> st_responded sX = true -> st_handlerRunning sX = false -> has_more_to_send sX = true ->
   (st_pending sX = [] \/ (0 < zmin (st_window sX) (sc_clientWindow cA))%Z) ->
   known_deviation hstate c s (RFrame fr) = true) ->
  feed c (IIn (RFrame fr)) = fst (after_frame cfg cA sX fr (sc_closing c)) ->
  G c s ph (RFrame fr) (feed c (IIn (RFrame fr))).
Proof.
  intros HS Hsl SQ Od HB KC HE Hdi Hid Hstate Hx Hh1 Hh2 Hwr Hresp Hsend V Hmp Hf1 Hf2 Hph Hdev E.
  pose proof (S_wf _ _ _ _ HS) as W. pose proof (S_aux _ _ _ _ HS) as [AT AH].
  pose proof (Zn_of_odd _ Od) as Zn.
  destruct (kfin_of c ec' l' h' c2 cA Hsl KC HE) as (dq & KF & Qq & Qnd).
  pose proof (quiet_no_goaway dq Qq) as Qng.
  assert (WrA : wr hstate cA).
  { destruct KF as (_ & _ & _ & _ & _ & _ & K7 & _ & K9 & _). split; [exact K9 | rewrite K7; apply (A_wl _ _ AT)]. }
  set (s1 := handle_state fr sX) in *.
  assert (S1 : s1 = set_state sX (st_state s1)) by apply handle_state_set.
  assert (Rcv : abs_st (st_state s1) = RS.receive (RS.st_of s (sf_sid fr)) (abs_frame fr)).
  { rewrite Hx. apply handle_state_receive. destruct Hstate as [[A B]|[A|A]]; auto. left. split; [exact A | congruence]. }
  assert (S1id : st_id s1 = sf_sid fr) by (rewrite S1; exact Hid).
  assert (S1fin : st_headersFinished s1 = st_headersFinished sX) by (rewrite S1; reflexivity).
  assert (S1resp : st_responded s1 = st_responded sX) by (rewrite S1; reflexivity).
  assert (S1run : st_handlerRunning s1 = st_handlerRunning sX) by (rewrite S1; reflexivity).
  assert (S1wr : st_weReset s1 = false) by (rewrite S1; exact Hwr).
  assert (S1more : has_more_to_send s1 = has_more_to_send sX) by (rewrite S1; reflexivity).
  assert (S1send : send_ok s1) by (rewrite S1; exact Hsend).
  assert (FS : RS.f_sid (abs_frame fr) = sf_sid fr) by reflexivity.
  (* the highest id after the frame took effect or was reset *)
  assert (HI : forall r, conn_err r = false -> r <> RS.Ignore -> next_st RS.Idle (abs_frame fr) r <> RS.Idle \/ st_state sX <> SIdle ->
               RS.highest (RS.spec_next s (RS.Frame (abs_frame fr)) r) = h').
  { intros r CE NI NX. apply highest_next_known; try assumption.
    - rewrite FS, Hx. intro X. assert (SI : st_state sX = SIdle) by (destruct (st_state sX); try discriminate; reflexivity).
      destruct (Hh1 SI) as [A B]. split; [destruct NX; [assumption | contradiction]|]. split; [exact A|]. rewrite (S_hi _ _ _ _ HS). exact B.
    - rewrite FS, Hx. intro X. rewrite (S_hi _ _ _ _ HS). apply Hh2. intro SI. rewrite SI in X. apply X. reflexivity. }
  assert (NotIdle1 : st_state s1 <> SIdle).
  { apply handle_state_not_idle. intro SI. destruct Hstate as [[A B]|[A|A]]; [exact B | congruence | congruence]. }
  unfold after_frame in E. fold s1 in E. cbv zeta in E.
  destruct (sstate_eqb (st_state s1) SHalfClosed && st_headersFinished s1 && negb (st_responded s1))%bool eqn:C1.
  - (* the request is complete *)
    apply andb_true_iff in C1. destruct C1 as [C1 C1r]. apply andb_true_iff in C1. destruct C1 as [C1s C1f].
    apply sstate_eqb_eq in C1s. apply negb_true_iff in C1r.
    assert (Xhc : RS.receive (RS.st_of s (sf_sid fr)) (abs_frame fr) = RS.HalfClosedRemote) by (rewrite <- Rcv, C1s; reflexivity).
    assert (NR : sf_kind fr <> KRst).
    { intro K. unfold s1, handle_state in C1s. rewrite K in C1s. cbn [fkind_eqb] in C1s. cbn in C1s. discriminate. }
    assert (Xst : RS.st_of s (sf_sid fr) = RS.Open \/ RS.st_of s (sf_sid fr) = RS.HalfClosedRemote \/
                  (RS.st_of s (sf_sid fr) = RS.Idle /\ sf_kind fr = KHeaders /\ N.odd (sf_sid fr) = true)).
    { rewrite Hx. destruct Hstate as [[A B]|[A|A]]; rewrite A; cbn [abs_st]; auto. }
    set (s2 := set_flags s1 true (st_handlerRunning s1) (st_abandoned s1)) in *.
    destruct (st_hasCL s2 && negb (st_recvBody s2 =? st_contentLength s2)%Z)%bool eqn:CL.
    + (* content-length does not match: RST_STREAM(PROTOCOL_ERROR) *)
      set (sF := set_state (set_weReset s2) SClosed) in *.
      replace (sstate_eqb (st_state sF) SClosed) with true in E by reflexivity.
      set (d := ORst (sf_sid fr) c_ProtocolError :: dq).
      assert (Fd : filter noisy d = [ORst (sf_sid fr) c_ProtocolError]) by (unfold d; cbn [filter noisy strip_late]; rewrite Qq; reflexivity).
      assert (CLs : classify (sf_sid fr) (rev (filter noisy d)) = RS.StreamErr c_ProtocolError) by (rewrite Fd; apply classify_rst, Zn).
      destruct (spec_one s (abs_frame fr) (RS.StreamErr c_ProtocolError) d _ (RS.SentRst (sf_sid fr)) W Od eq_refl Fd eq_refl eq_refl) as (Q1 & Q2 & Q3).
      change (RS.f_sid (abs_frame fr)) with (sf_sid fr) in Q1.
      apply (G_close' c s ph fr ec' (sc_strms c2) l' h' sF (write_reset cA (sf_sid fr) c_ProtocolError) d HS Hsl SQ Od HB); try assumption;
        rewrite ?CLs; cbn [resolve].
      * unfold write_reset. rewrite (emit_wr hstate cA _ WrA). apply kfin_note, KF.
      * right. left. unfold write_reset. sc_rw. exact Hdi.
      * intro Hne. right. split; [reflexivity|]. unfold sF, s2. cbn. rewrite S1fin. apply Hf2, Hne.
      * replace (st_id s2) with (sf_sid fr) in E by (symmetry; exact S1id). exact E.
      * intros o [<-|H]; [reflexivity | apply Qng, H].
      * left. apply policy_allowed; auto.
      * apply (outs_on_one _ d _ Fd). intros so [<-|[]]. left. reflexivity.
      * rewrite Q1. cbn [next_st].
        destruct Xst as [X|[X|(X & KH & _)]]; rewrite X; unfold RS.reset, abs_frame; cbn [RS.f_kind]; rewrite ?KH; cbn [abs_kind sent_st];
          try reflexivity; destruct (abs_kind (sf_kind fr)); reflexivity.
      * exact Q2.
      * rewrite Q3. apply HI; [reflexivity | discriminate|]. 
        destruct Xst as [X|[X|(X & KH & _)]].
        -- right. intro SI. rewrite Hx, SI in X. discriminate.
        -- right. intro SI. rewrite Hx, SI in X. discriminate.
        -- left. cbn [next_st]. unfold RS.reset, abs_frame. cbn [RS.f_kind]. rewrite KH. discriminate.
      * intros sid rq [H|H]; [discriminate | exact (Qnd sid rq H)].
    + (* dispatch *)
      set (sF := set_flags s2 true true (st_abandoned s2)) in *.
      replace (sstate_eqb (st_state sF) SClosed) with false in E by (unfold sF, s2; cbn; rewrite C1s; reflexivity).
      set (d := ODispatch (st_id s2) (st_req s2) :: dq).
      assert (Fd : filter noisy d = []) by (unfold d; cbn [filter noisy strip_late]; exact Qq).
      assert (CLs : classify (sf_sid fr) (rev (filter noisy d)) = RS.Process) by (rewrite Fd; apply classify_nil).
      destruct (spec_process_quiet s (abs_frame fr) d W Od Fd) as (Q1 & Q2).
      change (RS.f_sid (abs_frame fr)) with (sf_sid fr) in Q1.
      apply (G_keep' c s ph fr ec' (sc_strms c2) l' h' sF (note cA (ODispatch (st_id s2) (st_req s2))) d HS Hsl SQ Od HB); try assumption;
        rewrite ?CLs; cbn [resolve]; rewrite ?Hmp.
      * apply kfin_note, KF.
      * intros o [<-|H]; [reflexivity | apply Qng, H].
      * unfold strm_ok, sF, s2. cbn. rewrite C1s. repeat split; auto.
      * unfold sF, s2. cbn. rewrite C1f. discriminate.
      * unfold sF, s2. cbn. rewrite C1f. intro Hne. exfalso. rewrite S1fin in C1f. rewrite (Hf2 Hne) in C1f. discriminate.
      * left. apply allowed_table. exact Hmp.
      * apply outs_on_nil, Fd.
      * rewrite Q1. rewrite Xhc. unfold sF, s2. cbn. rewrite C1s. reflexivity.
      * exact Q2.
      * rewrite highest_quiet by exact Fd. apply HI; [reflexivity | discriminate|].
        destruct Xst as [X|[X|(X & KH & _)]].
        -- right. intro SI. rewrite Hx, SI in X. discriminate.
        -- right. intro SI. rewrite Hx, SI in X. discriminate.
        -- left. cbn [next_st]. intro Y. rewrite X, Y in Xhc. discriminate.
      * rewrite Hph by (rewrite C1s; discriminate). unfold phase_of, sF, s2. cbn. reflexivity.
      * intros sid rq [H|H]; [|exfalso; exact (Qnd sid rq H)]. inversion H; subst. split; [exact S1id|].
        unfold phase_of, sF, s2. cbn. rewrite C1s, C1f. reflexivity.
  - (* the request is not complete, or is being answered already *)
    assert (Hstate' : st_state sX = SIdle \/ st_state sX = SOpen \/ st_state sX = SHalfClosed) by (destruct Hstate as [[A _]|[A|A]]; auto).
    destruct (handle_state_range fr sX Hstate') as (RgC & Rg & RgH). fold s1 in RgC, Rg, RgH.
    assert (HIgen : forall r, conn_err r = false -> r <> RS.Ignore -> st_state sX <> SIdle \/ next_st RS.Idle (abs_frame fr) r <> RS.Idle ->
              RS.highest (RS.spec_next s (RS.Frame (abs_frame fr)) r) = h') by (intros r A B [X|X]; apply HI; auto).
    assert (ProcIdle : st_state sX <> SIdle \/ next_st RS.Idle (abs_frame fr) RS.Process <> RS.Idle).
    { destruct Hstate as [[A B]|[A|A]]; [right | left; congruence | left; congruence].
      cbn [next_st]. unfold RS.receive, abs_frame. cbn [RS.f_kind]. rewrite B. cbn [abs_kind]. destruct (RS.f_es _); discriminate. }
    destruct (st_responded s1 && negb (st_handlerRunning s1) && has_more_to_send s1)%bool eqn:C2.
    + (* queued response data goes out *)
      apply andb_true_iff in C2. destruct C2 as [C2 C2m]. apply andb_true_iff in C2. destruct C2 as [C2r C2h]. apply negb_true_iff in C2h.
      destruct (Hresp (or_introl (eq_trans (eq_sym S1resp) C2r))) as [SXhc SXfin].
      assert (Xhcr : RS.st_of s (sf_sid fr) = RS.HalfClosedRemote) by (rewrite Hx, SXhc; reflexivity).
      assert (EC0 : ec' = 0) by (destruct (N.eq_dec ec' 0) as [Z|Z]; [exact Z | rewrite (Hf2 Z) in SXfin; discriminate]).
      destruct (send_data cA s1) as [[c1' s2'] fin] eqn:SD.
      destruct (send_data_spec hstate cA s1 c1' s2' fin WrA C2m S1send SD) as (ds & SDd & FD & Sid & Sst & Sfin & Sresp & Srun & Sorig & Sout).
      destruct (data_or_rst_facts ds FD) as (Dnd & Dng & _).
      pose proof (kfin_sd c ec' l' h' _ cA dq c1' ds KF SDd) as KF1.
      assert (DI1 : sc_discardID c1' = sc_discardID c) by (unfold sd in SDd; rewrite SDd; sc_cbn; exact Hdi).
      assert (Ng1 : forall o, In o (ds ++ dq) -> is_goaway o = None).
      { intros o H. apply in_app_or in H. destruct H as [H|H]; [apply Dng, H | apply Qng, H]. }
      assert (Nd1 : forall sid rq, ~ In (ODispatch sid rq) (ds ++ dq)).
      { intros sid rq H. apply in_app_or in H. destruct H as [H|H]; [exact (Dnd sid rq H) | exact (Qnd sid rq H)]. }
      destruct fin.
      * (* the response is over: the stream is closed *)
        set (sF := set_state s2' SClosed) in *.
        replace (sstate_eqb (st_state sF) SClosed) with true in E by reflexivity.
        assert (IdF : st_id sF = sf_sid fr) by (unfold sF; cbn; rewrite Sid; exact S1id).
        destruct Sout as [(chunk & Fn & Wr) | (Fn & Wr)].
        -- (* END_STREAM *)
           assert (Fd : filter noisy (ds ++ dq) = [OData (sf_sid fr) true chunk]) by (rewrite filter_app, Qq, app_nil_r, Fn, S1id; reflexivity).
           assert (CLs : classify (sf_sid fr) (rev (filter noisy (ds ++ dq))) = RS.Process) by (rewrite Fd; apply classify_es).
           destruct (spec_one s (abs_frame fr) RS.Process (ds ++ dq) _ (RS.SentEndStream (sf_sid fr)) W Od eq_refl Fd eq_refl eq_refl) as (Q1 & Q2 & Q3).
           change (RS.f_sid (abs_frame fr)) with (sf_sid fr) in Q1.
           apply (G_close' c s ph fr ec' (sc_strms c2) l' h' sF c1' (ds ++ dq) HS Hsl SQ Od HB IdF KF1); try assumption;
             rewrite ?CLs; cbn [resolve]; rewrite ?Hmp.
           ++ right. left. exact DI1.
           ++ intro Hne. exfalso. apply Hne, EC0.
           ++ left. apply allowed_table. exact Hmp.
           ++ apply (outs_on_one _ _ _ Fd). intros so [<-|[]]. left. reflexivity.
           ++ rewrite Q1. cbn [next_st]. rewrite Xhcr. unfold sF. cbn. rewrite Wr, S1wr.
              unfold RS.receive. destruct (sf_kind fr); cbn; auto.
           ++ exact Q2.
           ++ rewrite Q3. apply HIgen; [reflexivity | discriminate | exact ProcIdle].
        -- (* the body reader failed: RST_STREAM(INTERNAL_ERROR) *)
           assert (Fd : filter noisy (ds ++ dq) = [ORst (sf_sid fr) c_InternalError]) by (rewrite filter_app, Qq, app_nil_r, Fn, S1id; reflexivity).
           assert (CLs : classify (sf_sid fr) (rev (filter noisy (ds ++ dq))) = RS.StreamErr c_InternalError) by (rewrite Fd; apply classify_rst, Zn).
           destruct (spec_one s (abs_frame fr) (RS.StreamErr c_InternalError) (ds ++ dq) _ (RS.SentRst (sf_sid fr)) W Od eq_refl Fd eq_refl eq_refl) as (Q1 & Q2 & Q3).
           change (RS.f_sid (abs_frame fr)) with (sf_sid fr) in Q1.
           apply (G_close' c s ph fr ec' (sc_strms c2) l' h' sF c1' (ds ++ dq) HS Hsl SQ Od HB IdF KF1); try assumption;
             rewrite ?CLs; cbn [resolve].
           ++ right. left. exact DI1.
           ++ intro Hne. exfalso. apply Hne, EC0.
           ++ destruct (fkind_eqb (sf_kind fr) KRst) eqn:KR.
              ** right. apply fkind_eqb_eq in KR. apply Hdev; try congruence.
                 destruct (st_pending sX) as [|p0 pt] eqn:EP; [left; reflexivity | right].
                 destruct (Z_lt_le_dec 0 (zmin (st_window sX) (sc_clientWindow cA))) as [L|L]; [exact L | exfalso].
                 assert (P1 : st_pending s1 <> []) by (rewrite S1; cbn; rewrite EP; discriminate).
                 assert (W1 : (zmin (st_window s1) (sc_clientWindow cA) <= 0)%Z) by (rewrite S1; exact L).
                 pose proof (send_data_stalled hstate cA s1 P1 W1) as X. rewrite SD in X. discriminate.
              ** left. apply policy_allowed; auto. apply fkind_eqb_neq, KR.
           ++ apply (outs_on_one _ _ _ Fd). intros so [<-|[]]. left. reflexivity.
           ++ rewrite Q1. cbn [next_st]. rewrite Xhcr. unfold sF. cbn. rewrite Wr.
              unfold RS.reset, abs_frame. cbn. destruct (sf_kind fr); reflexivity.
           ++ exact Q2.
           ++ rewrite Q3. apply HIgen; [reflexivity | discriminate | left; congruence].
      * (* more to send later *)
        destruct Sout as (Fn & Wr & Sok).
        assert (St2 : st_state s2' = SHalfClosed \/ st_state s2' = SClosed) by (rewrite Sst; apply RgH, SXhc).
        destruct (sstate_eqb (st_state s2') SClosed) eqn:CC.
        -- (* the frame was RST_STREAM *)
           apply sstate_eqb_eq in CC. assert (KR : sf_kind fr = KRst) by (apply RgC; rewrite <- Sst; exact CC).
           assert (Fd : filter noisy (ds ++ dq) = []) by (rewrite filter_app, Qq, Fn; reflexivity).
           assert (CLs : classify (sf_sid fr) (rev (filter noisy (ds ++ dq))) = RS.Process) by (rewrite Fd; apply classify_nil).
           destruct (spec_process_quiet s (abs_frame fr) (ds ++ dq) W Od Fd) as (Q1 & Q2).
           change (RS.f_sid (abs_frame fr)) with (sf_sid fr) in Q1.
           apply (G_close' c s ph fr ec' (sc_strms c2) l' h' s2' c1' (ds ++ dq) HS Hsl SQ Od HB (eq_trans Sid S1id) KF1); try assumption;
             rewrite ?CLs; cbn [resolve]; rewrite ?Hmp.
           ++ right. left. exact DI1.
           ++ intro Hne. exfalso. apply Hne, EC0.
           ++ left. apply allowed_table. exact Hmp.
           ++ apply outs_on_nil, Fd.
           ++ rewrite Q1, <- Rcv, <- Sst, CC, Wr, S1wr. right. reflexivity.
           ++ exact Q2.
           ++ rewrite highest_quiet by exact Fd. apply HIgen; [reflexivity | discriminate | exact ProcIdle].
        -- apply sstate_eqb_neq in CC. destruct St2 as [St2|St2]; [|congruence].
           assert (Fd : filter noisy (ds ++ dq) = []) by (rewrite filter_app, Qq, Fn; reflexivity).
           assert (CLs : classify (sf_sid fr) (rev (filter noisy (ds ++ dq))) = RS.Process) by (rewrite Fd; apply classify_nil).
           destruct (spec_process_quiet s (abs_frame fr) (ds ++ dq) W Od Fd) as (Q1 & Q2).
           change (RS.f_sid (abs_frame fr)) with (sf_sid fr) in Q1.
           apply (G_keep' c s ph fr ec' (sc_strms c2) l' h' s2' c1' (ds ++ dq) HS Hsl SQ Od HB (eq_trans Sid S1id) KF1 DI1); try assumption;
             rewrite ?CLs; cbn [resolve]; rewrite ?Hmp.
           ++ unfold strm_ok. rewrite St2, Wr, S1wr, Sresp, Srun, Sfin, S1fin. repeat split; auto.
           ++ rewrite Sfin, S1fin, SXfin. discriminate.
           ++ intro Hne. exfalso. apply Hne, EC0.
           ++ left. apply allowed_table. exact Hmp.
           ++ apply outs_on_nil, Fd.
           ++ rewrite Q1, <- Rcv, <- Sst, St2. reflexivity.
           ++ exact Q2.
           ++ rewrite highest_quiet by exact Fd. apply HIgen; [reflexivity | discriminate | exact ProcIdle].
           ++ rewrite Hph by (rewrite <- Sst; congruence). unfold phase_of. rewrite Sst, Sfin. reflexivity.
           ++ intros sid rq H. exfalso. exact (Nd1 sid rq H).
    + (* nothing to send *)
      assert (CLs : classify (sf_sid fr) (rev (filter noisy dq)) = RS.Process) by (rewrite Qq; apply classify_nil).
      destruct (spec_process_quiet s (abs_frame fr) dq W Od Qq) as (Q1 & Q2).
      change (RS.f_sid (abs_frame fr)) with (sf_sid fr) in Q1.
      destruct (sstate_eqb (st_state s1) SClosed) eqn:CC.
      * (* RST_STREAM: the stream is closed *)
        apply sstate_eqb_eq in CC. pose proof (RgC CC) as KR.
        assert (EC0 : ec' = 0) by (destruct SQ as [(_ & _ & ->)|(_ & K & _)]; [rewrite KR; reflexivity | congruence]).
        apply (G_close' c s ph fr ec' (sc_strms c2) l' h' s1 cA dq HS Hsl SQ Od HB S1id KF); try assumption;
          rewrite ?CLs; cbn [resolve]; rewrite ?Hmp.
        -- right. left. exact Hdi.
        -- intro Hne. exfalso. apply Hne, EC0.
        -- left. apply allowed_table. exact Hmp.
        -- apply outs_on_nil, Qq.
        -- rewrite Q1, <- Rcv, CC, S1wr. right. reflexivity.
        -- exact Q2.
        -- rewrite highest_quiet by exact Qq. apply HIgen; [reflexivity | discriminate | exact ProcIdle].
      * apply sstate_eqb_neq in CC.
        assert (St1 : st_state s1 = SOpen \/ st_state s1 = SHalfClosed) by (destruct Rg as [X|[X|[X|X]]]; [congruence | auto | auto | congruence]).
        apply (G_keep' c s ph fr ec' (sc_strms c2) l' h' s1 cA dq HS Hsl SQ Od HB S1id KF Hdi); try assumption;
          rewrite ?CLs; cbn [resolve]; rewrite ?Hmp.
        -- unfold strm_ok. rewrite S1wr, S1resp, S1run, S1fin. split; [exact St1|]. split; [reflexivity|]. split; [|split].
           ++ intro H. destruct (Hresp H) as [A B]. split; [|exact B]. destruct (RgH A) as [X|X]; [exact X | congruence].
           ++ intros A B. destruct (st_responded sX) eqn:R; [reflexivity|]. exfalso.
              rewrite A, S1fin, B, S1resp in C1. discriminate.
           ++ exact S1send.
        -- rewrite S1fin. exact Hf1.
        -- rewrite S1fin. exact Hf2.
        -- left. apply allowed_table. exact Hmp.
        -- apply outs_on_nil, Qq.
        -- rewrite Q1, <- Rcv. destruct St1 as [X|X]; rewrite X; reflexivity.
        -- exact Q2.
        -- rewrite highest_quiet by exact Qq. apply HIgen; [reflexivity | discriminate | exact ProcIdle].
        -- apply Hph, CC.
        -- intros sid rq H. exfalso. exact (Qnd sid rq H).
Qed.

(* ---------- afterFrame on a frame that handleFrame answered with a stream error ---------- *)

Lemma sent_st_closed w o : sent_st (RS.Closed w) o = RS.Closed w.
Proof. destruct o; reflexivity. Qed.

Lemma st_of_fold_closed l : forall s1 id w, wf s1 -> RS.st_of s1 id = RS.Closed w -> RS.st_of (fold_left RS.spec_sent l s1) id = RS.Closed w.
Proof.
  induction l as [|o l IH]; intros s1 id w W H; cbn [fold_left]; [exact H|].
  apply IH; [apply wf_spec_sent, W|]. rewrite st_of_spec_sent by exact W.
  destruct (match sent_sid o with Some j => j =? id | None => false end); [rewrite H; apply sent_st_closed | exact H].
Qed.

Lemma has_goaway_none d : (forall o, In o d -> is_goaway o = None) -> existsb is_exit d = false ->
  has_goaway (flat_map sent_of (rev (filter noisy d))) = false.
Proof.
  intros Hg He. unfold has_goaway. apply not_true_is_false. intro H. apply existsb_exists in H. destruct H as (so & Hin & Hso).
  apply in_flat_map in Hin. destruct Hin as (o & Ho & Hs). apply in_rev in Ho. apply filter_In in Ho. destruct Ho as [Ho _].
  pose proof (Hg o Ho) as G. assert (X : is_exit o = false).
  { destruct (is_exit o) eqn:Q; [|reflexivity]. exfalso. assert (existsb is_exit d = true) by (apply existsb_exists; eauto). congruence. }
  unfold sent_of, is_goaway, is_exit in *. destruct (strip_late o) as [? es ?|? es ?| | | | | | | | | |]; try destruct es; cbn in Hs;
    try contradiction; destruct Hs as [<-|[]]; try discriminate.
Qed.

Lemma classify_rst_first sid code l : (sid =? 0) = false -> (forall o, In o l -> is_goaway o = None) -> existsb is_exit l = false ->
  classify sid (ORst sid code :: l) = RS.StreamErr code.
Proof.
  intros Z Hg He. unfold classify.
  replace (first_some is_goaway (ORst sid code :: l)) with (@None N).
  2:{ cbn [first_some is_goaway strip_late]. symmetry. rewrite <- (app_nil_r l). rewrite first_goaway_skip by exact Hg. reflexivity. }
  cbn [existsb is_exit strip_late orb]. rewrite He, Z. cbn [first_some is_rst strip_late]. rewrite N.eqb_refl. reflexivity.
Qed.

Lemma after_reset c s ph fr ec' c2 l' h' cA s3 code :
  Sim c s ph -> sc_sl_done c = false -> seq_ok c fr ec' -> N.odd (sf_sid fr) = true ->
  base c fr (sc_strms c2) l' h' -> kctx c ec' l' h' c2 -> hf_eff c2 cA ->
  st_id s3 = sf_sid fr ->
  (RS.st_of s (sf_sid fr) = RS.Open \/ RS.st_of s (sf_sid fr) = RS.HalfClosedRemote \/
   (RS.st_of s (sf_sid fr) = RS.Idle /\ sf_kind fr = KHeaders)) ->
  (RS.st_of s (sf_sid fr) = RS.Idle -> h' = sf_sid fr /\ sc_highestID c < sf_sid fr) -> (RS.st_of s (sf_sid fr) <> RS.Idle -> h' = sc_highestID c) ->
  send_ok s3 ->
  (st_headersFinished s3 = false \/ sc_discardID cA = sc_discardID c) ->
  (ec' <> 0 -> st_headersFinished s3 = false) ->
  RS.allowed s (RS.Frame (abs_frame fr)) (RS.StreamErr code) = true ->
  sf_kind fr <> KRst ->
  feed c (IIn (RFrame fr)) =
    fst (after_frame cfg (write_reset cA (sf_sid fr) code) (set_state (set_state (set_weReset s3) SClosed) SClosed) fr (sc_closing c)) ->
  G c s ph (RFrame fr) (feed c (IIn (RFrame fr))).
Proof.
  intros HS Hsl SQ Od HB KC HE Hid Hx Hh1 Hh2 Hsend Hdi Hf2 Ha NR E.
  pose proof (S_wf _ _ _ _ HS) as W. pose proof (S_aux _ _ _ _ HS) as [AT AH].
  pose proof (Zn_of_odd _ Od) as Zn.
  destruct (kfin_of c ec' l' h' c2 cA Hsl KC HE) as (dq & KF & Qq & Qnd).
  pose proof (quiet_no_goaway dq Qq) as Qng.
  assert (WrA : wr hstate cA).
  { destruct KF as (_ & _ & _ & _ & _ & _ & K7 & _ & K9 & _). split; [exact K9 | rewrite K7; apply (A_wl _ _ AT)]. }
  set (cR := write_reset cA (sf_sid fr) code) in *.
  assert (KFR : kfin c ec' l' h' (sc_strms c2) cR (ORst (sf_sid fr) code :: dq)).
  { unfold cR, write_reset. rewrite (emit_wr hstate cA _ WrA). apply kfin_note, KF. }
  assert (WrR : wr hstate cR) by (unfold cR, write_reset; apply wr_emit, WrA).
  set (s5 := set_state (set_state (set_weReset s3) SClosed) SClosed) in *.
  assert (HS5 : handle_state fr s5 = s5).
  { unfold handle_state. apply fkind_eqb_neq in NR. rewrite NR. reflexivity. }
  unfold after_frame in E. rewrite HS5 in E. cbv zeta in E.
  replace (sstate_eqb (st_state s5) SHalfClosed) with false in E by reflexivity. cbn [andb] in E.
  (* the specification: the stream is closed by our RST_STREAM whatever follows *)
  assert (Spec : forall d', (forall o, In o d' -> is_goaway o = None) -> existsb is_exit d' = false ->
     let d := d' ++ ORst (sf_sid fr) code :: dq in
     classify (sf_sid fr) (rev (filter noisy d)) = RS.StreamErr code /\
     RS.st_of (after_outs (RS.spec_next s (RS.Frame (abs_frame fr)) (RS.StreamErr code)) d) (sf_sid fr) = RS.Closed RS.WeRst /\
     RS.goaway (after_outs (RS.spec_next s (RS.Frame (abs_frame fr)) (RS.StreamErr code)) d) = RS.goaway s /\
     RS.highest (after_outs (RS.spec_next s (RS.Frame (abs_frame fr)) (RS.StreamErr code)) d) = h').
  { intros d' Hg He d.
    assert (Fd : rev (filter noisy d) = ORst (sf_sid fr) code :: rev (filter noisy d')).
    { unfold d. rewrite filter_app. cbn [filter noisy strip_late]. rewrite Qq, rev_app_distr. reflexivity. }
    assert (W1 : wf (RS.spec_next s (RS.Frame (abs_frame fr)) (RS.StreamErr code))) by (apply wf_spec_next, W).
    assert (S1 : RS.st_of (RS.spec_next s (RS.Frame (abs_frame fr)) (RS.StreamErr code)) (sf_sid fr) = RS.Closed RS.WeRst).
    { rewrite (st_of_spec_next_same s (abs_frame fr)) by exact Od. cbn [conn_err next_st]. change (RS.f_sid (abs_frame fr)) with (sf_sid fr).
      destruct Hx as [X|[X|[X KH]]]; rewrite X; unfold RS.reset, abs_frame; cbn [RS.f_kind]; rewrite ?KH; try reflexivity;
        destruct (abs_kind (sf_kind fr)); reflexivity. }
    split; [|split; [|split]].
    - rewrite Fd. apply classify_rst_first; [exact Zn | |].
      + intros o H. apply in_rev in H. apply filter_In in H. apply Hg, H.
      + rewrite existsb_rev, exit_noisy. exact He.
    - unfold after_outs. apply st_of_fold_closed; assumption.
    - unfold after_outs. rewrite goaway_fold_sent, goaway_spec_next. cbn [conn_err]. rewrite orb_false_r.
      rewrite has_goaway_none; [apply orb_false_r | |].
      + intros o H. unfold d in H. apply in_app_or in H. destruct H as [H|[<-|H]]; [apply Hg, H | reflexivity | apply Qng, H].
      + unfold d. rewrite existsb_app, He. cbn [existsb is_exit strip_late orb].
        clear -Qq. induction dq as [|o t IH]; [reflexivity|]. cbn [filter] in Qq. cbn [existsb]. destruct (noisy o) eqn:N; [discriminate|].
        rewrite (IH Qq), orb_false_r. unfold noisy, is_exit in *. destruct (strip_late o); try discriminate; reflexivity.
    - unfold after_outs. rewrite highest_fold_sent by exact W1. apply highest_next_known; try assumption; try reflexivity; try discriminate.
      + change (RS.f_sid (abs_frame fr)) with (sf_sid fr). intro X. destruct (Hh1 X) as [A B]. split; [|split; [exact A | rewrite (S_hi _ _ _ _ HS); exact B]].
        destruct Hx as [Y|[Y|[Y KH]]]; try congruence. cbn [next_st]. unfold RS.reset, abs_frame. cbn [RS.f_kind]. rewrite KH. discriminate.
      + change (RS.f_sid (abs_frame fr)) with (sf_sid fr). intro X. rewrite (S_hi _ _ _ _ HS). apply Hh2, X. }
  assert (Kd2 : forall sF, st_weReset sF = true -> st_headersFinished sF = st_headersFinished s3 ->
                ec' <> 0 -> sc_discardID cR = sf_sid fr \/ (st_weReset sF = true /\ st_headersFinished sF = false)).
  { intros sF A B Hne. right. split; [exact A | rewrite B; apply Hf2, Hne]. }
  destruct (st_responded s5 && negb (st_handlerRunning s5) && has_more_to_send s5)%bool eqn:C2.
  - (* response data was queued: it still goes out *)
    apply andb_true_iff in C2. destruct C2 as [_ C2m].
    destruct (send_data cR s5) as [[c1' s2'] fin] eqn:SD.
    destruct (send_data_spec hstate cR s5 c1' s2' fin WrR C2m Hsend SD) as (ds & SDd & FD & Sid & Sst & Sfin & Sresp & Srun & Sorig & Sout).
    destruct (data_or_rst_facts ds FD) as (Dnd & Dng & Dne).
    pose proof (kfin_sd c ec' l' h' _ cR _ c1' ds KFR SDd) as KF1.
    destruct (Spec ds Dng Dne) as (CLs & Q1 & Q2 & Q3).
    set (sF := if fin then set_state s2' SClosed else s2') in *.
    assert (StF : st_state sF = SClosed) by (unfold sF; destruct fin; [reflexivity | rewrite Sst; reflexivity]).
    assert (WrF : st_weReset sF = true).
    { unfold sF. destruct fin; cbn.
      - destruct Sout as [(ch & _ & X)|(_ & X)]; rewrite X; reflexivity.
      - destruct Sout as (_ & X & _). rewrite X. reflexivity. }
    assert (FinF : st_headersFinished sF = st_headersFinished s3) by (unfold sF; destruct fin; cbn; rewrite Sfin; reflexivity).
    assert (IdF : st_id sF = sf_sid fr) by (unfold sF; destruct fin; cbn; rewrite Sid; exact Hid).
    replace (sstate_eqb (st_state sF) SClosed) with true in E by (rewrite StF; reflexivity).
    apply (G_close' c s ph fr ec' (sc_strms c2) l' h' sF c1' (ds ++ ORst (sf_sid fr) code :: dq) HS Hsl SQ Od HB IdF KF1); try assumption;
      rewrite ?CLs; cbn [resolve]; try exact Q2; try exact Q3.
    + destruct Hdi as [X|X]; [left; split; [exact WrF | rewrite FinF; exact X]|].
      right. left. unfold sd in SDd. rewrite SDd. sc_cbn. unfold cR, write_reset. sc_rw. exact X.
    + intro Hne. destruct (Kd2 sF WrF FinF Hne) as [X|X]; [|right; exact X]. left. unfold sd in SDd. rewrite SDd. sc_cbn. exact X.
    + intros o H. apply in_app_or in H. destruct H as [H|[<-|H]]; [apply Dng, H | reflexivity | apply Qng, H].
    + left. exact Ha.
    + apply outs_on_of. intros o Ho so Hso. rewrite filter_app in Ho. apply in_app_or in Ho. destruct Ho as [Ho|Ho].
      * apply filter_In in Ho. destruct Ho as [Ho _]. rewrite Forall_forall in FD. specialize (FD o Ho).
        destruct fin.
        -- destruct Sout as [(ch & Fn & _)|(Fn & _)]; assert (X : In o (filter noisy ds)) by (apply filter_In; split; [exact Ho|];
             unfold sent_of in Hso; unfold noisy; destruct (strip_late o) as [? es ?|? es ?| | | | | | | | | |]; try destruct es; try contradiction; reflexivity);
           rewrite Fn in X; destruct X as [<-|[]]; destruct Hso as [<-|[]]; left; cbn; rewrite ?Hid; reflexivity.
        -- destruct Sout as (Fn & _). assert (X : In o (filter noisy ds)) by (apply filter_In; split; [exact Ho|];
             unfold sent_of in Hso; unfold noisy; destruct (strip_late o) as [? es ?|? es ?| | | | | | | | | |]; try destruct es; try contradiction; reflexivity).
           rewrite Fn in X. destruct X.
      * cbn [filter noisy strip_late] in Ho. rewrite Qq in Ho. destruct Ho as [<-|[]]. destruct Hso as [<-|[]]. left. reflexivity.
    + rewrite Q1, WrF. reflexivity.
    + intros sid rq H. apply in_app_or in H. destruct H as [H|[H|H]]; [exact (Dnd sid rq H) | discriminate | exact (Qnd sid rq H)].
  - (* nothing more *)
    destruct (Spec [] ltac:(intros o []) eq_refl) as (CLs & Q1 & Q2 & Q3). cbn [app] in CLs, Q1, Q2, Q3.
    replace (sstate_eqb (st_state s5) SClosed) with true in E by reflexivity.
    apply (G_close' c s ph fr ec' (sc_strms c2) l' h' s5 cR (ORst (sf_sid fr) code :: dq) HS Hsl SQ Od HB Hid KFR); try assumption;
      rewrite ?CLs; cbn [resolve]; try exact Q2; try exact Q3.
    + destruct Hdi as [X|X]; [left; split; [reflexivity | exact X]|]. right. left. unfold cR, write_reset. sc_rw. exact X.
    + intro Hne. apply (Kd2 s5 eq_refl eq_refl Hne).
    + intros o [<-|H]; [reflexivity | apply Qng, H].
    + left. exact Ha.
    + apply outs_on_of. intros o Ho so Hso. cbn [filter noisy strip_late] in Ho. rewrite Qq in Ho. destruct Ho as [<-|[]]. destruct Hso as [<-|[]]. left. reflexivity.
    + rewrite Q1. reflexivity.
    + intros sid rq [H|H]; [discriminate | exact (Qnd sid rq H)].
Qed.

(* the state handleState computes, as a function of the frame type, END_STREAM and the old state *)
Definition hs_state (k : fkind) (es : bool) (x : sstate) : sstate :=
  if fkind_eqb k KRst then SClosed
  else match x with
       | SIdle => if fkind_eqb k KHeaders then (if es then SHalfClosed else SOpen) else SIdle
       | SOpen => if (fkind_eqb k KData || fkind_eqb k KHeaders) && es then SHalfClosed else SOpen
       | o => o
       end.

Lemma handle_state_st fr s : st_state (handle_state fr s) = hs_state (sf_kind fr) (flag_has (sf_flags fr) FL_ES) (st_state s).
Proof.
  unfold handle_state, hs_state. destruct s. cbn. destruct (sf_kind fr); cbn; destruct st_state; cbn;
    try destruct (flag_has (sf_flags fr) FL_ES); reflexivity.
Qed.

Lemma handle_state_fin fr s : st_headersFinished (handle_state fr s) = st_headersFinished s.
Proof. rewrite handle_state_set. reflexivity. Qed.

Lemma phase_of_handle fr s : phase_of (handle_state fr s) =
  match hs_state (sf_kind fr) (flag_has (sf_flags fr) FL_ES) (st_state s), st_headersFinished s with
  | SOpen, false => RS.PHead false
  | SOpen, true => RS.PBody
  | SHalfClosed, false => RS.PHead true
  | SHalfClosed, true => RS.PDone
  | _, _ => RS.PBad
  end.
Proof. unfold phase_of. rewrite handle_state_st, handle_state_fin. reflexivity. Qed.

End Known.
