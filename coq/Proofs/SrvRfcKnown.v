(* Proofs/SrvRfcKnown.v - C08: a frame on a stream of the table (or on the stream just made
   for it): how the invariant is re-established when the stream stays, and when it is closed. *)
From H2V Require Import Base.Bytes Base.MachineInt Base.Result Gen.GenConsts Impl.ServerConn.
From H2V Require Import Proofs.SrvBase Proofs.SrvRfcDefs Proofs.SrvRfcSpec Proofs.SrvRfcModel Proofs.SrvRfcSim Proofs.SrvRfcEff
  Proofs.SrvRfcSend Proofs.SrvRfcStep Proofs.SrvRfcKit Proofs.SrvRfcRl Proofs.SrvRfcSl.
From Coq Require Import ZArith Lia ZifyN ZifyNat ZifyBool.
Local Open Scope N_scope.

(* what a stream of the table looks like between two frames *)
Definition strm_ok (st : stream) : Prop :=
  (st_state st = SOpen \/ st_state st = SHalfClosed) /\ st_weReset st = false /\
  (st_responded st = true \/ st_handlerRunning st = true -> st_state st = SHalfClosed /\ st_headersFinished st = true) /\
  (st_state st = SHalfClosed -> st_headersFinished st = true -> st_responded st = true) /\
  (has_more_to_send st = true -> st_bodyStream st = None -> st_pendingEnd st = true).

Section Known.
Variable hstate : Type.
Variable dec_field : hstate -> N -> bytes -> dec_res hstate.
Variable enc_field : hstate -> bytes -> bytes -> bool -> bytes * hstate.
Variable enc_set_max : hstate -> N -> hstate.
Variable cfg : config.
Notation sconn := (sconn hstate).
Notation feed := (feed hstate dec_field enc_field enc_set_max cfg).
Notation G := (G hstate).
Notation view := (view hstate).
Notation tbl := (tbl hstate).
Notation Sim := (Sim hstate).
Notation AuxT := (AuxT hstate).
Notation AuxH := (AuxH hstate).
Notation seq_ok := (seq_ok hstate).
Implicit Types c : sconn.

(* the table the stream loop works on: the one it found, or that one with the stream it has
   just made for a HEADERS frame on a new id *)
Definition base c (fr : sframe) (L : list stream) (last' high' : N) : Prop :=
  (L = sc_strms c /\ last' = sc_lastID c /\ high' = sc_highestID c /\ (exists old, tbl c (sf_sid fr) = Some old)) \/
  (exists new, L = sc_strms c ++ [new] /\ st_id new = sf_sid fr /\ tbl c (sf_sid fr) = None /\ ring_find c (sf_sid fr) = None /\
               last' = sf_sid fr /\ high' = sf_sid fr /\ sc_highestID c < sf_sid fr /\ sc_closing c = false).

Lemma AuxT_strm_ok c st : AuxT c -> In st (sc_strms c) -> strm_ok st.
Proof.
  intros AT H. destruct (A_st _ _ AT st H) as (A & B & C & D).
  split; [exact A|]. split; [exact B|]. split; [exact C|]. split; [exact D|]. apply (A_snd _ _ AT st H).
Qed.

Lemma base_facts c fr L l' h' : AuxT c -> base c fr L l' h' ->
  NoDup (map st_id L) /\ sc_lastID c <= l' /\ l' <= h' /\ sc_highestID c <= h' /\
  (exists old, strms_search L (sf_sid fr) = Some old) /\
  (forall st, In st L -> st_id st <> sf_sid fr -> In st (sc_strms c)) /\
  (forall id, id <> sf_sid fr -> strms_search L id = tbl c id) /\
  (forall st, In st (sc_strms c) -> st_id st <> sf_sid fr -> In st L) /\
  (forall st, In st (sc_strms c) -> st_id st <= l') /\ sf_sid fr <= l' /\ ring_find c (sf_sid fr) = None.
Proof.
  intros AT [(-> & -> & -> & old & Ho)|(new & -> & Hid & Tn & Rn & -> & -> & Hgt & Hcl)].
  - pose proof (search_In _ _ _ Ho) as HoIn. pose proof (search_id _ _ _ Ho) as Hoid.
    split; [apply (A_nodup _ _ AT)|]. split; [lia|]. split; [apply (A_last _ _ AT)|]. split; [lia|].
    split; [eauto|]. split; [auto|]. split; [reflexivity|]. split; [auto|].
    split; [intros st H; apply (A_ids _ _ AT st H)|].
    split; [rewrite <- Hoid; apply (A_ids _ _ AT old HoIn)|].
    pose proof (A_tr _ _ AT old HoIn) as X. rewrite Hoid, in_ring_find in X. destruct (ring_find c (sf_sid fr)); [discriminate | reflexivity].
  - assert (NI : ~ In (st_id new) (map st_id (sc_strms c))).
    { intro H. destruct (search_in _ _ H) as [x Hx]. rewrite Hid in Hx. unfold SrvRfcDefs.tbl in Tn. congruence. }
    pose proof (A_last _ _ AT) as LL.
    split; [apply app_nodup; [apply (A_nodup _ _ AT) | exact NI]|]. split; [lia|]. split; [lia|]. split; [lia|].
    split; [exists new; rewrite search_app; unfold SrvRfcDefs.tbl in Tn; rewrite Tn, Hid, N.eqb_refl; reflexivity|].
    split; [intros st H Hne; apply in_app_or in H; destruct H as [H|[<-|[]]]; [exact H | congruence]|].
    split; [intros id Hne; rewrite search_app; unfold SrvRfcDefs.tbl; destruct (strms_search (sc_strms c) id); [reflexivity|];
            rewrite Hid; replace (sf_sid fr =? id) with false by lia; reflexivity|].
    split; [intros st H _; apply in_or_app; left; exact H|].
    split; [intros st H; pose proof (proj2 (A_ids _ _ AT st H)); lia|]. split; [lia | exact Rn].
Qed.

(* every other stream of the table has its headers (the read loop lets one block at a time through) *)
Lemma others_finished c fr ec' st : AuxT c -> AuxH c -> seq_ok c fr ec' -> In st (sc_strms c) -> st_id st <> sf_sid fr ->
  st_headersFinished st = true.
Proof.
  intros AT AH SQ H Hne. destruct (st_headersFinished st) eqn:F; [reflexivity|]. exfalso.
  pose proof (A_fin _ _ AH st H F) as X. destruct (A_ids _ _ AT st H) as [O _].
  destruct SQ as [(E0 & _)|(_ & _ & Sd & _)]; [rewrite E0 in X; rewrite X in O; discriminate | congruence].
Qed.

(* the stream stays in the table *)
Lemma G_keep c s ph fr ec' L l' h' sF c' d :
  Sim c s ph -> sc_sl_done c = false -> seq_ok c fr ec' -> N.odd (sf_sid fr) = true ->
  feed c (IIn (RFrame fr)) = c' -> base c fr L l' h' -> st_id sF = sf_sid fr ->
  sc_strms c' = strms_put L sF -> sc_ring c' = sc_ring c -> sc_oldest c' = sc_oldest c ->
  sc_lastID c' = l' -> sc_highestID c' = h' -> sc_rl_done c' = sc_rl_done c -> sc_wl_dead c' = sc_wl_dead c ->
  sc_readerQ c' = sc_readerQ c -> sc_sl_done c' = false -> sc_closing c' = sc_closing c -> sc_expectCont c' = ec' ->
  sc_discardID c' = sc_discardID c -> sc_out c' = d ++ sc_out c ->
  strm_ok sF -> (st_headersFinished sF = false -> ec' = sf_sid fr) -> (ec' <> 0 -> st_headersFinished sF = false) ->
  (RS.allowed s (RS.Frame (abs_frame fr)) (resolve s (RS.Frame (abs_frame fr)) (classify (sf_sid fr) (rev (filter noisy d)))) = true \/
   known_deviation hstate c s (RFrame fr) = true) ->
  outs_on (sf_sid fr) d ->
  RS.st_of (after_outs (RS.spec_next s (RS.Frame (abs_frame fr)) (resolve s (RS.Frame (abs_frame fr)) (classify (sf_sid fr) (rev (filter noisy d))))) d) (sf_sid fr)
    = (match st_state sF with SOpen => RS.Open | _ => RS.HalfClosedRemote end) ->
  RS.goaway (after_outs (RS.spec_next s (RS.Frame (abs_frame fr)) (resolve s (RS.Frame (abs_frame fr)) (classify (sf_sid fr) (rev (filter noisy d))))) d) = RS.goaway s ->
  RS.highest (after_outs (RS.spec_next s (RS.Frame (abs_frame fr)) (resolve s (RS.Frame (abs_frame fr)) (classify (sf_sid fr) (rev (filter noisy d))))) d) = h' ->
  RS.request_step (ph (sf_sid fr)) (abs_frame fr) = phase_of sF ->
  (forall sid rq, In (ODispatch sid rq) d -> sid = sf_sid fr /\ phase_of sF = RS.PDone) ->
  G c s ph (RFrame fr) (feed c (IIn (RFrame fr))).
Proof.
  intros HS Hsl SQ Od E HB Hid Hstr Hring Hold Hlast Hhigh Hrl Hwl Hq Hsl' Hcl Hec Hdi Ho Hok Hf1 Hf2 Ha Hon Hst Hga Hhi Hph Hdisp.
  pose proof (S_aux _ _ _ _ HS) as [AT AH]. pose proof (S_wf _ _ _ _ HS) as W.
  destruct (base_facts c fr L l' h' AT HB) as (ND & L1 & L2 & L3 & (old & Hold') & In1 & Tb & In2 & Le & SidLe & Rn).
  assert (TbS : tbl c' (sf_sid fr) = Some sF).
  { unfold SrvRfcDefs.tbl. rewrite Hstr, <- Hid. eapply search_put_same. rewrite Hid. exact Hold'. }
  assert (TbO : forall id, id <> sf_sid fr -> tbl c' id = tbl c id).
  { intros id Hne. unfold SrvRfcDefs.tbl at 1. rewrite Hstr, search_put_other by (rewrite Hid; exact Hne). apply Tb, Hne. }
  assert (InC' : forall st, In st (sc_strms c') -> st = sF \/ (In st (sc_strms c) /\ st_id st <> sf_sid fr)).
  { intros st H. rewrite Hstr in H. destruct (put_In _ _ _ ND H) as [X|[X Y]]; [left; exact X|]. rewrite Hid in Y. right. split; [apply In1; assumption | exact Y]. }
  assert (RF : forall id, ring_find c' id = ring_find c id) by (intro id; apply ring_find_ext, Hring).
  set (r := resolve s (RS.Frame (abs_frame fr)) (classify (sf_sid fr) (rev (filter noisy d)))) in *.
  set (s2 := after_outs (RS.spec_next s (RS.Frame (abs_frame fr)) r) d) in *.
  apply (G_live hstate dec_field enc_field enc_set_max cfg c s ph fr c' d E Hsl' Ho Ha).
  - apply (live_tuple_one hstate c c' s s2 ph _ (sf_sid fr) HS).
    + (* Aux *)
      split.
      * constructor.
        -- rewrite Hrl. apply (A_rl _ _ AT).
        -- rewrite Hwl. apply (A_wl _ _ AT).
        -- rewrite Hq. apply (A_q _ _ AT).
        -- rewrite Hstr. apply put_nodup, ND.
        -- intros st H. rewrite Hlast. destruct (InC' st H) as [->|[X Y]].
           ++ rewrite Hid. split; [exact Od | exact SidLe].
           ++ split; [apply (A_ids _ _ AT st X) | apply Le, X].
        -- rewrite Hlast, Hhigh. exact L2.
        -- eapply ring_ok_ext; [exact Hring | exact Hold | apply (A_ring _ _ AT)].
        -- intros st H. rewrite in_ring_find, RF. destruct (InC' st H) as [->|[X Y]].
           ++ rewrite Hid, Rn. reflexivity.
           ++ pose proof (A_tr _ _ AT st X) as Z. rewrite in_ring_find in Z. exact Z.
        -- intros st H. destruct (InC' st H) as [->|[X Y]].
           ++ destruct Hok as (A & B & C & D & _). auto.
           ++ apply (A_st _ _ AT st X).
        -- intros st H. destruct (InC' st H) as [->|[X Y]].
           ++ destruct Hok as (_ & _ & _ & _ & D). exact D.
           ++ apply (A_snd _ _ AT st X).
      * constructor.
        -- intros st H Hf. rewrite Hec. destruct (InC' st H) as [->|[X Y]].
           ++ rewrite Hid. symmetry. apply Hf1, Hf.
           ++ rewrite (others_finished c fr ec' st AT AH SQ X Y) in Hf. discriminate.
        -- intros st Hne H. rewrite Hec in Hne, H. destruct (ec'_cases hstate c fr ec' SQ) as [Z|Z]; [exfalso; apply Hne; exact Z|].
           rewrite Z, TbS in H. inversion H; subst st. apply Hf2, Hne.
        -- rewrite Hec. intro Hne. destruct (ec'_cases hstate c fr ec' SQ) as [Z|Z]; [exfalso; apply Hne; exact Z | rewrite Z; exact Od].
        -- rewrite Hdi, Hhigh. intro Hne. destruct (A_disc _ _ AH Hne) as [X Y]. split; [|clear -Y L3; lia].
           rewrite TbO; [exact X|]. intro Z. rewrite Z in X, Y.
           destruct HB as [(_ & _ & _ & o & Ho')|(new & _ & _ & _ & _ & _ & _ & Hgt & _)]; [rewrite Ho' in X; discriminate | clear -Y Hgt; lia].
    + intros id Hne. split; [rewrite (TbO id Hne); reflexivity | left; apply RF].
    + intros _. unfold SrvRfcDefs.view. rewrite TbS. cbn [rel1 rel]. rewrite Hst.
      destruct Hok as ([X|X] & _); rewrite X; reflexivity.
    + intros id Hne. apply sdrift_after; [exact W | exact Hne | exact Hon].
    + unfold R_block. rewrite Hec. apply (block_after hstate c s fr ec' r d SQ); [intro Z; rewrite Z in Od; discriminate | exact (S_blk _ _ _ _ HS)].
    + rewrite Hga, Hcl. exact (S_ga _ _ _ _ HS).
    + rewrite Hhi, Hhigh. reflexivity.
    + intros Hne H. exfalso. rewrite Hec in H, Hne. destruct (ec'_cases hstate c fr ec' SQ) as [Z|Z]; [apply Hne; exact Z|]. rewrite Z, TbS in H. discriminate.
    + intros st H. cbn [ph_next]. destruct (InC' st H) as [->|[X Y]].
      * rewrite Hid, N.eqb_refl. exact Hph.
      * replace (st_id st =? sf_sid fr) with false by (clear -Y; lia). exact (S_ph _ _ _ _ HS st X).
    + intros Hc id O Lt. rewrite Hhigh in Lt. cbn [ph_next]. replace (id =? sf_sid fr) with false by (clear -Lt SidLe L2; lia).
      apply (S_new _ _ _ _ HS); [rewrite <- Hcl; exact Hc | exact O | clear -Lt L3; lia].
  - intros sid rq H. destruct (Hdisp sid rq H) as [-> X]. cbn [ph_next]. rewrite N.eqb_refl, Hph. exact X.
Qed.

(* the stream leaves the table for the ring *)
Lemma G_close c s ph fr ec' L l' h' sF c' d :
  Sim c s ph -> sc_sl_done c = false -> seq_ok c fr ec' -> N.odd (sf_sid fr) = true ->
  feed c (IIn (RFrame fr)) = c' -> base c fr L l' h' -> st_id sF = sf_sid fr ->
  sc_strms c' = strms_del (strms_put L sF) (sf_sid fr) ->
  sc_ring c' = sc_ring (mark_closed c (sf_sid fr) (st_weReset sF)) -> sc_oldest c' = sc_oldest (mark_closed c (sf_sid fr) (st_weReset sF)) ->
  sc_lastID c' = l' -> sc_highestID c' = h' -> sc_rl_done c' = sc_rl_done c -> sc_wl_dead c' = sc_wl_dead c ->
  sc_readerQ c' = sc_readerQ c -> sc_sl_done c' = false -> sc_closing c' = sc_closing c -> sc_expectCont c' = ec' ->
  (sc_discardID c' = sc_discardID c \/ sc_discardID c' = sf_sid fr) -> (ec' <> 0 -> sc_discardID c' = sf_sid fr) ->
  sc_out c' = d ++ sc_out c ->
  (RS.allowed s (RS.Frame (abs_frame fr)) (resolve s (RS.Frame (abs_frame fr)) (classify (sf_sid fr) (rev (filter noisy d)))) = true \/
   known_deviation hstate c s (RFrame fr) = true) ->
  outs_on (sf_sid fr) d ->
  rel (MRing (st_weReset sF))
      (RS.st_of (after_outs (RS.spec_next s (RS.Frame (abs_frame fr)) (resolve s (RS.Frame (abs_frame fr)) (classify (sf_sid fr) (rev (filter noisy d))))) d) (sf_sid fr)) ->
  RS.goaway (after_outs (RS.spec_next s (RS.Frame (abs_frame fr)) (resolve s (RS.Frame (abs_frame fr)) (classify (sf_sid fr) (rev (filter noisy d))))) d) = RS.goaway s ->
  RS.highest (after_outs (RS.spec_next s (RS.Frame (abs_frame fr)) (resolve s (RS.Frame (abs_frame fr)) (classify (sf_sid fr) (rev (filter noisy d))))) d) = h' ->
  (forall sid rq, ~ In (ODispatch sid rq) d) ->
  G c s ph (RFrame fr) (feed c (IIn (RFrame fr))).
Proof.
  intros HS Hsl SQ Od E HB Hid Hstr Hring Hold Hlast Hhigh Hrl Hwl Hq Hsl' Hcl Hec Hdi Hdi2 Ho Ha Hon Hst Hga Hhi Hdisp.
  pose proof (S_aux _ _ _ _ HS) as [AT AH]. pose proof (S_wf _ _ _ _ HS) as W.
  destruct (base_facts c fr L l' h' AT HB) as (ND & L1 & L2 & L3 & (old & Hold') & In1 & Tb & In2 & Le & SidLe & Rn).
  rewrite <- Hid, del_put, Hid in Hstr.
  assert (TbS : tbl c' (sf_sid fr) = None) by (unfold SrvRfcDefs.tbl; rewrite Hstr; apply search_del_same, ND).
  assert (TbO : forall id, id <> sf_sid fr -> tbl c' id = tbl c id).
  { intros id Hne. unfold SrvRfcDefs.tbl at 1. rewrite Hstr, search_del_other by exact Hne. apply Tb, Hne. }
  assert (InC' : forall st, In st (sc_strms c') -> In st (sc_strms c) /\ st_id st <> sf_sid fr).
  { intros st H. rewrite Hstr in H. destruct (del_In _ _ _ ND H) as [X Y]. split; [apply In1; assumption | exact Y]. }
  assert (RF : forall id, ring_find c' id = ring_find (mark_closed c (sf_sid fr) (st_weReset sF)) id) by (intro id; apply ring_find_ext, Hring).
  pose proof (A_ring _ _ AT) as RO.
  set (r := resolve s (RS.Frame (abs_frame fr)) (classify (sf_sid fr) (rev (filter noisy d)))) in *.
  set (s2 := after_outs (RS.spec_next s (RS.Frame (abs_frame fr)) r) d) in *.
  apply (G_live hstate dec_field enc_field enc_set_max cfg c s ph fr c' d E Hsl' Ho Ha).
  - apply (live_tuple_one hstate c c' s s2 ph _ (sf_sid fr) HS).
    + split.
      * constructor.
        -- rewrite Hrl. apply (A_rl _ _ AT).
        -- rewrite Hwl. apply (A_wl _ _ AT).
        -- rewrite Hq. apply (A_q _ _ AT).
        -- rewrite Hstr. apply del_nodup, ND.
        -- intros st H. rewrite Hlast. destruct (InC' st H) as [X Y]. split; [apply (A_ids _ _ AT st X) | apply Le, X].
        -- rewrite Hlast, Hhigh. exact L2.
        -- eapply ring_ok_ext; [exact Hring | exact Hold | apply ring_ok_mark, RO].
        -- intros st H. destruct (InC' st H) as [X Y]. rewrite in_ring_find, RF.
           pose proof (A_tr _ _ AT st X) as Z. rewrite in_ring_find in Z.
           destruct (ring_find_mark_other hstate c (sf_sid fr) (st_weReset sF) (st_id st) RO Y) as [Q|Q]; rewrite Q; [exact Z | reflexivity].
        -- intros st H. destruct (InC' st H) as [X Y]. apply (A_st _ _ AT st X).
        -- intros st H. destruct (InC' st H) as [X Y]. apply (A_snd _ _ AT st X).
      * constructor.
        -- intros st H Hf. destruct (InC' st H) as [X Y]. rewrite (others_finished c fr ec' st AT AH SQ X Y) in Hf. discriminate.
        -- intros st Hne H. rewrite Hec in Hne, H. destruct (ec'_cases hstate c fr ec' SQ) as [Z|Z]; [exfalso; apply Hne; exact Z|].
           rewrite Z, TbS in H. discriminate.
        -- rewrite Hec. intro Hne. destruct (ec'_cases hstate c fr ec' SQ) as [Z|Z]; [exfalso; apply Hne; exact Z | rewrite Z; exact Od].
        -- rewrite Hhigh. intro Hne. destruct Hdi as [X|X]; rewrite X in *.
           ++ destruct (A_disc _ _ AH Hne) as [Y Y']. split; [|clear -Y' L3; lia].
              destruct (N.eq_dec (sc_discardID c) (sf_sid fr)) as [Q|Q]; [rewrite Q; exact TbS | rewrite TbO; assumption].
           ++ split; [exact TbS | clear -SidLe L2; lia].
    + intros id Hne. split; [rewrite (TbO id Hne); reflexivity|]. rewrite RF. apply ring_find_mark_other; [exact RO | exact Hne].
    + intros _. unfold SrvRfcDefs.view. rewrite TbS, RF, ring_find_mark_same by exact RO. rewrite Rn. cbn [rel1]. exact Hst.
    + intros id Hne. apply sdrift_after; [exact W | exact Hne | exact Hon].
    + unfold R_block. rewrite Hec. apply (block_after hstate c s fr ec' r d SQ); [intro Z; rewrite Z in Od; discriminate | exact (S_blk _ _ _ _ HS)].
    + rewrite Hga, Hcl. exact (S_ga _ _ _ _ HS).
    + rewrite Hhi, Hhigh. reflexivity.
    + intros Hne _. left. rewrite Hec in *. rewrite (Hdi2 Hne). destruct (ec'_cases hstate c fr ec' SQ) as [Z|Z]; [exfalso; apply Hne; exact Z | symmetry; exact Z].
    + intros st H. cbn [ph_next]. destruct (InC' st H) as [X Y].
      replace (st_id st =? sf_sid fr) with false by (clear -Y; lia). exact (S_ph _ _ _ _ HS st X).
    + intros Hc id O Lt. rewrite Hhigh in Lt. cbn [ph_next]. replace (id =? sf_sid fr) with false by (clear -Lt SidLe L2; lia).
      apply (S_new _ _ _ _ HS); [rewrite <- Hcl; exact Hc | exact O | clear -Lt L3; lia].
  - intros sid rq H. exfalso. exact (Hdisp sid rq H).
Qed.

Lemma allowed_goaway_close s i : RS.goaway s = true -> RS.allowed s i RS.ConnClose = true.
Proof. intro H. unfold RS.allowed. rewrite H. cbn. apply orb_true_r. Qed.

(* the last step of afterFrame: once GOAWAY has been sent and the last stream it covers is
   gone, the stream loop ends *)
Lemma G_finish c s ph fr c3 d :
  Sim c s ph ->
  feed c (IIn (RFrame fr)) = fst (if sc_closing c && can_close_after_goaway c3 then brk c3 else cont c3) ->
  sc_out c3 = d ++ sc_out c -> (forall o, In o d -> is_goaway o = None) ->
  (forall sid rq, In (ODispatch sid rq) d -> ph_next ph (IIn (RFrame fr)) sid = RS.PDone) ->
  (feed c (IIn (RFrame fr)) = c3 -> G c s ph (RFrame fr) (feed c (IIn (RFrame fr)))) ->
  G c s ph (RFrame fr) (feed c (IIn (RFrame fr))).
Proof.
  intros HS E Ho Hng Hd Hlive.
  destruct (sc_closing c && can_close_after_goaway c3)%bool eqn:C; cbn [fst cont] in E; [|apply Hlive, E].
  apply andb_true_iff in C. destruct C as [C _].
  apply (G_over hstate dec_field enc_field enc_set_max cfg c s ph (RFrame fr) _ (OExit 1 0 :: d) E).
  - reflexivity.
  - rewrite sc_out_brk, Ho. reflexivity.
  - reflexivity.
  - left. cbn [abs_input input_sid filter noisy strip_late rev]. rewrite classify_close.
    + apply allowed_goaway_close. rewrite (S_ga _ _ _ _ HS). exact C.
    + intros o Hin. apply in_app_or in Hin. destruct Hin as [Hin|[<-|[]]]; [|reflexivity]. apply (no_goaway_rev_filter d Hng), Hin.
    + rewrite existsb_app. cbn [existsb is_exit strip_late]. apply orb_true_r.
  - intros sid rq [H|H]; [discriminate | exact (Hd sid rq H)].
Qed.

(* ---------- what handleFrame does to the connection ---------- *)

Definition quiet_ext c c' : Prop :=
  exists dq, sc_out c' = dq ++ sc_out c /\ filter noisy dq = [] /\ (forall sid rq, ~ In (ODispatch sid rq) dq).

(* same as c but for the outputs (quiet ones), the decoder, the windows and the discard registers *)
Definition hf_eff c c' : Prop :=
  sc_strms c' = sc_strms c /\ sc_ring c' = sc_ring c /\ sc_oldest c' = sc_oldest c /\ sc_lastID c' = sc_lastID c /\
  sc_highestID c' = sc_highestID c /\ sc_rl_done c' = sc_rl_done c /\ sc_wl_dead c' = sc_wl_dead c /\
  sc_readerQ c' = sc_readerQ c /\ sc_sl_done c' = sc_sl_done c /\ sc_closing c' = sc_closing c /\
  sc_expectCont c' = sc_expectCont c /\ sc_closeRef c' = sc_closeRef c /\ quiet_ext c c'.

Lemma quiet_ext_refl c : quiet_ext c c.
Proof. exists []. split; [reflexivity|]. split; [reflexivity | intros sid rq []]. Qed.

Lemma hf_eff_refl c : hf_eff c c.
Proof. unfold hf_eff. repeat (split; [reflexivity|]). apply quiet_ext_refl. Qed.

Lemma hf_eff_dd c c' : dd hstate c c' -> hf_eff c c'.
Proof.
  intros (d & i & p & n & ->). unfold hf_eff. sc_cbn. repeat (split; [reflexivity|]).
  exists []. split; [reflexivity|]. split; [reflexivity | intros sid rq []].
Qed.

Lemma consume_out c s fr n : sc_sl_done c = false -> sc_wl_dead c = false ->
  quiet_ext c (consume_recv_window cfg c s fr n).
Proof.
  intros A B. unfold consume_recv_window. destruct (n <=? 0)%Z; [apply quiet_ext_refl|].
  destruct (flag_has (sf_flags fr) FL_ES).
  - destruct (credit_out hstate cfg c n A B) as (dw & H1 & H2 & H3). exists dw. auto.
  - assert (A' : sc_sl_done (write_window_update c (st_id s) n) = false) by (unfold write_window_update; sc_rw; exact A).
    assert (B' : sc_wl_dead (write_window_update c (st_id s) n) = false) by (unfold write_window_update; sc_rw; exact B).
    destruct (credit_out hstate cfg (write_window_update c (st_id s) n) n A' B') as (dw & H1 & H2 & H3).
    exists (dw ++ [OWinUpd (st_id s) n]). split; [|split].
    + rewrite H1. unfold write_window_update. rewrite sc_out_emit, B, A. rewrite <- app_assoc. reflexivity.
    + rewrite filter_app, H2. reflexivity.
    + intros sid rq H. apply in_app_or in H. destruct H as [H|[H|[]]]; [exact (H3 sid rq H) | discriminate].
Qed.

Lemma handle_frame_eff c st fr c3 s3 e : sc_sl_done c = false -> sc_wl_dead c = false ->
  handle_frame dec_field cfg c st fr = (c3, s3, e) -> hf_eff c c3.
Proof.
  intros A B. unfold handle_frame. destruct (verify_state st fr); [intro H; inversion H; subst; apply hf_eff_refl|].
  assert (HH : forall c1 s1 e1, handle_header_frame dec_field cfg c st fr = (c1, s1, e1) -> hf_eff c c1).
  { intros c1 s1 e1 H. apply hf_eff_dd. apply (handle_header_frame_spec hstate dec_field cfg c st fr c1 s1 e1 H). }
  assert (HB : forall X : sconn * stream * option h2err,
     (if (3 <=? sstate_rank (st_state st)) && negb (continuing_headers st fr) then (c, st, Some (EGoAway c_ProtocolError))
      else let '(c1, s1, e0) := handle_header_frame dec_field cfg c st fr in
           match e0 with
           | Some e1 => (c1, s1, Some e1)
           | None =>
             if flag_has (sf_flags fr) FL_EH then
               let fin := match st_prev s1 with [] => true | _ => false end in
               let s2 := set_headers_finished s1 fin in
               if negb fin then (c1, s2, Some (EGoAway c_ProtocolError))
               else match validate_request_pseudo_headers s2 with Some e1 => (c1, s2, Some e1) | None => (c1, s2, None) end
             else (c1, s1, None)
           end) = X -> hf_eff c (fst (fst X))).
  { intros X. destruct (_ && _)%bool; [intros <-; apply hf_eff_refl|].
    destruct (handle_header_frame dec_field cfg c st fr) as [[c1 s1] e0] eqn:Hh. pose proof (HH _ _ _ eq_refl) as Q.
    destruct e0; [intros <-; exact Q|]. destruct (flag_has (sf_flags fr) FL_EH); [|intros <-; exact Q].
    cbv zeta. destruct (negb _); [intros <-; exact Q|]. destruct (validate_request_pseudo_headers _); intros <-; exact Q. }
  destruct (sf_kind fr).
  - (* DATA *)
    clear HB HH. destruct (negb (st_headersFinished st)); [intro H; inversion H; subst; apply hf_eff_refl|].
    destruct (3 <=? sstate_rank (st_state st)); [intro H; inversion H; subst; apply hf_eff_refl|].
    match goal with |- context [if ?b then (credit_conn_window _ _ _, _, _) else _] => destruct b end; intro H; inversion H; subst.
    + unfold hf_eff. sc_rw. repeat (split; [reflexivity|]). apply (credit_out hstate cfg c _ A B).
    + unfold hf_eff. sc_rw. repeat (split; [reflexivity|]). apply (consume_out c _ fr _ A B).
  - intro H. apply (HB _ H).
  - clear HB HH. destruct (negb (sstate_eqb (st_state st) SIdle) && negb (st_headersFinished st))%bool; [intro H; inversion H; subst; apply hf_eff_refl|].
    destruct (sf_dep fr =? st_id st); intro H; inversion H; subst; apply hf_eff_refl.
  - clear HB HH. destruct (sstate_eqb (st_state st) SIdle); intro H; inversion H; subst; apply hf_eff_refl.
  - intro H; inversion H; subst; apply hf_eff_refl.
  - intro H; inversion H; subst; apply hf_eff_refl.
  - intro H; inversion H; subst; apply hf_eff_refl.
  - intro H; inversion H; subst; apply hf_eff_refl.
  - clear HB HH. destruct (sstate_eqb (st_state st) SIdle); [intro H; inversion H; subst; apply hf_eff_refl|].
    destruct (sf_inc fr =? 0); [intro H; inversion H; subst; apply hf_eff_refl|].
    destruct (MAXWIN <? st_window st + Z.of_N (sf_inc fr))%Z; intro H; inversion H; subst; apply hf_eff_refl.
  - intro H. apply (HB _ H).
Qed.

(* ---------- handleState ---------- *)

Definition abs_st (x : sstate) : RS.sstate :=
  match x with SIdle => RS.Idle | SOpen => RS.Open | SHalfClosed => RS.HalfClosedRemote | _ => RS.Closed RS.PeerRst end.

Lemma handle_state_set fr s : handle_state fr s = set_state s (st_state (handle_state fr s)).
Proof.
  unfold handle_state. destruct (fkind_eqb (sf_kind fr) KRst); destruct s; cbn;
    repeat match goal with |- context [if ?b then _ else _] => destruct b | |- context [match ?x with SIdle => _ | _ => _ end] => destruct x end; reflexivity.
Qed.

(* the state handleState gives is the one RFC 5.1 gives *)
Lemma handle_state_receive fr s :
  (st_state s = SIdle /\ sf_kind fr <> KRst) \/ st_state s = SOpen \/ st_state s = SHalfClosed ->
  abs_st (st_state (handle_state fr s)) = RS.receive (abs_st (st_state s)) (abs_frame fr).
Proof.
  unfold handle_state, RS.receive, abs_frame. cbn [RS.f_kind RS.f_es]. destruct s. cbn.
  intros [[H K]|[H|H]]; subst; revert K || idtac; destruct (sf_kind fr); try (intro K; congruence); try intros _;
    cbn; try destruct (flag_has (sf_flags fr) FL_ES); cbn; reflexivity.
Qed.

Lemma set_state_id s x : st_id (set_state s x) = st_id s. Proof. reflexivity. Qed.

(* ---------- the state just before the stream is written back (or closed) ---------- *)

Definition kfin c (ec' l' h' : N) (L : list stream) (cB : sconn) (d : list outev) : Prop :=
  sc_strms cB = L /\ sc_ring cB = sc_ring c /\ sc_oldest cB = sc_oldest c /\ sc_lastID cB = l' /\ sc_highestID cB = h' /\
  sc_rl_done cB = sc_rl_done c /\ sc_wl_dead cB = sc_wl_dead c /\ sc_readerQ cB = sc_readerQ c /\ sc_sl_done cB = false /\
  sc_closing cB = sc_closing c /\ sc_expectCont cB = ec' /\ sc_out cB = d ++ sc_out c.

Lemma G_keep' c s ph fr ec' L l' h' sF cB d :
  Sim c s ph -> sc_sl_done c = false -> seq_ok c fr ec' -> N.odd (sf_sid fr) = true ->
  base c fr L l' h' -> st_id sF = sf_sid fr -> kfin c ec' l' h' L cB d -> sc_discardID cB = sc_discardID c ->
  feed c (IIn (RFrame fr)) = fst (if sc_closing c && can_close_after_goaway (put cB sF) then brk (put cB sF) else cont (put cB sF)) ->
  (forall o, In o d -> is_goaway o = None) ->
  strm_ok sF -> (st_headersFinished sF = false -> ec' = sf_sid fr) -> (ec' <> 0 -> st_headersFinished sF = false) ->
  (RS.allowed s (RS.Frame (abs_frame fr)) (resolve s (RS.Frame (abs_frame fr)) (classify (sf_sid fr) (rev (filter noisy d)))) = true \/
   known_deviation hstate c s (RFrame fr) = true) ->
  outs_on (sf_sid fr) d ->
  RS.st_of (after_outs (RS.spec_next s (RS.Frame (abs_frame fr)) (resolve s (RS.Frame (abs_frame fr)) (classify (sf_sid fr) (rev (filter noisy d))))) d) (sf_sid fr)
    = (match st_state sF with SOpen => RS.Open | _ => RS.HalfClosedRemote end) ->
  RS.goaway (after_outs (RS.spec_next s (RS.Frame (abs_frame fr)) (resolve s (RS.Frame (abs_frame fr)) (classify (sf_sid fr) (rev (filter noisy d))))) d) = RS.goaway s ->
  RS.highest (after_outs (RS.spec_next s (RS.Frame (abs_frame fr)) (resolve s (RS.Frame (abs_frame fr)) (classify (sf_sid fr) (rev (filter noisy d))))) d) = h' ->
  RS.request_step (ph (sf_sid fr)) (abs_frame fr) = phase_of sF ->
  (forall sid rq, In (ODispatch sid rq) d -> sid = sf_sid fr /\ phase_of sF = RS.PDone) ->
  G c s ph (RFrame fr) (feed c (IIn (RFrame fr))).
Proof.
  intros HS Hsl SQ Od HB Hid (K1 & K2 & K3 & K4 & K5 & K6 & K7 & K8 & K9 & K10 & K11 & K12) Kd E Hng Hok Hf1 Hf2 Ha Hon Hst Hga Hhi Hph Hdisp.
  apply (G_finish c s ph fr (put cB sF) d HS E).
  - rewrite sc_out_put. exact K12.
  - exact Hng.
  - intros sid rq H. destruct (Hdisp sid rq H) as [-> X]. cbn [ph_next]. rewrite N.eqb_refl, Hph. exact X.
  - intro E'. apply (G_keep c s ph fr ec' L l' h' sF (put cB sF) d); try assumption; sc_rw; try assumption.
    rewrite sc_strms_put, K1. reflexivity.
Qed.

Lemma G_close' c s ph fr ec' L l' h' sF cB d :
  Sim c s ph -> sc_sl_done c = false -> seq_ok c fr ec' -> N.odd (sf_sid fr) = true ->
  base c fr L l' h' -> st_id sF = sf_sid fr -> kfin c ec' l' h' L cB d ->
  (sc_discardID cB = sc_discardID c \/ sc_discardID cB = sf_sid fr) ->
  (ec' <> 0 -> sc_discardID cB = sf_sid fr \/ (st_weReset sF = true /\ st_headersFinished sF = false)) ->
  feed c (IIn (RFrame fr)) =
    fst (if sc_closing c && can_close_after_goaway (close_stream (put cB sF) sF) then brk (close_stream (put cB sF) sF) else cont (close_stream (put cB sF) sF)) ->
  (forall o, In o d -> is_goaway o = None) ->
  (RS.allowed s (RS.Frame (abs_frame fr)) (resolve s (RS.Frame (abs_frame fr)) (classify (sf_sid fr) (rev (filter noisy d)))) = true \/
   known_deviation hstate c s (RFrame fr) = true) ->
  outs_on (sf_sid fr) d ->
  rel (MRing (st_weReset sF))
      (RS.st_of (after_outs (RS.spec_next s (RS.Frame (abs_frame fr)) (resolve s (RS.Frame (abs_frame fr)) (classify (sf_sid fr) (rev (filter noisy d))))) d) (sf_sid fr)) ->
  RS.goaway (after_outs (RS.spec_next s (RS.Frame (abs_frame fr)) (resolve s (RS.Frame (abs_frame fr)) (classify (sf_sid fr) (rev (filter noisy d))))) d) = RS.goaway s ->
  RS.highest (after_outs (RS.spec_next s (RS.Frame (abs_frame fr)) (resolve s (RS.Frame (abs_frame fr)) (classify (sf_sid fr) (rev (filter noisy d))))) d) = h' ->
  (forall sid rq, ~ In (ODispatch sid rq) d) ->
  G c s ph (RFrame fr) (feed c (IIn (RFrame fr))).
Proof.
  intros HS Hsl SQ Od HB Hid (K1 & K2 & K3 & K4 & K5 & K6 & K7 & K8 & K9 & K10 & K11 & K12) Kd Kd2 E Hng Ha Hon Hst Hga Hhi Hdisp.
  set (c3 := close_stream (put cB sF) sF) in *.
  set (d3 := if st_handlerRunning sF then d else ORelease (st_id sF) true :: d).
  assert (O3 : sc_out c3 = d3 ++ sc_out c).
  { unfold c3, d3. rewrite sc_out_close_stream, sc_out_put, K12. destruct (st_handlerRunning sF); reflexivity. }
  assert (F3 : filter noisy d3 = filter noisy d) by (unfold d3; destruct (st_handlerRunning sF); reflexivity).
  assert (Ng3 : forall o, In o d3 -> is_goaway o = None).
  { unfold d3. destruct (st_handlerRunning sF); [exact Hng|]. intros o [<-|H]; [reflexivity | apply Hng, H]. }
  assert (Nd3 : forall sid rq, ~ In (ODispatch sid rq) d3).
  { unfold d3. destruct (st_handlerRunning sF); [exact Hdisp|]. intros sid rq [H|H]; [discriminate | exact (Hdisp sid rq H)]. }
  assert (On3 : outs_on (sf_sid fr) d3) by (unfold outs_on; rewrite F3; exact Hon).
  apply (G_finish c s ph fr c3 d3 HS E O3 Ng3).
  - intros sid rq H. exfalso. exact (Nd3 sid rq H).
  - intro E'.
    assert (DI : sc_discardID c3 = if st_weReset sF && negb (st_headersFinished sF) && negb (sc_discardID cB =? sf_sid fr) then sf_sid fr else sc_discardID cB).
    { unfold c3. rewrite sc_discardID_close_stream. sc_rw. rewrite Hid. reflexivity. }
    apply (G_close c s ph fr ec' L l' h' sF c3 d3); try assumption; unfold after_outs; rewrite ?F3; try assumption; unfold c3.
    + rewrite sc_strms_close_stream, sc_strms_put, K1, Hid. reflexivity.
    + rewrite sc_ring_close_stream, Hid. apply mark_closed_ring_ext; sc_rw; assumption.
    + rewrite sc_oldest_close_stream, Hid. apply mark_closed_ring_ext; sc_rw; assumption.
    + sc_rw. exact K4.
    + sc_rw. exact K5.
    + sc_rw. exact K6.
    + sc_rw. exact K7.
    + sc_rw. exact K8.
    + sc_rw. exact K9.
    + sc_rw. exact K10.
    + sc_rw. exact K11.
    + fold c3. rewrite DI. destruct (_ && _ && _)%bool; [right; reflexivity | exact Kd].
    + fold c3. rewrite DI. intro Hne. destruct (Kd2 Hne) as [X|[X Y]].
      * rewrite X, N.eqb_refl, andb_false_r. reflexivity.
      * rewrite X, Y. cbn [negb andb]. destruct (sc_discardID cB =? sf_sid fr) eqn:Q; cbn [negb]; [apply N.eqb_eq in Q; exact Q | reflexivity].
Qed.

(* ---------- the specification side of a step on one stream ---------- *)

Lemma classify_rst sid code : (sid =? 0) = false -> classify sid [ORst sid code] = RS.StreamErr code.
Proof. intro Z. unfold classify. cbn [first_some is_goaway strip_late existsb is_exit orb]. rewrite Z. cbn [first_some is_rst strip_late]. rewrite N.eqb_refl. reflexivity. Qed.

Lemma outs_on_of sid d : (forall o, In o (filter noisy d) -> forall so, In so (sent_of o) -> sent_sid so = Some sid \/ sent_sid so = None) -> outs_on sid d.
Proof.
  intros H so Hin. apply in_flat_map in Hin. destruct Hin as (o & Ho & Hso). apply in_rev in Ho. exact (H o Ho so Hso).
Qed.

Lemma outs_on_nil sid d : filter noisy d = [] -> outs_on sid d.
Proof. intro Q. apply outs_on_of. rewrite Q. intros o []. Qed.

Lemma outs_on_one sid d o : filter noisy d = [o] -> (forall so, In so (sent_of o) -> sent_sid so = Some sid \/ sent_sid so = None) -> outs_on sid d.
Proof. intros Q H. apply outs_on_of. rewrite Q. intros o' [<-|[]]. exact H. Qed.

(* no noisy output: the frame took effect *)
Lemma spec_process_quiet s f d : wf s -> N.odd (RS.f_sid f) = true -> filter noisy d = [] ->
  RS.st_of (after_outs (RS.spec_next s (RS.Frame f) RS.Process) d) (RS.f_sid f) = RS.receive (RS.st_of s (RS.f_sid f)) f /\
  RS.goaway (after_outs (RS.spec_next s (RS.Frame f) RS.Process) d) = RS.goaway s.
Proof.
  intros W O Q. rewrite (after_outs_quiet _ _ Q). split.
  - rewrite st_of_spec_next_same by exact O. reflexivity.
  - rewrite goaway_spec_next. apply orb_false_r.
Qed.

(* one noisy output, about this stream *)
Lemma spec_one s f r d o so : wf s -> N.odd (RS.f_sid f) = true -> conn_err r = false -> filter noisy d = [o] -> sent_of o = [so] ->
  sent_sid so = Some (RS.f_sid f) ->
  RS.st_of (after_outs (RS.spec_next s (RS.Frame f) r) d) (RS.f_sid f) = sent_st (next_st (RS.st_of s (RS.f_sid f)) f r) so /\
  RS.goaway (after_outs (RS.spec_next s (RS.Frame f) r) d) = RS.goaway s /\
  RS.highest (after_outs (RS.spec_next s (RS.Frame f) r) d) = RS.highest (RS.spec_next s (RS.Frame f) r).
Proof.
  intros W O CE Q So Sid. rewrite (after_outs_eq _ _ _ Q). cbn [rev app flat_map]. rewrite So. cbn [app fold_left].
  assert (W1 : wf (RS.spec_next s (RS.Frame f) r)) by (apply wf_spec_next, W).
  split; [|split].
  - rewrite st_of_spec_sent by exact W1. rewrite Sid, N.eqb_refl. rewrite st_of_spec_next_same by exact O. rewrite CE. reflexivity.
  - rewrite goaway_spec_sent, goaway_spec_next, CE, orb_false_r. destruct so; try reflexivity; discriminate.
  - apply highest_spec_sent, W1.
Qed.

Lemma highest_quiet s1 d : filter noisy d = [] -> RS.highest (after_outs s1 d) = RS.highest s1.
Proof. intro Q. rewrite (after_outs_quiet _ _ Q). reflexivity. Qed.

(* the highest id after a frame that took effect or was answered with RST_STREAM *)
Lemma highest_next_known s f r h' : wf s -> N.odd (RS.f_sid f) = true -> conn_err r = false -> r <> RS.Ignore ->
  (RS.st_of s (RS.f_sid f) = RS.Idle -> next_st RS.Idle f r <> RS.Idle /\ h' = RS.f_sid f /\ RS.highest s < RS.f_sid f) ->
  (RS.st_of s (RS.f_sid f) <> RS.Idle -> h' = RS.highest s) ->
  RS.highest (RS.spec_next s (RS.Frame f) r) = h'.
Proof.
  intros W O CE NI HI HN. rewrite highest_spec_next by exact W. rewrite CE.
  replace (RS.f_sid f =? 0) with false by (destruct (RS.f_sid f =? 0) eqn:Z; [apply N.eqb_eq in Z; rewrite Z in O; discriminate | reflexivity]).
  cbn [negb andb]. destruct r; try discriminate; try congruence; cbn [andb].
  - destruct (RS.st_of s (RS.f_sid f)) eqn:X.
    + destruct (HI eq_refl) as (A & -> & C). cbn [next_st] in *. destruct (RS.receive RS.Idle f); try congruence; lia.
    + rewrite (HN ltac:(discriminate)). assert (RS.f_sid f <= RS.highest s) by (apply st_of_notidle_le; [exact W | congruence]).
      cbn; try match goal with |- (if ?b then _ else _) = _ => destruct b end; lia.
    + rewrite (HN ltac:(discriminate)). assert (RS.f_sid f <= RS.highest s) by (apply st_of_notidle_le; [exact W | congruence]).
      cbn; try match goal with |- (if ?b then _ else _) = _ => destruct b end; lia.
    + rewrite (HN ltac:(discriminate)). assert (RS.f_sid f <= RS.highest s) by (apply st_of_notidle_le; [exact W | congruence]).
      cbn; try match goal with |- (if ?b then _ else _) = _ => destruct b end; lia.
    + rewrite (HN ltac:(discriminate)). assert (RS.f_sid f <= RS.highest s) by (apply st_of_notidle_le; [exact W | congruence]).
      cbn; try match goal with |- (if ?b then _ else _) = _ => destruct b end; lia.
  - destruct (RS.st_of s (RS.f_sid f)) eqn:X.
    + destruct (HI eq_refl) as (A & -> & C). cbn [next_st] in *. destruct (RS.reset RS.Idle f); try congruence; lia.
    + rewrite (HN ltac:(discriminate)). assert (RS.f_sid f <= RS.highest s) by (apply st_of_notidle_le; [exact W | congruence]).
      cbn; try match goal with |- (if ?b then _ else _) = _ => destruct b end; lia.
    + rewrite (HN ltac:(discriminate)). assert (RS.f_sid f <= RS.highest s) by (apply st_of_notidle_le; [exact W | congruence]).
      cbn; try match goal with |- (if ?b then _ else _) = _ => destruct b end; lia.
    + rewrite (HN ltac:(discriminate)). assert (RS.f_sid f <= RS.highest s) by (apply st_of_notidle_le; [exact W | congruence]).
      cbn; try match goal with |- (if ?b then _ else _) = _ => destruct b end; lia.
    + rewrite (HN ltac:(discriminate)). assert (RS.f_sid f <= RS.highest s) by (apply st_of_notidle_le; [exact W | congruence]).
      cbn; try match goal with |- (if ?b then _ else _) = _ => destruct b end; lia.
Qed.

(* ---------- afterFrame on a frame that handleFrame accepted ---------- *)

(* the state the stream loop works on, relative to the one before the frame *)
Definition kctx c (ec' l' h' : N) (c2 : sconn) : Prop :=
  sc_ring c2 = sc_ring c /\ sc_oldest c2 = sc_oldest c /\ sc_lastID c2 = l' /\ sc_highestID c2 = h' /\
  sc_rl_done c2 = sc_rl_done c /\ sc_wl_dead c2 = sc_wl_dead c /\ sc_readerQ c2 = sc_readerQ c /\ sc_sl_done c2 = sc_sl_done c /\
  sc_closing c2 = sc_closing c /\ sc_expectCont c2 = ec' /\ sc_discardID c2 = sc_discardID c /\ sc_out c2 = sc_out c.

Lemma kfin_of c ec' l' h' c2 cA : sc_sl_done c = false -> kctx c ec' l' h' c2 -> hf_eff c2 cA ->
  exists dq, kfin c ec' l' h' (sc_strms c2) cA dq /\ filter noisy dq = [] /\ (forall sid rq, ~ In (ODispatch sid rq) dq).
Proof.
  intros Hsl (K1 & K2 & K3 & K4 & K5 & K6 & K7 & K8 & K9 & K10 & K11 & K12)
         (H1 & H2 & H3 & H4 & H5 & H6 & H7 & H8 & H9 & H10 & H11 & H12 & (dq & Q1 & Q2 & Q3)).
  exists dq. split; [|split; assumption].
  unfold kfin. rewrite H2, H3, H4, H5, H6, H7, H8, H9, H10, H11, Q1, K1, K2, K3, K4, K5, K6, K7, K8, K9, K10, K12. auto 20.
Qed.

Lemma quiet_no_goaway dq : filter noisy dq = [] -> forall o, In o dq -> is_goaway o = None.
Proof.
  intros Q o H. destruct (is_goaway o) eqn:G; [|reflexivity]. exfalso.
  assert (N : noisy o = true) by (unfold noisy, is_goaway in *; destruct (strip_late o); try discriminate; reflexivity).
  assert (In o (filter noisy dq)) by (apply filter_In; auto). rewrite Q in H0. destruct H0.
Qed.

Lemma policy_allowed s fr code :
  RS.verdicts s (RS.Frame (abs_frame fr)) = RS.on_stream s (abs_frame fr) -> sf_kind fr <> KRst ->
  (RS.st_of s (sf_sid fr) = RS.Open \/ RS.st_of s (sf_sid fr) = RS.HalfClosedRemote \/
   (RS.st_of s (sf_sid fr) = RS.Idle /\ sf_kind fr = KHeaders /\ N.odd (sf_sid fr) = true)) ->
  (code = c_ProtocolError \/ code = c_InternalError \/ code = c_EnhanceYourCalm \/ code = c_RefusedStreamError \/ code = c_StreamCanceled) ->
  RS.allowed s (RS.Frame (abs_frame fr)) (RS.StreamErr code) = true.
Proof.
  intros V K X C. apply allowed_table. rewrite V. unfold RS.on_stream. rewrite existsb_app. apply orb_true_iff.
  assert (P : existsb (fun v => RS.admits v (RS.StreamErr code)) RS.policy = true).
  { destruct C as [-> | [-> | [-> | [-> | ->]]]]; reflexivity. }
  destruct X as [X|[X|(X & KH & O)]].
  - right. change (RS.f_sid (abs_frame fr)) with (sf_sid fr). rewrite X. unfold abs_frame. cbn [RS.f_kind].
    revert K. destruct (sf_kind fr); intro K; cbn [abs_kind]; try exact P; congruence.
  - right. change (RS.f_sid (abs_frame fr)) with (sf_sid fr). rewrite X. unfold abs_frame. cbn [RS.f_kind].
    revert K. destruct (sf_kind fr); intro K; cbn [abs_kind]; try exact P; congruence.
  - left. unfold RS.by_state. change (RS.f_sid (abs_frame fr)) with (sf_sid fr). rewrite X. unfold abs_frame. cbn [RS.f_kind RS.f_self]. rewrite KH. cbn [abs_kind].
    rewrite <- N.negb_odd, O. cbn [negb]. rewrite !existsb_app, P. rewrite orb_true_r. reflexivity.
Qed.

End Known.
