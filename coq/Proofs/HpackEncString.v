(* C04, part 2: appendString (hpack.go) writes the RFC 7541 5.2 string literal.

   [astr s c] is what appendString appends, as a pure function: [append_string_app] for every dst
   and every string (again without hypotheses), [astr_is_spec] on byte strings shorter than 2^32. *)
From Coq Require Import List NArith ZArith Bool Lia.
From Coq Require Import ZifyN ZifyNat ZifyBool.
From H2V Require Import Base.Bytes Base.MachineInt Base.Result Impl.Huffman Impl.Hpack
     Spec.Rfc7541Huffman Spec.Rfc7541
     Proofs.HuffmanBits Proofs.HuffmanEncode Proofs.HpackEncInt Proofs.HpackEncSpecInt.
Import ListNotations.
Local Open Scope N_scope.
Ltac Zify.zify_post_hook ::= Z.div_mod_to_equations.

(* dst[nn] |= 128 on the octet the length starts in *)
Definition set_h (l : bytes) : bytes :=
  match l with [] => [] | x :: tl => N.lor x 128 :: tl end.

Definition astr (s : bytes) (c : bool) : bytes :=
  let b := if c then huffman_encode s else s in
  (if c then set_h (aint 0 7 (len b)) else aint 0 7 (len b)) ++ b.

Lemma or_at_mid (dst : bytes) x tl v : or_at (dst ++ x :: tl) (len dst) v = Ok (dst ++ N.lor x v :: tl).
Proof.
  unfold or_at, idx, takeN, dropN, len.
  rewrite Nat2N.id.
  rewrite nth_error_app2 by lia. rewrite Nat.sub_diag. cbn [nth_error].
  rewrite (firstn_app_len dst (x :: tl)) by reflexivity.
  replace (N.to_nat (N.of_nat (length dst) + 1)) with (length (dst ++ [x])) by (rewrite app_length; simpl; lia).
  replace (dst ++ x :: tl) with ((dst ++ [x]) ++ tl) by (rewrite <- app_assoc; reflexivity).
  rewrite (skipn_app_len (dst ++ [x]) tl) by reflexivity.
  reflexivity.
Qed.

Theorem append_string_app dst s c : append_string dst s c = Ok (dst ++ astr s c).
Proof.
  unfold append_string, astr.
  set (b := if c then huffman_encode s else s).
  rewrite append_int_app. cbn [bind].
  assert (len (dst ++ [0]) - 1 = len dst) as ->.
  { unfold len. rewrite app_length. simpl length. lia. }
  destruct c.
  - destruct (aint_nonempty 0 7 (len b)) as [x [tl E]]. rewrite E. cbn [set_h].
    rewrite <- app_assoc. cbn [app]. apply or_at_mid.
  - rewrite <- app_assoc. reflexivity.
Qed.

Lemma set_h_enc_int v : set_h (spec_enc_int 7 0 v) = spec_enc_int 7 128 v.
Proof.
  unfold spec_enc_int. change (2 ^ 7 - 1) with 127.
  destruct (v <? 127) eqn:E.
  - apply N.ltb_lt in E. cbn [set_h]. f_equal. rewrite N.add_0_l, N.lor_comm.
    apply (lor_disjoint_add 128 v 7); [reflexivity | change (2 ^ 7) with 128; lia].
  - reflexivity.
Qed.

Theorem astr_is_spec s huff : bytes_ok s = true -> len s < 2 ^ 32 -> astr s huff = spec_enc_str huff s.
Proof.
  intros Hok Hlen. unfold astr, spec_enc_str.
  destruct huff.
  - rewrite (encode_is_spec s Hok).
    pose proof (spec_encode_len s Hok) as L.
    rewrite aint_is_spec.
    + rewrite set_h_enc_int. reflexivity.
    + lia.
    + reflexivity.
    + reflexivity.
    + change (2 ^ 32) with 4294967296 in Hlen. change (2 ^ 64) with 18446744073709551616. lia.
  - rewrite aint_is_spec.
    + reflexivity.
    + lia.
    + reflexivity.
    + reflexivity.
    + change (2 ^ 32) with 4294967296 in Hlen. change (2 ^ 64) with 18446744073709551616. lia.
Qed.

(* C04_append_string_is_spec *)
Theorem append_string_is_spec : forall dst s huff, bytes_ok s = true -> len s < 2 ^ 32 ->
  append_string dst s huff = Ok (dst ++ spec_enc_str huff s).
Proof.
  intros dst s huff Hok Hlen. rewrite append_string_app, (astr_is_spec s huff Hok Hlen). reflexivity.
Qed.
