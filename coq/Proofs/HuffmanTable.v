(* C15, finite part: everything that depends on the concrete value of the generated tables.
   Each fact is a boolean check over a finite domain, evaluated once by vm_compute and
   lifted to a quantified statement with forallb_forall. *)
From Coq Require Import List NArith Bool Lia.
From H2V Require Import Base.Bytes Base.MachineInt Base.Result Gen.GenHuffman
  Spec.XNetTables Spec.Rfc7541Huffman Impl.Huffman Proofs.HuffmanBits.
Import ListNotations.
Local Open Scope N_scope.

(* ---------- the package tables are the RFC tables ---------- *)

Lemma codes_eq : huffman_codes = rfc_codes.
Proof. vm_compute. reflexivity. Qed.

Lemma lens_eq : huffman_code_len = rfc_code_len.
Proof. vm_compute. reflexivity. Qed.

Lemma code_of_rfc b : code_of b = rfc_code b.
Proof. unfold code_of, rfc_code. now rewrite codes_eq. Qed.

Lemma len_of_rfc b : len_of b = rfc_len b.
Proof. unfold len_of, rfc_len. now rewrite lens_eq. Qed.

(* ---------- per-symbol facts ---------- *)

Definition sym_okb (a : N) : bool :=
  (5 <=? rfc_len a) && (rfc_len a <=? 30) && (rfc_code a <? 2 ^ rfc_len a).

Lemma sym_ok_check : forallb (fun i => sym_okb (N.of_nat i)) (seq 0 256) = true.
Proof. vm_compute. reflexivity. Qed.

Lemma sym_ok a : a < 256 -> 5 <= rfc_len a <= 30 /\ rfc_code a < 2 ^ rfc_len a.
Proof.
  intros H. pose proof sym_ok_check as C. rewrite forallb_forall in C.
  specialize (C (N.to_nat a)). rewrite N2Nat.id in C.
  assert (sym_okb a = true) as S by (apply C, in_seq; lia).
  unfold sym_okb in S. rewrite !andb_true_iff in S. destruct S as [[S1 S2] S3].
  apply N.leb_le in S1, S2. apply N.ltb_lt in S3. auto.
Qed.

Lemma code_bits_length a : length (code_bits a) = N.to_nat (rfc_len a).
Proof. apply bits_of_length. Qed.

Lemma code_bits_len_bounds a : a < 256 -> (5 <= length (code_bits a) <= 30)%nat.
Proof. intros H. rewrite code_bits_length. pose proof (sym_ok a H). lia. Qed.

(* ---------- canonical / Kraft / prefix-free ---------- *)

Lemma eos_bits_ones : eos_bits = ones 30.
Proof. vm_compute. reflexivity. Qed.

Lemma eos_is_30_ones : rfc_eos_len = 30 /\ rfc_eos_code = 2 ^ 30 - 1.
Proof. split; reflexivity. Qed.

Lemma lens_range_check : forallb (fun l => (1 <=? l) && (l <=? 30)) rfc_lens_eos = true.
Proof. vm_compute. reflexivity. Qed.

Lemma canonical_check :
  rfc_codes_eos = map (canonical_code rfc_lens_eos) (seq 0 (length rfc_lens_eos)).
Proof. vm_compute. reflexivity. Qed.

Lemma rfc_is_canonical : is_canonical rfc_codes_eos rfc_lens_eos.
Proof. split; [exact lens_range_check | exact canonical_check]. Qed.

Lemma kraft_complete : kraft_sum rfc_lens_eos = 2 ^ 30.
Proof. vm_compute. reflexivity. Qed.

Definition prefix_freeb (ws : list (list bool)) : bool :=
  forallb (fun i => forallb (fun j => implb (prefixb (nth i ws []) (nth j ws [])) (Nat.eqb i j))
                            (seq 0 (length ws)))
          (seq 0 (length ws)).

Lemma prefix_freeb_sound ws : prefix_freeb ws = true -> prefix_free ws.
Proof.
  intros C i j a b Hi Hj Hp. unfold prefix_freeb in C. rewrite forallb_forall in C.
  assert (i < length ws)%nat as Li by (apply nth_error_Some; congruence).
  assert (j < length ws)%nat as Lj by (apply nth_error_Some; congruence).
  specialize (C i). rewrite forallb_forall in C.
  assert (implb (prefixb (nth i ws []) (nth j ws [])) (Nat.eqb i j) = true) as E
    by (apply C; apply in_seq; lia).
  rewrite (nth_error_nth _ _ _ Hi), (nth_error_nth _ _ _ Hj) in E.
  apply prefixb_spec in Hp. rewrite Hp in E. simpl in E. now apply Nat.eqb_eq.
Qed.

Lemma prefix_free_check : prefix_freeb code_words = true.
Proof. vm_compute. reflexivity. Qed.

Lemma code_words_prefix_free : prefix_free code_words.
Proof. apply prefix_freeb_sound, prefix_free_check. Qed.

Lemma code_words_sym a : a < 256 -> nth_error code_words (N.to_nat a) = Some (code_bits a).
Proof.
  intros H. unfold code_words. rewrite nth_error_app1 by (rewrite map_length, seq_length; lia).
  erewrite map_nth_error; [|apply nth_error_seq; lia]. simpl. now rewrite N2Nat.id.
Qed.

Lemma code_words_eos : nth_error code_words 256 = Some eos_bits.
Proof. reflexivity. Qed.

(* usable forms *)
Lemma code_prefix_eq a b : a < 256 -> b < 256 -> is_prefix (code_bits a) (code_bits b) -> a = b.
Proof.
  intros Ha Hb Hp.
  pose proof (code_words_prefix_free _ _ _ _ (code_words_sym a Ha) (code_words_sym b Hb) Hp). lia.
Qed.

Lemma code_not_prefix_eos a : a < 256 -> ~ is_prefix (code_bits a) (ones 30).
Proof.
  intros Ha Hp. rewrite <- eos_bits_ones in Hp.
  pose proof (code_words_prefix_free _ _ _ _ (code_words_sym a Ha) code_words_eos Hp). lia.
Qed.

(* ---------- package initialisation ---------- *)

Lemma build_root_some : match build_root with Some _ => True | None => False end.
Proof. vm_compute. exact I. Qed.

Lemma root_built : build_root = Some huffman_root.
Proof.
  unfold huffman_root. pose proof build_root_some as H.
  destruct build_root; [reflexivity | contradiction].
Qed.

(* ---------- the decoding table, entry by entry ---------- *)

(* q is a proper prefix of some code word *)
Definition extendsb (q : list bool) : bool :=
  existsb (fun a => prefixb q (code_bits (N.of_nat a)) && (length q <? length (code_bits (N.of_nat a)))%nat)
          (seq 0 256).

Definition extends (q : list bool) : Prop :=
  exists a, a < 256 /\ is_prefix q (code_bits a) /\ (length q < length (code_bits a))%nat.

Lemma extendsb_sound q : extendsb q = true -> extends q.
Proof.
  unfold extendsb. rewrite existsb_exists. intros [i [Hi H]].
  apply in_seq in Hi. apply andb_prop in H. destruct H as [H1 H2].
  exists (N.of_nat i). split; [lia|]. split; [now apply prefixb_spec | now apply Nat.ltb_lt].
Qed.

Fixpoint list_beq (a b : list bool) : bool :=
  match a, b with
  | [], [] => true
  | x :: a', y :: b' => Bool.eqb x y && list_beq a' b'
  | _, _ => false
  end.

Lemma list_beq_eq : forall a b, list_beq a b = true -> a = b.
Proof.
  induction a as [|x a IH]; destruct b as [|y b]; simpl; intros H; try discriminate; [reflexivity|].
  apply andb_prop in H. destruct H as [H1 H2]. apply eqb_prop in H1. subst. f_equal. now apply IH.
Qed.

Definition entry_okb (rec : list N -> hnode -> bool) (p : list N) (i : N) (e : option hnode) : bool :=
  match e with
  | None => list_beq (bytes_bits p ++ firstn 6 (bits8 i)) (ones 30)
  | Some (HLeaf sym l) =>
      (sym <? 256) && (1 <=? l) && (l <=? 8) &&
      list_beq (code_bits sym) (bytes_bits p ++ firstn (N.to_nat l) (bits8 i))
  | Some (HSub s') => rec (p ++ [i]) (HSub s')
  end.

(* node is the table reached from the root by the whole bytes p *)
Fixpoint node_okb (f : nat) (p : list N) (node : hnode) : bool :=
  match f with
  | O => false
  | S f' =>
    match node with
    | HLeaf _ _ => false
    | HSub sub =>
        Nat.eqb (length sub) 256 && extendsb (bytes_bits p) &&
        forallb (fun i => entry_okb (node_okb f') p (N.of_nat i) (nth i sub None)) (seq 0 256)
    end
  end.

Lemma root_ok_check : node_okb 5 [] huffman_root = true.
Proof. vm_compute. reflexivity. Qed.

Definition entry_ok (f : nat) (p : list N) (i : N) (e : option hnode) : Prop :=
  match e with
  | None => bytes_bits p ++ firstn 6 (bits8 i) = ones 30
  | Some (HLeaf sym l) =>
      sym < 256 /\ 1 <= l <= 8 /\ code_bits sym = bytes_bits p ++ firstn (N.to_nat l) (bits8 i)
  | Some (HSub s') => node_okb f (p ++ [i]) (HSub s') = true
  end.

Lemma node_ok_inv f p node :
  node_okb f p node = true ->
  exists f' sub, f = S f' /\ node = HSub sub /\ extends (bytes_bits p) /\
    forall i, i < 256 -> exists e, idx sub i = Some e /\ entry_ok f' p i e.
Proof.
  destruct f as [|f']; [discriminate|]. destruct node as [sym l|sub]; [discriminate|].
  cbn [node_okb]. rewrite !andb_true_iff. intros [[HL HE] HA].
  exists f', sub. split; [reflexivity|]. split; [reflexivity|].
  split; [now apply extendsb_sound|].
  intros i Hi. apply Nat.eqb_eq in HL. rewrite forallb_forall in HA.
  specialize (HA (N.to_nat i)). rewrite N2Nat.id in HA.
  assert (entry_okb (node_okb f') p i (nth (N.to_nat i) sub None) = true) as E
    by (apply HA, in_seq; lia).
  exists (nth (N.to_nat i) sub None). split.
  - unfold idx. apply nth_error_nth'. lia.
  - destruct (nth (N.to_nat i) sub None) as [[sym l|s']|]; cbn [entry_okb entry_ok] in *.
    + rewrite !andb_true_iff in E. destruct E as [[[E1 E2] E3] E4].
      apply N.ltb_lt in E1. apply N.leb_le in E2, E3. apply list_beq_eq in E4. auto.
    + exact E.
    + now apply list_beq_eq.
Qed.

(* ---------- C15_table_is_rfc ---------- *)

Theorem table_is_rfc :
  huffman_codes = rfc_codes /\ huffman_code_len = rfc_code_len /\
  length rfc_codes = 256%nat /\ length rfc_code_len = 256%nat /\
  rfc_eos_len = 30 /\ rfc_eos_code = 2 ^ 30 - 1 /\ eos_bits = repeat true 30 /\
  is_canonical rfc_codes_eos rfc_lens_eos /\
  kraft_sum rfc_lens_eos = 2 ^ 30 /\
  prefix_free code_words.
Proof.
  split; [exact codes_eq|]. split; [exact lens_eq|].
  split; [reflexivity|]. split; [reflexivity|].
  split; [reflexivity|]. split; [reflexivity|].
  split; [exact eos_bits_ones|].
  split; [exact rfc_is_canonical|].
  split; [exact kraft_complete | exact code_words_prefix_free].
Qed.
