(* Proofs/SrvInvDecomp.v - the moves of the stream loop, and the decomposition of sl_frame / sl_done /
   sl_timer into sequences of moves (see Proofs/SrvInvMoves.v for the idea). *)
From H2V Require Import Base.Bytes Base.MachineInt Base.Result Gen.GenConsts Impl.ServerConn Proofs.SrvBase
  Proofs.SrvInvMoves.
From Coq Require Import ZArith Lia ZifyN ZifyNat ZifyBool.
Local Open Scope N_scope.

(* ---------- more about the stream table ---------- *)
Section Tbl.

Lemma search_put_same l x old :
  strms_search l (st_id x) = Some old -> strms_search (strms_put l x) (st_id x) = Some x.
Proof.
  induction l as [|y t IH]; cbn [strms_search strms_put]; [discriminate|].
  destruct (st_id y =? st_id x) eqn:E; intro H; cbn [strms_search].
  - rewrite N.eqb_refl. reflexivity.
  - rewrite E. auto.
Qed.

Lemma search_put_other l x id : id <> st_id x -> strms_search (strms_put l x) id = strms_search l id.
Proof.
  intro Hn. induction l as [|y t IH]; cbn [strms_search strms_put]; [reflexivity|].
  destruct (st_id y =? st_id x) eqn:E; cbn [strms_search].
  - replace (st_id x =? id) with false by lia. replace (st_id y =? id) with false by lia. reflexivity.
  - rewrite IH. reflexivity.
Qed.

Lemma put_none l x : strms_search l (st_id x) = None -> strms_put l x = l.
Proof.
  induction l as [|y t IH]; cbn [strms_search strms_put]; [reflexivity|].
  destruct (st_id y =? st_id x); [discriminate|]. intro H. rewrite (IH H). reflexivity.
Qed.

Lemma Forall2_sloc_refl l : Forall2 sloc l l.
Proof. induction l; constructor; auto using sloc_refl. Qed.

Lemma put_sloc l x old : strms_search l (st_id x) = Some old -> sloc old x -> Forall2 sloc l (strms_put l x).
Proof.
  induction l as [|y t IH]; cbn [strms_search strms_put]; [discriminate|].
  destruct (st_id y =? st_id x) eqn:E; intros H S.
  - inversion H; subst. constructor; [assumption | apply Forall2_sloc_refl].
  - constructor; [apply sloc_refl | auto].
Qed.

Lemma search_del_other l id id' : id <> id' -> strms_search (strms_del l id') id = strms_search l id.
Proof.
  intro Hn. induction l as [|y t IH]; cbn [strms_search strms_del]; [reflexivity|].
  destruct (st_id y =? id') eqn:E.
  - replace (st_id y =? id) with false by lia. reflexivity.
  - cbn [strms_search]. rewrite IH. reflexivity.
Qed.

Lemma search_app_last l s : strms_search l (st_id s) = None -> strms_search (l ++ [s]) (st_id s) = Some s.
Proof.
  intro H. rewrite strms_search_app_None by assumption. cbn [strms_search]. rewrite N.eqb_refl. reflexivity.
Qed.

Lemma search_app_found l l' id s : strms_search l id = Some s -> strms_search (l ++ l') id = Some s.
Proof.
  induction l as [|y t IH]; cbn [strms_search app]; [discriminate|].
  destruct (st_id y =? id); auto.
Qed.


Lemma NoDup_app_one (A : Type) (l : list A) (x : A) : NoDup l -> ~ In x l -> NoDup (l ++ [x]).
Proof.
  intros ND NI. induction l as [|a t IH]; cbn [app]; [constructor; [intros []|constructor]|].
  inversion ND as [|a' t' Ha NDt]; subst. constructor.
  - intro I. apply in_app_or in I. destruct I as [I|[I|[]]]; [auto|]. subst. apply NI. left. reflexivity.
  - apply IH; [assumption|]. intro I. apply NI. right. assumption.
Qed.

Lemma NoDup_search l p : NoDup (map st_id l) -> In p l -> strms_search l (st_id p) = Some p.
Proof.
  induction l as [|y t IH]; cbn [map strms_search]; intros ND []; inversion ND as [|a b Hn ND']; subst.
  - rewrite N.eqb_refl. reflexivity.
  - destruct (st_id y =? st_id p) eqn:E; [|auto].
    exfalso. apply Hn. replace (st_id y) with (st_id p) by lia. apply in_map. assumption.
Qed.

Lemma get_previous_headers_In l p : get_previous_headers l = Some p -> In p l.
Proof.
  unfold get_previous_headers.
  destruct (filter _ (rev l)) as [|a [|b r]] eqn:F; try discriminate. intro H; inversion H; subst.
  assert (I : In p (filter (fun s => fkind_eqb (st_orig s) KHeaders) (rev l))) by (rewrite F; right; left; reflexivity).
  apply filter_In in I. destruct I as [I _]. apply in_rev. assumption.
Qed.

Lemma search_none_gt l m sid : (forall s, In s l -> st_id s <= m) -> m < sid -> strms_search l sid = None.
Proof.
  intros H Hm. induction l as [|y t IH]; cbn [strms_search]; [reflexivity|].
  assert (st_id y <= m) by (apply H; left; reflexivity).
  replace (st_id y =? sid) with false by lia. apply IH. intros; apply H; right; assumption.
Qed.

Lemma sloc_set_state s st : sloc s (set_state s st). Proof. repeat split; auto. Qed.
Lemma sloc_set_weReset s : sloc s (set_weReset s). Proof. repeat split; auto. Qed.
Lemma sloc_reset_closed s : sloc s (set_state (set_weReset s) SClosed). Proof. repeat split; auto. Qed.
Lemma sloc_set_window s w : sloc s (set_window s w). Proof. repeat split; auto. Qed.
Lemma sloc_set_snd s n : sloc s (set_snd s n). Proof. repeat split; auto. Qed.
Lemma sloc_set_hdr s h : sloc s (set_hdr s h). Proof. repeat split; auto. Qed.
Lemma sloc_set_recv s r q : sloc s (set_recv s r q). Proof. repeat split; auto. Qed.
Lemma sloc_set_headers_finished s b : sloc s (set_headers_finished s b). Proof. repeat split; auto. Qed.

Lemma sloc_handle_state fr s : sloc s (handle_state fr s).
Proof.
  unfold handle_state.
  assert (H0 : sloc s (if fkind_eqb (sf_kind fr) KRst then set_state s SClosed else s)).
  { destruct (fkind_eqb (sf_kind fr) KRst); auto using sloc_refl, sloc_set_state. }
  set (s0 := if fkind_eqb (sf_kind fr) KRst then set_state s SClosed else s) in *. clearbody s0.
  destruct (st_state s0); repeat match goal with |- context [if ?b then _ else _] => destruct b end;
    eauto using sloc_trans, sloc_set_state.
Qed.

End Tbl.



Section Moves.
Variable hstate : Type.
Variable dec_field : hstate -> N -> bytes -> dec_res hstate.
Variable enc_field : hstate -> bytes -> bytes -> bool -> bytes * hstate.
Variable enc_set_max : hstate -> N -> hstate.
Variable cfg : config.
Variable Q : stream -> Prop.
Notation sconn := (sconn hstate).
Notation lite := (lite cfg).
Implicit Types c : sconn.

(* what a stream is like when its request is handed to a handler *)
Definition dispatchable (x : stream) : Prop :=
  st_state x = SHalfClosed /\ st_headersFinished x = true /\
  (st_hasCL x = true -> st_recvBody x = st_contentLength x).

(* One move. The label is the stream whose handler has just been taken back (sl_done), if any.
   Every move but the last kind (mv_post) starts in a state where the stream loop is running. *)
Inductive mv : option N -> sconn -> sconn -> Prop :=
| mv_lite c c' : sc_sl_done c = false -> lite c c' -> mv None c c'
| mv_goaway c sid code : sc_sl_done c = false -> In code sl_codes -> mv None c (write_goaway c sid code)
| mv_mark c id w : sc_sl_done c = false -> mv None c (mark_closed c id w)
| mv_highest c sid : sc_sl_done c = false -> sc_highestID c < sid -> mv None c (upd_highestID c sid)
| mv_strms c l : sc_sl_done c = false -> Forall2 sloc (sc_strms c) l -> (Forall Q (sc_strms c) -> Forall Q l) ->
    mv None c (upd_strms c l)
| mv_dispatch c old x : sc_sl_done c = false -> strms_search (sc_strms c) (st_id x) = Some old ->
    st_orig x = st_orig old -> st_responded old = false -> st_handlerRunning x = true -> st_responded x = true ->
    (Q old -> Q x) -> dispatchable x ->
    mv None c (put (note c (ODispatch (st_id x) (st_req x))) x)
| mv_create c sid s : sc_sl_done c = false -> sc_closing c = false -> (sc_open c < cf_maxStreams cfg)%Z ->
    sc_highestID c < sid -> st_id s = sid -> st_orig s = KHeaders -> st_handlerRunning s = false ->
    st_responded s = false -> Q s ->
    mv None c (upd_open (upd_strms (upd_lastID (upd_highestID c sid) sid) (sc_strms c ++ [s])) (sc_open c + 1))
| mv_close c old x : sc_sl_done c = false -> strms_search (sc_strms c) (st_id x) = Some old -> sloc old x ->
    (Q old -> Q x) -> mv None c (close_stream c x)
| mv_done_gone c sid s rest : sc_sl_done c = false -> take_stream (sc_gone c) sid = Some (s, rest) ->
    mv (Some sid) c (release_stream (upd_gone c rest) (set_flags s (st_responded s) false true))
| mv_returned c c1 old x : sc_sl_done c = false -> lite c c1 ->       (* c1: the response has been queued *)
    strms_search (sc_strms c) (st_id x) = Some old -> take_stream (sc_gone c) (st_id x) = None ->
    st_orig x = st_orig old -> st_handlerRunning old = true -> st_handlerRunning x = false ->
    (st_responded old = true -> st_responded x = true) -> (Q old -> Q x) ->
    mv (Some (st_id x)) c (put c1 x)
| mv_brk c : sc_sl_done c = false -> mv None c (fst (brk c))
| mv_fatal c l extra : sc_sl_done c = false -> Forall2 sloc (sc_strms c ++ extra) l ->
    (extra = [] \/ exists s, extra = [s] /\ st_orig s <> KHeaders /\ st_handlerRunning s = false /\ st_responded s = false) ->
    mv None c (fst (brk (upd_strms c l)))
| mv_panic c : sc_sl_done c = false -> (exists d n b, dec_field d n b = DPanic hstate) ->
    mv None c (note c (OPanic 1 0))
(* once the loop has ended: what an error path left behind in the untracked components *)
| mv_post c c' : sc_sl_done c = true -> quiet_core c c' -> mv None c c'.

Definition olist (o : option N) : list N := match o with Some x => [x] | None => [] end.

Inductive mvs : list N -> sconn -> sconn -> Prop :=
| mvs_nil c : mvs [] c c
| mvs_cons o l a b c : mv o a b -> mvs l b c -> mvs (olist o ++ l) a c.

Lemma mvs_one o a b : mv o a b -> mvs (olist o) a b.
Proof. intro H. rewrite <- (app_nil_r (olist o)). econstructor; [eassumption | constructor]. Qed.

Lemma mvs_trans l1 l2 a b c : mvs l1 a b -> mvs l2 b c -> mvs (l1 ++ l2) a c.
Proof.
  induction 1 as [|o l a b b' M MS IH]; intro H2; [assumption|].
  rewrite <- app_assoc. econstructor; [eassumption | auto].
Qed.

Lemma mvs0_trans a b c : mvs [] a b -> mvs [] b c -> mvs [] a c.
Proof. intros H1 H2. exact (mvs_trans [] [] a b c H1 H2). Qed.

Lemma mvs0_one a b : mv None a b -> mvs [] a b.
Proof. intro H. exact (mvs_one None a b H). Qed.

(* an invariant closed under moves is preserved by sequences of moves *)
Lemma mvs_ind_inv (P : sconn -> Prop) :
  (forall o a b, mv o a b -> P a -> P b) -> forall l a b, mvs l a b -> P a -> P b.
Proof. intros H l a b M. induction M; eauto. Qed.

(* a reflexive transitive relation containing the moves contains their sequences *)
Lemma mvs_ind_rel (R : sconn -> sconn -> Prop) :
  (forall a, R a a) -> (forall a b c, R a b -> R b c -> R a c) -> (forall o a b, mv o a b -> R a b) ->
  forall l a b, mvs l a b -> R a b.
Proof. intros Hr Ht Hm l a b M. induction M; eauto. Qed.

Lemma mvs0_lite a b : sc_sl_done a = false -> lite a b -> mvs [] a b.
Proof. intros. apply mvs0_one. constructor; assumption. Qed.

(* ---------- closure of Q under the stream transformers ---------- *)
(* Q is kept by everything the stream loop does to a table stream. handle_frame: when it succeeds; when it fails
   with a stream error the stream is reset and closed at once, and only that is required to satisfy Q *)
Record Qclosed : Prop := mkQclosed {
  qc_new : forall id w k t, Q (set_orig_started (new_stream id w) k t);
  qc_closed : forall s, Q s -> Q (set_state s SClosed);
  qc_handle_state : forall fr s, Q s -> Q (handle_state fr s);
  qc_weReset : forall s, Q s -> Q (set_weReset s);
  qc_flags : forall s a b d, Q s -> Q (set_flags s a b d);
  qc_window : forall s w, Q s -> Q (set_window s w);
  qc_snd : forall s n, Q s -> Q (set_snd s n);
  qc_frame : forall (c : sconn) s fr c' s' e, Q s -> handle_frame dec_field cfg c s fr = (c', s', e) ->
    match e with
    | None => Q s'
    | Some (EReset _) => Q (set_state (set_weReset s') SClosed)
    | _ => True
    end
}.
Hypothesis HQc : Qclosed.
Lemma HQ_new : forall id w k t, Q (set_orig_started (new_stream id w) k t). Proof. apply HQc. Qed.
Lemma HQ_closed : forall s, Q s -> Q (set_state s SClosed). Proof. apply HQc. Qed.
Lemma HQ_handle_state : forall fr s, Q s -> Q (handle_state fr s). Proof. apply HQc. Qed.
Lemma HQ_weReset : forall s, Q s -> Q (set_weReset s). Proof. apply HQc. Qed.
Lemma HQ_flags : forall s a b d, Q s -> Q (set_flags s a b d). Proof. apply HQc. Qed.
Lemma HQ_window : forall s w, Q s -> Q (set_window s w). Proof. apply HQc. Qed.
Lemma HQ_snd : forall s n, Q s -> Q (set_snd s n). Proof. apply HQc. Qed.
Local Hint Resolve HQ_new HQ_closed HQ_handle_state HQ_weReset HQ_flags HQ_window HQ_snd : core.

(* ---------- working copies ---------- *)
(* s is a working copy of a table stream: the table holds `old` under s's id *)
Definition work (c : sconn) (s : stream) : Prop :=
  exists old, strms_search (sc_strms c) (st_id s) = Some old /\ sloc old s /\ (Q old -> Q s).

Lemma work_lite c c' s : lite c c' -> work c s -> work c' s.
Proof. intros L (old & H1 & H2 & H3). exists old. rewrite (lite_strms _ _ _ _ L). auto. Qed.

Lemma work_strms c c' s : sc_strms c' = sc_strms c -> work c s -> work c' s.
Proof. intros E (old & H1 & H2 & H3). exists old. rewrite E. auto. Qed.

Lemma work_upd s s' c : sloc s s' -> (Q s -> Q s') -> work c s -> work c s'.
Proof.
  intros S HQ (old & H1 & H2 & H3). exists old. pose proof S as (Si & _). rewrite Si. split; [assumption|].
  split; [eapply sloc_trans; eassumption | tauto].
Qed.

Lemma work_found c s : strms_search (sc_strms c) (st_id s) = Some s -> work c s.
Proof. intro H. exists s. split; [assumption|]. split; [apply sloc_refl | tauto]. Qed.

(* write-back of a working copy *)
Lemma mvs_put c s : sc_sl_done c = false -> work c s -> mvs [] c (put c s).
Proof.
  intros Hd (old & H1 & H2 & H3). apply mvs0_one. unfold put. constructor; [assumption | eapply put_sloc; eassumption|].
  intro F. apply strms_put_Forall; [assumption|]. apply H3. rewrite Forall_forall in F. apply F.
  apply strms_search_In in H1. tauto.
Qed.

Lemma search_put_work c s : work c s -> strms_search (sc_strms (put c s)) (st_id s) = Some s.
Proof. intros (old & H1 & _). rewrite sc_strms_put. eapply search_put_same. eassumption. Qed.

(* write-back, then close if the stream is closed *)
Lemma mvs_put_close c s : sc_sl_done c = false -> work c s ->
  mvs [] c (if sstate_eqb (st_state s) SClosed then close_stream (put c s) s else put c s).
Proof.
  intros Hd W. destruct (sstate_eqb (st_state s) SClosed); [|apply mvs_put; assumption].
  eapply mvs0_trans; [apply mvs_put; eassumption|]. apply mvs0_one.
  apply mv_close with (old := s) (x := s); [rewrite sc_sl_done_put; assumption | apply search_put_work; assumption | apply sloc_refl | auto].
Qed.

(* ---------- close_all, flush_streams ---------- *)
Lemma mvs_close_all ids : forall c, sc_sl_done c = false -> mvs [] c (close_all c ids).
Proof.
  induction ids as [|id t IH]; intros c Hd; cbn [close_all]; [constructor|].
  destruct (strms_search (sc_strms c) id) as [s|] eqn:E; [|auto].
  eapply mvs0_trans; [|apply IH; rewrite sc_sl_done_close_stream; assumption].
  apply mvs0_one. apply mv_close with (old := s) (x := set_state s SClosed); [assumption | | apply sloc_set_state | apply HQ_closed].
  cbn [set_state st_id]. destruct (strms_search_In _ _ _ E) as [_ <-]. assumption.
Qed.

Lemma sloc_send_data c s : sloc s (snd (fst (send_data c s))).
Proof.
  unfold send_data. destruct (send_data_loop _ c (st_id s) (get_snd s)) as [[[c1 n1] dn] wr]. cbn [fst snd].
  destruct wr; eauto using sloc_trans, sloc_set_snd, sloc_set_weReset.
Qed.

Lemma Q_send_data c s : Q s -> Q (snd (fst (send_data c s))).
Proof.
  intro H. unfold send_data. destruct (send_data_loop _ c (st_id s) (get_snd s)) as [[[c1 n1] dn] wr]. cbn [fst snd].
  destruct wr; auto.
Qed.

Lemma mvs_flush_loop ids : forall c done, sc_sl_done c = false ->
  mvs [] c (fst (flush_loop c ids done)) /\ sc_sl_done (fst (flush_loop c ids done)) = false.
Proof.
  induction ids as [|id t IH]; intros c done Hd; cbn [flush_loop]; [split; [constructor | assumption]|].
  destruct (strms_search (sc_strms c) id) as [s|] eqn:E; [|auto].
  destruct (_ && _)%bool; [|auto].
  pose proof (lite_send_data _ cfg c s Hd) as L. pose proof (sloc_send_data c s) as S.
  pose proof (Q_send_data c s) as HQ.
  destruct (send_data c s) as [[c1 s1] fin]. cbn [fst snd] in *.
  assert (Hd1 : sc_sl_done c1 = false) by (rewrite (lite_sl_done _ _ _ _ L); assumption).
  assert (W : work c1 s1).
  { eapply work_lite; [eassumption|]. eapply work_upd; [eassumption | assumption|]. apply work_found.
    destruct (strms_search_In _ _ _ E) as [_ ->]. assumption. }
  destruct (IH (put c1 s1) (if fin then done ++ [id] else done)) as [M D]; [rewrite sc_sl_done_put; assumption|].
  split; [|assumption].
  eapply mvs0_trans; [apply mvs0_lite; eassumption|]. eapply mvs0_trans; [apply (mvs_put c1 s1 Hd1 W) | exact M].
Qed.

Lemma mvs_flush_streams c : sc_sl_done c = false -> mvs [] c (flush_streams c).
Proof.
  intro Hd. unfold flush_streams.
  destruct (mvs_flush_loop (map st_id (sc_strms c)) c [] Hd) as [M D].
  destruct (flush_loop c (map st_id (sc_strms c)) []) as [c1 done]. cbn [fst] in *.
  eapply mvs0_trans; [exact M | apply mvs_close_all; assumption].
Qed.

Lemma sc_sl_done_close_all ids : forall c, sc_sl_done (close_all c ids) = sc_sl_done c.
Proof.
  induction ids as [|id t IH]; intros c; cbn [close_all]; [reflexivity|].
  destruct (strms_search (sc_strms c) id); [|auto]. rewrite IH, sc_sl_done_close_stream. reflexivity.
Qed.

Lemma sc_sl_done_flush_streams c : sc_sl_done c = false -> sc_sl_done (flush_streams c) = false.
Proof.
  intro Hd. unfold flush_streams.
  destruct (mvs_flush_loop (map st_id (sc_strms c)) c [] Hd) as [M D].
  destruct (flush_loop c (map st_id (sc_strms c)) []) as [c1 done]. cbn [fst] in *.
  rewrite sc_sl_done_close_all. assumption.
Qed.

(* ---------- implicit_close, close_heads, sl_timer ---------- *)
Lemma mvs_implicit_close fuel : forall c sid, sc_sl_done c = false ->
  mvs [] c (implicit_close fuel c sid) /\ sc_sl_done (implicit_close fuel c sid) = false /\
  (forall x, strms_search (sc_strms c) sid = Some x -> strms_search (sc_strms (implicit_close fuel c sid)) sid = Some x).
Proof.
  induction fuel as [|fuel IH]; intros c sid Hd; cbn [implicit_close]; [repeat split; [constructor | assumption | auto]|].
  destruct (sc_strms c) as [|n t] eqn:E; [repeat split; [constructor | assumption | rewrite E; auto]|].
  destruct (_ && _)%bool eqn:Cnd; [|repeat split; [constructor | assumption | rewrite E; auto]].
  set (x := set_state (set_weReset n) SClosed).
  assert (Hd1 : sc_sl_done (close_stream c x) = false) by (rewrite sc_sl_done_close_stream; assumption).
  assert (Hd2 : sc_sl_done (write_reset (close_stream c x) (st_id n) c_StreamCanceled) = false)
    by (rewrite sc_sl_done_write_reset; assumption).
  destruct (IH _ sid Hd2) as (M & D & K). subst x. repeat split; [|assumption|].
  - eapply mvs0_trans; [|eapply mvs0_trans; [|exact M]].
    + apply mvs0_one. apply mv_close with (old := n) (x := set_state (set_weReset n) SClosed); [assumption | | | auto].
      * rewrite E. cbn [set_state st_id set_weReset strms_search]. rewrite N.eqb_refl. reflexivity.
      * apply sloc_reset_closed.
    + apply mvs0_lite; [assumption | apply lite_write_reset; assumption].
  - intros y Hy. apply K. rewrite sc_strms_write_reset, sc_strms_close_stream.
    rewrite search_del_other; [rewrite E; assumption|]. cbn [set_state st_id set_weReset]. lia.
Qed.

Lemma mvs_close_heads n : forall c, sc_sl_done c = false -> mvs [] c (close_heads n c).
Proof.
  induction n as [|n IH]; intros c Hd; cbn [close_heads]; [constructor|].
  destruct (sc_strms c) as [|s t] eqn:E; [constructor|].
  eapply mvs0_trans; [|apply IH; rewrite sc_sl_done_close_stream, sc_sl_done_write_reset; assumption].
  eapply mvs0_trans; [apply mvs0_lite; [assumption | apply lite_write_reset; assumption]|].
  apply mvs0_one. apply mv_close with (old := s) (x := set_state (set_weReset s) SClosed).
  - rewrite sc_sl_done_write_reset; assumption.
  - rewrite sc_strms_write_reset, E. cbn [set_state st_id set_weReset strms_search]. rewrite N.eqb_refl. reflexivity.
  - apply sloc_reset_closed.
  - auto.
Qed.

Theorem mvs_sl_timer c : sc_sl_done c = false -> mvs [] c (fst (sl_timer cfg c)).
Proof.
  intro Hd. unfold sl_timer. destruct (_ <=? 0)%Z; cbn [fst cont]; [constructor | apply mvs_close_heads; assumption].
Qed.

(* ---------- after_frame ---------- *)
Lemma mvs_brk_if (b : bool) c : sc_sl_done c = false -> mvs [] c (fst (if b then brk c else cont c)).
Proof. intro Hd. destruct b; [apply mvs0_one, mv_brk; assumption | constructor]. Qed.

Lemma sc_sl_done_put_close c s :
  sc_sl_done (if sstate_eqb (st_state s) SClosed then close_stream (put c s) s else put c s) = sc_sl_done c.
Proof. destruct (sstate_eqb _ _); [rewrite sc_sl_done_close_stream|]; apply sc_sl_done_put. Qed.

Lemma mvs_after_frame c s fr wc : sc_sl_done c = false -> work c s -> mvs [] c (fst (after_frame cfg c s fr wc)).
Proof.
  intros Hd W. unfold after_frame.
  assert (W1 : work c (handle_state fr s)) by (eapply work_upd; [apply sloc_handle_state | apply HQ_handle_state | exact W]).
  set (s1 := handle_state fr s) in *. clearbody s1.
  destruct (sstate_eqb (st_state s1) SHalfClosed && st_headersFinished s1 && negb (st_responded s1))%bool eqn:Cnd.
  - (* the request is complete *)
    apply andb_prop in Cnd. destruct Cnd as [Cnd Hr]. apply andb_prop in Cnd. destruct Cnd as [Hs Hf].
    assert (Hst : st_state s1 = SHalfClosed) by (destruct (st_state s1); try discriminate; reflexivity).
    destruct (st_hasCL _ && negb _)%bool eqn:CL.
    + (* content-length mismatch: reset *)
      set (x := set_state (set_weReset (set_flags s1 true (st_handlerRunning s1) (st_abandoned s1))) SClosed).
      set (c2 := write_reset c _ c_ProtocolError).
      assert (L : lite c c2) by (apply lite_write_reset; assumption).
      assert (Hd2 : sc_sl_done c2 = false) by (unfold c2; rewrite sc_sl_done_write_reset; assumption).
      assert (Wx : work c2 x).
      { eapply work_lite; [exact L|]. eapply work_upd; [| |exact W1].
        - repeat split; auto.
        - intro. unfold x. auto. }
      eapply mvs0_trans; [apply mvs0_lite; eassumption|].
      eapply mvs0_trans; [apply (mvs_put_close c2 x Hd2 Wx)|].
      apply mvs_brk_if. rewrite sc_sl_done_put_close. assumption.
    + (* dispatch *)
      set (x := set_flags (set_flags s1 true (st_handlerRunning s1) (st_abandoned s1)) true true
                          (st_abandoned (set_flags s1 true (st_handlerRunning s1) (st_abandoned s1)))).
      replace (sstate_eqb (st_state x) SClosed) with false by (cbn [x set_flags st_state]; rewrite Hst; reflexivity).
      destruct W1 as (old & S1 & S2 & S3).
      assert (MD : mv None c (put (note c (ODispatch (st_id x) (st_req x))) x)).
      { apply mv_dispatch with (old := old).
        - exact Hd.
        - exact S1.
        - destruct S2 as (_ & E2 & _). exact E2.
        - destruct S2 as (_ & _ & _ & I). destruct (st_responded old); [|reflexivity].
          rewrite I in Hr by reflexivity. discriminate.
        - reflexivity.
        - reflexivity.
        - intro. unfold x. auto.
        - repeat split; [exact Hst | exact Hf|]. cbn [x set_flags st_hasCL st_recvBody st_contentLength]. intro HC.
          cbn [set_flags st_hasCL st_recvBody st_contentLength] in CL. rewrite HC in CL. cbn [andb] in CL.
          destruct (Z.eqb_spec (st_recvBody s1) (st_contentLength s1)); [assumption | discriminate]. }
      eapply mvs0_trans; [apply mvs0_one; exact MD|].
      apply mvs_brk_if. rewrite sc_sl_done_put, sc_sl_done_note. assumption.
  - destruct (st_responded s1 && negb (st_handlerRunning s1) && has_more_to_send s1)%bool.
    + (* more of the response can go *)
      pose proof (lite_send_data _ cfg c s1 Hd) as L. pose proof (sloc_send_data c s1) as S.
      pose proof (Q_send_data c s1) as HQ.
      destruct (send_data c s1) as [[c1 s2] fin]. cbn [fst snd] in *.
      assert (Hd1 : sc_sl_done c1 = false) by (rewrite (lite_sl_done _ _ _ _ L); assumption).
      assert (W2 : work c1 (if fin then set_state s2 SClosed else s2)).
      { eapply work_lite; [exact L|]. eapply work_upd; [| |exact W1].
        - destruct fin; eauto using sloc_trans, sloc_set_state.
        - destruct fin; auto. }
      eapply mvs0_trans; [apply mvs0_lite; eassumption|].
      eapply mvs0_trans; [apply (mvs_put_close c1 _ Hd1 W2)|].
      apply mvs_brk_if. rewrite sc_sl_done_put_close. assumption.
    + eapply mvs0_trans; [apply (mvs_put_close c s1 Hd W1)|].
      apply mvs_brk_if. rewrite sc_sl_done_put_close. assumption.
Qed.

(* ---------- sl_frame ---------- *)
(* how an error path that ends the loop is replayed: the GOAWAY (or the panic note) and the break on the state
   before the handler ran, then what the handler left behind in the untracked components *)
Lemma quiet_goaway_brk c c1 sid code : quiet_core c c1 ->
  quiet_core (fst (brk (write_goaway c sid code))) (fst (brk (write_goaway c1 sid code))).
Proof.
  intros [SC EO]. unfold same_core in SC. destruct SC as (S1 & S2 & S3 & S4 & S5 & S6 & S7 & S8 & S9 & S10 & S11 & S12 & S13 & S14 & S15).
  assert (EG : sc_out (write_goaway c1 sid code) = sc_out (write_goaway c sid code)).
  { rewrite !sc_out_write_goaway, S14, S12, S5, EO. reflexivity. }
  split; [|unfold brk, note; sc_cbn; congruence].
  unfold same_core, brk, note. sc_cbn. sc_rw. rewrite ?sc_closing_write_goaway, ?sc_closeRef_write_goaway. rewrite ?S1, ?S2, ?S3, ?S4, ?S5, ?S6, ?S7, ?S8, ?S9, ?S10, ?S11, ?S12, ?S13, ?S14, ?S15. repeat split; reflexivity.
Qed.

Lemma quiet_note_brk c c1 o : quiet_core c c1 -> quiet_core (fst (brk (note c o))) (fst (brk (note c1 o))).
Proof.
  intros [SC EO]. unfold same_core in SC. destruct SC as (S1 & S2 & S3 & S4 & S5 & S6 & S7 & S8 & S9 & S10 & S11 & S12 & S13 & S14 & S15).
  split; [|unfold brk, note; sc_cbn; congruence].
  unfold same_core, brk, note. sc_cbn. rewrite ?S1, ?S2, ?S3, ?S4, ?S5, ?S6, ?S7, ?S8, ?S9, ?S10, ?S11, ?S12, ?S13, ?S14, ?S15. repeat split; reflexivity.
Qed.

Lemma mvs_discard_or_break c (r : sconn * option h2err) :
  sc_sl_done c = false -> (snd r = None -> lite c (fst r)) -> quiet_core c (fst r) -> disc_oerr dec_field (snd r) ->
  mvs [] c (fst (discard_or_break r)).
Proof.
  intros Hd L QC G. destruct r as [c1 [e|]]; cbn [fst snd] in *.
  - destruct e as [code|code|]; cbn [discard_or_break write_error fst]; [| destruct G |].
    + eapply mvs0_trans; [apply mvs0_one, (mv_goaway c 0 code); [assumption | exact G]|].
      eapply mvs0_trans; [apply mvs0_one, mv_brk; rewrite sc_sl_done_write_goaway; assumption|].
      apply mvs0_one, mv_post; [reflexivity | apply quiet_goaway_brk; assumption].
    + eapply mvs0_trans; [apply mvs0_one, mv_panic; [assumption | exact G]|].
      eapply mvs0_trans; [apply mvs0_one, mv_brk; rewrite sc_sl_done_note; assumption|].
      apply mvs0_one, mv_post; [reflexivity | apply quiet_note_brk; assumption].
  - cbn [discard_or_break cont fst]. apply mvs0_lite; auto.
Qed.

(* the refusal of a stream: RST_STREAM(REFUSED_STREAM), remember the id, decode and drop the block *)
Lemma mvs_refuse c fr :
  sc_sl_done c = false ->
  mvs [] c (fst (discard_or_break (discard_header_block dec_field cfg
                (mark_closed (write_reset c (sf_sid fr) c_RefusedStreamError) (sf_sid fr) true) fr))).
Proof.
  intro Hd.
  eapply mvs0_trans; [apply mvs0_lite; [assumption | apply lite_write_reset; assumption]|].
  eapply mvs0_trans; [apply mvs0_one, mv_mark; rewrite sc_sl_done_write_reset; assumption|].
  apply mvs_discard_or_break.
  - rewrite sc_sl_done_mark_closed, sc_sl_done_write_reset. assumption.
  - apply lite_discard_header_block.
  - apply quiet_discard_header_block.
  - apply discard_header_block_err.
Qed.

(* handleFrame, the reaction to its error, handleState and what follows *)
Definition frame_tail (c2 : sconn) (s : stream) (fr : sframe) (wasClosing : bool) : sconn * bool :=
  let '(c3, s3, e) := handle_frame dec_field cfg c2 s fr in
  match e with
  | Some e =>
    let '(c4, s4) := write_error c3 (Some s3) e in
    let s5 := match s4 with Some x => set_state x SClosed | None => set_state s3 SClosed end in
    match e with
    | EGoAway code => if negb (code =? c_NoError) then brk (put c4 s5) else after_frame cfg c4 s5 fr wasClosing
    | EReset _ => after_frame cfg c4 s5 fr wasClosing
    | EPanic => brk (note c3 (OPanic 1 0))
    end
  | None => after_frame cfg c3 s3 fr wasClosing
  end.

Lemma sloc_handle_header_frame c s fr : sloc s (snd (fst (handle_header_frame dec_field cfg c s fr))).
Proof.
  unfold handle_header_frame.
  destruct (_ && _)%bool; [apply sloc_refl|]. destruct (_ && _)%bool; [apply sloc_set_headers_finished|].
  destruct (header_loop dec_field _ cfg _ (sc_dec c) _ _) as [[[d' h2] e] rest].
  destruct e as [[code|code|]|]; cbn [fst snd]; try apply sloc_set_hdr.
  - match goal with |- context [discard_fragment ?a ?b ?c0 ?d ?e ?f] => destruct (discard_fragment a b c0 d e f) as [c3 [de|]] end;
    cbn [fst snd]; apply sloc_set_hdr.
  - destruct (_ && _)%bool; cbn [fst snd]; apply sloc_set_hdr.
Qed.

Lemma sloc_handle_frame c s fr : sloc s (snd (fst (handle_frame dec_field cfg c s fr))).
Proof.
  unfold handle_frame. destruct (verify_state s fr); [apply sloc_refl|].
  pose proof (sloc_handle_header_frame c s fr) as LH.
  match goal with |- context [match sf_kind fr with KHeaders => ?X | _ => _ end] => set (hb := X) end.
  assert (HH : sloc s (snd (fst hb))).
  { subst hb. destruct (_ && _)%bool; [apply sloc_refl|].
    destruct (handle_header_frame dec_field cfg c s fr) as [[c1 s1] e]. cbn [fst snd] in LH.
    destruct e; [exact LH|]. destruct (flag_has (sf_flags fr) FL_EH); [|exact LH].
    cbv zeta. destruct (negb _); [eauto using sloc_trans, sloc_set_headers_finished|].
    destruct (validate_request_pseudo_headers _); cbn [fst snd]; eauto using sloc_trans, sloc_set_headers_finished. }
  clearbody hb.
  destruct (sf_kind fr); try exact HH; try apply sloc_refl;
  repeat match goal with |- context [if ?b then _ else _] => destruct b end; cbn [fst snd];
  auto using sloc_refl, sloc_set_recv, sloc_set_window.
Qed.

Lemma quiet_fatal_put c c3 sid code x : quiet_core c c3 ->
  quiet_core (fst (brk (upd_strms (write_goaway c sid code) (strms_put (sc_strms c) x))))
             (fst (brk (put (write_goaway c3 sid code) x))).
Proof.
  intros [SC EO]. unfold same_core in SC. destruct SC as (S1 & S2 & S3 & S4 & S5 & S6 & S7 & S8 & S9 & S10 & S11 & S12 & S13 & S14 & S15).
  assert (EG : sc_out (write_goaway c3 sid code) = sc_out (write_goaway c sid code)).
  { rewrite !sc_out_write_goaway, S14, S12, S5, EO. reflexivity. }
  split; [|unfold brk, note, put; sc_cbn; congruence].
  unfold same_core, brk, note, put. sc_cbn. sc_rw. rewrite ?sc_closing_write_goaway, ?sc_closeRef_write_goaway. rewrite ?S1, ?S2, ?S3, ?S4, ?S5, ?S6, ?S7, ?S8, ?S9, ?S10, ?S11, ?S12, ?S13, ?S14, ?S15. repeat split; reflexivity.
Qed.

Lemma mvs_frame_tail c s fr wc : sc_sl_done c = false -> work c s -> mvs [] c (fst (frame_tail c s fr wc)).
Proof.
  intros Hd W. unfold frame_tail.
  pose proof (lite_handle_frame _ dec_field cfg c s fr Hd) as L.
  pose proof (quiet_handle_frame _ dec_field cfg c s fr) as QC.
  pose proof (sloc_handle_frame c s fr) as S.
  pose proof (handle_frame_err _ dec_field cfg c s fr) as G.
  pose proof (fun Qs => qc_frame HQc c s fr (fst (fst (handle_frame dec_field cfg c s fr)))
                         (snd (fst (handle_frame dec_field cfg c s fr))) (snd (handle_frame dec_field cfg c s fr)) Qs) as HQf.
  destruct (handle_frame dec_field cfg c s fr) as [[c3 s3] e]. cbn [fst snd] in *.
  (* the working copy after the frame, when Q is known of it *)
  assert (W3 : lite c c3 -> forall x, sloc s3 x -> (Q s -> Q x) -> work c3 x).
  { intros L3 x Sx Qx. eapply work_lite; [exact L3|]. eapply work_upd; [eapply sloc_trans; [exact S | exact Sx] | exact Qx | exact W]. }
  destruct e as [[code|code|]|].
  - (* connection error: GOAWAY, the stream is written back, the loop ends *)
    cbn [write_error]. cbn [good_oerr good_err] in G.
    replace (negb (code =? c_NoError)) with true by (symmetry; apply negb_true_iff, sl_codes_nonzero; exact G).
    assert (Q3 : quiet_core c c3) by (apply QC; intro F; exact F).
    destruct W as (old & H1 & H2 & _). pose proof S as (Si & _).
    set (x := set_state (set_state s3 SClosed) SClosed).
    eapply mvs0_trans; [apply mvs0_one, (mv_goaway c (st_id s3) code); [assumption | exact G]|].
    eapply mvs0_trans.
    + apply mvs0_one.
      apply (mv_fatal (write_goaway c (st_id s3) code) (strms_put (sc_strms c) x) []);
        [rewrite sc_sl_done_write_goaway; assumption | | left; reflexivity].
      rewrite app_nil_r, sc_strms_write_goaway. eapply put_sloc; [cbn [x set_state st_id]; rewrite Si; exact H1|].
      eapply sloc_trans; [exact H2|]. eapply sloc_trans; [exact S|].
      eapply sloc_trans; apply sloc_set_state.
    + apply mvs0_one, mv_post; [reflexivity|].
      apply quiet_fatal_put. exact Q3.
  - (* stream error *)
    cbn [write_error].
    assert (L3 : lite c c3) by (apply L; exact I).
    assert (Hd3 : sc_sl_done c3 = false) by (rewrite (lite_sl_done _ _ _ _ L3); assumption).
    eapply mvs0_trans; [apply mvs0_lite; eassumption|].
    assert (L4 : lite c3 (write_reset c3 (st_id s3) code)) by (apply lite_write_reset; assumption).
    eapply mvs0_trans; [apply mvs0_lite; eassumption|].
    apply mvs_after_frame; [rewrite sc_sl_done_write_reset; assumption|].
    eapply work_lite; [exact L4|]. apply (W3 L3).
    + eapply sloc_trans; [apply sloc_reset_closed | apply sloc_set_state].
    + intro Qs. apply HQ_closed. exact (HQf Qs eq_refl).
  - (* the decoder panicked *)
    cbn [write_error].
    assert (Q3 : quiet_core c c3) by (apply QC; intro F; exact F).
    eapply mvs0_trans; [apply mvs0_one, mv_panic; [assumption | exact G]|].
    eapply mvs0_trans; [apply mvs0_one, mv_brk; rewrite sc_sl_done_note; assumption|].
    apply mvs0_one, mv_post; [reflexivity | apply quiet_note_brk; assumption].
  - assert (L3 : lite c c3) by (apply L; exact I).
    assert (Hd3 : sc_sl_done c3 = false) by (rewrite (lite_sl_done _ _ _ _ L3); assumption).
    eapply mvs0_trans; [apply mvs0_lite; eassumption|].
    apply mvs_after_frame; [assumption | apply (W3 L3); [apply sloc_refl | intro Qs; exact (HQf Qs eq_refl)]].
Qed.

(* the HEADERS prelude, then the frame *)
Definition frame_work (c1 : sconn) (s : stream) (fr : sframe) (wasClosing : bool) : sconn * bool :=
  let pre2 : (sconn * bool) + sconn :=
    if fkind_eqb (sf_kind fr) KHeaders then
      match get_previous_headers (sc_strms c1) with
      | Some p =>
        if negb (st_headersFinished p) then
          let '(c2, p') := write_error c1 (Some p) (EGoAway c_ProtocolError) in
          inl (cont (match p' with Some p' => put c2 p' | None => c2 end))
        else inr (implicit_close (S (length (sc_strms c1))) c1 (st_id s))
      | None => inr (implicit_close (S (length (sc_strms c1))) c1 (st_id s))
      end
    else inr c1 in
  match pre2 with
  | inl r => r
  | inr c2 => frame_tail c2 s fr wasClosing
  end.

Lemma work_implicit_close c s :
  sc_sl_done c = false -> work c s -> work (implicit_close (S (length (sc_strms c))) c (st_id s)) s.
Proof.
  intros Hd (old & H1 & H2 & H3).
  destruct (mvs_implicit_close (S (length (sc_strms c))) c (st_id s) Hd) as (_ & _ & K).
  exists old. auto.
Qed.

Lemma mvs_frame_work c s fr wc :
  sc_sl_done c = false -> NoDup (map st_id (sc_strms c)) -> work c s -> mvs [] c (fst (frame_work c s fr wc)).
Proof.
  intros Hd ND W. unfold frame_work.
  assert (IC : mvs [] c (fst (frame_tail (implicit_close (S (length (sc_strms c))) c (st_id s)) s fr wc))).
  { destruct (mvs_implicit_close (S (length (sc_strms c))) c (st_id s) Hd) as (M & D & _).
    eapply mvs0_trans; [exact M|]. apply mvs_frame_tail; [assumption | apply work_implicit_close; assumption]. }
  destruct (fkind_eqb (sf_kind fr) KHeaders); [|apply mvs_frame_tail; assumption].
  destruct (get_previous_headers (sc_strms c)) as [p|] eqn:GP; [|exact IC].
  destruct (negb (st_headersFinished p)); [|exact IC].
  cbn [write_error cont fst].
  eapply mvs0_trans; [apply mvs0_one, (mv_goaway c (st_id p) c_ProtocolError); [assumption | in_codes]|].
  apply mvs_put; [rewrite sc_sl_done_write_goaway; assumption|].
  exists p. rewrite sc_strms_write_goaway. cbn [set_state st_id].
  split; [apply NoDup_search; [assumption | apply get_previous_headers_In; assumption]|].
  split; [apply sloc_set_state | auto].
Qed.

(* the precondition of the decomposition: ids in the table are distinct and not above lastID <= highestID *)
Definition ids_ok (c : sconn) : Prop :=
  NoDup (map st_id (sc_strms c)) /\ (forall s, In s (sc_strms c) -> st_id s <= sc_lastID c) /\
  sc_lastID c <= sc_highestID c.

Lemma bumpall_spec (delta : Z) : forall l pre,
  let r := (fix bumpall (pre : list stream) (l : list stream) {struct l} : list stream * bool :=
          match l with
          | [] => (pre, false)
          | s :: t =>
            let s' := set_window s (st_window s + delta) in
            if (MAXWIN <? st_window s')%Z then (pre ++ s' :: t, true) else bumpall (pre ++ [s']) t
          end) pre l in
  exists l', fst r = pre ++ l' /\ Forall2 sloc l l' /\ (Forall Q l -> Forall Q l').
Proof.
  induction l as [|s t IH]; intros pre.
  - exists []. rewrite app_nil_r. repeat split; auto.
  - cbv zeta. cbv zeta in IH.
    destruct (MAXWIN <? st_window (set_window s (st_window s + delta)))%Z eqn:OV.
    + exists (set_window s (st_window s + delta) :: t). cbn [fst]. repeat split.
      * constructor; [apply sloc_set_window | apply Forall2_sloc_refl].
      * intro F. inversion F; subst. constructor; auto.
    + destruct (IH (pre ++ [set_window s (st_window s + delta)])) as (l' & E & F2 & FQ).
      exists (set_window s (st_window s + delta) :: l'). repeat split.
      * etransitivity; [exact E|]. rewrite <- app_assoc. reflexivity.
      * constructor; [apply sloc_set_window | assumption].
      * intro F. inversion F; subst. constructor; auto.
Qed.

Theorem mvs_sl_frame c fr : sc_sl_done c = false -> ids_ok c -> mvs [] c (fst (sl_frame dec_field enc_set_max cfg c fr)).
Proof.
  intros Hd (ND & IL & LH). unfold sl_frame.
  destruct (sf_sid fr =? 0) eqn:Z0.
  { (* connection-level frames *)
    destruct (sf_kind fr); try (cbn [cont fst]; constructor).
    - (* SETTINGS *)
      set (c0 := if sf_set_hastable fr then upd_enc c (enc_set_max (sc_enc c) (sf_set_table fr)) else c).
      assert (L0 : lite c c0) by (subst c0; destruct (sf_set_hastable fr); [apply lite_upd_enc | apply lite_refl]).
      assert (Hd0 : sc_sl_done c0 = false) by (rewrite (lite_sl_done _ _ _ _ L0); assumption).
      eapply mvs0_trans; [apply mvs0_lite; eassumption|].
      destruct (sf_set_haswin fr).
      + cbv zeta.
        match goal with |- context [let '(aa, bb) := ?B in _] =>
          assert (BS : exists l', fst B = [] ++ l' /\ Forall2 sloc (sc_strms (upd_initWin c0 (signed 32 (sf_set_win fr)))) l' /\
                                   (Forall Q (sc_strms (upd_initWin c0 (signed 32 (sf_set_win fr)))) -> Forall Q l'))
            by (apply (bumpall_spec (signed 32 (sf_set_win fr) - sc_initWin c0)));
          destruct B as [lB over] end.
        destruct BS as (lq & E & F2 & FQ). cbn [fst app] in E. subst lB.
        set (c1 := upd_initWin c0 (signed 32 (sf_set_win fr))) in *.
        assert (L1 : lite c0 c1) by apply lite_upd_initWin.
        assert (Hd1 : sc_sl_done c1 = false) by reflexivity || (rewrite (lite_sl_done _ _ _ _ L1); assumption).
        eapply mvs0_trans; [apply mvs0_lite; eassumption|].
        eapply mvs0_trans; [apply mvs0_one, (mv_strms c1 lq); assumption|].
        destruct over.
        * eapply mvs0_trans; [apply mvs0_one, (mv_goaway _ 0 c_FlowControlError); [rewrite sc_sl_done_upd_strms; assumption | in_codes]|].
          apply mvs0_one, mv_brk. rewrite sc_sl_done_write_goaway, sc_sl_done_upd_strms. assumption.
        * cbn [cont fst].
          eapply mvs0_trans; [apply mvs0_lite; [|apply (lite_emit _ cfg (upd_strms c1 lq) OSettingsAck I)]; rewrite sc_sl_done_upd_strms; assumption|].
          apply mvs_flush_streams. rewrite sc_sl_done_emit, sc_sl_done_upd_strms. assumption.
      + cbn [cont fst]. apply mvs0_lite; [assumption | apply (lite_emit _ cfg c0 OSettingsAck I Hd0)].
    - (* WINDOW_UPDATE *)
      eapply mvs0_trans; [apply mvs0_lite; [assumption | apply lite_upd_clientWindow]|].
      destruct (_ <? _)%Z.
      + eapply mvs0_trans; [apply mvs0_one, (mv_goaway _ 0 c_FlowControlError); [assumption | in_codes]|].
        apply mvs0_one, mv_brk. rewrite sc_sl_done_write_goaway. assumption.
      + cbn [cont fst]. apply mvs_flush_streams. assumption. }
  destruct (_ && _ && _)%bool.
  { apply mvs_discard_or_break; [assumption | apply lite_discard_header_block | apply quiet_discard_header_block | apply discard_header_block_err]. }
  cbv zeta.
  assert (GA : forall sid code, In code sl_codes -> mvs [] c (fst (cont (write_goaway c sid code)))).
  { intros. cbn [cont fst]. apply mvs0_one, mv_goaway; assumption. }
  (* the rest, once the stream is known *)
  change (match ?pre with inl r => r | inr (c1, s) => _ end) with
    (match pre with inl r => r | inr (c1, s) => frame_work c1 s fr (sc_closing c) end).
  destruct (if sf_sid fr <=? sc_lastID c then strms_search (sc_strms c) (sf_sid fr) else None) as [s|] eqn:Found.
  { (* a stream of the table *)
    apply mvs_frame_work; [assumption | assumption|]. apply work_found.
    destruct (sf_sid fr <=? sc_lastID c); [|discriminate].
    destruct (strms_search_In _ _ _ Found) as [_ ->]. assumption. }
  assert (NF : strms_search (sc_strms c) (sf_sid fr) = None).
  { destruct (sf_sid fr <=? sc_lastID c) eqn:Le; [assumption|]. eapply search_none_gt; [exact IL | lia]. }
  destruct (fkind_eqb (sf_kind fr) KRst).
  { destruct (_ && _)%bool; [apply GA; in_codes | constructor]. }
  destruct (in_ring c (sf_sid fr)).
  { destruct (sf_kind fr); try (apply GA; in_codes); try (cbn [cont fst]; constructor).
    - destruct (match ring_find c (sf_sid fr) with Some b => b | None => false end); [|apply GA; in_codes].
      cbn [cont fst]. apply mvs0_lite; [assumption | apply lite_credit_conn_window; assumption].
    - destruct (match ring_find c (sf_sid fr) with Some b => b | None => false end); [|apply GA; in_codes].
      apply mvs_discard_or_break; [assumption | apply lite_discard_header_block | apply quiet_discard_header_block | apply discard_header_block_err]. }
  destruct (fkind_eqb (sf_kind fr) KPriority) eqn:KP.
  { destruct (sf_dep fr =? sf_sid fr); cbn [cont fst]; [|constructor]. apply mvs0_lite; [assumption | apply lite_write_reset; assumption]. }
  destruct (fkind_eqb (sf_kind fr) KHeaders) eqn:KH; cbn [andb].
  - (* HEADERS opening a stream *)
    destruct (sf_sid fr <=? sc_highestID c) eqn:HI; [apply GA; in_codes|].
    assert (HI' : sc_highestID c < sf_sid fr) by lia.
    set (ch := upd_highestID c (sf_sid fr)).
    assert (MH : mvs [] c ch) by (apply mvs0_one, mv_highest; assumption).
    assert (Hdh : sc_sl_done ch = false) by assumption.
    destruct ((cf_maxStreams cfg <=? sc_open ch)%Z || sc_closing c)%bool eqn:Ref.
    { eapply mvs0_trans; [exact MH | apply mvs_refuse; assumption]. }
    destruct (sf_sid fr <? sc_lastID ch).
    { eapply mvs0_trans; [exact MH|]. cbn [cont fst]. apply mvs0_one, mv_goaway; [assumption | in_codes]. }
    destruct (sc_closing ch) eqn:Cl.
    { eapply mvs0_trans; [exact MH | apply mvs_refuse; assumption]. }
    apply orb_false_elim in Ref. destruct Ref as [Ref _].
    set (s := set_orig_started (new_stream (sf_sid fr) (sc_initWin (upd_lastID ch (sf_sid fr)))) (sf_kind fr)
                               (sc_now (upd_lastID ch (sf_sid fr)))).
    set (c3 := upd_open _ _).
    assert (KHe : sf_kind fr = KHeaders) by (destruct (sf_kind fr); try discriminate; reflexivity).
    assert (MC : mv None c c3).
    { subst c3. apply (mv_create c (sf_sid fr) s).
      - exact Hd.
      - exact Cl.
      - change (sc_open ch) with (sc_open c) in Ref. lia.
      - exact HI'.
      - reflexivity.
      - unfold s. rewrite KHe. reflexivity.
      - reflexivity.
      - reflexivity.
      - apply HQ_new. }
    eapply mvs0_trans; [apply mvs0_one; exact MC|].
    apply mvs_frame_work; [exact Hd | |].
    + change (sc_strms c3) with (sc_strms c ++ [s]). rewrite map_app. apply NoDup_app_one; [assumption|]. cbn [map].
      intro I. apply in_map_iff in I. destruct I as (y & Ey & Iy).
      eapply strms_search_None; [exact NF | exact Iy | exact Ey].
    + apply work_found. change (sc_strms c3) with (sc_strms c ++ [s]). apply search_app_last. exact NF.
  - (* any other frame on an unknown stream: the stream is made, the frame is refused, the loop ends *)
    destruct (sf_sid fr <? sc_lastID c); [apply GA; in_codes|].
    set (s := set_orig_started (new_stream (sf_sid fr) (sc_initWin c)) (sf_kind fr) (sc_now c)).
    unfold frame_work. rewrite KH. unfold frame_tail, handle_frame.
    assert (V : verify_state s fr = Some (EGoAway c_ProtocolError)).
    { unfold verify_state. cbn [s set_orig_started new_stream st_state]. rewrite KH, KP. reflexivity. }
    rewrite V. cbn [write_error].
    replace (negb (c_ProtocolError =? c_NoError)) with true by reflexivity.
    set (x := set_state (set_state s SClosed) SClosed).
    eapply mvs0_trans; [apply mvs0_one, (mv_goaway c (st_id s) c_ProtocolError); [assumption | in_codes]|].
    apply mvs0_one.
    assert (E : fst (brk (put (write_goaway (upd_strms c (sc_strms c ++ [s])) (st_id s) c_ProtocolError) x)) =
                fst (brk (upd_strms (write_goaway c (st_id s) c_ProtocolError) (strms_put (sc_strms c ++ [s]) x)))).
    { unfold put, write_goaway, emit. sc_cbn. destruct (sc_wl_dead c); [reflexivity|]. destruct (sc_sl_done c); reflexivity. }
    rewrite E. apply mv_fatal with (extra := [s]).
    + rewrite sc_sl_done_write_goaway. assumption.
    + rewrite sc_strms_write_goaway. eapply put_sloc.
      * change (st_id x) with (st_id s). apply search_app_last. exact NF.
      * eapply sloc_trans; apply sloc_set_state.
    + right. exists s. repeat split; try reflexivity. cbn [s set_orig_started st_orig].
      destruct (sf_kind fr); try discriminate; congruence.
Qed.

(* ---------- sl_done ---------- *)
Lemma sloc_finish_request c s r :
  let s' := snd (fst (finish_request enc_field c s r)) in sloc s s' /\ (Q s -> Q s').
Proof.
  unfold finish_request. destruct (response_block enc_field (sc_enc c) r) as [blk e'].
  destruct (negb _); cbn [fst snd]; [split; [apply sloc_refl | auto]|].
  match goal with |- context [send_data ?c1 ?s1] => pose proof (sloc_send_data c1 s1) as S; pose proof (Q_send_data c1 s1) as HQ;
    destruct (send_data c1 s1) as [[c2 s2] fin] end.
  cbn [fst snd] in *. split; [eapply sloc_trans; [apply sloc_set_snd | exact S] | auto].
Qed.

(* EvDone: nothing happens (no handler of sid is known to run), or the first move is the return of sid's handler *)
Theorem mvs_sl_done c sid r : sc_sl_done c = false ->
  (fst (sl_done enc_field cfg c sid r) = c /\ take_stream (sc_gone c) sid = None /\
   forall s, strms_search (sc_strms c) sid = Some s -> st_handlerRunning s = false) \/
  (exists b, mv (Some sid) c b /\ mvs [] b (fst (sl_done enc_field cfg c sid r))).
Proof.
  intro Hd. unfold sl_done.
  destruct (take_stream (sc_gone c) sid) as [[s rest]|] eqn:TS.
  { right. cbn [cont fst]. eexists. split; [apply mv_done_gone; eassumption | constructor]. }
  destruct (strms_search (sc_strms c) sid) as [s|] eqn:SS; [|left; repeat split; intros; discriminate].
  destruct (negb (st_handlerRunning s)) eqn:HR.
  { left. repeat split. intros s' E. inversion E; subst. apply negb_true_iff. assumption. }
  right. apply negb_false_iff in HR.
  destruct (strms_search_In _ _ _ SS) as [_ Es].
  set (s1 := set_flags s (st_responded s) false (st_abandoned s)).
  pose proof (lite_finish_request _ enc_field cfg c s1 r Hd) as L.
  destruct (sloc_finish_request c s1 r) as [S HQ].
  destruct (finish_request enc_field c s1 r) as [[c1 s2] fin]. cbn [fst snd] in *.
  assert (Hd1 : sc_sl_done c1 = false) by (rewrite (lite_sl_done _ _ _ _ L); assumption).
  destruct S as (Si & So & Sr & Sp). cbn [s1 set_flags st_id st_orig st_handlerRunning st_responded] in Si, So, Sr, Sp.
  assert (RET : forall x, st_id x = st_id s2 -> st_orig x = st_orig s2 -> st_handlerRunning x = st_handlerRunning s2 ->
                          (st_responded s2 = true -> st_responded x = true) -> (Q s2 -> Q x) ->
                          mv (Some sid) c (put c1 x)).
  { intros x Xi Xo Xr Xp XQ. rewrite <- Es, <- Si, <- Xi.
    apply mv_returned with (old := s); rewrite ?Xi, ?Si, ?Es; try assumption; try congruence.
    - auto.
    - intro Qs. apply XQ, HQ. unfold s1. auto. }
  destruct fin.
  - set (x := set_state s2 SClosed).
    exists (put c1 x). split; [apply (RET x eq_refl eq_refl eq_refl (fun h => h) (HQ_closed s2))|].
    eapply mvs0_trans.
    + apply mvs0_one. apply mv_close with (old := x) (x := x); [rewrite sc_sl_done_put; assumption | | apply sloc_refl | auto].
      rewrite sc_strms_put. eapply search_put_same. rewrite (lite_strms _ _ _ _ L).
      change (st_id x) with (st_id s2). rewrite Si, Es. exact SS.
    + apply mvs_brk_if. rewrite sc_sl_done_close_stream, sc_sl_done_put. assumption.
  - exists (put c1 s2). split; [apply (RET s2 eq_refl eq_refl eq_refl (fun h => h) (fun h => h))|].
    apply mvs_brk_if. rewrite sc_sl_done_put. assumption.
Qed.

End Moves.
Arguments ids_ok {hstate}.
Arguments dispatchable x : simpl never.
