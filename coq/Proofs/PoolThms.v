(* Theorems about the connection pool model (Impl/ClientPool.v): over ALL event lists. *)
From Coq Require Import List NArith Bool Lia.
From H2V Require Import Impl.ClientPool.
Import ListNotations.
Open Scope N_scope.

(* ------------------------------------------------------------------ small facts *)

Lemma pl_mem_In l id : pl_mem l id = true <-> In id l.
Proof.
  induction l as [|x r IH]; cbn [pl_mem In]; [split; [discriminate|tauto]|].
  destruct (N.eqb_spec x id) as [E|E]; [subst; tauto|]. rewrite IH. split; [tauto|]. intros [H|H]; [congruence|exact H].
Qed.

Lemma pl_remove_In l id x : In x (pl_remove l id) -> In x l.
Proof.
  induction l as [|y r IH]; cbn [pl_remove]; [tauto|].
  destruct (N.eqb y id); cbn [In]; tauto.
Qed.

Lemma pl_remove_NoDup l id : NoDup l -> NoDup (pl_remove l id).
Proof.
  induction l as [|y r IH]; cbn [pl_remove]; intro H; [exact H|].
  inversion H as [|? ? Hn Hr]; subst. destruct (N.eqb y id); [exact Hr|].
  constructor; [intro Hi; apply Hn; eapply pl_remove_In; exact Hi | apply IH; exact Hr].
Qed.

Lemma pl_remove_not_In l id : NoDup l -> ~ In id (pl_remove l id).
Proof.
  induction l as [|y r IH]; cbn [pl_remove]; intro H; [tauto|].
  inversion H as [|? ? Hn Hr]; subst. destruct (N.eqb_spec y id) as [E|E]; [subst; exact Hn|].
  cbn [In]. intros [Hi|Hi]; [congruence | exact (IH Hr Hi)].
Qed.

Lemma pl_remove_length l id : (length (pl_remove l id) <= length l)%nat.
Proof. induction l as [|y r IH]; cbn [pl_remove length]; [lia|]. destruct (N.eqb y id); cbn [length]; lia. Qed.

Lemma pl_find_set_same st id f : (forall c, plc_id (f c) = plc_id c) ->
  pl_find (pl_set st id f) id = option_map f (pl_find st id).
Proof.
  intro Hf. induction st as [|c r IH]; cbn [pl_set pl_find option_map]; [reflexivity|].
  destruct (N.eqb_spec (plc_id c) id) as [E|E]; cbn [pl_find].
  - rewrite Hf. rewrite E, N.eqb_refl. reflexivity.
  - destruct (N.eqb_spec (plc_id c) id); [contradiction|]. exact IH.
Qed.

Lemma pl_find_set_other st id f x : (forall c, plc_id (f c) = plc_id c) -> x <> id ->
  pl_find (pl_set st id f) x = pl_find st x.
Proof.
  intros Hf Hx. induction st as [|c r IH]; cbn [pl_set pl_find]; [reflexivity|].
  destruct (N.eqb_spec (plc_id c) id) as [E|E]; cbn [pl_find].
  - rewrite Hf. destruct (N.eqb_spec (plc_id c) x); [congruence|reflexivity].
  - destruct (N.eqb (plc_id c) x); [reflexivity|exact IH].
Qed.

Lemma pl_set_ids st id f : (forall c, plc_id (f c) = plc_id c) -> map plc_id (pl_set st id f) = map plc_id st.
Proof.
  intro Hf. induction st as [|c r IH]; cbn [pl_set map]; [reflexivity|].
  destruct (N.eqb (plc_id c) id); cbn [map]; [rewrite Hf; reflexivity | rewrite IH; reflexivity].
Qed.

Lemma pl_find_Some_In st id c : pl_find st id = Some c -> In id (map plc_id st).
Proof.
  induction st as [|x r IH]; cbn [pl_find map In]; [discriminate|].
  destruct (N.eqb_spec (plc_id x) id); [tauto|]. intro H. right. exact (IH H).
Qed.

Lemma pl_find_In_Some st id : In id (map plc_id st) -> exists c, pl_find st id = Some c.
Proof.
  induction st as [|x r IH]; cbn [pl_find map In]; [tauto|].
  destruct (N.eqb_spec (plc_id x) id) as [E|E]; [eauto|]. intros [H|H]; [contradiction|exact (IH H)].
Qed.

Lemma mark_closed_id c : plc_id (pl_mark_closed c) = plc_id c. Proof. reflexivity. Qed.
Lemma mark_can_id b c : plc_id (pl_mark_can b c) = plc_id c. Proof. reflexivity. Qed.

(* ------------------------------------------------------------------ the walk of pickConn *)

Definition usable (p : pool) (id : N) : bool := negb (pl_is_closed p id) && pl_can_open p id.

Lemma pl_walk_stat_only p p' l : pl_stat p = pl_stat p' -> pl_walk p l = pl_walk p' l.
Proof.
  intro H. induction l as [|id r IH]; cbn [pl_walk]; [reflexivity|].
  unfold pl_is_closed, pl_can_open. rewrite H, IH. reflexivity.
Qed.

(* the full characterisation of the loop *)
Lemma pl_walk_spec p l : forall l' f, pl_walk p l = (l', f) ->
  match f with
  | Some id =>
      exists pre post, l = pre ++ id :: post /\ usable p id = true /\ (forall x, In x pre -> usable p x = false) /\
                       l' = filter (fun x => negb (pl_is_closed p x)) pre ++ id :: post
  | None => (forall x, In x l -> usable p x = false) /\ l' = filter (fun x => negb (pl_is_closed p x)) l
  end.
Proof.
  induction l as [|id r IH]; cbn [pl_walk]; intros l' f H.
  - inversion H; subst. split; [intros x []|reflexivity].
  - destruct (pl_is_closed p id) eqn:Hc.
    + specialize (IH _ _ H). destruct f as [x|].
      * destruct IH as (pre & post & E & U & P & L). exists (id :: pre), post. repeat split.
        -- rewrite E; reflexivity.
        -- exact U.
        -- intros y [Hy|Hy]; [subst; unfold usable; rewrite Hc; reflexivity | exact (P y Hy)].
        -- cbn [filter]. rewrite Hc. cbn [negb]. exact L.
      * destruct IH as (P & L). split.
        -- intros y [Hy|Hy]; [subst; unfold usable; rewrite Hc; reflexivity | exact (P y Hy)].
        -- cbn [filter]. rewrite Hc. cbn [negb]. exact L.
    + destruct (pl_can_open p id) eqn:Ho.
      * inversion H; subst. exists [], r. repeat split; [unfold usable; rewrite Hc, Ho; reflexivity | intros x []].
      * destruct (pl_walk p r) as [r' f'] eqn:W. inversion H; subst. specialize (IH _ _ eq_refl). destruct f as [x|].
        -- destruct IH as (pre & post & E & U & P & L). exists (id :: pre), post. repeat split.
           ++ rewrite E; reflexivity.
           ++ exact U.
           ++ intros y [Hy|Hy]; [subst; unfold usable; rewrite Hc, Ho; reflexivity | exact (P y Hy)].
           ++ cbn [filter]. rewrite Hc. cbn [negb app]. rewrite L. reflexivity.
        -- destruct IH as (P & L). split.
           ++ intros y [Hy|Hy]; [subst; unfold usable; rewrite Hc, Ho; reflexivity | exact (P y Hy)].
           ++ cbn [filter]. rewrite Hc. cbn [negb]. rewrite L. reflexivity.
Qed.

Lemma filter_sub {A} (g : A -> bool) l x : In x (filter g l) -> In x l.
Proof. intro H. apply filter_In in H. tauto. Qed.

Lemma filter_NoDup' {A} (g : A -> bool) l : NoDup l -> NoDup (filter g l).
Proof. apply NoDup_filter. Qed.

Lemma pl_walk_sub p l l' f x : pl_walk p l = (l', f) -> In x l' -> In x l.
Proof.
  intros W Hx. pose proof (pl_walk_spec p l l' f W) as S. destruct f as [id|].
  - destruct S as (pre & post & E & _ & _ & L). subst l l'. apply in_app_or in Hx. apply in_or_app.
    destruct Hx as [Hx|Hx]; [left; eapply filter_sub; exact Hx | right; exact Hx].
  - destruct S as (_ & L). subst l'. eapply filter_sub; exact Hx.
Qed.

Lemma NoDup_app_filter_l {A} (g : A -> bool) pre post : NoDup (pre ++ post) -> NoDup (filter g pre ++ post).
Proof.
  induction pre as [|a pre IH]; cbn [app filter]; intro H; [exact H|].
  inversion H as [|? ? Hn Hr]; subst. destruct (g a); [|exact (IH Hr)].
  cbn [app]. constructor; [|exact (IH Hr)]. intro Hi. apply Hn. apply in_app_or in Hi. apply in_or_app.
  destruct Hi as [Hi|Hi]; [left; eapply filter_sub; exact Hi | right; exact Hi].
Qed.

Lemma pl_walk_NoDup p l l' f : pl_walk p l = (l', f) -> NoDup l -> NoDup l'.
Proof.
  intros W H. pose proof (pl_walk_spec p l l' f W) as S. destruct f as [id|].
  - destruct S as (pre & post & E & _ & _ & L). subst l l'. apply NoDup_app_filter_l. exact H.
  - destruct S as (_ & L). subst l'. apply NoDup_filter. exact H.
Qed.

Lemma pl_walk_length p l l' f : pl_walk p l = (l', f) -> (length l' <= length l)%nat.
Proof.
  revert l' f. induction l as [|id r IH]; cbn [pl_walk]; intros l' f H.
  - inversion H; subst; cbn; lia.
  - destruct (pl_is_closed p id).
    + specialize (IH _ _ H). cbn [length]. lia.
    + destruct (pl_can_open p id).
      * inversion H; subst. lia.
      * destruct (pl_walk p r) as [r' f'] eqn:W. inversion H; subst. specialize (IH _ _ eq_refl). cbn [length]. lia.
Qed.

(* ------------------------------------------------------------------ invariant *)

Record Inv (p : pool) : Prop := {
  inv_nodup : NoDup (pl_conns p);
  inv_known : forall id, In id (pl_conns p) -> In id (map plc_id (pl_stat p));
  inv_fresh : forall id, In id (map plc_id (pl_stat p)) -> id < pl_next p;
  inv_ids : NoDup (map plc_id (pl_stat p));
  inv_closed_empty : pl_closed p = true -> pl_conns p = [];
  inv_closing : forall id, In id (pl_closing p) -> In id (map plc_id (pl_stat p)) /\ pl_is_closed p id = true;
}.

Lemma Inv_init : Inv pl_init.
Proof. constructor; cbn; try constructor; try tauto; try discriminate. Qed.

Lemma Inv_create_conn p d q c o : Inv p -> pl_closed p = false -> pl_create_conn p d = (q, c, o) -> Inv q.
Proof.
  intros I Hc H. destruct I as [I1 I2 I3 I4 I5 I6]. destruct d; cbn [pl_create_conn] in H; inversion H; subst; clear H.
  - constructor; cbn [pl_closed pl_conns pl_stat pl_closing pl_next map plc_id].
    + constructor; [|exact I1]. intro Hi. apply I2, I3 in Hi. lia.
    + intros id [E|Hi]; [left; exact E | right; exact (I2 id Hi)].
    + intros id [E|Hi]; [subst; lia | specialize (I3 id Hi); lia].
    + constructor; [|exact I4]. intro Hi. apply I3 in Hi. lia.
    + rewrite Hc. discriminate.
    + intros id Hi. destruct (I6 id Hi) as [K C]. split; [right; exact K|].
      unfold pl_is_closed in *. cbn [pl_stat pl_find plc_id].
      destruct (N.eqb_spec (pl_next p) id) as [E|E]; [|exact C]. subst id. apply I3 in K. lia.
  - constructor; assumption.
  - constructor; cbn [pl_closed pl_conns pl_stat pl_closing pl_next]; try assumption.
    intros id Hi. specialize (I3 id Hi). lia.
Qed.

Lemma Inv_upd_conns p l : Inv p -> NoDup l -> (forall x, In x l -> In x (pl_conns p)) -> Inv (pl_upd_conns p l).
Proof.
  intros [I1 I2 I3 I4 I5 I6] N S. constructor; cbn [pl_upd_conns pl_closed pl_conns pl_stat pl_closing pl_next]; try assumption.
  - intros id Hi. exact (I2 id (S id Hi)).
  - intro Hc. specialize (I5 Hc). destruct l as [|x r]; [reflexivity|]. specialize (S x (or_introl eq_refl)). rewrite I5 in S. destruct S.
Qed.

Lemma is_closed_set_closed p id x :
  pl_is_closed p x = true -> pl_is_closed (pl_upd_stat p (pl_set (pl_stat p) id pl_mark_closed)) x = true.
Proof.
  unfold pl_is_closed. cbn [pl_upd_stat pl_stat]. destruct (N.eq_dec x id) as [E|E].
  - subst. rewrite pl_find_set_same by exact mark_closed_id. destruct (pl_find (pl_stat p) id); cbn; [reflexivity|reflexivity].
  - rewrite pl_find_set_other by (try exact mark_closed_id; exact E). tauto.
Qed.

Lemma Inv_upd_stat_closed p id : Inv p -> Inv (pl_upd_stat p (pl_set (pl_stat p) id pl_mark_closed)).
Proof.
  intros [I1 I2 I3 I4 I5 I6]. constructor; cbn [pl_upd_stat pl_closed pl_conns pl_stat pl_closing pl_next]; try assumption;
    try (rewrite pl_set_ids by exact mark_closed_id; assumption).
  intros x Hx. destruct (I6 x Hx) as [K C]. split; [rewrite pl_set_ids by exact mark_closed_id; exact K|].
  apply (is_closed_set_closed p id x C).
Qed.

Lemma is_closed_set_can p id b x :
  pl_is_closed (pl_upd_stat p (pl_set (pl_stat p) id (pl_mark_can b))) x = pl_is_closed p x.
Proof.
  unfold pl_is_closed. cbn [pl_upd_stat pl_stat]. destruct (N.eq_dec x id) as [E|E].
  - subst. rewrite pl_find_set_same by apply mark_can_id. destruct (pl_find (pl_stat p) id); reflexivity.
  - rewrite pl_find_set_other by (try apply mark_can_id; exact E). reflexivity.
Qed.

Lemma Inv_upd_stat_can p id b : Inv p -> Inv (pl_upd_stat p (pl_set (pl_stat p) id (pl_mark_can b))).
Proof.
  intros [I1 I2 I3 I4 I5 I6]. constructor; cbn [pl_upd_stat pl_closed pl_conns pl_stat pl_closing pl_next]; try assumption;
    try (rewrite pl_set_ids by apply mark_can_id; assumption).
  intros x Hx. destruct (I6 x Hx) as [K C]. split; [rewrite pl_set_ids by apply mark_can_id; exact K|].
  rewrite (is_closed_set_can p id b x). exact C.
Qed.

Lemma Inv_upd_closing p l : Inv p -> (forall x, In x l -> In x (map plc_id (pl_stat p)) /\ pl_is_closed p x = true) -> Inv (pl_upd_closing p l).
Proof. intros [I1 I2 I3 I4 I5 I6] H. constructor; cbn [pl_upd_closing pl_closed pl_conns pl_stat pl_closing pl_next]; assumption. Qed.

Lemma Inv_pick p d q r o : Inv p -> pl_pick_conn p d = (q, r, o) -> Inv q.
Proof.
  intros I H. unfold pl_pick_conn in H. destruct (pl_closed p) eqn:Hc; [inversion H; subst; exact I|].
  destruct (pl_walk p (pl_conns p)) as [l f] eqn:W.
  assert (I1 : Inv (pl_upd_conns p l)).
  { apply Inv_upd_conns; [exact I | eapply pl_walk_NoDup; [exact W | exact (inv_nodup p I)] | intros x Hx; eapply pl_walk_sub; eassumption]. }
  destruct f as [id|]; [inversion H; subst; exact I1|].
  destruct (pl_create_conn (pl_upd_conns p l) d) as [[p2 c] o2] eqn:C. inversion H; subst.
  eapply Inv_create_conn; [exact I1 | exact Hc | exact C].
Qed.

Lemma Inv_on_dropped p id d q o : Inv p -> pl_on_dropped p id d = (q, o) -> Inv q.
Proof.
  intros I H. unfold pl_on_dropped in H. destruct (pl_closed p) eqn:Hc; [inversion H; subst; exact I|].
  destruct (pl_mem (pl_conns p) id); [|inversion H; subst; exact I].
  destruct (pl_create_conn (pl_upd_conns p (pl_remove (pl_conns p) id)) d) as [[p1 c] o1] eqn:C. inversion H; subst.
  refine (Inv_create_conn (pl_upd_conns p (pl_remove (pl_conns p) id)) _ _ _ _ _ Hc C).
  apply Inv_upd_conns; [exact I | apply pl_remove_NoDup; exact (inv_nodup p I) | intros x; apply pl_remove_In].
Qed.

Lemma Inv_close_begin p id q o : Inv p -> pl_close_begin p id = (q, o) -> Inv q.
Proof.
  intros I H. unfold pl_close_begin in H. destruct (pl_find (pl_stat p) id) as [c|] eqn:F; [|inversion H; subst; exact I].
  destruct (plc_closed c) eqn:Hc; inversion H; subst; [exact I|].
  apply Inv_upd_closing; [apply Inv_upd_stat_closed; exact I|].
  intros x [E|Hx].
  - subst x. cbn [pl_upd_stat pl_stat]. split.
    + rewrite pl_set_ids by exact mark_closed_id. eapply pl_find_Some_In; exact F.
    + unfold pl_is_closed. cbn [pl_upd_stat pl_stat]. rewrite pl_find_set_same by exact mark_closed_id. rewrite F. reflexivity.
  - destruct (inv_closing p I x Hx) as [K C]. split.
    + cbn [pl_upd_stat pl_stat]. rewrite pl_set_ids by exact mark_closed_id. exact K.
    + apply is_closed_set_closed. exact C.
Qed.

Lemma Inv_close_end p id d q o : Inv p -> pl_close_end p id d = (q, o) -> Inv q.
Proof.
  intros I H. unfold pl_close_end in H. destruct (pl_mem (pl_closing p) id); [|inversion H; subst; exact I].
  eapply Inv_on_dropped; [|exact H]. apply Inv_upd_closing; [exact I|].
  intros x Hx. apply (inv_closing p I). eapply pl_remove_In; exact Hx.
Qed.

Lemma close_all_fields p l q o : pl_close_all p l = (q, o) ->
  pl_closed q = pl_closed p /\ pl_conns q = pl_conns p /\ pl_closing q = pl_closing p /\ pl_next q = pl_next p /\
  map plc_id (pl_stat q) = map plc_id (pl_stat p) /\ (forall x, pl_is_closed p x = true -> pl_is_closed q x = true) /\
  (forall x, In x l -> pl_is_closed q x = true).
Proof.
  revert p q o. induction l as [|id r IH]; cbn [pl_close_all]; intros p q o H.
  - inversion H; subst. repeat split; try tauto. intros x [].
  - destruct (pl_is_closed p id) eqn:Hc.
    + destruct (IH _ _ _ H) as (A & B & C & D & E & F & G). repeat split; try assumption.
      intros x [Hx|Hx]; [subst; apply F; exact Hc | exact (G x Hx)].
    + destruct (pl_close_all (pl_upd_stat p (pl_set (pl_stat p) id pl_mark_closed)) r) as [p1 o1] eqn:R. inversion H; subst.
      destruct (IH _ _ _ R) as (A & B & C & D & E & F & G). cbn [pl_upd_stat pl_closed pl_conns pl_stat pl_closing pl_next] in *.
      repeat split; try assumption.
      * rewrite E. apply pl_set_ids. exact mark_closed_id.
      * intros x Hx. apply F. apply is_closed_set_closed. exact Hx.
      * intros x [Hx|Hx]; [|exact (G x Hx)]. subst x. apply F.
        unfold pl_is_closed in *. cbn [pl_upd_stat pl_stat]. rewrite pl_find_set_same by exact mark_closed_id.
        destruct (pl_find (pl_stat p) id); reflexivity.
Qed.

Lemma Inv_client_close p q o : Inv p -> pl_client_close p = (q, o) -> Inv q.
Proof.
  intros I H. unfold pl_client_close in H. destruct (pl_closed p) eqn:Hc; [inversion H; subst; exact I|].
  destruct (close_all_fields _ _ _ _ H) as (A & B & C & D & E & F & G).
  cbn [pl_closed pl_conns pl_stat pl_closing pl_next] in *. destruct I as [I1 I2 I3 I4 I5 I6].
  constructor.
  - rewrite B. constructor.
  - rewrite B. intros id [].
  - rewrite E, D. exact I3.
  - rewrite E. exact I4.
  - intros _. exact B.
  - rewrite C, E. intros id Hi. destruct (I6 id Hi) as [K Cl]. split; [exact K|]. apply F. exact Cl.
Qed.

Lemma Inv_step p e : Inv p -> Inv (pl_state_of (pl_step p e)).
Proof.
  intro I. unfold pl_state_of. destruct e as [d|id b|id|id d|]; cbn [pl_step].
  - destruct (pl_pick_conn p d) as [[q r] o] eqn:H. cbn [fst]. eapply Inv_pick; eassumption.
  - cbn [fst]. apply Inv_upd_stat_can. exact I.
  - destruct (pl_close_begin p id) as [q o] eqn:H. cbn [fst]. eapply Inv_close_begin; eassumption.
  - destruct (pl_close_end p id d) as [q o] eqn:H. cbn [fst]. eapply Inv_close_end; eassumption.
  - destruct (pl_client_close p) as [q o] eqn:H. cbn [fst]. eapply Inv_client_close; eassumption.
Qed.

Lemma Inv_run_from p evs : Inv p -> Inv (pl_run_from p evs).
Proof.
  revert p. induction evs as [|e r IH]; intros p I; [exact I|]. cbn [pl_run_from fold_left]. apply IH. apply Inv_step. exact I.
Qed.

Theorem Inv_run evs : Inv (pl_run evs).
Proof. apply Inv_run_from. exact Inv_init. Qed.

(* ------------------------------------------------------------------ pickConn *)

Definition open_only (p : pool) (l : list N) : list N := filter (fun x => negb (pl_is_closed p x)) l.

Definition pick_post (p : pool) (d : pl_dial) (q : pool) (r : pl_res) (o : list pl_out) : Prop :=
  match r with
  | PRErrClosed => pl_closed p = true /\ q = p /\ o = []
  | PRConn id =>
      pl_closed p = false /\ pl_closed q = false /\
      ((o = [] /\ exists pre post, pl_conns p = pre ++ id :: post /\ usable p id = true /\
                   (forall x, In x pre -> usable p x = false) /\ pl_conns q = open_only p pre ++ id :: post)
       \/ (o = [PODial PDialOk (Some id)] /\ d = PDialOk /\ id = pl_next p /\ ~ In id (pl_conns p) /\
           (forall x, In x (pl_conns p) -> usable p x = false) /\
           pl_conns q = id :: open_only p (pl_conns p) /\ usable q id = true))
  | PRErrDial =>
      pl_closed p = false /\ d <> PDialOk /\ (forall x, In x (pl_conns p) -> usable p x = false) /\
      pl_conns q = open_only p (pl_conns p) /\
      o = match d with PDialHsFail => [PODial d (Some (pl_next p)); POShut (pl_next p)] | _ => [PODial d None] end
  | PRNone => False
  end.

Lemma pick_spec p d q r o : Inv p -> pl_pick_conn p d = (q, r, o) -> pick_post p d q r o.
Proof.
  intros I H. unfold pl_pick_conn in H. destruct (pl_closed p) eqn:Hc.
  { inversion H; subst. cbn. auto. }
  destruct (pl_walk p (pl_conns p)) as [l f] eqn:W. pose proof (pl_walk_spec _ _ _ _ W) as S.
  destruct f as [id|].
  - inversion H; subst. destruct S as (pre & post & E & U & P & L). cbn [pick_post]. split; [exact Hc|]. split; [exact Hc|].
    left. split; [reflexivity|]. exists pre, post. cbn [pl_upd_conns pl_conns]. auto.
  - destruct S as (P & L). destruct d; cbn [pl_create_conn] in H; inversion H; subst; clear H; cbn [pick_post pl_upd_conns pl_conns pl_closed pl_next].
    + split; [exact Hc|]. split; [exact Hc|]. right. repeat split; try reflexivity; try exact P.
      * intro Hi. apply (inv_known p I), (inv_fresh p I) in Hi. lia.
      * unfold usable, pl_is_closed, pl_can_open. cbn [pl_stat pl_find plc_id]. rewrite N.eqb_refl. reflexivity.
    + repeat split; try reflexivity; try exact P; try exact Hc. discriminate.
    + repeat split; try reflexivity; try exact P; try exact Hc. discriminate.
Qed.

Lemma pick_never_none p d q o : pl_pick_conn p d <> (q, PRNone, o).
Proof.
  unfold pl_pick_conn. destruct (pl_closed p); [congruence|]. destruct (pl_walk p (pl_conns p)) as [l [id|]]; [congruence|].
  destruct d; cbn [pl_create_conn]; congruence.
Qed.

(* every reachable state: what pickConn gives a caller *)
Theorem pick_conn_run evs d q r o : pl_pick_conn (pl_run evs) d = (q, r, o) -> pick_post (pl_run evs) d q r o.
Proof. apply pick_spec. apply Inv_run. Qed.

(* the connection a caller gets is open and has room, or has just been dialed *)
Corollary pick_conn_has_room evs d q id o : pl_pick_conn (pl_run evs) d = (q, PRConn id, o) ->
  (In id (pl_conns (pl_run evs)) /\ pl_is_closed (pl_run evs) id = false /\ pl_can_open (pl_run evs) id = true /\ o = [])
  \/ (~ In id (pl_conns (pl_run evs)) /\ o = [PODial PDialOk (Some id)] /\ pl_is_closed q id = false /\ pl_can_open q id = true).
Proof.
  intro H. apply pick_conn_run in H. cbn [pick_post] in H. destruct H as (_ & _ & [(E & pre & post & L & U & _)|(E & _ & _ & N & _ & _ & U)]).
  - left. unfold usable in U. apply andb_prop in U. destruct U as [U1 U2]. apply negb_true_iff in U1.
    repeat split; try assumption. rewrite L. apply in_or_app. right. left. reflexivity.
  - right. unfold usable in U. apply andb_prop in U. destruct U as [U1 U2]. apply negb_true_iff in U1. auto.
Qed.

(* ------------------------------------------------------------------ dials *)

Definition is_dial (o : pl_out) : bool := match o with PODial _ _ => true | POShut _ => false end.
Definition dials (o : list pl_out) : nat := length (filter is_dial o).

Lemma create_conn_dials p d q c o : pl_create_conn p d = (q, c, o) -> dials o = 1%nat /\ pl_closed q = pl_closed p.
Proof. destruct d; cbn [pl_create_conn]; intro H; inversion H; subst; split; reflexivity. Qed.

Lemma close_all_dials p l q o : pl_close_all p l = (q, o) -> dials o = 0%nat.
Proof.
  revert p q o. induction l as [|id r IH]; cbn [pl_close_all]; intros p q o H; [inversion H; reflexivity|].
  destruct (pl_is_closed p id); [exact (IH _ _ _ H)|].
  destruct (pl_close_all (pl_upd_stat p (pl_set (pl_stat p) id pl_mark_closed)) r) as [p1 o1] eqn:R. inversion H; subst.
  unfold dials. cbn [filter is_dial]. exact (IH _ _ _ R).
Qed.

Lemma on_dropped_dials p id d q o : pl_on_dropped p id d = (q, o) ->
  pl_closed q = pl_closed p /\ (dials o <= 1)%nat /\ (pl_closed p = true -> o = [] /\ q = p).
Proof.
  unfold pl_on_dropped. destruct (pl_closed p) eqn:Hc.
  { intro H; inversion H; subst. rewrite Hc. cbn. auto. }
  destruct (pl_mem (pl_conns p) id).
  2:{ intro H; inversion H; subst. rewrite Hc. cbn. repeat split; auto; discriminate. }
  destruct (pl_create_conn (pl_upd_conns p (pl_remove (pl_conns p) id)) d) as [[p1 c] o1] eqn:C. intro H. inversion H; subst.
  destruct (create_conn_dials _ _ _ _ _ C) as [D E]. cbn [pl_upd_conns pl_closed] in E. rewrite E, D.
  split; [exact Hc|]. split; [lia|]. discriminate.
Qed.

(* one step: at most one dial; a closed client stays closed, holds nothing and dials nothing *)
Lemma step_dials p e : Inv p ->
  let '(q, r, o) := pl_step p e in
  (dials o <= 1)%nat /\ (pl_closed p = true -> pl_closed q = true /\ pl_conns q = [] /\ dials o = 0%nat).
Proof.
  intro I. destruct e as [d|id b|id|id d|]; cbn [pl_step].
  - destruct (pl_pick_conn p d) as [[q r] o] eqn:H. pose proof (pick_spec _ _ _ _ _ I H) as S. destruct r; cbn [pick_post] in S.
    + destruct S as (Hc & _ & [(E & _)|(E & _)]); subst o; cbn; split; try lia; intro X; congruence.
    + destruct S as (Hc & E1 & E2). subst. cbn. split; [lia|]. intros _. repeat split; auto. exact (inv_closed_empty p I Hc).
    + destruct S as (Hc & _ & _ & _ & E). subst o. split; [destruct d; cbn; lia|]. intro X; congruence.
    + destruct S.
  - cbn. split; [lia|]. intro Hc. repeat split; auto. exact (inv_closed_empty p I Hc).
  - destruct (pl_close_begin p id) as [q o] eqn:H. unfold pl_close_begin in H.
    destruct (pl_find (pl_stat p) id) as [c|]; [destruct (plc_closed c)|]; inversion H; subst; cbn; (split; [lia|]); intro Hc;
      repeat split; auto; match goal with I0 : Inv ?x |- _ => exact (inv_closed_empty x I0 Hc) end.
  - destruct (pl_close_end p id d) as [q o] eqn:H. unfold pl_close_end in H. destruct (pl_mem (pl_closing p) id).
    + destruct (on_dropped_dials _ _ _ _ _ H) as (A & B & C). cbn [pl_upd_closing pl_closed] in *. split; [exact B|].
      intro Hc. destruct (C Hc) as [E1 E2]. rewrite E1, E2. cbn [pl_upd_closing pl_closed pl_conns]. repeat split; auto. exact (inv_closed_empty p I Hc).
    + inversion H; subst. cbn. split; [lia|]. intro Hc. repeat split; auto. match goal with I0 : Inv ?x |- _ => exact (inv_closed_empty x I0 Hc) end.
  - destruct (pl_client_close p) as [q o] eqn:H. unfold pl_client_close in H. destruct (pl_closed p) eqn:Hc.
    + inversion H; subst. cbn. split; [lia|]. intros _. repeat split; auto. exact (inv_closed_empty q I Hc).
    + rewrite (close_all_dials _ _ _ _ H). split; [lia|]. discriminate.
Qed.

Lemma outs_after_close p evs : Inv p -> pl_closed p = true ->
  dials (pl_outs_from p evs) = 0%nat /\ pl_closed (pl_run_from p evs) = true /\ pl_conns (pl_run_from p evs) = [].
Proof.
  revert p. induction evs as [|e r IH]; intros p I Hc.
  - cbn. repeat split; auto. exact (inv_closed_empty p I Hc).
  - cbn [pl_outs_from pl_run_from fold_left]. pose proof (step_dials p e I) as S. pose proof (Inv_step p e I) as I'.
    unfold pl_state_of in *. destruct (pl_step p e) as [[q r0] o]. cbn [fst] in *. destruct S as (_ & S). destruct (S Hc) as (A & B & C).
    destruct (IH q I' A) as (D & E & F). repeat split; auto. unfold dials in *. rewrite filter_app, app_length. lia.
Qed.

(* once Client.Close has run the client never dials again and holds no connection, whatever happens next *)
Theorem closed_client_stays_closed evs1 evs2 : pl_closed (pl_run evs1) = true ->
  dials (pl_outs_from (pl_run evs1) evs2) = 0%nat /\ pl_closed (pl_run_from (pl_run evs1) evs2) = true /\
  pl_conns (pl_run_from (pl_run evs1) evs2) = [].
Proof. apply outs_after_close. apply Inv_run. Qed.

(* every dial of a run is made by a pickConn that found nothing usable or replaces a dropped connection *)
Definition may_dial (e : pl_event) : bool := match e with PEvPick _ | PEvCloseEnd _ _ => true | _ => false end.

Lemma step_dials_cause p e : let '(q, r, o) := pl_step p e in may_dial e = false -> dials o = 0%nat.
Proof.
  destruct e as [d|id b|id|id d|]; cbn [pl_step may_dial].
  - destruct (pl_pick_conn p d) as [[q r] o]. discriminate.
  - reflexivity.
  - destruct (pl_close_begin p id) as [q o] eqn:H. intros _. unfold pl_close_begin in H.
    destruct (pl_find (pl_stat p) id) as [c|]; [destruct (plc_closed c)|]; inversion H; reflexivity.
  - destruct (pl_close_end p id d) as [q o]. discriminate.
  - destruct (pl_client_close p) as [q o] eqn:H. intros _. unfold pl_client_close in H. destruct (pl_closed p); [inversion H; reflexivity|].
    exact (close_all_dials _ _ _ _ H).
Qed.

Lemma dial_budget_from p evs : Inv p -> (dials (pl_outs_from p evs) <= length (filter may_dial evs))%nat.
Proof.
  revert p. induction evs as [|e r IH]; intros p I; [cbn; lia|].
  cbn [pl_outs_from filter]. pose proof (step_dials p e I) as S. pose proof (step_dials_cause p e) as S2. pose proof (Inv_step p e I) as I'.
  unfold pl_state_of in I'. destruct (pl_step p e) as [[q r0] o]. cbn [fst] in I'. destruct S as (S & _). specialize (IH q I').
  unfold dials in *. rewrite filter_app, app_length. destruct (may_dial e); cbn [length]; [lia|]. rewrite (S2 eq_refl). lia.
Qed.

Theorem dial_budget evs : (dials (pl_outs_from pl_init evs) <= length (filter may_dial evs))%nat.
Proof. apply dial_budget_from. exact Inv_init. Qed.

(* ------------------------------------------------------------------ Client.Close *)

Theorem client_close_spec evs q o : pl_client_close (pl_run evs) = (q, o) -> pl_closed (pl_run evs) = false ->
  pl_closed q = true /\ pl_conns q = [] /\ dials o = 0%nat /\
  (forall id, In id (pl_conns (pl_run evs)) -> pl_is_closed q id = true).
Proof.
  intros H Hc. unfold pl_client_close in H. rewrite Hc in H.
  destruct (close_all_fields _ _ _ _ H) as (A & B & _ & _ & _ & _ & G). cbn [pl_closed pl_conns] in *.
  repeat split; auto. exact (close_all_dials _ _ _ _ H).
Qed.

(* ------------------------------------------------------------------ a dropped connection *)

Theorem dropped_replaced evs id d q o : let p := pl_run evs in
  pl_on_dropped p id d = (q, o) -> pl_closed p = false -> In id (pl_conns p) ->
  ~ In id (pl_conns q) /\ dials o = 1%nat /\
  (forall x, In x (pl_conns q) -> x = pl_next p \/ In x (pl_conns p)).
Proof.
  intros p H Hc Hi. pose proof (Inv_run evs) as I. fold p in I. unfold pl_on_dropped in H. rewrite Hc in H.
  rewrite (proj2 (pl_mem_In (pl_conns p) id) Hi) in H.
  pose proof (pl_remove_not_In (pl_conns p) id (inv_nodup p I)) as NI.
  assert (F : ~ In (pl_next p) (pl_conns p)).
  { intro X. apply (inv_known p I), (inv_fresh p I) in X. lia. }
  destruct d; cbn [pl_create_conn pl_upd_conns pl_conns pl_next] in H; inversion H; subst q o; cbn [pl_conns]; repeat split; try reflexivity.
  - intros [E|X]; [|exact (NI X)]. apply F. rewrite E. exact Hi.
  - intros x [E|X]; [left; symmetry; exact E | right; eapply pl_remove_In; exact X].
  - exact NI.
  - intros x X. right. eapply pl_remove_In; exact X.
  - exact NI.
  - intros x X. right. eapply pl_remove_In; exact X.
Qed.

(* ------------------------------------------------------------------ examples (hypotheses are met) *)

Definition ex_evs : list pl_event :=
  [PEvPick PDialOk; PEvSetCan 0 false; PEvPick PDialOk; PEvCloseBegin 1; PEvPick PDialHsFail; PEvCloseEnd 1 PDialOk; PEvSetCan 0 true].

Example ex_state : pl_conns (pl_run ex_evs) = [0] /\ pl_next (pl_run ex_evs) = 3 /\ pl_closed (pl_run ex_evs) = false.
Proof. vm_compute. auto. Qed.

Example ex_pick : exists q, pl_pick_conn (pl_run ex_evs) PDialErr = (q, PRConn 0, []).
Proof. eexists. vm_compute. reflexivity. Qed.

Example ex_outs : pl_outs_from pl_init ex_evs =
  [PODial PDialOk (Some 0); PODial PDialOk (Some 1); POShut 1; PODial PDialHsFail (Some 2); POShut 2].
Proof. vm_compute. reflexivity. Qed.

Example ex_closed : pl_closed (pl_run (ex_evs ++ [PEvClientClose])) = true.
Proof. vm_compute. reflexivity. Qed.
