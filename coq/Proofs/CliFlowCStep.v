(* Proofs/CliFlowCStep.v - C07, "and finishes": the bookkeeping Bk through writeRequest, the write loop's select
   cases and every step of the model. *)
From H2V Require Import Base.Bytes Base.MachineInt Base.Result Gen.GenConsts Impl.ServerConn Impl.ClientConn
     Proofs.CliDefs Spec.FlowLedger Proofs.CliFlowMoves Proofs.CliFlowOut Proofs.CliFlowSettings Proofs.CliFlowSafe Proofs.CliFlowEs
     Proofs.CliFlowStall Proofs.CliFlowCBody Proofs.CliFlowCInv Proofs.CliFlowCSend.
From Coq Require Import ZArith Lia ZifyN ZifyNat ZifyBool List Bool.
Import ListNotations.
Local Open Scope N_scope.

Lemma no_frames id out : (forall o sid, In o out -> frame_sid o = Some sid -> sid <> id) ->
  dbytes id out = [] /\ esn id out = 0%nat.
Proof.
  induction out as [|o t IH]; intro H; [split; reflexivity|]. cbn [dbytes esn].
  destruct IH as [A B]; [intros o1 sid HI; apply H; right; exact HI|]. rewrite A, B.
  assert (X : forall sid, frame_sid o = Some sid -> sid <> id) by (intros sid; apply H; left; reflexivity).
  destruct o; cbn [o_data o_es app Nat.add]; try (split; reflexivity).
  - specialize (X sid eq_refl). apply N.eqb_neq in X. rewrite X. split; reflexivity.
  - specialize (X sid eq_refl). apply N.eqb_neq in X. rewrite X. split; reflexivity.
Qed.

Section Step.
Variable hstate : Type.
Variable dec_field : hstate -> N -> bytes -> dec_res hstate.
Variable enc_field : hstate -> bytes -> bytes -> bool -> bytes * hstate.
Variable enc_set_max : hstate -> N -> hstate.
Variable cfg : cl_config.
Notation cconn := (cconn hstate).
Notation move := (move hstate).
Notation apply := (apply hstate enc_field enc_set_max).
Notation valid := (valid hstate).
Notation items := (items hstate).
Notation mvs := (mvs enc_field enc_set_max).
Notation D := (D enc_field enc_set_max).
Notation step := (cl_step dec_field enc_field enc_set_max cfg).
Notation Bk := (Bk hstate).
Notation pget := (pget hstate).
Notation untouched := (untouched hstate).
Notation Dstep := (D_step hstate enc_field enc_set_max).
Notation Dany := (D_any hstate enc_field enc_set_max).
Notation Dtrans0 := (D_trans0 hstate enc_field enc_set_max).
Notation Drefl := (D_refl hstate enc_field enc_set_max).
Notation Bk_any := (Bk_any hstate).
Notation Bk_not := (Bk_not hstate).

(* a stream that has not been opened yet *)
Lemma fresh_id (c : cconn) id : ES hstate c -> cc_nextID c <= id ->
  dbytes id (cc_out c) = [] /\ esn id (cc_out c) = 0%nat /\ pget c id = None.
Proof.
  intros E LE. destruct (no_frames id (cc_out c)) as [A B].
  { intros o sid HI F. pose proof (es_ids _ _ E o sid HI F). lia. }
  split; [exact A|]. split; [exact B|]. unfold CliFlowCInv.pget.
  destruct (cl_pend_get (cc_pending c) id) as [pb|] eqn:G; [|reflexivity].
  apply pend_get_In in G. destruct G as [HI EI]. pose proof (es_fresh _ _ E pb HI). lia.
Qed.

(* moves that are neither a critical section nor a HEADERS write *)
Definition plainm (m : move) : Prop := match m with MSend _ _ | MSendBack _ | MHeaders _ _ => False | _ => True end.

Lemma anym_plainm (m : move) : anym m -> plainm m.
Proof. destruct m; cbn; auto. Qed.

Lemma plainm_untouched id (m : move) : plainm m -> untouched id m.
Proof. destruct m; cbn; auto. Qed.

Lemma plain_items id m (c : cconn) : valid m c -> ES hstate c -> plainm m -> dbl id (items m c) = [] /\ esl id (items m c) = 0%nat.
Proof.
  intros V E P. destruct m; cbn [CliFlowOut.items]; try (split; reflexivity); try destruct P.
  - destruct (quietb o) eqn:Q; [|split; reflexivity]. apply dbl_nostream. constructor; [|constructor]. destruct o; try discriminate; exact I.
  - destruct (cc_outQ c) as [|o q] eqn:Q; [split; reflexivity|]. apply dbl_nostream. constructor; [|constructor].
    pose proof (es_q _ _ E) as QQ. rewrite Q in QQ. inversion QQ as [|? ? QO QT]. destruct o; try contradiction; exact I.
Qed.

Lemma mvs_plain_out id (c : cconn) ms c' : mvs c ms c' -> Forall plainm ms -> ES hstate c ->
  dbytes id (cc_out c') = dbytes id (cc_out c) /\ esn id (cc_out c') = esn id (cc_out c).
Proof.
  induction 1 as [c|c m ms c' V M IH]; intros F E; [split; reflexivity|]. inversion F; subst.
  destruct (IH H2 (mv_ES hstate enc_field enc_set_max m c V E)) as [A B]. rewrite A, B.
  destruct (plain_items id m c V E H1) as [I1 I2].
  rewrite (out_apply hstate enc_field enc_set_max), dbytes_app, esn_app, I1, I2, app_nil_r, Nat.add_0_r. split; reflexivity.
Qed.

Lemma D_plain_out (P : move -> Prop) g id (c c' : cconn) : D P g c c' -> (forall m, P m -> plainm m) -> ES hstate c ->
  dbytes id (cc_out c') = dbytes id (cc_out c) /\ esn id (cc_out c') = esn id (cc_out c).
Proof. intros (ms & M & F & _) H E. apply (mvs_plain_out id c ms c' M); [|exact E]. eapply Forall_impl; [|exact F]. exact H. Qed.

(* all streams at once *)
Definition Inv (c0 c : cconn) : Prop := ES hstate c /\ forall B ok id, Bk True B ok id c0 -> Bk True B ok id c.

Lemma Inv_refl (c : cconn) : ES hstate c -> Inv c c.
Proof. intro E. split; auto. Qed.

Lemma Inv_D (P : move -> Prop) g (c0 c c' : cconn) : D P g c c' -> (forall m, P m -> forall id, untouched id m) -> Inv c0 c -> Inv c0 c'.
Proof.
  intros DD H [E K]. split; [eapply D_ES; eassumption|]. intros B ok id K0.
  apply (D_Bk hstate enc_field enc_set_max P g True B ok id c c' DD); [intros m Pm; apply H; exact Pm | exact E | apply K; exact K0].
Qed.

Lemma Inv_mv (c0 : cconn) m (c : cconn) : valid m c -> (forall id, untouched id m) -> Inv c0 c -> Inv c0 (apply m c).
Proof.
  intros V U [E K]. split; [apply mv_ES; assumption|]. intros B ok id K0. apply mv_Bk; auto.
Qed.

Lemma Inv_same (c0 c c' : cconn) : cc_nextID c' = cc_nextID c -> cc_out c' = cc_out c -> cc_outQ c' = cc_outQ c ->
  cc_pending c' = cc_pending c -> Inv c0 c -> Inv c0 c'.
Proof.
  intros A B Q P [E K]. split; [apply (ES_same hstate c); auto; rewrite Q; auto|]. intros B0 ok id K0.
  apply (Bk_frame hstate True True B0 ok id c).
  - rewrite A. apply N.le_refl.
  - rewrite B. reflexivity.
  - rewrite B. reflexivity.
  - unfold CliFlowCInv.pget. rewrite P. intros pb' G. exists pb'. split; [exact G | split; reflexivity].
  - auto.
  - apply K. exact K0.
Qed.

(* ---------- HEADERS opens the stream ---------- *)

Lemma Bk_open_body (c : cconn) blk pb : ES hstate c -> valid (MHeaders blk (Some pb)) c ->
  Bk True (pb_all pb) (pb_ok pb) (cc_nextID c) (apply (MHeaders blk (Some pb)) c).
Proof.
  intros E (_ & IDS & _ & _ & _ & PB & _). destruct (PB pb eq_refl) as [PI _].
  destruct (fresh_id c (cc_nextID c) E (N.le_refl _)) as (A & B & G).
  cbn [CliFlowMoves.apply]. rewrite (u32_next _ IDS).
  assert (PG : cl_pend_get (cc_pending c ++ [pb]) (cc_nextID c) = Some pb).
  { rewrite <- PI. apply pend_get_app_new. intros p HP. pose proof (es_fresh _ _ E p HP). lia. }
  constructor; cc_cbn; cbn [dbytes esn o_data o_es]; rewrite ?A, ?B; cbn [app Nat.add].
  - lia.
  - exists (pb_all pb). reflexivity.
  - left. rewrite andb_false_r. reflexivity.
  - intros _ p GP. unfold CliFlowCInv.pget in GP. cc_cbn_in GP. rewrite PG in GP. inversion GP. split; reflexivity.
Qed.

Lemma Bk_open_nobody (c : cconn) blk : ES hstate c -> valid (MHeaders blk None) c ->
  Bk True [] true (cc_nextID c) (apply (MHeaders blk None) c).
Proof.
  intros E (_ & IDS & _). destruct (fresh_id c (cc_nextID c) E (N.le_refl _)) as (A & B & G).
  cbn [CliFlowMoves.apply]. rewrite (u32_next _ IDS).
  constructor; cc_cbn; cbn [dbytes esn o_data o_es]; rewrite ?A, ?B; cbn [app Nat.add].
  - lia.
  - exists []. reflexivity.
  - right. rewrite N.eqb_refl. cbn [andb]. repeat split. exact G.
  - intros _ p GP. unfold CliFlowCInv.pget in GP, G. cc_cbn_in GP. congruence.
Qed.

(* an id that was used up without a frame on its stream *)
Lemma Bk_skipped (ex : Prop) B ok (c c' : cconn) : ES hstate c -> cc_nextID c < cc_nextID c' ->
  dbytes (cc_nextID c) (cc_out c') = dbytes (cc_nextID c) (cc_out c) -> esn (cc_nextID c) (cc_out c') = esn (cc_nextID c) (cc_out c) ->
  pget c' (cc_nextID c) = None -> Bk ex B ok (cc_nextID c) c'.
Proof.
  intros E LT DB EN G. destruct (fresh_id c (cc_nextID c) E (N.le_refl _)) as (A & B0 & _).
  constructor; rewrite ?DB, ?EN, ?A, ?B0.
  - exact LT.
  - exists B. reflexivity.
  - left. reflexivity.
  - intros _ p GP. congruence.
Qed.

(* ---------- writeRequest ---------- *)

Lemma cc_pending_cl_delete_pending'0 who hl (c : cconn) id :
  cc_pending (fst (cl_delete_pending who hl c id)) = cl_pend_del (cc_pending c) id.
Proof.
  unfold cl_delete_pending. destruct (cl_pend_get (cc_pending c) id) as [pb|] eqn:G.
  - destruct (pb_stream pb) eqn:S; [|reflexivity].
    destruct (cl_acquire_for hl _ (pb_tag pb) id); cbn [fst]; try reflexivity.
    + apply (SF_close_body hstate).
    + apply (SF_go_stuck hstate who hl).
    + apply (SF_go_stuck hstate who hl).
  - cbn [fst]. symmetry. apply pend_del_absent. apply pend_get_None. exact G.
Qed.

Lemma anym_nextID (m : move) (c : cconn) : anym m -> cc_nextID (apply m c) = cc_nextID c.
Proof.
  destruct m; cbn [anym]; intro A; try contradiction; cbn [CliFlowMoves.apply]; try reflexivity.
  - destruct (quietb o); reflexivity.
  - unfold cl_take_req_count. destruct (cl_req_find _ _); reflexivity.
  - destruct (pushb o); [|reflexivity]. unfold cl_write_out. destruct (cc_closed c); reflexivity.
Qed.

Lemma D_anym_nextID g (c c' : cconn) : D anym g c c' -> cc_nextID c' = cc_nextID c.
Proof.
  intros (ms & M & F & _). induction M as [c|c m ms c' V M IH]; [reflexivity|]. inversion F; subst.
  rewrite IH by assumption. apply anym_nextID. assumption.
Qed.

(* the write of HEADERS failed: the body that had just been put on c.pending is taken off again *)
Lemma write_fail_pl (c5 : cconn) pb :
  pb_id pb = cc_nextID c5 -> cc_nextID c5 <= cl_maxStreamID ->
  let c6 := ccu_pending (ccu_nextID c5 (u32 (cc_nextID c5 + 2))) (cc_pending c5 ++ [pb]) in
  D plainm [] c5 (fst (cl_delete_pending 1 [] (cl_take_req_count (cl_set_last_err c6 CEWrite) (cc_nextID c5)) (cc_nextID c5))).
Proof.
  intros PI IDS c6.
  apply (Dstep _ _ (MPendAddDel pb)); [split; [exact PI | exact IDS] | exact I | split; reflexivity |].
  apply (Dstep _ _ MNextID); [exact IDS | exact I | split; reflexivity |].
  cbn [CliFlowMoves.apply]. cc_cbn. rewrite PI.
  unfold cl_delete_pending, cl_set_last_err, cl_take_req_count, cl_req_del. subst c6.
  destruct (cc_lastErr _) eqn:LE; cc_cbn_in LE; rewrite ?LE.
  - destruct (cl_req_find _ _) eqn:RF; cc_cbn_in RF; cc_cbn.
    + destruct (cl_pend_get (cc_pending c5 ++ [pb]) (cc_nextID c5)) as [pb0|] eqn:G;
        [|exfalso; rewrite <- PI in G; exact (pend_get_app_last _ _ G)].
      apply (Dstep _ _ (MReqTake (cc_nextID c5))); [exact I | exact I | split; reflexivity |].
      cbn [CliFlowMoves.apply]. unfold cl_take_req_count, cl_req_del. cc_cbn. rewrite RF.
      destruct (pb_stream pb0); [|apply Drefl].
      apply (Dany _ _ _ _ anym_plainm).
      match goal with |- context [cl_acquire_for ?h ?cc ?t ?i] => destruct (cl_acquire_for h cc t i) end; cbn [fst].
      * apply close_body_D.
      * apply Drefl.
      * apply go_stuck_D.
      * apply go_stuck_D.
    + destruct (cl_pend_get (cc_pending c5 ++ [pb]) (cc_nextID c5)) as [pb0|] eqn:G;
        [|exfalso; rewrite <- PI in G; exact (pend_get_app_last _ _ G)].
      destruct (pb_stream pb0); [|apply Drefl].
      apply (Dany _ _ _ _ anym_plainm).
      match goal with |- context [cl_acquire_for ?h ?cc ?t ?i] => destruct (cl_acquire_for h cc t i) end; cbn [fst].
      * apply close_body_D.
      * apply Drefl.
      * apply go_stuck_D.
      * apply go_stuck_D.
  - apply (Dstep _ _ (MLastErr (Some CEWrite))); [exact I | exact I | split; reflexivity |]. cbn [CliFlowMoves.apply].
    destruct (cl_req_find _ _) eqn:RF; cc_cbn_in RF; cc_cbn.
    + destruct (cl_pend_get (cc_pending c5 ++ [pb]) (cc_nextID c5)) as [pb0|] eqn:G;
        [|exfalso; rewrite <- PI in G; exact (pend_get_app_last _ _ G)].
      apply (Dstep _ _ (MReqTake (cc_nextID c5))); [exact I | exact I | split; reflexivity |].
      cbn [CliFlowMoves.apply]. unfold cl_take_req_count, cl_req_del. cc_cbn. rewrite RF.
      destruct (pb_stream pb0); [|apply Drefl].
      apply (Dany _ _ _ _ anym_plainm).
      match goal with |- context [cl_acquire_for ?h ?cc ?t ?i] => destruct (cl_acquire_for h cc t i) end; cbn [fst].
      * apply close_body_D.
      * apply Drefl.
      * apply go_stuck_D.
      * apply go_stuck_D.
    + destruct (cl_pend_get (cc_pending c5 ++ [pb]) (cc_nextID c5)) as [pb0|] eqn:G;
        [|exfalso; rewrite <- PI in G; exact (pend_get_app_last _ _ G)].
      destruct (pb_stream pb0); [|apply Drefl].
      apply (Dany _ _ _ _ anym_plainm).
      match goal with |- context [cl_acquire_for ?h ?cc ?t ?i] => destruct (cl_acquire_for h cc t i) end; cbn [fst].
      * apply close_body_D.
      * apply Drefl.
      * apply go_stuck_D.
      * apply go_stuck_D.
Qed.

Definition wr_ok (r : cl_wrres) : Prop := match r with CWRNil => True | CWRErr CENoStreams => True | _ => False end.

(* writeRequest: every stream that was open keeps its bookkeeping; the stream it opens gets the body of the request *)
Definition wr_goal (c : cconn) (tag : N) (c1 : cconn) (r : cl_wrres) : Prop :=
  ES hstate c1 /\
  (forall B ok id, Bk True B ok id c -> Bk (wr_ok r) B ok id c1) /\
  (cc_nextID c < cc_nextID c1 -> forall x, cl_ctx_get c tag = Some x ->
     Bk (wr_ok r) (fst (rq_body (ct_req x))) (snd (rq_body (ct_req x))) (cc_nextID c) c1).

Lemma wr_goal_same (c : cconn) tag c1 r : Inv c c1 -> cc_nextID c1 = cc_nextID c -> wr_goal c tag c1 r.
Proof.
  intros [E K] NX. split; [exact E|]. split; [intros; apply Bk_any; apply K; assumption|].
  intro LT. exfalso. clear - LT NX. lia.
Qed.

Lemma open_and_send (c c5 : cconn) tag x blk pb c8 r8 :
  Inv c c5 -> cc_nextID c5 = cc_nextID c -> valid (MHeaders blk (Some pb)) c5 -> cl_ctx_get c tag = Some x ->
  (pb_all pb, pb_ok pb) = rq_body (ct_req x) ->
  cl_send_pending (cl_send_fuel (apply (MHeaders blk (Some pb)) c5) (cc_nextID c5)) (apply (MHeaders blk (Some pb)) c5) (cc_nextID c5) = (c8, r8) ->
  wr_goal c tag c8 (match r8 with CSPOk => CWRNil | CSPWriteErr => CWRErr CEWrite | CSPStuck => CWRStuck end).
Proof.
  intros I5 NX V GX RB SP. pose proof I5 as [E5 K5].
  assert (I7 : Inv c (apply (MHeaders blk (Some pb)) c5)) by (apply Inv_mv; [exact V | intros id; exact I | exact I5]).
  pose proof (Bk_open_body c5 blk pb E5 V) as KN. destruct I7 as [E7 K7].
  set (c7 := apply (MHeaders blk (Some pb)) c5) in *.
  assert (W : forall B ok id, Bk (sp_ok r8) B ok id c8 ->
                Bk (wr_ok (match r8 with CSPOk => CWRNil | CSPWriteErr => CWRErr CEWrite | CSPStuck => CWRStuck end)) B ok id c8).
  { intros B ok id. apply (Bk_weaken hstate). destruct r8; cbn [wr_ok]; intro X; try contradiction; reflexivity. }
  pose proof (send_pending_ES hstate enc_field enc_set_max (cl_send_fuel c7 (cc_nextID c5)) c7 (cc_nextID c5) E7) as E8.
  rewrite SP in E8. cbn [fst] in E8.
  split; [exact E8|]. split.
  - intros B ok id K0. apply W.
    pose proof (send_pending_Bk hstate enc_field enc_set_max (cl_send_fuel c7 (cc_nextID c5)) B ok id c7 (cc_nextID c5) E7 (K7 _ _ _ K0)) as X.
    rewrite SP in X. exact X.
  - intros _ x' GX'. assert (XE : x' = x) by congruence. subst x'. rewrite <- RB. cbn [fst snd]. apply W.
    pose proof (send_pending_Bk hstate enc_field enc_set_max (cl_send_fuel c7 (cc_nextID c5)) (pb_all pb) (pb_ok pb) (cc_nextID c5) c7 (cc_nextID c5) E7 KN) as X.
    rewrite SP, NX in X. exact X.
Qed.

Lemma open_fail (c c5 c8 : cconn) tag r :
  Inv c c5 -> cc_nextID c5 = cc_nextID c -> D plainm [] c5 c8 -> cc_nextID c5 < cc_nextID c8 -> pget c8 (cc_nextID c5) = None ->
  wr_goal c tag c8 r.
Proof.
  intros I5 NX DD LT G. pose proof I5 as [E5 K5].
  pose proof (Inv_D plainm [] c c5 c8 DD (fun m P id => plainm_untouched id m P) I5) as [E8 K8].
  destruct (D_plain_out plainm [] (cc_nextID c5) c5 c8 DD (fun m P => P) E5) as [DB EN].
  split; [exact E8|]. split; [intros; apply Bk_any; apply K8; assumption|].
  intros _ x GX. rewrite <- NX. apply Bk_skipped; assumption.
Qed.

Lemma write_request_Bk (c : cconn) tag c1' r : ES hstate c ->
  cl_write_request enc_field enc_set_max c tag = (c1', r) -> wr_goal c tag c1' r.
Proof.
  intros E. pose proof (Inv_refl c E) as I0. unfold cl_write_request.
  destruct (cl_can_open_stream c) eqn:CO; cbn [negb]; [|intro H; inversion H; subst; apply wr_goal_same; [exact I0 | reflexivity]].
  destruct (cl_ctx_get c tag) as [x|] eqn:GX; [|intro H; inversion H; subst; apply wr_goal_same; [exact I0 | reflexivity]].
  destruct (ct_lckStuck x).
  { intro H; inversion H; subst. pose proof (go_stuck_D hstate enc_field enc_set_max 1 [] c false tag) as DD.
    apply wr_goal_same; [|apply (D_anym_nextID _ _ _ DD)].
    apply (Inv_D anym [] c c _ DD); [intros m A id; apply anym_untouched; exact A | exact I0]. }
  destruct (ct_done x); [intro H; inversion H; subst; apply wr_goal_same; [exact I0 | reflexivity]|].
  set (ce := if negb (cc_encTableSize c =? cc_encTableSeen c) then _ else c).
  assert (F1 : cc_pending ce = cc_pending c /\ cc_out ce = cc_out c /\ cc_outQ ce = cc_outQ c /\ cc_nextID ce = cc_nextID c /\
               cc_goAway ce = cc_goAway c /\ cl_can_open_stream ce = true).
  { subst ce. destruct (negb _); repeat split; assumption. }
  destruct F1 as (P1 & O1 & Q1 & N1 & G1 & F1).
  assert (SYN : cc_encTableSeen ce = cc_encTableSize ce).
  { subst ce. destruct (cc_encTableSize c =? cc_encTableSeen c) eqn:EQ; cbn [negb]; [apply N.eqb_eq in EQ; symmetry; exact EQ | reflexivity]. }
  assert (Ie : Inv c ce) by (apply (Inv_same c c ce); assumption).
  clearbody ce.
  destruct (cl_maxStreamID <? cc_nextID ce) eqn:IDS; [intro H; inversion H; subst; apply wr_goal_same; assumption|]. apply N.ltb_ge in IDS.
  destruct (cl_request_block enc_field (cc_enc (ccu_nextID ce (u32 (cc_nextID ce + 2)))) (ct_req x)) as [blk e'] eqn:RB.
  unfold cl_ctx_put. cc_cbn. cc_cbn_in RB.
  pose proof (can_open_goaway _ _ F1) as GA. rewrite GA.
  (* the state in which HEADERS is written, but for the next id *)
  set (c5 := ccu_open (ccu_reqQueued (ccu_ctxs (ccu_enc ce e') (cl_ctxs_put (cc_ctxs ce) (ctu_sid (ctu_conn x true) (cc_nextID ce))))
                                      (cc_reqQueued ce ++ [(cc_nextID ce, tag)])) (cc_open ce + 1)%Z).
  assert (I5 : Inv c c5) by (apply (Inv_same c ce c5); try reflexivity; exact Ie).
  assert (N5 : cc_nextID c5 = cc_nextID c) by exact N1.
  assert (VH : forall opb, cl_can_write ce = true ->
                 (forall pb, opb = Some pb -> pb_id pb = cc_nextID ce /\ pb_window pb = cc_streamWindow ce) ->
                 valid (MHeaders blk opb) c5).
  { intros opb CWE H. split; [exact CWE|]. split; [exact IDS|]. split; [exact GA|]. split.
    { subst c5. cc_cbn. unfold cl_can_open_stream in F1. apply andb_prop in F1. destruct F1 as [_ F1]. apply Z.ltb_lt in F1. clear - F1. lia. }
    split; [exists tag; subst c5; cc_cbn; apply in_or_app; right; left; reflexivity|]. split; [exact H | exact SYN]. }
  assert (FAIL : forall (c8 : cconn) r0, D plainm [] c5 c8 -> cc_nextID c8 = cc_nextID c5 + 2 -> pget c8 (cc_nextID c5) = None ->
                   wr_goal c tag c8 r0).
  { intros c8 r0 DD NX8 G8. apply (open_fail c c5 c8 tag r0 I5 N5 DD); [rewrite NX8; clear; lia | exact G8]. }
  assert (U32 : u32 (cc_nextID ce + 2) = cc_nextID ce + 2) by (apply u32_next; exact IDS).
  destruct (cq_body (ct_req x)) as [b|reads size] eqn:BD; [destruct b as [|b0 bt]|]; cbn [cl_is_nil negb].
  - (* no body *)
    unfold cl_can_write at 1. cc_cbn. fold (cl_can_write ce). destruct (cl_can_write ce) eqn:CWE.
    + intro H; inversion H; subst.
      match goal with |- wr_goal _ _ ?c7 _ => change c7 with (apply (MHeaders blk None) c5) end.
      assert (V : valid (MHeaders blk None) c5) by (apply VH; [reflexivity | discriminate]).
      pose proof (Inv_mv c (MHeaders blk None) c5 V (fun _ => I) I5) as [E7 K7].
      split; [exact E7|]. split; [intros; apply Bk_any; apply K7; assumption|].
      intros _ x' GX'. assert (XE : x' = x) by congruence. subst x'. unfold rq_body. rewrite BD. cbn [fst snd]. rewrite <- N5.
      apply Bk_any. apply Bk_open_nobody; [apply I5 | exact V].
    + match goal with |- context [cl_delete_pending ?w ?h ?cc ?i] =>
        pose proof (delete_pending_D hstate enc_field enc_set_max w h cc i) as DP;
        pose proof (cc_pending_cl_delete_pending'0 w h cc i) as PD;
        destruct (cl_delete_pending w h cc i) as [c8 st] end.
      cbn [fst] in DP, PD.
      assert (DD : D plainm [] c5 c8).
      { apply (Dstep _ _ MNextID); [exact IDS | exact I | split; reflexivity |].
        apply (Dany _ _ _ _ anym_plainm). eapply Dtrans0; [apply set_last_err_D|]. eapply Dtrans0; [apply take_req_D|]. exact DP. }
      assert (NX8 : cc_nextID c8 = cc_nextID c5 + 2).
      { assert (DA : D anym [] (cl_set_last_err (ccu_nextID c5 (u32 (cc_nextID c5 + 2))) CEWrite) c8).
        { eapply Dtrans0; [apply take_req_D|]. exact DP. }
        rewrite (D_anym_nextID _ _ _ DA). unfold cl_set_last_err. destruct (cc_lastErr _); cc_cbn; exact U32. }
      assert (G8 : pget c8 (cc_nextID c5) = None).
      { unfold CliFlowCInv.pget. rewrite PD. apply pend_get_del_same.
        unfold cl_take_req_count, cl_set_last_err. destruct (cc_lastErr _); destruct (cl_req_find _ _); cc_cbn; apply (es_nodup _ _ (proj1 I5)). }
      destruct st; intro H; inversion H; subst; apply FAIL; assumption.
  - (* a buffered body *)
    unfold cl_can_write at 1. cc_cbn. fold (cl_can_write ce). destruct (cl_can_write ce) eqn:CWE.
    + set (pb := mkCPB (cc_nextID ce) tag (b0 :: bt) (cc_streamWindow ce) None (-1) 0 false).
      assert (V : valid (MHeaders blk (Some pb)) c5).
      { apply VH; [reflexivity|]. intros pb' EQ. inversion EQ. subst pb'. split; reflexivity. }
      assert (RQ : (pb_all pb, pb_ok pb) = rq_body (ct_req x)).
      { unfold rq_body. rewrite BD. unfold pb_all, pb_ok, pb_fut. cbn [pb pb_body pb_stream fst snd]. rewrite app_nil_r. reflexivity. }
      match goal with |- context [cl_send_pending (cl_send_fuel ?c7 ?i) ?c7 ?i] =>
        change c7 with (apply (MHeaders blk (Some pb)) c5); change i with (cc_nextID c5) end.
      destruct (cl_send_pending _ _ _) as [c8 r8] eqn:SP.
      pose proof (open_and_send c c5 tag x blk pb c8 r8 I5 N5 V GX RQ SP) as X.
      destruct r8; intro H; inversion H; subst; exact X.
    + set (pb := mkCPB (cc_nextID ce) tag (b0 :: bt) (cc_streamWindow ce) None (-1) 0 false).
      pose proof (write_fail_pl c5 pb eq_refl IDS) as DD. cbv zeta in DD.
      match goal with |- context [cl_delete_pending ?w ?h ?cc ?i] =>
        pose proof (delete_pending_D hstate enc_field enc_set_max w h cc i) as DP;
        pose proof (cc_pending_cl_delete_pending'0 w h cc i) as PD;
        change (cl_delete_pending w h cc i) with
          (cl_delete_pending 1 [] (cl_take_req_count (cl_set_last_err (ccu_pending (ccu_nextID c5 (u32 (cc_nextID c5 + 2))) (cc_pending c5 ++ [pb])) CEWrite) (cc_nextID c5)) (cc_nextID c5)) in *;
        destruct (cl_delete_pending 1 [] (cl_take_req_count (cl_set_last_err (ccu_pending (ccu_nextID c5 (u32 (cc_nextID c5 + 2))) (cc_pending c5 ++ [pb])) CEWrite) (cc_nextID c5)) (cc_nextID c5)) as [c8 st] end.
      cbn [fst] in DP, PD, DD.
      assert (NX8 : cc_nextID c8 = cc_nextID c5 + 2).
      { assert (DA : D anym [] (cl_set_last_err (ccu_pending (ccu_nextID c5 (u32 (cc_nextID c5 + 2))) (cc_pending c5 ++ [pb])) CEWrite) c8).
        { eapply Dtrans0; [apply take_req_D|]. exact DP. }
        rewrite (D_anym_nextID _ _ _ DA). unfold cl_set_last_err. destruct (cc_lastErr _); cc_cbn; exact U32. }
      assert (G8 : pget c8 (cc_nextID c5) = None).
      { unfold CliFlowCInv.pget. rewrite PD.
        match goal with |- context [cl_pend_del (cc_pending ?cc) _] => assert (PE : cc_pending cc = cc_pending c5 ++ [pb]) end.
        { unfold cl_take_req_count, cl_set_last_err. destruct (cc_lastErr _); destruct (cl_req_find _ _); reflexivity. }
        rewrite PE. change (cc_nextID c5) with (pb_id pb).
        rewrite pend_del_app_last by (intros p HP; pose proof (es_fresh _ _ (proj1 I5) p HP) as X; cbn [pb pb_id]; change (cc_nextID ce) with (cc_nextID c5); clear - X; lia).
        apply (fresh_id c5 (cc_nextID c5) (proj1 I5) (N.le_refl _)). }
      destruct st; intro H; inversion H; subst; apply FAIL; assumption.
  - (* a streamed body *)
    unfold cl_can_write at 1. cc_cbn. fold (cl_can_write ce). destruct (cl_can_write ce) eqn:CWE.
    + set (pb := mkCPB (cc_nextID ce) tag [] (cc_streamWindow ce) (Some reads) size 0 (size =? 0)%Z).
      assert (V : valid (MHeaders blk (Some pb)) c5).
      { apply VH; [reflexivity|]. intros pb' EQ. inversion EQ. subst pb'. split; reflexivity. }
      assert (RQ : (pb_all pb, pb_ok pb) = rq_body (ct_req x)).
      { unfold rq_body. rewrite BD. unfold pb_all, pb_ok, pb_fut. cbn [pb pb_body pb_stream pb_drained pb_size pb_read fst snd app].
        destruct (size =? 0)%Z; [reflexivity|]. destruct (rd_fut reads size 0); reflexivity. }
      match goal with |- context [cl_send_pending (cl_send_fuel ?c7 ?i) ?c7 ?i] =>
        change c7 with (apply (MHeaders blk (Some pb)) c5); change i with (cc_nextID c5) end.
      destruct (cl_send_pending _ _ _) as [c8 r8] eqn:SP.
      pose proof (open_and_send c c5 tag x blk pb c8 r8 I5 N5 V GX RQ SP) as X.
      destruct r8; intro H; inversion H; subst; exact X.
    + set (pb := mkCPB (cc_nextID ce) tag [] (cc_streamWindow ce) (Some reads) size 0 (size =? 0)%Z).
      pose proof (write_fail_pl c5 pb eq_refl IDS) as DD. cbv zeta in DD.
      match goal with |- context [cl_delete_pending ?w ?h ?cc ?i] =>
        pose proof (delete_pending_D hstate enc_field enc_set_max w h cc i) as DP;
        pose proof (cc_pending_cl_delete_pending'0 w h cc i) as PD;
        change (cl_delete_pending w h cc i) with
          (cl_delete_pending 1 [] (cl_take_req_count (cl_set_last_err (ccu_pending (ccu_nextID c5 (u32 (cc_nextID c5 + 2))) (cc_pending c5 ++ [pb])) CEWrite) (cc_nextID c5)) (cc_nextID c5)) in *;
        destruct (cl_delete_pending 1 [] (cl_take_req_count (cl_set_last_err (ccu_pending (ccu_nextID c5 (u32 (cc_nextID c5 + 2))) (cc_pending c5 ++ [pb])) CEWrite) (cc_nextID c5)) (cc_nextID c5)) as [c8 st] end.
      cbn [fst] in DP, PD, DD.
      assert (NX8 : cc_nextID c8 = cc_nextID c5 + 2).
      { assert (DA : D anym [] (cl_set_last_err (ccu_pending (ccu_nextID c5 (u32 (cc_nextID c5 + 2))) (cc_pending c5 ++ [pb])) CEWrite) c8).
        { eapply Dtrans0; [apply take_req_D|]. exact DP. }
        rewrite (D_anym_nextID _ _ _ DA). unfold cl_set_last_err. destruct (cc_lastErr _); cc_cbn; exact U32. }
      assert (G8 : pget c8 (cc_nextID c5) = None).
      { unfold CliFlowCInv.pget. rewrite PD.
        match goal with |- context [cl_pend_del (cc_pending ?cc) _] => assert (PE : cc_pending cc = cc_pending c5 ++ [pb]) end.
        { unfold cl_take_req_count, cl_set_last_err. destruct (cc_lastErr _); destruct (cl_req_find _ _); reflexivity. }
        rewrite PE. change (cc_nextID c5) with (pb_id pb).
        rewrite pend_del_app_last by (intros p HP; pose proof (es_fresh _ _ (proj1 I5) p HP) as X; cbn [pb pb_id]; change (cc_nextID ce) with (cc_nextID c5); clear - X; lia).
        apply (fresh_id c5 (cc_nextID c5) (proj1 I5) (N.le_refl _)). }
      destruct st; intro H; inversion H; subst; apply FAIL; assumption.
Qed.

(* writeRequest again: it leaves the other pending bodies alone, and what it does for the stream it opens *)
Definition wr_aux (c : cconn) (tag : N) (c1 : cconn) (r : cl_wrres) : Prop :=
  (RNG hstate c -> forall id, id <> cc_nextID c -> pget c1 id = pget c id) /\
  (r = CWRNil -> cc_nextID c < cc_nextID c1 -> forall x, cl_ctx_get c tag = Some x ->
     esn (cc_nextID c) (cc_out c1) = 1%nat \/
     exists c7 pb, pget c7 (cc_nextID c) = Some pb /\ pb_tag pb = tag /\ ES hstate c7 /\
       cc_ctxs c7 = cl_ctxs_put (cc_ctxs c) (ctu_sid (ctu_conn x true) (cc_nextID c)) /\ esn (cc_nextID c) (cc_out c7) = 0%nat /\
       ct_done x = false /\ ct_lckStuck x = false /\
       c1 = fst (cl_send_pending (cl_send_fuel c7 (cc_nextID c)) c7 (cc_nextID c)) /\
       snd (cl_send_pending (cl_send_fuel c7 (cc_nextID c)) c7 (cc_nextID c)) = CSPOk) /\
  (r = CWRErr CENoStreams -> cc_nextID c1 = cc_nextID c).

Lemma wr_aux_same (c : cconn) tag c1 r : cc_pending c1 = cc_pending c -> cc_nextID c1 = cc_nextID c -> wr_aux c tag c1 r.
Proof.
  intros P NX. split; [intros _ id _; unfold CliFlowCInv.pget; rewrite P; reflexivity|]. split; [|intros _; exact NX].
  intros _ LT. exfalso. clear - LT NX. lia.
Qed.

Lemma write_request_aux (c : cconn) tag c1' r : ES hstate c ->
  cl_write_request enc_field enc_set_max c tag = (c1', r) -> wr_aux c tag c1' r.
Proof.
  intros E. pose proof (Inv_refl c E) as I0. unfold cl_write_request.
  destruct (cl_can_open_stream c) eqn:CO; cbn [negb]; [|intro H; inversion H; subst; apply wr_aux_same; reflexivity].
  destruct (cl_ctx_get c tag) as [x|] eqn:GX; [|intro H; inversion H; subst; apply wr_aux_same; reflexivity].
  destruct (ct_lckStuck x) eqn:LS.
  { intro H; inversion H; subst. pose proof (go_stuck_D hstate enc_field enc_set_max 1 [] c false tag) as DD.
    apply wr_aux_same; [apply (SF_go_stuck hstate 1 [] c false tag) | apply (D_anym_nextID _ _ _ DD)]. }
  destruct (ct_done x) eqn:DN; [intro H; inversion H; subst; apply wr_aux_same; reflexivity|].
  set (ce := if negb (cc_encTableSize c =? cc_encTableSeen c) then _ else c).
  assert (F1 : cc_pending ce = cc_pending c /\ cc_out ce = cc_out c /\ cc_outQ ce = cc_outQ c /\ cc_nextID ce = cc_nextID c /\
               cc_goAway ce = cc_goAway c /\ cl_can_open_stream ce = true /\ cc_ctxs ce = cc_ctxs c /\
               cc_connWindow ce = cc_connWindow c /\ cc_streamWindow ce = cc_streamWindow c).
  { subst ce. destruct (negb _); repeat split; assumption. }
  destruct F1 as (P1 & O1 & Q1 & N1 & G1 & F1 & X1 & CW1 & SW1).
  assert (SYN : cc_encTableSeen ce = cc_encTableSize ce).
  { subst ce. destruct (cc_encTableSize c =? cc_encTableSeen c) eqn:EQ; cbn [negb]; [apply N.eqb_eq in EQ; symmetry; exact EQ | reflexivity]. }
  assert (Ie : Inv c ce) by (apply (Inv_same c c ce); assumption).
  clearbody ce.
  destruct (cl_maxStreamID <? cc_nextID ce) eqn:IDS; [intro H; inversion H; subst; apply wr_aux_same; assumption|]. apply N.ltb_ge in IDS.
  destruct (cl_request_block enc_field (cc_enc (ccu_nextID ce (u32 (cc_nextID ce + 2)))) (ct_req x)) as [blk e'] eqn:RB.
  unfold cl_ctx_put. cc_cbn. cc_cbn_in RB.
  pose proof (can_open_goaway _ _ F1) as GA. rewrite GA.
  set (c5 := ccu_open (ccu_reqQueued (ccu_ctxs (ccu_enc ce e') (cl_ctxs_put (cc_ctxs ce) (ctu_sid (ctu_conn x true) (cc_nextID ce))))
                                      (cc_reqQueued ce ++ [(cc_nextID ce, tag)])) (cc_open ce + 1)%Z).
  assert (I5 : Inv c c5) by (apply (Inv_same c ce c5); try reflexivity; exact Ie).
  assert (N5 : cc_nextID c5 = cc_nextID c) by exact N1.
  assert (P5 : cc_pending c5 = cc_pending c) by exact P1.
  assert (R5 : RNG hstate c -> RNG hstate c5).
  { intros [r1 r2 r3 r4]. constructor; subst c5; cc_cbn; rewrite ?CW1, ?SW1, ?P1; assumption. }
  assert (VH : forall opb, cl_can_write ce = true ->
                 (forall pb, opb = Some pb -> pb_id pb = cc_nextID ce /\ pb_window pb = cc_streamWindow ce) ->
                 valid (MHeaders blk opb) c5).
  { intros opb CWE H. split; [exact CWE|]. split; [exact IDS|]. split; [exact GA|]. split.
    { subst c5. cc_cbn. unfold cl_can_open_stream in F1. apply andb_prop in F1. destruct F1 as [_ F1]. apply Z.ltb_lt in F1. clear - F1. lia. }
    split; [exists tag; subst c5; cc_cbn; apply in_or_app; right; left; reflexivity|]. split; [exact H | exact SYN]. }
  assert (U32 : u32 (cc_nextID ce + 2) = cc_nextID ce + 2) by (apply u32_next; exact IDS).
  (* the failure paths: the body that was put on c.pending, if any, is taken off again *)
  assert (FAIL : forall (c8 : cconn) r0 l, r0 <> CWRNil /\ r0 <> CWRErr CENoStreams -> cc_pending c8 = cl_pend_del (cc_pending c5 ++ l) (cc_nextID c5) ->
                   (forall p, In p l -> pb_id p = cc_nextID c5) -> wr_aux c tag c8 r0).
  { intros c8 r0 l [NR NR2] PD PL. split; [|split; intro X; contradiction].
    intros _ id NE. unfold CliFlowCInv.pget. rewrite PD, pend_get_del_other by (rewrite N5; exact NE). rewrite <- P5.
    clear - PL NE N5. induction (cc_pending c5) as [|q t IH]; cbn [app cl_pend_get].
    - induction l as [|p l IHl]; [reflexivity|]. cbn [cl_pend_get]. rewrite (PL p (or_introl eq_refl)).
      replace (cc_nextID c5 =? id) with false by (symmetry; apply N.eqb_neq; rewrite N5; intro X; apply NE; symmetry; exact X).
      apply IHl. intros p0 H0. apply PL. right. exact H0.
    - destruct (pb_id q =? id); [reflexivity | exact IH]. }
  (* the stream is opened and sendPending runs *)
  assert (OPEN : forall pb (c8 : cconn) r8, valid (MHeaders blk (Some pb)) c5 -> pb_tag pb = tag -> pb_id pb = cc_nextID c5 ->
            cl_send_pending (cl_send_fuel (apply (MHeaders blk (Some pb)) c5) (cc_nextID c5)) (apply (MHeaders blk (Some pb)) c5) (cc_nextID c5) = (c8, r8) ->
            wr_aux c tag c8 (match r8 with CSPOk => CWRNil | CSPWriteErr => CWRErr CEWrite | CSPStuck => CWRStuck end)).
  { intros pb c8 r8 V PT PI SP. set (c7 := apply (MHeaders blk (Some pb)) c5) in *.
    pose proof (mv_ES hstate enc_field enc_set_max (MHeaders blk (Some pb)) c5 V (proj1 I5)) as E7. fold c7 in E7.
    assert (P7 : cc_pending c7 = cc_pending c5 ++ [pb]) by reflexivity.
    assert (G7 : pget c7 (cc_nextID c5) = Some pb).
    { unfold CliFlowCInv.pget. rewrite P7, <- PI. apply pend_get_app_new. intros p HP. pose proof (es_fresh _ _ (proj1 I5) p HP). rewrite PI. lia. }
    split.
    - intros R id NE.
      pose proof (mv_RNG hstate enc_field enc_set_max (MHeaders blk (Some pb)) c5 V (proj1 I5) (R5 R)) as R7. fold c7 in R7.
      pose proof (send_pending_fueled hstate c7 (cc_nextID c5) R7) as SPO. rewrite SP in SPO. cbn [fst snd] in SPO.
      unfold CliFlowCInv.pget. rewrite (sp_other _ _ _ _ _ SPO id) by (rewrite N5; exact NE). rewrite P7, pend_get_app_other by (rewrite PI, N5; exact NE).
      rewrite P5. reflexivity.
    - split; [|destruct r8; discriminate].
      intros RN LT x' GX'. assert (XE : x' = x) by congruence. subst x'. right. exists c7, pb.
      destruct r8; try discriminate. rewrite <- N5. rewrite SP. cbn [fst snd].
      split; [exact G7|]. split; [exact PT|]. split; [exact E7|]. split; [subst c7 c5; cbn [CliFlowMoves.apply]; cc_cbn; rewrite X1, N1; reflexivity|].
      split; [|repeat split; assumption].
      destruct (fresh_id c5 (cc_nextID c5) (proj1 I5) (N.le_refl _)) as (_ & B0 & _).
      subst c7. cbn [CliFlowMoves.apply]. cc_cbn. cbn [esn o_es]. rewrite B0, andb_false_r. reflexivity. }
  destruct (cq_body (ct_req x)) as [b|reads size] eqn:BD; [destruct b as [|b0 bt]|]; cbn [cl_is_nil negb].
  - (* no body *)
    unfold cl_can_write at 1. cc_cbn. fold (cl_can_write ce). destruct (cl_can_write ce) eqn:CWE.
    + intro H; inversion H; subst.
      match goal with |- wr_aux _ _ ?c7 _ => change c7 with (apply (MHeaders blk None) c5) end.
      split; [intros _ id NE; unfold CliFlowCInv.pget; cbn [CliFlowMoves.apply]; cc_cbn; rewrite P5; reflexivity|].
      split; [|discriminate].
      intros _ _ x' _. left. destruct (fresh_id c5 (cc_nextID c5) (proj1 I5) (N.le_refl _)) as (_ & B0 & _).
      cbn [CliFlowMoves.apply]. cc_cbn. cbn [esn o_es]. rewrite <- N5. rewrite B0, N.eqb_refl. reflexivity.
    + match goal with |- context [cl_delete_pending ?w ?h ?cc ?i] =>
        pose proof (cc_pending_cl_delete_pending'0 w h cc i) as PD;
        destruct (cl_delete_pending w h cc i) as [c8 st] end.
      cbn [fst] in PD.
      assert (PD' : cc_pending c8 = cl_pend_del (cc_pending c5 ++ []) (cc_nextID c5)).
      { rewrite PD, app_nil_r. unfold cl_take_req_count, cl_set_last_err. destruct (cc_lastErr _); destruct (cl_req_find _ _); reflexivity. }
      destruct st; intro H; inversion H; subst; (refine (FAIL _ _ [] _ PD' _); [split; discriminate | intros p []]).
  - (* a buffered body *)
    unfold cl_can_write at 1. cc_cbn. fold (cl_can_write ce). destruct (cl_can_write ce) eqn:CWE.
    + set (pb := mkCPB (cc_nextID ce) tag (b0 :: bt) (cc_streamWindow ce) None (-1) 0 false).
      assert (V : valid (MHeaders blk (Some pb)) c5).
      { apply VH; [reflexivity|]. intros pb' EQ. inversion EQ. subst pb'. split; reflexivity. }
      match goal with |- context [cl_send_pending (cl_send_fuel ?c7 ?i) ?c7 ?i] =>
        change c7 with (apply (MHeaders blk (Some pb)) c5); change i with (cc_nextID c5) end.
      destruct (cl_send_pending _ _ _) as [c8 r8] eqn:SP.
      pose proof (OPEN pb c8 r8 V eq_refl eq_refl SP) as X.
      destruct r8; intro H; inversion H; subst; exact X.
    + set (pb := mkCPB (cc_nextID ce) tag (b0 :: bt) (cc_streamWindow ce) None (-1) 0 false).
      match goal with |- context [cl_delete_pending ?w ?h ?cc ?i] =>
        pose proof (cc_pending_cl_delete_pending'0 w h cc i) as PD;
        destruct (cl_delete_pending w h cc i) as [c8 st] end.
      cbn [fst] in PD.
      assert (PD' : cc_pending c8 = cl_pend_del (cc_pending c5 ++ [pb]) (cc_nextID c5)).
      { rewrite PD. unfold cl_take_req_count, cl_set_last_err. destruct (cc_lastErr _); destruct (cl_req_find _ _); reflexivity. }
      destruct st; intro H; inversion H; subst; (refine (FAIL _ _ [pb] _ PD' _); [split; discriminate | intros p [<-|[]]; reflexivity]).
  - (* a streamed body *)
    unfold cl_can_write at 1. cc_cbn. fold (cl_can_write ce). destruct (cl_can_write ce) eqn:CWE.
    + set (pb := mkCPB (cc_nextID ce) tag [] (cc_streamWindow ce) (Some reads) size 0 (size =? 0)%Z).
      assert (V : valid (MHeaders blk (Some pb)) c5).
      { apply VH; [reflexivity|]. intros pb' EQ. inversion EQ. subst pb'. split; reflexivity. }
      match goal with |- context [cl_send_pending (cl_send_fuel ?c7 ?i) ?c7 ?i] =>
        change c7 with (apply (MHeaders blk (Some pb)) c5); change i with (cc_nextID c5) end.
      destruct (cl_send_pending _ _ _) as [c8 r8] eqn:SP.
      pose proof (OPEN pb c8 r8 V eq_refl eq_refl SP) as X.
      destruct r8; intro H; inversion H; subst; exact X.
    + set (pb := mkCPB (cc_nextID ce) tag [] (cc_streamWindow ce) (Some reads) size 0 (size =? 0)%Z).
      match goal with |- context [cl_delete_pending ?w ?h ?cc ?i] =>
        pose proof (cc_pending_cl_delete_pending'0 w h cc i) as PD;
        destruct (cl_delete_pending w h cc i) as [c8 st] end.
      cbn [fst] in PD.
      assert (PD' : cc_pending c8 = cl_pend_del (cc_pending c5 ++ [pb]) (cc_nextID c5)).
      { rewrite PD. unfold cl_take_req_count, cl_set_last_err. destruct (cc_lastErr _); destruct (cl_req_find _ _); reflexivity. }
      destruct st; intro H; inversion H; subst; (refine (FAIL _ _ [pb] _ PD' _); [split; discriminate | intros p [<-|[]]; reflexivity]).
Qed.

(* ---------- the tail of a select case: the bottom of the loop, or the loop's exit ---------- *)

Lemma wlout_untouched id (m : move) : ev_ok CEvWLOut m -> untouched id m.
Proof. destruct m; cbn; auto. Qed.

Definition nonext (m : move) : Prop := match m with MNextID | MHeaders _ _ => False | _ => True end.

Lemma wlout_nonext (m : move) : ev_ok CEvWLOut m -> nonext m.
Proof. destruct m; cbn; auto; discriminate. Qed.

Lemma anym_nonext (m : move) : anym m -> nonext m.
Proof. destruct m; cbn; auto. Qed.

Lemma nonext_nextID (m : move) (c : cconn) : nonext m -> cc_nextID (apply m c) = cc_nextID c.
Proof.
  destruct m; cbn [nonext]; intro A; try contradiction; cbn [CliFlowMoves.apply]; try reflexivity.
  - destruct (quietb o); reflexivity.
  - unfold cl_take_req_count. destruct (cl_req_find _ _); reflexivity.
  - destruct (pushb o); [|reflexivity]. unfold cl_write_out. destruct (cc_closed c); reflexivity.
  - destruct (cc_outQ c); reflexivity.
  - apply (recv_data_fields hstate c fr has_res).
  - destruct (cl_settings_deserialize false payload) as [st|]; [|reflexivity]. apply (handle_settings_fields hstate c st).
  - apply (add_window_fields hstate c sid inc).
  - destruct (cl_pend_get _ _) as [pb|]; [|reflexivity]. destruct (cl_refill pb); reflexivity.
  - destruct (cl_pend_get _ _) as [pb|]; [|reflexivity].
    assert (X : cc_nextID (cs_conn c pb id) = cc_nextID c) by (unfold cs_conn; destruct (cs_end c pb); reflexivity).
    destruct wr; [|exact X]. rewrite <- X. apply (notes_fields hstate).
  - destruct (cl_pend_get _ _) as [pb|]; [|reflexivity]. sb_cases c pb; reflexivity.
  - destruct (negb _); reflexivity.
Qed.

Lemma D_nonext_nextID (P : move -> Prop) g (c c' : cconn) : D P g c c' -> (forall m, P m -> nonext m) -> cc_nextID c' = cc_nextID c.
Proof.
  intros (ms & M & F & _) H. induction M as [c|c m ms c' V M IH]; [reflexivity|]. inversion F; subst.
  rewrite IH by assumption. apply nonext_nextID. apply H. assumption.
Qed.

(* what follows writeRequest in case ctx := <-c.in *)
Definition in_tail (c1 : cconn) (tag : N) (r : cl_wrres) : cconn :=
  match r with
  | CWRNil => cl_wl_after cfg c1
  | CWRStuck => c1
  | CWRErr e =>
    let c2 := cl_resolve c1 tag e in
    match e with
    | CENoStreams => c2
    | CENoIDs => cl_wl_exit c2 (Some CENoIDs) 3
    | _ => cl_wl_exit c2 (Some CEWrite) 1
    end
  end.

Lemma in_tail_D (c1 : cconn) tag r : D (ev_ok CEvWLOut) [] c1 (in_tail c1 tag r).
Proof.
  destruct r as [|e|]; cbn [in_tail].
  - apply wl_after_D. exact I.
  - eapply Dtrans0; [apply (Dany _ _ _ _ (anym_ev_ok CEvWLOut)), resolve_D|].
    destruct e; try (apply wl_exit_D; exact I). apply Drefl.
  - apply Drefl.
Qed.

Lemma wl_after_live (c : cconn) : cl_wl_live (cl_wl_after cfg c) = true -> cl_wl_after cfg c = c.
Proof. unfold cl_wl_after. destruct (_ && _); [rewrite wl_exit_dead; discriminate | reflexivity]. Qed.

Lemma in_tail_Bk (c1 : cconn) tag r B ok id : ES hstate c1 -> (r = CWRStuck -> cc_wl_stuck c1 = true) ->
  Bk (wr_ok r) B ok id c1 -> Bk (cl_wl_live (in_tail c1 tag r) = true) B ok id (in_tail c1 tag r).
Proof.
  intros E ST K.
  assert (W : forall ex, Bk ex B ok id c1 -> Bk ex B ok id (in_tail c1 tag r)).
  { intros ex K1. apply (D_Bk hstate enc_field enc_set_max _ _ ex B ok id c1 _ (in_tail_D c1 tag r)); [apply wlout_untouched | exact E | exact K1]. }
  assert (DEAD : wr_ok r -> False -> False) by auto.
  destruct r as [|e|]; cbn [wr_ok] in K.
  - apply Bk_any. apply W. exact K.
  - destruct e; cbn [wr_ok] in K; try (apply Bk_not; [cbn [in_tail]; rewrite wl_exit_dead; discriminate | apply W; exact K]).
    apply Bk_any. apply W. exact K.
  - apply Bk_not; [|apply W; exact K]. cbn [in_tail]. unfold cl_wl_live. rewrite (ST eq_refl), andb_false_r. discriminate.
Qed.

Lemma wl_in_eq (c : cconn) tag q : cc_inQ c = tag :: q ->
  cl_wl_in enc_field enc_set_max cfg c =
  in_tail (fst (cl_write_request enc_field enc_set_max (ccu_inQ c q) tag)) tag (snd (cl_write_request enc_field enc_set_max (ccu_inQ c q) tag)).
Proof.
  intro Q. unfold cl_wl_in. rewrite Q. destruct (cl_write_request enc_field enc_set_max (ccu_inQ c q) tag) as [c1 r]. cbn [fst snd].
  destruct r as [|e|]; cbn [in_tail]; reflexivity.
Qed.

Lemma Bk_eqfields (ex : Prop) B ok id (c c' : cconn) : cc_nextID c' = cc_nextID c -> cc_out c' = cc_out c -> cc_pending c' = cc_pending c ->
  Bk ex B ok id c -> Bk ex B ok id c'.
Proof.
  intros A O P K. apply (Bk_frame hstate ex ex B ok id c).
  - rewrite A. apply N.le_refl.
  - rewrite O. reflexivity.
  - rewrite O. reflexivity.
  - unfold CliFlowCInv.pget. rewrite P. intros pb' G. exists pb'. split; [exact G | split; reflexivity].
  - auto.
  - exact K.
Qed.

(* case ctx := <-c.in *)
Lemma wl_in_Bk (c : cconn) : RNG hstate c -> ES hstate c -> NS hstate c -> cl_wl_live c = true ->
  (forall B ok id, Bk True B ok id c ->
     Bk (cl_wl_live (cl_wl_in enc_field enc_set_max cfg c) = true) B ok id (cl_wl_in enc_field enc_set_max cfg c)) /\
  (forall tag q x, cc_inQ c = tag :: q -> cl_ctx_get c tag = Some x -> cc_nextID c < cc_nextID (cl_wl_in enc_field enc_set_max cfg c) ->
     Bk (cl_wl_live (cl_wl_in enc_field enc_set_max cfg c) = true) (fst (rq_body (ct_req x))) (snd (rq_body (ct_req x))) (cc_nextID c)
        (cl_wl_in enc_field enc_set_max cfg c)).
Proof.
  intros R E N LV. destruct (cc_inQ c) as [|tag q] eqn:Q.
  { unfold cl_wl_in. rewrite Q. split; [intros; apply Bk_any; assumption | intros ? ? ? X; discriminate]. }
  rewrite (wl_in_eq c tag q Q). set (cq := ccu_inQ c q).
  assert (Rq : RNG hstate cq) by (destruct R as [r1 r2 r3 r4]; constructor; assumption).
  assert (Eq : ES hstate cq) by (apply (ES_same hstate c); try reflexivity; auto).
  assert (Nq : NSb hstate cq) by (intros WC p HP; apply (N LV WC p HP)).
  destruct (cl_write_request enc_field enc_set_max cq tag) as [c1 r] eqn:WR. cbn [fst snd].
  pose proof (write_request_NS hstate enc_field enc_set_max cq tag c1 r Rq Eq Nq WR) as X.
  assert (ST : r = CWRStuck -> cc_wl_stuck c1 = true) by (intros ->; exact X).
  destruct (write_request_Bk cq tag c1 r Eq WR) as (E1 & KO & KN).
  split.
  - intros B ok id K. apply in_tail_Bk; [exact E1 | exact ST|]. apply KO.
    apply (Bk_eqfields True B ok id c cq); try reflexivity. exact K.
  - intros tag' q' x EQ GX LT. inversion EQ; subst tag' q'. apply in_tail_Bk; [exact E1 | exact ST|].
    apply (KN); [|exact GX].
    rewrite (D_nonext_nextID _ _ _ _ (in_tail_D c1 tag r) wlout_nonext) in LT. exact LT.
Qed.

(* case <-c.winCh *)
Lemma wl_win_Bk (c : cconn) order B ok id : RNG hstate c -> ES hstate c -> Bk True B ok id c ->
  Bk (cl_wl_live (cl_wl_win cfg c order) = true) B ok id (cl_wl_win cfg c order).
Proof.
  intros R E K. unfold cl_wl_win. destruct (cc_winCh c) eqn:WC; cbn [negb]; [|apply Bk_any; exact K].
  set (c1 := ccu_winCh c false).
  assert (R1 : RNG hstate c1) by (destruct R as [r1 r2 r3 r4]; constructor; assumption).
  assert (E1 : ES hstate c1) by (apply (ES_same hstate c); try reflexivity; auto).
  assert (K1 : Bk True B ok id c1).
  { apply (Bk_eqfields True B ok id c c1); try reflexivity. exact K. }
  pose proof (flush_pending_post hstate (cl_pending_order c1 order) c1 R1) as FP.
  destruct (flush_pending_Bk hstate enc_field enc_set_max B ok id (cl_pending_order c1 order) c1 E1 K1) as [K2 E2].
  destruct (cl_flush_pending c1 (cl_pending_order c1 order)) as [c2 r]. cbn [fst snd] in *. destruct FP as [_ _ _ _ _ f6].
  destruct r.
  - assert (K3 : Bk True B ok id c2) by (apply (Bk_weaken hstate (sp_ok CSPOk) True); [intros _; reflexivity | exact K2]).
    apply Bk_any. apply (D_Bk hstate enc_field enc_set_max _ _ True B ok id c2 _ (wl_after_D hstate enc_field enc_set_max cfg CEvWLOut c2 I)); [apply wlout_untouched | exact E2 | exact K3].
  - apply Bk_not; [rewrite wl_exit_dead; discriminate|].
    apply (D_Bk hstate enc_field enc_set_max _ _ False B ok id c2 _ (wl_exit_D hstate enc_field enc_set_max CEvWLOut c2 (Some CEWrite) 1 I)); [apply wlout_untouched | exact E2|].
    apply (Bk_weaken hstate (sp_ok CSPWriteErr) False); [intros [] | exact K2].
  - apply Bk_not; [unfold cl_wl_live; rewrite f6, andb_false_r; discriminate|].
    apply (Bk_weaken hstate (sp_ok CSPStuck) False); [intros [] | exact K2].
Qed.

(* ---------- every step ---------- *)

Lemma step_Bk (c : cconn) e B ok id : RNG hstate c -> ES hstate c -> NS hstate c ->
  Bk (cl_wl_live c = true) B ok id c -> Bk (cl_wl_live (step c e) = true) B ok id (step c e).
Proof.
  intros R E N K.
  assert (GEN : ~ is_wlf e -> Bk (cl_wl_live (step c e) = true) B ok id (step c e)).
  { intro NW. destruct (step_D hstate dec_field enc_field enc_set_max cfg c e) as (ms & M & F & _).
    apply (Bk_weaken hstate (cl_wl_live c = true)); [apply (mvs_live hstate enc_field enc_set_max _ _ _ M)|].
    apply (mvs_Bk hstate enc_field enc_set_max _ B ok id c ms _ M); [|exact E | exact K].
    eapply Forall_impl; [|exact F].
    intros m EV. destruct m; cbn [CliFlowCInv.untouched]; try exact I; cbn in EV; exfalso; apply NW; exact EV. }
  destruct e; try (apply GEN; intros []; fail).
  - cbn [cl_step]. destruct (cl_wl_live c) eqn:LV; [|apply (Bk_weaken hstate (false = true)); [rewrite LV; auto | exact K]].
    apply (wl_in_Bk c R E N LV). apply (Bk_weaken hstate (true = true)); [auto | exact K].
  - cbn [cl_step]. destruct (cl_wl_live c) eqn:LV; [|apply (Bk_weaken hstate (false = true)); [rewrite LV; auto | exact K]].
    apply wl_win_Bk; [exact R | exact E|]. apply (Bk_weaken hstate (true = true)); [auto | exact K].
Qed.

(* the stream a step opens *)
Lemma step_new (c : cconn) tag q x : RNG hstate c -> ES hstate c -> NS hstate c ->
  cl_wl_live c = true -> cc_inQ c = tag :: q -> cl_ctx_get c tag = Some x -> cc_nextID c < cc_nextID (step c CEvWLIn) ->
  Bk (cl_wl_live (step c CEvWLIn) = true) (fst (rq_body (ct_req x))) (snd (rq_body (ct_req x))) (cc_nextID c) (step c CEvWLIn).
Proof.
  intros R E N LV Q GX LT. cbn [cl_step] in *. rewrite LV in *. apply (proj2 (wl_in_Bk c R E N LV) tag q x Q GX LT).
Qed.

End Step.
