(* Proofs/SrvFlowCView.v - C06 completion: the response frames (HEADERS, DATA) of one stream in the trace, and what
   the pieces of the stream loop that work on ANOTHER stream leave alone. *)
From H2V Require Import Base.Bytes Base.MachineInt Base.Result Gen.GenConsts Impl.ServerConn Proofs.SrvBase
  Spec.FlowLedger Proofs.SrvFlowLedger Proofs.SrvFlowDefs Proofs.SrvFlowSend Proofs.SrvFlowEff Proofs.SrvFlowSafe
  Proofs.SrvFlowSafeB Proofs.SrvFlowSafeC Proofs.SrvFlowEs Proofs.SrvFlowRecv Proofs.SrvFlowCDecomp Proofs.SrvFlowCMono.
From Coq Require Import ZArith Lia ZifyN ZifyNat ZifyBool List.
Import ListNotations.
Local Open Scope N_scope.
Set Default Proof Using "Type".

(* the response frames on stream sid, in the order of the list *)
Definition on_sid (sid : N) (o : outev) : bool := match frame_sid o with Some s => s =? sid | None => false end.
Definition rf (sid : N) (out : list outev) : list outev := filter (on_sid sid) out.

(* every response frame in the list is on stream i *)
Definition only_on (i : N) (new : list outev) : Prop := Forall (fun o => frame_sid o = None \/ frame_sid o = Some i) new.

Lemma rf_app sid a b : rf sid (a ++ b) = rf sid a ++ rf sid b.
Proof. apply filter_app. Qed.

Lemma rf_only_on sid i new : only_on i new -> i <> sid -> rf sid new = [].
Proof.
  induction 1 as [|o l Ho _ IH]; intro NE; [reflexivity|]. cbn [rf filter]. fold (rf sid l). rewrite (IH NE).
  unfold on_sid. destruct Ho as [->| ->]; [reflexivity|]. replace (i =? sid) with false by lia. reflexivity.
Qed.

Lemma rf_noframe sid new : Forall noframe_out new -> rf sid new = [].
Proof.
  induction 1 as [|o l Ho _ IH]; [reflexivity|]. cbn [rf filter]. fold (rf sid l). rewrite IH.
  unfold on_sid. unfold noframe_out in Ho. rewrite Ho. reflexivity.
Qed.

Lemma only_on_noframe i new : Forall noframe_out new -> only_on i new.
Proof. apply Forall_impl. intros o H. left. exact H. Qed.
Lemma only_on_app i a b : only_on i a -> only_on i b -> only_on i (a ++ b).
Proof. intros. apply Forall_app. split; assumption. Qed.

Lemma search_put_other l x id : id <> st_id x -> strms_search (strms_put l x) id = strms_search l id.
Proof.
  intro Hn. induction l as [|y t IH]; cbn [strms_search strms_put]; [reflexivity|].
  destruct (st_id y =? st_id x) eqn:E; cbn [strms_search].
  - replace (st_id x =? id) with false by lia. replace (st_id y =? id) with false by lia. reflexivity.
  - rewrite IH. reflexivity.
Qed.

Lemma search_put_same l x old : strms_search l (st_id x) = Some old -> strms_search (strms_put l x) (st_id x) = Some x.
Proof.
  induction l as [|y t IH]; cbn [strms_search strms_put]; [discriminate|].
  destruct (st_id y =? st_id x) eqn:E; intro H; cbn [strms_search].
  - rewrite N.eqb_refl. reflexivity.
  - rewrite E. auto.
Qed.

Lemma search_app_other l x id : id <> st_id x -> strms_search (l ++ [x]) id = strms_search l id.
Proof.
  intro Hn. induction l as [|y t IH]; cbn [strms_search app].
  - replace (st_id x =? id) with false by lia. reflexivity.
  - destruct (st_id y =? id); [reflexivity | exact IH].
Qed.

Lemma search_map_bump delta l id :
  strms_search (map (bump delta) l) id = match strms_search l id with Some s => Some (bump delta s) | None => None end.
Proof.
  induction l as [|y t IH]; cbn [strms_search map]; [reflexivity|]. cbn [bump st_id set_window].
  destruct (st_id y =? id); [reflexivity | exact IH].
Qed.

Lemma search_del_same l id : NoDup (map st_id l) -> strms_search (strms_del l id) id = None.
Proof.
  induction l as [|y t IH]; cbn [strms_del map]; intro ND; [reflexivity|]. inversion ND; subst.
  destruct (st_id y =? id) eqn:E.
  - destruct (strms_search t id) as [z|] eqn:F; [|reflexivity].
    exfalso. apply strms_search_In in F. destruct F as [Hin Hid]. apply H1. replace (st_id y) with (st_id z) by lia.
    apply in_map. exact Hin.
  - cbn [strms_search]. rewrite E. apply IH. assumption.
Qed.

Section View.
Variable hstate : Type.
Variable dec_field : hstate -> N -> bytes -> dec_res hstate.
Variable enc_field : hstate -> bytes -> bytes -> bool -> bytes * hstate.
Variable enc_set_max : hstate -> N -> hstate.
Variable cfg : config.
Notation sconn := (sconn hstate).
Implicit Types c : sconn.

(* the trace grows by response frames on stream i only *)
Definition ext_on (i : N) c c' : Prop := exists new, sc_out c' = new ++ sc_out c /\ only_on i new.

Lemma ext_on_refl i c : ext_on i c c.
Proof. exists []. split; [reflexivity | constructor]. Qed.
Lemma ext_on_trans i a b c : ext_on i a b -> ext_on i b c -> ext_on i a c.
Proof.
  intros (n1 & E1 & F1) (n2 & E2 & F2). exists (n2 ++ n1). split; [rewrite E2, E1, app_assoc; reflexivity|].
  apply only_on_app; assumption.
Qed.
Lemma ext_on_noframe i c c' : out_ext noframe_out c c' -> ext_on i c c'.
Proof. intros (new & E & F). exists new. split; [exact E | apply only_on_noframe, F]. Qed.
Lemma ext_on_quiet i c c' : out_ext quiet_out c c' -> ext_on i c c'.
Proof. intro O. apply ext_on_noframe, out_quiet_noframe, O. Qed.
Lemma ext_on_same i c c' : sc_out c' = sc_out c -> ext_on i c c'.
Proof. intro E. exists []. split; [exact E | constructor]. Qed.
Lemma ext_on_emit i c o : frame_sid o = None \/ frame_sid o = Some i -> ext_on i c (emit c o).
Proof.
  intro H. destruct (emit_cases _ c o) as (pre & E & Hpre). exists pre. split; [exact E|].
  unfold only_on. destruct Hpre as [->|[->| ->]]; [constructor | constructor; [exact H | constructor] | constructor; [exact H | constructor]].
Qed.
Lemma ext_on_rf i sid c c' : ext_on i c c' -> i <> sid -> rf sid (sc_out c') = rf sid (sc_out c).
Proof. intros (new & E & F) NE. rewrite E, rf_app, (rf_only_on _ _ _ F NE). reflexivity. Qed.
Lemma ext_on_any i c c' : ext_on i c c' -> out_ext any_out c c'.
Proof. intros (new & E & _). exists new. split; [exact E|]. apply Forall_forall. intros; exact I. Qed.

Lemma ext_on_sd_c2 sid c n : ext_on sid c (sd_c2 c sid n).
Proof.
  unfold sd_c2. apply (ext_on_trans sid c (emit c (OData sid (sd_es c n) (sd_chunk c n)))).
  - apply ext_on_emit. right. reflexivity.
  - apply ext_on_same. reflexivity.
Qed.

Lemma SDL_ext_on sid c n r k : SDL sid c n r k -> ext_on sid c (fst (fst (fst r))).
Proof.
  induction 1; cbn [fst].
  - apply ext_on_refl.
  - apply ext_on_refl.
  - unfold write_reset. apply ext_on_emit. left. reflexivity.
  - destruct (sn_pendingEnd n1); [apply ext_on_emit; right; reflexivity | apply ext_on_refl].
  - apply ext_on_refl.
  - apply ext_on_sd_c2.
  - eapply ext_on_trans; [apply ext_on_sd_c2 | exact IHSDL].
Qed.

(* the stream sendData hands back: flags, state, id as before *)
Lemma send_data_stream c s :
  let s' := snd (fst (send_data c s)) in
  st_id s' = st_id s /\ st_state s' = st_state s /\ st_responded s' = st_responded s /\
  st_handlerRunning s' = st_handlerRunning s /\ sc_strms (fst (fst (send_data c s))) = sc_strms c /\
  sc_highestID (fst (fst (send_data c s))) = sc_highestID c /\ ext_on (st_id s) c (fst (fst (send_data c s))).
Proof.
  cbv zeta. unfold send_data.
  destruct (send_data_loop_SDL _ (st_id s) (send_data_fuel (get_snd s)) c (get_snd s)) as [k H].
  pose proof (SDL_Frame _ _ _ _ _ _ H) as (_ & E1 & _ & _ & E4). pose proof (SDL_ext_on _ _ _ _ _ H) as O.
  destruct (send_data_loop (send_data_fuel (get_snd s)) c (st_id s) (get_snd s)) as [[[c1 n1] done] wr].
  cbn [fst snd] in *. destruct wr; cbn; repeat split; assumption.
Qed.

Lemma finish_request_stream c s r :
  let res := finish_request enc_field c s r in
  st_id (snd (fst res)) = st_id s /\ st_state (snd (fst res)) = st_state s /\ st_responded (snd (fst res)) = st_responded s /\
  st_handlerRunning (snd (fst res)) = st_handlerRunning s /\ sc_strms (fst (fst res)) = sc_strms c /\
  sc_highestID (fst (fst res)) = sc_highestID c /\ ext_on (st_id s) c (fst (fst res)).
Proof.
  cbv zeta. unfold finish_request. destruct (response_block enc_field (sc_enc c) r) as [blk e'].
  set (c1 := emit (upd_enc c e') _).
  assert (O1 : ext_on (st_id s) c c1).
  { subst c1. eapply ext_on_trans; [apply (ext_on_same _ c (upd_enc c e')); reflexivity | apply ext_on_emit; right; reflexivity]. }
  match goal with |- context [if ?b then _ else _] => destruct b end; cbn [fst snd].
  - subst c1. rewrite sc_strms_emit, sc_highestID_emit. repeat split. exact O1.
  - match goal with |- context [send_data c1 ?x] => destruct (send_data_stream c1 x) as (A1 & A2 & A3 & A4 & A5 & A6 & A7) end.
    cbv zeta in *. rewrite A1, A2, A3, A4, A5, A6. subst c1. rewrite sc_strms_emit, sc_highestID_emit. repeat split.
    eapply ext_on_trans; [exact O1 | exact A7].
Qed.

(* ---------- what is kept for stream sid ---------- *)

Record Keeps (sid : N) c c' : Prop := mkKeeps {
  k_search : strms_search (sc_strms c') sid = strms_search (sc_strms c) sid;
  k_rf : rf sid (sc_out c') = rf sid (sc_out c);
  k_hi : sc_highestID c <= sc_highestID c'
}.

Lemma Keeps_refl sid c : Keeps sid c c.
Proof. constructor; reflexivity. Qed.
Lemma Keeps_trans sid a b c : Keeps sid a b -> Keeps sid b c -> Keeps sid a c.
Proof. intros [a1 a2 a3] [b1 b2 b3]. constructor; [congruence | congruence | flia]. Qed.
Lemma Keeps_ext sid i c c' : sc_strms c' = sc_strms c -> sc_highestID c <= sc_highestID c' -> ext_on i c c' -> i <> sid -> Keeps sid c c'.
Proof. intros E H O NE. constructor; [rewrite E; reflexivity | eapply ext_on_rf; eassumption | exact H]. Qed.
Lemma Keeps_Quiet sid c c' : Quiet c c' -> Keeps sid c c'.
Proof.
  intro Q. constructor; [rewrite (q_strms _ _ _ Q); reflexivity | | apply Q].
  destruct (out_quiet_noframe _ _ _ (q_out _ _ _ Q)) as (new & E & F). rewrite E, rf_app, (rf_noframe _ _ F). reflexivity.
Qed.
Lemma Keeps_Recv sid c c' : Recv c c' -> Keeps sid c c'.
Proof.
  intro Q. constructor; [rewrite (rv_strms _ _ _ Q); reflexivity | | rewrite (rv_highestID _ _ _ Q); flia].
  destruct (rv_out _ _ _ Q) as (new & E & F). rewrite E, rf_app, rf_noframe; [reflexivity|].
  eapply Forall_impl; [|exact F]. apply winupd_noframe.
Qed.
Lemma Keeps_put sid c x : st_id x <> sid -> Keeps sid c (put c x).
Proof. intro NE. constructor; unfold put; sc_cbn; [apply search_put_other; congruence | reflexivity | flia]. Qed.
Lemma Keeps_close sid c x : st_id x <> sid -> Keeps sid c (close_stream c x).
Proof.
  intro NE. constructor.
  - rewrite sc_strms_close_stream. apply search_del_other. congruence.
  - destruct (out_quiet_noframe _ _ _ (close_stream_out _ c x)) as (new & E & F). rewrite E, rf_app, (rf_noframe _ _ F). reflexivity.
  - rewrite sc_highestID_close_stream. flia.
Qed.
Lemma Keeps_brk sid c : Keeps sid c (fst (brk c)).
Proof. apply Keeps_Quiet, Quiet_brk. Qed.

Lemma Keeps_send_data sid c s : st_id s <> sid -> Keeps sid c (fst (fst (send_data c s))).
Proof.
  intro NE. destruct (send_data_stream c s) as (_ & _ & _ & _ & A5 & A6 & A7).
  eapply Keeps_ext; [exact A5 | rewrite A6; flia | exact A7 | exact NE].
Qed.

Lemma Keeps_after_frame sid c s fr wc : st_id s <> sid -> Keeps sid c (fst (after_frame cfg c s fr wc)).
Proof.
  intro NE. unfold after_frame. cbv zeta.
  destruct (handle_state_eff fr s) as ((I1 & _) & _). set (s1 := handle_state fr s) in *.
  match goal with |- context [let '(c2, s2) := ?X in _] => assert (M : Keeps sid c (fst X) /\ st_id (snd X) = st_id s) end.
  { destruct (sstate_eqb (st_state s1) SHalfClosed && st_headersFinished s1 && negb (st_responded s1)).
    - match goal with |- context [if ?b then _ else _] => destruct b end; cbn [fst snd].
      + split; [apply Keeps_Quiet, Quiet_write_reset | exact I1].
      + split; [apply Keeps_Quiet, (Quiet_note _ c (ODispatch _ _) I) | exact I1].
    - destruct (st_responded s1 && negb (st_handlerRunning s1) && has_more_to_send s1).
      + pose proof (Keeps_send_data sid c s1) as K. destruct (send_data_stream c s1) as (E & _). cbv zeta in E.
        destruct (send_data c s1) as [[c1 s2] fin]. cbn [fst snd] in *.
        split; [apply K; congruence | destruct fin; cbn [st_id set_state]; congruence].
      + cbn [fst snd]. split; [apply Keeps_refl | exact I1]. }
  match goal with |- context [let '(c2, s2) := ?X in _] => destruct X as [c2 s2] end. cbn [fst snd] in M.
  destruct M as (K & I2).
  assert (G : Keeps sid c (if sstate_eqb (st_state s2) SClosed then close_stream (put c2 s2) s2 else put c2 s2)).
  { eapply Keeps_trans; [exact K|]. destruct (sstate_eqb (st_state s2) SClosed).
    - eapply Keeps_trans; [apply Keeps_put | apply Keeps_close]; congruence.
    - apply Keeps_put. congruence. }
  match goal with |- context [if ?b then brk ?x else cont ?x] => destruct b end; cbn [fst cont]; [|exact G].
  eapply Keeps_trans; [exact G | apply Keeps_brk].
Qed.

Lemma Keeps_flush_loop sid ids : forall c done, strms_search (sc_strms c) sid = None \/ ~ In sid ids ->
  Keeps sid c (fst (flush_loop c ids done)).
Proof.
  induction ids as [|id t IH]; intros c done H; cbn [flush_loop]; [apply Keeps_refl|].
  assert (H' : forall c', Keeps sid c c' -> strms_search (sc_strms c') sid = None \/ ~ In sid t).
  { intros c' K. destruct H as [H|H]; [left; rewrite (k_search _ _ _ K); exact H | right; intro X; apply H; right; exact X]. }
  destruct (strms_search (sc_strms c) id) as [s|] eqn:F; [|apply IH, H', Keeps_refl].
  destruct (st_responded s && negb (st_handlerRunning s) && has_more_to_send s); [|apply IH, H', Keeps_refl].
  assert (NE : st_id s <> sid).
  { pose proof (strms_search_In _ _ _ F) as [_ Hid]. destruct H as [H|H]; [|intro; apply H; left; congruence].
    intro E. assert (X : id = sid) by congruence. rewrite <- X in H. congruence. }
  pose proof (Keeps_send_data sid c s NE) as K. destruct (send_data_stream c s) as (E & _). cbv zeta in E.
  destruct (send_data c s) as [[c1 s1] fin]. cbn [fst snd] in *.
  assert (K2 : Keeps sid c (put c1 s1)) by (eapply Keeps_trans; [exact K | apply Keeps_put; congruence]).
  eapply Keeps_trans; [exact K2 | apply IH, H', K2].
Qed.

End View.
