(* Proofs/CliResInst.v - C12/C11: the theorems of Proofs/CliResThms.v and CliResGoAway.v for the instance with the real HPACK
   coder, in the vocabulary of Proofs/CliDefs.v (cli_run, cli_tr, cli_log, results_for, ...). *)
From H2V Require Import Base.Bytes Base.MachineInt Base.Result Gen.GenConsts Impl.Hpack Impl.ServerConn Impl.ServerInst
     Impl.ClientConn Impl.ClientInst Proofs.HpackTotal Proofs.CliBase Proofs.CliDefs
     Proofs.CliResInv Proofs.CliResStep Proofs.CliResMoves Proofs.CliResThms Proofs.CliResGoAway Proofs.CliResNil Proofs.CliResComplete.
From Coq Require Import ZArith Lia ZifyN ZifyNat ZifyBool List Bool.
Import ListNotations.
Local Open Scope N_scope.

(* the HPACK decoder of the instance never panics (C03_next_field_no_panic) *)
Lemma cli_dec_no_panic : no_panic_dec cli_dec_field.
Proof.
  intros hp n b. unfold cli_dec_field, srv_dec_field. pose proof (next_field_no_panic hp empty_field true n b) as H.
  destruct (nf_res (next_field hp empty_field true n b)) as [[rest [|]]|e|w]; try discriminate.
  destruct (e =? E_unexpected_size); discriminate.
Qed.

Notation crun cfg first evs := (cl_run cli_dec_field cli_enc_field set_max_table_size cfg cli_init_hpack first evs).
Notation cstep cfg := (cl_step cli_dec_field cli_enc_field set_max_table_size cfg).

Lemma cli_run_eq cfg first evs : cli_run cfg first evs = crun cfg first evs.
Proof. reflexivity. Qed.
Lemma cli_tr_eq cfg first evs : cli_tr cfg first evs = rev (cc_out (crun cfg first evs)).
Proof. reflexivity. Qed.

(* ---------- the log ---------- *)
Lemma cli_new_app (c c' : cst) l : cc_out c' = l ++ cc_out c -> cli_new c c' = rev l.
Proof.
  intro H. unfold cli_new, cst_out. rewrite H, app_length. replace (length l + length (cc_out c) - length (cc_out c))%nat with (length l) by lia.
  rewrite firstn_app, Nat.sub_diag, firstn_all. cbn [firstn]. rewrite app_nil_r. reflexivity.
Qed.

Lemma cli_log_from_In cfg c evs e : In e (cli_log_from cfg c evs) ->
  exists pre post, evs = pre ++ le_ev e :: post /\ le_before e = fold_left (cli_step cfg) pre c /\
                   le_after e = cli_step cfg (le_before e) (le_ev e) /\ le_items e = cli_new (le_before e) (le_after e).
Proof.
  revert c. induction evs as [|a evs IH]; intros c H; [destruct H|]. cbn [cli_log_from] in H. destruct H as [<-|H].
  - exists [], evs. cbn. auto.
  - destruct (IH _ H) as (pre & post & -> & B & A & I). exists (a :: pre), post. cbn. auto.
Qed.

Lemma cli_log_In cfg first evs e : In e (cli_log cfg first evs) ->
  exists pre post, evs = pre ++ le_ev e :: post /\ le_before e = crun cfg first pre /\
                   le_after e = cstep cfg (le_before e) (le_ev e) /\ le_items e = cli_new (le_before e) (le_after e).
Proof. apply cli_log_from_In. Qed.

(* ---------- counting results ---------- *)
Lemma results_for_length tag tr : length (results_for tag tr) = length (filter (is_res_of tag) tr).
Proof.
  induction tr as [|o tr IH]; [reflexivity|]. unfold results_for in *. cbn [flat_map filter]. rewrite app_length, IH.
  destruct o; cbn [is_res_of]; try reflexivity. destruct (tag0 =? tag); reflexivity.
Qed.

Lemma filter_rev_length {A} (f : A -> bool) l : length (filter f (rev l)) = length (filter f l).
Proof.
  induction l as [|a l IH]; [reflexivity|]. cbn [rev filter]. rewrite filter_app, app_length, IH. cbn [filter].
  destruct (f a); cbn [length]; lia.
Qed.

Lemma results_of_In tag retry e resp tr : In (tag, retry, e, resp) (results_of tr) <-> In (COResult tag retry e resp) tr.
Proof.
  unfold results_of. rewrite in_flat_map. split.
  - intros (o & Ho & H). destruct o; cbn in H; try contradiction. destruct H as [H|[]]. inversion H; subst. exact Ho.
  - intro H. eexists. split; [exact H | left; reflexivity].
Qed.

(* ---------- C12 ---------- *)
Lemma i_results_exact cfg first evs tag :
  length (results_for tag (cli_tr cfg first evs)) =
  match cst_ctx (cli_run cfg first evs) tag with Some x => if ct_returned x then 1%nat else 0%nat | None => 0%nat end.
Proof.
  rewrite cli_tr_eq, results_for_length, filter_rev_length.
  apply (results_exact cli_dec_field cli_enc_field set_max_table_size cfg cli_init_hpack first evs tag).
Qed.

Lemma i_at_most_one_result cfg first evs tag : (length (results_for tag (cli_tr cfg first evs)) <= 1)%nat.
Proof.
  rewrite cli_tr_eq, results_for_length, filter_rev_length.
  apply (results_at_most_once cli_dec_field cli_enc_field set_max_table_size cfg cli_init_hpack first evs tag).
Qed.

Lemma i_inv cfg first evs : inv (cli_run cfg first evs).
Proof. apply inv_run. Qed.

Lemma i_no_delivery_after_return cfg first evs tag x :
  cst_ctx (cli_run cfg first evs) tag = Some x -> ct_returned x = true ->
  ct_err x = None /\ ct_resolved x = true /\ ct_done x = true.
Proof.
  intros G R. destruct (i_inv cfg first evs) as [St _]. destruct (s_ret _ St _ _ G) as [A B]. destruct (B R). rewrite A. auto.
Qed.

Lemma existsb_rev_false {A} (f : A -> bool) l : (forall a, In a l -> f a = false) -> existsb f (rev l) = false.
Proof.
  intro H. destruct (existsb f (rev l)) eqn:E; [|reflexivity]. apply existsb_exists in E. destruct E as (a & Ha & Fa).
  apply in_rev in Ha. rewrite (H a Ha) in Fa. discriminate.
Qed.

Lemma i_no_self_deadlock cfg first evs : existsb is_deadlock (cli_tr cfg first evs) = false.
Proof.
  rewrite cli_tr_eq. apply existsb_rev_false. intros o Ho.
  apply (trace_safe cli_dec_field cli_enc_field set_max_table_size cfg cli_init_hpack first evs o Ho).
Qed.

Lemma i_no_panic cfg first evs : existsb is_panic_item (cli_tr cfg first evs) = false.
Proof.
  rewrite cli_tr_eq. apply existsb_rev_false. intros o Ho.
  destruct (trace_safe cli_dec_field cli_enc_field set_max_table_size cfg cli_init_hpack first evs o Ho) as [_ H].
  destruct (is_panic_item o) eqn:E; [|reflexivity]. exfalso. apply H; [destruct o; try discriminate; reflexivity | exact cli_dec_no_panic].
Qed.

Lemma i_never_stuck cfg first evs : let c := cli_run cfg first evs in
  cc_rl_stuck c = false /\ cc_wl_stuck c = false /\ forall x, In x (cc_ctxs c) -> ct_lckStuck x = false.
Proof. apply never_stuck. Qed.

Lemma i_no_stranding cfg first evs : let c := cli_run cfg first evs in cc_wl_done c = true ->
  cc_closed c = true /\ cc_reqQueued c = [] /\
  forall x, In x (cc_ctxs c) -> answered x = true \/ (ct_writing x = true /\ In (ct_tag x) (cc_inQ c)).
Proof. apply no_stranding. Qed.

Lemma i_request_position cfg first evs : let c := cli_run cfg first evs in
  NoDup (map ct_tag (cc_ctxs c)) /\ NoDup (cc_inQ c) /\ NoDup (map snd (cc_reqQueued c)) /\ NoDup (map fst (cc_reqQueued c)) /\
  (forall t, In t (cc_inQ c) -> ~ In t (map snd (cc_reqQueued c))) /\
  (forall t, In t (cc_inQ c) \/ In t (map snd (cc_reqQueued c)) -> cl_ctx_get c t <> None) /\
  (forall x, In x (cc_ctxs c) -> ~ In (ct_tag x) (cc_inQ c) -> ~ In (ct_tag x) (map snd (cc_reqQueued c)) -> answered x = true).
Proof. apply request_position. Qed.

Lemma existsb_false_In {A} (f : A -> bool) l a : existsb f l = false -> In a l -> f a = false.
Proof.
  intros H Ha. destruct (f a) eqn:E; [|reflexivity]. assert (existsb f l = true) by (apply existsb_exists; eauto). congruence.
Qed.

Lemma i_dropped_means_answered cfg first evs x : let c := cli_run cfg first evs in
  In x (cc_ctxs c) -> cst_refers c (ct_tag x) = false -> answered x = true.
Proof.
  cbv zeta. intros Hx Rf. destruct (i_request_position cfg first evs) as (_ & _ & _ & _ & _ & _ & H). apply (H x Hx).
  - intro J. unfold cst_refers in Rf. apply orb_false_iff in Rf. destruct Rf as [_ Rf].
    pose proof (existsb_false_In _ _ _ Rf J) as F. rewrite N.eqb_refl in F. discriminate.
  - intro J. apply in_map_iff in J. destruct J as ([i u] & Hu & J). cbn in Hu. subst u.
    unfold cst_refers in Rf. apply orb_false_iff in Rf. destruct Rf as [Rf _]. apply orb_false_iff in Rf. destruct Rf as [Rf _].
    pose proof (existsb_false_In _ _ _ Rf J) as F. cbn in F. rewrite N.eqb_refl in F. discriminate.
Qed.

Lemma i_rl_exit_closes cfg first evs : cc_rl_done (cli_run cfg first evs) = true -> cc_closed (cli_run cfg first evs) = true.
Proof. apply rl_exit_closes. Qed.

Lemma i_wl_done_enabled cfg (c : cst) : cc_closed c = true -> cl_wl_live c = true -> cc_wl_done (cli_step cfg c CEvWLDone) = true.
Proof. apply wl_done_enabled. Qed.

Lemma i_reach cfg first evs : cl_reachable cli_dec_field cli_enc_field set_max_table_size cfg cli_init_hpack first (cli_run cfg first evs).
Proof. apply cl_run_reachable. Qed.

Lemma i_check_answers cfg first evs t x : let c := cli_run cfg first evs in
  cst_ctx c t = Some x -> ct_writing x = true -> cc_closed c = true ->
  exists x', cst_ctx (cli_step cfg c (CEvSubmitCheck t)) t = Some x' /\ ct_writing x' = false /\
             (ct_sid x = 0 -> answered x' = true) /\ (ct_sid x <> 0 -> x' = ctu_writing x false).
Proof. cbv zeta. intros G W C. apply (check_answers _ _ _ _ _ _ _ _ _ (i_reach cfg first evs) G W C). Qed.

Lemma i_timeout_answers cfg first evs t x : let c := cli_run cfg first evs in
  cst_ctx c t = Some x -> ct_armed x = true -> ct_fired x = false ->
  exists x', cst_ctx (cli_step cfg c (CEvTimeout t)) t = Some x' /\ answered x' = true /\
             (ct_returned x = false -> ct_err x = None -> ct_err x' = Some CETimeout).
Proof. cbv zeta. intros G A F. apply (timeout_answers _ _ _ _ _ _ _ _ _ (i_reach cfg first evs) G A F). Qed.

Lemma i_write_after_close cfg first evs tag rq q :
  cc_closed (cli_run cfg first evs) = true -> cst_ctx (cli_run cfg first evs) tag = None ->
  exists x, cst_ctx (cli_run cfg first (evs ++ [CEvSubmit tag rq q; CEvSubmitCheck tag])) tag = Some x /\
            ct_err x <> None /\ ct_returned x = false /\ ct_sid x = 0.
Proof.
  intros C G. destruct (write_after_close _ _ _ _ _ _ _ tag rq q (i_reach cfg first evs) C G) as (x & Gx & A & Z & Rt).
  exists x. unfold cli_run. rewrite cl_run_app. cbn [cl_run_from fold_left]. split; [exact Gx|]. split; [|auto].
  intro E. unfold answered in A. rewrite E, Rt in A. discriminate.
Qed.

(* ---------- C11 ---------- *)
Lemma headers_of_nil_iff l : headers_of l = [] <-> Forall (fun o => is_headers o = false) l.
Proof.
  unfold headers_of. induction l as [|o l IH]; cbn [flat_map]; [split; auto|]. split.
  - intro H. apply app_eq_nil in H. destruct H as [H1 H2]. constructor; [destruct o; try reflexivity; discriminate | apply IH, H2].
  - intro H. inversion H; subst. destruct o; try discriminate; cbn [app]; apply IH; assumption.
Qed.

(* (a) once goAway is set no step writes a HEADERS frame *)
Lemma i_no_new_stream_after_goaway cfg first evs e :
  In e (cli_log cfg first evs) -> cc_goAway (le_before e) = true -> headers_of (le_items e) = [].
Proof.
  intros He GA. destruct (cli_log_In cfg first evs e He) as (pre & post & _ & B & A & I).
  set (c := le_before e) in *. assert (R : cl_reachable cli_dec_field cli_enc_field set_max_table_size cfg cli_init_hpack first c) by (rewrite B; apply cl_run_reachable).
  destruct (ss_out _ _ _ _ (sum_any cli_dec_field cli_enc_field set_max_table_size cfg c (le_ev e) (inv_reach _ _ _ _ _ _ c R))) as (l & Hl & _).
  rewrite I, A, (cli_new_app c _ l Hl). apply headers_of_nil_iff. apply Forall_rev.
  apply (goaway_no_headers cli_dec_field cli_enc_field set_max_table_size cfg cli_init_hpack first c (le_ev e) l R GA Hl).
Qed.

Lemma header_ids_filter tr : header_ids tr = hdr_sids tr.
Proof.
  unfold header_ids, headers_of, hdr_sids. induction tr as [|o tr IH]; [reflexivity|]. cbn [flat_map]. rewrite map_app, IH.
  destruct o; reflexivity.
Qed.

Lemma hdr_sids_filter out : hdr_sids out = hdr_sids (filter is_headers out).
Proof. unfold hdr_sids. induction out as [|o out IH]; [reflexivity|]. destruct o; cbn [filter is_headers flat_map]; rewrite <- ?IH; reflexivity. Qed.

Lemma hdr_sids_rev out : hdr_sids (rev out) = rev (hdr_sids out).
Proof. unfold hdr_sids. induction out as [|o out IH]; [reflexivity|]. cbn [rev flat_map]. rewrite flat_map_app, IH, rev_app_distr. cbn [flat_map]. rewrite app_nil_r.
  destruct o; reflexivity. Qed.

(* ... for ever: the stream ids on the wire stay what they were when the GOAWAY had been taken in *)
Lemma i_goaway_no_headers_ever cfg first evs1 evs2 : cc_goAway (cli_run cfg first evs1) = true ->
  cc_goAway (cli_run cfg first (evs1 ++ evs2)) = true /\
  header_ids (cli_tr cfg first (evs1 ++ evs2)) = header_ids (cli_tr cfg first evs1).
Proof.
  intro GA. destruct (goaway_no_headers_ever cli_dec_field cli_enc_field set_max_table_size cfg cli_init_hpack first evs1 evs2 GA) as [G F].
  split; [exact G|]. rewrite !header_ids_filter, !cli_tr_eq, !hdr_sids_rev. f_equal.
  rewrite hdr_sids_filter, (hdr_sids_filter (cc_out (crun cfg first evs1))). f_equal. exact F.
Qed.

(* (b) the step that takes a GOAWAY in *)
Lemma i_goaway_step cfg first evs fr : let c := cli_run cfg first evs in
  cl_rl_live c = true -> cc_netClosed c = false -> sf_kind fr = KGoAway -> sf_sid fr = 0 ->
  let c' := cli_step cfg c (CEvRL (RFrame fr)) in
  cc_goAway c' = true /\ cc_closeRef c' = sf_dep fr /\
  cc_reqQueued c' = filter (fun e => negb (sf_dep fr <? fst e)) (cc_reqQueued c) /\
  forall id t, In (id, t) (cc_reqQueued c) -> sf_dep fr < id ->
    exists x x', cst_ctx c t = Some x /\ cst_ctx c' t = Some x' /\ ct_sid x = id /\
                 ct_finished x' = true /\ answered x' = true /\ (answered x = false -> ct_err x' = Some CEGoAway).
Proof. cbv zeta. intros RL NC K Z. apply (goaway_step _ _ _ _ _ _ _ fr (i_reach cfg first evs) RL NC K Z). Qed.

(* (c) retryable only for a request this connection never put on the wire, or that the server disclaimed *)
Definition goaway_below cfg first (evs : list cevent) (id : N) : Prop :=
  exists pre fr post, evs = pre ++ CEvRL (RFrame fr) :: post /\ sf_kind fr = KGoAway /\ sf_sid fr = 0 /\ sf_dep fr < id /\
    cl_rl_live (cli_run cfg first pre) = true /\ cc_netClosed (cli_run cfg first pre) = false.

Lemma i_retry_sound cfg first evs tag retry err resp :
  In (tag, retry, err, resp) (results_of (cli_tr cfg first evs)) ->
  retry = cl_retryable err /\
  (retry = true ->
   ~ In (cst_sid (cli_run cfg first evs) tag) (header_ids (cli_tr cfg first evs)) \/
   (err = CEGoAway /\ goaway_below cfg first evs (cst_sid (cli_run cfg first evs) tag))).
Proof.
  intro H. apply results_of_In in H. rewrite cli_tr_eq in H. apply in_rev in H.
  pose proof (retry_flag cli_dec_field cli_enc_field set_max_table_size cfg cli_init_hpack first evs _ _ _ _ H) as F.
  split; [exact F|]. intro Rt. subst retry.
  destruct (retry_sound cli_dec_field cli_enc_field set_max_table_size cfg cli_init_hpack first evs _ _ _ _ H Rt) as (x & G & D).
  unfold cst_sid, cst_ctx. unfold cl_ctx_get in G. unfold cli_run. rewrite G.
  destruct D as [D|[-> GA]]; [left | right; split; [reflexivity | exact GA]].
  rewrite header_ids_filter, cli_tr_eq, hdr_sids_rev. intro J. apply in_rev in J. exact (D J).
Qed.


(* ---------- C12 (b) ---------- *)
Lemma i_nil_complete cfg first evs tag retry resp :
  In (tag, retry, CENil, resp) (results_of (cli_tr cfg first evs)) ->
  exists x, cst_ctx (cli_run cfg first evs) tag = Some x /\ ct_sid x <> 0 /\
    exists pre fr post, evs = pre ++ CEvRL (RFrame fr) :: post /\ sf_sid fr = ct_sid x /\
      cl_rl_live (cli_run cfg first pre) = true /\ cc_netClosed (cli_run cfg first pre) = false /\
      es_seen (cli_run cfg first pre) fr /\
      exists t0 x0, In (ct_sid x, t0) (cc_reqQueued (cli_run cfg first pre)) /\ cst_ctx (cli_run cfg first pre) t0 = Some x0 /\
                    ct_done x0 = false /\ status_seen cli_dec_field (cli_run cfg first pre) fr x0.
Proof.
  intro H. apply results_of_In in H. rewrite cli_tr_eq in H. apply in_rev in H.
  apply (nil_complete cli_dec_field cli_enc_field set_max_table_size cfg cli_init_hpack first evs tag retry resp H).
Qed.


(* ---------- C12 (d) ---------- *)
Lemma i_finished_not_held cfg first evs t x : cst_ctx (cli_run cfg first evs) t = Some x -> ct_finished x = true ->
  cst_refers (cli_run cfg first evs) t = false.
Proof.
  intros G F. destruct (finished_not_held cli_dec_field cli_enc_field set_max_table_size cfg cli_init_hpack first evs t x G F) as (N1 & N2 & N3).
  unfold cst_refers. apply orb_false_iff. split; [apply orb_false_iff; split|].
  - destruct (existsb _ (cc_reqQueued _)) eqn:E; [|reflexivity]. exfalso. apply existsb_exists in E. destruct E as ([i u] & J & Hu). cbn in Hu.
    apply N.eqb_eq in Hu. subst u. apply N2. apply in_map_iff. exists (i, t). auto.
  - destruct (existsb _ (cc_pending _)) eqn:E; [|reflexivity]. exfalso. apply existsb_exists in E. destruct E as (pb & J & Hu).
    apply N.eqb_eq in Hu. apply N3. apply in_map_iff. exists pb. auto.
  - destruct (existsb _ (cc_inQ _)) eqn:E; [|reflexivity]. exfalso. apply existsb_exists in E. destruct E as (u & J & Hu).
    apply N.eqb_eq in Hu. subst u. exact (N1 J).
Qed.

Lemma i_pool_put_safe cfg first evs e tag :
  In e (cli_log cfg first evs) -> In (COPoolPut tag) (le_items e) ->
  le_ev e = CEvReceive tag /\ cst_refers (le_after e) tag = false /\
  exists x, cst_ctx (le_before e) tag = Some x /\ ct_finished x = true /\ (ct_armed x = true -> ct_fired x = false) /\
            cst_ctx (le_after e) tag = Some (recv_ctx x) /\ ct_pooled (recv_ctx x) = true /\
            ct_armed (recv_ctx x) = false /\ ct_done (recv_ctx x) = true /\ ct_resolved (recv_ctx x) = true.
Proof.
  intros He Hin. destruct (cli_log_In cfg first evs e He) as (pre & post & Hev & B & A & I).
  set (c := le_before e) in *.
  assert (R : cl_reachable cli_dec_field cli_enc_field set_max_table_size cfg cli_init_hpack first c) by (rewrite B; apply cl_run_reachable).
  destruct (ss_out _ _ _ _ (sum_any cli_dec_field cli_enc_field set_max_table_size cfg c (le_ev e) (inv_reach _ _ _ _ _ _ c R))) as (l & Hl & _).
  rewrite I, A, (cli_new_app c _ l Hl) in Hin. apply in_rev in Hin.
  destruct (pool_put_safe _ _ _ _ _ _ c (le_ev e) l tag R Hl Hin) as (Ee & x & G & Fi & Tm & N1 & N2 & N3 & Q1 & Q2 & Q3 & G' & Rest).
  split; [exact Ee|]. split.
  - (* the state after is a run: the Ctx there is finished too *)
    assert (RA : le_after e = cli_run cfg first (pre ++ [le_ev e])) by (rewrite A; unfold cli_run; rewrite cl_run_snoc, <- B; reflexivity).
    rewrite RA. apply (i_finished_not_held cfg first (pre ++ [le_ev e]) tag (recv_ctx x)); [rewrite <- RA, A; exact G'|].
    cbn. exact Fi.
  - exists x. rewrite A. auto 10.
Qed.

(* ---------- C11 (b): requests at or below last-stream-id complete ---------- *)
(* the decoder of the instance reads the byte 0x88 as (":status", "200") whatever its state (static table, index 8) *)
Lemma cli_dec_200 d n : exists d', cli_dec_field d n [136] = DField hpack_state S_status [50; 48; 48] [] d'.
Proof. exists d. vm_compute. reflexivity. Qed.

Lemma i_completes cfg first evs id tag x : let c := cli_run cfg first evs in
  cl_rl_live c = true -> cc_netClosed c = false -> cc_hdrStream c = 0 ->
  In (id, tag) (cc_reqQueued c) -> cst_ctx c tag = Some x -> ct_done x = false -> ct_err x = None -> ct_gotStatus x = false ->
  let c1 := cli_step cfg c (CEvRL (RFrame (hdr200 id))) in
  exists x1, cst_ctx c1 tag = Some x1 /\ ct_err x1 = Some CENil /\ ct_finished x1 = true /\ ct_gotStatus x1 = true /\
             cr_status (ct_resp x1) = 200%Z /\ ~ In (id, tag) (cc_reqQueued c1) /\
             exists l, cc_out (cli_step cfg c1 (CEvReceive tag)) = l ++ cc_out c1 /\ In (COResult tag false CENil (ct_resp x1)) l.
Proof.
  cbv zeta. intros RL NC HS I G Dn En GS.
  apply (completes cli_dec_field cli_enc_field set_max_table_size cfg cli_init_hpack first cli_dec_200 _ id tag x (i_reach cfg first evs) RL NC HS I G Dn En GS).
Qed.
