(* Proofs/TeardownCliGone2.v -- blocking-structure model (Impl/Teardown.v), client, S3 with the peer gone (2): step obligations.
   Statements: Props/Teardown.v; overview: Proofs/TeardownProofs.v. *)
From Coq Require Import Arith Lia Bool List.
From RecordUpdate Require Import RecordSet.
Import RecordSetNotations.
Import ListNotations.
From H2V Require Import Impl.Teardown Proofs.TeardownGen Proofs.TeardownCliInv Proofs.TeardownCliInv1 Proofs.TeardownCliInv2 Proofs.TeardownCliInv3 Proofs.TeardownCliInv4 Proofs.TeardownCliLocks Proofs.TeardownCliInv5 Proofs.TeardownCliLive1 Proofs.TeardownCliGone0.

Module CliG2.
Import Cli CliP CliP2 CliL CliL2 CliGd.

Ltac easy_fin ::= solve [auto | congruence | lia | tauto | (intuition congruence)
                         | (intuition (try congruence; try lia))
                         | (repeat split; eauto; try congruence; try lia)
                         | (left; repeat split; eauto; try congruence; try lia)
                         | (right; right; right; repeat split; eauto; try congruence; try lia) ].
Ltac solve_side ::= cbn; unf; rwk; rwx; cbn;
  first [ solve [repeat split; eauto; try congruence; try lia]
        | match goal with |- _ \/ _ => first [ solve [left; solve_side] | solve [right; solve_side] ] end
        | solve [timeout 10 fin] ].
Ltac wunf := unfold iterQ, wl_t, wl_iter, wm, pcw in *.

Ltac fast_side := cbn; unf; rwk; rwx; cbn;
  first [ solve [repeat split; eauto; try congruence; try lia]
        | match goal with |- _ \/ _ => first [ solve [left; fast_side] | solve [right; fast_side] ] end ].
Ltac cens1f :=
  let s := fresh "s" in let a := fresh "a" in let I := fresh "I" in
  let HP := fresh "HP" in let G := fresh "G" in
  intros s a I HP G; clear I; act_cases a; cbn in G; break; try lia; params; unf; rwk; cbn in *; unf; xr;
  try congruence;
  first [ left; solve [fast_side] | right; solve [fast_side]
        | left; solve [solve_side] | right; solve [solve_side] | idtac ].
Ltac gunf := unfold PG, QG, OB, rm, rlr in *.
Ltac rl_ob2 :=
  let s := fresh "s" in let a := fresh "a" in let I := fresh "I" in let HP := fresh "HP" in
  let Ga := fresh "Ga" in let G := fresh "G" in
  intros s a I HP Ga G; clear I; act_cases a; cbn in Ga; try contradiction; try lia;
  cbn in G; break; try lia; params; unf; rwk; cbn in *; unf; xr; try congruence; try contradiction;
  try solve [solve_side].

Section P.
Variable cap : nat.
Hypothesis cap_pos : 1 <= cap.
Notation guard := (Cli.guard cap).
Notation reachable := (Cli.reachable cap).
Notation inv := (CliP.inv cap).
Variable r : run guard eff.
Hypothesis F : fair_run cap r.
Hypothesis R0 : reachable (st r 0).
Hypothesis NS : forall i, stalled (st r i) = false \/ dead (st r i) = true.

Notation Inv_run := (CliL2.Inv_run cap cap_pos r R0 NS).
Notation "P ~> Q" := (leadsto r P Q) (at level 70).
Notation ensures := (lt_ensures guard eff r (Inv cap) Inv_run).
Notation ensures_s := (lt_ensures_s guard eff r (Inv cap) Inv_run).
Let Fwl : sfair g_wl r := proj1 (proj2 (proj2 (proj2 F))).
Let Fbody : sfair g_body r := proj1 (proj2 (proj2 (proj2 (proj2 (proj2 (proj2 (proj2 F))))))).
Let Wwl := sfair_fair guard eff r g_wl Fwl.
Let Wbody := sfair_fair guard eff r g_body Fbody.
Notation rl_release := (CliL2.rl_release cap cap_pos r F R0 NS).

Lemma free_ob2 : forall n s a, Inv cap s -> (PG s /\ rm s = n) /\ rl_free s -> g_rl a -> guard a s ->
  QG n (eff a s).
Proof.
  intros n. unfold rl_free; gunf.
  intros s a I HP Ga G. clear I; act_cases a; cbn in Ga; try contradiction; try lia;
    cbn in G; break; try lia; params; unf; rwk; cbn in *; unf; xr; try congruence; try contradiction;
    try solve [fast_side]; try solve [solve_side].
Qed.
Lemma acq_ob2 : forall n s a, Inv cap s -> (PG s /\ rm s = n) /\ rl s = RAcq -> g_rl a -> guard a s ->
  QG n (eff a s).
Proof. intros n; gunf; rl_ob2. Qed.
Lemma out_ob2 : forall n s a, Inv cap s -> (PG s /\ rm s = n) /\ rl_outp s -> g_rl a -> guard a s ->
  QG n (eff a s).
Proof.
  intros n. unfold rl_outp; gunf.
  intros s a I HP Ga G. clear I; act_cases a; cbn in Ga; try contradiction; try lia;
    cbn in G; break; try lia; params; unf; rwk; cbn in *; unf; xr; try congruence;
    repeat match goal with H : _ \/ _ |- _ => destruct H end; break; try congruence;
    rwk; cbn in *; try solve [solve_side].
Qed.
Lemma p3_unless : forall s a, Inv cap s -> P3 cap s -> guard a s -> P3 cap (eff a s) \/ Q3 cap (eff a s).
Proof. unfold P3, Q3; wunf; cens1. Qed.
End P.
End CliG2.
