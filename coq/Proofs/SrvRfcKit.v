(* Proofs/SrvRfcKit.v - C08: tools for the leaves of the case analysis: steps that leave the
   table and the ring alone, and how the specification state moves in them. *)
From H2V Require Import Base.Bytes Base.MachineInt Base.Result Gen.GenConsts Impl.ServerConn.
From H2V Require Import Proofs.SrvBase Proofs.SrvRfcDefs Proofs.SrvRfcSpec Proofs.SrvRfcModel Proofs.SrvRfcSim Proofs.SrvRfcEff Proofs.SrvRfcStep.
From Coq Require Import ZArith Lia ZifyN ZifyNat ZifyBool.
Local Open Scope N_scope.

Lemma rel_rel1 m x : rel m x -> rel1 m x.
Proof. destruct m as [st|b| |]; cbn; auto; intros ->; reflexivity. Qed.

(* ---------- the specification side ---------- *)

Lemma after_outs_quiet s1 d : filter noisy d = [] -> after_outs s1 d = s1.
Proof. unfold after_outs. intros ->. reflexivity. Qed.

Lemma after_outs_eq s1 d nz : filter noisy d = nz -> after_outs s1 d = fold_left RS.spec_sent (flat_map sent_of (rev nz)) s1.
Proof. unfold after_outs. intros ->. reflexivity. Qed.

(* a reaction that leaves every stream where it is *)
Definition stays (s : RS.state) (f : RS.frame) (r : RS.reaction) : Prop :=
  conn_err r = true \/ RS.f_sid f = 0 \/ next_st (RS.st_of s (RS.f_sid f)) f r = RS.st_of s (RS.f_sid f).

Lemma stays_highest s f r : wf s -> stays s f r -> RS.highest (RS.spec_next s (RS.Frame f) r) = RS.highest s.
Proof.
  intros W H. rewrite highest_spec_next by assumption.
  destruct (conn_err r) eqn:CE; [reflexivity|]. destruct (RS.f_sid f =? 0) eqn:Z; [reflexivity|]. cbn [negb andb].
  destruct H as [H|[H|H]]; [congruence | lia |].
  destruct r; try reflexivity; try discriminate; rewrite H;
    (destruct (RS.st_of s (RS.f_sid f)) eqn:X; cbn [andb]; try reflexivity;
     assert (RS.f_sid f <= RS.highest s) by (apply st_of_notidle_le; [assumption | congruence]); lia).
Qed.

Lemma stays_st_of s f r id : wf s -> stays s f r -> RS.st_of (RS.spec_next s (RS.Frame f) r) id = RS.st_of s id.
Proof.
  intros W H. destruct (N.eq_dec id (RS.f_sid f)) as [->|Hne].
  - destruct (N.odd (RS.f_sid f)) eqn:O.
    + rewrite st_of_spec_next_same by assumption. destruct (conn_err r) eqn:CE; [reflexivity|].
      destruct H as [H|[H|H]]; [congruence | rewrite H in O; discriminate | exact H].
    + rewrite !st_of_even by (rewrite <- N.negb_odd, O; reflexivity). reflexivity.
  - rewrite st_of_spec_next_other by assumption. rewrite stays_highest by assumption.
    destruct (RS.st_of s id) eqn:X; try reflexivity.
    destruct (N.odd id) eqn:O; cbn [andb]; [|reflexivity].
    pose proof (st_of_idle_gt s id W O X). replace (id <=? RS.highest s) with false by lia. reflexivity.
Qed.

(* ---------- reading the table of verdicts ---------- *)

Lemma allowed_table s i r : existsb (fun v => RS.admits v r) (RS.verdicts s i) = true -> RS.allowed s i r = true.
Proof. intro H. unfold RS.allowed. rewrite H. reflexivity. Qed.

Lemma allowed_dead s i r : RS.dead s = true -> RS.is_error r = true -> RS.allowed s i r = true.
Proof. intros H1 H2. unfold RS.allowed. rewrite H1, H2. rewrite orb_true_r. reflexivity. Qed.

Lemma verdicts_block_other s fr b : RS.block s = Some b ->
  (sf_kind fr <> KCont \/ sf_sid fr <> b) ->
  RS.verdicts s (RS.Frame (abs_frame fr)) = [RS.CE c_ProtocolError].
Proof.
  intros B H. unfold RS.verdicts, abs_frame. cbn [RS.f_kind RS.f_sid]. rewrite B.
  revert H. destruct (sf_kind fr); cbn [abs_kind]; intro H; try reflexivity.
  destruct H as [H|H]; [congruence|]. replace (sf_sid fr =? b) with false by lia. reflexivity.
Qed.

Lemma verdicts_cont_noblock s fr : RS.block s = None -> sf_kind fr = KCont ->
  RS.verdicts s (RS.Frame (abs_frame fr)) = [RS.CE c_ProtocolError].
Proof. intros B K. unfold RS.verdicts, abs_frame. cbn [RS.f_kind RS.f_sid]. rewrite B, K. reflexivity. Qed.

Lemma verdicts_conn s fr : RS.block s = None -> sf_kind fr <> KCont -> sf_sid fr = 0 ->
  RS.verdicts s (RS.Frame (abs_frame fr)) = RS.on_connection (abs_frame fr).
Proof.
  intros B K Z. unfold RS.verdicts, abs_frame. cbn [RS.f_kind RS.f_sid]. rewrite B, Z.
  destruct (sf_kind fr); cbn [abs_kind]; reflexivity.
Qed.

Lemma verdicts_stream s fr : RS.block s = None -> sf_sid fr <> 0 ->
  match sf_kind fr with KCont | KSettings | KPing | KGoAway | KPush => False | _ => True end ->
  RS.verdicts s (RS.Frame (abs_frame fr)) = RS.on_stream s (abs_frame fr).
Proof.
  intros B Z K. unfold RS.verdicts. rewrite B. unfold abs_frame. cbn [RS.f_kind RS.f_sid].
  replace (sf_sid fr =? 0) with false by lia.
  revert K. destruct (sf_kind fr); cbn [abs_kind]; intro K; try reflexivity; contradiction.
Qed.

Lemma verdicts_stream_bad s fr : RS.block s = None -> sf_sid fr <> 0 ->
  match sf_kind fr with KSettings | KPing | KGoAway | KPush => True | _ => False end ->
  RS.verdicts s (RS.Frame (abs_frame fr)) = [RS.CE c_ProtocolError].
Proof.
  intros B Z K. unfold RS.verdicts. rewrite B. unfold abs_frame. cbn [RS.f_kind RS.f_sid].
  replace (sf_sid fr =? 0) with false by lia.
  revert K. destruct (sf_kind fr); cbn [abs_kind]; intro K; try reflexivity; contradiction.
Qed.

Lemma verdicts_cont s fr : RS.block s = Some (sf_sid fr) -> sf_kind fr = KCont ->
  RS.verdicts s (RS.Frame (abs_frame fr)) = RS.on_stream s (abs_frame fr).
Proof.
  intros B K. unfold RS.verdicts. rewrite B. unfold abs_frame. cbn [RS.f_kind RS.f_sid]. rewrite K. cbn [abs_kind].
  rewrite N.eqb_refl. reflexivity.
Qed.

(* ---------- the three kinds of step that change no stream ---------- *)

Lemma spec_quiet s f r d : wf s -> filter noisy d = [] -> stays s f r ->
  (forall id, RS.st_of (after_outs (RS.spec_next s (RS.Frame f) r) d) id = RS.st_of s id) /\
  RS.highest (after_outs (RS.spec_next s (RS.Frame f) r) d) = RS.highest s /\
  RS.goaway (after_outs (RS.spec_next s (RS.Frame f) r) d) = RS.goaway s || conn_err r /\
  RS.dead (after_outs (RS.spec_next s (RS.Frame f) r) d) = RS.dead s || conn_err r.
Proof.
  intros W Q St. rewrite (after_outs_quiet _ _ Q).
  split; [intro id; apply stays_st_of; assumption|]. split; [apply stays_highest; assumption|].
  split; [apply goaway_spec_next | apply dead_spec_next].
Qed.

Lemma spec_goaway s f code d l : wf s -> filter noisy d = [OGoAway l code] ->
  (forall id, RS.st_of (after_outs (RS.spec_next s (RS.Frame f) (RS.ConnErr code)) d) id = RS.st_of s id) /\
  RS.highest (after_outs (RS.spec_next s (RS.Frame f) (RS.ConnErr code)) d) = RS.highest s /\
  RS.goaway (after_outs (RS.spec_next s (RS.Frame f) (RS.ConnErr code)) d) = true /\
  RS.dead (after_outs (RS.spec_next s (RS.Frame f) (RS.ConnErr code)) d) = true.
Proof.
  intros W Q. rewrite (after_outs_eq _ _ _ Q). cbn [rev app flat_map sent_of strip_late fold_left].
  assert (St : stays s f (RS.ConnErr code)) by (left; reflexivity).
  assert (W1 : wf (RS.spec_next s (RS.Frame f) (RS.ConnErr code))) by (apply wf_spec_next, W).
  split; [intro id; rewrite st_of_spec_sent by assumption; cbn [sent_sid]; apply stays_st_of; assumption|].
  split; [rewrite highest_spec_sent by assumption; apply stays_highest; assumption|].
  split; [rewrite goaway_spec_sent; reflexivity|].
  rewrite dead_spec_sent, dead_spec_next. apply orb_true_r.
Qed.

Lemma spec_rst s f code d : wf s -> filter noisy d = [ORst (RS.f_sid f) code] ->
  stays s f (RS.StreamErr code) -> active (RS.st_of s (RS.f_sid f)) = false ->
  (forall id, RS.st_of (after_outs (RS.spec_next s (RS.Frame f) (RS.StreamErr code)) d) id = RS.st_of s id) /\
  RS.highest (after_outs (RS.spec_next s (RS.Frame f) (RS.StreamErr code)) d) = RS.highest s /\
  RS.goaway (after_outs (RS.spec_next s (RS.Frame f) (RS.StreamErr code)) d) = RS.goaway s /\
  RS.dead (after_outs (RS.spec_next s (RS.Frame f) (RS.StreamErr code)) d) = RS.dead s.
Proof.
  intros W Q St Ac. rewrite (after_outs_eq _ _ _ Q). cbn [rev app flat_map sent_of strip_late fold_left].
  assert (W1 : wf (RS.spec_next s (RS.Frame f) (RS.StreamErr code))) by (apply wf_spec_next, W).
  split.
  { intro id. rewrite st_of_spec_sent by assumption. cbn [sent_sid]. rewrite stays_st_of by assumption.
    destruct (RS.f_sid f =? id) eqn:E; [|reflexivity]. apply N.eqb_eq in E. subst id.
    destruct (RS.st_of s (RS.f_sid f)); try discriminate; reflexivity. }
  split; [rewrite highest_spec_sent by assumption; apply stays_highest; assumption|].
  split; [rewrite goaway_spec_sent, goaway_spec_next; apply orb_false_r|].
  rewrite dead_spec_sent, dead_spec_next. apply orb_false_r.
Qed.

(* nothing observed: the specification decides between "took effect" and "dropped" *)
Lemma allowed_quiet s i :
  RS.may_process s i = true \/ existsb (fun v => RS.admits v RS.Ignore) (RS.verdicts s i) = true ->
  RS.allowed s i (resolve s i RS.Process) = true.
Proof.
  intros H. cbn [resolve]. destruct (RS.may_process s i) eqn:M.
  - apply allowed_table. exact M.
  - destruct H as [H|H]; [discriminate|]. apply allowed_table. exact H.
Qed.

Lemma stays_quiet s f : RS.receive (RS.st_of s (RS.f_sid f)) f = RS.st_of s (RS.f_sid f) ->
  stays s f (resolve s (RS.Frame f) RS.Process).
Proof. intro H. cbn [resolve]. destruct (RS.may_process _ _); right; right; [exact H | reflexivity]. Qed.

Lemma conn_err_resolve_quiet s i : conn_err (resolve s i RS.Process) = false.
Proof. cbn [resolve]. destruct (RS.may_process s i); reflexivity. Qed.

Section Kit.
Variable hstate : Type.
Notation sconn := (sconn hstate).
Notation view := (view hstate).
Notation tbl := (tbl hstate).
Notation Sim := (Sim hstate).
Notation Aux := (Aux hstate).
Notation AuxT := (AuxT hstate).
Notation AuxH := (AuxH hstate).
Notation live_tuple := (live_tuple hstate).
Implicit Types c : sconn.

(* a step that leaves the table, the ring and the ids alone *)
Definition static c c' : Prop :=
  sc_strms c' = sc_strms c /\ sc_ring c' = sc_ring c /\ sc_oldest c' = sc_oldest c /\ sc_lastID c' = sc_lastID c /\
  sc_highestID c' = sc_highestID c /\ sc_rl_done c' = sc_rl_done c /\ sc_wl_dead c' = sc_wl_dead c /\
  sc_readerQ c' = sc_readerQ c.

Lemma static_refl c : static c c. Proof. repeat split. Qed.
Lemma static_trans a b c : static a b -> static b c -> static a c.
Proof.
  unfold static. intros (A1 & A2 & A3 & A4 & A5 & A6 & A7 & A8) (B1 & B2 & B3 & B4 & B5 & B6 & B7 & B8).
  repeat split; etransitivity; eassumption.
Qed.

Lemma view_static c c' id : static c c' -> view c' id = view c id.
Proof. intros (A1 & A2 & _ & _ & A5 & _). apply view_eq; assumption. Qed.

Lemma tbl_static c c' id : static c c' -> tbl c' id = tbl c id.
Proof. intros (A1 & _). unfold SrvRfcDefs.tbl. rewrite A1. reflexivity. Qed.

Lemma AuxT_static c c' : static c c' -> AuxT c -> AuxT c'.
Proof.
  intros (A1 & A2 & A3 & A4 & A5 & A6 & A7 & A8) [B1 B2 B3 B4 B5 B6 B7 B8 B9 B10].
  constructor; rewrite ?A1, ?A4, ?A5, ?A6, ?A7, ?A8; try assumption.
  - destruct B7 as (X & Y & Z). unfold ring_ok. rewrite A2, A3. auto.
  - intros st H. unfold in_ring. rewrite A2. apply B8, H.
Qed.

Lemma live_tuple_static c c' s s2 ph ph' :
  Sim c s ph -> static c c' -> AuxH c' ->
  (forall id, RS.st_of s2 id = RS.st_of s id) -> RS.highest s2 = RS.highest s ->
  R_block hstate c' s2 -> RS.goaway s2 = sc_closing c' ->
  (sc_expectCont c' <> 0 -> tbl c' (sc_expectCont c') = None -> sc_discardID c' = sc_expectCont c' \/ RS.dead s2 = true) ->
  (forall st, In st (sc_strms c) -> ph' (st_id st) = ph (st_id st)) ->
  (sc_closing c' = false -> forall id, N.odd id = true -> sc_highestID c < id -> ph' id = RS.PStart) ->
  live_tuple c' s2 ph'.
Proof.
  intros HS St AH Hst Hhi Hb Hg Hc Hp Hn. pose proof St as (A1 & A2 & A3 & A4 & A5 & A6 & A7 & A8).
  split; [split; [eapply AuxT_static; [exact St | exact (proj1 (S_aux _ _ _ _ HS))] | exact AH]|].
  split; [intros id O; rewrite (view_static _ _ _ St), Hst; apply rel_rel1, (S_str _ _ _ _ HS), O|].
  split; [exact Hb|]. split; [exact Hg|]. split; [rewrite Hhi, A5; exact (S_hi _ _ _ _ HS)|].
  split; [exact Hc|]. split.
  - intros st H. rewrite A1 in H. rewrite (Hp st H). exact (S_ph _ _ _ _ HS st H).
  - rewrite A5. exact Hn.
Qed.

(* ---------- steps that touch one stream id ---------- *)

Lemma sdrift_next s f r id : wf s -> id <> RS.f_sid f -> sdrift (RS.st_of s id) (RS.st_of (RS.spec_next s (RS.Frame f) r) id).
Proof.
  intros W Hne. rewrite st_of_spec_next_other by assumption. unfold sdrift.
  destruct (RS.st_of s id); auto. destruct (_ && _)%bool; auto.
Qed.

(* the outputs of the step concern stream sid only *)
Definition outs_on (sid : N) (d : list outev) : Prop :=
  forall o, In o (flat_map sent_of (rev (filter noisy d))) -> sent_sid o = Some sid \/ sent_sid o = None.

Lemma sdrift_after s f r d id : wf s -> id <> RS.f_sid f -> outs_on (RS.f_sid f) d ->
  sdrift (RS.st_of s id) (RS.st_of (after_outs (RS.spec_next s (RS.Frame f) r) d) id).
Proof.
  intros W Hne Ho. unfold after_outs. rewrite st_of_fold_sent_untouched.
  - apply sdrift_next; assumption.
  - apply wf_spec_next, W.
  - intros o Hin E. destruct (Ho o Hin) as [X|X]; congruence.
Qed.

Lemma live_tuple_one c c' s s2 ph ph' sid :
  Sim c s ph -> Aux c' ->
  (forall id, id <> sid -> option_map st_state (tbl c' id) = option_map st_state (tbl c id) /\
                           (ring_find c' id = ring_find c id \/ ring_find c' id = None)) ->
  (N.odd sid = true -> rel1 (view c' sid) (RS.st_of s2 sid)) ->
  (forall id, id <> sid -> sdrift (RS.st_of s id) (RS.st_of s2 id)) ->
  R_block hstate c' s2 -> RS.goaway s2 = sc_closing c' -> RS.highest s2 = sc_highestID c' ->
  (sc_expectCont c' <> 0 -> tbl c' (sc_expectCont c') = None -> sc_discardID c' = sc_expectCont c' \/ RS.dead s2 = true) ->
  (forall st, In st (sc_strms c') -> ph' (st_id st) = phase_of st) ->
  (sc_closing c' = false -> forall id, N.odd id = true -> sc_highestID c' < id -> ph' id = RS.PStart) ->
  live_tuple c' s2 ph'.
Proof.
  intros HS HA Hv Hsid Hsd Hb Hg Hh Hc Hp Hn.
  split; [exact HA|]. split.
  { intros id O. destruct (N.eq_dec id sid) as [->|Hne]; [apply Hsid, O|].
    destruct (Hv id Hne) as [V1 V2].
    eapply rel_drift; [apply (S_str _ _ _ _ HS id O) | apply vdrift_intro; assumption | apply Hsd, Hne]. }
  repeat split; assumption.
Qed.

Lemma AuxT_ring_change c c' : AuxT c ->
  sc_strms c' = sc_strms c -> sc_lastID c' = sc_lastID c -> sc_rl_done c' = sc_rl_done c -> sc_wl_dead c' = sc_wl_dead c ->
  sc_readerQ c' = sc_readerQ c -> sc_highestID c <= sc_highestID c' -> ring_ok hstate c' ->
  (forall st, In st (sc_strms c) -> ring_find c' (st_id st) = ring_find c (st_id st) \/ ring_find c' (st_id st) = None) ->
  AuxT c'.
Proof.
  intros [B1 B2 B3 B4 B5 B6 B7 B8 B9 B10] A1 A4 A6 A7 A8 Hh Hr Hf.
  constructor; rewrite ?A1, ?A4, ?A6, ?A7, ?A8; try assumption.
  - lia.
  - intros st H. rewrite in_ring_find. pose proof (B8 st H) as X. rewrite in_ring_find in X.
    destruct (Hf st H) as [Y|Y]; rewrite Y; [exact X | reflexivity].
Qed.

(* marking an id closed only reads the ring *)
Lemma mark_closed_ring_ext (x c : sconn) j w : sc_ring x = sc_ring c -> sc_oldest x = sc_oldest c ->
  sc_ring (mark_closed x j w) = sc_ring (mark_closed c j w) /\ sc_oldest (mark_closed x j w) = sc_oldest (mark_closed c j w).
Proof.
  intros R O. unfold mark_closed, in_ring. rewrite R, O.
  destruct (existsb _ (sc_ring c)); [auto|]. destruct (_ <? _); sc_cbn; auto.
Qed.

Lemma ring_ok_ext (x c : sconn) : sc_ring x = sc_ring c -> sc_oldest x = sc_oldest c -> ring_ok hstate c -> ring_ok hstate x.
Proof. intros R O. unfold ring_ok. rewrite R, O. auto. Qed.

Lemma ring_find_ext (x c : sconn) id : sc_ring x = sc_ring c -> ring_find x id = ring_find c id.
Proof. intros R. unfold ring_find. rewrite R. reflexivity. Qed.

End Kit.
