(* Proofs/SrvFlowCExamples.v - the scenario for the examples of the completion theorems of Props/C06.v, and
   boolean forms of their hypotheses about the trace (decided by computation). *)
From H2V Require Import Base.Bytes Base.MachineInt Base.Result Gen.GenConsts Impl.Hpack Impl.ServerConn Impl.ServerInst
  Proofs.SrvBase Spec.FlowLedger Proofs.SrvFlowLedger Proofs.SrvFlowDefs Proofs.SrvFlowEs Proofs.SrvFlowDone Proofs.SrvFlowExamples
  Proofs.SrvFlowCView Proofs.SrvFlowCTrack Proofs.SrvFlowCFin.
From Coq Require Import ZArith List Bool.
Import ListNotations.
Local Open Scope N_scope.

(* two requests; the responses (100000 and 70000 bytes) are ready before any grant; the peer then grants 50000 on the
   connection, lowers INITIAL_WINDOW_SIZE to 20000 (both stream windows go negative), grants 60000 on stream 3,
   200000 on the connection and 100000 on stream 1 *)
Definition ex_two_pre : list event :=
  [ EvRL (RFrame (fHeaders 1 5)); EvSL; EvRL (RFrame (fHeaders 3 5)); EvSL ].
Definition ex_two_mid : list event :=
  [ EvDone 3 (resp 70000);
    EvRL (RFrame (fWinUpd 0 50000)); EvSL;
    EvRL (RFrame (fSettingsWin 20000)); EvSL;
    EvRL (RFrame (fWinUpd 3 60000)); EvSL ].
Definition ex_two_end : list event :=
  [ EvRL (RFrame (fWinUpd 0 200000)); EvSL;
    EvRL (RFrame (fWinUpd 1 100000)); EvSL ].

Definition srv_taken_from (cfg : config) (c : sconn hpack_state) (evs : list event) : list sframe :=
  taken_from hpack_state srv_dec_field srv_enc_field set_max_table_size cfg c evs.
Definition srv_ledger (cfg : config) (evs : list event) : ledger := lrun ledger0 (srv_timeline cfg evs).

(* no RST_STREAM for sid in the trace / among the frames *)
Definition no_rst_out (sid : N) (tr : list outev) : bool :=
  forallb (fun o => match strip o with ORst s _ => negb (s =? sid) | _ => true end) tr.
Definition no_rst_in (sid : N) (frs : list sframe) : bool :=
  forallb (fun fr => negb ((sf_sid fr =? sid) && fkind_eqb (sf_kind fr) KRst)) frs.

Lemma no_rst_out_ok sid tr : no_rst_out sid tr = true -> forall o code, In o tr -> strip o <> ORst sid code.
Proof.
  unfold no_rst_out. rewrite forallb_forall. intros H o code Hin E. specialize (H o Hin). rewrite E, N.eqb_refl in H. discriminate.
Qed.
Lemma no_rst_in_ok sid frs : no_rst_in sid frs = true -> forall fr, In fr frs -> sf_sid fr = sid -> sf_kind fr <> KRst.
Proof.
  unfold no_rst_in. rewrite forallb_forall. intros H fr Hin E K. specialize (H fr Hin). rewrite E, N.eqb_refl, K in H. discriminate.
Qed.

Definition frame_lens (frames : list (bool * bytes)) : list (bool * N) := map (fun f => (fst f, len (snd f))) frames.
