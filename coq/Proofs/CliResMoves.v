(* Proofs/CliResMoves.v - C12/C11, part 3: one step of the model, summarised: what it does to each Ctx (`cmove`), which
   Ctx it creates, and what it adds to the trace (`item_ok`). Generic in the analysis parameters (cparams). *)
From H2V Require Import Base.Bytes Base.MachineInt Base.Result Gen.GenConsts Impl.ServerConn Impl.ClientConn Proofs.CliBase
     Proofs.CliResInv Proofs.CliResStep.
From Coq Require Import ZArith Lia ZifyN ZifyNat ZifyBool List Bool.
Import ListNotations.
Local Open Scope N_scope.

(* the Ctx as roundTripOnce leaves it after <-ctx.Err: takeBack, and back to the pool if reusable *)
Definition recv_ctx (x : cctx) : cctx :=
  let stopped := if ct_armed x then negb (ct_fired x) else true in
  let x1 := ctu_armed (ctu_err x None) false in
  ctu_pooled (ctu_returned (ctu_resolved (ctu_done x1 true) true) true) (stopped && ct_finished x1).

Definition outs {hstate} (P : coutev -> Prop) (c c' : cconn hstate) : Prop :=
  exists l, cc_out c' = l ++ cc_out c /\ Forall P l.

Lemma outs_refl {hstate} P (c : cconn hstate) : outs P c c.
Proof. exists []. split; [reflexivity | constructor]. Qed.
Lemma outs_trans {hstate} P (a b c : cconn hstate) : outs P a b -> outs P b c -> outs P a c.
Proof.
  intros (l1 & H1 & F1) (l2 & H2 & F2). exists (l2 ++ l1). rewrite H2, H1, app_assoc. split; [reflexivity | apply Forall_app; auto].
Qed.
Lemma outs_same {hstate} P (c c' : cconn hstate) : cc_out c' = cc_out c -> outs P c c'.
Proof. intro H. exists []. split; [exact H | constructor]. Qed.

Section Moves.
Context {hstate : Type} {CP : cparams} {NR : cplain CP}.
Variable dec_field : hstate -> N -> bytes -> dec_res hstate.
Variable enc_field : hstate -> bytes -> bytes -> bool -> bytes * hstate.
Variable enc_set_max : hstate -> N -> hstate.
Variable cfg : cl_config.
Implicit Types c : cconn hstate.
Notation step := (cl_step dec_field enc_field enc_set_max cfg).

Definition no_panic_dec : Prop := forall d n b, dec_field d n b <> DPanic hstate.

(* what one step may add to the trace *)
Definition item_ok c (e : cevent) (o : coutev) : Prop :=
  benign o = true \/
  match o with
  | COHeaders sid es blk =>
    e = CEvWLIn /\ cl_wl_live c = true /\ cc_goAway c = false /\ sid = cc_nextID c /\
    exists tag q x, cc_inQ c = tag :: q /\ cl_ctx_get c tag = Some x /\ ct_done x = false
  | COResult t r er resp =>
    e = CEvReceive t /\ exists x, cl_ctx_get c t = Some x /\ ct_returned x = false /\ ct_err x = Some er /\
                                 r = cl_retryable er /\ resp = ct_resp x
  | COPoolPut t =>
    e = CEvReceive t /\ exists x, cl_ctx_get c t = Some x /\ ct_returned x = false /\ ct_err x <> None /\
                                 ct_finished x = true /\ (ct_armed x = true -> ct_fired x = false)
  | COPanic w => ~ no_panic_dec
  | _ => False
  end.

Lemma item_ok_benign c e o : benign o = true -> item_ok c e o.
Proof. intro H. left. exact H. Qed.

(* what one step does to the Ctx of tag t *)
Inductive cmove c (e : cevent) (t : N) (x x' : cctx) : Prop :=
| cm_cev : cev x x' -> cmove c e t x x'
| cm_check : e = CEvSubmitCheck t -> ct_writing x = true ->
    x' = ctu_writing x false \/
    (cc_closed c = true /\ ct_sid x = 0 /\ x' = cl_ctx_resolve (ctu_done (ctu_writing x false) true) (cl_close_err c)) ->
    cmove c e t x x'
| cm_fire : e = CEvTimeout t -> ct_armed x = true -> ct_fired x = false ->
    x' = cl_ctx_resolve (ctu_fired x true) CETimeout -> cmove c e t x x'
| cm_cancel : e = CEvTimeoutCancel t -> ct_fired x = true -> ct_cancelled x = false ->
    cev (ctu_cancelled x true) x' -> cmove c e t x x'
| cm_recv : e = CEvReceive t -> ct_returned x = false -> ct_err x <> None -> x' = recv_ctx x -> cmove c e t x x'
| cm_admit : e = CEvWLIn -> cl_wl_live c = true -> (exists q, cc_inQ c = t :: q) -> ct_done x = false -> ct_sid x = 0 -> cc_goAway c = false ->
    cev (ctu_sid (ctu_conn x true) (cc_nextID c)) x' -> cmove c e t x x'
| cm_deq : e = CEvWLIn -> cl_wl_live c = true -> (exists q, cc_inQ c = t :: q) -> cl_can_open_stream c = false -> ct_sid x = 0 ->
    x' = cl_ctx_resolve x CENoStreams -> cmove c e t x x'.

(* a Ctx that was not there before *)
Definition cnew c c' (e : cevent) (t : N) (x' : cctx) : Prop :=
  exists rq q, e = CEvSubmit t rq q /\ ct_tag x' = t /\ ct_sid x' = 0 /\ ct_conn x' = false /\ ct_returned x' = false /\
    ct_resolved x' = false /\ ct_done x' = false /\ ct_fired x' = false /\ ct_finished x' = false /\ ct_pooled x' = false /\
    ((ct_err x' = None /\ ct_writing x' = true /\ In t (cc_inQ c')) \/
     (ct_err x' = Some (cl_close_err c) /\ cc_closed c = true /\ ~ In t (cc_inQ c') /\ ct_writing x' = false)).

Definition is_result (o : coutev) : bool := match o with COResult _ _ _ _ => true | _ => false end.
Definition is_headers (o : coutev) : bool := match o with COHeaders _ _ _ => true | _ => false end.

Record step_sum c (e : cevent) c' : Prop := mkStepSum {
  ss_old : forall t x, cl_ctx_get c t = Some x -> exists x', cl_ctx_get c' t = Some x' /\ cmove c e t x x';
  ss_new : forall t x', cl_ctx_get c t = None -> cl_ctx_get c' t = Some x' -> cnew c c' e t x';
  (* the trace grows by items of this step; at most one result; HEADERS only when a stream id is used up *)
  ss_out : exists l, cc_out c' = l ++ cc_out c /\ Forall (item_ok c e) l /\ (length (filter is_result l) <= 1)%nat /\
           (existsb is_headers l = true -> cc_nextID c' = cc_nextID c + 2);
  ss_next : cc_nextID c' = cc_nextID c \/ cc_nextID c' = cc_nextID c + 2;
  (* a result in the trace is a receive that went through *)
  ss_res : forall t r er resp, In (COResult t r er resp) (cc_out c') -> ~ In (COResult t r er resp) (cc_out c) ->
           exists x, cl_ctx_get c t = Some x /\ cl_ctx_get c' t = Some (recv_ctx x);
  (* and a receive that went through shows in the trace *)
  ss_recv : forall t x, cl_ctx_get c t = Some x -> cl_ctx_get c' t = Some (recv_ctx x) -> ct_returned x = false ->
            exists er, ct_err x = Some er /\ In (COResult t (cl_retryable er) er (ct_resp x)) (cc_out c');
  ss_goAway : cc_goAway c = true -> cc_goAway c' = true;
  ss_inQ : forall t, In t (cc_inQ c') -> In t (cc_inQ c) \/ (exists rq q, e = CEvSubmit t rq q)
}.

Lemma returned_resolve x e : ct_returned (cl_ctx_resolve x e) = ct_returned x.
Proof. rewrite cl_ctx_resolve_eq. destruct (_ && _); reflexivity. Qed.

Lemma recv_returned x : ct_returned (recv_ctx x) = true.
Proof. reflexivity. Qed.

(* no Ctx of c' is a received version of its former self *)
Lemma no_recv_of_old c (e : cevent) c' :
  (forall t x, cl_ctx_get c t = Some x -> exists x', cl_ctx_get c' t = Some x' /\ ct_returned x' = ct_returned x) ->
  forall t x, cl_ctx_get c t = Some x -> cl_ctx_get c' t = Some (recv_ctx x) -> ct_returned x = false ->
  exists er, ct_err x = Some er /\ In (COResult t (cl_retryable er) er (ct_resp x)) (cc_out c').
Proof.
  intros H t x G G' R. exfalso. destruct (H _ _ G) as (x' & Gx & Rx). rewrite G' in Gx. inversion Gx; subst x'.
  rewrite recv_returned in Rx. congruence.
Qed.

Lemma outs_nil c c' e : cc_out c' = cc_out c ->
  exists l, cc_out c' = l ++ cc_out c /\ Forall (item_ok c e) l /\ (length (filter is_result l) <= 1)%nat /\
            (existsb is_headers l = true -> cc_nextID c' = cc_nextID c + 2).
Proof. intro H. exists []. cbn. repeat split; auto. discriminate. Qed.

Lemma sum_refl c e : step_sum c e c.
Proof.
  constructor.
  - intros t x G. exists x. split; [exact G | apply cm_cev, cev_refl].
  - intros t x' G G'. congruence.
  - apply outs_nil. reflexivity.
  - left. reflexivity.
  - intros t r er resp H N. contradiction.
  - apply (no_recv_of_old c e c). intros t x G. exists x. auto.
  - auto.
  - auto.
Qed.

(* the connection's own steps: no result, no HEADERS *)
Definition plain_item (o : coutev) : Prop := benign o = true \/ (exists w, o = COPanic w) /\ ~ no_panic_dec.

Lemma plain_filters l : Forall plain_item l -> filter is_result l = [] /\ existsb is_headers l = false.
Proof.
  induction 1 as [|o l H _ [IH1 IH2]]; [auto|]. cbn [filter existsb]. rewrite IH1, IH2.
  destruct H as [H|[[w ->] _]]; [destruct o; try discriminate; auto | auto].
Qed.

Lemma sum_of_effo c e c' : effo plain_item c c' -> step_sum c e c'.
Proof.
  intros [E _]. constructor.
  - intros t x G. destruct (e_ctx _ _ _ E _ _ G) as (x' & G' & V). exists x'. split; [exact G' | apply cm_cev, V].
  - intros t x' G G'. rewrite (eff_ctx_none _ _ _ _ E G) in G'. discriminate.
  - destruct (e_out _ _ _ E) as (l & Hl & Fl). exists l. destruct (plain_filters l Fl) as [F1 F2]. rewrite F1, F2.
    repeat split; auto; [|discriminate].
    eapply Forall_impl; [|exact Fl]. intros o [H|[[w ->] H]]; [left; exact H | right; exact H].
  - left. apply (e_nextID _ _ _ E).
  - intros t r er resp H N. exfalso. destruct (e_out _ _ _ E) as (l & Hl & Fl). rewrite Hl in H. apply in_app_iff in H.
    destruct H as [H|H]; [|contradiction]. rewrite Forall_forall in Fl. destruct (Fl _ H) as [B|[[w B] _]]; discriminate.
  - apply (no_recv_of_old c e c'). intros t x G. destruct (e_ctx _ _ _ E _ _ G) as (x' & G' & V). exists x'. split; [exact G' | apply (cev_returned _ _ V)].
  - apply (e_goAway _ _ _ E).
  - intros t H. left. destruct (e_inQ _ _ _ E) as [p Hp]. rewrite Hp in H. apply filter_In in H. apply H.
Qed.

Lemma Pben_plain : forall o, benign o = true -> plain_item o.
Proof. intros o H. left. exact H. Qed.

(* a step of the caller of t (or of its timer) on its own Ctx *)
Lemma sum_of_put c e x x' : cl_ctx_get c (ct_tag x') = Some x -> cmove c e (ct_tag x') x x' -> ct_returned x' = ct_returned x ->
  step_sum c e (cl_ctx_put c x').
Proof.
  intros G M Rr. constructor.
  - intros t y Gy. rewrite cl_ctx_get_put. destruct (t =? ct_tag x') eqn:E.
    + apply N.eqb_eq in E. subst t. rewrite Gy. exists x'. split; [reflexivity|]. rewrite G in Gy. inversion Gy; subst y. exact M.
    + exists y. split; [exact Gy | apply cm_cev, cev_refl].
  - intros t y' Gn G'. rewrite cl_ctx_get_put in G'. destruct (t =? ct_tag x'); [rewrite Gn in G'; discriminate | congruence].
  - apply outs_nil. reflexivity.
  - left. reflexivity.
  - intros t r er resp H N. contradiction.
  - apply (no_recv_of_old c e). intros t y Gy. rewrite cl_ctx_get_put. destruct (t =? ct_tag x') eqn:E.
    + apply N.eqb_eq in E. subst t. rewrite Gy. exists x'. split; [reflexivity|]. rewrite G in Gy. inversion Gy; subst y. exact Rr.
    + exists y. auto.
  - auto.
  - auto.
Qed.

Definition rl_ok c (i : rl_input) : Prop :=
  (forall c c' : cconn hstate, Wok hstate c c') /\ (forall x x', Vok x x') /\
  (forall fr, i = RFrame fr -> cl_rl_live c = true -> cc_netClosed c = false ->
     forall c1, (sf_kind fr <> KWinUpd -> sf_kind fr <> KGoAway -> c1 = c) -> nil_at dec_field c1 fr -> Eok (sf_sid fr) CENil) /\
  (forall fr, i = RFrame fr -> sf_kind fr = KGoAway -> sf_sid fr = 0 -> cl_rl_live c = true -> cc_netClosed c = false ->
     forall id, sf_dep fr < id -> Eok id CEGoAway).

Lemma Pben_item c e : forall o, benign o = true -> item_ok c e o.
Proof. intros o H. left. exact H. Qed.

Lemma sum_submit c tag rq q : inv c -> step_sum c (CEvSubmit tag rq q) (cl_submit cfg c tag rq q).
Proof.
  intros [St A]. unfold cl_submit. destruct (cl_ctx_get c tag) eqn:GN; [apply sum_refl|].
  set (new := cl_new_ctx tag rq (ccf_armTimers cfg)). set (c1 := ccu_ctxs c (cc_ctxs c ++ [new])).
  assert (G1 : forall t, cl_ctx_get c1 t = if t =? tag then Some new else cl_ctx_get c t).
  { intro t. unfold cl_ctx_get, c1. cbn [cc_ctxs ccu_ctxs]. rewrite cl_ctxs_get_app. cbn [cl_ctxs_get ct_tag new cl_new_ctx].
    destruct (t =? tag) eqn:E.
    - apply N.eqb_eq in E. subst t. unfold cl_ctx_get in GN. rewrite GN, N.eqb_refl. reflexivity.
    - rewrite N.eqb_sym, E. destruct (cl_ctxs_get (cc_ctxs c) t); reflexivity. }
  assert (NQ : ~ In tag (cc_inQ c)). { intro J. destruct (s_inQ _ St _ J) as (x & G & _). congruence. }
  destruct (cc_closed c1 && negb q) eqn:B.
  - set (y := cl_ctx_resolve new (cl_close_err c1)).
    assert (L : forall t, cl_ctx_get (cl_resolve c1 tag (cl_close_err c1)) t = if t =? tag then Some y else cl_ctx_get c t).
    { intro t. rewrite cl_ctx_get_resolve, G1. destruct (t =? tag); reflexivity. }
    constructor.
    + intros t x G. exists x. split; [|apply cm_cev, cev_refl]. rewrite L. destruct (t =? tag) eqn:E; [|exact G].
      apply N.eqb_eq in E. subst t. congruence.
    + intros t x' Gn G'. rewrite L in G'. destruct (t =? tag) eqn:E; [|congruence]. apply N.eqb_eq in E. subst t.
      inversion G'; subst x'. exists rq, q. split; [reflexivity|]. unfold y. rewrite cl_ctx_resolve_eq. cbn.
      repeat split; auto. right. apply andb_true_iff in B. destruct B as [B _]. repeat split; auto.
      rewrite cc_inQ_cl_resolve. exact NQ.
    + apply outs_nil. rewrite cc_out_cl_resolve. reflexivity.
    + left. rewrite cc_nextID_cl_resolve. reflexivity.
    + intros t r er resp H N. rewrite cc_out_cl_resolve in H. contradiction.
    + apply (no_recv_of_old c (CEvSubmit tag rq q)). intros t x G. exists x. split; [|reflexivity]. rewrite L.
      destruct (t =? tag) eqn:E; [|exact G]. apply N.eqb_eq in E. subst t. congruence.
    + rewrite cc_goAway_cl_resolve. auto.
    + intros t H. left. rewrite cc_inQ_cl_resolve in H. exact H.
  - set (y := ctu_writing new true).
    set (c2 := ccu_inQ c1 (cc_inQ c1 ++ [tag])).
    assert (L : forall t, cl_ctx_get (cl_ctx_upd c2 tag (fun x => ctu_writing x true)) t = if t =? tag then Some y else cl_ctx_get c t).
    { intro t. rewrite cl_ctx_get_upd by reflexivity. unfold cl_ctx_get at 1 2. cbn [cc_ctxs ccu_inQ c2]. fold (cl_ctx_get c1 t).
      rewrite G1. destruct (t =? tag); reflexivity. }
    constructor.
    + intros t x G. exists x. split; [|apply cm_cev, cev_refl]. rewrite L. destruct (t =? tag) eqn:E; [|exact G].
      apply N.eqb_eq in E. subst t. congruence.
    + intros t x' Gn G'. rewrite L in G'. destruct (t =? tag) eqn:E; [|congruence]. apply N.eqb_eq in E. subst t.
      inversion G'; subst x'. exists rq, q. split; [reflexivity|]. cbn. repeat split; auto. left. repeat split; auto.
      rewrite cc_inQ_cl_ctx_upd. cbn [c2 cc_inQ ccu_inQ c1 ccu_ctxs]. apply in_app_iff. right. left. reflexivity.
    + apply outs_nil. rewrite cc_out_cl_ctx_upd. reflexivity.
    + left. rewrite cc_nextID_cl_ctx_upd. reflexivity.
    + intros t r er resp H N. rewrite cc_out_cl_ctx_upd in H. contradiction.
    + apply (no_recv_of_old c (CEvSubmit tag rq q)). intros t x G. exists x. split; [|reflexivity]. rewrite L.
      destruct (t =? tag) eqn:E; [|exact G]. apply N.eqb_eq in E. subst t. congruence.
    + rewrite cc_goAway_cl_ctx_upd. auto.
    + intros t H. rewrite cc_inQ_cl_ctx_upd in H. cbn [c2 cc_inQ ccu_inQ c1 ccu_ctxs] in H. apply in_app_iff in H.
      destruct H as [H|[H|[]]]; [left; exact H | right; subst t; eauto].
Qed.

Lemma sum_submit_check c tag : inv c -> step_sum c (CEvSubmitCheck tag) (cl_submit_check c tag).
Proof.
  intros [St A]. unfold cl_submit_check. destruct (cl_ctx_get c tag) as [x|] eqn:G; [|apply sum_refl].
  destruct (ct_writing x) eqn:Wr; [|apply sum_refl]. cbn [negb].
  destruct (cl_ctxs_get_In _ _ _ G) as [_ T]. pose proof (proj1 (s_nostuck _ St) _ _ G) as LK.
  destruct (cc_closed c) eqn:CL; cbn [negb].
  2:{ apply sum_of_put with x; [cbn; rewrite T; exact G | | reflexivity]. cbn [ct_tag ctu_writing]. rewrite T. apply cm_check; auto. }
  cbn [ct_lckStuck ctu_writing]. rewrite LK. cbn [ct_sid ctu_writing]. destruct (ct_sid x =? 0) eqn:Z.
  - set (x2 := cl_ctx_resolve _ _). assert (T2 : ct_tag x2 = tag) by (unfold x2; rewrite ct_tag_cl_ctx_resolve; cbn; exact T).
    apply sum_of_put with x; [rewrite T2; exact G | | unfold x2; rewrite returned_resolve; reflexivity].
    rewrite T2. apply cm_check; auto. right. split; [exact CL|]. split; [apply N.eqb_eq, Z | reflexivity].
  - apply sum_of_put with x; [cbn; rewrite T; exact G | | reflexivity]. cbn [ct_tag ctu_writing]. rewrite T. apply cm_check; auto.
Qed.

Lemma sum_timeout_fire c tag : inv c -> step_sum c (CEvTimeout tag) (cl_timeout_fire c tag).
Proof.
  intros [St A]. unfold cl_timeout_fire. destruct (cl_ctx_get c tag) as [x|] eqn:G; [|apply sum_refl].
  destruct (ct_armed x) eqn:Ar; [|apply sum_refl]. destruct (ct_fired x) eqn:Fi; [apply sum_refl|]. cbn [negb andb].
  destruct (cl_ctxs_get_In _ _ _ G) as [_ T].
  set (x2 := cl_ctx_resolve _ _). assert (T2 : ct_tag x2 = tag) by (unfold x2; rewrite ct_tag_cl_ctx_resolve; cbn; exact T).
  apply sum_of_put with x; [rewrite T2; exact G | | unfold x2; rewrite returned_resolve; reflexivity]. rewrite T2. apply cm_fire; auto.
Qed.

Lemma sum_timeout_cancel c tag : inv c -> step_sum c (CEvTimeoutCancel tag) (cl_timeout_cancel c tag).
Proof.
  intros [St A]. unfold cl_timeout_cancel. destruct (cl_ctx_get c tag) as [x|] eqn:G; [|apply sum_refl].
  destruct (ct_fired x) eqn:Fi; [|apply sum_refl]. destruct (ct_cancelled x) eqn:Ca; [apply sum_refl|]. cbn [negb andb].
  destruct (cl_ctxs_get_In _ _ _ G) as [_ T].
  set (x1 := ctu_cancelled x true). set (c1 := cl_ctx_put c x1).
  assert (G1 : cl_ctx_get c (ct_tag x1) = Some x) by (cbn; rewrite T; exact G).
  assert (M1 : cmove c (CEvTimeoutCancel tag) tag x x1) by (apply cm_cancel; auto; apply cev_refl).
  destruct (negb (ct_conn x) || (ct_sid x =? 0)); [apply (sum_of_put c _ x x1 G1); [cbn [ct_tag x1 ctu_cancelled]; rewrite T; exact M1 | reflexivity]|].
  assert (S1 : st_ok c1).
  { pose proof (s_ret _ St _ _ G) as [R1 R2]. apply st_ok_put with x; auto. apply (proj1 (s_nostuck _ St) _ _ G). }
  set (P := plain_item).
  destruct (eff_delete_pending P Pben_plain 3 c1 (ct_sid x) (s_nostuck _ S1)) as [E2 F2].
  destruct (cl_delete_pending 3 [] c1 (ct_sid x)) as [c2 stuck]. cbn [fst snd] in *. subst stuck.
  assert (E3 : eff P c1 (cl_cancel_stream (cl_take_req_count c2 (ct_sid x)) (ct_sid x) c_StreamCanceled)).
  { eapply eff_trans; [exact E2|]. eapply eff_trans; [apply eff_take_req_count | apply eff_cancel_stream]. }
  assert (L1 : forall t, cl_ctx_get c1 t = if t =? tag then Some x1 else cl_ctx_get c t).
  { intro t. unfold c1. rewrite cl_ctx_get_put. cbn [ct_tag x1 ctu_cancelled]. rewrite T. destruct (t =? tag) eqn:E; [|reflexivity].
    apply N.eqb_eq in E. subst t. rewrite G. reflexivity. }
  constructor.
  - intros t y Gy. destruct (t =? tag) eqn:E.
    + apply N.eqb_eq in E. subst t. rewrite G in Gy. inversion Gy; subst y.
      destruct (e_ctx _ _ _ E3 tag x1) as (x' & G' & V); [rewrite L1, N.eqb_refl; reflexivity|].
      exists x'. split; [exact G' | apply cm_cancel; auto].
    + destruct (e_ctx _ _ _ E3 t y) as (x' & G' & V); [rewrite L1, E; exact Gy|]. exists x'. split; [exact G' | apply cm_cev, V].
  - intros t y' Gn G'. assert (G1n : cl_ctx_get c1 t = None).
    { rewrite L1. destruct (t =? tag) eqn:E; [apply N.eqb_eq in E; subst t; congruence | exact Gn]. }
    rewrite (eff_ctx_none _ _ _ _ E3 G1n) in G'. discriminate.
  - destruct (e_out _ _ _ E3) as (l & Hl & Fl). exists l. destruct (plain_filters l Fl) as [F1 F2]. rewrite F1, F2.
    repeat split; auto; [|discriminate].
    eapply Forall_impl; [|exact Fl]. intros o [H|[[w ->] H]]; [left; exact H | right; exact H].
  - left. rewrite (e_nextID _ _ _ E3). reflexivity.
  - intros t r er resp H N. exfalso. destruct (e_out _ _ _ E3) as (l & Hl & Fl). rewrite Hl in H. apply in_app_iff in H.
    destruct H as [H|H]; [|unfold c1 in N; contradiction]. rewrite Forall_forall in Fl. destruct (Fl _ H) as [B|[[w B] _]]; discriminate.
  - apply (no_recv_of_old c (CEvTimeoutCancel tag)). intros t y Gy. destruct (t =? tag) eqn:E.
    + apply N.eqb_eq in E. subst t. rewrite G in Gy. inversion Gy; subst y.
      destruct (e_ctx _ _ _ E3 tag x1) as (x' & G' & V); [rewrite L1, N.eqb_refl; reflexivity|]. exists x'. split; [exact G' | apply (cev_returned _ _ V)].
    + destruct (e_ctx _ _ _ E3 t y) as (x' & G' & V); [rewrite L1, E; exact Gy|]. exists x'. split; [exact G' | apply (cev_returned _ _ V)].
  - apply (e_goAway _ _ _ E3).
  - intros t H. left. destruct (e_inQ _ _ _ E3) as [p Hp]. rewrite Hp in H. apply filter_In in H. apply H.
Qed.

Lemma sum_receive c tag : inv c -> step_sum c (CEvReceive tag) (cl_receive c tag).
Proof.
  intros [St A]. unfold cl_receive. destruct (cl_ctx_get c tag) as [x|] eqn:G; [|apply sum_refl].
  destruct (ct_returned x) eqn:R; [apply sum_refl|]. destruct (ct_err x) as [er|] eqn:Er; [|apply sum_refl].
  destruct (cl_ctxs_get_In _ _ _ G) as [_ T]. pose proof (proj1 (s_nostuck _ St) _ _ G) as LK.
  cbv zeta. cbn [ct_lckStuck ctu_armed ctu_err]. rewrite LK.
  change (ctu_pooled _ _) with (recv_ctx x). set (x2 := recv_ctx x).
  assert (T2 : ct_tag x2 = tag) by (cbn; exact T).
  set (res := COResult tag (cl_retryable er) er (ct_resp x2)).
  assert (IR : item_ok c (CEvReceive tag) res).
  { right. split; [reflexivity|]. exists x. repeat split; auto. }
  assert (HF : forall final l, cc_ctxs final = cc_ctxs (cl_ctx_put c x2) -> cc_nextID final = cc_nextID c ->
             cc_goAway final = cc_goAway c -> cc_inQ final = cc_inQ c ->
             cc_out final = l ++ cc_out c -> Forall (item_ok c (CEvReceive tag)) l -> In res l ->
             (length (filter is_result l) <= 1)%nat -> existsb is_headers l = false -> step_sum c (CEvReceive tag) final).
  { intros final l HC HN HGA HIQ HO FI IRl HL HH.
    assert (L : forall t, cl_ctx_get final t = if t =? tag then Some x2 else cl_ctx_get c t).
    { intro t. unfold cl_ctx_get. rewrite HC. fold (cl_ctx_get (cl_ctx_put c x2) t). rewrite cl_ctx_get_put, T2.
      destruct (t =? tag) eqn:E; [|reflexivity]. apply N.eqb_eq in E. subst t. rewrite G. reflexivity. }
    constructor.
    - intros t y Gy. rewrite L. destruct (t =? tag) eqn:E.
      + apply N.eqb_eq in E. subst t. rewrite G in Gy. inversion Gy; subst y. exists x2. split; [reflexivity|]. apply cm_recv; auto. congruence.
      + exists y. split; [exact Gy | apply cm_cev, cev_refl].
    - intros t y' Gn G'. rewrite L in G'. destruct (t =? tag) eqn:E; [apply N.eqb_eq in E; subst t; congruence | congruence].
    - exists l. rewrite HH. repeat split; auto. discriminate.
    - left. exact HN.
    - intros t r er' resp H Nn. rewrite HO in H. apply in_app_iff in H. destruct H as [H|H]; [|contradiction].
      rewrite Forall_forall in FI. destruct (FI _ H) as [B|(Et & _)]; [discriminate|]. inversion Et; subst t.
      exists x. split; [exact G|]. rewrite L, N.eqb_refl. reflexivity.
    - intros t y Gy G' Ry. rewrite L in G'. destruct (t =? tag) eqn:E.
      + apply N.eqb_eq in E. subst t. rewrite G in Gy. inversion Gy; subst y. exists er. split; [exact Er|].
        rewrite HO. apply in_app_iff. left. exact IRl.
      + rewrite Gy in G'. inversion G' as [H0]. exfalso. pose proof (recv_returned y) as RR. rewrite <- H0 in RR. congruence.
    - rewrite HGA. auto.
    - rewrite HIQ. auto. }
  destruct ((if ct_armed x then negb (ct_fired x) else true) && ct_finished (ctu_armed (ctu_err x None) false)) eqn:RU.
  - apply (HF _ [COPoolPut tag; res]); try reflexivity; try (right; left; reflexivity); try (cbn; auto; fail).
    constructor; [|constructor; [exact IR | constructor]].
    right. split; [reflexivity|]. exists x. apply andb_true_iff in RU. destruct RU as [RU1 RU2].
    cbn in RU2. repeat split; auto; [congruence|]. intro Ar. rewrite Ar in RU1. destruct (ct_fired x); [discriminate | reflexivity].
  - apply (HF _ [res]); try reflexivity; try (left; reflexivity); try (cbn; auto; fail); try (constructor; [exact IR | constructor]).
Qed.

Theorem step_moves c e : inv c -> (forall i, e = CEvRL i -> rl_ok c i) ->
  step_sum c e (step c e).
Proof.
  intros Hi Hrl. pose proof Hi as [St A]. destruct e; cbn [cl_step].
  - apply sum_submit, Hi.
  - apply sum_submit_check, Hi.
  - (* case <-c.in *)
    destruct (cl_wl_live c) eqn:WL; [|apply sum_refl].
    assert (WD : cc_wl_done c = false) by (unfold cl_wl_live in WL; destruct (cc_wl_done c); [discriminate | reflexivity]).
    destruct (cc_inQ c) as [|tag q] eqn:IQ; [unfold cl_wl_in; rewrite IQ; apply sum_refl|].
    set (P := fun o => plain_item o \/ exists es blk, o = COHeaders (cc_nextID c) es blk).
    destruct (wl_in_cases enc_field enc_set_max cfg P c tag q) as [[(x & G & D) [CO' [E _]]]|[[CO ->]|(c6 & x & l & AD & E)]]; auto.
    + intros o H. left. left. exact H.
    + intros _ x _ _ es blk. right. eauto.
    + (* a Ctx its caller had taken back: nothing is written. P-items of this branch are plain *)
      assert (E' : effo plain_item c (cl_wl_in enc_field enc_set_max cfg c)).
      { unfold cl_wl_in. rewrite IQ. unfold cl_write_request.
        assert (CO0 : cl_can_open_stream (ccu_inQ c q) = true) by exact CO'. rewrite CO0. cbn [negb].
        assert (G0 : cl_ctx_get (ccu_inQ c q) tag = Some x) by exact G. rewrite G0.
        rewrite (proj1 (s_nostuck _ St) _ _ G), D.
        eapply effo_trans; [eapply effo_dequeue_done; eassumption|]. apply effo_wl_after; [apply Pben_plain|].
        apply (st_ok_eff plain_item c); [exact St | eapply eff_dequeue; eassumption]. }
      apply sum_of_effo, E'.
    + (* no stream can be opened: the Ctx is answered ErrNotAvailableStreams and never gets a stream *)
      destruct (s_inQ _ St tag) as (x & G & Sx & Cx); [rewrite IQ; left; reflexivity|].
      set (c' := cl_resolve (ccu_inQ c q) tag CENoStreams).
      assert (L : forall t, cl_ctx_get c' t = if t =? tag then Some (cl_ctx_resolve x CENoStreams) else cl_ctx_get c t).
      { intro t. unfold c'. rewrite cl_ctx_get_resolve. destruct (t =? tag) eqn:Et; [|reflexivity].
        apply N.eqb_eq in Et. subst t. assert (G0 : cl_ctx_get (ccu_inQ c q) tag = Some x) by exact G. rewrite G0. reflexivity. }
      constructor.
      * intros t y Gy. rewrite L. destruct (t =? tag) eqn:Et.
        -- apply N.eqb_eq in Et. subst t. rewrite G in Gy. inversion Gy; subst y. eexists. split; [reflexivity|].
           apply cm_deq; auto. exists q. exact IQ.
        -- exists y. split; [exact Gy | apply cm_cev, cev_refl].
      * intros t y' Gn G'. rewrite L in G'. destruct (t =? tag) eqn:Et; [apply N.eqb_eq in Et; subst t; congruence | congruence].
      * apply outs_nil. unfold c'. rewrite cc_out_cl_resolve. reflexivity.
      * left. unfold c'. rewrite cc_nextID_cl_resolve. reflexivity.
      * intros t r er resp H Nn. unfold c' in H. rewrite cc_out_cl_resolve in H. contradiction.
      * apply (no_recv_of_old c CEvWLIn). intros t y Gy. rewrite L. destruct (t =? tag) eqn:Et; [|exists y; auto].
        apply N.eqb_eq in Et. subst t. rewrite G in Gy. inversion Gy; subst y. eexists. split; [reflexivity | apply returned_resolve].
      * unfold c'. rewrite cc_goAway_cl_resolve. auto.
      * intros t H. left. unfold c' in H. rewrite cc_inQ_cl_resolve in H. cbn [cc_inQ ccu_inQ] in H. rewrite IQ. right. exact H.
    + destruct AD. constructor.
      * intros t y Gy. destruct (t =? tag) eqn:Et.
        -- apply N.eqb_eq in Et. subst t. rewrite ad_get in Gy. inversion Gy; subst y.
           destruct (e_ctx _ _ _ (proj1 E) tag (ctu_sid (ctu_conn x true) (cc_nextID c))) as (x' & G' & V); [rewrite ad_ctx, N.eqb_refl; reflexivity|].
           exists x'. split; [exact G' | apply cm_admit; auto]. exists q. exact ad_inQ.
        -- destruct (e_ctx _ _ _ (proj1 E) t y) as (x' & G' & V); [rewrite ad_ctx, Et; exact Gy|]. exists x'. split; [exact G' | apply cm_cev, V].
      * intros t y' Gn G'. assert (G6 : cl_ctx_get c6 t = None).
        { rewrite ad_ctx. destruct (t =? tag) eqn:Et; [apply N.eqb_eq in Et; subst t; congruence | exact Gn]. }
        rewrite (eff_ctx_none _ _ _ _ (proj1 E) G6) in G'. discriminate.
      * destruct (e_out _ _ _ (proj1 E)) as (l0 & Hl & Fl). exists l0. rewrite <- ad_out. split; [exact Hl|].
        assert (NRs : filter is_result l0 = []).
        { clear - Fl. induction Fl as [|o l0 H _ IH]; [reflexivity|]. cbn [filter]. rewrite IH.
          destruct H as [[H|[[w ->] _]]|(es & blk & ->)]; [destruct o; try discriminate; reflexivity | reflexivity | reflexivity]. }
        rewrite NRs. split; [|split; [cbn; auto | intros _; rewrite (e_nextID _ _ _ (proj1 E)); exact ad_next]].
        eapply Forall_impl; [|exact Fl]. intros o [[H|[[w ->] H]]|(es & blk & ->)]; [left; exact H | right; exact H|].
        right. repeat split; auto. exists tag, q, x. auto.
      * right. rewrite (e_nextID _ _ _ (proj1 E)). exact ad_next.
      * intros t r er resp H Nn. exfalso. destruct (e_out _ _ _ (proj1 E)) as (l0 & Hl & Fl). rewrite Hl, ad_out in H.
        apply in_app_iff in H. destruct H as [H|H]; [|contradiction]. rewrite Forall_forall in Fl.
        destruct (Fl _ H) as [[B|[[w B] _]]|(es & blk & B)]; discriminate.
      * apply (no_recv_of_old c CEvWLIn). intros t y Gy. destruct (t =? tag) eqn:Et.
        -- apply N.eqb_eq in Et. subst t. rewrite ad_get in Gy. inversion Gy; subst y.
           destruct (e_ctx _ _ _ (proj1 E) tag (ctu_sid (ctu_conn x true) (cc_nextID c))) as (x' & G' & V); [rewrite ad_ctx, N.eqb_refl; reflexivity|].
           exists x'. split; [exact G' | apply (cev_returned _ _ V)].
        -- destruct (e_ctx _ _ _ (proj1 E) t y) as (x' & G' & V); [rewrite ad_ctx, Et; exact Gy|]. exists x'. split; [exact G' | apply (cev_returned _ _ V)].
      * intro H. apply (e_goAway _ _ _ (proj1 E)). rewrite ad_goAway'. exact H.
      * intros t H. left. destruct (e_inQ _ _ _ (proj1 E)) as [p Hp]. rewrite Hp, ad_inQ' in H. apply filter_In in H. rewrite ad_inQ. right. apply H.
  - destruct (cl_wl_live c); [|apply sum_refl]. apply sum_of_effo, effo_wl_out; [apply Pben_plain | exact St].
  - destruct (cl_wl_live c); [|apply sum_refl]. apply sum_of_effo, effo_wl_win; [apply Pben_plain | exact St].
  - destruct (cl_wl_live c); [|apply sum_refl]. apply sum_of_effo, effo_wl_ping; [apply Pben_plain | exact St].
  - destruct (cl_wl_live c); [|apply sum_refl]. apply sum_of_effo, effo_wl_done; [apply Pben_plain | exact St].
  - destruct (cl_rl_live c) eqn:RLv; [|apply sum_refl]. destruct (Hrl i eq_refl) as (Hw & Hv & Hn & Hg).
    apply sum_of_effo, effo_rl_step; auto; [apply Pben_plain | intro NP; right; split; [eexists; reflexivity | exact NP] | |].
    + intros fr Hi' K Z NC. apply (Hg fr Hi' K Z RLv NC).
    + intros fr Hi' NC. apply (Hn fr Hi' RLv NC).
  - apply sum_timeout_fire, Hi.
  - apply sum_timeout_cancel, Hi.
  - apply sum_receive, Hi.
  - apply sum_of_effo, effo_close_call.
  - apply sum_of_effo, effo_close_finish, Pben_plain.
  - apply sum_of_effo, effo_write_fail.
Qed.


(* case <-c.in always takes the head of the queue, whatever becomes of it *)
Lemma wl_in_dequeues c t q : inv c -> cl_wl_live c = true -> cc_inQ c = t :: q ->
  ~ In t (cc_inQ (step c CEvWLIn)).
Proof.
  intros [St A] WL IQ. cbn [cl_step]. rewrite WL.
  assert (WD : cc_wl_done c = false) by (unfold cl_wl_live in WL; destruct (cc_wl_done c); [discriminate | reflexivity]).
  assert (NQ : ~ In t q). { pose proof (s_inQ_nodup _ St) as ND. rewrite IQ in ND. inversion ND. assumption. }
  set (P := fun _ : coutev => True).
  destruct (wl_in_cases enc_field enc_set_max cfg P c t q (fun _ _ => I) (fun _ _ _ _ _ _ => I) (conj St A) IQ WD)
    as [[_ [_ [_ E]]]|[[_ ->]|(c6 & x & l & AD & E)]].
  - destruct (e_inQ _ _ _ E) as [p Hp]. rewrite Hp. cbn [cc_inQ ccu_inQ]. intro H. apply filter_In in H. apply NQ, H.
  - rewrite cc_inQ_cl_resolve. exact NQ.
  - destruct (e_inQ _ _ _ (proj1 E)) as [p Hp]. rewrite Hp, (ad_inQ' _ _ _ _ _ _ AD). intro H. apply filter_In in H. apply NQ, H.
Qed.

End Moves.
