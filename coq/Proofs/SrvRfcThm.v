(* Proofs/SrvRfcThm.v - C08: the theorems about whole lockstep runs. *)
From H2V Require Import Base.Bytes Base.MachineInt Base.Result Gen.GenConsts Impl.ServerConn.
From H2V Require Import Proofs.SrvBase Proofs.SrvRfcDefs Proofs.SrvRfcSpec Proofs.SrvRfcModel Proofs.SrvRfcSim Proofs.SrvRfcEff
  Proofs.SrvRfcSend Proofs.SrvRfcStep Proofs.SrvRfcKit Proofs.SrvRfcRl Proofs.SrvRfcSl Proofs.SrvRfcKnown Proofs.SrvRfcFrame
  Proofs.SrvRfcBatch Proofs.SrvRfcFlush Proofs.SrvRfcTimer Proofs.SrvRfcMain.
From Coq Require Import ZArith Lia ZifyN ZifyNat ZifyBool.
Local Open Scope N_scope.

Section Thm.
Variable hstate : Type.
Variable dec_field : hstate -> N -> bytes -> dec_res hstate.
Variable enc_field : hstate -> bytes -> bytes -> bool -> bytes * hstate.
Variable enc_set_max : hstate -> N -> hstate.
Variable cfg : config.
Variable h0 : hstate.
Notation sconn := (sconn hstate).
Notation feed := (feed hstate dec_field enc_field enc_set_max cfg).
Notation spec_feed := (spec_feed hstate dec_field enc_field enc_set_max cfg).
Notation item_ok := (item_ok hstate dec_field enc_field enc_set_max cfg).
Notation run_items := (run_items hstate dec_field enc_field enc_set_max cfg).
Notation step_goal := (step_goal hstate dec_field enc_field enc_set_max cfg).
Notation Sim := (Sim hstate).
Notation Post := (Post hstate).
Implicit Types c : sconn.

(* ---------- one item ---------- *)

Lemma step_all c s ph it : Post c s ph -> step_goal c s ph it.
Proof.
  intros [W P]. destruct (sc_sl_done c) eqn:Hsl; [apply over_step; assumption|].
  rename P into HS. pose proof (S_aux _ _ _ _ HS) as [AT AH].
  destruct it as [i|sid r|l].
  - apply G_goal; [exact W|].
    destruct i as [fr| | |]; try (apply G_other_input; [exact HS | exact Hsl | intros fr0; discriminate]).
    destruct (rl_frame hstate dec_field enc_field enc_set_max cfg c s ph fr HS Hsl) as [G|(ec' & SQ & E & Cases)]; [exact G|].
    destruct Cases as [[Od Kok]|[Z KK]].
    + apply (G_stream_frame hstate dec_field enc_field enc_set_max cfg c s ph fr ec' HS Hsl SQ Od Kok E).
    + (* stream 0: SETTINGS, WINDOW_UPDATE *)
      assert (EC : sc_expectCont c = 0 /\ ec' = 0).
      { destruct SQ as [(E0 & _ & ->)|(_ & K & _)]; [|destruct KK as [[K' _]|[K' _]]; congruence].
        split; [exact E0|]. destruct KK as [[K' _]|[K' _]]; rewrite K'; reflexivity. }
      destruct EC as [E0 ->]. rewrite (upd_expectCont_id hstate c 0 E0) in E.
      apply (G_conn_frame hstate dec_field enc_field enc_set_max cfg c s ph fr HS Hsl E0); auto.
      destruct KK as [[K _]|[K I0]]; [left; exact K | right; split; assumption].
  - apply Gloc_goal; [exact W | intros i; discriminate|]. apply G_done; assumption.
  - apply Gloc_goal; [exact W | intros i; discriminate|]. apply G_local; assumption.
Qed.

(* ---------- the initial state ---------- *)

Lemma Post_init : Post (init_conn cfg h0) RS.init (fun _ => RS.PStart).
Proof.
  split; [apply wf_init|]. cbn [sc_sl_done init_conn].
  constructor.
  - split.
    + constructor; try (unfold ring_ok); cbn; try reflexivity; try (intros st []); try lia; try constructor; try constructor; try lia.
    + constructor; cbn [init_conn sc_strms sc_expectCont sc_discardID]; try (intros st []); intros; congruence.
  - apply wf_init.
  - intros id O. unfold SrvRfcDefs.view, SrvRfcDefs.tbl. cbn. 
    replace (id <=? 0) with false by (destruct id; [discriminate | reflexivity]). cbn.
    unfold RS.st_of. rewrite <- N.negb_odd, O. cbn. replace (id <=? 0) with false by (destruct id; [discriminate | reflexivity]). reflexivity.
  - reflexivity.
  - reflexivity.
  - reflexivity.
  - cbn. congruence.
  - intros st [].
  - reflexivity.
Qed.

(* ---------- runs ---------- *)

Fixpoint ph_run (ph : N -> RS.phase) (its : list item) : N -> RS.phase :=
  match its with [] => ph | it :: t => ph_run (ph_next ph it) t end.

Lemma run_items_app c s a b : run_items c s (a ++ b) = let '(c1, s1) := run_items c s a in run_items c1 s1 b.
Proof. revert c s. induction a as [|it a IH]; intros c s; cbn [app SrvRfcDefs.run_items]; [reflexivity | apply IH]. Qed.

Lemma run_Post its : forall c s ph, Post c s ph ->
  Post (fst (run_items c s its)) (snd (run_items c s its)) (ph_run ph its).
Proof.
  induction its as [|it t IH]; intros c s ph P; cbn [SrvRfcDefs.run_items ph_run fst snd]; [exact P|].
  destruct (step_all c s ph it P) as (_ & P' & _). apply IH; assumption.
Qed.

Lemma Post_R c s ph : Post c s ph -> R hstate c s.
Proof.
  intros [W P]. unfold R, over. destruct (sc_sl_done c) eqn:Hsl; cbn [orb]; [exact P|].
  pose proof (Sim_R hstate c s ph Hsl P) as X. unfold R, over in X. rewrite Hsl in X. exact X.
Qed.

(* ---------- (a) every reaction is allowed, and the abstraction relation is kept ---------- *)

Notation c_init := (init_conn cfg h0).

Theorem reactions_allowed its :
  R hstate (fst (run_items c_init RS.init its)) (snd (run_items c_init RS.init its)) /\
  forall pre it post, its = pre ++ it :: post ->
    let c := fst (run_items c_init RS.init pre) in
    let s := snd (run_items c_init RS.init pre) in
    sc_sl_done c = false ->
    match it with
    | IIn i => item_ok c it s = true \/ known_deviation hstate c s i = true
    | _ => True
    end.
Proof.
  split.
  - eapply Post_R. apply run_Post, Post_init.
  - intros pre it post -> c s Hsl.
    pose proof (run_Post pre _ _ _ Post_init) as P. fold c s in P.
    destruct (step_all c s _ it P) as (A & _). apply A, Hsl.
Qed.

(* ---------- (c) a request is dispatched only from a complete sequence of frames ---------- *)

Lemma ph_run_app ph a b : ph_run (ph_run ph a) b = ph_run ph (a ++ b).
Proof. revert ph. induction a as [|it a IH]; intro ph; cbn [ph_run app]; [reflexivity | apply IH]. Qed.

Lemma ph_run_frames its : forall ph sid, ph_run ph its sid = fold_left RS.request_step (frames_on sid its) (ph sid).
Proof.
  induction its as [|it t IH]; intros ph sid; cbn [ph_run SrvRfcDefs.frames_on flat_map]; [reflexivity|].
  rewrite IH, fold_left_app. f_equal. destruct it as [[fr| | |]|? ?|?]; cbn [ph_next]; try reflexivity.
  rewrite (N.eqb_sym sid). destruct (sf_sid fr =? sid); reflexivity.
Qed.

Theorem dispatch_only_legal its sid rq :
  In (ODispatch sid rq) (trace (fst (run_items c_init RS.init its))) ->
  exists pre post, its = pre ++ post /\ RS.complete_request (frames_on sid pre) = true.
Proof.
  intros Hin. unfold trace in Hin. apply in_rev in Hin. revert Hin.
  induction its as [|it its IH] using rev_ind; intros Hin; [cbn in Hin; destruct Hin|].
  rewrite run_items_app in Hin.
  pose proof (run_Post its _ _ _ Post_init) as P.
  destruct (run_items c_init RS.init its) as [c s] eqn:RI. cbn [fst snd] in *.
  destruct (step_all c s _ it P) as (_ & _ & Hd & (d & Ho)).
  cbn [SrvRfcDefs.run_items fst] in Hin. rewrite Ho in Hin. apply in_app_or in Hin. destruct Hin as [Hin|Hin].
  - (* dispatched by this item *)
    assert (X : In (ODispatch sid rq) (new_out hstate c (feed c it))) by (rewrite (new_out_ext hstate _ _ _ Ho); apply in_rev; rewrite rev_involutive; exact Hin).
    pose proof (Hd sid rq X) as PD. exists (its ++ [it]), []. split; [rewrite app_nil_r; reflexivity|].
    unfold RS.complete_request. rewrite <- (ph_run_frames (its ++ [it]) (fun _ => RS.PStart) sid), <- ph_run_app. cbn [ph_run]. rewrite PD. reflexivity.
  - destruct (IH Hin) as (pre & post & E & C). exists pre, (post ++ [it]). split; [rewrite E, app_assoc; reflexivity | exact C].
Qed.

End Thm.
