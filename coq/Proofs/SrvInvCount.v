(* Proofs/SrvInvCount.v - C13 (a) on traces: at every point, (requests dispatched) - (handlers returned) is the number
   of handlers running, hence at most MaxConcurrentStreams. *)
From H2V Require Import Base.Bytes Base.MachineInt Base.Result Gen.GenConsts Impl.ServerConn Proofs.SrvBase
  Proofs.SrvInvMoves Proofs.SrvInvDecomp Proofs.SrvInvSteps Proofs.SrvInvSlots.
From Coq Require Import ZArith Lia ZifyN ZifyNat ZifyBool Permutation.
Local Open Scope N_scope.

Definition is_dispatch (o : outev) : bool := match o with ODispatch _ _ => true | _ => false end.
Definition count_disp (l : list outev) : Z := Z.of_nat (length (filter is_dispatch l)).

Lemma count_disp_app l l' : count_disp (l ++ l') = (count_disp l + count_disp l')%Z.
Proof. unfold count_disp. rewrite filter_app, app_length. lia. Qed.
Lemma count_disp_rev l : count_disp (rev l) = count_disp l.
Proof.
  induction l as [|o l IH]; [reflexivity|]. cbn [rev]. rewrite count_disp_app, IH.
  unfold count_disp. cbn [filter]. destruct (is_dispatch o); cbn [length]; lia.
Qed.
Lemma count_disp_frames l : Forall is_frame l -> count_disp l = 0%Z.
Proof.
  induction 1 as [|o l H _ IH]; [reflexivity|]. unfold count_disp in *. cbn [filter].
  destruct o; cbn in H; try contradiction; exact IH.
Qed.

Lemma count_running_app l l' : count_running (l ++ l') = (count_running l + count_running l')%Z.
Proof. unfold count_running. rewrite filter_app, app_length. lia. Qed.
Lemma count_running_perm l l' : Permutation l l' -> count_running l = count_running l'.
Proof.
  induction 1 as [|x l l' _ IH|x y l|l l' l'' _ IH1 _ IH2]; rewrite ?count_running_cons; lia.
Qed.
Lemma count_running_sloc l l' : Forall2 sloc l l' -> count_running l' = count_running l.
Proof.
  induction 1 as [|a b l l' S _ IH]; [reflexivity|]. rewrite !count_running_cons, IH.
  destruct S as (_ & _ & Sr & _). rewrite Sr. reflexivity.
Qed.
Lemma count_running_del l id old : strms_search l id = Some old ->
  count_running (strms_del l id) = (count_running l - (if st_handlerRunning old then 1 else 0))%Z.
Proof. intro H. rewrite (count_running_perm _ _ (del_perm _ _ _ H)), count_running_cons. lia. Qed.
Lemma count_running_put l x old : strms_search l (st_id x) = Some old ->
  count_running (strms_put l x) =
  (count_running l - (if st_handlerRunning old then 1 else 0) + (if st_handlerRunning x then 1 else 0))%Z.
Proof.
  induction l as [|y t IH]; cbn [strms_search strms_put]; [discriminate|].
  destruct (st_id y =? st_id x); intro H.
  - inversion H; subst. rewrite !count_running_cons. lia.
  - rewrite !count_running_cons, (IH H). lia.
Qed.

Section Count.
Variable hstate : Type.
Variable dec_field : hstate -> N -> bytes -> dec_res hstate.
Variable enc_field : hstate -> bytes -> bytes -> bool -> bytes * hstate.
Variable enc_set_max : hstate -> N -> hstate.
Variable cfg : config.
Variable h0 : hstate.
Notation Q := QT.
Notation sconn := (sconn hstate).
Notation mv := (mv hstate dec_field cfg Q).
Notation mvs := (mvs hstate dec_field cfg Q).
Notation SI := (SI cfg Q).
Notation step := (step dec_field enc_field enc_set_max cfg).
Notation run := (run dec_field enc_field enc_set_max cfg h0).
Implicit Types c : sconn.

(* does this event take a handler back? (an EvDone for a stream with a running handler, while the loop runs) *)
Definition handler_returns (c : sconn) (e : event) : bool :=
  match e with
  | EvDone sid _ =>
    negb (sc_sl_done c) &&
    (match take_stream (sc_gone c) sid with Some _ => true | None => false end ||
     match strms_search (sc_strms c) sid with Some s => st_handlerRunning s | None => false end)
  | _ => false
  end.

Fixpoint returns_from (c : sconn) (evs : list event) : Z :=
  match evs with
  | [] => 0
  | e :: t => ((if handler_returns c e then 1 else 0) + returns_from (step c e) t)%Z
  end.
Definition returns (evs : list event) : Z := returns_from (init_conn cfg h0) evs.

(* dispatched - running *)
Definition bal (c : sconn) : Z := (count_disp (sc_out c) - running c)%Z.

Lemma SI_mv' o a b : mv o a b -> SI a -> SI b.
Proof. apply (SI_mv _ dec_field enc_set_max). Qed.

Lemma mv_bal o a b : mv o a b -> SI a -> bal b = (bal a + Z.of_nat (length (olist o)))%Z.
Proof.
  intros M HS. unfold bal, running. destruct M; cbn [olist length].
  - destruct H0 as (SC & (l & E & F) & _). destruct SC as (S1 & S2 & _).
    rewrite E, count_disp_app, (count_disp_frames _ F), S1, S2. lia.
  - rewrite sc_out_write_goaway, H. sc_rw. destruct (sc_wl_dead c); [lia|]. unfold count_disp. cbn [filter is_dispatch]. lia.
  - sc_rw. lia.
  - sc_cbn. lia.
  - sc_cbn. rewrite (count_running_sloc _ _ H0). lia.
  - (* dispatch *)
    rewrite sc_strms_put. sc_rw. unfold note. sc_cbn.
    assert (Ro : st_handlerRunning old = false).
    { destruct (st_handlerRunning old) eqn:R; [|reflexivity]. pose proof (si_run _ _ _ _ HS) as F. rewrite Forall_forall in F.
      destruct (F old (proj1 (strms_search_In _ _ _ H0)) R) as [_ R2]. congruence. }
    rewrite (count_running_put _ _ _ H0), Ro, H3. unfold count_disp. cbn [filter is_dispatch length]. lia.
  - (* create *)
    sc_cbn. rewrite count_running_app, count_running_cons, H5. change (count_running []) with 0%Z. lia.
  - (* close *)
    rename H0 into SS. destruct H1 as (Si & So & Sr & Sp).
    rewrite sc_strms_close_stream, sc_gone_close_stream, sc_out_close_stream, (count_running_del _ _ _ SS), <- Sr.
    destruct (st_handlerRunning x); cbn [length]; [lia|]. unfold count_disp. cbn [filter is_dispatch]. lia.
  - (* done_gone *)
    destruct (take_stream_Some _ _ _ _ H0) as (_ & _ & Len & _).
    rewrite sc_out_release_stream. sc_rw. sc_cbn. rewrite Len. unfold count_disp. cbn [filter is_dispatch]. lia.
  - (* returned *)
    destruct H0 as (SC & (l & E & F) & _). destruct SC as (S1 & S2 & _).
    rewrite sc_strms_put, sc_out_put, sc_gone_put, E, count_disp_app, (count_disp_frames _ F), S1, S2.
    rewrite (count_running_put _ _ _ H1), H4, H5. lia.
  - unfold brk, note. sc_cbn. unfold count_disp. cbn [filter is_dispatch]. lia.
  - (* fatal *)
    unfold brk, note. sc_cbn. rewrite (count_running_sloc _ _ H0), count_running_app.
    assert (count_running extra = 0%Z).
    { destruct H1 as [->|(s & -> & _ & R & _)]; [reflexivity|]. rewrite count_running_cons, R. reflexivity. }
    unfold count_disp. cbn [filter is_dispatch]. lia.
  - unfold note. sc_cbn. unfold count_disp. cbn [filter is_dispatch]. lia.
  - destruct H0 as [SC EOut]. destruct SC as (S1 & S2 & _). rewrite EOut, S1, S2. lia.
Qed.

Lemma mvs_bal l a b : mvs l a b -> SI a -> bal b = (bal a + Z.of_nat (length l))%Z.
Proof.
  induction 1 as [c|o l a b c M MS IH]; intro HS; [cbn; lia|].
  rewrite (IH (SI_mv' _ _ _ M HS)), (mv_bal _ _ _ M HS), app_length. lia.
Qed.

Lemma omv_bal pc a b : omv hstate pc a b -> bal b = bal a.
Proof.
  intro M.
  assert (G : forall (c : sconn) sid code, count_disp (sc_out (write_goaway c sid code)) = count_disp (sc_out c)).
  { intros. rewrite sc_out_write_goaway. destruct (sc_wl_dead c); [reflexivity|]. destruct (sc_sl_done c); reflexivity. }
  unfold bal, running. destruct M; sc_rw; rewrite ?G; try reflexivity.
  rewrite sc_out_emit. destruct (sc_wl_dead c); [reflexivity|]. destruct (sc_sl_done c); [reflexivity|].
  destruct o; cbn in H0; try contradiction; reflexivity.
Qed.
Lemma omvs_bal pc a b : omvs hstate pc a b -> bal b = bal a.
Proof. induction 1 as [c|a b c M MS IH]; [reflexivity|]. rewrite IH. eapply omv_bal; eassumption. Qed.

Lemma step_bal c e : SI c -> bal (step c e) = (bal c + (if handler_returns c e then 1 else 0))%Z.
Proof.
  intro HS.
  assert (SH := step_shape hstate dec_field enc_field enc_set_max cfg Q (QT_closed _ dec_field cfg) c e (SI_ids_ok _ _ _ _ HS)).
  assert (GEN : (exists c0, omvs hstate (parser_code e) c c0 /\ mvs [] c0 (step c e)) -> bal (step c e) = bal c).
  { intros (c0 & O & M). rewrite (mvs_bal _ _ _ M (SI_omvs _ _ _ _ _ _ O HS)), (omvs_bal _ _ _ O). cbn. lia. }
  destruct e as [i| |sid r|t| | | |]; try (cbn [handler_returns]; rewrite (GEN SH); lia).
  cbn [handler_returns]. destruct SH as [(E & NOOP)|(Hd & b & M1 & M)].
  - rewrite E. destruct NOOP as [Hd|[TS NR]]; [rewrite Hd; cbn; lia|].
    rewrite TS. destruct (strms_search (sc_strms c) sid) as [s|] eqn:SS; [rewrite (NR s eq_refl)|];
      rewrite ?andb_false_r; cbn [orb]; rewrite ?andb_false_r; lia.
  - rewrite (mvs_bal _ _ _ M (SI_mv' _ _ _ M1 HS)), (mv_bal _ _ _ M1 HS), Hd. cbn [negb andb olist length].
    assert (R : (match take_stream (sc_gone c) sid with Some _ => true | None => false end ||
                 match strms_search (sc_strms c) sid with Some s => st_handlerRunning s | None => false end)%bool = true).
    { remember (Some sid) as o eqn:EO. destruct M1; try discriminate EO; inversion EO; subst.
      - rewrite H0. reflexivity.
      - rewrite H1, H2, H4. reflexivity. }
    rewrite R. lia.
Qed.

Lemma SI_step_T c e : SI c -> SI (step c e).
Proof. apply SI_step. apply QT_closed. Qed.

Lemma bal_from evs : forall c, SI c ->
  bal (run_from dec_field enc_field enc_set_max cfg c evs) = (bal c + returns_from c evs)%Z.
Proof.
  induction evs as [|e t IH]; intros c HS; cbn [returns_from]; [rewrite run_from_nil; lia|].
  rewrite run_from_cons, (IH _ (SI_step_T c e HS)), (step_bal c e HS). lia.
Qed.

(* the handlers running are exactly the requests dispatched minus the handlers that came back *)
Theorem running_is_dispatched_minus_returned evs :
  running (run evs) = (count_disp (trace (run evs)) - returns evs)%Z.
Proof.
  pose proof (bal_from evs (init_conn cfg h0) (SI_init _ dec_field enc_field enc_set_max cfg Q h0)) as B.
  rewrite <- run_eq in B. unfold bal in B. fold (returns evs) in B.
  assert (E : count_disp (trace (run evs)) = count_disp (sc_out (run evs))) by (unfold trace; apply count_disp_rev).
  rewrite E. cbn in B. lia.
Qed.

(* C13 (a) over traces: at the end of every event list (so at every prefix), dispatched - returned <= the limit *)
Theorem dispatched_minus_returned_bounded evs :
  (0 <= count_disp (trace (run evs)) - returns evs <= Z.max 0 (cf_maxStreams cfg))%Z.
Proof.
  rewrite <- running_is_dispatched_minus_returned.
  destruct (SI_slots _ dec_field enc_field enc_set_max cfg h0 _ Q (SI_run_T _ dec_field enc_field enc_set_max cfg h0 evs)). lia.
Qed.

End Count.
