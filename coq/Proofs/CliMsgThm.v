(* Proofs/CliMsgThm.v - C02 (c) and C20 (client): the theorems, over the abstract HPACK coder.

   never_idle evs   the hypothesis on the server: it never sends a frame on a stream the client has not opened yet
                    (RFC 7540 5.1.1; a conforming server cannot do otherwise)
   cl_ghost evs     the reference receiver after the frames the read loop took in during evs (Proofs/CliMsgInv.v)
   own id items     the items (complete header blocks and DATA frames) received on stream id, in order *)
From H2V Require Import Base.Bytes Base.MachineInt Base.Result Gen.GenConsts Impl.ServerConn Impl.ClientConn
  Spec.Http2Messages Spec.Http2Responses Proofs.CliBase Proofs.SrvIsoRef Proofs.CliMsgRef Proofs.CliMsgAuto Proofs.CliMsgMoves
  Proofs.CliMsgDisp Proofs.CliMsgStep Proofs.CliMsgInv Proofs.CliMsgFeed Proofs.CliMsgRun.
From Coq Require Import ZArith Lia ZifyN ZifyNat ZifyBool List.
Import ListNotations.
Local Open Scope N_scope.

Section Thm.
Context {hstate : Type}.
Variable dec_field : hstate -> N -> bytes -> dec_res hstate.
Variable enc_field : hstate -> bytes -> bytes -> bool -> bytes * hstate.
Variable enc_set_max : hstate -> N -> hstate.
Variable cfg : cl_config.
Variable h0 : hstate.
Variable first : bytes.
Implicit Types c : cconn hstate.

Notation step := (cl_step dec_field enc_field enc_set_max cfg).
Notation run := (cl_run dec_field enc_field enc_set_max cfg h0 first).
Notation ghost := (cl_ghost dec_field enc_field enc_set_max cfg h0 first).
Notation never_idle := (never_idle dec_field enc_field enc_set_max cfg h0 first).
Notation gstep := (gstep dec_field).

(* ---------- runs, one event more ---------- *)
Lemma takens_from_snoc evs : forall c e,
  takens_from dec_field enc_field enc_set_max cfg c (evs ++ [e]) =
  takens_from dec_field enc_field enc_set_max cfg c evs ++ match cl_taken (fold_left step evs c) e with Some fr => [fr] | None => [] end.
Proof.
  induction evs as [|a t IH]; intros c e; cbn [app takens_from fold_left]; [rewrite app_nil_r; reflexivity|].
  rewrite IH, app_assoc. reflexivity.
Qed.

Lemma ghost_snoc evs e : ghost (evs ++ [e]) = gopt dec_field (ghost evs) (cl_taken (run evs) e).
Proof.
  unfold cl_ghost, cl_takens. rewrite takens_from_snoc, fold_left_app. unfold cl_run.
  destruct (cl_taken _ e); reflexivity.
Qed.

Lemma never_idle_from_snoc evs : forall c e,
  never_idle_from dec_field enc_field enc_set_max cfg c (evs ++ [e]) <->
  never_idle_from dec_field enc_field enc_set_max cfg c evs /\
  (forall fr, cl_taken (fold_left step evs c) e = Some fr -> sf_sid fr < cc_nextID (fold_left step evs c)).
Proof.
  induction evs as [|a t IH]; intros c e; cbn [app never_idle_from fold_left]; [tauto|]. rewrite IH. tauto.
Qed.

Lemma never_idle_snoc evs e :
  never_idle (evs ++ [e]) <-> never_idle evs /\ (forall fr, cl_taken (run evs) e = Some fr -> sf_sid fr < cc_nextID (run evs)).
Proof. apply never_idle_from_snoc. Qed.

(* a decidable form of the hypothesis, for examples *)
Fixpoint never_idle_fromb c (evs : list cevent) : bool :=
  match evs with
  | [] => true
  | e :: t => (match cl_taken c e with Some fr => sf_sid fr <? cc_nextID c | None => true end) && never_idle_fromb (step c e) t
  end.
Lemma never_idle_fromb_ok evs : forall c, never_idle_fromb c evs = true -> never_idle_from dec_field enc_field enc_set_max cfg c evs.
Proof.
  induction evs as [|e t IH]; intros c H; cbn [never_idle_fromb never_idle_from] in *; [exact Logic.I|].
  apply andb_true_iff in H. destruct H as [A B]. split; [|exact (IH _ B)]. intros fr E. rewrite E in A. lia.
Qed.
Definition never_idleb (evs : list cevent) : bool := never_idle_fromb (cl_init enc_set_max h0 first) evs.
Lemma never_idleb_ok evs : never_idleb evs = true -> never_idle evs.
Proof. apply never_idle_fromb_ok. Qed.

(* ---------- C02 (c): a caller that is told "no error" holds the response the server sent on ITS stream ---------- *)
Theorem own_response evs tag r resp :
  never_idle evs -> In (COResult tag r CENil resp) (cl_trace (run evs)) ->
  exists x, cl_ctx_get (run evs) tag = Some x /\ ct_sid x <> 0 /\
            let mine := first_end (own (ct_sid x) (g_items (ghost evs))) in
            lax_response mine = true /\ resp = asm cl_empty_resp mine.
Proof.
  intros NI H. destruct (Inv_run dec_field enc_field enc_set_max cfg h0 first evs NI) as [I _].
  apply cl_trace_In in H. destruct (i_res _ _ I tag r resp H) as (x & G & S & R).
  exists x. split; [exact G|]. split; [exact S|]. exact (run_sound _ _ _ R).
Qed.

(* a request that is still waiting has received nothing that ends or refuses its response *)
Theorem waiting_prefix evs id tag :
  never_idle evs -> In (id, tag) (cc_reqQueued (run evs)) ->
  exists x p, cl_ctx_get (run evs) tag = Some x /\ ct_sid x = id /\
              run_items rinit (own id (g_items (ghost evs))) = ICont p /\ existsb item_es (own id (g_items (ghost evs))) = false.
Proof.
  intros NI H. destruct (Inv_run dec_field enc_field enc_set_max cfg h0 first evs NI) as [I _].
  destruct (i_tab _ _ I id tag H) as (x & G & S & _ & _ & _ & (r0 & got & T1 & _)).
  exists x, (r0, got). repeat split; try assumption. exact (run_items_cont_no_es _ _ _ T1).
Qed.

(* ---------- the frame that completes a response ---------- *)
Lemma rl_step_feed c fr tag x :
  cl_rl_live c = true -> cc_netClosed c = false -> sf_sid fr <> 0 -> frame_in_seq c fr = true ->
  cl_req_find (cc_reqQueued c) (sf_sid fr) = Some tag -> cl_acquire_for [] c tag (sf_sid fr) = CLOk -> cl_ctx_get c tag = Some x ->
  exists c1, qm q2 c c1 /\ feed_pre c1 fr (Some x) /\ step c (CEvRL (RFrame fr)) = feed_state dec_field c1 fr (Some x).
Proof.
  intros L NC S0 FS F AQ G.
  set (c1 := if fkind_eqb (sf_kind fr) KWinUpd then cl_add_window c (sf_sid fr) (Z.of_N (sf_inc fr)) else c).
  assert (Q1 : qm q2 c c1) by (subst c1; destruct (fkind_eqb (sf_kind fr) KWinUpd); [apply qm_add_window | apply qm_refl]).
  assert (RQ : cc_reqQueued c1 = cc_reqQueued c) by (subst c1; destruct (fkind_eqb (sf_kind fr) KWinUpd); [apply add_window_rq | reflexivity]).
  assert (CX : cc_ctxs c1 = cc_ctxs c) by (subst c1; destruct (fkind_eqb (sf_kind fr) KWinUpd); [apply add_window_ctxs | reflexivity]).
  assert (L1 : cl_rl_live c1 = true) by (subst c1; destruct (fkind_eqb (sf_kind fr) KWinUpd); [rewrite add_window_live|]; exact L).
  assert (H1 : cc_hdrStream c1 = cc_hdrStream c) by (subst c1; destruct (fkind_eqb (sf_kind fr) KWinUpd); [apply add_window_hs | reflexivity]).
  destruct (acquire_ok dec_field enc_set_max _ _ _ AQ) as (x0 & G0 & SX & TX). rewrite G in G0. inversion G0; subst x0.
  exists c1. split; [exact Q1|]. split.
  - split; [exact L1|]. split; [exact S0|]. split; [rewrite (frame_in_seq_hs c c1 fr H1); exact FS|].
    rewrite TX, RQ. unfold cl_ctx_get. rewrite CX. repeat split; assumption.
  - cbn [cl_step]. rewrite L. unfold cl_rl_step. rewrite NC. replace (sf_sid fr =? 0) with false by lia.
    unfold cl_rl_frame. unfold frame_in_seq in FS.
    destruct (fkind_eqb (sf_kind fr) KPush); [discriminate|]. cbn [negb andb] in FS.
    assert (E : (negb (cc_hdrStream c =? 0) && (negb (fkind_eqb (sf_kind fr) KCont) || negb (sf_sid fr =? cc_hdrStream c))) = false /\
                ((cc_hdrStream c =? 0) && fkind_eqb (sf_kind fr) KCont) = false).
    { destruct (cc_hdrStream c =? 0); cbn [negb andb] in *; [split; [reflexivity | apply negb_true_iff; exact FS]|].
      apply andb_true_iff in FS. destruct FS as [A B]. rewrite A, B. split; reflexivity. }
    destruct E as [E1 E2]. rewrite E1, E2. fold c1.
    rewrite (cl_dispatch_eq dec_field c1 fr). unfold disp_ok. rewrite RQ, F, (acquire_for_ctxs _ c c1 _ _ CX), AQ.
    unfold cl_ctx_get at 1. rewrite CX. unfold cl_ctx_get in G. rewrite G. unfold feed_state.
    destruct (disp_feed dec_field c1 fr (Some x)) as [[[c2 ok2] ended] err2]. unfold rl_after.
    destruct (disp_tail c2 (sf_sid fr) ok2 ended err2) as [c3 []]; reflexivity.
Qed.

(* C20, conversely: when the frame that completes a response the automaton accepts is taken in while the request is
   waiting for it (its Ctx can be taken: not cancelled, not given back) and nothing has resolved it yet, the request
   gets nil and exactly that response *)
Theorem complete_response_delivered evs fr tag x r :
  let e := CEvRL (RFrame fr) in
  never_idle (evs ++ [e]) -> cl_taken (run evs) e = Some fr ->
  cl_req_find (cc_reqQueued (run evs)) (sf_sid fr) = Some tag -> cl_acquire_for [] (run evs) tag (sf_sid fr) = CLOk ->
  cl_ctx_get (run evs) tag = Some x -> ct_err x = None -> ct_resolved x = false ->
  run_items rinit (own (sf_sid fr) (g_items (ghost (evs ++ [e])))) = IDone r ->
  exists x3, cl_ctx_get (run (evs ++ [e])) tag = Some x3 /\ ct_err x3 = Some CENil /\ ct_resp x3 = r /\
             cl_req_find (cc_reqQueued (run (evs ++ [e]))) (sf_sid fr) = None.
Proof.
  intros e NI TK F AQ G EN RN DONE. apply never_idle_snoc in NI. destruct NI as [NI NL].
  destruct (Inv_run dec_field enc_field enc_set_max cfg h0 first evs NI) as [I ID].
  rewrite ghost_snoc, TK in DONE. cbn [gopt] in DONE.
  unfold cl_taken in TK. subst e.
  destruct (cl_rl_live (run evs)) eqn:L; [|discriminate]. destruct (cc_netClosed (run evs)) eqn:NC; [discriminate|].
  destruct (sf_sid fr =? 0) eqn:Z; [discriminate|]. destruct (frame_in_seq (run evs) fr) eqn:FS; [|discriminate]. cbn [negb andb] in TK.
  destruct (rl_step_feed (run evs) fr tag x L NC ltac:(lia) FS F AQ G) as (c1 & Q1 & FP & ST).
  pose proof (Inv_qm _ _ _ I (qm_weaken _ _ Q1)) as I1.
  destruct (Inv_feed_at dec_field _ c1 fr (Some x) I1 FP) as (I2 & NX & FW).
  rewrite (cl_run_snoc _ dec_field enc_field enc_set_max cfg h0 first evs), ST.
  assert (TX : ct_tag x = tag) by (destruct (cl_ctxs_get_In _ _ _ G); assumption).
  destruct (FW EN RN r DONE) as (x3 & G3 & E3 & R3). rewrite TX in G3. exists x3. repeat split; try assumption.
  (* off the table: a request on the table has not seen the end of its response *)
  destruct (cl_req_find (cc_reqQueued (feed_state dec_field c1 fr (Some x))) (sf_sid fr)) as [t|] eqn:F2; [|reflexivity].
  exfalso. destruct (i_tab _ _ I2 _ _ (cl_req_find_In _ _ _ F2)) as (y & _ & _ & _ & _ & _ & (r0 & got & T1 & _)). congruence.
Qed.

(* the caller then takes it: roundTripOnce returns what is in the Err channel, with the Response as it stands *)
Lemma receive_result c tag x e :
  cl_ctx_get c tag = Some x -> ct_returned x = false -> ct_err x = Some e -> ct_lckStuck x = false ->
  In (COResult tag (cl_retryable e) e (ct_resp x)) (cl_trace (step c (CEvReceive tag))).
Proof.
  intros G R E K. apply cl_trace_In. cbn [cl_step]. unfold cl_receive. rewrite G, R, E. cbn [ct_lckStuck ctu_armed ctu_err]. rewrite K.
  match goal with |- context [if ?b then _ else _] => destruct b end; cbn; auto.
Qed.

(* ---------- the decoder: the read loop's HPACK state is the reference decoder folded over ALL fragments ---------- *)
Theorem decoder_is_reference_ni evs :
  never_idle evs -> cl_rl_live (run evs) = true ->
  cc_dec (run evs) = g_d (ghost evs) /\
  match g_open (ghost evs) with
  | None => cc_hdrStream (run evs) = 0
  | Some (s, es, fs) => cc_hdrStream (run evs) = s /\ cc_hdrFields (run evs) = g_n (ghost evs) /\ cc_hdrPrev (run evs) = g_carry (ghost evs)
  end.
Proof.
  intros NI L. destruct (Inv_run dec_field enc_field enc_set_max cfg h0 first evs NI) as [I _].
  destruct (i_dec _ _ I L) as [A B]. split; [symmetry; exact A|].
  destruct (g_open (ghost evs)) as [[[s es] fs]|]; [|exact B]. destruct B as (B1 & _ & _ & B4 & B5). repeat split; congruence.
Qed.

End Thm.
