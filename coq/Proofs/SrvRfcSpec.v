(* Proofs/SrvRfcSpec.v - C08: lemmas about Spec/Rfc7540Streams.v alone: how st_of moves
   under set_st / upd_st / spec_sent / forget, and the well-formedness invariant. *)
From H2V Require Import Base.Bytes Gen.GenConsts.
From H2V Require Spec.Rfc7540Streams.
From Coq Require Import ZArith Lia ZifyN ZifyNat ZifyBool.
Local Open Scope N_scope.
Module RS := H2V.Spec.Rfc7540Streams.
Import RS.

(* every stream the table knows about is not idle and not above the highest id *)
Definition wf (s : state) : Prop :=
  forall id x, lookup (known s) id = Some x -> x <> Idle /\ id <= highest s.

Lemma wf_init : wf init.
Proof. intros id x H. discriminate H. Qed.

Lemma st_of_closed_le s id w : wf s -> st_of s id = Closed w -> id <= highest s.
Proof.
  intros W H. unfold st_of in H. destruct (N.even id); [discriminate|].
  destruct (lookup (known s) id) as [x|] eqn:E.
  - apply (W id x E).
  - destruct (id <=? highest s) eqn:L; [lia | discriminate].
Qed.

Lemma st_of_notidle_le s id : wf s -> st_of s id <> Idle -> id <= highest s.
Proof.
  intros W H. unfold st_of in H. destruct (N.even id); [congruence|].
  destruct (lookup (known s) id) as [x|] eqn:E.
  - apply (W id x E).
  - destruct (id <=? highest s) eqn:L; [lia | congruence].
Qed.

Lemma st_of_idle_gt s id : wf s -> N.odd id = true -> st_of s id = Idle -> highest s < id.
Proof.
  intros W O H. unfold st_of in H. rewrite <- N.negb_odd, O in H. cbn [negb] in H.
  destruct (lookup (known s) id) as [x|] eqn:E.
  - subst x. destruct (W id Idle E) as [C _]. congruence.
  - destruct (id <=? highest s) eqn:L; [discriminate | lia].
Qed.

Lemma st_of_even s id : N.even id = true -> st_of s id = Idle.
Proof. intro E. unfold st_of. rewrite E. reflexivity. Qed.

Lemma st_of_set_st_same s j x : N.odd j = true -> st_of (set_st s j x) j = x.
Proof. intro O. unfold st_of, set_st. rewrite <- N.negb_odd, O. cbn. rewrite N.eqb_refl. reflexivity. Qed.

(* raising the highest id closes the idle odd ids it skips; nothing else moves *)
Lemma st_of_set_st_other s j x id : wf s -> id <> j ->
  st_of (set_st s j x) id =
  match st_of s id with
  | Idle => if N.odd id && (id <=? j) then Closed Implicit else Idle
  | y => y
  end.
Proof.
  intros W Hne. unfold st_of at 1, set_st. cbn [known highest lookup].
  destruct (j =? id) eqn:E; [lia|]. unfold st_of.
  rewrite <- N.negb_odd. destruct (N.odd id); cbn [negb andb]; [|reflexivity].
  destruct (lookup (known s) id) as [y|] eqn:L.
  - destruct (W id y L) as [NI _]. destruct y; congruence.
  - destruct (id <=? highest s) eqn:A.
    + replace (id <=? N.max (highest s) j) with true by lia. reflexivity.
    + destruct (id <=? j) eqn:B.
      * replace (id <=? N.max (highest s) j) with true by lia. reflexivity.
      * replace (id <=? N.max (highest s) j) with false by lia. reflexivity.
Qed.

Lemma st_of_set_st_le s j x id : wf s -> j <= highest s -> id <> j -> st_of (set_st s j x) id = st_of s id.
Proof.
  intros W Hle Hne. rewrite st_of_set_st_other by assumption.
  destruct (st_of s id) eqn:E; try reflexivity.
  destruct (N.odd id) eqn:O; cbn [andb]; [|reflexivity].
  pose proof (st_of_idle_gt s id W O E). replace (id <=? j) with false by lia. reflexivity.
Qed.

Lemma wf_set_st s j x : wf s -> x <> Idle -> wf (set_st s j x).
Proof.
  intros W Hx id y H. unfold set_st in *. cbn [known highest lookup] in *.
  destruct (j =? id) eqn:E.
  - inversion H; subst y. split; [assumption | lia].
  - destruct (W id y H). split; [assumption | lia].
Qed.

Lemma highest_set_st s j x : highest (set_st s j x) = N.max (highest s) j.
Proof. reflexivity. Qed.
Lemma block_set_st s j x : block (set_st s j x) = block s. Proof. reflexivity. Qed.
Lemma goaway_set_st s j x : goaway (set_st s j x) = goaway s. Proof. reflexivity. Qed.
Lemma dead_set_st s j x : dead (set_st s j x) = dead s. Proof. reflexivity. Qed.

(* components that only matter through st_of *)
Definition same_streams (a b : state) : Prop := highest b = highest a /\ known b = known a.

Lemma st_of_same a b id : same_streams a b -> st_of b id = st_of a id.
Proof. intros [H K]. unfold st_of. rewrite H, K. reflexivity. Qed.

Lemma wf_same a b : same_streams a b -> wf a -> wf b.
Proof. intros [H K] W id x L. rewrite K in L. rewrite H. exact (W id x L). Qed.

Lemma same_with_block s b : same_streams s (with_block s b). Proof. split; reflexivity. Qed.
Lemma same_die s : same_streams s (die s). Proof. split; reflexivity. Qed.

(* ---------- upd_st ---------- *)

Lemma st_of_upd_st_same s j x : N.odd j = true -> st_of (upd_st s j x) j = x.
Proof.
  intro O. unfold upd_st. destruct (st_of s j) eqn:E; try (apply st_of_set_st_same; exact O).
  destruct x; try (apply st_of_set_st_same; exact O). exact E.
Qed.

Lemma upd_st_cases s j x : upd_st s j x = set_st s j x \/ (upd_st s j x = s /\ st_of s j = Idle /\ x = Idle).
Proof.
  unfold upd_st. destruct (st_of s j) eqn:E; auto. destruct x; auto.
Qed.

Lemma wf_upd_st s j x : wf s -> (x = Idle -> st_of s j = Idle) -> wf (upd_st s j x).
Proof.
  intros W H. unfold upd_st. destruct (st_of s j) eqn:E.
  - destruct x; try (apply wf_set_st; [assumption | congruence]). assumption.
  - apply wf_set_st; [assumption|]. intro X. specialize (H X). congruence.
  - apply wf_set_st; [assumption|]. intro X. specialize (H X). congruence.
  - apply wf_set_st; [assumption|]. intro X. specialize (H X). congruence.
  - apply wf_set_st; [assumption|]. intro X. specialize (H X). congruence.
Qed.

(* ---------- spec_sent ---------- *)

Definition sent_sid (o : sent) : option N :=
  match o with SentEndStream i | SentRst i => Some i | _ => None end.

(* what a send does to the state of its own stream *)
Definition sent_st (x : sstate) (o : sent) : sstate :=
  match o, x with
  | SentEndStream _, Open => HalfClosedLocal
  | SentEndStream _, HalfClosedRemote => Closed PeerEnd
  | SentRst _, (Open | HalfClosedLocal | HalfClosedRemote) => Closed WeRst
  | _, _ => x
  end.

Lemma st_of_spec_sent s o id : wf s ->
  st_of (spec_sent s o) id = if match sent_sid o with Some j => j =? id | None => false end then sent_st (st_of s id) o else st_of s id.
Proof.
  intros W. destruct (N.odd id) eqn:O.
  2:{ assert (Ev : N.even id = true) by (rewrite <- N.negb_odd, O; reflexivity).
      rewrite (st_of_even s id Ev), (st_of_even (spec_sent s o) id Ev).
      destruct o as [j|j| |]; cbn; try reflexivity; destruct (_ =? _); reflexivity. }
  destruct o as [j|j| |]; cbn [sent_sid spec_sent].
  - destruct (j =? id) eqn:E.
    + apply N.eqb_eq in E. subst j. destruct (st_of s id) eqn:X; cbn [sent_st]; rewrite ?st_of_set_st_same; auto.
    + assert (id <> j) by lia.
      destruct (st_of s j) eqn:X; try reflexivity;
        (rewrite st_of_set_st_le; [reflexivity | assumption | | assumption]);
        apply st_of_notidle_le; try assumption; congruence.
  - destruct (j =? id) eqn:E.
    + apply N.eqb_eq in E. subst j. destruct (st_of s id) eqn:X; cbn [sent_st]; rewrite ?st_of_set_st_same; auto.
    + assert (id <> j) by lia.
      destruct (st_of s j) eqn:X; try reflexivity;
        (rewrite st_of_set_st_le; [reflexivity | assumption | | assumption]);
        apply st_of_notidle_le; try assumption; congruence.
  - reflexivity.
  - reflexivity.
Qed.

Lemma wf_spec_sent s o : wf s -> wf (spec_sent s o).
Proof.
  intros W. destruct o as [j|j| |]; cbn [spec_sent].
  - destruct (st_of s j); try assumption; apply wf_set_st; try assumption; congruence.
  - destruct (st_of s j); try assumption; apply wf_set_st; try assumption; congruence.
  - intros id x L. exact (W id x L).
  - intros id x L. exact (W id x L).
Qed.

Lemma highest_spec_sent s o : wf s -> highest (spec_sent s o) = highest s.
Proof.
  intros W. destruct o as [j|j| |]; cbn [spec_sent]; try reflexivity.
  - destruct (st_of s j) eqn:X; try reflexivity; rewrite highest_set_st;
      assert (j <= highest s) by (apply st_of_notidle_le; [assumption | congruence]); lia.
  - destruct (st_of s j) eqn:X; try reflexivity; rewrite highest_set_st;
      assert (j <= highest s) by (apply st_of_notidle_le; [assumption | congruence]); lia.
Qed.

Lemma block_spec_sent s o : block (spec_sent s o) = block s.
Proof. destruct o as [j|j| |]; cbn [spec_sent]; try reflexivity; destruct (st_of s j); reflexivity. Qed.

Lemma goaway_spec_sent s o :
  goaway (spec_sent s o) = match o with SentGoAway | Closed_connection => true | _ => goaway s end.
Proof. destruct o as [j|j| |]; cbn [spec_sent]; try reflexivity; destruct (st_of s j); reflexivity. Qed.

Lemma dead_spec_sent s o :
  dead (spec_sent s o) = match o with Closed_connection => true | _ => dead s end.
Proof. destruct o as [j|j| |]; cbn [spec_sent]; try reflexivity; destruct (st_of s j); reflexivity. Qed.

(* folds *)
Lemma wf_fold_sent l : forall s, wf s -> wf (fold_left spec_sent l s).
Proof. induction l as [|o l IH]; intros s W; cbn [fold_left]; [assumption|]. apply IH, wf_spec_sent, W. Qed.

Lemma highest_fold_sent l : forall s, wf s -> highest (fold_left spec_sent l s) = highest s.
Proof.
  induction l as [|o l IH]; intros s W; cbn [fold_left]; [reflexivity|].
  rewrite IH by (apply wf_spec_sent, W). apply highest_spec_sent, W.
Qed.

Lemma block_fold_sent l : forall s, block (fold_left spec_sent l s) = block s.
Proof. induction l as [|o l IH]; intros s; cbn [fold_left]; [reflexivity|]. rewrite IH. apply block_spec_sent. Qed.

Lemma st_of_fold_sent_untouched l id : forall s, wf s ->
  (forall o, In o l -> sent_sid o <> Some id) ->
  st_of (fold_left spec_sent l s) id = st_of s id.
Proof.
  induction l as [|o l IH]; intros s W H; cbn [fold_left]; [reflexivity|].
  rewrite IH; [| apply wf_spec_sent, W | intros o' Ho'; apply H; right; exact Ho'].
  rewrite st_of_spec_sent by assumption.
  specialize (H o (or_introl eq_refl)). destruct (sent_sid o) as [j|]; [|reflexivity].
  destruct (j =? id) eqn:E; [|reflexivity]. apply N.eqb_eq in E. congruence.
Qed.

Definition has_close (l : list sent) : bool := existsb (fun o => match o with Closed_connection => true | _ => false end) l.
Definition has_goaway (l : list sent) : bool :=
  existsb (fun o => match o with SentGoAway | Closed_connection => true | _ => false end) l.

Lemma dead_fold_sent l : forall s, dead (fold_left spec_sent l s) = dead s || has_close l.
Proof.
  induction l as [|o l IH]; intros s; cbn [fold_left has_close existsb]; [rewrite orb_false_r; reflexivity|].
  rewrite IH, dead_spec_sent. fold (has_close l). destruct o; cbn; try reflexivity; rewrite ?orb_true_r; try reflexivity;
  try (destruct (dead s); reflexivity).
Qed.

Lemma goaway_fold_sent l : forall s, goaway (fold_left spec_sent l s) = goaway s || has_goaway l.
Proof.
  induction l as [|o l IH]; intros s; cbn [fold_left has_goaway existsb]; [rewrite orb_false_r; reflexivity|].
  rewrite IH, goaway_spec_sent. fold (has_goaway l). destruct o; cbn; try reflexivity; rewrite ?orb_true_r; try reflexivity;
  try (destruct (goaway s); reflexivity).
Qed.

(* ---------- forget ---------- *)

Lemma st_of_forget s j id : wf s ->
  st_of (forget s j) id = if j =? id then match st_of s id with Closed _ => Closed Implicit | x => x end else st_of s id.
Proof.
  intros W. unfold forget. destruct (j =? id) eqn:E.
  - apply N.eqb_eq in E. subst j. destruct (st_of s id) eqn:X; try exact X. apply st_of_set_st_same.
    destruct (N.odd id) eqn:O; [reflexivity|]. rewrite st_of_even in X; [discriminate|]. rewrite <- N.negb_odd, O. reflexivity.
  - destruct (st_of s j) eqn:X; try reflexivity.
    apply st_of_set_st_le; [assumption | | lia]. eapply st_of_closed_le; eassumption.
Qed.

Lemma wf_forget s j : wf s -> wf (forget s j).
Proof. intros W. unfold forget. destruct (st_of s j); try assumption. apply wf_set_st; [assumption | congruence]. Qed.

Lemma highest_forget s j : wf s -> highest (forget s j) = highest s.
Proof.
  intros W. unfold forget. destruct (st_of s j) eqn:X; try reflexivity.
  rewrite highest_set_st. pose proof (st_of_closed_le s j w W X). lia.
Qed.

Lemma block_forget s j : block (forget s j) = block s.
Proof. unfold forget. destruct (st_of s j); reflexivity. Qed.
Lemma goaway_forget s j : goaway (forget s j) = goaway s.
Proof. unfold forget. destruct (st_of s j); reflexivity. Qed.
Lemma dead_forget s j : dead (forget s j) = dead s.
Proof. unfold forget. destruct (st_of s j); reflexivity. Qed.

(* forgetting a set of ids chosen by a predicate on ids *)
Section Forget.
Variable keep : N -> bool.
Definition fstep (s : state) (id : N) : state := if keep id then s else forget s id.

Lemma fold_fstep_props l : forall s, wf s ->
  wf (fold_left fstep l s) /\ highest (fold_left fstep l s) = highest s /\ block (fold_left fstep l s) = block s /\
  goaway (fold_left fstep l s) = goaway s /\ dead (fold_left fstep l s) = dead s /\
  forall id, st_of (fold_left fstep l s) id =
    if negb (keep id) && existsb (N.eqb id) l then match st_of s id with Closed _ => Closed Implicit | x => x end
    else st_of s id.
Proof.
  induction l as [|j l IH]; intros s W; cbn [fold_left].
  - split; [assumption|]. do 4 (split; [reflexivity|]). intro id. cbn [existsb]. rewrite andb_false_r. reflexivity.
  - assert (W1 : wf (fstep s j)) by (unfold fstep; destruct (keep j); [assumption | apply wf_forget, W]).
    destruct (IH (fstep s j) W1) as (A & B & C & D & E & F).
    split; [exact A|]. split; [rewrite B; unfold fstep; destruct (keep j); [reflexivity | apply highest_forget, W]|].
    split; [rewrite C; unfold fstep; destruct (keep j); [reflexivity | apply block_forget]|].
    split; [rewrite D; unfold fstep; destruct (keep j); [reflexivity | apply goaway_forget]|].
    split; [rewrite E; unfold fstep; destruct (keep j); [reflexivity | apply dead_forget]|].
    intro id. rewrite F. cbn [existsb].
    assert (Hst : st_of (fstep s j) id = if negb (keep id) && (id =? j) then match st_of s id with Closed _ => Closed Implicit | x => x end else st_of s id).
    { unfold fstep. destruct (id =? j) eqn:Eq.
      - apply N.eqb_eq in Eq. subst j. destruct (keep id); cbn [negb andb]; [reflexivity|].
        rewrite st_of_forget by assumption. rewrite N.eqb_refl. reflexivity.
      - rewrite andb_false_r. destruct (keep j); [reflexivity|]. rewrite st_of_forget by assumption.
        replace (j =? id) with false by lia. reflexivity. }
    rewrite Hst. destruct (keep id); cbn [negb andb]; [reflexivity|].
    destruct (id =? j); cbn [orb]; [|reflexivity].
    destruct (existsb (N.eqb id) l); [|reflexivity]. destruct (st_of s id); reflexivity.
Qed.
End Forget.

Lemma lookup_in_known s id x : lookup (known s) id = Some x -> existsb (N.eqb id) (map fst (known s)) = true.
Proof.
  induction (known s) as [|[i y] l IH]; cbn [lookup map existsb fst]; [discriminate|].
  destruct (i =? id) eqn:E.
  - intros _. replace (id =? i) with true by lia. reflexivity.
  - intro H. rewrite (IH H). apply orb_true_r.
Qed.

(* closed in a way that is remembered => the id is in the known list *)
Lemma closed_known s id w : st_of s id = Closed w -> w <> Implicit -> existsb (N.eqb id) (map fst (known s)) = true.
Proof.
  unfold st_of. destruct (N.even id); [discriminate|]. destruct (lookup (known s) id) eqn:L.
  - intros _ _. eapply lookup_in_known; eassumption.
  - destruct (id <=? highest s); [|discriminate].
    intros H. inversion H. congruence.
Qed.

(* ---------- spec_next ---------- *)

Definition next_st (x : sstate) (f : frame) (r : reaction) : sstate :=
  match r with Process => receive x f | StreamErr _ => reset x f | _ => x end.

Definition conn_err (r : reaction) : bool := match r with ConnErr _ | ConnClose => true | _ => false end.

Lemma receive_idle x f : receive x f = Idle -> x = Idle.
Proof. unfold receive. destruct x, (f_kind f); try destruct (f_es f); congruence. Qed.
Lemma reset_idle x f : reset x f = Idle -> x = Idle.
Proof. unfold reset. destruct x, (f_kind f); congruence. Qed.
Lemma next_st_idle x f r : next_st x f r = Idle -> x = Idle.
Proof. destruct r; cbn; auto; [apply receive_idle | apply reset_idle]. Qed.

(* the part of spec_next before the stream's own state is touched *)
Definition pre_next (s : state) (f : frame) : state :=
  if in_sequence s f then with_block s (if f_eh f then None else Some (f_sid f)) else s.

Lemma same_pre_next s f : same_streams s (pre_next s f).
Proof. unfold pre_next. destruct (in_sequence s f); [apply same_with_block | split; reflexivity]. Qed.

Lemma spec_next_frame s f r :
  spec_next s (Frame f) r =
  if conn_err r then die (pre_next s f)
  else if (f_sid f =? 0) || match r with Ignore => true | _ => false end then pre_next s f
  else upd_st (pre_next s f) (f_sid f) (next_st (st_of s (f_sid f)) f r).
Proof.
  unfold spec_next, pre_next. destruct r; cbn [conn_err next_st]; try reflexivity.
  - destruct (f_sid f =? 0); reflexivity.
  - rewrite orb_true_r. reflexivity.
  - destruct (f_sid f =? 0); reflexivity.
Qed.

Lemma block_upd_st s j x : block (upd_st s j x) = block s.
Proof. destruct (upd_st_cases s j x) as [->|[-> _]]; reflexivity. Qed.
Lemma goaway_upd_st s j x : goaway (upd_st s j x) = goaway s.
Proof. destruct (upd_st_cases s j x) as [->|[-> _]]; reflexivity. Qed.
Lemma dead_upd_st s j x : dead (upd_st s j x) = dead s.
Proof. destruct (upd_st_cases s j x) as [->|[-> _]]; reflexivity. Qed.

Lemma block_pre_next s f :
  block (pre_next s f) = if in_sequence s f then (if f_eh f then None else Some (f_sid f)) else block s.
Proof. unfold pre_next. destruct (in_sequence s f); reflexivity. Qed.
Lemma goaway_pre_next s f : goaway (pre_next s f) = goaway s.
Proof. unfold pre_next. destruct (in_sequence s f); reflexivity. Qed.
Lemma dead_pre_next s f : dead (pre_next s f) = dead s.
Proof. unfold pre_next. destruct (in_sequence s f); reflexivity. Qed.

Lemma block_spec_next s f r :
  block (spec_next s (Frame f) r) = if in_sequence s f then (if f_eh f then None else Some (f_sid f)) else block s.
Proof.
  rewrite spec_next_frame. destruct (conn_err r); [cbn [die block]; apply block_pre_next|].
  destruct (_ || _); [apply block_pre_next | rewrite block_upd_st; apply block_pre_next].
Qed.

Lemma goaway_spec_next s f r : goaway (spec_next s (Frame f) r) = goaway s || conn_err r.
Proof.
  rewrite spec_next_frame. destruct (conn_err r); [cbn; rewrite orb_true_r; reflexivity|]. rewrite orb_false_r.
  destruct (_ || _); [apply goaway_pre_next | rewrite goaway_upd_st; apply goaway_pre_next].
Qed.

Lemma dead_spec_next s f r : dead (spec_next s (Frame f) r) = dead s || conn_err r.
Proof.
  rewrite spec_next_frame. destruct (conn_err r); [cbn; rewrite orb_true_r; reflexivity|]. rewrite orb_false_r.
  destruct (_ || _); [apply dead_pre_next | rewrite dead_upd_st; apply dead_pre_next].
Qed.

Lemma wf_spec_next s i r : wf s -> wf (spec_next s i r).
Proof.
  intro W. destruct i as [f| |code|].
  - rewrite spec_next_frame. pose proof (same_pre_next s f) as Sm. pose proof (wf_same _ _ Sm W) as W1.
    destruct (conn_err r); [eapply wf_same; [apply same_die | exact W1]|].
    destruct (_ || _); [exact W1|]. apply wf_upd_st; [exact W1|].
    intro E. apply next_st_idle in E. rewrite (st_of_same _ _ _ Sm). exact E.
  - cbn. destruct r; try exact W; (eapply wf_same; [apply same_die | exact W]).
  - cbn. destruct r; try exact W; (eapply wf_same; [apply same_die | exact W]).
  - cbn. destruct r; try exact W; (eapply wf_same; [apply same_die | exact W]).
Qed.

(* the stream a frame is on *)
Lemma st_of_spec_next_same s f r : N.odd (f_sid f) = true ->
  st_of (spec_next s (Frame f) r) (f_sid f) = next_st (st_of s (f_sid f)) f (if conn_err r then Ignore else r).
Proof.
  intro O. assert (Hz : f_sid f <> 0) by (intro Z; rewrite Z in O; discriminate). rewrite spec_next_frame. pose proof (same_pre_next s f) as Sm.
  destruct (conn_err r) eqn:CE.
  - cbn [next_st]. rewrite (st_of_same _ _ _ (same_die _)). apply st_of_same, Sm.
  - replace (f_sid f =? 0) with false by lia. cbn [orb].
    destruct r; cbn [next_st]; try discriminate; try (apply st_of_upd_st_same; exact O). apply st_of_same, Sm.
Qed.

(* every other stream: an idle odd id below a newly used one is closed implicitly *)
Lemma st_of_spec_next_other s f r id : wf s -> id <> f_sid f ->
  st_of (spec_next s (Frame f) r) id =
  match st_of s id with
  | Idle => if N.odd id && (id <=? highest (spec_next s (Frame f) r)) then Closed Implicit else Idle
  | y => y
  end.
Proof.
  intros W Hne. rewrite spec_next_frame. pose proof (same_pre_next s f) as Sm. pose proof (wf_same _ _ Sm W) as W1.
  assert (Stay : forall s', same_streams s s' ->
            st_of s' id = match st_of s id with
                          | Idle => if N.odd id && (id <=? highest s') then Closed Implicit else Idle
                          | y => y end).
  { intros s' Sm'. rewrite (st_of_same _ _ _ Sm'). destruct (st_of s id) eqn:X; try reflexivity.
    destruct (N.odd id) eqn:O; cbn [andb]; [|reflexivity].
    pose proof (st_of_idle_gt s id W O X). destruct Sm' as [Hh _]. rewrite Hh.
    replace (id <=? highest s) with false by lia. reflexivity. }
  destruct (conn_err r).
  { apply Stay. destruct Sm as [A B]. split; cbn; assumption. }
  destruct (_ || _); [apply Stay, Sm|].
  destruct (upd_st_cases (pre_next s f) (f_sid f) (next_st (st_of s (f_sid f)) f r)) as [->|[-> _]]; [|apply Stay, Sm].
  rewrite st_of_set_st_other by assumption. rewrite (st_of_same _ _ _ Sm), highest_set_st.
  destruct (st_of s id) eqn:X; try reflexivity.
  destruct (N.odd id) eqn:O; cbn [andb]; [|reflexivity].
  pose proof (st_of_idle_gt s id W O X). destruct Sm as [Hh _]. rewrite Hh.
  destruct (id <=? f_sid f) eqn:L.
  - replace (id <=? N.max (highest s) (f_sid f)) with true by lia. reflexivity.
  - replace (id <=? N.max (highest s) (f_sid f)) with false by lia. reflexivity.
Qed.

Lemma highest_spec_next s f r : wf s ->
  highest (spec_next s (Frame f) r) =
  if negb (conn_err r) && negb (f_sid f =? 0) && match r with Ignore => false | _ => true end
     && match st_of s (f_sid f), next_st (st_of s (f_sid f)) f r with Idle, Idle => false | _, _ => true end
  then N.max (highest s) (f_sid f) else highest s.
Proof.
  intro W. rewrite spec_next_frame. pose proof (same_pre_next s f) as Sm. destruct Sm as [Hh Hk].
  destruct r; cbn [conn_err negb andb next_st]; try (cbn; exact Hh);
    destruct (f_sid f =? 0); cbn [orb negb andb]; try exact Hh.
  - unfold upd_st. rewrite (st_of_same s (pre_next s f) _ (conj Hh Hk)).
    destruct (st_of s (f_sid f)), (receive _ f); cbn; rewrite ?Hh; reflexivity.
  - unfold upd_st. rewrite (st_of_same s (pre_next s f) _ (conj Hh Hk)).
    destruct (st_of s (f_sid f)), (reset _ f); cbn; rewrite ?Hh; reflexivity.
Qed.

Lemma spec_next_other_input s i r : (forall f, i <> Frame f) ->
  spec_next s i r = if conn_err r then die s else s.
Proof. intro H. destruct i as [f| |code|]; [exfalso; eapply H; reflexivity | | |]; destruct r; reflexivity. Qed.

(* ---------- what a list of sends does to one stream ---------- *)

Definition on_id (id : N) (o : sent) : bool := match sent_sid o with Some j => j =? id | None => false end.

Lemma st_of_fold_sent l : forall s id, wf s ->
  st_of (fold_left spec_sent l s) id = fold_left sent_st (filter (on_id id) l) (st_of s id).
Proof.
  induction l as [|o l IH]; intros s id W; cbn [fold_left filter]; [reflexivity|].
  rewrite IH by (apply wf_spec_sent, W). rewrite st_of_spec_sent by exact W. unfold on_id at 2.
  destruct (match sent_sid o with Some j => j =? id | None => false end); reflexivity.
Qed.
