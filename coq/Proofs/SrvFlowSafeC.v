(* Proofs/SrvFlowSafeC.v - C06 safety, part 3: every step of the model against the ledger, and the theorem. *)
From H2V Require Import Base.Bytes Base.MachineInt Base.Result Gen.GenConsts Impl.ServerConn Proofs.SrvBase
  Spec.FlowLedger Proofs.SrvFlowLedger Proofs.SrvFlowDefs Proofs.SrvFlowSend Proofs.SrvFlowEff Proofs.SrvFlowSafe
  Proofs.SrvFlowSafeB.
From Coq Require Import ZArith Lia ZifyN ZifyNat ZifyBool List.
Import ListNotations.
Local Open Scope N_scope.
Set Default Proof Using "Type".

(* grants that only add: opening a stream, WINDOW_UPDATE *)
Definition is_grant (e : levent) : Prop :=
  match e with LOpen _ => True | LGrant _ inc => (0 <= inc)%Z | _ => False end.

Lemma lgrants_is_grant fr : (sf_sid fr = 0 -> sf_kind fr = KSettings -> sf_set_haswin fr = false) ->
  Forall is_grant (lgrants_of fr).
Proof.
  intro H. unfold lgrants_of. destruct (sf_sid fr =? 0) eqn:Z.
  - destruct (sf_kind fr) eqn:K; try constructor; try (cbn; lia); try constructor.
    rewrite H by (try reflexivity; lia). constructor.
  - destruct (sf_kind fr); repeat constructor. cbn. lia.
Qed.

Lemma lvalid_grants l : Forall is_grant l -> forall L, lvalid L l.
Proof. induction 1 as [|e l He _ IH]; intro L; cbn [lvalid]; [exact I|]. split; [destruct e; try exact I; contradiction | apply IH]. Qed.

Lemma NoDup_app_snoc (l : list N) x : NoDup l -> ~ In x l -> NoDup (l ++ [x]).
Proof.
  induction l as [|y t IH]; cbn [app]; intros ND NI; [constructor; [intros []|constructor]|].
  inversion ND; subst. constructor.
  - intro Hin. apply in_app_or in Hin. destruct Hin as [Hin|[<-|[]]]; [contradiction|]. apply NI. left. reflexivity.
  - apply IH; [assumption|]. intro. apply NI. right. assumption.
Qed.

Section Safe3.
Variable hstate : Type.
Variable dec_field : hstate -> N -> bytes -> dec_res hstate.
Variable enc_field : hstate -> bytes -> bytes -> bool -> bytes * hstate.
Variable enc_set_max : hstate -> N -> hstate.
Variable cfg : config.
Notation sconn := (sconn hstate).
Implicit Types c : sconn.
Notation Sim := (SimX hstate None).
Notation GoodStep := (GoodStep hstate).

Lemma held_grant L e s : is_grant e -> held L s -> held (lstep L e) s.
Proof.
  intros G (w & Hw & Hle). destruct e as [|sid|sid inc|]; try contradiction; cbn [lstep].
  - destruct (l_strm L sid) eqn:E; [exists w; auto|]. unfold held. cbn [l_strm]. exists w. split; [|assumption].
    rewrite strm_upd_other; [assumption|]. intro; subst. congruence.
  - destruct (N.eqb sid 0); [exists w; auto|]. destruct (l_strm L sid) eqn:E; [|exists w; auto].
    unfold held. cbn [l_strm]. destruct (N.eq_dec (st_id s) sid) as [<-|NE].
    + rewrite strm_upd_same. rewrite Hw in E. inversion E; subst. eexists. split; [reflexivity|]. cbn in G. flia.
    + rewrite strm_upd_other by assumption. exists w. auto.
Qed.

Lemma SimX_grant ex c L e : is_grant e -> SimX hstate ex c L -> SimX hstate ex c (lstep L e).
Proof.
  intros G [i_init i_conn i_strm i_nodup i_le i_hi i_fresh]. constructor; auto.
  - destruct e; try contradiction; cbn [lstep]; [destruct (l_strm L sid); assumption|].
    destruct (N.eqb sid 0); [|destruct (l_strm L sid); assumption]. assumption.
  - destruct e as [|sid|sid inc|]; try contradiction; cbn [lstep]; [destruct (l_strm L sid); assumption|].
    cbn in G. destruct (N.eqb sid 0); [cbn [l_conn]; flia|]. destruct (l_strm L sid); assumption.
  - intros s Hs Hne. apply held_grant; auto.
  - destruct e as [|sid|sid inc|]; try contradiction; cbn [lstep].
    + destruct (l_strm L sid) eqn:E; [assumption|]. cbn [l_strm l_init]. intros sid0 w H0.
      destruct (N.eq_dec sid0 sid) as [->|NE].
      * rewrite strm_upd_same. intro X; inversion X; subst. flia.
      * rewrite strm_upd_other by assumption. eauto.
    + destruct (N.eqb sid 0); [assumption|]. destruct (l_strm L sid) eqn:E; [|assumption].
      cbn [l_strm l_init]. intros sid0 w H0. destruct (N.eq_dec sid0 sid) as [->|NE].
      * rewrite strm_upd_same. intro X; inversion X; subst. specialize (i_fresh _ _ H0 E). cbn in G. flia.
      * rewrite strm_upd_other by assumption. eauto.
Qed.

Lemma SimX_grants ex c l : Forall is_grant l -> forall L, SimX hstate ex c L -> SimX hstate ex c (lrun L l).
Proof. induction 1 as [|e l He _ IH]; intros L S; [assumption|]. rewrite lrun_cons. apply IH. apply SimX_grant; assumption. Qed.

Lemma held_grants l s : Forall is_grant l -> forall L, held L s -> held (lrun L l) s.
Proof. induction 1 as [|e l He _ IH]; intros L S; [assumption|]. rewrite lrun_cons. apply IH. apply held_grant; assumption. Qed.

Lemma Origin_Sim c fr c1 s L : sf_sid fr <> 0 -> Sim c L -> Origin c fr c1 s ->
  Sim c1 (lrun L (lgrants_of fr)) /\ held (lrun L (lgrants_of fr)) s /\ st_id s <= sc_lastID c1 /\ st_id s = sf_sid fr /\
  (sf_kind fr = KWinUpd -> exists w, l_strm (lrun L (lgrants_of fr)) (st_id s) = Some w /\
                                      (st_window s + Z.of_N (sf_inc fr) <= w)%Z).
Proof.
  intros NZ S O. destruct O as [s LE F | KH FD HI LA].
  - assert (G : Forall is_grant (lgrants_of fr)) by (apply lgrants_is_grant; intro; contradiction).
    apply strms_search_In in F. destruct F as [Hin Hid].
    assert (Hh : held L s) by (apply (sim_strm _ _ _ _ S); [assumption | discriminate]).
    split; [apply SimX_grants; assumption|]. split; [apply held_grants; assumption|].
    split; [apply (sim_le _ _ _ _ S); assumption|]. split; [assumption|].
    intro KW. unfold lgrants_of. destruct (sf_sid fr =? 0) eqn:Z; [flia|]. rewrite KW. cbn [lrun fold_left lstep].
    rewrite Z. destruct Hh as (w & Hw & Hle). rewrite <- Hid. rewrite Hw. cbn [l_strm]. rewrite strm_upd_same.
    eexists. split; [reflexivity | flia].
  - assert (E : lgrants_of fr = [LOpen (sf_sid fr)]).
    { unfold lgrants_of. destruct (sf_sid fr =? 0) eqn:Z; [flia|]. rewrite KH. reflexivity. }
    rewrite E. cbn [lrun fold_left].
    assert (G : is_grant (LOpen (sf_sid fr))) by exact I.
    pose proof (SimX_grant None c L _ G S) as S1.
    destruct S as [i_init i_conn i_strm i_nodup i_le i_hi i_fresh].
    assert (HN : held (lstep L (LOpen (sf_sid fr))) (new_strm c fr)).
    { unfold held, new_strm. cbn [lstep st_id st_window set_orig_started new_stream].
      destruct (l_strm L (sf_sid fr)) as [w|] eqn:Ew.
      - exists w. split; [assumption|]. rewrite i_init. eauto.
      - cbn [l_strm]. rewrite strm_upd_same. exists (l_init L). split; [reflexivity|]. rewrite i_init. flia. }
    assert (NI : ~ In (sf_sid fr) (map st_id (sc_strms c))).
    { intro Hin. apply in_map_iff in Hin. destruct Hin as (s0 & E0 & Hin).
      destruct (sf_sid fr <=? sc_lastID c) eqn:LE.
      - eapply strms_search_None; eauto.
      - specialize (i_le _ Hin). flia. }
    split; [|split; [exact HN|split; [unfold new_strm; sc_cbn; cbn; flia | split; [reflexivity | congruence]]]].
    destruct S1 as [j_init j_conn j_strm j_nodup j_le j_hi j_fresh].
    constructor; sc_cbn.
    + assumption.
    + assumption.
    + intros s0 Hs Hne. apply in_app_or in Hs. destruct Hs as [Hs|[<-|[]]]; [apply j_strm; assumption | exact HN].
    + rewrite map_app. cbn [map]. apply NoDup_app_snoc; assumption.
    + intros s0 Hs. apply in_app_or in Hs. destruct Hs as [Hs|[<-|[]]]; [specialize (i_le _ Hs); flia | cbn; flia].
    + flia.
    + intros sid0 w0 H0 Hw0. apply j_fresh with (sid := sid0); [flia | assumption].
Qed.
Lemma quiet_nodata o : quiet_out o -> nodata_out o.
Proof. unfold quiet_out, nodata_out. destruct (strip o); auto. Qed.
Lemma winupd_nodata o : winupd_out o -> nodata_out o.
Proof. unfold winupd_out, nodata_out. destruct (strip o); auto. Qed.

Lemma GoodStep_pre c L c1 c' : out_ext nodata_out c c1 -> GoodStep c1 L c' -> GoodStep c L c'.
Proof.
  intros O (L' & Led & H). exists L'. split; [|exact H]. eapply LedOn_trans; [apply LedOn_nodata; exact O | exact Led].
Qed.

Lemma SimX_Recv ex c c' L : Recv c c' -> SimX hstate ex c L -> SimX hstate ex c' L.
Proof. intros []. apply SimX_same; assumption. Qed.

Lemma settings_c0_fields c fr :
  sc_strms (settings_c0 enc_set_max c fr) = sc_strms c /\ sc_initWin (settings_c0 enc_set_max c fr) = sc_initWin c /\
  sc_clientWindow (settings_c0 enc_set_max c fr) = sc_clientWindow c /\ sc_lastID (settings_c0 enc_set_max c fr) = sc_lastID c /\
  sc_highestID (settings_c0 enc_set_max c fr) = sc_highestID c /\ sc_out (settings_c0 enc_set_max c fr) = sc_out c.
Proof. unfold settings_c0. destruct (sf_set_hastable fr); repeat split. Qed.

(* the two window changes the stream loop applies to the whole connection *)
Lemma settings_Sim c fr L : Sim c L ->
  let newInit := signed 32 (sf_set_win fr) in
  let delta := (newInit - sc_initWin c)%Z in
  Sim (emit (upd_strms (upd_initWin (settings_c0 enc_set_max c fr) newInit) (map (bump delta) (sc_strms c))) OSettingsAck)
      (lstep L (LInit newInit)).
Proof.
  intros S newInit delta.
  destruct (settings_c0_fields c fr) as (E1 & E2 & E3 & E4 & E5 & E6).
  destruct S as [i_init i_conn i_strm i_nodup i_le i_hi i_fresh].
  constructor; rewrite ?sc_initWin_emit, ?sc_clientWindow_emit, ?sc_strms_emit, ?sc_lastID_emit, ?sc_highestID_emit; sc_cbn.
  - reflexivity.
  - rewrite E3. assumption.
  - intros s Hs _. apply in_map_iff in Hs. destruct Hs as (s0 & <- & Hs0).
    destruct (i_strm s0 Hs0) as (w & Hw & Hle); [discriminate|].
    exists (w + (newInit - l_init L))%Z. cbn [l_strm lstep bump st_id set_window st_window]. rewrite Hw.
    split; [reflexivity|]. subst delta. rewrite i_init. flia.
  - rewrite map_map. cbn [bump st_id set_window]. assumption.
  - intros s Hs. apply in_map_iff in Hs. destruct Hs as (s0 & <- & Hs0). rewrite E4. apply (i_le s0 Hs0).
  - rewrite E4, E5. assumption.
  - rewrite E5. intros sid w H0. cbn [l_strm l_init lstep]. destruct (l_strm L sid) as [w0|] eqn:Ew; [|discriminate].
    intro X; inversion X; subst. specialize (i_fresh _ _ H0 Ew). flia.
Qed.

Lemma winupd_Sim c inc L : Sim c L ->
  Sim (upd_clientWindow c (sc_clientWindow c + Z.of_N inc)) (lstep L (LGrant 0 (Z.of_N inc))).
Proof.
  intro S. pose proof (SimX_grant None c L (LGrant 0 (Z.of_N inc))) as G.
  destruct G as [j_init j_conn j_strm j_nodup j_le j_hi j_fresh]; [cbn; flia | exact S|].
  constructor; sc_cbn; try assumption.
  destruct S as [i_init i_conn i_strm i_nodup i_le i_hi i_fresh]. cbn [lstep N.eqb l_conn]. flia.
Qed.

(* from the frame's stream to what afterFrame is given *)
Lemma after_pre_Sim c fr c1 s c2 cX sX L : Sim c L -> sf_sid fr <> 0 -> Origin c fr c1 s -> Closes c1 c2 ->
  HFok dec_field cfg c2 s fr cX sX ->
  Sim cX (lrun L (lgrants_of fr)) /\ held (lrun L (lgrants_of fr)) sX /\ st_id sX <= sc_lastID cX /\
  st_id sX = st_id s /\ out_ext nodata_out c cX.
Proof.
  intros S NZ Or CL HF.
  destruct (Origin_Sim c fr c1 s L NZ S Or) as (S1 & H1 & Le1 & Id1 & WU).
  set (L1 := lrun L (lgrants_of fr)) in *.
  pose proof (Sim_Closes _ _ _ _ CL S1) as S2.
  assert (Le2 : st_id s <= sc_lastID c2) by (rewrite (cl_lastID _ _ _ CL); exact Le1).
  destruct (HFok_eff _ dec_field cfg c2 s fr cX sX HF) as (c3 & s3 & R & Q & _ & SS & WW & SW & _).
  pose proof (SimX_Recv None _ _ _ R S2) as S3.
  assert (I3 : st_id s3 = st_id s) by apply SS.
  assert (H3 : held L1 s3).
  { destruct WW as [WW|[KW WW]].
    - eapply held_same_win; eassumption.
    - destruct (WU KW) as (w & Hw & Hle). exists w. rewrite I3, WW. auto. }
  assert (IX : st_id sX = st_id s3) by apply SW.
  split; [eapply SimX_Quiet; eassumption|].
  split; [eapply held_same_win; [exact IX | apply SW | exact H3]|].
  split; [rewrite IX, I3, (q_lastID _ _ _ Q), (rv_lastID _ _ _ R); exact Le2|].
  split; [congruence|].
  eapply out_ext_trans; [eapply out_ext_weaken; [apply quiet_nodata | apply (Origin_Frame _ _ _ _ _ Or)]|].
  eapply out_ext_trans; [eapply out_ext_weaken; [apply quiet_nodata | apply CL]|].
  eapply out_ext_trans; [eapply out_ext_weaken; [apply winupd_nodata | apply R]|].
  eapply out_ext_weaken; [apply quiet_nodata | apply Q].
Qed.

Lemma sl_frame_led c fr L : Sim c L ->
  GoodStep c (lrun L (lgrants_of fr)) (fst (sl_frame dec_field enc_set_max cfg c fr)).
Proof.
  intro S.
  destruct (sl_frame_SLF _ dec_field enc_set_max cfg c fr)
    as [c' Q D P3 | c' F O SD | Z K HW c0 newInit delta Fa | Z K W | NZ K | c1 s p NZ Or KH Hp | c1 s c2 cX sX NZ Or CL HF].
  - (* nothing that matters *)
    pose proof (SimX_grants None c _ (lgrants_is_grant fr P3) L S) as S1.
    exists (lrun L (lgrants_of fr)). split; [apply LedOn_quiet, Q | right; eapply SimX_Quiet; eassumption].
  - (* the loop ends *)
    exists (lrun L (lgrants_of fr)). split; [apply LedOn_quiet, O | left; exact SD].
  - (* SETTINGS_INITIAL_WINDOW_SIZE *)
    assert (E : lgrants_of fr = [LInit newInit]).
    { unfold lgrants_of. rewrite Z, K, HW. reflexivity. }
    rewrite E. cbn [lrun fold_left].
    pose proof (settings_Sim c fr L S) as S2. cbv zeta in S2. fold c0 newInit delta in S2.
    destruct (flush_streams_led _ _ _ S2) as (L' & Led & S').
    exists L'. split; [|right; exact S'].
    eapply LedOn_trans; [|exact Led]. apply LedOn_quiet.
    eapply out_ext_trans; [|apply out_ext_emit; exact I]. apply out_ext_same. sc_cbn. apply (settings_c0_fields c fr).
  - (* WINDOW_UPDATE on the connection *)
    assert (E : lgrants_of fr = [LGrant 0 (Z.of_N (sf_inc fr))]).
    { unfold lgrants_of. rewrite Z, K. reflexivity. }
    rewrite E. cbn [lrun fold_left].
    destruct (flush_streams_led _ _ _ (winupd_Sim c (sf_inc fr) L S)) as (L' & Led & S').
    exists L'. split; [|right; exact S'].
    eapply LedOn_trans; [|exact Led]. apply LedOn_quiet. apply out_ext_same. reflexivity.
  - (* DATA on a stream the server reset: credited to the connection *)
    assert (E : lgrants_of fr = []).
    { unfold lgrants_of. destruct (sf_sid fr =? 0) eqn:Z; [flia|]. rewrite K. reflexivity. }
    rewrite E. cbn [lrun fold_left].
    pose proof (Recv_credit _ cfg c (Z.of_N (sf_len fr))) as R.
    exists L. split; [|right; eapply SimX_Recv; eassumption].
    apply LedOn_nodata. eapply out_ext_weaken; [apply winupd_nodata | apply R].
  - (* the previous stream's header block is not finished *)
    destruct (Origin_Sim c fr c1 s L NZ S Or) as (S1 & _ & _ & _ & _).
    set (L1 := lrun L (lgrants_of fr)) in *.
    exists L1. split.
    + apply LedOn_quiet. eapply out_ext_trans; [apply (Origin_Frame _ _ _ _ _ Or)|].
      eapply out_ext_trans; [apply (q_out _ _ _ (Quiet_write_goaway _ c1 (st_id p) c_ProtocolError))|]. apply out_ext_same. reflexivity.
    + right. eapply SimX_put; [eapply SimX_Quiet; [apply Quiet_write_goaway | exact S1] | left; reflexivity | |].
      * eapply held_same_win; [| |apply (sim_strm _ _ _ _ S1 p Hp); discriminate]; reflexivity.
      * rewrite sc_lastID_write_goaway. apply (sim_le _ _ _ _ S1 p Hp).
  - (* the frame is handled on its stream *)
    destruct (after_pre_Sim c fr c1 s c2 cX sX L S NZ Or CL HF) as (SX & HX & LeX & _ & OX).
    eapply GoodStep_pre; [exact OX|].
    eapply after_frame_led with (ex := None); [exact SX | left; reflexivity | exact HX | exact LeX].
Qed.

Lemma Quiet_release_stream c s : Quiet c (release_stream c s).
Proof.
  unfold release_stream.
  assert (Q : forall c0 : sconn, Quiet c0 (note c0 (ORelease (st_id s) true))) by (intro; apply Quiet_note; exact I).
  destruct (fkind_eqb (st_orig s) KHeaders); [|apply Q].
  eapply Quiet_trans; [|apply Q]. constructor; sc_cbn; first [reflexivity | flia | (left; reflexivity) | (intro; assumption) | (apply out_ext_same; reflexivity)].
Qed.

Lemma sl_done_led c sid r L : Sim c L -> GoodStep c L (fst (sl_done enc_field cfg c sid r)).
Proof.
  intro S. unfold sl_done.
  destruct (take_stream (sc_gone c) sid) as [[s rest]|].
  - cbn [fst cont]. exists L.
    assert (Q : Quiet c (release_stream (upd_gone c rest) (set_flags s (st_responded s) false true))).
    { eapply Quiet_trans; [|apply Quiet_release_stream].
      constructor; sc_cbn; first [reflexivity | flia | (left; reflexivity) | (intro; assumption) | (apply out_ext_same; reflexivity)]. }
    split; [apply LedOn_quiet, Q | right; eapply SimX_Quiet; eassumption].
  - destruct (strms_search (sc_strms c) sid) as [s|] eqn:F; [|exists L; split; [apply LedOn_refl | right; exact S]].
    destruct (negb (st_handlerRunning s)); [exists L; split; [apply LedOn_refl | right; exact S]|].
    apply strms_search_In in F. destruct F as [Hin Hid].
    set (s1 := set_flags s (st_responded s) false (st_abandoned s)).
    assert (H1 : held L s1).
    { eapply held_same_win; [| |apply (sim_strm _ _ _ _ S s Hin); discriminate]; reflexivity. }
    assert (Le1 : st_id s1 <= sc_lastID c) by apply (sim_le _ _ _ _ S s Hin).
    destruct (finish_request_led _ enc_field None c s1 r L S (or_introl eq_refl) H1 Le1) as (L1 & Led & S1 & Hh & I1 & Lid).
    destruct (finish_request enc_field c s1 r) as [[c1 s2] fin]. cbn [fst snd] in *.
    set (c2 := if fin then close_stream (put c1 (set_state s2 SClosed)) (set_state s2 SClosed) else put c1 s2).
    assert (G : LedOn hstate (fun _ => True) c L c2 L1 /\ Sim c2 L1).
    { subst c2. destruct fin.
      - assert (S2 : Sim (put c1 (set_state s2 SClosed)) L1).
        { eapply SimX_put; [exact S1 | right; cbn [st_id set_state]; rewrite I1; reflexivity | eapply held_same_win; [| |exact Hh]; reflexivity|].
          cbn [st_id set_state]. rewrite I1, Lid. exact Le1. }
        split; [|eapply SimX_close; [exact S2 | left; reflexivity]].
        eapply LedOn_trans; [eapply LedOn_weaken; [|exact Led]; auto|]. apply LedOn_quiet.
        apply (out_ext_trans _ _ c1 (put c1 (set_state s2 SClosed))); [apply out_ext_same; reflexivity | apply close_stream_out].
      - split; [|eapply SimX_put; [exact S1 | right; rewrite I1; reflexivity | exact Hh | rewrite I1, Lid; exact Le1]].
        eapply LedOn_trans; [eapply LedOn_weaken; [|exact Led]; auto|]. apply LedOn_quiet. apply out_ext_same. reflexivity. }
    destruct G as [Led2 S2].
    eapply GoodStep_brk_cont; eassumption.
Qed.

Lemma sl_timer_led c L : Sim c L -> GoodStep c L (fst (sl_timer cfg c)).
Proof.
  intro S. unfold sl_timer. destruct (cf_maxRequestTime cfg <=? 0)%Z; cbn [fst cont];
    [exists L; split; [apply LedOn_refl | right; exact S]|].
  pose proof (close_heads_Closes _ (count_due cfg (sc_now c) (sc_strms c)) c) as CL.
  exists L. split; [apply LedOn_quiet, CL | right; eapply Sim_Closes; eassumption].
Qed.

(* ---------- one step of the model ---------- *)
Variable h0 : hstate.
Notation step := (step dec_field enc_field enc_set_max cfg).
Notation tl_step := (tl_step hstate dec_field enc_field enc_set_max cfg).
Notation timeline_from := (timeline_from hstate dec_field enc_field enc_set_max cfg).

Definition Inv c (L : ledger) : Prop := sc_sl_done c = true \/ Sim c L.

(* what a step has to deliver *)
Definition StepOK c (L : ledger) (g : list levent) c' : Prop :=
  exists new, sc_out c' = new ++ sc_out c /\ data_on (fun _ => True) new /\
              lvalid L (g ++ ldatas (rev new)) /\ Inv c' (lrun L (g ++ ldatas (rev new))).

Lemma GoodStep_StepOK c L g c' : (forall e, In e g -> match e with LData _ _ => False | _ => True end) ->
  GoodStep c (lrun L g) c' -> StepOK c L g c'.
Proof.
  intros Hg (L' & (new & E & D & V & ->) & H). exists new. split; [assumption|]. split; [assumption|].
  rewrite lrun_app. split; [|exact H]. apply lvalid_app. split; [|assumption].
  clear -Hg. revert L. induction g as [|e g IH]; intro L; cbn [lvalid]; [exact I|].
  split; [|apply IH; intros; apply Hg; right; assumption].
  specialize (Hg e (or_introl eq_refl)). destruct e; try exact I. contradiction.
Qed.

Lemma StepOK_quiet c L c' : out_ext quiet_out c c' -> Inv c' L -> StepOK c L [] c'.
Proof.
  intros (new & E & F) H. exists new. cbn [app].
  rewrite (ldatas_quiet (rev new)) by (apply quiet_rev; assumption).
  split; [assumption|]. split; [apply data_on_quiet; assumption|]. split; [exact I | exact H].
Qed.

Lemma lgrants_nodata fr e : In e (lgrants_of fr) -> match e with LData _ _ => False | _ => True end.
Proof.
  unfold lgrants_of. destruct (sf_sid fr =? 0); destruct (sf_kind fr); try (destruct (sf_set_haswin fr));
    cbn [In]; intro H; repeat (destruct H as [H|H]); try contradiction; subst; exact I.
Qed.

Lemma Inv_same c c' L : sc_strms c' = sc_strms c -> sc_initWin c' = sc_initWin c ->
  sc_clientWindow c' = sc_clientWindow c -> sc_lastID c' = sc_lastID c -> sc_highestID c' = sc_highestID c ->
  sc_sl_done c' = sc_sl_done c -> Inv c L -> Inv c' L.
Proof.
  intros E1 E2 E3 E4 E5 E6 [H|H]; [left; congruence | right; eapply SimX_same; eassumption].
Qed.

Lemma step_StepOK c e L : Inv c L ->
  StepOK c L (match sl_takes hstate c e with Some fr => lgrants_of fr | None => [] end) (step c e).
Proof.
  intro H. destruct e as [i| |sid r|t| | | |]; cbn [sl_takes].
  - (* the read loop *)
    rewrite step_EvRL. destruct (sc_rl_done c); [apply StepOK_quiet; [apply out_ext_refl | exact H]|].
    destruct (rl_step_eff _ cfg c i) as [[] _].
    apply StepOK_quiet; [assumption|]. eapply Inv_same; eassumption.
  - (* the stream loop takes a frame *)
    rewrite step_EvSL. destruct (sc_sl_done c) eqn:SD; [apply StepOK_quiet; [apply out_ext_refl | left; exact SD]|].
    destruct H as [H|S]; [congruence|].
    destruct (sc_readerQ c) as [|fr q]; cbn [hd_error].
    + destruct (sc_rl_done c); [|apply StepOK_quiet; [apply out_ext_refl | right; exact S]].
      apply StepOK_quiet; [eapply out_ext_cons; [reflexivity | exact I] | left; reflexivity].
    + assert (S' : Sim (upd_readerQ c q) L) by (eapply SimX_same; [..|exact S]; reflexivity).
      pose proof (sl_frame_led _ fr L S') as G.
      apply GoodStep_StepOK in G; [|apply lgrants_nodata]. exact G.
  - (* a handler returns *)
    rewrite step_EvDone. destruct (sc_sl_done c) eqn:SD; [apply StepOK_quiet; [apply out_ext_refl | left; exact SD]|].
    destruct H as [H|S]; [congruence|].
    apply (GoodStep_StepOK c L []); [intros ? []|]. apply sl_done_led. exact S.
  - rewrite step_EvClock. destruct (sc_now c <? t)%Z; (apply StepOK_quiet; [apply out_ext_same; reflexivity|]); [|exact H].
    eapply Inv_same; [..|exact H]; reflexivity.
  - rewrite step_EvTimer. destruct (sc_sl_done c) eqn:SD; [apply StepOK_quiet; [apply out_ext_refl | left; exact SD]|].
    destruct H as [H|S]; [congruence|].
    apply (GoodStep_StepOK c L []); [intros ? []|]. apply sl_timer_led. exact S.
  - rewrite step_EvIdle.
    assert (Q : Quiet c (upd_closer (write_goaway c 0 c_NoError) true)).
    { eapply Quiet_trans; [apply Quiet_write_goaway|].
      constructor; sc_cbn; first [reflexivity | flia | (left; reflexivity) | (intro; assumption) | (apply out_ext_same; reflexivity)]. }
    apply StepOK_quiet; [apply Q|]. destruct H as [H|S].
    + left. destruct (q_sl_done _ _ _ Q) as [E|E]; congruence.
    + right. eapply SimX_Quiet; eassumption.
  - rewrite step_EvCloser. destruct (sc_closer c && negb (sc_sl_done c)); [|apply StepOK_quiet; [apply out_ext_refl | exact H]].
    apply StepOK_quiet; [apply (q_out _ _ _ (Quiet_brk _ c)) | left; reflexivity].
  - rewrite step_EvWriteFail. apply StepOK_quiet; [apply out_ext_same; reflexivity|].
    eapply Inv_same; [..|exact H]; reflexivity.
Qed.

Lemma StepOK_tl c e L : Inv c L ->
  lvalid L (tl_step c e) /\ Inv (step c e) (lrun L (tl_step c e)) /\
  data_on (fun _ => True) (new_out hstate c (step c e)).
Proof.
  intro H. destruct (step_StepOK c e L H) as (new & E & D & V & H'). unfold SrvFlowDefs.tl_step.
  rewrite (new_out_ext _ _ _ _ E). split; [assumption|]. split; [assumption|]. apply data_on_rev. assumption.
Qed.

Lemma timeline_valid evs : forall c L, Inv c L -> lvalid L (timeline_from c evs).
Proof.
  induction evs as [|e evs IH]; intros c L H; cbn [SrvFlowDefs.timeline_from]; [exact I|].
  destruct (StepOK_tl c e L H) as (V & H' & _). apply lvalid_app. split; [assumption | apply IH; assumption].
Qed.

Lemma Inv_init : Inv (init_conn cfg h0) ledger0.
Proof.
  right. constructor; cbn; try reflexivity; try flia; try (intros ? []); try constructor; intros; discriminate.
Qed.

(* C06 safety: every DATA frame fits the peer's ledger at the moment it is queued *)
Theorem ledger_safe evs : lvalid ledger0 (timeline hstate dec_field enc_field enc_set_max cfg h0 evs).
Proof. apply timeline_valid, Inv_init. Qed.

Theorem ledger_within_grants evs : within_grants (timeline hstate dec_field enc_field enc_set_max cfg h0 evs).
Proof. apply lvalid_within_grants, ledger_safe. Qed.

(* C06, frame size: no DATA frame is longer than 16384 bytes, the smallest SETTINGS_MAX_FRAME_SIZE a peer can have *)
Definition small_data (o : outev) : Prop := forall sid es pl, strip o = OData sid es pl -> len pl <= 16384.

Lemma small_data_from evs : forall c L, Inv c L -> Forall small_data (sc_out c) ->
  Forall small_data (sc_out (run_from dec_field enc_field enc_set_max cfg c evs)).
Proof.
  induction evs as [|e evs IH]; intros c L H F; [exact F|].
  rewrite run_from_cons. destruct (step_StepOK c e L H) as (new & E & D & V & H').
  eapply IH; [exact H'|]. rewrite E. apply Forall_app. split; [|exact F].
  apply Forall_forall. intros o Ho sid es pl Hs. apply (D o sid es pl Ho Hs).
Qed.

Theorem data_frames_small evs o sid es pl :
  In o (trace (run dec_field enc_field enc_set_max cfg h0 evs)) -> strip o = OData sid es pl -> len pl <= 16384.
Proof.
  intros Hin Hs. apply trace_In in Hin.
  pose proof (small_data_from evs (init_conn cfg h0) ledger0 Inv_init) as F.
  rewrite <- run_eq in F. specialize (F ltac:(constructor)). rewrite Forall_forall in F. exact (F o Hin sid es pl Hs).
Qed.

End Safe3.
