(* Proofs/CliFlowCRun.v - C07, "and finishes": the bookkeeping of every request body over all event lists.
   The Ctx of a request keeps its Request and, once writeRequest has given it one, its stream (the step summaries of
   Proofs/CliResMoves.v); the stream carries the bookkeeping Bk of Proofs/CliFlowCInv.v for the body of that Request. *)
From H2V Require Import Base.Bytes Base.MachineInt Base.Result Gen.GenConsts Impl.ServerConn Impl.ClientConn
     Proofs.CliBase Proofs.CliResInv Proofs.CliResStep Proofs.CliResMoves Proofs.CliResThms
     Proofs.CliDefs Spec.FlowLedger Proofs.CliFlowMoves Proofs.CliFlowOut Proofs.CliFlowSettings Proofs.CliFlowSafe Proofs.CliFlowEs
     Proofs.CliFlowStall Proofs.CliFlowCBody Proofs.CliFlowCInv Proofs.CliFlowCSend Proofs.CliFlowCStep.
From Coq Require Import ZArith Lia ZifyN ZifyNat ZifyBool List Bool.
Import ListNotations.
Local Open Scope N_scope.

Lemma resolve_keeps x e : ct_req (cl_ctx_resolve x e) = ct_req x /\ ct_conn (cl_ctx_resolve x e) = ct_conn x /\
  ct_sid (cl_ctx_resolve x e) = ct_sid x /\ ct_done (cl_ctx_resolve x e) = ct_done x.
Proof. unfold cl_ctx_resolve. destruct (ct_resolved x); [repeat split|]. destruct (ct_err x); repeat split. Qed.

Section Run.
Variable hstate : Type.
Variable dec_field : hstate -> N -> bytes -> dec_res hstate.
Variable enc_field : hstate -> bytes -> bytes -> bool -> bytes * hstate.
Variable enc_set_max : hstate -> N -> hstate.
Variable cfg : cl_config.
Variable h0 : hstate.
Variable first : bytes.
Notation cconn := (cconn hstate).
Notation step := (cl_step dec_field enc_field enc_set_max cfg).
Notation run := (cl_run dec_field enc_field enc_set_max cfg h0 first).
Notation Bk := (Bk hstate).
Notation pget := (pget hstate).

(* what a step does to the Request, the stream and the done mark of a Ctx *)
Lemma cmove_keeps (c : cconn) e t x x' : cmove (CP:=cp_any) c e t x x' ->
  ct_req x' = ct_req x /\ (ct_done x = true -> ct_done x' = true) /\
  ((ct_conn x' = ct_conn x /\ ct_sid x' = ct_sid x) \/
   (e = CEvWLIn /\ cl_wl_live c = true /\ (exists q, cc_inQ c = t :: q) /\ ct_conn x' = true /\ ct_sid x' = cc_nextID c)).
Proof.
  intros M. destruct M as [V|_ _ [->|(_ & _ & ->)]|_ _ _ ->|_ _ _ V|_ R' _ ->|EW LV Q _ _ _ V|_ _ _ _ _ ->].
  - destruct V. split; [assumption|]. split; [congruence|]. left. split; assumption.
  - repeat split; auto.
  - destruct (resolve_keeps (ctu_done (ctu_writing x false) true) (cl_close_err c)) as (A & B & C & D0).
    rewrite A, B, C, D0. cbn. repeat split; auto.
  - destruct (resolve_keeps (ctu_fired x true) CETimeout) as (A & B & C & D0). rewrite A, B, C, D0. cbn. repeat split; auto.
  - destruct V. cbn in *. split; [assumption|]. split; [congruence|]. left. split; assumption.
  - cbn. repeat split; auto.
  - destruct V. cbn in *. split; [assumption|]. split; [congruence|]. right. repeat split; assumption.
  - destruct (resolve_keeps x CENoStreams) as (A & B & C & D0). rewrite A, B, C, D0. repeat split; auto.
Qed.

(* the bookkeeping of every request that has been given a stream *)
Definition LK (c : cconn) : Prop :=
  forall tag x, cl_ctx_get c tag = Some x -> ct_conn x = true ->
    Bk (cl_wl_live c = true) (fst (rq_body (ct_req x))) (snd (rq_body (ct_req x))) (ct_sid x) c.

Lemma run_snoc evs e : run (evs ++ [e]) = step (run evs) e.
Proof. unfold cl_run. rewrite fold_left_app. reflexivity. Qed.

Theorem LK_run evs : LK (run evs).
Proof.
  induction evs as [|e evs IH] using rev_ind.
  - intros tag x G. exfalso. revert G. unfold cl_run, cl_init. cbn [fold_left].
    destruct (cl_settings_deserialize false first); cbn; discriminate.
  - rewrite run_snoc. set (c := run evs) in *.
    pose proof (inv_run dec_field enc_field enc_set_max cfg h0 first evs) as Hi. fold c in Hi.
    pose proof (inv_run dec_field enc_field enc_set_max cfg h0 first (evs ++ [e])) as Hi'. rewrite run_snoc in Hi'. fold c in Hi'.
    pose proof (ES_run hstate dec_field enc_field enc_set_max cfg h0 first evs) as E. fold c in E.
    destruct (NS_RNG_run hstate dec_field enc_field enc_set_max cfg h0 first evs) as [R NSc]. fold c in R, NSc.
    pose proof (sum_any dec_field enc_field enc_set_max cfg c e Hi) as SS.
    intros tag x' G' CN.
    destruct (cl_ctx_get c tag) as [x|] eqn:G.
    + destruct (ss_old _ _ _ _ SS tag x G) as (x'' & G'' & M). rewrite G' in G''. inversion G''; subst x''. clear G''.
      destruct (cmove_keeps c e tag x x' M) as (RQ & _ & [[CC SD]|(EW & LV & (q & Q) & _ & SD)]).
      * rewrite RQ, SD. apply step_Bk; [exact R | exact E | exact NSc|]. apply (IH tag x G). congruence.
      * subst e. rewrite RQ, SD. apply (step_new hstate dec_field enc_field enc_set_max cfg c tag q x R E NSc LV Q G).
        rewrite <- SD. apply (s_sid _ (proj1 Hi') tag x' G').
    + destruct (ss_new _ _ _ _ SS tag x' G G') as (rq & q & _ & _ & _ & CF & _). congruence.
Qed.

End Run.
