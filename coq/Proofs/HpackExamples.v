(* C03: sanity tests by computation -- RFC 7541 Appendix C and the corner cases of the statements;
   and witnesses that the hypotheses of the C03 theorems hold for non-trivial inputs. *)
From Coq Require Import List NArith ZArith Bool Lia.
From H2V Require Import Base.Bytes Base.MachineInt Base.Result Gen.GenConsts Gen.GenStatic
     Impl.Huffman Impl.Hpack Spec.Rfc7541Huffman Spec.Rfc7541 Proofs.HpackDefs.
Import ListNotations.
Local Open Scope N_scope.

Definition st0 : hpack_state := hpack_init false false.

Definition agree (st : hpack_state) (b : bytes) : bool :=
  match proj (block_decode st b), spec_decode_block (abs st) b with
  | Some (fs, t), Some (fs', t') =>
      (Nat.eqb (length fs) (length fs')) &&
      forallb (fun p => bytes_eqb (fst (fst (fst p))) (fst (fst (snd p))) && bytes_eqb (snd (fst (fst p))) (snd (fst (snd p)))
                        && Bool.eqb (snd (fst p)) (snd (snd p))) (combine fs fs') &&
      (dt_max t =? dt_max t') && (dt_limit t =? dt_limit t') &&
      bytes_eqb (concat (map (fun e => fst e ++ [256] ++ snd e ++ [257]) (dt_entries t)))
                (concat (map (fun e => fst e ++ [256] ++ snd e ++ [257]) (dt_entries t')))
  | None, None => true
  | _, _ => false
  end.

Definition state_after (st : hpack_state) (b : bytes) : hpack_state :=
  match block_decode st b with Ok (_, st') => st' | _ => st end.

(* C.4.1 - C.4.3: three requests with Huffman coding on one connection *)
Definition c41 : bytes := [130;134;132;65;140;241;227;194;229;242;58;107;160;171;144;244;255].
Definition c42 : bytes := [130;134;132;190;88;134;168;235;16;100;156;191].
Definition c43 : bytes := [130;135;133;191;64;136;37;168;73;233;91;169;125;127;137;37;168;73;233;91;184;232;180;191].

Lemma sanity_appendix_c4 :
  agree st0 c41 && agree (state_after st0 c41) c42 && agree (state_after (state_after st0 c41) c42) c43
  && is_ok (block_decode (state_after (state_after st0 c41) c42) c43) = true.
Proof. vm_compute. reflexivity. Qed.

(* C.2.3 never indexed; size updates alone, twice, above the limit, after a field; index 0; index past the
   table; truncated field; over-long integer (10 continuation octets) *)
Lemma sanity_corner_cases :
  forallb (agree st0)
    [ [16;8;112;97;115;115;119;111;114;100;6;115;101;99;114;101;116];
      [32]; [63;225;31]; [32;63;225;31;130]; [63;226;31]; [130;32]; [128]; [190]; [64;1;97]; [64];
      [255;128;128;128;128;128;128;128;128;128;128;0]; [0;1;97;129;255] ] = true.
Proof. vm_compute. reflexivity. Qed.

Lemma sanity_rejects :
  map (fun b => is_ok (block_decode st0 b)) [ [130;32]; [128]; [190]; [64;1;97]; [63;226;31]; [32] ]
  = [false; false; false; false; false; true].
Proof. vm_compute. reflexivity. Qed.

(* split invariance on C.4.1 cut after every octet, and on a size update followed by a field *)
Definition split_ok (st : hpack_state) (b : bytes) (k : nat) : bool :=
  match block_decode_frames st (frames_of true [firstn k b; skipn k b]), block_decode st b with
  | Ok (fs, s1), Ok (fs', s2) =>
      (Nat.eqb (length fs) (length fs')) &&
      forallb (fun p => bytes_eqb (f_key (fst p)) (f_key (snd p)) && bytes_eqb (f_value (fst p)) (f_value (snd p)))
              (combine fs fs') && (h_max s1 =? h_max s2) && Nat.eqb (length (h_dynamic s1)) (length (h_dynamic s2))
  | Err _, Err _ => true
  | _, _ => false
  end.

Lemma sanity_split :
  forallb (split_ok st0 c41) (seq 0 18) && forallb (split_ok st0 [32;63;225;31;0;1;97;1;98]) (seq 0 10) = true.
Proof. vm_compute. reflexivity. Qed.

Definition ex_reprs : list repr :=
  [SizeUpdate 100; Indexed 2; Literal Incremental (NameIdx 1) false true [119;119;119];
   Literal Never (NameLit [120]) true false [121]; Indexed 62; Literal Without (NameIdx 62) false false []].

Lemma sanity_self_consistent :
  match spec_decode_block (dtable_init 4096) (spec_enc_block ex_reprs), spec_sem (dtable_init 4096) ex_reprs with
  | Some (fs, t), Some (fs', t') => Nat.eqb (length fs) 5 && Nat.eqb (length fs') 5 && (dt_max t =? 100) && (dt_max t' =? 100)
  | _, _ => false
  end = true.
Proof. vm_compute. reflexivity. Qed.

(* ---- the hypotheses of the theorems hold for these inputs ---- *)

Definition table_okb (st : hpack_state) : bool :=
  forallb field_ok (h_dynamic st) && (table_size (dt_entries (abs st)) <=? h_max st) &&
  (h_max st <=? h_max_settings st) && (h_max_settings st <? 2 ^ 32).

Lemma table_okb_sound st : table_okb st = true -> table_ok st.
Proof.
  unfold table_okb, table_ok. rewrite !andb_true_iff, !N.leb_le, N.ltb_lt. tauto.
Qed.

Definition block_smallb (st : hpack_state) (b : bytes) : bool :=
  2 * len b + 2 * h_max_settings st + 64 <? 2 ^ 32.

Lemma block_smallb_sound st b : block_smallb st b = true -> block_small st b.
Proof. unfold block_smallb, block_small. apply N.ltb_lt. Qed.

(* the initial state is reachable; so is the state after C.4.1 and C.4.2, which holds two entries;
   the three blocks are small byte strings and all three are accepted (4, 5 and 5 fields, the third
   block inserts a third entry) *)
Lemma hypotheses_appendix_c4 :
  let st1 := state_after st0 c41 in let st2 := state_after st1 c42 in
  table_ok st0 /\ table_ok st1 /\ table_ok st2 /\
  length (h_dynamic st1) = 1%nat /\ length (h_dynamic st2) = 2%nat /\
  forallb bytes_ok [c41; c42; c43] = true /\
  Forall (block_small st0) [c41; c42; c43] /\ block_small st2 c43 /\
  match decode_history st0 [c41; c42; c43] with
  | Ok (fss, st3) => map (@length field) fss = [4; 5; 5]%nat /\ length (h_dynamic st3) = 3%nat
  | _ => False
  end.
Proof.
  cbv zeta.
  split; [apply table_okb_sound; vm_compute; reflexivity|].
  split; [apply table_okb_sound; vm_compute; reflexivity|].
  split; [apply table_okb_sound; vm_compute; reflexivity|].
  split; [vm_compute; reflexivity|]. split; [vm_compute; reflexivity|]. split; [vm_compute; reflexivity|].
  split; [repeat constructor; apply block_smallb_sound; vm_compute; reflexivity|].
  split; [apply block_smallb_sound; vm_compute; reflexivity|].
  vm_compute. split; reflexivity.
Qed.

(* C.4.1 cut into three fragments (the second cut falls inside the Huffman string): hypotheses of
   split invariance, and the frames are what the statement says *)
Definition c41_frags : list bytes := [firstn 3 c41; firstn 7 (skipn 3 c41); skipn 10 c41].

Lemma hypotheses_split :
  c41_frags <> [] /\ forallb bytes_ok c41_frags = true /\ concat c41_frags = c41 /\
  block_small st0 (concat c41_frags) /\
  frames_of true c41_frags =
    [([130;134;132], false, false); ([65;140;241;227;194;229;242], false, true);
     ([58;107;160;171;144;244;255], true, true)] /\
  is_ok (block_decode_frames st0 (frames_of true c41_frags)) = true.
Proof.
  split; [discriminate|]. split; [vm_compute; reflexivity|]. split; [vm_compute; reflexivity|].
  split; [apply block_smallb_sound; vm_compute; reflexivity|].
  split; vm_compute; reflexivity.
Qed.

(* the hypotheses of spec self-consistency hold for a list with every kind of representation *)
Lemma hypotheses_self_consistent :
  forallb repr_ok ex_reprs = true /\
  (forall r, In r ex_reprs -> match r with
     | Literal _ nr _ _ v => len v < 2 ^ 32 /\ match nr with NameLit n => len n < 2 ^ 32 | _ => True end
     | _ => True end) /\
  spec_enc_block ex_reprs = [63;69; 130; 65;131;241;227;199; 16;129;243;1;121; 190; 15;47;0].
Proof.
  split; [vm_compute; reflexivity|]. split; [|vm_compute; reflexivity].
  intros r Hin. cbn [ex_reprs In] in Hin.
  repeat (destruct Hin as [<-|Hin];
          [first [exact I | split; [vm_compute; reflexivity | first [exact I | vm_compute; reflexivity]]]|]).
  contradiction.
Qed.

(* nextField: a call that consumes a size update and a field; progress and the result *)
Lemma example_next_field :
  let o := next_field st0 empty_field true 0 [63;69;130;134] in
  nf_res o = Ok ([134], true) /\ h_max (nf_hp o) = 100 /\ f_key (nf_hf o) = [58;109;101;116;104;111;100].
Proof. vm_compute. repeat split; reflexivity. Qed.
