(* Proofs/CliMsgStep.v - C02 / C20 (client): every step of the client model is a sequence of micro-moves
   (Proofs/CliMsgDisp.v), with a feed move exactly when the step takes a stream frame in (cl_taken). *)
From H2V Require Import Base.Bytes Base.MachineInt Base.Result Gen.GenConsts Impl.ServerConn Impl.ClientConn
  Proofs.CliBase Proofs.CliMsgMoves Proofs.CliMsgDisp.
From Coq Require Import ZArith Lia ZifyN ZifyNat ZifyBool List.
Import ListNotations.
Local Open Scope N_scope.

Section Step.
Context {hstate : Type}.
Variable dec_field : hstate -> N -> bytes -> dec_res hstate.
Variable enc_field : hstate -> bytes -> bytes -> bool -> bytes * hstate.
Variable enc_set_max : hstate -> N -> hstate.
Variable cfg : cl_config.
Implicit Types c : cconn hstate.

Notation step := (cl_step dec_field enc_field enc_set_max cfg).
Notation mvs := (mvs dec_field enc_field enc_set_max).
Notation mv1 := (mv1 enc_field enc_set_max).

(* what the decomposition needs to know about the state (part of the invariant of Proofs/CliMsgInv.v) *)
Record Pre c : Prop := mkPre {
  p_inq : NoDup (cc_inQ c) /\ forall t, In t (cc_inQ c) -> exists x, cl_ctx_get c t = Some x /\ ct_sid x = 0;
  p_le : forall e, cc_lastErr c = Some e -> err_special e = false;
  p_outq : forallb q2 (cc_outQ c) = true;
  p_herr : forall e, cc_hdrErr c = Some e -> e = CEMalformed
}.

Lemma close_err_ok c : (forall e, cc_lastErr c = Some e -> err_special e = false) -> err_special (cl_close_err c) = false.
Proof. intro H. unfold cl_close_err. destruct (cc_lastErr c) as [e|]; [exact (H e eq_refl) | reflexivity]. Qed.

(* ---------- Conn.Write ---------- *)
Lemma submit_mvs c tag rq q : Pre c -> mvs None c (cl_submit cfg c tag rq q).
Proof.
  intro P. unfold cl_submit. destruct (cl_ctx_get c tag) as [x0|] eqn:G; [apply ms_refl|].
  set (c1 := ccu_ctxs c (cc_ctxs c ++ [cl_new_ctx tag rq (ccf_armTimers cfg)])).
  assert (G1 : cl_ctx_get c1 tag = Some (cl_new_ctx tag rq (ccf_armTimers cfg))).
  { unfold cl_ctx_get, c1. cbn. rewrite cl_ctxs_get_app. unfold cl_ctx_get in G. rewrite G. cbn. rewrite N.eqb_refl. reflexivity. }
  eapply ms_step; [apply m_addctx, G|]. fold c1.
  destruct (cc_closed c1 && negb q).
  - apply mvs_q, qm_resolve. apply close_err_ok. exact (p_le _ P).
  - eapply ms_step.
    + apply (m_inq _ _ c1 tag _ G1); [reflexivity|]. intro I. destruct (p_inq _ P) as [_ H]. destruct (H tag I) as (x & Gx & _). congruence.
    + apply mvs_q, qm_ctx_upd. intro x. repeat split; auto.
Qed.

(* ---------- the write loop takes a request ---------- *)
Lemma delete_pending_stuck_wl held c id :
  snd (cl_delete_pending 1 held c id) = true -> cl_wl_live (fst (cl_delete_pending 1 held c id)) = false.
Proof.
  unfold cl_delete_pending. destruct (cl_pend_get (cc_pending c) id) as [pb|]; [|discriminate].
  destruct (pb_stream pb); [|discriminate].
  destruct (cl_acquire_for held _ (pb_tag pb) id); cbn [fst snd]; try discriminate; intros _;
    unfold cl_go_stuck, cl_wl_live; cbn; rewrite andb_false_r; reflexivity.
Qed.

Lemma req_find_take_req_count c id : cl_req_find (cc_reqQueued (cl_take_req_count c id)) id = None.
Proof.
  rewrite cc_reqQueued_cl_take_req_count. apply cl_req_find_None. intro H. apply in_map_iff in H.
  destruct H as ([i t] & E & I). apply filter_In in I. cbn [fst] in *. subst i. destruct I as [_ I]. rewrite N.eqb_refl in I. discriminate.
Qed.

Lemma req_find_qm P c c' id : qm P c c' -> cl_req_find (cc_reqQueued c) id = None -> cl_req_find (cc_reqQueued c') id = None.
Proof.
  intros Q H. apply cl_req_find_None. apply cl_req_find_None in H. intro I. apply H. apply in_map_iff in I. destruct I as (p & E & I).
  apply in_map_iff. exists p. split; [exact E|]. destruct (qm_rq _ _ _ Q) as [R _]. apply R, I.
Qed.

Lemma wl_exit_dead c le why : cl_wl_live (cl_wl_exit c le why) = false.
Proof. reflexivity. Qed.

Lemma wl_in_mvs c : Pre c -> cl_wl_live c = true -> mvs None c (cl_wl_in enc_field enc_set_max cfg c).
Proof.
  intros P L. unfold cl_wl_in. destruct (cc_inQ c) as [|tag q] eqn:EQ; [apply ms_refl|].
  destruct (p_inq _ P) as [ND HQ]. rewrite EQ in ND, HQ. inversion ND as [|? ? NI ND']; subst.
  destruct (HQ tag (or_introl eq_refl)) as (x & G & S0).
  set (c' := ccu_inQ c q).
  assert (Q0 : qm q1 c c') by (apply (qm_inQ_tail _ _ tag), EQ).
  eapply mvs_trans with (b := c'); [apply mvs_q, Q0|].
  unfold cl_write_request.
  destruct (cl_can_open_stream c') eqn:CO; cbn [negb].
  2:{ apply mvs_q, qm_resolve. reflexivity. }
  change (cl_ctx_get c' tag) with (cl_ctx_get c tag). rewrite G.
  destruct (ct_lckStuck x). { apply mvs_q2, qm_go_stuck. }
  destruct (ct_done x). { apply mvs_q2, qm_wl_after. }
  (* the request goes out *)
  set (c1 := if negb (cc_encTableSize c' =? cc_encTableSeen c')
             then ccu_enc (ccu_encTableSeen c' (cc_encTableSize c')) (enc_set_max (cc_enc c') (cc_encTableSize c')) else c').
  assert (M1 : mvs None c' c1).
  { subst c1. destruct (negb (cc_encTableSize c' =? cc_encTableSeen c')); [apply mvs_one, m_encsize | apply ms_refl]. }
  eapply mvs_trans with (b := c1); [exact M1|].
  assert (NX : cc_nextID c1 = cc_nextID c) by (subst c1; destruct (negb (cc_encTableSize c' =? cc_encTableSeen c')); reflexivity).
  assert (LE : cc_nextID c <= cl_maxStreamID).
  { unfold cl_can_open_stream in CO. apply andb_true_iff in CO. destruct CO as [CO _]. apply andb_true_iff in CO. destruct CO as [_ CO].
    change (cc_nextID c') with (cc_nextID c) in CO. lia. }
  replace (cl_maxStreamID <? cc_nextID c1) with false by lia.
  assert (G1 : cl_ctx_get c1 tag = Some x) by (subst c1; destruct (negb (cc_encTableSize c' =? cc_encTableSeen c')); exact G).
  assert (Q1 : cc_inQ c1 = q) by (subst c1; destruct (negb (cc_encTableSize c' =? cc_encTableSeen c')); reflexivity).
  assert (L1 : cl_wl_live c1 = true) by (subst c1; destruct (negb (cc_encTableSize c' =? cc_encTableSeen c')); exact L).
  assert (GA : cc_goAway c1 = false).
  { unfold cl_can_open_stream in CO. apply andb_true_iff in CO. destruct CO as [CO _]. apply andb_true_iff in CO. destruct CO as [CO _].
    apply negb_true_iff in CO. subst c1. destruct (negb (cc_encTableSize c' =? cc_encTableSeen c')); exact CO. }
  pose proof (m_open enc_field enc_set_max c1 tag x G1 S0 ltac:(rewrite Q1; exact NI) ltac:(rewrite NX; exact LE) L1) as MO.
  pose proof (fun cF => m_open_fail enc_field enc_set_max c1 tag x cF G1 S0 ltac:(rewrite Q1; exact NI) ltac:(rewrite NX; exact LE)) as MF.
  unfold reg_state in MO, MF. cbn [fst] in MF.
  destruct (cl_request_block enc_field (cc_enc (ccu_nextID c1 (u32 (cc_nextID c1 + 2)))) (ct_req x)) as [blk e'] eqn:RB.
  cbn [fst] in MF.
  match goal with |- context [cc_goAway ?c5] => change (cc_goAway c5) with (cc_goAway c1) end. rewrite GA.
  fold (rq_has_body (ct_req x)).
  match type of MO with mv1 _ (cl_note ?cc _) => set (c6 := cc) in * end.
  match goal with |- context [cl_can_write ?a] => replace a with c6 end.
  2:{ subst c6. unfold open_pending. destruct (rq_has_body (ct_req x)); [|reflexivity]. destruct (cq_body (ct_req x)); reflexivity. }
  destruct (cl_can_write c6) eqn:CW.
  - (* HEADERS written *)
    match goal with |- context [cl_note ?a ?o] => replace a with c6 by (subst c6; unfold open_pending; destruct (rq_has_body (ct_req x)); [destruct (cq_body (ct_req x))|]; reflexivity) end.
    eapply ms_step; [exact MO|].
    destruct (rq_has_body (ct_req x)); [|apply mvs_q2, qm_wl_after].
    match goal with |- context [cl_send_pending ?f ?a ?i] => pose proof (qm_send_pending f a i) as QS; destruct (cl_send_pending f a i) as [c8 r] end.
    cbn [fst] in QS. destruct r.
    + eapply mvs_trans with (b := c8); [apply mvs_q, QS | apply mvs_q2, qm_wl_after].
    + eapply mvs_trans with (b := c8); [apply mvs_q, QS|]. apply mvs_q2. eapply qm_trans; [|apply qm_wl_exit; reflexivity]; apply qm_resolve; reflexivity.
    + apply mvs_q, QS.
  - (* the HEADERS write failed: the write loop ends *)
    match goal with |- context [cl_delete_pending 1 [] ?a ?i] =>
      pose proof (qm_delete_pending 1 [] a i) as QD; pose proof (delete_pending_stuck_wl [] a i) as DS;
      assert (QA : qm q1 c6 a) by (apply qm_weaken; eapply qm_trans; [|apply qm_take_req_count]; apply qm_set_last_err; reflexivity);
      assert (RF : cl_req_find (cc_reqQueued a) i = None) by apply req_find_take_req_count;
      destruct (cl_delete_pending 1 [] a i) as [c8 stuck] end.
    cbn [fst snd] in *. change (cc_nextID (ccu_nextID c1 (u32 (cc_nextID c1 + 2)))) with (u32 (cc_nextID c1 + 2)) in *.
    assert (Q8 : qm q1 c6 c8) by (eapply qm_trans; [exact QA | apply qm_weaken, QD]).
    assert (R8 : cl_req_find (cc_reqQueued c8) (cc_nextID c1) = None) by (exact (req_find_qm _ _ _ _ QD RF)).
    destruct stuck.
    + apply mvs_one. apply MF; [exact Q8 | exact (DS eq_refl) | exact R8].
    + apply mvs_one. apply MF.
      * eapply qm_trans; [exact Q8|]. apply qm_weaken. eapply qm_trans; [|apply qm_wl_exit; reflexivity]; apply qm_resolve; reflexivity.
      * reflexivity.
      * eapply req_find_qm; [|exact R8]. eapply qm_trans; [|apply qm_wl_exit; reflexivity]; apply (qm_resolve q2); reflexivity.
Qed.


(* ---------- the caller takes its result ---------- *)
Lemma receive_mvs c tag : mvs None c (cl_receive c tag).
Proof.
  unfold cl_receive. destruct (cl_ctx_get c tag) as [x|] eqn:G; [|apply ms_refl].
  destruct (ct_returned x); [apply ms_refl|]. destruct (ct_err x) as [e|] eqn:E; [|apply ms_refl].
  assert (T : ct_tag x = tag) by (destruct (cl_ctxs_get_In _ _ _ G); assumption).
  destruct (ct_lckStuck (ctu_armed (ctu_err x None) false)).
  - apply mvs_q2. eapply qm_trans; [|apply qm_go_stuck]. apply (qm_ctx_put _ _ x); [cbn; rewrite T; exact G|].
    repeat split; auto. cbn. discriminate.
  - pose proof (m_result enc_field enc_set_max c tag x e G E) as M. cbv zeta in M.
    set (reuse := (if ct_armed x then negb (ct_fired x) else true) && ct_finished x) in M.
    change ((if ct_armed x then negb (ct_fired x) else true) && ct_finished (ctu_armed (ctu_err x None) false)) with reuse.
    destruct reuse.
    + eapply ms_step; [exact M|]. apply mvs_q2, qm_note. reflexivity.
    + apply mvs_one, M.
Qed.

(* ---------- the read loop ---------- *)
Lemma add_window_rq c s i : cc_reqQueued (cl_add_window c s i) = cc_reqQueued c.
Proof. unfold cl_add_window. destruct (s =? 0); [reflexivity|]. destruct (cl_pend_get (cc_pending c) s); reflexivity. Qed.
Lemma add_window_ctxs c s i : cc_ctxs (cl_add_window c s i) = cc_ctxs c.
Proof. unfold cl_add_window. destruct (s =? 0); [reflexivity|]. destruct (cl_pend_get (cc_pending c) s); reflexivity. Qed.
Lemma add_window_live c s i : cl_rl_live (cl_add_window c s i) = cl_rl_live c.
Proof. unfold cl_add_window. destruct (s =? 0); [reflexivity|]. destruct (cl_pend_get (cc_pending c) s); reflexivity. Qed.
Lemma add_window_hs c s i : cc_hdrStream (cl_add_window c s i) = cc_hdrStream c.
Proof. unfold cl_add_window. destruct (s =? 0); [reflexivity|]. destruct (cl_pend_get (cc_pending c) s); reflexivity. Qed.

Lemma take_req_count_live c id : cl_rl_live (cl_take_req_count c id) = cl_rl_live c.
Proof. unfold cl_take_req_count. destruct (cl_req_find (cc_reqQueued c) id); reflexivity. Qed.
Lemma take_req_count_hs c id : cc_hdrStream (cl_take_req_count c id) = cc_hdrStream c.
Proof. unfold cl_take_req_count. destruct (cl_req_find (cc_reqQueued c) id); reflexivity. Qed.

Definition hcd (k : fkind) : bool := fkind_eqb k KHeaders || fkind_eqb k KCont || fkind_eqb k KData.

Lemma disp_feed_other c0 fr ok : hcd (sf_kind fr) = false ->
  disp_feed dec_field c0 fr ok =
  (match ok with Some x => cl_ctx_put c0 (ctu_resp x (ct_resp x)) | None => c0 end,
   match ok with Some x => Some (ctu_resp x (ct_resp x)) | None => None end, false,
   if fkind_eqb (sf_kind fr) KRst then CRSStream (CEReset (sf_code fr)) else CRSNone).
Proof.
  unfold disp_feed, cl_read_stream, hcd.
  destruct (sf_kind fr); cbn [fkind_eqb orb]; try discriminate; intros _; destruct ok; try reflexivity;
    destruct (cc_hdrStream c0 =? 0); reflexivity.
Qed.

Lemma dispatch_other_quiet c fr : hcd (sf_kind fr) = false -> qm q2 c (fst (cl_dispatch dec_field c fr)).
Proof.
  intro K. rewrite cl_dispatch_eq. unfold disp_ok.
  assert (A : forall c0 ok, (match ok with Some x => exists x0, cl_ctx_get c0 (ct_tag x) = Some x0 /\ x = x0 | None => True end) ->
              qm q2 c0 (fst (let '(c2, ok2, ended, err2) := disp_feed dec_field c0 fr ok in disp_tail c2 (sf_sid fr) ok2 ended err2))).
  { intros c0 ok H. rewrite (disp_feed_other _ _ _ K).
    assert (B : qm q2 c0 (match ok with Some x => cl_ctx_put c0 (ctu_resp x (ct_resp x)) | None => c0 end)).
    { destruct ok as [x|]; [|apply qm_refl]. destruct H as (x0 & G & ->). apply (qm_ctx_put _ _ x0); [exact G | repeat split; auto]. }
    destruct (fkind_eqb (sf_kind fr) KRst); unfold disp_tail; cbn [fst].
    - destruct ok as [x|]; [|exact B]. eapply qm_trans; [exact B | apply qm_finish; reflexivity].
    - destruct ok as [x|]; exact B. }
  destruct (cl_req_find (cc_reqQueued c) (sf_sid fr)) as [tag|] eqn:F.
  - destruct (cl_acquire_for [] c tag (sf_sid fr)) eqn:AQ.
    + apply A. destruct (cl_ctx_get c tag) as [x|] eqn:G; [|exact I]. exists x. split; [|reflexivity].
      destruct (cl_ctxs_get_In _ _ _ G) as [_ E]. rewrite E. exact G.
    + eapply qm_trans; [apply qm_take_req_count | apply A; exact I].
    + apply qm_go_stuck.
    + apply qm_go_stuck.
  - apply A. exact I.
Qed.

Lemma acquire_ok c tag id : cl_acquire_for [] c tag id = CLOk -> exists x, cl_ctx_get c tag = Some x /\ ct_sid x = id /\ ct_tag x = tag.
Proof.
  unfold cl_acquire_for. destruct (cl_ctx_get c tag) as [x|] eqn:G; [|discriminate]. cbn [existsb].
  destruct (ct_lckStuck x); [discriminate|]. destruct (ct_done x || negb (ct_conn x) || negb (ct_sid x =? id)) eqn:E; [discriminate|].
  intros _. exists x. repeat split; [lia|]. destruct (cl_ctxs_get_In _ _ _ G); assumption.
Qed.

Lemma frame_in_seq_hs c c' fr : cc_hdrStream c' = cc_hdrStream c -> frame_in_seq c' fr = frame_in_seq c fr.
Proof. intro H. unfold frame_in_seq. rewrite H. reflexivity. Qed.

Lemma acquire_for_ctxs held c c' tag id : cc_ctxs c' = cc_ctxs c -> cl_acquire_for held c' tag id = cl_acquire_for held c tag id.
Proof. intro H. unfold cl_acquire_for, cl_ctx_get. rewrite H. reflexivity. Qed.


Lemma rl_dispatch_mvs c fr : cl_rl_live c = true -> sf_sid fr <> 0 -> frame_in_seq c fr = true ->
  mvs (if negb (dispatch_stuck c fr) then Some fr else None) c
      (rl_after (cl_dispatch dec_field (if fkind_eqb (sf_kind fr) KWinUpd then cl_add_window c (sf_sid fr) (Z.of_N (sf_inc fr)) else c) fr)).
Proof.
  intros L S0 FS.
  set (c1 := if fkind_eqb (sf_kind fr) KWinUpd then cl_add_window c (sf_sid fr) (Z.of_N (sf_inc fr)) else c).
  assert (Q1 : qm q2 c c1) by (subst c1; destruct (fkind_eqb (sf_kind fr) KWinUpd); [apply qm_add_window | apply qm_refl]).
  assert (RQ : cc_reqQueued c1 = cc_reqQueued c) by (subst c1; destruct (fkind_eqb (sf_kind fr) KWinUpd); [apply add_window_rq | reflexivity]).
  assert (CX : cc_ctxs c1 = cc_ctxs c) by (subst c1; destruct (fkind_eqb (sf_kind fr) KWinUpd); [apply add_window_ctxs | reflexivity]).
  assert (L1 : cl_rl_live c1 = true) by (subst c1; destruct (fkind_eqb (sf_kind fr) KWinUpd); [rewrite add_window_live|]; exact L).
  assert (H1 : cc_hdrStream c1 = cc_hdrStream c) by (subst c1; destruct (fkind_eqb (sf_kind fr) KWinUpd); [apply add_window_hs | reflexivity]).
  assert (FS1 : frame_in_seq c1 fr = true) by (rewrite (frame_in_seq_hs c c1 fr H1); exact FS).
  rewrite cl_dispatch_eq. unfold disp_ok, dispatch_stuck. rewrite RQ.
  assert (FEED : forall c0 ok, qm q2 c1 c0 -> cl_rl_live c0 = true -> frame_in_seq c0 fr = true ->
            match ok with
            | Some x => cl_req_find (cc_reqQueued c0) (sf_sid fr) = Some (ct_tag x) /\ cl_ctx_get c0 (ct_tag x) = Some x /\ ct_sid x = sf_sid fr
            | None => cl_req_find (cc_reqQueued c0) (sf_sid fr) = None
            end ->
            mvs (Some fr) c (rl_after (let '(c2, ok2, ended, err2) := disp_feed dec_field c0 fr ok in disp_tail c2 (sf_sid fr) ok2 ended err2))).
  { intros c0 ok Q0 L0 F0 OK. eapply mvs_trans with (b := c0); [apply mvs_q2; eapply qm_trans; eassumption|].
    eapply ms_feed; [|apply ms_refl]. repeat split; try assumption. exists ok. split; [exact OK | reflexivity]. }
  destruct (cl_req_find (cc_reqQueued c) (sf_sid fr)) as [tag|] eqn:F.
  - rewrite (acquire_for_ctxs _ _ _ _ _ CX). destruct (cl_acquire_for [] c tag (sf_sid fr)) eqn:AQ; cbn [negb].
    + rewrite <- (acquire_for_ctxs _ _ c1 _ _ CX) in AQ. destruct (acquire_ok _ _ _ AQ) as (x & G & SX & TX). rewrite G.
      apply FEED; [apply qm_refl | exact L1 | exact FS1|]. rewrite TX, RQ. repeat split; assumption.
    + apply FEED; [apply qm_take_req_count | rewrite take_req_count_live; exact L1 | |apply req_find_take_req_count].
      rewrite (frame_in_seq_hs c1 _ fr (take_req_count_hs c1 _)). exact FS1.
    + cbn [rl_after]. apply mvs_q2. eapply qm_trans; [exact Q1 | apply qm_go_stuck].
    + cbn [rl_after]. apply mvs_q2. eapply qm_trans; [exact Q1 | apply qm_go_stuck].
  - cbn [negb]. apply FEED; [apply qm_refl | exact L1 | exact FS1 | rewrite RQ; exact F].
Qed.

(* readLoop's body *)
Lemma rl_frame_mvs c fr : cl_rl_live c = true -> sf_sid fr <> 0 ->
  mvs (if frame_in_seq c fr && negb (dispatch_stuck c fr) then Some fr else None) c (cl_rl_frame dec_field c fr).
Proof.
  intros L S0. unfold cl_rl_frame.
  assert (EXIT : mvs None c (cl_rl_exit (cl_set_last_err c CEConn) 1)).
  { apply mvs_q2. eapply qm_trans; [|apply qm_rl_exit]. apply qm_set_last_err; reflexivity. }
  destruct (frame_in_seq c fr) eqn:FS.
  - pose proof (rl_dispatch_mvs c fr L S0 FS) as D. unfold frame_in_seq in FS.
    destruct (fkind_eqb (sf_kind fr) KPush); [discriminate|]. cbn [negb andb] in *.
    destruct (cc_hdrStream c =? 0); cbn [negb andb].
    + destruct (fkind_eqb (sf_kind fr) KCont); [discriminate|]. exact D.
    + destruct (fkind_eqb (sf_kind fr) KCont); [|discriminate]. cbn [andb negb orb] in *. rewrite FS. cbn [negb]. exact D.
  - cbn [andb]. unfold frame_in_seq in FS.
    destruct (fkind_eqb (sf_kind fr) KPush); [exact EXIT|]. cbn [negb andb] in *.
    destruct (cc_hdrStream c =? 0); cbn [negb andb].
    + apply negb_false_iff in FS. rewrite FS. exact EXIT.
    + destruct (fkind_eqb (sf_kind fr) KCont); cbn [negb andb orb] in *; [rewrite FS|]; exact EXIT.
Qed.

(* the GOAWAY frame goes through the loop body too, on stream 0 *)
Lemma rl_frame_zero_quiet c fr : hcd (sf_kind fr) = false -> qm q2 c (cl_rl_frame dec_field c fr).
Proof.
  intro K. unfold cl_rl_frame.
  assert (EXIT : qm q2 c (cl_rl_exit (cl_set_last_err c CEConn) 1)).
  { eapply qm_trans; [|apply qm_rl_exit]. apply qm_set_last_err; reflexivity. }
  destruct (fkind_eqb (sf_kind fr) KPush); [exact EXIT|].
  match goal with |- context [if ?b then cl_rl_exit _ _ else _] => destruct b end; [exact EXIT|].
  match goal with |- context [if ?b then cl_rl_exit _ _ else _] => destruct b end; [exact EXIT|].
  set (c1 := if fkind_eqb (sf_kind fr) KWinUpd then cl_add_window c (sf_sid fr) (Z.of_N (sf_inc fr)) else c).
  assert (Q1 : qm q2 c c1) by (subst c1; destruct (fkind_eqb (sf_kind fr) KWinUpd); [apply qm_add_window | apply qm_refl]).
  pose proof (dispatch_other_quiet c1 fr K) as D. destruct (cl_dispatch dec_field c1 fr) as [c2 r]. cbn [fst] in D.
  assert (Q2 : qm q2 c c2) by (eapply qm_trans; eassumption).
  destruct r; [exact Q2 | eapply qm_trans; [exact Q2 | apply qm_rl_exit] | exact Q2 | eapply qm_trans; [exact Q2 | apply qm_rl_panic]].
Qed.

Theorem step_mvs c e : Pre c -> mvs (cl_taken c e) c (step c e).
Proof.
  intro P. destruct e as [tag rq q|tag| | |order| | |i|tag|tag|tag| | |]; cbn [cl_step cl_taken].
  - apply submit_mvs, P.
  - apply mvs_q2, qm_submit_check. exact (p_le _ P).
  - destruct (cl_wl_live c) eqn:L; [apply wl_in_mvs; assumption | apply ms_refl].
  - destruct (cl_wl_live c); [apply mvs_q2, qm_wl_out; exact (p_outq _ P) | apply ms_refl].
  - destruct (cl_wl_live c); [apply mvs_q, qm_wl_win | apply ms_refl].
  - destruct (cl_wl_live c); [apply mvs_q2, qm_wl_ping | apply ms_refl].
  - destruct (cl_wl_live c); [apply mvs_q2, qm_wl_done_ev | apply ms_refl].
  - destruct (cl_rl_live c) eqn:L.
    2:{ destruct i; apply ms_refl. }
    unfold cl_rl_step. destruct (cc_netClosed c) eqn:NC.
    { destruct i; cbn [andb negb]; apply mvs_q2, qm_rl_fail. }
    destruct i as [fr| |code|]; [|apply ms_refl | apply mvs_q2, qm_rl_fail | apply mvs_q2, qm_rl_fail].
    cbn [andb negb]. destruct (sf_sid fr =? 0) eqn:Z; cbn [andb negb].
    + destruct (sf_kind fr) eqn:K; try apply ms_refl.
      * destruct (cl_settings_deserialize (flag_has (sf_flags fr) FL_ES) (sf_payload fr)); [|apply mvs_q2, qm_rl_fail].
        destruct (flag_has (sf_flags fr) FL_ES); [apply ms_refl | apply mvs_q2, qm_handle_settings].
      * destruct (flag_has (sf_flags fr) FL_ES); apply mvs_q2; [apply qm_same; reflexivity | apply qm_write_out; reflexivity].
      * pose proof (qm_goaway c (sf_dep fr)) as G. destruct (cl_goaway c (sf_dep fr)) as [c1 stuck]. cbn [fst] in G.
        destruct stuck; apply mvs_q2; [exact G|]. eapply qm_trans; [exact G|]. apply rl_frame_zero_quiet. rewrite K. reflexivity.
      * apply mvs_q2, qm_add_window.
    + apply rl_frame_mvs; [exact L | lia].
  - apply mvs_q2, qm_timeout_fire.
  - apply mvs_q2, qm_timeout_cancel.
  - apply receive_mvs.
  - apply mvs_q2, qm_close_call.
  - apply mvs_q2, qm_close_finish.
  - apply mvs_q2, qm_same. reflexivity.
Qed.

End Step.
