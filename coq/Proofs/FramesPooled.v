(* The FrameHeader and the frame bodies are pooled objects: what they held before does not
   show in the next read, nor in the next write. *)
From Coq Require Import List NArith ZArith Bool Lia.
From Coq Require Import ZifyN ZifyNat ZifyBool.
From H2V Require Import Base.Bytes Base.MachineInt Base.Result Gen.GenConsts Spec.Rfc7540Frames
  Impl.Pools Impl.Frames Impl.FrameView Proofs.FramesBits Proofs.FramesSpec Proofs.FramesRead
  Proofs.FramesC16 Proofs.FramesWrite.
Import ListNotations.
Local Open Scope N_scope.

(* ---- read side ---- *)

(* what is known of an object in a frame pool: it is of the pool's type, and a Ping's data
   is the [8]byte array it is *)
Definition pooled_body_ok (k : Z) (b : body) : Prop :=
  body_type b = k /\ match b with BPing _ d => length d = 8%nat | _ => True end.

Definition pools_ok (ps : pools) : Prop :=
  forall k b, p_frame ps k = Some b -> pooled_body_ok k b.

(* AcquireFrameHeader gives the same header whatever the pool held *)
Lemma acquire_header_from_any p : acquire_header_from p = acquire_header.
Proof. destruct p; reflexivity. Qed.

Definition acq_equiv (a1 a2 : Z -> result body) : Prop :=
  forall k,
    match a1 k, a2 k with
    | Ok b1, Ok b2 => forall fl p n, deserialize b1 fl p n = deserialize b2 fl p n
    | Err e1, Err e2 => e1 = e2
    | Panic w1, Panic w2 => w1 = w2
    | _, _ => False
    end.

Lemma ping_set_data_any d p : length d = 8%nat -> len p = 8 -> ping_set_data d p = ping_set_data zeros8 p.
Proof.
  intros D L. unfold ping_set_data. assert (length p = 8%nat) as E by (unfold len in L; lia).
  rewrite (firstn_all2 p) by lia. rewrite E. f_equal.
  rewrite skipn_all2 by lia. reflexivity.
Qed.

(* AcquireFrame on a used object and on a new one: Deserialize cannot tell them apart *)
Lemma acquire_frame_from_equiv pf :
  (forall k b, pf k = Some b -> pooled_body_ok k b) -> acq_equiv (acquire_frame_from pf) acquire_frame.
Proof.
  intros OK k. unfold acquire_frame_from.
  destruct ((k <? 0)%Z || (Z.of_N c_FrameContinuation <? k)%Z) eqn:R.
  { unfold acquire_frame. rewrite R. reflexivity. }
  destruct (pf k) as [prev|] eqn:P.
  - destruct (OK k prev P) as [T S]. subst k.
    destruct prev as [es hp b|hp st w es eh pr raw|st w|c|st|pad ended st hdr|ack d|st c d|inc|eh raw];
      cbn [body_reset]; try (vm_compute; intros; reflexivity).
    intros fl p n. change (acquire_frame (body_type (BPing ack d))) with (Ok (BPing false zeros8)).
    cbv beta iota. unfold deserialize.
    destruct (len p =? 8) eqn:L; cbn [negb]; [|reflexivity].
    apply N.eqb_eq in L. rewrite (ping_set_data_any d p S L). reflexivity.
  - destruct (acquire_frame k); intros; reflexivity.
Qed.

Definition is_some {A} (o : option A) : bool := match o with Some _ => true | None => false end.

Definition rf_equiv (r1 r2 : rf_out) : Prop :=
  rf_err r1 = rf_err r2 /\ rf_used r1 = rf_used r2 /\ rf_alloc r1 = rf_alloc r2 /\
  rf_events r1 = rf_events r2 /\ (forall u, rf_err r1 = Ok u -> rf_f r1 = rf_f r2) /\
  is_some (fh_body (rf_f r1)) = is_some (fh_body (rf_f r2)).

Lemma rf_equiv_refl r : rf_equiv r r.
Proof. unfold rf_equiv. auto 10. Qed.

Lemma read_from_gen_equiv a1 a2 f input :
  acq_equiv a1 a2 -> rf_equiv (read_from_gen a1 f input) (read_from_gen a2 f input).
Proof.
  intros E. unfold read_from_gen.
  destruct (len input <? c_DefaultFrameSize); [apply rf_equiv_refl|].
  destruct (parse_values (takeN c_DefaultFrameSize input)) as [[[[n kind] fl] sid]|e|w]; try apply rf_equiv_refl.
  destruct (check_len n (fh_maxLen f)); [apply rf_equiv_refl|].
  destruct ((kind <? Z.of_N c_FrameData)%Z || (Z.of_N c_FrameContinuation <? kind)%Z); [apply rf_equiv_refl|].
  specialize (E kind).
  destruct (a1 kind) as [b1|e1|w1]; destruct (a2 kind) as [b2|e2|w2]; try contradiction;
    try (subst; apply rf_equiv_refl).
  destruct (0 <? n).
  - destruct (len (dropN c_DefaultFrameSize input) <? n).
    + unfold rf_equiv. cbn. repeat split; try reflexivity. intros u X; discriminate X.
    + cbn [fh_payload set_payload]. rewrite E.
      destruct (deserialize b2 fl _ n); unfold rf_equiv; cbn; repeat split; try reflexivity; intros u X; discriminate X.
  - cbn [fh_payload put_body]. rewrite E.
    destruct (deserialize b2 fl _ n); unfold rf_equiv; cbn; repeat split; try reflexivity; intros u X; discriminate X.
Qed.

Lemma finish_read_equiv r1 r2 : rf_equiv r1 r2 -> finish_read r1 = finish_read r2.
Proof.
  intros (E & U & A & V & F & S). unfold finish_read. rewrite <- E, <- U, <- A, <- V.
  destruct (rf_err r1) as [u|e|w] eqn:X.
  - rewrite (F u eq_refl). reflexivity.
  - destruct (fh_body (rf_f r1)); destruct (fh_body (rf_f r2)); try discriminate S; reflexivity.
  - reflexivity.
Qed.

(* C16: a read depends on its own limit and on the bytes, and on nothing the pooled
   FrameHeader or the pooled frame body held before *)
Theorem read_pool_independent ps lim input :
  pools_ok ps ->
  read_frame_pooled ps lim input =
  read_frame_with_size (match lim with Some m => m | None => c_defaultMaxLen end) input.
Proof.
  intros OK. unfold read_frame_pooled, read_frame_with_size, read_from.
  rewrite acquire_header_from_any.
  assert ((match lim with Some m => set_maxlen acquire_header m | None => acquire_header end) =
          set_maxlen acquire_header (match lim with Some m => m | None => c_defaultMaxLen end)) as ->
    by (destruct lim; reflexivity).
  apply finish_read_equiv, read_from_gen_equiv, acquire_frame_from_equiv. exact OK.
Qed.

(* ---- write side ---- *)

(* C05 write over a FrameHeader in any previous state *)
Theorem write_frame_parses_on prev pre stream bd padn :
  pre < 256 -> stream < 2 ^ 32 -> body_ok bd -> 9 <= padn -> padn < 256 ->
  let fr := frame_of pre stream bd padn in
  payload_len fr < 2 ^ 24 ->
  exists f',
    write_to (build_on prev pre stream bd) padn = Ok (spec_write fr, f') /\
    spec_parse (spec_write fr) = Some (fr, []) /\ wf fr /\
    firstn 9 (spec_write fr) = header_bytes (payload_len fr) (type_code (f_body fr)) (flags_of pre bd)
                                            (top_bit stream) (low31 stream).
Proof.
  intros Hp Hs Ho L9 L256 fr Hl.
  destruct (write_to_spec (build_on prev pre stream bd) bd padn eq_refl eq_refl Hp Hs Ho L9 L256 Hl)
    as (W & f' & bd' & E & _).
  destruct (write_frame_parses pre stream bd padn Hp Hs Ho L9 L256 Hl) as (out & f0 & E0 & P & -> & _ & H9).
  exists f'. split; [exact E|]. split; [exact P|]. split; [exact W|exact H9].
Qed.

Theorem write_twice_on prev pre stream bd padn padn2 :
  pre < 256 -> stream < 2 ^ 32 -> body_ok bd -> 9 <= padn -> padn < 256 -> 9 <= padn2 -> padn2 < 256 ->
  payload_len (frame_of pre stream bd padn) < 2 ^ 24 ->
  payload_len (frame_of (flags_of pre bd) stream bd padn2) < 2 ^ 24 ->
  exists f1 f2,
    write_to (build_on prev pre stream bd) padn = Ok (spec_write (frame_of pre stream bd padn), f1) /\
    write_to f1 padn2 = Ok (spec_write (frame_of (flags_of pre bd) stream bd padn2), f2).
Proof.
  intros Hp Hs Ho L9 L256 M9 M256 Hl1 Hl2.
  destruct (write_to_spec (build_on prev pre stream bd) bd padn eq_refl eq_refl Hp Hs Ho L9 L256 Hl1)
    as (W & f1 & bd1 & E & B1 & (T1 & O1 & V1) & K1 & F1 & S1).
  cbn [fh_flags fh_stream fh_kind build_on set_body set_stream set_flags] in *.
  assert (fh_flags f1 < 256) as Hf1 by (rewrite F1; apply flags_of_lt; assumption).
  assert (payload_len (frame_of (fh_flags f1) (fh_stream f1) bd1 padn2) < 2 ^ 24) as Hl2'.
  { rewrite V1, F1, S1. exact Hl2. }
  assert (fh_stream f1 < 2 ^ 32) as Hs1 by (rewrite S1; assumption).
  assert (fh_kind f1 = body_type bd1) as Hk1 by (rewrite K1, T1; reflexivity).
  destruct (write_to_spec f1 bd1 padn2 B1 Hk1 Hf1 Hs1 (O1 Ho) M9 M256 Hl2') as (_ & f2 & bd2 & E2 & _).
  exists f1, f2. split; [exact E|]. rewrite E2, V1, F1, S1. reflexivity.
Qed.

(* a different frame written next on the same header (a SETTINGS ack after the SETTINGS that
   was read into, or written from, that header): the second frame is as if the header were new *)
Theorem write_after_write prev pre stream bd padn pre2 stream2 bd2 padn2 :
  pre < 256 -> stream < 2 ^ 32 -> body_ok bd -> 9 <= padn -> padn < 256 ->
  payload_len (frame_of pre stream bd padn) < 2 ^ 24 ->
  pre2 < 256 -> stream2 < 2 ^ 32 -> body_ok bd2 -> 9 <= padn2 -> padn2 < 256 ->
  payload_len (frame_of pre2 stream2 bd2 padn2) < 2 ^ 24 ->
  exists f1 f2,
    write_to (build_on prev pre stream bd) padn = Ok (spec_write (frame_of pre stream bd padn), f1) /\
    write_to (build_on f1 pre2 stream2 bd2) padn2 = Ok (spec_write (frame_of pre2 stream2 bd2 padn2), f2).
Proof.
  intros Hp Hs Ho L9 L256 Hl Hp2 Hs2 Ho2 M9 M256 Hl2.
  destruct (write_frame_parses_on prev pre stream bd padn Hp Hs Ho L9 L256 Hl) as (f1 & E1 & _).
  destruct (write_frame_parses_on f1 pre2 stream2 bd2 padn2 Hp2 Hs2 Ho2 M9 M256 Hl2) as (f2 & E2 & _).
  exists f1, f2. split; assumption.
Qed.
