(* C04, part 6: header blocks, table size changes, and the connection history.

   [Inv enc dec pend] relates the encoder to the decoder of the specification between two
   operations: in step when no size change is pending; otherwise the decoder is where the encoder
   will be once it has applied the size updates the next block starts with (RFC 7541 4.2).
   [history] is the induction over the operations: C04_encoder_in_sync. *)
From Coq Require Import List NArith ZArith Bool Lia.
From H2V Require Import Base.Bytes Base.MachineInt Base.Result Gen.GenConsts Gen.GenStatic
     Impl.Huffman Impl.Hpack Spec.Rfc7541Huffman Spec.Rfc7541
     Proofs.HpackDefs Proofs.HpackBytes Proofs.HpackStatic Proofs.HpackTable
     Proofs.HpackEncInt Proofs.HpackEncString Proofs.HpackEncHeader Proofs.HpackEncSearch
     Proofs.HpackEncSpecInt Proofs.HpackEncSpecRT Proofs.HpackEncField Proofs.HpackEncDefs.
Import ListNotations.
Local Open Scope N_scope.

(* ---- reflexivity of the boolean comparisons of the statement ---- *)

Lemma bytes_eqb_refl a : bytes_eqb a a = true.
Proof. apply bytes_eqb_eq. reflexivity. Qed.

Lemma entry_eqb_refl e : entry_eqb e e = true.
Proof. unfold entry_eqb. rewrite !bytes_eqb_refl. reflexivity. Qed.

Lemma entries_eqb_refl l : entries_eqb l l = true.
Proof. induction l as [|e l IH]; [reflexivity|]. cbn [entries_eqb]. rewrite entry_eqb_refl, IH. reflexivity. Qed.

Lemma hfield_eqb_refl f : hfield_eqb f f = true.
Proof. unfold hfield_eqb. rewrite entry_eqb_refl, Bool.eqb_reflx. reflexivity. Qed.

Lemma hfields_eqb_refl l : hfields_eqb l l = true.
Proof. induction l as [|f l IH]; [reflexivity|]. cbn [hfields_eqb]. rewrite hfield_eqb_refl, IH. reflexivity. Qed.

Lemma in_sync_abs enc : in_sync enc (abs enc) = true.
Proof. unfold in_sync. rewrite entries_eqb_refl. cbn [abs dt_max dt_limit]. rewrite !N.eqb_refl. reflexivity. Qed.

Lemma enc_field_ok_fld p : enc_field_ok p = true -> fld_ok (fst p).
Proof.
  unfold enc_field_ok, fld_ok, fsize. intros H.
  apply andb_prop in H. destruct H as [H H3]. apply andb_prop in H. destruct H as [H1 H2].
  apply N.ltb_lt in H3. repeat split; assumption.
Qed.

(* ---- the fields of a block, no size change pending ---- *)

Fixpoint freprs (hp : hpack_state) (fs : list (field * bool)) : list repr :=
  match fs with
  | [] => []
  | (hf, store) :: fs' => frepr hp hf store :: freprs (snd (afield hp hf store)) fs'
  end.

Lemma ahdr_not_pending hp hf store : h_pending hp = false -> ahdr hp hf store = afield hp hf store.
Proof.
  intros H. unfold ahdr, aupd. rewrite H. destruct (afield hp hf store). reflexivity.
Qed.

Lemma afields_cons_np hp hf store fs : h_pending hp = false ->
  afields hp ((hf, store) :: fs) =
  (fst (afield hp hf store) ++ fst (afields (snd (afield hp hf store)) fs),
   snd (afields (snd (afield hp hf store)) fs)).
Proof.
  intros Hp. cbn [afields]. rewrite (ahdr_not_pending hp hf store Hp).
  destruct (afield hp hf store) as [x hp1]. cbn [fst snd].
  destruct (afields hp1 fs) as [y hp2]. reflexivity.
Qed.

Lemma sem_from_cons_field t a r rs f t' : spec_step t a r = Some (Some f, t') ->
  sem_from t a (r :: rs) =
  match sem_from t' false rs with Some (fs, t'') => Some (f :: fs, t'') | None => None end.
Proof. intros H. cbn [sem_from]. rewrite H. reflexivity. Qed.

Record fields_fact (hp : hpack_state) (fs : list (field * bool)) : Prop := mkFsF {
  fs_bytes : fst (afields hp fs) = spec_enc_block (freprs hp fs);
  fs_wf : Forall repr_wf (freprs hp fs);
  fs_canon : map canon (freprs hp fs) = freprs hp fs;
  fs_sem : forall a, sem_from (abs hp) a (freprs hp fs)
                     = Some (map (fun p => triple_of (fst p)) fs, abs (snd (afields hp fs)));
  fs_K : K (snd (afields hp fs));
  fs_max : h_max (snd (afields hp fs)) = h_max hp;
  fs_pending : h_pending (snd (afields hp fs)) = false;
  fs_sens : sens_ok (freprs hp fs) fs = true;
  fs_head : match freprs hp fs with r :: _ => is_update r = false | [] => True end
}.

Theorem fields_step : forall fs hp, K hp -> h_pending hp = false -> forallb enc_field_ok fs = true ->
  fields_fact hp fs.
Proof.
  induction fs as [|[hf store] fs IH]; intros hp HK Hp Hok.
  - constructor; try reflexivity; try assumption. constructor.
  - cbn [forallb] in Hok. apply andb_prop in Hok. destruct Hok as [Hf Hfs].
    apply enc_field_ok_fld in Hf. cbn [fst] in Hf.
    destruct (field_step hp hf store HK Hf) as [B W C S K1 M P Sn U].
    rewrite Hp in P.
    specialize (IH (snd (afield hp hf store)) K1 P Hfs).
    destruct IH as [B' W' C' S' K' M' P' Sn' _].
    pose proof (afields_cons_np hp hf store fs Hp) as Ec.
    constructor; rewrite ?Ec; cbn [freprs fst snd].
    + rewrite spec_enc_block_cons, B, B'. reflexivity.
    + constructor; assumption.
    + cbn [map]. rewrite C, C'. reflexivity.
    + intros a. rewrite (sem_from_cons_field _ a _ _ _ _ (S a)), (S' false). reflexivity.
    + exact K'.
    + rewrite M'. exact M.
    + exact P'.
    + cbn [sens_ok]. rewrite Sn', andb_true_r.
      destruct (f_sens hf) eqn:Es; [|reflexivity].
      destruct (Sn eq_refl) as [nr [a [b [v ->]]]]. reflexivity.
    + exact U.
Qed.

(* ---- the size updates in front of the first field ---- *)

Definition upd_sizes (hp : hpack_state) : list N :=
  if h_pending hp
  then (if h_pending_min hp <? h_max hp then [h_pending_min hp] else []) ++ [h_max hp]
  else [].

(* the state AppendHeader continues with after the "if hp.pendingSizeUpdate" block *)
Definition settled (hp : hpack_state) : hpack_state := if h_pending hp then with_pending hp false else hp.

Lemma settled_pending hp : h_pending (settled hp) = false.
Proof. unfold settled. destruct (h_pending hp) eqn:E; [destruct hp; reflexivity | exact E]. Qed.

Lemma settled_abs hp : abs (settled hp) = abs hp.
Proof. unfold settled. destruct (h_pending hp); [destruct hp|]; reflexivity. Qed.

Lemma settled_K hp : K hp -> K (settled hp).
Proof. unfold settled. destruct (h_pending hp); [destruct hp|]; intros H; exact H. Qed.

Lemma settled_max hp : h_max (settled hp) = h_max hp.
Proof. unfold settled. destruct (h_pending hp); [destruct hp|]; reflexivity. Qed.

Lemma afields_first hp fs : fs <> [] ->
  afields hp fs = (aupd hp ++ fst (afields (settled hp) fs), snd (afields (settled hp) fs)).
Proof.
  destruct fs as [|[hf store] fs]; [congruence|]. intros _.
  cbn [afields]. rewrite (ahdr_not_pending (settled hp) hf store (settled_pending hp)).
  unfold ahdr. fold (settled hp).
  destruct (afield (settled hp) hf store) as [x hp1].
  destruct (afields hp1 fs) as [y hp2]. cbn [fst snd]. rewrite <- app_assoc. reflexivity.
Qed.

Lemma enc_update n : n < 2 ^ 63 -> aint 32 5 n = spec_enc_repr (SizeUpdate n).
Proof.
  intros H. cbn [spec_enc_repr]. apply aint_is_spec; [lia | reflexivity | reflexivity | apply pow63_64; exact H].
Qed.

Lemma aupd_is_spec hp : h_max hp < 2 ^ 31 -> aupd hp = spec_enc_block (map SizeUpdate (upd_sizes hp)).
Proof.
  intros HM. unfold aupd, upd_sizes.
  assert (h_max hp < 2 ^ 63) as HM' by (change (2 ^ 31) with 2147483648 in HM; change (2 ^ 63) with 9223372036854775808; lia).
  destruct (h_pending hp); [|reflexivity].
  destruct (h_pending_min hp <? h_max hp) eqn:E.
  - apply N.ltb_lt in E. cbn [app map]. rewrite !spec_enc_block_cons. cbn [spec_enc_block flat_map].
    rewrite app_nil_r, <- !enc_update by lia. reflexivity.
  - cbn [app map]. rewrite spec_enc_block_cons. cbn [spec_enc_block flat_map].
    rewrite app_nil_r, <- enc_update by lia. reflexivity.
Qed.

Lemma upd_sizes_wf hp : h_max hp < 2 ^ 31 -> Forall repr_wf (map SizeUpdate (upd_sizes hp)).
Proof.
  intros HM. unfold upd_sizes.
  assert (h_max hp < 2 ^ 63) as HM' by (change (2 ^ 31) with 2147483648 in HM; change (2 ^ 63) with 9223372036854775808; lia).
  destruct (h_pending hp); [|constructor].
  destruct (h_pending_min hp <? h_max hp) eqn:E.
  - apply N.ltb_lt in E. cbn [app map]. repeat constructor; cbn [repr_wf]; lia.
  - cbn [app map]. repeat constructor. exact HM'.
Qed.

Lemma map_canon_updates ns : map canon (map SizeUpdate ns) = map SizeUpdate ns.
Proof. induction ns as [|n ns IH]; [reflexivity|]. cbn [map canon]. rewrite IH. reflexivity. Qed.

Lemma leading_updates_app ns rs : match rs with r :: _ => is_update r = false | [] => True end ->
  leading_updates (map SizeUpdate ns ++ rs) = ns /\ drop_updates (map SizeUpdate ns ++ rs) = rs.
Proof.
  intros H. induction ns as [|n ns [IH1 IH2]].
  - cbn [map app]. destruct rs as [|[i|m nr a b v|n] rs]; try (split; reflexivity). discriminate.
  - cbn [map app leading_updates drop_updates]. rewrite IH1, IH2. split; reflexivity.
Qed.

(* ---- eviction ---- *)

Lemma evict_evict : forall l a b, evict_to a (evict_to b l) = evict_to (N.min a b) l.
Proof.
  induction l as [|e l IH]; intros a b; [reflexivity|].
  cbn [evict_to].
  destruct (N.leb_spec (entry_size e) b) as [Hb|Hb].
  - cbn [evict_to]. destruct (N.leb_spec (entry_size e) a) as [Ha|Ha].
    + replace (entry_size e <=? N.min a b) with true by (symmetry; apply N.leb_le; lia).
      rewrite IH. f_equal. f_equal. lia.
    + replace (entry_size e <=? N.min a b) with false by (symmetry; apply N.leb_gt; lia). reflexivity.
  - replace (entry_size e <=? N.min a b) with false by (symmetry; apply N.leb_gt; lia). reflexivity.
Qed.

Lemma evict_idem_le l a b : a <= b -> evict_to b (evict_to a l) = evict_to a l.
Proof. intros H. rewrite evict_evict. f_equal. lia. Qed.

(* ---- the invariant of a connection ---- *)

Definition changed (m0 : N) (pend : list N) : bool := existsb (fun n => negb (n =? m0)) pend.

Definition Inv (enc : hpack_state) (dec : dtable) (pend : list N) : Prop :=
  K enc /\ dt_limit dec = h_max enc /\
  if h_pending enc then
    dt_entries (abs enc) = evict_to (h_pending_min enc) (dt_entries dec) /\
    h_pending_min enc <= h_max enc /\
    last pend 0 = h_max enc /\
    N.min (h_pending_min enc) (dt_max dec) = fold_left N.min pend (dt_max dec) /\
    changed (dt_max dec) pend = true
  else dec = abs enc /\ changed (dt_max dec) pend = false.

Lemma Inv_init nc nd : Inv (hpack_init nc nd) (dtable_init c_defaultHeaderTableSize) [].
Proof.
  unfold Inv, K, hpack_init, dtable_init, c_defaultHeaderTableSize.
  cbn [h_max h_max_settings h_dynamic h_pending dt_limit fsum fold_right].
  repeat split; try reflexivity. change (2 ^ 31) with 2147483648. lia.
Qed.

Lemma sem_update t n rs : n <= dt_limit t ->
  sem_from t true (SizeUpdate n :: rs) = sem_from (set_max t n) true rs.
Proof.
  intros H. cbn [sem_from spec_step andb].
  replace (n <=? dt_limit t) with true by (symmetry; apply N.leb_le; exact H). reflexivity.
Qed.

(* decoding the size updates brings the decoder to the encoder's table *)
Lemma updates_sem enc dec pend rs : Inv enc dec pend ->
  sem_from dec true (map SizeUpdate (upd_sizes enc) ++ rs) = sem_from (abs enc) true rs.
Proof.
  intros [[K1 [K2 K3]] [HL HI]]. unfold upd_sizes.
  destruct (h_pending enc) eqn:Ep.
  - destruct HI as [HE [Hmin _]].
    destruct dec as [es mx lim]. cbn [dt_entries dt_max dt_limit] in *.
    assert (abs enc = mkDT (evict_to (h_pending_min enc) es) (h_max enc) lim) as Eabs.
    { unfold abs in *. cbn [dt_entries] in HE. rewrite HE, HL, <- K1. reflexivity. }
    destruct (h_pending_min enc <? h_max enc) eqn:E.
    + cbn [app map]. rewrite sem_update by (cbn [dt_limit]; lia).
      rewrite sem_update by (cbn [set_max dt_limit]; lia).
      unfold set_max. cbn [dt_entries dt_max dt_limit].
      rewrite evict_idem_le by exact Hmin. rewrite Eabs. reflexivity.
    + apply N.ltb_ge in E. assert (h_pending_min enc = h_max enc) as Emin by lia.
      cbn [app map]. rewrite sem_update by (cbn [dt_limit]; lia).
      unfold set_max. cbn [dt_entries dt_max dt_limit].
      rewrite Eabs, Emin. reflexivity.
  - destruct HI as [-> _]. reflexivity.
Qed.

Lemma fold_min_le : forall l a, fold_left N.min l a <= a.
Proof.
  induction l as [|x l IH]; intros a; cbn [fold_left]; [lia|].
  specialize (IH (N.min a x)). lia.
Qed.

Lemma fold_min_app l x a : fold_left N.min (l ++ [x]) a = N.min (fold_left N.min l a) x.
Proof. rewrite fold_left_app. reflexivity. Qed.

Lemma unchanged_fold : forall pend m0, changed m0 pend = false -> fold_left N.min pend m0 = m0.
Proof.
  induction pend as [|x pend IH]; intros m0 H; [reflexivity|].
  cbn [changed existsb] in H. apply orb_false_elim in H. destruct H as [H1 H2].
  apply negb_false_iff, N.eqb_eq in H1. subst x. cbn [fold_left]. rewrite N.min_id. apply IH. exact H2.
Qed.

Lemma changed_app m0 pend x : changed m0 (pend ++ [x]) = changed m0 pend || negb (x =? m0).
Proof. unfold changed. rewrite existsb_app. cbn [existsb]. rewrite orb_false_r. reflexivity. Qed.

Lemma last_snoc {A} (l : list A) x d : last (l ++ [x]) d = x.
Proof. apply last_last. Qed.

(* RFC 7541 4.2 *)
Lemma updates_ok_inv enc dec pend : Inv enc dec pend ->
  updates_ok (dt_max dec) pend (upd_sizes enc) = true.
Proof.
  intros [[K1 [K2 K3]] [HL HI]]. unfold updates_ok, upd_sizes. fold (changed (dt_max dec) pend).
  destruct (h_pending enc).
  - destruct HI as [_ [Hmin [Hlast [Hfold Hch]]]]. rewrite Hch.
    destruct (h_pending_min enc <? h_max enc) eqn:E.
    + apply N.ltb_lt in E. cbn [app length Nat.leb Nat.eqb negb andb last fold_left].
      rewrite Hlast, N.eqb_refl. cbn [andb]. apply N.eqb_eq. rewrite <- Hfold. lia.
    + apply N.ltb_ge in E. cbn [app length Nat.leb Nat.eqb negb andb last fold_left].
      rewrite Hlast, N.eqb_refl. cbn [andb]. apply N.eqb_eq. rewrite <- Hfold. lia.
  - destruct HI as [_ Hch]. rewrite Hch. reflexivity.
Qed.

(* ---- SetMaxTableSize ---- *)

Lemma set_max_unfold hp size : set_max_table_size hp size =
  if (h_max hp =? size) && (h_max_settings hp =? size) then hp
  else shrink (mkH (h_no_compress hp) (h_no_dynamic hp) (h_dynamic hp) size size true
                   (if negb (h_pending hp) || (size <? h_pending_min hp) then size else h_pending_min hp)).
Proof. reflexivity. Qed.

Theorem set_max_step enc dec pend n : Inv enc dec pend -> n < 2 ^ 31 ->
  Inv (set_max_table_size enc n) (spec_set_limit dec n) (pend ++ [n]) /\
  table_size (dt_entries (abs (set_max_table_size enc n))) <= n.
Proof.
  intros [[K1 [K2 K3]] [HL HI]] Hn. rewrite set_max_unfold.
  destruct ((h_max enc =? n) && (h_max_settings enc =? n)) eqn:Esame.
  - (* nothing changes *)
    apply andb_prop in Esame. destruct Esame as [E1 _]. apply N.eqb_eq in E1.
    split; [|rewrite table_size_abs; lia].
    unfold Inv. split; [repeat split; assumption|]. split; [cbn; lia|].
    cbn [spec_set_limit dt_entries dt_max dt_limit].
    destruct (h_pending enc).
    + destruct HI as [HE [Hmin [Hlast [Hfold Hch]]]].
      repeat split.
      * exact HE.
      * exact Hmin.
      * rewrite last_snoc. lia.
      * rewrite fold_min_app, <- Hfold. lia.
      * rewrite changed_app, Hch. reflexivity.
    + destruct HI as [-> Hch]. split.
      * unfold abs. cbn [dt_entries dt_max dt_limit]. rewrite <- K1, E1. reflexivity.
      * rewrite changed_app, Hch. cbn [abs dt_max]. rewrite E1, N.eqb_refl. reflexivity.
  - (* the size changes: shrink at once, announce later *)
    set (pmin := if negb (h_pending enc) || (n <? h_pending_min enc) then n else h_pending_min enc).
    set (enc1 := mkH (h_no_compress enc) (h_no_dynamic enc) (h_dynamic enc) n n true pmin).
    assert (fsum (h_dynamic enc1) < 2 ^ 32) as Hs.
    { cbn [enc1 h_dynamic]. change (2 ^ 31) with 2147483648 in *. change (2 ^ 32) with 4294967296. lia. }
    rewrite (shrink_dynamic enc1 Hs). cbn [enc1 h_max h_dynamic].
    assert (dt_entries (abs (with_dynamic enc1 (fit n (h_dynamic enc)))) = evict_to n (dt_entries (abs enc))) as Hent.
    { unfold abs. cbn [with_dynamic enc1 h_dynamic dt_entries]. apply (fit_evict n (h_dynamic enc)). }
    split.
    2:{ rewrite table_size_abs. cbn [with_dynamic h_dynamic]. apply fsum_fit_le. }
    unfold Inv. split; [|split].
    + unfold K. cbn [with_dynamic enc1 h_max h_max_settings h_dynamic].
      split; [reflexivity|]. split; [exact Hn | apply fsum_fit_le].
    + reflexivity.
    + cbn [with_dynamic enc1 h_pending h_pending_min h_max spec_set_limit dt_entries dt_max dt_limit].
      rewrite Hent.
      destruct (h_pending enc) eqn:Ep.
      * destruct HI as [HE [Hmin [Hlast [Hfold Hch]]]].
        cbn [negb orb] in pmin.
        assert (pmin = N.min n (h_pending_min enc)) as Epm.
        { subst pmin. destruct (N.ltb_spec n (h_pending_min enc)); lia. }
        repeat split.
        -- rewrite HE, evict_evict, Epm. reflexivity.
        -- lia.
        -- apply last_snoc.
        -- rewrite fold_min_app, <- Hfold. lia.
        -- rewrite changed_app, Hch. reflexivity.
      * destruct HI as [-> Hch].
        cbn [negb orb] in pmin. subst pmin.
        repeat split.
        -- lia.
        -- apply last_snoc.
        -- rewrite fold_min_app, (unchanged_fold _ _ Hch). lia.
        -- rewrite changed_app, Hch. cbn [orb abs dt_max].
           apply negb_true_iff, N.eqb_neq. intros ->.
           rewrite <- K1, N.eqb_refl in Esame. discriminate.
Qed.

(* ---- one header block ---- *)

Inductive block_fact (enc : hpack_state) (dec : dtable) (pend : list N) (fs : list (field * bool)) : Prop :=
| mkBF (rs : list repr) (enc' : hpack_state)
    (bf_encode : encode_block enc fs = Ok (spec_enc_block rs, enc'))
    (bf_decode : spec_decode_block dec (spec_enc_block rs)
                 = Some (map (fun p => triple_of (fst p)) fs, if is_nil fs then dec else abs enc'))
    (bf_parse : spec_parse_block (spec_enc_block rs) = Some rs)
    (bf_size : table_size (dt_entries (abs enc')) <= dt_limit dec)
    (bf_updates : is_nil fs = false -> updates_ok (dt_max dec) pend (leading_updates rs) = true)
    (bf_sens : sens_ok (drop_updates rs) fs = true)
    (bf_inv : Inv enc' (if is_nil fs then dec else abs enc') (if is_nil fs then pend else [])).

Theorem block_step enc dec pend fs : Inv enc dec pend -> forallb enc_field_ok fs = true ->
  block_fact enc dec pend fs.
Proof.
  intros HInv Hok. pose proof HInv as [[K1 [K2 K3]] [HL HI]].
  destruct fs as [|p fs].
  - (* no AppendHeader call: nothing is written, nothing changes *)
    apply (mkBF enc dec pend [] [] enc); cbn [is_nil].
    + reflexivity.
    + reflexivity.
    + reflexivity.
    + rewrite table_size_abs. lia.
    + discriminate.
    + reflexivity.
    + exact HInv.
  - set (fs1 := p :: fs) in *.
    assert (fs1 <> []) as Hne by discriminate.
    pose proof (fields_step fs1 (settled enc) (settled_K enc (conj K1 (conj K2 K3))) (settled_pending enc) Hok)
      as [B W C S K' M' P' Sn Hd].
    set (enc' := snd (afields (settled enc) fs1)) in *.
    set (rs := map SizeUpdate (upd_sizes enc) ++ freprs (settled enc) fs1).
    assert (Forall repr_wf rs) as Hwf.
    { apply Forall_app. split; [apply upd_sizes_wf; exact K2 | exact W]. }
    assert (map canon rs = rs) as Hcanon.
    { unfold rs. rewrite map_app, map_canon_updates, C. reflexivity. }
    destruct (leading_updates_app (upd_sizes enc) (freprs (settled enc) fs1) Hd) as [Hlead Hdrop].
    apply (mkBF enc dec pend fs1 rs enc'); change (is_nil fs1) with false; cbv iota.
    + rewrite encode_block_pure, (afields_first enc fs1 Hne). fold enc'.
      unfold rs. rewrite spec_enc_block_app, <- (aupd_is_spec enc K2), B. reflexivity.
    + rewrite (spec_decode_enc_block dec rs Hwf). unfold spec_sem, rs.
      rewrite (updates_sem enc dec pend _ HInv), <- (settled_abs enc). apply S.
    + rewrite (spec_parse_enc_block rs Hwf), Hcanon. reflexivity.
    + rewrite table_size_abs. destruct K' as [_ [_ K3']]. fold enc' in K3', M'.
      rewrite M', settled_max in K3'. lia.
    + intros _. fold rs in Hlead. rewrite Hlead. apply (updates_ok_inv enc dec pend HInv).
    + fold rs in Hdrop. rewrite Hdrop. exact Sn.
    + unfold Inv. split; [exact K'|]. split.
      * cbn [abs dt_limit]. destruct K' as [K1' _]. symmetry. exact K1'.
      * fold enc' in P'. rewrite P'. split; reflexivity.
Qed.

(* ---- the history ---- *)

Theorem history : forall ops enc dec pend, Inv enc dec pend -> forallb enc_op_ok ops = true ->
  c04_run enc dec pend ops = true.
Proof.
  induction ops as [|op ops IH]; intros enc dec pend HInv Hok; [reflexivity|].
  cbn [forallb] in Hok. apply andb_prop in Hok. destruct Hok as [Hop Hops].
  destruct op as [n | fs]; cbn [enc_op_ok] in Hop.
  - apply N.ltb_lt in Hop.
    destruct (set_max_step enc dec pend n HInv Hop) as [HInv' Hsz].
    cbn [c04_run]. apply N.leb_le in Hsz. rewrite Hsz. cbn [andb].
    apply IH; assumption.
  - destruct (block_step enc dec pend fs HInv Hop) as [rs enc' E D P Sz U Sn HInv'].
    cbn [c04_run]. rewrite E, D, P.
    rewrite hfields_eqb_refl. apply N.leb_le in Sz. rewrite Sz. rewrite Sn.
    destruct (is_nil fs) eqn:En.
    + cbn [orb andb]. apply IH; assumption.
    + rewrite (U eq_refl), in_sync_abs. cbn [orb andb]. apply IH; assumption.
Qed.

(* C04_encoder_in_sync *)
Theorem encoder_in_sync : forall no_compress no_dynamic ops,
  forallb enc_op_ok ops = true -> c04_check no_compress no_dynamic ops = true.
Proof.
  intros nc nd ops Hok. unfold c04_check. apply history; [apply Inv_init | exact Hok].
Qed.
