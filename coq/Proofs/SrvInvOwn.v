(* Proofs/SrvInvOwn.v - ownership of stream objects (and their request contexts) over the whole history of a
   connection: the log interleaves the events with the outputs each step adds; for every stream id the log drives
   an automaton Owned -> Lent -> Returned -> InPool that never reaches Bad. *)
From H2V Require Import Base.Bytes Base.MachineInt Base.Result Gen.GenConsts Impl.ServerConn Proofs.SrvBase
  Proofs.SrvInvMoves Proofs.SrvInvDecomp Proofs.SrvInvSteps Proofs.SrvInvSlots Proofs.SrvInvOut.
From Coq Require Import ZArith Lia ZifyN ZifyNat ZifyBool Permutation.
Local Open Scope N_scope.

Inductive item : Type := IEv (e : event) | IOut (o : outev).

(* who holds the stream object / request context of one stream id *)
Inductive own : Type :=
| Owned       (* the stream loop (or nobody yet): not handed to a handler so far *)
| Lent        (* a handler is running with it *)
| Returned    (* the handler has returned; the stream loop owns it again *)
| InPool      (* released: back in the pools *)
| Bad.        (* a second dispatch, a release under a running handler, a second release, use after release *)

Definition own_step (sid : N) (st : own) (i : item) : own :=
  match i with
  | IOut (ODispatch s _) => if s =? sid then match st with Owned => Lent | _ => Bad end else st
  | IEv (EvDone s _) => if s =? sid then match st with Lent => Returned | x => x end else st
  | IOut (ORelease s _) => if s =? sid then match st with Owned | Returned => InPool | _ => Bad end else st
  | _ => st
  end.
Definition own_run (sid : N) (l : list item) (st : own) : own := fold_left (own_step sid) l st.

Lemma own_run_app sid l1 l2 st : own_run sid (l1 ++ l2) st = own_run sid l2 (own_run sid l1 st).
Proof. apply fold_left_app. Qed.

Lemma own_run_cons sid i l st : own_run sid (i :: l) st = own_run sid l (own_step sid st i).
Proof. reflexivity. Qed.

Lemma own_bad_step sid i : own_step sid Bad i = Bad.
Proof. destruct i as [[]|[]]; cbn; try reflexivity; destruct (_ =? _); reflexivity. Qed.
Lemma own_bad sid l : own_run sid l Bad = Bad.
Proof. induction l as [|i l IH]; [reflexivity|]. cbn [own_run fold_left]. rewrite own_bad_step. exact IH. Qed.

(* outputs the automaton does not look at *)
Definition quiet (o : outev) : Prop := match o with ODispatch _ _ | ORelease _ _ => False | _ => True end.
Lemma own_quiet sid l st : Forall quiet l -> own_run sid (map IOut l) st = st.
Proof.
  induction 1 as [|o l Ho _ IH]; [reflexivity|]. cbn [map own_run fold_left].
  replace (own_step sid st (IOut o)) with st by (destruct o; cbn in *; tauto). exact IH.
Qed.
Lemma frame_quiet o : is_frame o -> quiet o.
Proof. destruct o; cbn; tauto. Qed.
Lemma Forall_rev (A : Type) (P : A -> Prop) l : Forall P l -> Forall P (rev l).
Proof. intro F. apply Forall_forall. intros x I. rewrite Forall_forall in F. apply F, in_rev. assumption. Qed.

Lemma NoDup_map_inj (A B : Type) (f : A -> B) l x y : NoDup (map f l) -> In x l -> In y l -> f x = f y -> x = y.
Proof.
  induction l as [|a l IH]; cbn [map]; intros ND [] [] E; inversion ND as [|? ? Hn ND']; subst; auto.
  - exfalso. apply Hn. rewrite E. apply in_map. assumption.
  - exfalso. apply Hn. rewrite <- E. apply in_map. assumption.
Qed.

Lemma put_In_other l x s : In s l -> st_id s <> st_id x -> In s (strms_put l x).
Proof.
  induction l as [|y t IH]; cbn [strms_put]; [intros []|]. intros [->|I] Hn.
  - replace (st_id s =? st_id x) with false by lia. left. reflexivity.
  - destruct (st_id y =? st_id x); right; auto.
Qed.
Lemma del_In_other l id s : In s l -> st_id s <> id -> In s (strms_del l id).
Proof.
  induction l as [|y t IH]; cbn [strms_del]; [intros []|]. intros [->|I] Hn.
  - replace (st_id s =? id) with false by lia. left. reflexivity.
  - destruct (st_id y =? id); [assumption | right; auto].
Qed.

Section Own.
Variable hstate : Type.
Variable dec_field : hstate -> N -> bytes -> dec_res hstate.
Variable enc_field : hstate -> bytes -> bytes -> bool -> bytes * hstate.
Variable enc_set_max : hstate -> N -> hstate.
Variable cfg : config.
Notation Q := QT.
Notation sconn := (sconn hstate).
Notation mv := (mv hstate dec_field cfg Q).
Notation mvs := (mvs hstate dec_field cfg Q).
Notation SI := (SI cfg Q).
Notation step := (step dec_field enc_field enc_set_max cfg).
Implicit Types c : sconn.

Lemma SI_mv' o a b : mv o a b -> SI a -> SI b.
Proof. apply (SI_mv _ dec_field enc_set_max). Qed.
Lemma SI_omvs' pc a b : omvs hstate pc a b -> SI a -> SI b.
Proof. apply SI_omvs. Qed.

(* ---------- the log ---------- *)
(* what a step added to the output, oldest first *)
Definition delta (c c' : sconn) : list outev :=
  rev (firstn (length (sc_out c') - length (sc_out c)) (sc_out c')).

Fixpoint log_from (c : sconn) (evs : list event) : list item :=
  match evs with
  | [] => []
  | e :: t => IEv e :: map IOut (delta c (step c e)) ++ log_from (step c e) t
  end.
Definition log (h0 : hstate) (evs : list event) : list item := log_from (init_conn cfg h0) evs.

Lemma delta_ext c c' l : sc_out c' = l ++ sc_out c -> delta c c' = rev l.
Proof.
  intro E. unfold delta. rewrite E, app_length. replace (length l + length (sc_out c) - length (sc_out c))%nat with (length l) by lia.
  rewrite firstn_app, Nat.sub_diag, firstn_all. cbn [firstn]. rewrite app_nil_r. reflexivity.
Qed.

(* ---------- the link between the automaton and the state ---------- *)
Definition live (c : sconn) : list stream := sc_strms c ++ sc_gone c.

Definition J (sid : N) (c : sconn) (st : own) : Prop :=
  match st with
  | Owned => forall s, In s (live c) -> st_id s = sid -> st_handlerRunning s = false
  | Lent => sid <= sc_highestID c /\ exists s, In s (live c) /\ st_id s = sid /\ st_handlerRunning s = true
  | Returned => sid <= sc_highestID c /\
                forall s, In s (live c) -> st_id s = sid -> st_handlerRunning s = false /\ st_responded s = true
  | InPool => sid <= sc_highestID c /\ forall s, In s (live c) -> st_id s <> sid
  | Bad => False
  end.

Definition K (sid : N) (c : sconn) (st : own) : Prop := st <> Bad /\ (sc_sl_done c = false -> J sid c st).

(* J only looks at the live streams with that id *)
Lemma J_other sid a b st :
  (forall s, st_id s = sid -> (In s (live a) <-> In s (live b))) -> sc_highestID a <= sc_highestID b ->
  J sid a st -> J sid b st.
Proof.
  intros HI HH. destruct st; cbn [J]; try tauto.
  - intros H s I E. apply (H s); [apply HI|]; assumption.
  - intros [B (s & I & E & R)]. split; [lia|]. exists s. split; [apply HI|]; auto.
  - intros [B H]. split; [lia|]. intros s I E. apply (H s); [apply HI|]; assumption.
  - intros [B H]. split; [lia|]. intros s I E. apply (H s); [apply HI|]; assumption.
Qed.

(* streams related on id, running flag, and responded (which may only be set) *)
Definition krel (s s' : stream) : Prop :=
  st_id s' = st_id s /\ st_handlerRunning s' = st_handlerRunning s /\ (st_responded s = true -> st_responded s' = true).

Lemma J_sim sid a b st :
  (forall s', In s' (live b) -> exists s, In s (live a) /\ krel s s') ->
  (forall s, In s (live a) -> exists s', In s' (live b) /\ krel s s') ->
  sc_highestID a <= sc_highestID b -> J sid a st -> J sid b st.
Proof.
  intros BA AB HH. destruct st; cbn [J]; try tauto.
  - intros H s' I E. destruct (BA s' I) as (s & Is & K1 & K2 & K3). rewrite K2. apply (H s); congruence.
  - intros [B (s & I & E & R)]. split; [lia|]. destruct (AB s I) as (s' & Is & K1 & K2 & K3).
    exists s'. repeat split; congruence.
  - intros [B H]. split; [lia|]. intros s' I E. destruct (BA s' I) as (s & Is & K1 & K2 & K3).
    destruct (H s Is) as [H1 H2]; [congruence|]. split; [congruence | auto].
  - intros [B H]. split; [lia|]. intros s' I E. destruct (BA s' I) as (s & Is & K1 & K2 & K3).
    apply (H s Is). congruence.
Qed.

Lemma sloc_krel s s' : sloc s s' -> krel s s'.
Proof. intros (A & _ & B & C). repeat split; assumption. Qed.

Lemma Forall2_sim (R : stream -> stream -> Prop) l l' : Forall2 R l l' ->
  (forall s', In s' l' -> exists s, In s l /\ R s s') /\ (forall s, In s l -> exists s', In s' l' /\ R s s').
Proof.
  induction 1 as [|x y l l' Rxy _ [IH1 IH2]]; split; intros z [].
  - subst. exists x. split; [left; reflexivity | assumption].
  - destruct (IH1 z H) as (s & I & Rs). exists s. split; [right|]; assumption.
  - subst. exists y. split; [left; reflexivity | assumption].
  - destruct (IH2 z H) as (s & I & Rs). exists s. split; [right|]; assumption.
Qed.

Lemma krel_refl s : krel s s.
Proof. repeat split; auto. Qed.

(* uniqueness of ids among the live streams *)
Lemma live_uniq c s s' : SI c -> sc_sl_done c = false -> In s (live c) -> In s' (live c) -> st_id s = st_id s' -> s = s'.
Proof. intros H Hd I I' E. destruct (si_ids _ _ _ _ H Hd) as [ND _]. eapply NoDup_map_inj; eassumption. Qed.

Lemma live_le c s : SI c -> sc_sl_done c = false -> In s (live c) -> st_id s <= sc_highestID c.
Proof.
  intros H Hd I. destruct (si_ids _ _ _ _ H Hd) as [_ LE]. pose proof (si_hi _ _ _ _ H). specialize (LE s I). lia.
Qed.

(* ---------- one unlabelled move ---------- *)
Lemma K_quiet sid a b st l :
  sc_out b = l ++ sc_out a -> Forall quiet l ->
  (sc_sl_done b = false -> sc_sl_done a = false) ->
  (sc_sl_done b = false -> J sid a st -> J sid b st) ->
  K sid a st -> exists l, sc_out b = l ++ sc_out a /\ K sid b (own_run sid (map IOut (rev l)) st).
Proof.
  intros E F HD HJ [NB HK]. exists l. split; [assumption|]. rewrite own_quiet by (apply Forall_rev; assumption).
  split; [assumption|]. intro Hd. apply HJ; [assumption|]. apply HK, HD. assumption.
Qed.

Lemma K_same_live sid a b st l :
  sc_out b = l ++ sc_out a -> Forall quiet l -> live b = live a -> sc_highestID a <= sc_highestID b ->
  (sc_sl_done b = false -> sc_sl_done a = false) ->
  K sid a st -> exists l, sc_out b = l ++ sc_out a /\ K sid b (own_run sid (map IOut (rev l)) st).
Proof.
  intros E F EL HH HD. eapply K_quiet; try eassumption. intros _. apply J_other; [|assumption].
  intros s _. rewrite EL. tauto.
Qed.

Lemma mv_K sid a b st : mv None a b -> SI a -> K sid a st ->
  exists l, sc_out b = l ++ sc_out a /\ K sid b (own_run sid (map IOut (rev l)) st).
Proof.
  intros M HS HK. remember None as o eqn:EO. destruct M; try discriminate EO.
  - (* lite *)
    destruct H0 as (SC & (l & E & F) & _). unfold same_core in SC. decompose [and] SC.
    eapply (K_same_live sid c c' st l); try eassumption.
    + eapply Forall_impl; [|exact F]. apply frame_quiet.
    + unfold live. congruence.
    + lia.
    + congruence.
  - (* goaway *)
    assert (E : exists l, sc_out (write_goaway c sid0 code) = l ++ sc_out c /\ Forall quiet l).
    { rewrite sc_out_write_goaway, H. destruct (sc_wl_dead c); [exists [] | eexists [_]]; split; try reflexivity; repeat constructor. }
    destruct E as (l & E & F). eapply (K_same_live sid _ _ st l); try eassumption.
    + unfold live. sc_rw. reflexivity.
    + sc_rw. lia.
    + sc_rw. auto.
  - (* mark *)
    eapply (K_same_live sid _ _ st []); try eassumption; [sc_rw; reflexivity | constructor | unfold live; sc_rw; reflexivity | sc_rw; lia | sc_rw; auto].
  - (* highest *)
    eapply (K_same_live sid _ _ st []); try eassumption; [reflexivity | constructor | reflexivity | sc_cbn; lia | auto].
  - (* strms *)
    eapply (K_quiet sid _ _ st []); try eassumption; [reflexivity | constructor | auto|].
    intros _. destruct (Forall2_sim _ _ _ H0) as [S1 S2].
    apply J_sim; [| |sc_cbn; lia]; unfold live; sc_cbn.
    + intros s' I. apply in_app_or in I. destruct I as [I|I].
      * destruct (S1 s' I) as (s & Is & R). exists s. split; [apply in_or_app; left; assumption | apply sloc_krel; assumption].
      * exists s'. split; [apply in_or_app; right; assumption | apply krel_refl].
    + intros s I. apply in_app_or in I. destruct I as [I|I].
      * destruct (S2 s I) as (s' & Is & R). exists s'. split; [apply in_or_app; left; assumption | apply sloc_krel; assumption].
      * exists s. split; [apply in_or_app; right; assumption | apply krel_refl].
  - (* dispatch *)
    rename H0 into SS. destruct (strms_search_In _ _ _ SS) as [Iold Eid].
    set (b := put (note c (ODispatch (st_id x) (st_req x))) x).
    exists [ODispatch (st_id x) (st_req x)]. split; [reflexivity|]. cbn [rev app map own_run fold_left own_step].
    destruct HK as [NB HJ]. specialize (HJ H).
    assert (Ix : In x (sc_strms b)).
    { unfold b. rewrite sc_strms_put. eapply strms_search_In. eapply search_put_same. exact SS. }
    assert (Nrun : st_handlerRunning old = false).
    { destruct (st_handlerRunning old) eqn:R; [|reflexivity]. pose proof (si_run _ _ _ _ HS) as F. rewrite Forall_forall in F.
      destruct (F old Iold R) as [_ R2]. congruence. }
    destruct (st_id x =? sid) eqn:Es.
    + assert (Esid : st_id x = sid) by (apply N.eqb_eq; exact Es).
      destruct st; cbn [J] in HJ.
      * split; [discriminate|]. intros _. cbn [J]. split.
        -- rewrite <- Esid, <- Eid. unfold b. sc_rw. apply (live_le c old HS H). apply in_or_app. left. assumption.
        -- exists x. repeat split; [apply in_or_app; left; assumption | assumption | assumption].
      * exfalso. destruct HJ as [_ (s & I & E & R)].
        assert (s = old) by (apply (live_uniq c s old HS H I); [apply in_or_app; left; assumption | congruence]). congruence.
      * exfalso. destruct HJ as [_ HJ]. destruct (HJ old) as [_ R]; [apply in_or_app; left; assumption | congruence | congruence].
      * exfalso. destruct HJ as [_ HJ]. apply (HJ old); [apply in_or_app; left; assumption | congruence].
      * contradiction.
    + split; [assumption|]. intros _. eapply J_other; [| |exact HJ]; [|unfold b; sc_rw; lia].
      intros s E. unfold live, b. rewrite sc_strms_put. sc_rw. rewrite !in_app_iff.
      assert (st_id s <> st_id x) by (apply N.eqb_neq in Es; congruence).
      split; intros [I|I]; auto; left.
      * apply put_In_other; assumption.
      * destruct (strms_put_In _ _ _ I) as [->|]; [congruence | assumption].
  - (* create *)
    eapply (K_quiet sid _ _ st []); try eassumption; [reflexivity | constructor | auto|].
    intros _ HJ. unfold live in *. 
    assert (LEA : forall y, In y (sc_strms c ++ sc_gone c) -> st_id y <= sc_highestID c) by (intros y I; apply (live_le c y HS H I)).
    destruct (N.eq_dec sid sid0) as [->|Ne].
    + assert (st = Owned) as ->.
      { destruct st; cbn [J] in HJ; try reflexivity; try contradiction; destruct HJ; lia. }
      cbn [J]. unfold live. sc_cbn. intros y I E. rewrite <- app_assoc in I. apply in_app_or in I. cbn [app] in I.
      destruct I as [I|[<-|I]]; [|assumption|].
      * specialize (LEA y (in_or_app _ _ _ (or_introl I))). lia.
      * specialize (LEA y (in_or_app _ _ _ (or_intror I))). lia.
    + eapply J_other; [| |exact HJ]; [|sc_cbn; lia]. intros y E. unfold live. sc_cbn. rewrite !in_app_iff. cbn [In].
      split; [tauto|]. intros [[I|[<-|[]]]|I]; auto. congruence.
  - (* close *)
    rename H0 into SS. rename H1 into SL. destruct (strms_search_In _ _ _ SS) as [Iold Eid].
    destruct SL as (Si & So & Sr & Sp). pose proof (del_perm _ _ _ SS) as PM.
    destruct HK as [NB HJ]. specialize (HJ H).
    pose proof (sc_out_close_stream _ c x) as EO2.
    assert (HB : sc_highestID (close_stream c x) = sc_highestID c) by (sc_rw; reflexivity).
    assert (LV : live (close_stream c x) =
                 strms_del (sc_strms c) (st_id x) ++
                 (if st_handlerRunning x then set_flags (closed_body x) (st_responded x) true true :: sc_gone c else sc_gone c)).
    { unfold live. rewrite sc_strms_close_stream, sc_gone_close_stream. reflexivity. }
    destruct (st_handlerRunning x) eqn:Rx.
    + (* abandoned: moves to sc_gone *)
      exists []. split; [assumption|]. cbn. split; [assumption|]. intros _.
      set (x' := set_flags (closed_body x) (st_responded x) true true) in *.
      assert (KR : krel old x').
      { unfold x', closed_body. repeat split; cbn [set_flags set_snd st_id st_handlerRunning st_responded]; [assumption | congruence | assumption]. }
      apply (J_sim sid c); [| |lia|assumption]; rewrite LV; unfold live.
      * intros s' I. apply in_app_or in I. destruct I as [I|[<-|I]].
        -- exists s'. split; [apply in_or_app; left; eapply strms_del_In; eassumption | apply krel_refl].
        -- exists old. split; [apply in_or_app; left; assumption | assumption].
        -- exists s'. split; [apply in_or_app; right; assumption | apply krel_refl].
      * intros s I. apply in_app_or in I. destruct I as [I|I].
        -- apply (Permutation_in _ PM) in I. destruct I as [<-|I].
           ++ exists x'. split; [apply in_or_app; right; left; reflexivity | assumption].
           ++ exists s. split; [apply in_or_app; left; assumption | apply krel_refl].
        -- exists s. split; [apply in_or_app; right; right; assumption | apply krel_refl].
    + (* released *)
      exists [ORelease (st_id x) true]. split; [assumption|]. cbn [rev app map own_run fold_left own_step].
      assert (ND : NoDup (st_id old :: map st_id (strms_del (sc_strms c) (st_id x) ++ sc_gone c))).
      { destruct (si_ids _ _ _ _ HS H) as [ND _]. eapply Permutation_NoDup; [|exact ND].
        rewrite !map_app. change (st_id old :: map st_id (strms_del (sc_strms c) (st_id x)) ++ map st_id (sc_gone c))
          with (map st_id (old :: strms_del (sc_strms c) (st_id x)) ++ map st_id (sc_gone c)).
        apply Permutation_app_tail, Permutation_map, PM. }
      inversion ND as [|? ? NI ND']; subst.
      destruct (st_id x =? sid) eqn:Es.
      * assert (Esid : st_id x = sid) by (apply N.eqb_eq; exact Es).
        assert (POOL : J sid (close_stream c x) InPool).
        { cbn [J]. split; [rewrite HB, <- Esid, Si; apply (live_le c old HS H); apply in_or_app; left; assumption|].
          rewrite LV. intros s I E. apply NI. assert (EE : st_id old = st_id s) by congruence. rewrite EE. apply in_map. exact I. }
        assert (Nrun : st_handlerRunning old = false) by congruence.
        destruct st; cbn [J] in HJ.
        -- split; [discriminate | auto].
        -- exfalso. destruct HJ as [_ (s & I & E & R)].
           assert (s = old) by (apply (live_uniq c s old HS H I); [apply in_or_app; left; assumption | congruence]). congruence.
        -- split; [discriminate | auto].
        -- exfalso. destruct HJ as [_ HJ]. apply (HJ old); [apply in_or_app; left; assumption | congruence].
        -- contradiction.
      * split; [assumption|]. intros _. eapply J_other; [| |exact HJ]; [|lia].
        intros s E. rewrite LV. unfold live. rewrite !in_app_iff.
        assert (st_id s <> st_id x) by (apply N.eqb_neq in Es; congruence).
        split; intros [I|I]; auto; left; [apply del_In_other; assumption | eapply strms_del_In; eassumption].
  - (* break *)
    exists [OExit 1 0]. split; [reflexivity|]. cbn. destruct HK. split; [assumption | discriminate].
  - (* fatal *)
    exists [OExit 1 0]. split; [reflexivity|]. cbn. destruct HK. split; [assumption | discriminate].
  - (* panic *)
    apply (K_same_live sid c (note c (OPanic 1 0)) st [OPanic 1 0]).
    + reflexivity.
    + constructor; [exact I | constructor].
    + reflexivity.
    + rewrite sc_highestID_note. lia.
    + auto.
    + exact HK.
  - (* post *)
    destruct H0 as [SC EOut]. unfold same_core in SC. decompose [and] SC.
    exists []. split; [assumption|]. cbn. destruct HK as [NB _]. split; [assumption|]. intro Hd. congruence.
Qed.

(* ---------- the return of a handler: the event, then the move ---------- *)
Lemma mv_K_done sid sid0 r a b st : mv (Some sid0) a b -> SI a -> K sid a st ->
  exists l, sc_out b = l ++ sc_out a /\ K sid b (own_run sid (IEv (EvDone sid0 r) :: map IOut (rev l)) st).
Proof.
  intros M HS HK. pose proof (SI_mv' _ _ _ M HS) as HSb.
  remember (Some sid0) as o eqn:EO. destruct M; try discriminate EO; inversion EO; subst sid0; clear EO.
  - (* the stream had been abandoned *)
    rename H0 into TS. destruct (take_stream_Some _ _ _ _ TS) as (Ei & Is & Len & Sub & Sup).
    pose proof (take_perm _ _ _ _ TS) as PM. destruct HK as [NB HJ]. specialize (HJ H).
    set (b := release_stream (upd_gone c rest) (set_flags s (st_responded s) false true)).
    exists [ORelease (st_id (set_flags s (st_responded s) false true)) true].
    split; [unfold b; rewrite sc_out_release_stream; reflexivity|].
    cbn [rev app map own_run fold_left own_step set_flags st_id]. rewrite Ei.
    assert (LV : live b = sc_strms c ++ rest) by (unfold live, b; sc_rw; reflexivity).
    assert (HB : sc_highestID b = sc_highestID c) by (unfold b; sc_rw; reflexivity).
    assert (Rs : st_handlerRunning s = true).
    { pose proof (si_gone _ _ _ _ HS) as F. rewrite Forall_forall in F. apply (F s Is). }
    assert (Il : In s (live c)) by (apply in_or_app; right; assumption).
    destruct (sid1 =? sid) eqn:Es.
    + assert (Esid : sid1 = sid) by (apply N.eqb_eq; exact Es). rewrite Esid in Ei.
      assert (POOL : J sid b InPool).
      { cbn [J]. split; [rewrite HB, <- Ei; apply (live_le c s HS H Il)|].
        rewrite LV. intros y I E.
        destruct (si_ids _ _ _ _ HS H) as [ND _].
        assert (P2 : Permutation (map st_id (sc_strms c ++ sc_gone c)) (st_id s :: map st_id (sc_strms c ++ rest))).
        { rewrite !map_app. eapply perm_trans; [apply Permutation_app_head, Permutation_map, PM|]. cbn [map].
          symmetry. apply Permutation_middle. }
        pose proof (Permutation_NoDup P2 ND) as ND2. inversion ND2 as [|? ? NI _]; subst.
        apply NI. assert (EE : st_id s = st_id y) by congruence. rewrite EE. apply in_map. assumption. }
      destruct st; cbn [J] in HJ.
      * exfalso. rewrite (HJ s Il Ei) in Rs. discriminate.
      * split; [discriminate | auto].
      * exfalso. destruct HJ as [_ HJ]. destruct (HJ s Il Ei). congruence.
      * exfalso. destruct HJ as [_ HJ]. apply (HJ s Il Ei).
      * contradiction.
    + split; [assumption|]. intros _. eapply J_other; [| |exact HJ]; [|lia].
      intros y E. rewrite LV. unfold live. rewrite !in_app_iff.
      split.
      * intros [I|I]; [left; assumption|]. right. destruct (Sup y I) as [->|]; [lia | assumption].
      * intros [I|I]; [left; assumption | right; auto].
  - (* the stream is in the table *)
    rename H1 into SS. rename H0 into L. rename H4 into Rold. rename H5 into Rx. rename H6 into Resp. destruct (strms_search_In _ _ _ SS) as [Iold Eid].
    destruct HK as [NB HJ]. specialize (HJ H).
    destruct L as (SC & (l & E & F) & _). unfold same_core in SC. decompose [and] SC. clear SC.
    exists l. split; [rewrite sc_out_put; assumption|].
    cbn [own_run fold_left]. fold (own_run sid (map IOut (rev l)) (own_step sid st (IEv (EvDone (st_id x) r)))).
    rewrite own_quiet by (apply Forall_rev; eapply Forall_impl; [|exact F]; apply frame_quiet).
    assert (LV : live (put c1 x) = strms_put (sc_strms c) x ++ sc_gone c) by (unfold live; rewrite sc_strms_put; sc_rw; congruence).
    assert (HB : sc_highestID (put c1 x) = sc_highestID c) by (sc_rw; assumption).
    assert (Hdb : sc_sl_done (put c1 x) = false) by (sc_rw; congruence).
    assert (Ix : In x (live (put c1 x))).
    { rewrite LV. apply in_or_app. left. eapply strms_search_In. eapply search_put_same. exact SS. }
    assert (Il : In old (live c)) by (apply in_or_app; left; assumption).
    cbn [own_step].
    destruct (st_id x =? sid) eqn:Es.
    + assert (Esid : st_id x = sid) by (apply N.eqb_eq; exact Es).
      destruct st; cbn [J] in HJ.
      * exfalso. rewrite (HJ old Il) in Rold; [discriminate | congruence].
      * split; [discriminate|]. intros _. cbn [J]. split; [rewrite HB; tauto|].
        intros y I E'. assert (y = x) as -> by (apply (live_uniq _ y x HSb Hdb I Ix); congruence).
        split; [assumption|]. apply Resp. pose proof (si_run _ _ _ _ HS) as FR. rewrite Forall_forall in FR.
        apply (FR old Iold Rold).
      * exfalso. destruct HJ as [_ HJ]. destruct (HJ old Il); [congruence | congruence].
      * exfalso. destruct HJ as [_ HJ]. apply (HJ old Il). congruence.
      * contradiction.
    + split; [assumption|]. intros _. eapply J_other; [| |exact HJ]; [|rewrite HB; apply N.le_refl].
      intros y E'. rewrite LV. unfold live. rewrite !in_app_iff.
      assert (st_id y <> st_id x) by (apply N.eqb_neq in Es; congruence).
      split; intros [I|I]; auto; left.
      * apply put_In_other; assumption.
      * destruct (strms_put_In _ _ _ I) as [->|]; [congruence | assumption].
Qed.

(* ---------- the other moves ---------- *)
Lemma omv_K sid pc a b st : omv hstate pc a b -> K sid a st ->
  exists l, sc_out b = l ++ sc_out a /\ K sid b (own_run sid (map IOut (rev l)) st).
Proof.
  intros M HK. destruct M.
  - eapply (K_same_live sid _ _ st []); try eassumption; [reflexivity | constructor | reflexivity | sc_cbn; lia | auto].
  - exists [OExit 1 1]. split; [reflexivity|]. cbn. destruct HK. split; [assumption | discriminate].
  - assert (E : exists l, sc_out (write_goaway c 0 code) = l ++ sc_out c /\ Forall quiet l).
    { rewrite sc_out_write_goaway. destruct (sc_wl_dead c); [exists [] | destruct (sc_sl_done c); eexists [_]]; split; try reflexivity; repeat constructor. }
    destruct E as (l & E & F). eapply (K_same_live sid _ _ st l); try eassumption.
    + unfold live. sc_rw. reflexivity.
    + sc_rw. lia.
    + sc_rw. auto.
  - apply (K_same_live sid c (rl_exit c why) st [OExit 0 why]); [reflexivity | constructor; [exact I | constructor] | reflexivity | sc_rw; lia | sc_rw; auto | assumption].
  - eapply (K_same_live sid _ _ st []); try eassumption; [reflexivity | constructor | reflexivity | sc_cbn; lia | auto].
  - eapply (K_same_live sid _ _ st []); try eassumption; [reflexivity | constructor | reflexivity | sc_cbn; lia | auto].
  - assert (E : exists l, sc_out (emit c o) = l ++ sc_out c /\ Forall quiet l).
    { rewrite sc_out_emit. destruct (sc_wl_dead c); [exists [] | destruct (sc_sl_done c); eexists [_]]; split; try reflexivity;
        constructor; try constructor; try exact I. apply frame_quiet. assumption. }
    destruct E as (l & E & F). eapply (K_same_live sid _ _ st l); try eassumption.
    + unfold live. sc_rw. reflexivity.
    + sc_rw. lia.
    + sc_rw. auto.
  - assert (E : exists l, sc_out (upd_closer (write_goaway c 0 c_NoError) true) = l ++ sc_out c /\ Forall quiet l).
    { rewrite sc_out_upd_closer, sc_out_write_goaway. destruct (sc_wl_dead c); [exists [] | destruct (sc_sl_done c); eexists [_]]; split; try reflexivity; repeat constructor. }
    destruct E as (l & E & F). eapply (K_same_live sid _ _ st l); try eassumption.
    + unfold live. sc_rw. reflexivity.
    + sc_rw. lia.
    + sc_rw. auto.
  - eapply (K_same_live sid _ _ st []); try eassumption; [reflexivity | constructor | reflexivity | sc_cbn; lia | auto].
  - eapply (K_same_live sid _ _ st []); try eassumption; [reflexivity | constructor | reflexivity | sc_cbn; lia | auto].
Qed.

(* ---------- sequences ---------- *)
Lemma K_chain sid (a b c : sconn) st l1 l2 :
  sc_out b = l1 ++ sc_out a -> sc_out c = l2 ++ sc_out b ->
  sc_out c = (l2 ++ l1) ++ sc_out a /\
  own_run sid (map IOut (rev (l2 ++ l1))) st = own_run sid (map IOut (rev l2)) (own_run sid (map IOut (rev l1)) st).
Proof.
  intros E1 E2. split; [rewrite E2, E1, app_assoc; reflexivity|].
  rewrite rev_app_distr, map_app, own_run_app. reflexivity.
Qed.

Lemma mvs_K sid ls a b : mvs ls a b -> ls = [] -> forall st, SI a -> K sid a st ->
  exists l, sc_out b = l ++ sc_out a /\ K sid b (own_run sid (map IOut (rev l)) st).
Proof.
  induction 1 as [c|o ls a b c M MS IH]; intros EL st HS HK.
  - exists []. split; [reflexivity | exact HK].
  - destruct o; [discriminate|]. cbn [olist app] in EL.
    destruct (mv_K sid a b st M HS HK) as (l1 & E1 & K1).
    destruct (IH EL _ (SI_mv' _ _ _ M HS) K1) as (l2 & E2 & K2).
    destruct (K_chain sid a b c st l1 l2 E1 E2) as [E R]. exists (l2 ++ l1). split; [exact E|]. rewrite R. exact K2.
Qed.

Lemma omvs_K sid pc a b : omvs hstate pc a b -> forall st, K sid a st ->
  exists l, sc_out b = l ++ sc_out a /\ K sid b (own_run sid (map IOut (rev l)) st).
Proof.
  induction 1 as [c|a b c M MS IH]; intros st HK.
  - exists []. split; [reflexivity | exact HK].
  - destruct (omv_K sid pc a b st M HK) as (l1 & E1 & K1).
    destruct (IH _ K1) as (l2 & E2 & K2).
    destruct (K_chain sid a b c st l1 l2 E1 E2) as [E R]. exists (l2 ++ l1). split; [exact E|]. rewrite R. exact K2.
Qed.

(* ---------- one step, every event list ---------- *)
Lemma K_step sid c e st : SI c -> K sid c st ->
  K sid (step c e) (own_run sid (IEv e :: map IOut (delta c (step c e))) st).
Proof.
  intros HS HK.
  assert (SH := step_shape hstate dec_field enc_field enc_set_max cfg Q
           (QT_closed _ dec_field cfg) c e (SI_ids_ok _ _ _ _ HS)).
  assert (GEN : (forall sid0 r, e <> EvDone sid0 r) ->
                (exists c0, omvs hstate (parser_code e) c c0 /\ mvs [] c0 (step c e)) ->
                K sid (step c e) (own_run sid (IEv e :: map IOut (delta c (step c e))) st)).
  { intros NE (c0 & O & M).
    destruct (omvs_K sid _ _ _ O st HK) as (l1 & E1 & K1).
    destruct (mvs_K sid _ _ _ M eq_refl _ (SI_omvs' _ _ _ O HS) K1) as (l2 & E2 & K2).
    destruct (K_chain sid _ _ _ st l1 l2 E1 E2) as [E R].
    rewrite (delta_ext _ _ _ E). cbn [own_run fold_left].
    replace (own_step sid st (IEv e)) with st.
    - fold (own_run sid (map IOut (rev (l2 ++ l1))) st). rewrite R. exact K2.
    - destruct e; try reflexivity. exfalso. eapply NE. reflexivity. }
  destruct e as [i| |sid0 r|t| | | |]; try (apply GEN; [intros; discriminate | exact SH]).
  destruct SH as [(E & NOOP)|(Hd & b & M1 & M)].
  - (* nothing happens *)
    rewrite E. unfold delta. rewrite Nat.sub_diag. cbn [firstn rev map own_run fold_left own_step].
    destruct (sid0 =? sid) eqn:Es; [|exact HK]. apply N.eqb_eq in Es. subst sid0.
    destruct HK as [NB HJ]. destruct NOOP as [Hd|[TS NR]].
    + destruct st; (split; [try discriminate; try assumption | intro; congruence]).
    + destruct (sc_sl_done c) eqn:Hd; [destruct st; (split; [try discriminate; try assumption | intro; congruence])|].
      specialize (HJ eq_refl). destruct st; try (split; [assumption | intros _; assumption]).
      exfalso. cbn [J] in HJ. destruct HJ as [_ (s & I & Ei & R)]. apply in_app_or in I. destruct I as [I|I].
      * pose proof (NoDup_search _ s (proj1 (SI_ids_ok _ _ _ _ HS Hd)) I) as SS. rewrite Ei in SS.
        rewrite (NR s SS) in R. discriminate.
      * apply (take_stream_None _ _ TS s I Ei).
  - destruct (mv_K_done sid sid0 r c b st M1 HS HK) as (l1 & E1 & K1).
    destruct (mvs_K sid _ _ _ M eq_refl _ (SI_mv' _ _ _ M1 HS) K1) as (l2 & E2 & K2).
    assert (E : sc_out (step c (EvDone sid0 r)) = (l2 ++ l1) ++ sc_out c) by (rewrite E2, E1, app_assoc; reflexivity).
    rewrite (delta_ext _ _ _ E), rev_app_distr, map_app.
    change (IEv (EvDone sid0 r) :: map IOut (rev l1) ++ map IOut (rev l2))
      with ((IEv (EvDone sid0 r) :: map IOut (rev l1)) ++ map IOut (rev l2)).
    rewrite own_run_app. exact K2.
Qed.

Lemma SI_step_T c e : SI c -> SI (step c e).
Proof. apply SI_step. apply QT_closed. Qed.

Theorem own_safe_from sid evs : forall c st, SI c -> K sid c st -> own_run sid (log_from c evs) st <> Bad.
Proof.
  induction evs as [|e t IH]; intros c st HS HK; cbn [log_from].
  - cbn. apply HK.
  - change (IEv e :: map IOut (delta c (step c e)) ++ log_from (step c e) t)
      with ((IEv e :: map IOut (delta c (step c e))) ++ log_from (step c e) t).
    rewrite own_run_app. apply IH; [apply SI_step_T; assumption | apply K_step; assumption].
Qed.

(* C17 (b)(c) / C19 (a): for every event list and every stream id the ownership automaton never goes wrong *)
Theorem own_safe h0 evs sid : own_run sid (log h0 evs) Owned <> Bad.
Proof.
  apply own_safe_from.
  - apply (SI_init _ dec_field enc_field enc_set_max).
  - split; [discriminate|]. intros _ s []. 
Qed.

End Own.

(* ---------- the same, spelled out on the log ---------- *)
Lemma own_lent_or_bad sid l st : (st = Lent \/ st = Bad) -> (forall r, ~ In (IEv (EvDone sid r)) l) ->
  own_run sid l st = Lent \/ own_run sid l st = Bad.
Proof.
  revert st. induction l as [|i l IH]; intros st Hst NE; [assumption|]. cbn [own_run fold_left]. apply IH.
  - destruct i as [e|o]; [destruct e; try assumption|destruct o; try assumption]; cbn [own_step].
    + destruct (sid0 =? sid) eqn:E; [|assumption]. exfalso. apply (NE r). left. apply N.eqb_eq in E. subst. reflexivity.
    + destruct (sid0 =? sid); [|assumption]. destruct Hst as [-> | ->]; auto.
    + destruct (sid0 =? sid); [|assumption]. destruct Hst as [-> | ->]; auto.
  - intros r I. apply (NE r). right. assumption.
Qed.

Lemma own_pool_or_bad sid l st : (st = InPool \/ st = Bad) -> own_run sid l st = InPool \/ own_run sid l st = Bad.
Proof.
  revert st. induction l as [|i l IH]; intros st Hst; [assumption|]. cbn [own_run fold_left]. apply IH.
  destruct i as [e|o]; [destruct e; try assumption|destruct o; try assumption]; cbn [own_step];
    (destruct (_ =? sid); [|assumption]); destruct Hst as [-> | ->]; auto.
Qed.

Section OwnLog.
Variable hstate : Type.
Variable dec_field : hstate -> N -> bytes -> dec_res hstate.
Variable enc_field : hstate -> bytes -> bytes -> bool -> bytes * hstate.
Variable enc_set_max : hstate -> N -> hstate.
Variable cfg : config.
Variable h0 : hstate.
Notation log := (log hstate dec_field enc_field enc_set_max cfg h0).

(* a request context is not released while its handler runs *)
Theorem no_release_while_lent evs sid rq w l1 l2 l3 :
  log evs = l1 ++ IOut (ODispatch sid rq) :: l2 ++ IOut (ORelease sid w) :: l3 ->
  exists r, In (IEv (EvDone sid r)) l2.
Proof.
  intro E. pose proof (own_safe hstate dec_field enc_field enc_set_max cfg h0 evs sid) as S. rewrite E in S.
  destruct (existsb (fun i => match i with IEv (EvDone s _) => s =? sid | _ => false end) l2) eqn:EX.
  - apply existsb_exists in EX. destruct EX as (i & I & Hi). destruct i as [[]|]; try discriminate.
    apply N.eqb_eq in Hi. subst. eauto.
  - exfalso. apply S.
    rewrite own_run_app, own_run_cons, own_run_app, own_run_cons.
    assert (A : own_step sid (own_run sid l1 Owned) (IOut (ODispatch sid rq)) = Lent \/
                own_step sid (own_run sid l1 Owned) (IOut (ODispatch sid rq)) = Bad).
    { cbn [own_step]. rewrite N.eqb_refl. destruct (own_run sid l1 Owned); auto. }
    assert (B := own_lent_or_bad sid l2 _ A).
    destruct B as [B|B].
    + intros r I. assert (X : existsb (fun i => match i with IEv (EvDone s _) => s =? sid | _ => false end) l2 = true).
      { apply existsb_exists. exists (IEv (EvDone sid r)). split; [assumption | apply N.eqb_refl]. }
      congruence.
    + rewrite B. cbn [own_step]. rewrite N.eqb_refl. apply own_bad.
    + rewrite B. cbn [own_step]. rewrite N.eqb_refl. apply own_bad.
Qed.

(* a stream object goes back to its pool at most once *)
Theorem release_once evs sid w w' l1 l2 l3 :
  log evs = l1 ++ IOut (ORelease sid w) :: l2 ++ IOut (ORelease sid w') :: l3 -> False.
Proof.
  intro E. pose proof (own_safe hstate dec_field enc_field enc_set_max cfg h0 evs sid) as S. rewrite E in S.
  apply S.
  rewrite own_run_app, own_run_cons, own_run_app, own_run_cons.
  assert (A : own_step sid (own_run sid l1 Owned) (IOut (ORelease sid w)) = InPool \/
              own_step sid (own_run sid l1 Owned) (IOut (ORelease sid w)) = Bad).
  { cbn [own_step]. rewrite N.eqb_refl. destruct (own_run sid l1 Owned); auto. }
  destruct (own_pool_or_bad sid l2 _ A) as [B|B]; rewrite B; cbn [own_step]; rewrite N.eqb_refl; apply own_bad.
Qed.

(* and is not used after that *)
Theorem no_dispatch_after_release evs sid w rq l1 l2 l3 :
  log evs = l1 ++ IOut (ORelease sid w) :: l2 ++ IOut (ODispatch sid rq) :: l3 -> False.
Proof.
  intro E. pose proof (own_safe hstate dec_field enc_field enc_set_max cfg h0 evs sid) as S. rewrite E in S.
  apply S.
  rewrite own_run_app, own_run_cons, own_run_app, own_run_cons.
  assert (A : own_step sid (own_run sid l1 Owned) (IOut (ORelease sid w)) = InPool \/
              own_step sid (own_run sid l1 Owned) (IOut (ORelease sid w)) = Bad).
  { cbn [own_step]. rewrite N.eqb_refl. destruct (own_run sid l1 Owned); auto. }
  destruct (own_pool_or_bad sid l2 _ A) as [B|B]; rewrite B; cbn [own_step]; rewrite N.eqb_refl; apply own_bad.
Qed.

(* one handler per stream id, ever *)
Theorem dispatch_once evs sid rq rq' l1 l2 l3 :
  log evs = l1 ++ IOut (ODispatch sid rq) :: l2 ++ IOut (ODispatch sid rq') :: l3 -> False.
Proof.
  intro E. pose proof (own_safe hstate dec_field enc_field enc_set_max cfg h0 evs sid) as S. rewrite E in S.
  apply S.
  rewrite own_run_app, own_run_cons, own_run_app, own_run_cons.
  assert (A : own_step sid (own_run sid l1 Owned) (IOut (ODispatch sid rq)) <> Owned).
  { cbn [own_step]. rewrite N.eqb_refl. destruct (own_run sid l1 Owned); discriminate. }
  assert (B : own_run sid l2 (own_step sid (own_run sid l1 Owned) (IOut (ODispatch sid rq))) <> Owned).
  { revert A. generalize (own_step sid (own_run sid l1 Owned) (IOut (ODispatch sid rq))). clear.
    induction l2 as [|i l IH]; intros st A; [assumption|]. cbn [own_run fold_left]. apply IH.
    destruct i as [e|o]; [destruct e; try assumption|destruct o; try assumption]; cbn [own_step];
      (destruct (_ =? sid); [|assumption]); destruct st; try discriminate; congruence. }
  set (st2 := own_run sid l2 (own_step sid (own_run sid l1 Owned) (IOut (ODispatch sid rq)))) in *. clearbody st2.
  cbn [own_step]. rewrite N.eqb_refl.
  destruct st2; try contradiction; apply own_bad.
Qed.

End OwnLog.
