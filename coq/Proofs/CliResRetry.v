(* Proofs/CliResRetry.v - C11 (d): RoundTrip's loop over connections (client.go), as a function over the outcomes of
   the successive roundTripOnce calls. Pure Gallina; the per-connection facts come from Proofs/CliResGoAway.v. *)
From H2V Require Import Impl.ClientConn.
From Coq Require Import List Bool Arith Lia.
Import ListNotations.

(* what one roundTripOnce did, as far as servers can tell: the error it returned, whether the connection it picked
   wrote the request's HEADERS, and whether the server of that connection disclaimed the stream (GOAWAY with a
   last-stream-id below it) *)
Record attempt : Type := mkAttempt { at_err : cerr; at_sent : bool; at_disclaimed : bool }.

(* roundTripAttempts *)
Definition round_trip_attempts : nat := 4.

(* RoundTrip: for attempt := 0; ; attempt++ { err = roundTripOnce(); if err == nil || !retryable(err) { return false, err };
   if attempt == roundTripAttempts-1 { return true, err } }.
   outcomes: what each further roundTripOnce would return. Result: the attempts made, and (retry, err) as returned to
   fasthttp (None: the list of outcomes ran out, i.e. the loop is still going) *)
Fixpoint round_trip_from (n : nat) (outcomes : list attempt) : list attempt * option (bool * cerr) :=
  match outcomes with
  | [] => ([], None)
  | a :: rest =>
    if negb (cl_retryable (at_err a)) then ([a], Some (false, at_err a))
    else match n with
         | O => ([a], Some (true, at_err a))
         | S n' => let '(made, r) := round_trip_from n' rest in (a :: made, r)
         end
  end.
Definition round_trip (outcomes : list attempt) := round_trip_from (round_trip_attempts - 1) outcomes.

(* a server has (maybe) processed the request of this attempt: its HEADERS went out and were not disclaimed *)
Definition processed (a : attempt) : bool := at_sent a && negb (at_disclaimed a).

(* what Proofs/CliResGoAway.v (retry_sound) says of every connection *)
Definition attempt_sound (a : attempt) : Prop := cl_retryable (at_err a) = true -> processed a = false.

Lemma round_trip_from_spec n outcomes : Forall attempt_sound outcomes ->
  (length (fst (round_trip_from n outcomes)) <= S n)%nat /\
  (forall a, In a (removelast (fst (round_trip_from n outcomes))) -> processed a = false) /\
  (forall e, snd (round_trip_from n outcomes) = Some (true, e) ->
     cl_retryable e = true /\ forall a, In a (fst (round_trip_from n outcomes)) -> processed a = false).
Proof.
  revert outcomes. induction n as [|n IH]; intros outcomes H; destruct outcomes as [|a rest]; cbn [round_trip_from].
  - cbn. split; [lia|]. split; [intros a []|]. intros e E. discriminate.
  - inversion H as [|? ? Ha Hr]; subst. destruct (cl_retryable (at_err a)) eqn:R; cbn [negb fst snd length removelast].
    + split; [lia|]. split; [intros a0 []|]. intros e E. inversion E; subst. split; [exact R|]. intros a0 [<-|[]]. apply Ha, R.
    + split; [lia|]. split; [intros a0 []|]. intros e E. discriminate.
  - cbn. split; [lia|]. split; [intros a []|]. intros e E. discriminate.
  - inversion H as [|? ? Ha Hr]; subst. destruct (cl_retryable (at_err a)) eqn:R; cbn [negb].
    + destruct (IH rest Hr) as (L & P & Q). destruct (round_trip_from n rest) as [made r]. cbn [fst snd] in *.
      split; [cbn [length]; lia|]. split.
      * intros a0 H0. destruct made as [|b made]; [destruct H0|]. cbn [removelast] in H0. destruct H0 as [<-|H0]; [apply Ha, R | apply P, H0].
      * intros e E. destruct (Q e E) as [Q1 Q2]. split; [exact Q1|]. intros a0 [<-|H0]; [apply Ha, R | apply Q2, H0].
    + cbn [fst snd length removelast]. split; [lia|]. split; [intros a0 []|]. intros e E. discriminate.
Qed.

Lemma filter_nothing {A} (f : A -> bool) l : (forall a, In a l -> f a = false) -> filter f l = [].
Proof.
  induction l as [|a l IH]; intro H; [reflexivity|]. cbn [filter]. rewrite (H a); [|left; reflexivity]. apply IH. intros b Hb. apply H. right. exact Hb.
Qed.

Lemma filter_removelast_bound {A} (f : A -> bool) l : (forall a, In a (removelast l) -> f a = false) -> (length (filter f l) <= 1)%nat.
Proof.
  induction l as [|a l IH]; intro H; [cbn; lia|]. destruct l as [|b l].
  - cbn. destruct (f a); cbn; lia.
  - cbn [filter]. rewrite (H a); [|left; reflexivity]. apply IH. intros a0 H0. apply H. right. exact H0.
Qed.

(* C11 (d): over one RoundTrip the request's HEADERS reach a server that may process them at most once; every attempt
   but the last was turned away unprocessed; at most roundTripAttempts attempts; and when RoundTrip hands the request back
   to fasthttp as retryable no server can have processed it *)
Theorem round_trip_at_most_once outcomes : Forall attempt_sound outcomes ->
  let made := fst (round_trip outcomes) in
  (length made <= round_trip_attempts)%nat /\ (length (filter processed made) <= 1)%nat /\
  (forall a, In a (removelast made) -> processed a = false) /\
  (forall e, snd (round_trip outcomes) = Some (true, e) -> cl_retryable e = true /\ filter processed made = []).
Proof.
  intro H. cbv zeta. unfold round_trip. destruct (round_trip_from_spec (round_trip_attempts - 1) outcomes H) as (L & P & Q).
  split; [exact L|]. split; [apply filter_removelast_bound, P|]. split; [exact P|].
  intros e E. destruct (Q e E) as [Q1 Q2]. split; [exact Q1|]. apply filter_nothing, Q2.
Qed.
